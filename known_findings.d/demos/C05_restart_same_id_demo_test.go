package routing

import (
	"os"
	"testing"

	"github.com/dtn7/dtn7-go/pkg/bpv7"
	log "github.com/sirupsen/logrus"
)

// A clock-less application (zero creation time) submits a bundle, nobody is connected, the node restarts,
// the application submits another bundle: both must be waiting in the store.
func TestDemoRestartKeepsSecondBundle(t *testing.T) {
	log.SetLevel(log.ErrorLevel)
	dir, _ := os.MkdirTemp("", "demo")
	defer os.RemoveAll(dir)
	mk := func(payload string) bpv7.Bundle {
		b, err := bpv7.Builder().CRC(bpv7.CRC32).Source("dtn://n1/app").Destination("dtn://far/app").
			CreationTimestampEpoch().Lifetime("1h").BundleAgeBlock(0).PayloadBlock([]byte(payload)).Build()
		if err != nil {
			t.Fatal(err)
		}
		return b
	}
	c, err := verifNewCore(dir, "dtn://n1/", RoutingConf{Algorithm: "epidemic"})
	if err != nil {
		t.Fatal(err)
	}
	b1 := mk("first")
	c.SendBundle(&b1)
	nCloseCore(c)
	c, err = verifNewCore(dir, "dtn://n1/", RoutingConf{Algorithm: "epidemic"})
	if err != nil {
		t.Fatal(err)
	}
	b2 := mk("second")
	c.SendBundle(&b2)
	pend, _ := c.store.QueryPending()
	var payloads []string
	for _, bi := range pend {
		b, err := bi.Parts[0].Load()
		if err != nil {
			t.Fatal(err)
		}
		pb, _ := b.PayloadBlock()
		payloads = append(payloads, string(pb.Value.(*bpv7.PayloadBlock).Data()))
	}
	nCloseCore(c)
	if len(payloads) != 2 {
		t.Fatalf("pending bundles after restart and second submission: %v (ids %v, %v)", payloads, b1.ID(), b2.ID())
	}
}
