/-
C14: submissions that run one after the other are filed under fresh, pairwise different ids — from ANY
quiet state (any store, any IdKeeper state: after a restart, after `clean` dropped a counter), without
the retention hypothesis of `ids_distinct`.
-/
import Dtn7.Lemmas.IdKeeper

namespace Dtn7.IdKeeper.Lemmas
open Dtn7.IdKeeper

theorem step_at (subs : Nat → Sub) (n : Node) (i : Nat) (k : Nat) (ins : Instr)
    (hpc : (n.th i).pc = k) (hk : (prog Cfg.code)[k]? = some ins) :
    step Cfg.code subs n (.step i) = exec Cfg.code subs n i ins := by
  simp only [step, hpc, hk]

/-- What a step of thread `i` other than `push`/`send` leaves alone. -/
structure Frame (i : Nat) (n n' : Node) : Prop where
  store : n'.store = n.store
  sent : n'.sent = n.sent
  others : ∀ j, j ≠ i → n'.th j = n.th j

theorem Frame.trans {i : Nat} {a b c : Node} (h1 : Frame i a b) (h2 : Frame i b c) : Frame i a c :=
  ⟨h2.store.trans h1.store, h2.sent.trans h1.sent, fun j hj => (h2.others j hj).trans (h1.others j hj)⟩

theorem frame_setTh (n : Node) (i : Nat) (t : Th) : Frame i n (n.setTh i t) :=
  ⟨rfl, rfl, fun j hj => by simp [Node.setTh, hj]⟩

theorem frame_bump (n : Node) (i : Nat) : Frame i n (n.bump i) := frame_setTh n i _

/-- One submission, alone, from a state in which nobody holds the IdKeeper's mutex: it is filed under an id
the store did not know, everything else in the store stays, the mutex is free again, the thread is done. -/
theorem run_one (subs : Nat → Sub) (n : Node) (i : Nat) (hq : n.holder = none) (hpc : (n.th i).pc = 0) :
    ∃ q, knows n.store ⟨(subs i).key.source, (subs i).key.time, q⟩ = false ∧
      (run Cfg.code subs n (List.replicate 8 (.step i))).store =
        (⟨(subs i).key.source, (subs i).key.time, q⟩, ⟨⟨(subs i).key.source, (subs i).key.time, q⟩, (subs i).tag⟩) :: n.store ∧
      (run Cfg.code subs n (List.replicate 8 (.step i))).holder = none ∧
      ((run Cfg.code subs n (List.replicate 8 (.step i))).th i).pc = 8 ∧
      ((run Cfg.code subs n (List.replicate 8 (.step i))).th i).seq = q ∧
      ∀ j, j ≠ i → (run Cfg.code subs n (List.replicate 8 (.step i))).th j = n.th j := by
  -- lock
  have s1 := step_at subs n i 0 .lock hpc rfl
  simp only [exec, hq, if_true] at s1
  generalize hn1 : step Cfg.code subs n (.step i) = n1 at s1
  have f1 : Frame i n n1 := by rw [s1]; exact ⟨rfl, rfl, (frame_bump n i).others⟩
  have p1 : (n1.th i).pc = 1 := by rw [s1]; simp [Node.bump, hpc]
  -- read
  have s2 := step_at subs n1 i 1 .read p1 rfl
  generalize hn2 : step Cfg.code subs n1 (.step i) = n2 at s2
  have f2 : Frame i n1 n2 := by rw [s2]; exact frame_setTh n1 i _
  have p2 : (n2.th i).pc = 2 := by rw [s2]; simp [exec, p1]
  -- write
  have s3 := step_at subs n2 i 2 .write p2 rfl
  generalize hn3 : step Cfg.code subs n2 (.step i) = n3 at s3
  have f3 : Frame i n2 n3 := by rw [s3]; exact ⟨rfl, rfl, (frame_bump n2 i).others⟩
  have p3 : (n3.th i).pc = 3 := by rw [s3]; simp [exec, Node.bump, p2]
  -- stamp
  have s4 := step_at subs n3 i 3 .stamp p3 rfl
  generalize hn4 : step Cfg.code subs n3 (.step i) = n4 at s4
  have f4 : Frame i n3 n4 := by rw [s4]; exact ⟨rfl, rfl, (frame_setTh n3 i _).others⟩
  have p4 : (n4.th i).pc = 4 := by rw [s4]; simp [exec, p3]
  have q4 : (n4.th i).seq = stampSeq Cfg.code n3 (subs i).key := by rw [s4]; simp [exec]
  -- unlock
  have s5 := step_at subs n4 i 4 .unlock p4 rfl
  generalize hn5 : step Cfg.code subs n4 (.step i) = n5 at s5
  have f5 : Frame i n4 n5 := by rw [s5]; exact ⟨rfl, rfl, (frame_bump n4 i).others⟩
  have p5 : (n5.th i).pc = 5 := by rw [s5]; simp [exec, Node.bump, p4]
  have q5 : (n5.th i).seq = (n4.th i).seq := by rw [s5]; simp [exec, Node.bump]
  have h5 : n5.holder = none := by rw [s5]; simp [exec, Node.bump]
  -- clean
  have s6 := step_at subs n5 i 5 .clean p5 rfl
  simp only [exec, h5, Option.isSome_none, Bool.and_false, Bool.false_eq_true, if_false] at s6
  generalize hn6 : step Cfg.code subs n5 (.step i) = n6 at s6
  have f6 : Frame i n5 n6 := by rw [s6]; exact ⟨rfl, rfl, (frame_bump n5 i).others⟩
  have p6 : (n6.th i).pc = 6 := by rw [s6]; simp [Node.bump, p5]
  have q6 : (n6.th i).seq = (n5.th i).seq := by rw [s6]; simp [Node.bump]
  have h6 : n6.holder = none := by rw [s6]; simp [Node.bump, h5]
  -- the store has not changed since the number was stamped, and the stamped number is free
  have f36 : Frame i n3 n6 := (f4.trans f5).trans f6
  have f06 : Frame i n n6 := ((f1.trans f2).trans f3).trans f36
  have hseq : (n6.th i).seq = stampSeq Cfg.code n3 (subs i).key := by rw [q6, q5, q4]
  have hfree : knows n6.store (bundleOf subs n6 i).id = false := by
    have := stampSeq_free n3 (subs i).key
    rw [f36.store]
    simpa [bundleOf, idOf, hseq] using this
  -- push
  have s7 := step_at subs n6 i 6 .push p6 rfl
  simp only [exec, hfree, Bool.false_eq_true, if_false] at s7
  generalize hn7 : step Cfg.code subs n6 (.step i) = n7 at s7
  have p7 : (n7.th i).pc = 7 := by rw [s7]; simp [Node.bump, p6]
  have q7 : (n7.th i).seq = (n6.th i).seq := by rw [s7]; simp [Node.bump]
  have o7 : ∀ j, j ≠ i → n7.th j = n6.th j := by rw [s7]; exact (frame_bump n6 i).others
  have st7 : n7.store = ((bundleOf subs n6 i).id, bundleOf subs n6 i) :: n6.store := by rw [s7]
  have h7 : n7.holder = none := by rw [s7]; simp [Node.bump, h6]
  -- send
  have s8 := step_at subs n7 i 7 .send p7 rfl
  generalize hn8 : step Cfg.code subs n7 (.step i) = n8 at s8
  have p8 : (n8.th i).pc = 8 := by rw [s8]; simp [exec, Node.bump, p7]
  have q8 : (n8.th i).seq = (n7.th i).seq := by rw [s8]; simp [exec, Node.bump]
  have o8 : ∀ j, j ≠ i → n8.th j = n7.th j := by rw [s8]; exact (frame_bump n7 i).others
  have st8 : n8.store = n7.store := by rw [s8]; simp [exec, Node.bump]
  have h8 : n8.holder = none := by rw [s8]; simp [exec, Node.bump, h7]
  have hrun : run Cfg.code subs n (List.replicate 8 (.step i)) = n8 := by
    simp only [run, List.replicate, List.foldl]
    rw [hn1, hn2, hn3, hn4, hn5, hn6, hn7, hn8]
  rw [hrun]
  refine ⟨(n6.th i).seq, ?_, ?_, h8, p8, by rw [q8, q7], ?_⟩
  · have := hfree
    rw [f06.store] at this
    simpa [bundleOf, idOf] using this
  · rw [st8, st7, f06.store]
    simp [bundleOf, idOf]
  · intro j hj
    rw [o8 j hj, o7 j hj, f06.others j hj]

theorem run_append (c : Cfg) (subs : Nat → Sub) (n : Node) (a b : List Act) :
    run c subs n (a ++ b) = run c subs (run c subs n a) b := by
  simp [run, List.foldl_append]

/-- The schedule "each of the submissions `is` runs to completion before the next one starts". -/
def seqOf (is : List Nat) : List Act := is.flatMap (fun i => List.replicate 8 (Act.step i))

def idWith (subs : Nat → Sub) (i q : Nat) : BundleId := ⟨(subs i).key.source, (subs i).key.time, q⟩

/-- **Sequential submissions from any quiet state.** -/
theorem run_seq (subs : Nat → Sub) : ∀ (is : List Nat) (n : Node), n.holder = none → is.Nodup →
    (∀ i ∈ is, (n.th i).pc = 0) →
    (run Cfg.code subs n (seqOf is)).holder = none ∧
    (run Cfg.code subs n (seqOf is)).store.length = n.store.length + is.length ∧
    (∀ e ∈ n.store, e ∈ (run Cfg.code subs n (seqOf is)).store) ∧
    ((n.store.map (·.1)).Nodup → ((run Cfg.code subs n (seqOf is)).store.map (·.1)).Nodup) ∧
    (∀ i ∈ is, ∃ q, (idWith subs i q, (⟨idWith subs i q, (subs i).tag⟩ : Bundle)) ∈ (run Cfg.code subs n (seqOf is)).store ∧
      knows n.store (idWith subs i q) = false)
  | [], n, hq, _, _ => ⟨hq, rfl, fun _ h => h, id, fun _ h => by cases h⟩
  | i :: is, n, hq, hnd, hpc => by
    have hi : (n.th i).pc = 0 := hpc i List.mem_cons_self
    rcases run_one subs n i hq hi with ⟨q, hfree, hst, hh, _, _, hoth⟩
    have hsplit : seqOf (i :: is) = List.replicate 8 (Act.step i) ++ seqOf is := by
      simp [seqOf, List.flatMap_cons]
    rw [hsplit, run_append]
    generalize run Cfg.code subs n (List.replicate 8 (Act.step i)) = n1 at hst hh hoth
    have hnd' := List.nodup_cons.mp hnd
    have ih := run_seq subs is n1 hh hnd'.2 (by
      intro j hj
      have hji : j ≠ i := fun e => hnd'.1 (e ▸ hj)
      rw [hoth j hji]
      exact hpc j (List.mem_cons_of_mem _ hj))
    rcases ih with ⟨h1, h2, h3, h4, h5⟩
    refine ⟨h1, ?_, ?_, ?_, ?_⟩
    · rw [h2, hst]; simp; omega
    · intro e he
      exact h3 e (by rw [hst]; exact List.mem_cons_of_mem _ he)
    · intro hn
      apply h4
      rw [hst]
      simp only [List.map_cons, List.nodup_cons]
      refine ⟨?_, hn⟩
      intro hmem
      rcases List.mem_map.mp hmem with ⟨e, he, hek⟩
      have : knows n.store ⟨(subs i).key.source, (subs i).key.time, q⟩ = true := by
        simp only [knows, List.any_eq_true, decide_eq_true_eq]
        exact ⟨e, he, hek⟩
      rw [hfree] at this
      cases this
    · intro j hj
      rcases List.mem_cons.mp hj with rfl | hj'
      · refine ⟨q, h3 _ (by rw [hst]; exact List.mem_cons_self), hfree⟩
      · rcases h5 j hj' with ⟨q', hm, hk⟩
        refine ⟨q', hm, ?_⟩
        -- not known to the larger store, hence not to the smaller one
        cases hkn : knows n.store (idWith subs j q') with
        | false => rfl
        | true =>
          exfalso
          simp only [knows, List.any_eq_true, decide_eq_true_eq] at hkn
          rcases hkn with ⟨e, he, hek⟩
          have : knows n1.store (idWith subs j q') = true := by
            simp only [knows, List.any_eq_true, decide_eq_true_eq]
            exact ⟨e, by rw [hst]; exact List.mem_cons_of_mem _ he, hek⟩
          rw [hk] at this
          cases this

end Dtn7.IdKeeper.Lemmas
