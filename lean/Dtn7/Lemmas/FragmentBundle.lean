/-
Lengths of the codec's encodings as far as fragmentation needs them: a block is never longer than the
same block with CRC-32, the fragment primary block grows by exactly the two heads of offset and total,
the payload block by head and bytes of the slice — hence `fragSize (inOf b mtu) f` IS the length of the
real serialisation of the real fragment.
-/
import Dtn7.Model.FragmentBundle
import Dtn7.Lemmas.Fragment
import Dtn7.Lemmas.Cbor

namespace Dtn7.Frag.Lemmas
open Dtn7.Frag Dtn7.Cbor Dtn7.Cbor.Lemmas Dtn7.Bundle

/-- Length of the CRC field by CRC type (1 head byte + 2 or 4 bytes; nothing for type 0 and for an
unknown type, which cannot be serialised at all). -/
def crcLen (t : Nat) : Nat := if t = 0 then 0 else if t = 1 then 3 else if t = 2 then 5 else 0

theorem encBytes_length (d : Bytes) : (encBytes d).length = headLen d.length + d.length := by
  simp [encBytes, encHead_length]

theorem crcField_length (t : Nat) (body : Bytes) : (crcField t body).length = crcLen t := by
  unfold crcField crcLen crcValue
  by_cases h0 : t = 0
  · simp [h0, crcNo]
  · by_cases h1 : t = 1
    · simp [h1, crcNo, crc16T, encBytes_length, beBytes_length, headLen]
    · by_cases h2 : t = 2
      · simp [h2, crcNo, crc16T, crc32T, encBytes_length, beBytes_length, headLen]
      · simp [h0, h1, h2, crcNo, crc16T, crc32T]

theorem headLen_small {n : Nat} (h : n < 24) : headLen n = 1 := by simp [headLen, h]

/-- Encoded length of a canonical block, field by field. -/
theorem encCanonRaw_length (c : Canonical) : (encCanonRaw c).length =
    1 + headLen c.typeCode + headLen c.num + headLen c.flags + headLen c.crcT +
      (headLen (encValueInner c.value).length + (encValueInner c.value).length) + crcLen c.crcT := by
  have ha : (encArray (if c.hasCrc then 6 else 5)).length = 1 := by
    unfold encArray; rw [encHead_length]; split <;> exact headLen_small (by decide)
  simp only [encCanonRaw, encCanonBody, List.length_append, crcField_length, ha, encUInt, encHead_length,
    encBytes_length]

/-- **Pricing, extension blocks**: a block with a known CRC type is never longer than the same block
encoded with CRC-32. -/
theorem actual_le_priced (c : Canonical) (h : crcKnown c.crcT = true) :
    (encCanonRaw c).length ≤ (encCanonRaw { c with crcT := crc32T }).length := by
  rw [encCanonRaw_length, encCanonRaw_length]
  have hk : c.crcT ≤ 2 := by simpa [crcKnown] using h
  have h1 : headLen c.crcT = 1 := headLen_small (by omega)
  have h2 : headLen crc32T = 1 := by decide
  have h3 : crcLen c.crcT ≤ crcLen crc32T := by
    have : c.crcT = 0 ∨ c.crcT = 1 ∨ c.crcT = 2 := by omega
    rcases this with h | h | h <;> simp [h, crcLen, crc32T]
  simp only [Canonical.typeCode, h1, h2] at *
  omega

/-- The payload block with a slice: the block with an empty payload, minus the one-byte head of the
empty byte string, plus head and bytes of the slice. -/
theorem payload_block_length (p : Canonical) (s : Bytes) :
    (encCanonRaw { p with value := .payload s }).length =
      (encCanonRaw { p with value := .payload [] }).length + headLen s.length + s.length - 1 := by
  rw [encCanonRaw_length, encCanonRaw_length]
  have : headLen 0 = 1 := by decide
  simp only [Canonical.typeCode, BlockValue.typeCode, encValueInner, List.length_nil, this]
  omega

theorem fragPrimary_isFragment (p : Primary) (off total : Nat) : (fragPrimary p off total).isFragment = true := by
  simp [fragPrimary, Primary.isFragment, has, Nat.testBit_or, Nat.testBit_two_pow_self]

/-- **The primary block estimate is exact**: `fragmentPrimaryBlock(pb, off, total)` is the block with
offset 0 / total 0 minus their two one-byte heads plus the heads of `off` and `total`. -/
theorem fragPrimary_length (p : Primary) (off total : Nat) :
    (encPrimaryRaw (fragPrimary p off total)).length =
      (encPrimaryRaw (fragPrimary p 0 0)).length - 2 + headLen off + headLen total := by
  have hf := fragPrimary_isFragment p off total
  have hf0 := fragPrimary_isFragment p 0 0
  have h0 : headLen 0 = 1 := by decide
  have hal : (fragPrimary p off total).arrayLen = (fragPrimary p 0 0).arrayLen := rfl
  simp only [encPrimaryRaw, encPrimaryBody, List.length_append, crcField_length, hf, hf0, if_true, hal,
    encUInt, encHead_length, encArray]
  simp only [fragPrimary]
  omega

theorem encBlocksRaw_length_sum (cs : List Canonical) :
    (encBlocksRaw cs).length = (cs.map fun c => (encCanonRaw c).length).sum := by
  induction cs with
  | nil => rfl
  | cons c cs ih => simp [encBlocksRaw, ih]

theorem encBlocksRaw_append (a b : List Canonical) : encBlocksRaw (a ++ b) = encBlocksRaw a ++ encBlocksRaw b := by
  induction a with
  | nil => rfl
  | cons c cs ih => simp [encBlocksRaw, ih]

/-- The extension blocks the model carries at local index `j` are the ones the real loop copies. -/
theorem sumActual_carried (b : Bundle) (mtu j : Nat) :
    sumActual (carried (inOf b mtu) j) =
      (encBlocksRaw (b.blocks.filter fun c => c.typeCode != tPayload && (decide (j = 0) || has c.flags kReplicate))).length := by
  rw [encBlocksRaw_length_sum]
  unfold carried sumActual
  by_cases hj : j = 0
  · simp only [hj, if_true, inOf, List.map_map, decide_true, Bool.true_or, Bool.and_true]
    rfl
  · simp only [hj, if_false, inOf, repBlocks, List.filter_map, List.filter_filter, List.map_map,
      decide_false, Bool.false_or]
    congr 1
    congr 1
    apply List.filter_congr
    intro c _
    simp [Function.comp, blkOf, isExt, Bool.and_comm]

/-- **`fragSize` is the real serialised length** of the real fragment, for every model fragment cut
at local index `j` from a bundle that has a payload block. -/
theorem fragSize_eq_real (c : Cfg) (b : Bundle) (mtu j : Nat) (d : Bytes) (p : Canonical)
    (hp : payloadBlock? b = some p) :
    fragSize (inOf b mtu) ⟨base c (inOf b mtu) + j, tot c (inOf b mtu), d, carried (inOf b mtu) j⟩ =
      (serializeRaw (fragmentOf b (decide (j = 0)) (base c (inOf b mtu) + j) (tot c (inOf b mtu)) d)).length := by
  have hp' : b.blocks.find? (fun c => c.typeCode == tPayload) = some p := hp
  have hpl : (inOf b mtu).pl = pblkOf p := by simp [inOf, hp]
  have hpb : (inOf b mtu).pbase = (encPrimaryRaw (fragPrimary b.primary 0 0)).length - 2 := rfl
  simp only [fragPrimary] at hpb
  have hprim := fragPrimary_length b.primary (base c (inOf b mtu) + j) (tot c (inOf b mtu))
  have hpay := payload_block_length p d
  have hcar := sumActual_carried b mtu j
  simp only [fragSize, primLen, hpl, hpb, pblkOf, cborOverhead, serializeRaw, fragmentOf, hp',
    List.length_cons, List.length_append, encBlocksRaw_append, encBlocksRaw, List.length_nil, List.append_nil]
  simp only [fragPrimary] at hprim
  rw [hprim, hpay, hcar]
  have h1 := headLen_pos d.length
  have h2 : 1 ≤ (encCanonRaw { p with value := BlockValue.payload [] }).length := by
    rw [encCanonRaw_length]; omega
  omega

end Dtn7.Frag.Lemmas
