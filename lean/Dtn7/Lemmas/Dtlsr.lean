/-
Helper lemmas for C20 (DTLSR). Property-level statements are in `Dtn7.Props.C20`.

  §A  walks, potentials, soundness of the certificate checker `checkTable`
  §B  link-state reception: order freedom, the stored entry is the newest
  §C  choice of convergence senders (filterCLAs, broadcast histories)
  §D  Bellman–Ford: n rounds are exact for weights ≥ 0 (simple paths, pigeonhole); the reference table
  §E  the ported library loop: label-correcting invariant (incl. acyclic predecessors), termination
      measure, correctness of `libShortest`/`libTable`
  §F  the graph `computeRoutingTable` builds (costs ≥ 0 for past loss times); unicast sender choice
  §G  the node index (nodeIndex / indexNode are inverse bijections, own node = 0)
-/
import Dtn7.Model.Dtlsr

namespace Dtn7.Dtlsr.Lemmas
open Dtn7.Dtlsr

/-! ## §A Walks and the certificate checker -/

theorem Walk.trans {g : Graph} {u v x : Nat} {c₁ c₂ : Int} (h₁ : Walk g u v c₁) (h₂ : Walk g v x c₂) :
    Walk g u x (c₁ + c₂) := by
  induction h₁ with
  | nil u => simpa using h₂
  | cons ha _ ih =>
    have := Walk.cons ha (ih h₂)
    simpa [Int.add_assoc] using this

theorem Walk.single {g : Graph} {u v : Nat} {w : Int} (ha : (u, v, w) ∈ g.arcs) : Walk g u v w := by
  simpa using Walk.cons ha (Walk.nil v)

/-- Walks never leave the vertex set when every arc ends in it. -/
theorem walk_end_lt {g : Graph} (hwf : ∀ e ∈ g.arcs, e.2.1 < g.n) {u v : Nat} {c : Int}
    (h : Walk g u v c) : v = u ∨ v < g.n := by
  induction h with
  | nil u => exact Or.inl rfl
  | @cons u v x w c ha _ ih =>
    rcases ih with h | h
    · right; subst h; exact hwf _ ha
    · exact Or.inr h

/-- Feasible potentials on a closed labelled set bound every walk from below. -/
theorem walk_lower {g : Graph} {pot : Nat → Option Int}
    (hf : ∀ e ∈ g.arcs, arcFeasible pot e = true) {u v : Nat} {c : Int} (h : Walk g u v c) :
    ∀ pu, pot u = some pu → ∃ pv, pot v = some pv ∧ pv ≤ pu + c := by
  induction h with
  | nil u => intro pu hpu; exact ⟨pu, hpu, by omega⟩
  | @cons u v x w c ha _ ih =>
    intro pu hpu
    have hfe := hf _ ha
    simp only [arcFeasible, hpu] at hfe
    cases hpv : pot v with
    | none => simp [hpv] at hfe
    | some pv =>
      simp only [hpv, decide_eq_true_eq] at hfe
      obtain ⟨px, hpx, hle⟩ := ih pv hpv
      exact ⟨px, hpx, by omega⟩

theorem tightArc_spec {g : Graph} {pot : Nat → Option Int} {a b : Nat}
    (h : tightArc g pot a b = true) :
    ∃ w pa pb, (a, b, w) ∈ g.arcs ∧ pot a = some pa ∧ pot b = some pb ∧ pa + w = pb := by
  simp only [tightArc, List.any_eq_true, Bool.and_eq_true, beq_iff_eq] at h
  obtain ⟨⟨x, y, w⟩, hmem, ⟨hx, hy⟩, hm⟩ := h
  simp only at hx hy
  subst hx; subst hy
  cases hpa : pot x with
  | none => simp [hpa] at hm
  | some pa =>
    cases hpb : pot y with
    | none => simp [hpa, hpb] at hm
    | some pb =>
      simp only [hpa, hpb, beq_iff_eq] at hm
      exact ⟨w, pa, pb, hmem, rfl, rfl, hm⟩

/-- A tight vertex list is a walk whose cost is the difference of the potentials of its ends. -/
theorem tightPath_walk {g : Graph} {pot : Nat → Option Int} :
    ∀ (p : List Nat) (a z : Nat), tightPath g pot (a :: p) = true → (a :: p).getLast? = some z →
      ∀ pa, pot a = some pa → ∃ pz, pot z = some pz ∧ Walk g a z (pz - pa) := by
  intro p
  induction p with
  | nil =>
    intro a z _ hl pa hpa
    simp at hl
    subst hl
    exact ⟨pa, hpa, by simpa using Walk.nil a⟩
  | cons b rest ih =>
    intro a z ht hl pa hpa
    simp only [tightPath, Bool.and_eq_true] at ht
    obtain ⟨w, pa', pb, hmem, hpa', hpb, hsum⟩ := tightArc_spec ht.1
    have hl' : (b :: rest).getLast? = some z := by
      simpa [List.getLast?_cons_cons] using hl
    obtain ⟨pz, hpz, hw⟩ := ih b z ht.2 hl' pb hpb
    refine ⟨pz, hpz, ?_⟩
    have hpaeq : pa' = pa := by rw [hpa] at hpa'; exact (Option.some.inj hpa').symm
    have := Walk.cons hmem hw
    have e : w + (pz - pb) = pz - pa := by omega
    rwa [e] at this

theorem pathOk_spec {g : Graph} {pot : Nat → Option Int} {h d : Nat} {p : List Nat} {p0 : Int}
    (hp0 : pot 0 = some p0) (hok : pathOk g pot h d p = true) :
    ∃ w c pd, (0, h, w) ∈ g.arcs ∧ Walk g h d c ∧ pot d = some pd ∧ pd = p0 + (w + c) := by
  match p, hok with
  | a :: b :: rest, hok =>
    simp only [pathOk, Bool.and_eq_true, beq_iff_eq] at hok
    obtain ⟨⟨⟨ha, hb⟩, hlast⟩, ht⟩ := hok
    subst ha; subst hb
    simp only [tightPath, Bool.and_eq_true] at ht
    obtain ⟨w, pa, pb, hmem, hpa, hpb, hsum⟩ := tightArc_spec ht.1
    obtain ⟨pz, hpz, hw⟩ := tightPath_walk rest b d ht.2 hlast pb hpb
    have : pa = p0 := by rw [hp0] at hpa; exact (Option.some.inj hpa).symm
    exact ⟨w, pz - pb, pz, hmem, hw, hpz, by omega⟩

theorem lookup_mem {t : Table} {d h : Nat} (hl : lookup t d = some h) : (d, h) ∈ t := by
  induction t with
  | nil => simp [lookup] at hl
  | cons e rest ih =>
    obtain ⟨k, v⟩ := e
    simp only [lookup] at hl
    split at hl
    · rename_i hk
      subst hk
      simp at hl
      subst hl
      exact List.mem_cons_self
    · exact List.mem_cons_of_mem _ (ih hl)

/-- **Soundness of the certificate checker**, for every graph (any size, any weights — feasible
potentials exist only if there is no negative cycle, so nothing has to be assumed). -/
theorem checker_sound (g : Graph) (t : Table) (c : Cert) (hc : checkTable g t c = true) :
    MinCostNextHop g (lookup t) := by
  simp only [checkTable, Bool.and_eq_true, List.all_eq_true, decide_eq_true_eq, beq_iff_eq,
    List.mem_range, Bool.or_eq_true, bne_iff_ne, ne_eq] at hc
  obtain ⟨⟨⟨⟨⟨hwf, hn⟩, hp0⟩, hfeas⟩, hkeys⟩, hrows⟩ := hc
  have hwf2 : ∀ e ∈ g.arcs, e.2.1 < g.n := fun e he => (hwf e he).2
  -- every vertex reachable from 0 is labelled and its label bounds every walk
  have hlow : ∀ {v : Nat} {cw : Int}, Walk g 0 v cw → ∃ pv, c.potAt v = some pv ∧ pv ≤ cw := by
    intro v cw hw
    obtain ⟨pv, hpv, hle⟩ := walk_lower hfeas hw 0 hp0
    exact ⟨pv, hpv, by omega⟩
  constructor
  · intro d
    constructor
    · intro hsome
      obtain ⟨h, hh⟩ := Option.isSome_iff_exists.mp hsome
      have hk := hkeys _ (lookup_mem hh)
      simp only at hk
      refine ⟨hk.1, ?_⟩
      have hrow := hrows d hk.2
      rcases hrow with h0 | hrow
      · exact absurd h0 hk.1
      · rw [hh] at hrow
        cases hpd : c.potAt d with
        | none => simp [hpd] at hrow
        | some pd =>
          simp only [hpd] at hrow
          obtain ⟨w, cw, _, hmem, hwalk, _, _⟩ := pathOk_spec hp0 hrow
          exact ⟨w + cw, Walk.cons hmem hwalk⟩
    · rintro ⟨hd0, cw, hw⟩
      have hlt : d < g.n := by
        rcases walk_end_lt hwf2 hw with h | h
        · exact absurd h hd0
        · exact h
      obtain ⟨pv, hpv, _⟩ := hlow hw
      rcases hrows d hlt with h0 | hrow
      · exact absurd h0 hd0
      · rw [hpv] at hrow
        cases hl : lookup t d with
        | none => simp [hl] at hrow
        | some h => rfl
  · intro d h hh
    have hk := hkeys _ (lookup_mem hh)
    simp only at hk
    rcases hrows d hk.2 with h0 | hrow
    · exact absurd h0 hk.1
    · rw [hh] at hrow
      cases hpd : c.potAt d with
      | none => simp [hpd] at hrow
      | some pd =>
        simp only [hpd] at hrow
        obtain ⟨w, cw, pd', hmem, hwalk, hpd', hsum⟩ := pathOk_spec hp0 hrow
        refine ⟨w, cw, hmem, hwalk, Walk.cons hmem hwalk, ?_⟩
        intro c' hw'
        obtain ⟨pv, hpv, hle⟩ := hlow hw'
        rw [hpd'] at hpv
        have : pd' = pv := Option.some.inj hpv
        omega

/-! ## §B Link-state reception -/

theorem notifyData_of_not_accepts {r : Nat → Option PeerData} {d : PeerData}
    (h : notifyAccepts r d = false) : notifyData r d = r := by
  unfold notifyAccepts at h
  unfold notifyData
  split <;> simp_all

/-- Data that is not strictly newer than what is stored changes nothing. -/
theorem notifyData_not_newer {r : Nat → Option PeerData} {d stored : PeerData}
    (hs : r d.id = some stored) (ht : d.timestamp ≤ stored.timestamp) : notifyData r d = r := by
  unfold notifyData
  rw [hs]
  have : shouldReplace d stored = false := by simp [shouldReplace]; omega
  simp [this]

/-- What `notifyData` keeps for a node: the stored data unless the new one is strictly newer. -/
def newer (o : Option PeerData) (d : PeerData) : Option PeerData :=
  match o with
  | none => some d
  | some st => if d.timestamp > st.timestamp then some d else some st

theorem notifyData_apply (r : Nat → Option PeerData) (d : PeerData) (x : Nat) :
    notifyData r d x = if x = d.id then newer (r d.id) d else r x := by
  unfold notifyData newer shouldReplace
  cases hr : r d.id with
  | none => simp [upd]
  | some st =>
    by_cases hgt : d.timestamp > st.timestamp
    · simp [hgt, upd]
    · by_cases hx : x = d.id
      · simp [hgt, hx, hr]
      · simp [hgt, hx]

theorem newer_comm (o : Option PeerData) (a b : PeerData)
    (h : a.timestamp = b.timestamp → a = b) : newer (newer o a) b = newer (newer o b) a := by
  cases o with
  | none =>
    simp only [newer]
    rcases Nat.lt_trichotomy a.timestamp b.timestamp with hlt | heq | hgt
    · have : ¬ a.timestamp > b.timestamp := by omega
      simp [hlt, this]
    · rw [h heq]
    · have : ¬ b.timestamp > a.timestamp := by omega
      simp [hgt, this]
  | some st =>
    simp only [newer]
    by_cases h1 : a.timestamp > st.timestamp <;> by_cases h2 : b.timestamp > st.timestamp <;>
      simp only [h1, h2, if_true, if_false]
    · rcases Nat.lt_trichotomy a.timestamp b.timestamp with hlt | heq | hgt
      · have : ¬ a.timestamp > b.timestamp := by omega
        simp [hlt, this]
      · rw [h heq]
      · have : ¬ b.timestamp > a.timestamp := by omega
        simp [hgt, this]
    · have : ¬ b.timestamp > a.timestamp := by omega
      simp [this]
    · have : ¬ a.timestamp > b.timestamp := by omega
      simp [this]

/-- Two updates commute unless they are different data of the same node with the same timestamp. -/
theorem notifyData_comm (r : Nat → Option PeerData) (a b : PeerData)
    (h : a.id = b.id → a.timestamp = b.timestamp → a = b) :
    notifyData (notifyData r a) b = notifyData (notifyData r b) a := by
  funext x
  simp only [notifyData_apply]
  by_cases hid : a.id = b.id
  · simp only [hid, if_true]
    by_cases hx : x = b.id
    · simp only [hx, if_true]
      exact newer_comm _ a b (h hid)
    · simp [hx]
  · have hid' : ¬ b.id = a.id := fun e => hid e.symm
    by_cases hxa : x = a.id
    · subst hxa
      simp [hid]
    · by_cases hxb : x = b.id
      · subst hxb
        simp [hid']
      · simp [hxa, hxb]

/-- **Order freedom**: the stored link state does not depend on the arrival order, provided two
different updates of one node never carry the same timestamp. -/
theorem foldl_notifyData_perm {l₁ l₂ : List PeerData} (hp : l₁.Perm l₂)
    (hd : ∀ a ∈ l₁, ∀ b ∈ l₁, a.id = b.id → a.timestamp = b.timestamp → a = b)
    (r : Nat → Option PeerData) : l₁.foldl notifyData r = l₂.foldl notifyData r := by
  induction hp generalizing r with
  | nil => rfl
  | cons x _ ih =>
    simp only [List.foldl_cons]
    exact ih (fun a ha b hb => hd a (List.mem_cons_of_mem _ ha) b (List.mem_cons_of_mem _ hb)) _
  | swap x y l =>
    simp only [List.foldl_cons]
    rw [notifyData_comm r y x (hd y (by simp) x (by simp))]
  | trans h₁ _ ih₁ ih₂ =>
    rw [ih₁ hd r]
    exact ih₂ (fun a ha b hb => hd a (h₁.mem_iff.mpr ha) b (h₁.mem_iff.mpr hb)) r

theorem received_foldl_notify (l : List PeerData) (s : State) :
    (l.foldl State.notify s).received = l.foldl notifyData s.received := by
  induction l generalizing s with
  | nil => rfl
  | cons d rest ih =>
    simp only [List.foldl_cons]
    rw [ih]
    congr 1
    unfold State.notify
    split
    · rfl
    · rename_i h
      exact (notifyData_of_not_accepts (by simpa using h)).symm

/-! ### The model stores what the link-state Spec (`expectedStored`) demands -/

theorem foldl_max_ge (l : List PeerData) (m0 : Nat) :
    m0 ≤ l.foldl (fun m d => max m d.timestamp) m0 ∧
    ∀ x ∈ l, x.timestamp ≤ l.foldl (fun m d => max m d.timestamp) m0 := by
  induction l generalizing m0 with
  | nil => simp
  | cons d rest ih =>
    simp only [List.foldl_cons]
    obtain ⟨h1, h2⟩ := ih (max m0 d.timestamp)
    refine ⟨by omega, ?_⟩
    intro x hx
    rcases List.mem_cons.mp hx with rfl | hx
    · omega
    · exact h2 x hx

theorem le_maxTs {l : List PeerData} {x : PeerData} (hx : x ∈ l) : x.timestamp ≤ maxTs l :=
  (foldl_max_ge l 0).2 x hx

theorem maxTs_append (l : List PeerData) (d : PeerData) :
    maxTs (l ++ [d]) = max (maxTs l) d.timestamp := by
  simp [maxTs, List.foldl_append]

/-- The entry that must be stored after the updates `l` of one node. -/
def best (l : List PeerData) : Option PeerData := l.find? (·.timestamp == maxTs l)

theorem best_some {l : List PeerData} {st : PeerData} (h : best l = some st) :
    st ∈ l ∧ st.timestamp = maxTs l := by
  unfold best at h
  exact ⟨List.mem_of_find?_eq_some h, by simpa using List.find?_some h⟩

/-- A fold of `max` that moved away from its start value is attained by an element. -/
theorem foldl_max_attained (l : List PeerData) : ∀ a : Nat,
    l.foldl (fun m d => max m d.timestamp) a ≠ a →
    ∃ x ∈ l, x.timestamp = l.foldl (fun m d => max m d.timestamp) a := by
  induction l with
  | nil => intro a h; exact absurd rfl h
  | cons e es ihe =>
    intro a h
    simp only [List.foldl_cons] at h ⊢
    by_cases hs : es.foldl (fun m d => max m d.timestamp) (max a e.timestamp) = max a e.timestamp
    · refine ⟨e, List.mem_cons_self, ?_⟩
      rw [hs] at h ⊢
      omega
    · obtain ⟨x, hx, hxe⟩ := ihe _ hs
      exact ⟨x, List.mem_cons_of_mem _ hx, hxe⟩

theorem best_none {l : List PeerData} (h : best l = none) : l = [] := by
  match l, h with
  | [], _ => rfl
  | x :: rest, h =>
    exfalso
    unfold best at h
    have hnone := List.find?_eq_none.mp h
    by_cases hz : maxTs (x :: rest) = 0
    · have := le_maxTs (l := x :: rest) (x := x) List.mem_cons_self
      have := hnone x List.mem_cons_self
      simp at this; omega
    · obtain ⟨y, hy, hye⟩ := foldl_max_attained (x :: rest) 0 hz
      have := hnone y hy
      simp [maxTs, hye] at this

theorem best_snoc (l : List PeerData) (d : PeerData) : best (l ++ [d]) = newer (best l) d := by
  cases hb : best l with
  | none =>
    have := best_none hb
    subst this
    simp [best, maxTs, newer]
  | some st =>
    obtain ⟨hmem, hts⟩ := best_some hb
    simp only [newer]
    by_cases hgt : d.timestamp > st.timestamp
    · simp only [hgt, if_true]
      unfold best
      rw [maxTs_append, List.find?_append]
      have hmax : max (maxTs l) d.timestamp = d.timestamp := by omega
      rw [hmax]
      have : l.find? (fun x => x.timestamp == d.timestamp) = none := by
        apply List.find?_eq_none.mpr
        intro x hx
        have := le_maxTs hx
        simp; omega
      simp [this]
    · simp only [hgt, if_false]
      unfold best
      rw [maxTs_append, List.find?_append]
      have hmax : max (maxTs l) d.timestamp = maxTs l := by omega
      rw [hmax]
      unfold best at hb
      simp [hb]

theorem foldl_newer_best (l pre : List PeerData) :
    l.foldl newer (best pre) = best (pre ++ l) := by
  induction l generalizing pre with
  | nil => simp
  | cons d rest ih =>
    simp only [List.foldl_cons]
    rw [← best_snoc, ih]
    simp

theorem foldl_notifyData_apply (l : List PeerData) (r : Nat → Option PeerData) (id : Nat) :
    l.foldl notifyData r id = (l.filter (·.id == id)).foldl newer (r id) := by
  induction l generalizing r with
  | nil => rfl
  | cons d rest ih =>
    simp only [List.foldl_cons]
    rw [ih]
    by_cases hd : d.id = id
    · subst hd
      simp [notifyData_apply]
    · have : ¬ id = d.id := fun e => hd e.symm
      simp [hd, notifyData_apply, this]

/-- The model meets the link-state Spec the driver evaluates on the implementation. -/
theorem foldl_notifyData_expected (l : List PeerData) (id : Nat) :
    l.foldl notifyData (fun _ => none) id = expectedStored l id := by
  rw [foldl_notifyData_apply]
  have := foldl_newer_best (l.filter (·.id == id)) []
  simp only [List.nil_append] at this
  have hb : best ([] : List PeerData) = none := rfl
  rw [hb] at this
  rw [this]
  rfl

/-! ## §C Choice of convergence senders -/

theorem filterCLAs_spec (clas : List Nat) : ∀ sent : List Nat,
    (filterCLAs sent clas).2 = sent ++ (filterCLAs sent clas).1 ∧
    (filterCLAs sent clas).1.Nodup ∧
    (∀ c ∈ (filterCLAs sent clas).1, c ∈ clas ∧ c ∉ sent) ∧
    (∀ c ∈ clas, c ∈ sent ∨ c ∈ (filterCLAs sent clas).1) := by
  induction clas with
  | nil => intro sent; simp [filterCLAs]
  | cons c cs ih =>
    intro sent
    by_cases hc : sent.contains c = true
    · obtain ⟨h1, h2, h3, h4⟩ := ih sent
      simp only [filterCLAs, hc, if_true]
      refine ⟨h1, h2, fun x hx => ⟨List.mem_cons_of_mem _ (h3 x hx).1, (h3 x hx).2⟩, ?_⟩
      intro x hx
      rcases List.mem_cons.mp hx with rfl | hx
      · left; simpa using hc
      · exact h4 x hx
    · obtain ⟨h1, h2, h3, h4⟩ := ih (sent ++ [c])
      have hc' : c ∉ sent := by simpa using hc
      simp only [filterCLAs, hc, Bool.false_eq_true, if_false]
      refine ⟨by rw [h1]; simp, ?_, ?_, ?_⟩
      · refine List.nodup_cons.mpr ⟨fun hmem => ?_, h2⟩
        exact (h3 c hmem).2 (by simp)
      · intro x hx
        rcases List.mem_cons.mp hx with rfl | hx
        · exact ⟨List.mem_cons_self, hc'⟩
        · refine ⟨List.mem_cons_of_mem _ (h3 x hx).1, fun hs => (h3 x hx).2 ?_⟩
          simp [hs]
      · intro x hx
        rcases List.mem_cons.mp hx with rfl | hx
        · right; exact List.mem_cons_self
        · rcases h4 x hx with h | h
          · rcases List.mem_append.mp h with h | h
            · exact Or.inl h
            · right; simp at h; subst h; exact List.mem_cons_self
          · exact Or.inr (List.mem_cons_of_mem _ h)

/-- A second attempt with the same senders transmits nothing. -/
theorem filterCLAs_again (sent clas : List Nat) :
    (filterCLAs (filterCLAs sent clas).2 clas).1 = [] := by
  obtain ⟨h1, _, _, h4⟩ := filterCLAs_spec clas sent
  obtain ⟨_, _, g3, _⟩ := filterCLAs_spec clas (filterCLAs sent clas).2
  apply List.eq_nil_iff_forall_not_mem.mpr
  intro x hx
  obtain ⟨hxc, hxs⟩ := g3 x hx
  apply hxs
  rw [h1]
  rcases h4 x hxc with h | h <;> simp [h]

/-- Taking failed peers out of `sent ++ s` only touches `s` when none of them is in `sent`. -/
theorem foldl_reportFailure_append (sent : List Nat) : ∀ (fs s : List Nat), (∀ f ∈ fs, f ∉ sent) →
    fs.foldl reportFailure (sent ++ s) = sent ++ fs.foldl reportFailure s := by
  intro fs
  induction fs with
  | nil => intro s _; rfl
  | cons f rest ih =>
    intro s h
    simp only [List.foldl_cons, reportFailure]
    rw [List.erase_append_right _ (h f List.mem_cons_self)]
    exact ih _ (fun x hx => h x (List.mem_cons_of_mem _ hx))

theorem foldl_reportFailure_nodup : ∀ (fs s : List Nat), s.Nodup →
    (fs.foldl reportFailure s).Nodup ∧ ∀ x, x ∈ fs.foldl reportFailure s ↔ x ∈ s ∧ x ∉ fs := by
  intro fs
  induction fs with
  | nil => intro s h; exact ⟨h, fun x => by simp⟩
  | cons f rest ih =>
    intro s h
    simp only [List.foldl_cons, reportFailure]
    obtain ⟨h1, h2⟩ := ih (s.erase f) (h.erase f)
    refine ⟨h1, fun x => ?_⟩
    rw [h2 x, h.mem_erase_iff]
    simp only [List.mem_cons, not_or]
    constructor
    · rintro ⟨⟨hne, hs⟩, hr⟩; exact ⟨hs, hne, hr⟩
    · rintro ⟨hs, hne, hr⟩; exact ⟨⟨hne, hs⟩, hr⟩

/-- **One forwarding run of a broadcast bundle**: the peers served are pairwise different and are
exactly the connected peers outside the sent list; afterwards the sent list holds what it held
plus the peers served successfully — the failed ones are out again. -/
theorem broadcastAttempt_spec (sent clas fails : List Nat) :
    (broadcastAttempt sent clas fails).1.Nodup ∧
    (∀ x, x ∈ (broadcastAttempt sent clas fails).1 ↔ x ∈ clas ∧ x ∉ sent) ∧
    (∀ x, x ∈ (broadcastAttempt sent clas fails).2 ↔
      x ∈ sent ∨ (x ∈ clas ∧ x ∉ sent ∧ x ∉ fails)) := by
  obtain ⟨h1, h2, h3, h4⟩ := filterCLAs_spec clas sent
  have hsend : ∀ x, x ∈ (filterCLAs sent clas).1 ↔ x ∈ clas ∧ x ∉ sent := by
    intro x
    constructor
    · exact h3 x
    · rintro ⟨hc, hs⟩
      rcases h4 x hc with h | h
      · exact absurd h hs
      · exact h
  refine ⟨h2, hsend, ?_⟩
  intro x
  simp only [broadcastAttempt]
  rw [h1, foldl_reportFailure_append sent _ _ (by
    intro f hf
    exact (h3 f (List.mem_filter.mp hf).1).2)]
  obtain ⟨_, hm⟩ := foldl_reportFailure_nodup ((filterCLAs sent clas).1.filter fails.contains) _ h2
  rw [List.mem_append, hm x, hsend x]
  simp only [List.mem_filter, List.contains_iff_mem, not_and]
  constructor
  · rintro (h | ⟨⟨hc, hs⟩, hnf⟩)
    · exact Or.inl h
    · exact Or.inr ⟨hc, hs, fun hf => hnf ((hsend x).mpr ⟨hc, hs⟩) hf⟩
  · rintro (h | ⟨hc, hs, hnf⟩)
    · exact Or.inl h
    · exact Or.inr ⟨⟨hc, hs⟩, fun _ hf => hnf hf⟩

/-- **A whole history of forwarding runs**: nobody in the initial sent list is ever served, and
whenever a peer is served twice the earlier transmission had failed — so at most one successful
transmission per peer and none after a success. -/
theorem broadcastLog_spec (hist : List (List Nat × List Nat)) : ∀ sent : List Nat,
    (∀ e ∈ broadcastLog sent hist, e.1 ∉ sent) ∧
    (broadcastLog sent hist).Pairwise (fun a b => a.1 = b.1 → a.2 = false) := by
  induction hist with
  | nil => intro sent; simp [broadcastLog]
  | cons step later ih =>
    obtain ⟨clas, fails⟩ := step
    intro sent
    obtain ⟨a1, a2, a3⟩ := broadcastAttempt_spec sent clas fails
    obtain ⟨i1, i2⟩ := ih (broadcastAttempt sent clas fails).2
    simp only [broadcastLog]
    refine ⟨?_, ?_⟩
    · intro e he
      rcases List.mem_append.mp he with h | h
      · obtain ⟨p, hp, rfl⟩ := List.mem_map.mp h
        exact ((a2 p).mp hp).2
      · exact fun hs => i1 e h ((a3 e.1).mpr (Or.inl hs))
    · refine List.pairwise_append.mpr ⟨?_, i2, ?_⟩
      · refine (List.pairwise_map.mpr ?_)
        exact a1.imp (fun hne heq => absurd heq hne)
      · intro a ha b hb hab
        obtain ⟨p, hp, rfl⟩ := List.mem_map.mp ha
        simp only at hab ⊢
        cases hf : fails.contains p with
        | true => rfl
        | false =>
          exfalso
          have hpf : p ∉ fails := by
            intro hm
            have : fails.contains p = true := List.contains_iff_mem.mpr hm
            rw [hf] at this; cases this
          have hin := (a2 p).mp hp
          exact i1 b hb (hab ▸ (a3 p).mpr (Or.inr ⟨hin.1, hin.2, hpf⟩))

theorem count_eq_one_of_nodup : ∀ {l : List Nat} {a : Nat}, l.Nodup → a ∈ l → l.count a = 1 := by
  intro l
  induction l with
  | nil => intro a _ h; cases h
  | cons b rest ih =>
    intro a hn ha
    obtain ⟨hb, hr⟩ := List.nodup_cons.mp hn
    by_cases hab : b = a
    · subst hab
      rw [List.count_cons_self, List.count_eq_zero_of_not_mem hb]
    · rcases List.mem_cons.mp ha with h | h
      · exact absurd h.symm hab
      · rw [List.count_cons_of_ne hab, ih hr h]

/-- The model meets the per-run broadcast Spec the driver evaluates on the implementation, whenever
its sent list holds exactly the peers that had the bundle initially or were served successfully. -/
theorem broadcastAttempt_runOk (sent clas fails had0 succ : List Nat)
    (hs : ∀ x, x ∈ sent ↔ x ∈ had0 ∨ x ∈ succ) :
    broadcastRunOk had0 succ clas (broadcastAttempt sent clas fails).1 = true := by
  obtain ⟨a1, a2, _⟩ := broadcastAttempt_spec sent clas fails
  simp only [broadcastRunOk, Bool.and_eq_true, List.all_eq_true, List.contains_iff_mem,
    Bool.not_eq_true', Bool.or_eq_true, beq_iff_eq]
  refine ⟨⟨?_, ?_⟩, ?_⟩
  · intro p hp
    obtain ⟨hc, hns⟩ := (a2 p).mp hp
    have hh : p ∉ had0 := fun h => hns ((hs p).mpr (Or.inl h))
    have hsu : p ∉ succ := fun h => hns ((hs p).mpr (Or.inr h))
    refine ⟨⟨hc, ?_⟩, ?_⟩
    · cases h : had0.contains p with
      | false => rfl
      | true => exact absurd (List.contains_iff_mem.mp h) hh
    · cases h : succ.contains p with
      | false => rfl
      | true => exact absurd (List.contains_iff_mem.mp h) hsu
  · intro c hc
    by_cases hsent : c ∈ sent
    · rcases (hs c).mp hsent with h | h
      · exact Or.inl (Or.inl h)
      · exact Or.inl (Or.inr h)
    · exact Or.inr ((a2 c).mpr ⟨hc, hsent⟩)
  · intro p hp
    exact count_eq_one_of_nodup a1 hp

/-! ## §D Bellman–Ford -/

/-- `L` is at least as good as `L'`: everything `L'` has labelled, `L` has labelled no worse. -/
def Better (L L' : Labels) : Prop := ∀ v d, L'.get v = some d → ∃ d', L.get v = some d' ∧ d' ≤ d

theorem Better.refl (L : Labels) : Better L L := fun _ d h => ⟨d, h, Int.le_refl d⟩

theorem Better.trans {A B C : Labels} (h₁ : Better A B) (h₂ : Better B C) : Better A C := by
  intro v d hd
  obtain ⟨d', hd', hle'⟩ := h₂ v d hd
  obtain ⟨d'', hd'', hle''⟩ := h₁ v d' hd'
  exact ⟨d'', hd'', by omega⟩

theorem relaxArc_better (L : Labels) (a : Arc) : Better (relaxArc L a) L := by
  intro v d hd
  unfold relaxArc
  cases hu : L.get a.1 with
  | none => exact ⟨d, hd, Int.le_refl d⟩
  | some du =>
    cases hv : L.get a.2.1 with
    | none =>
      by_cases hva : v = a.2.1
      · subst hva; rw [hv] at hd; cases hd
      · exact ⟨d, by simp [upd, hva, hd], Int.le_refl d⟩
    | some dv =>
      simp only
      split
      · rename_i hlt
        by_cases hva : v = a.2.1
        · subst hva
          rw [hv] at hd
          have : dv = d := Option.some.inj hd
          exact ⟨du + a.2.2, by simp [upd], by omega⟩
        · exact ⟨d, by simp [upd, hva, hd], Int.le_refl d⟩
      · exact ⟨d, hd, Int.le_refl d⟩

theorem relaxRound_better (arcs : List Arc) (L : Labels) : Better (relaxRound arcs L) L := by
  unfold relaxRound
  induction arcs generalizing L with
  | nil => exact Better.refl L
  | cons a rest ih => exact (ih (relaxArc L a)).trans (relaxArc_better L a)

theorem bfRounds_better (arcs : List Arc) (k : Nat) (L : Labels) : Better (bfRounds arcs k L) L := by
  induction k generalizing L with
  | zero => exact Better.refl L
  | succ k ih => exact (ih _).trans (relaxRound_better arcs L)

/-- Right after relaxing `(u, x, w)` the head's label is at most the tail's plus `w`. -/
theorem relaxArc_arc (L : Labels) (a : Arc) {du : Int} (hu : L.get a.1 = some du) :
    ∃ dx, (relaxArc L a).get a.2.1 = some dx ∧ dx ≤ du + a.2.2 := by
  unfold relaxArc
  rw [hu]
  cases hv : L.get a.2.1 with
  | none => exact ⟨du + a.2.2, by simp [upd], Int.le_refl _⟩
  | some dv =>
    simp only
    split
    · exact ⟨du + a.2.2, by simp [upd], Int.le_refl _⟩
    · exact ⟨dv, hv, by omega⟩

/-- After a full round every arc whose tail was labelled is relaxed w.r.t. the old tail label. -/
theorem relaxRound_arc (arcs : List Arc) (a : Arc) (ha : a ∈ arcs) (L : Labels) {du : Int}
    (hu : L.get a.1 = some du) :
    ∃ dx, (relaxRound arcs L).get a.2.1 = some dx ∧ dx ≤ du + a.2.2 := by
  unfold relaxRound
  induction arcs generalizing L du with
  | nil => cases ha
  | cons b rest ih =>
    simp only [List.foldl_cons]
    rcases List.mem_cons.mp ha with rfl | hmem
    · obtain ⟨dx, hdx, hle⟩ := relaxArc_arc L a hu
      obtain ⟨dx', hdx', hle'⟩ := relaxRound_better rest (relaxArc L a) _ _ hdx
      exact ⟨dx', hdx', by omega⟩
    · obtain ⟨du', hdu', hle'⟩ := relaxArc_better L b _ _ hu
      obtain ⟨dx, hdx, hle⟩ := ih hmem (relaxArc L b) hdu'
      exact ⟨dx, hdx, by omega⟩

/-! Paths as data -/

def pcost : List Arc → Int
  | [] => 0
  | a :: p => a.2.2 + pcost p

/-- `p` is a chain of arcs of `g` leading from `u` to `v`. -/
def IsPath (g : Graph) : Nat → List Arc → Nat → Prop
  | u, [], v => u = v
  | u, a :: p, v => a ∈ g.arcs ∧ a.1 = u ∧ IsPath g a.2.1 p v

theorem walk_iff_path {g : Graph} {u v : Nat} {c : Int} :
    Walk g u v c ↔ ∃ p, IsPath g u p v ∧ pcost p = c := by
  constructor
  · intro h
    induction h with
    | nil u => exact ⟨[], rfl, rfl⟩
    | @cons u v x w c ha _ ih =>
      obtain ⟨p, hp, hc⟩ := ih
      exact ⟨(u, v, w) :: p, ⟨ha, rfl, hp⟩, by simp [pcost, hc]⟩
  · rintro ⟨p, hp, hc⟩
    induction p generalizing u c with
    | nil =>
      simp only [IsPath] at hp
      subst hp
      simp only [pcost] at hc
      subst hc
      exact Walk.nil u
    | cons a p ih =>
      obtain ⟨ha, hau, hp⟩ := hp
      obtain ⟨x, y, w⟩ := a
      simp only at hau hp
      subst hau
      simp only [pcost] at hc
      subst hc
      exact Walk.cons ha (ih hp rfl)

/-- After `k` rounds every path of at most `k` arcs from a labelled vertex is accounted for. -/
theorem bfRounds_path (g : Graph) :
    ∀ (p : List Arc) (k : Nat) (L : Labels) (u v : Nat) (du : Int), p.length ≤ k →
      L.get u = some du → IsPath g u p v →
      ∃ d, (bfRounds g.arcs k L).get v = some d ∧ d ≤ du + pcost p := by
  intro p
  induction p with
  | nil =>
    intro k L u v du _ hu hp
    simp only [IsPath] at hp
    subst hp
    obtain ⟨d, hd, hle⟩ := bfRounds_better g.arcs k L _ _ hu
    exact ⟨d, hd, by simp [pcost]; omega⟩
  | cons a p ih =>
    intro k L u v du hk hu hp
    obtain ⟨ha, hau, hp⟩ := hp
    cases k with
    | zero => simp at hk
    | succ k =>
      subst hau
      obtain ⟨dx, hdx, hle⟩ := relaxRound_arc g.arcs a ha L hu
      obtain ⟨d, hd, hle'⟩ := ih k (relaxRound g.arcs L) a.2.1 v dx (by simpa using hk) hdx hp
      exact ⟨d, hd, by simp only [pcost]; omega⟩

/-! Simple paths -/

/-- The vertices of a path, start first. -/
def verts (u : Nat) (p : List Arc) : List Nat := u :: p.map (·.2.1)

theorem pcost_nonneg {g : Graph} (hw : ∀ e ∈ g.arcs, 0 ≤ e.2.2) :
    ∀ {p : List Arc} {u v : Nat}, IsPath g u p v → 0 ≤ pcost p := by
  intro p
  induction p with
  | nil => intro u v _; simp [pcost]
  | cons a p ih =>
    intro u v hp
    obtain ⟨ha, _, hp⟩ := hp
    have := hw a ha
    have := ih hp
    simp only [pcost]; omega

/-- From any vertex on a path, the rest of the path: no more expensive, vertices a sublist. -/
theorem path_suffix {g : Graph} (hw : ∀ e ∈ g.arcs, 0 ≤ e.2.2) :
    ∀ (q : List Arc) (x v y : Nat), IsPath g x q v → y ∈ verts x q →
      ∃ q₂, IsPath g y q₂ v ∧ pcost q₂ ≤ pcost q ∧ (verts y q₂).Sublist (verts x q) := by
  intro q
  induction q with
  | nil =>
    intro x v y hp hy
    simp [verts] at hy
    subst hy
    exact ⟨[], hp, Int.le_refl _, List.Sublist.refl _⟩
  | cons a q ih =>
    intro x v y hp hy
    by_cases hyx : y = x
    · subst hyx
      exact ⟨a :: q, hp, Int.le_refl _, List.Sublist.refl _⟩
    · obtain ⟨ha, _, hp'⟩ := hp
      have hy' : y ∈ verts a.2.1 q := by
        simp only [verts, List.map_cons, List.mem_cons] at hy ⊢
        rcases hy with h | h | h
        · exact absurd h hyx
        · exact Or.inl h
        · exact Or.inr h
      obtain ⟨q₂, hq₂, hc, hs⟩ := ih a.2.1 v y hp' hy'
      have := hw a ha
      refine ⟨q₂, hq₂, by simp only [pcost]; omega, ?_⟩
      have : verts x (a :: q) = x :: verts a.2.1 q := by simp [verts]
      rw [this]
      exact List.Sublist.cons _ hs

/-- Every path can be replaced by one that repeats no vertex and costs no more (weights ≥ 0). -/
theorem path_simple {g : Graph} (hw : ∀ e ∈ g.arcs, 0 ≤ e.2.2) :
    ∀ (p : List Arc) (u v : Nat), IsPath g u p v →
      ∃ q, IsPath g u q v ∧ pcost q ≤ pcost p ∧ (verts u q).Nodup := by
  intro p
  induction p with
  | nil => intro u v hp; exact ⟨[], hp, Int.le_refl _, by simp [verts]⟩
  | cons a p ih =>
    intro u v hp
    obtain ⟨ha, hau, hp'⟩ := hp
    obtain ⟨q', hq', hc', hn'⟩ := ih a.2.1 v hp'
    by_cases hmem : u ∈ verts a.2.1 q'
    · obtain ⟨q₂, hq₂, hc₂, hs⟩ := path_suffix hw q' a.2.1 v u hq' hmem
      have := hw a ha
      exact ⟨q₂, hq₂, by simp only [pcost]; omega, hn'.sublist hs⟩
    · refine ⟨a :: q', ⟨ha, hau, hq'⟩, by simp only [pcost]; omega, ?_⟩
      have : verts u (a :: q') = u :: verts a.2.1 q' := by simp [verts]
      rw [this]
      exact List.nodup_cons.mpr ⟨hmem, hn'⟩

/-- Pigeonhole: a duplicate-free list of numbers below `n` has at most `n` elements. -/
theorem nodup_length_le : ∀ (n : Nat) (l : List Nat), l.Nodup → (∀ x ∈ l, x < n) → l.length ≤ n := by
  intro n
  induction n with
  | zero =>
    intro l _ hlt
    match l, hlt with
    | [], _ => simp
    | x :: _, hlt => exact absurd (hlt x List.mem_cons_self) (Nat.not_lt_zero _)
  | succ n ih =>
    intro l hnd hlt
    have hnd' : (l.erase n).Nodup := hnd.sublist List.erase_sublist
    have hlt' : ∀ x ∈ l.erase n, x < n := by
      intro x hx
      have hxl : x ∈ l := List.mem_of_mem_erase hx
      have hne : x ≠ n := by
        intro e; subst e
        exact (List.Nodup.not_mem_erase hnd) hx
      have := hlt x hxl
      omega
    have := ih (l.erase n) hnd' hlt'
    by_cases hm : n ∈ l
    · rw [List.length_erase_of_mem hm] at this; omega
    · rw [List.erase_of_not_mem hm] at this; omega

theorem verts_lt {g : Graph} (hwf : ∀ e ∈ g.arcs, e.2.1 < g.n) :
    ∀ {p : List Arc} {u v : Nat}, u < g.n → IsPath g u p v → ∀ x ∈ verts u p, x < g.n := by
  intro p
  induction p with
  | nil => intro u v hu _ x hx; simp [verts] at hx; subst hx; exact hu
  | cons a p ih =>
    intro u v hu hp x hx
    obtain ⟨ha, _, hp'⟩ := hp
    have : verts u (a :: p) = u :: verts a.2.1 p := by simp [verts]
    rw [this] at hx
    rcases List.mem_cons.mp hx with rfl | hx
    · exact hu
    · exact ih (hwf a ha) hp' x hx

/-! Soundness of the labels -/

def Sound (g : Graph) (s : Nat) (L : Labels) : Prop := ∀ v d, L.get v = some d → Walk g s v d

theorem relaxArc_sound {g : Graph} {s : Nat} {L : Labels} (hs : Sound g s L) {a : Arc} (ha : a ∈ g.arcs) :
    Sound g s (relaxArc L a) := by
  obtain ⟨x, y, w⟩ := a
  intro v d hd
  unfold relaxArc at hd
  simp only at hd
  cases hu : L.get x with
  | none => rw [hu] at hd; exact hs v d hd
  | some du =>
    rw [hu] at hd
    have hwalk : Walk g s y (du + w) := Walk.trans (hs x du hu) (Walk.single ha)
    cases hv : L.get y with
    | none =>
      rw [hv] at hd
      simp only [upd] at hd
      split at hd
      · rename_i hvy; subst hvy; cases hd; exact hwalk
      · exact hs v d hd
    | some dv =>
      rw [hv] at hd
      simp only at hd
      split at hd
      · simp only [upd] at hd
        split at hd
        · rename_i hvy; subst hvy; cases hd; exact hwalk
        · exact hs v d hd
      · exact hs v d hd

theorem relaxRound_sound {g : Graph} {s : Nat} (arcs : List Arc) (hsub : ∀ a ∈ arcs, a ∈ g.arcs)
    {L : Labels} (hs : Sound g s L) : Sound g s (relaxRound arcs L) := by
  unfold relaxRound
  induction arcs generalizing L with
  | nil => exact hs
  | cons a rest ih =>
    exact ih (fun b hb => hsub b (List.mem_cons_of_mem _ hb)) (relaxArc_sound hs (hsub a List.mem_cons_self))

theorem bfRounds_sound {g : Graph} {s : Nat} (k : Nat) {L : Labels} (hs : Sound g s L) :
    Sound g s (bfRounds g.arcs k L) := by
  induction k generalizing L with
  | zero => exact hs
  | succ k ih => exact ih (relaxRound_sound g.arcs (fun _ h => h) hs)

theorem bf_sound (g : Graph) (s : Nat) : Sound g s (bf g s) := by
  apply bfRounds_sound
  intro v d hd
  simp only [bfInit] at hd
  split at hd
  · rename_i h; subst h; cases hd; exact Walk.nil _
  · cases hd

/-- **Bellman–Ford is exact** (weights ≥ 0, arcs inside the vertex set): after `n` rounds the label
of `v` is below the cost of every walk from `s` to `v`. -/
theorem bf_complete {g : Graph} (hw : ∀ e ∈ g.arcs, 0 ≤ e.2.2) (hwf : ∀ e ∈ g.arcs, e.2.1 < g.n)
    {s : Nat} (hs : s < g.n) {v : Nat} {c : Int} (h : Walk g s v c) :
    ∃ d, (bf g s).get v = some d ∧ d ≤ c := by
  obtain ⟨p, hp, hc⟩ := walk_iff_path.mp h
  obtain ⟨q, hq, hcq, hnd⟩ := path_simple hw p s v hp
  have hlen : (verts s q).length ≤ g.n := nodup_length_le g.n _ hnd (verts_lt hwf hs hq)
  have hql : q.length ≤ g.n := by simp [verts] at hlen; omega
  obtain ⟨d, hd, hle⟩ := bfRounds_path g q g.n (bfInit s) s v 0 hql (by simp [bfInit]) hq
  exact ⟨d, hd, by omega⟩

theorem bf_isDist {g : Graph} (hw : ∀ e ∈ g.arcs, 0 ≤ e.2.2) (hwf : ∀ e ∈ g.arcs, e.2.1 < g.n)
    {s : Nat} (hs : s < g.n) {v : Nat} {d : Int} (h : (bf g s).get v = some d) : IsDist g s v d := by
  refine ⟨bf_sound g s v d h, ?_⟩
  intro c hc
  obtain ⟨d', hd', hle⟩ := bf_complete hw hwf hs hc
  rw [h] at hd'
  have : d = d' := Option.some.inj hd'
  omega

theorem bf_none_iff {g : Graph} (hw : ∀ e ∈ g.arcs, 0 ≤ e.2.2) (hwf : ∀ e ∈ g.arcs, e.2.1 < g.n)
    {s : Nat} (hs : s < g.n) (v : Nat) : (bf g s).get v = none ↔ ¬ Reachable g s v := by
  constructor
  · rintro hnone ⟨c, hc⟩
    obtain ⟨d, hd, _⟩ := bf_complete hw hwf hs hc
    rw [hnone] at hd; cases hd
  · intro hnr
    cases h : (bf g s).get v with
    | none => rfl
    | some d => exact absurd ⟨d, bf_sound g s v d h⟩ hnr

/-! The reference table -/

theorem lookup_filterMap_key (F : Nat → Option Nat) (d : Nat) : ∀ l : List Nat,
    lookup (l.filterMap fun x => if x = 0 then none else (F x).map fun h => (x, h)) d =
      if d ∈ l ∧ d ≠ 0 then F d else none := by
  intro l
  induction l with
  | nil => simp [lookup]
  | cons x rest ih =>
    simp only [List.filterMap_cons]
    by_cases hx0 : x = 0
    · subst hx0
      simp only [if_true]
      rw [ih]
      by_cases hd0 : d = 0
      · simp [hd0]
      · have : (d ∈ (0 :: rest) ∧ d ≠ 0) ↔ (d ∈ rest ∧ d ≠ 0) := by
          simp [hd0]
        simp only [this]
    · simp only [hx0, if_false]
      cases hF : F x with
      | none =>
        simp only [Option.map_none]
        rw [ih]
        by_cases hdx : d = x
        · subst hdx
          by_cases hin : d ∈ rest <;> simp [hin, hx0, hF]
        · have : (d ∈ (x :: rest) ∧ d ≠ 0) ↔ (d ∈ rest ∧ d ≠ 0) := by simp [hdx]
          simp only [this]
      | some h =>
        simp only [Option.map_some, lookup]
        by_cases hdx : x = d
        · subst hdx
          simp [hx0, hF]
        · simp only [hdx, if_false]
          rw [ih]
          have hdx' : ¬ d = x := fun e => hdx e.symm
          have : (d ∈ (x :: rest) ∧ d ≠ 0) ↔ (d ∈ rest ∧ d ≠ 0) := by simp [hdx']
          simp only [this]

theorem lookup_tableD (D : Nat → Nat → Option Int) (g : Graph) (d : Nat) :
    lookup (tableD D g) d = if d < g.n ∧ d ≠ 0 then (admissibleD D g d).head? else none := by
  unfold tableD
  rw [lookup_filterMap_key (fun d => (admissibleD D g d).head?) d (List.range g.n)]
  simp [List.mem_range]

theorem mem_admissibleD {D : Nat → Nat → Option Int} {g : Graph} {d h : Nat} :
    h ∈ admissibleD D g d ↔
      ∃ dd w c, D 0 d = some dd ∧ (0, h, w) ∈ g.arcs ∧ D h d = some c ∧ w + c = dd := by
  unfold admissibleD
  cases h0 : D 0 d with
  | none => simp
  | some dd =>
    simp only [List.mem_filterMap]
    constructor
    · rintro ⟨⟨x, y, w⟩, hmem, hsel⟩
      simp only at hsel
      split at hsel
      · rename_i hx; subst hx
        cases hc : D y d with
        | none => simp [hc] at hsel
        | some c =>
          simp only [hc] at hsel
          split at hsel
          · rename_i hsum
            cases hsel
            exact ⟨dd, w, c, rfl, hmem, hc, hsum⟩
          · cases hsel
      · cases hsel
    · rintro ⟨dd', w, c, hdd, hmem, hc, hsum⟩
      cases hdd
      exact ⟨(0, h, w), hmem, by simp [hc, hsum]⟩

/-- **The reference table is right**: with shortest distances from Bellman–Ford, the first
admissible next hop for every reachable destination satisfies the property's statement. -/
theorem refTable_correct (g : Graph) (hw : ∀ e ∈ g.arcs, 0 ≤ e.2.2)
    (hwf : ∀ e ∈ g.arcs, e.1 < g.n ∧ e.2.1 < g.n) (hn : 0 < g.n) :
    MinCostNextHop g (lookup (refTable g)) := by
  have hwf2 : ∀ e ∈ g.arcs, e.2.1 < g.n := fun e he => (hwf e he).2
  constructor
  · intro d
    unfold refTable
    rw [lookup_tableD]
    constructor
    · intro hsome
      split at hsome
      · rename_i hd
        obtain ⟨h, hh⟩ := Option.isSome_iff_exists.mp hsome
        have hmem : h ∈ admissibleD (fun u => (bf g u).get) g d := List.mem_of_mem_head? hh
        obtain ⟨dd, w, c, hdd, _, _, _⟩ := mem_admissibleD.mp hmem
        exact ⟨hd.2, dd, bf_sound g 0 d dd hdd⟩
      · cases hsome
    · rintro ⟨hd0, c, hwalk⟩
      have hlt : d < g.n := by
        rcases walk_end_lt hwf2 hwalk with h | h
        · exact absurd h hd0
        · exact h
      simp only [hlt, hd0, ne_eq, not_false_eq_true, and_self, if_true]
      -- a shortest walk starts with an admissible arc
      obtain ⟨dd, hdd, _⟩ := bf_complete hw hwf2 hn hwalk
      have hdist := bf_isDist hw hwf2 hn hdd
      have hex : ∃ h, h ∈ admissibleD (fun u => (bf g u).get) g d := by
        cases hdist.1 with
        | nil => exact absurd rfl hd0
        | @cons _ h _ w c' ha hrest =>
          have hh : h < g.n := (hwf _ ha).2
          obtain ⟨c'', hc'', hle⟩ := bf_complete hw hwf2 hh hrest
          have hwalk' : Walk g 0 d (w + c'') := Walk.cons ha (bf_sound g h d c'' hc'')
          have := hdist.2 _ hwalk'
          have hEq : w + c'' = w + c' := by omega
          exact ⟨h, mem_admissibleD.mpr ⟨w + c', w, c'', hdd, ha, hc'', hEq⟩⟩
      obtain ⟨h, hh⟩ := hex
      cases hl : admissibleD (fun u => (bf g u).get) g d with
      | nil => rw [hl] at hh; cases hh
      | cons x _ => simp
  · intro d h hh
    unfold refTable at hh
    rw [lookup_tableD] at hh
    split at hh
    · have hmem : h ∈ admissibleD (fun u => (bf g u).get) g d := List.mem_of_mem_head? hh
      obtain ⟨dd, w, c, hdd, harc, hc, hsum⟩ := mem_admissibleD.mp hmem
      refine ⟨w, c, harc, bf_sound g h d c hc, ?_⟩
      rw [hsum]
      exact bf_isDist hw hwf2 hn hdd
    · cases hh


/-! ## §E The ported library loop -/

theorem mem_insertWalk (dist : Nat → Int) (v x : Nat) : ∀ l : List Nat,
    x ∈ insertWalk dist v l ↔ x = v ∨ x ∈ l := by
  intro l
  induction l with
  | nil => simp [insertWalk]
  | cons c rest ih =>
    unfold insertWalk
    split
    · simp only [List.mem_cons, ih]
      constructor
      · rintro (h | h | h)
        · exact Or.inr (Or.inl h)
        · exact Or.inl h
        · exact Or.inr (Or.inr h)
      · rintro (h | h | h)
        · exact Or.inr (Or.inl h)
        · exact Or.inl h
        · exact Or.inr (Or.inr h)
    · split
      · rename_i hcv
        subst hcv
        simp only [List.mem_cons]
        constructor
        · intro h; exact Or.inr h
        · rintro (h | h)
          · exact Or.inl h
          · exact h
      · simp only [List.mem_cons]

theorem mem_pushOrdered (dist : Nat → Int) (l : List Nat) (v x : Nat) :
    x ∈ pushOrdered dist l v ↔ x = v ∨ x ∈ l := by
  unfold pushOrdered
  split
  · rename_i h
    have : l = [] := List.getLast?_eq_none_iff.mp h
    subst this
    simp
  · split
    · simp only [List.mem_append, List.mem_singleton]
      constructor
      · rintro (h | h)
        · exact Or.inr h
        · exact Or.inl h
      · rintro (h | h)
        · exact Or.inr h
        · exact Or.inl h
    · exact mem_insertWalk dist v x l

theorem mem_adjOf {arcs : List Arc} {u v : Nat} {w : Int} :
    (v, w) ∈ adjOf arcs u ↔ (u, v, w) ∈ arcs := by
  unfold adjOf
  simp only [List.mem_filterMap]
  constructor
  · rintro ⟨⟨x, y, z⟩, hmem, hsel⟩
    simp only at hsel
    split at hsel
    · rename_i hx; subst hx; cases hsel; exact hmem
    · cases hsel
  · intro h
    exact ⟨(u, v, w), h, by simp⟩

/-- The predecessor pointers cannot form a cycle: along `pred` the pair (label, stamp) decreases
lexicographically, where the ghost `stamp` records the order of the label updates. (With zero-cost
arcs the labels alone need not decrease.) It also says that the predecessor arc fits the labels:
`dist (pred v) + w ≤ dist v`. -/
def Acyc (g : Graph) (src : Nat) (dist : Nat → Int) (pred : Nat → Option Nat) : Prop :=
  ∃ (stamp : Nat → Nat) (bound : Nat), (∀ x, stamp x < bound) ∧
    ∀ v, v ≠ src → dist v < infDist → ∃ u w, pred v = some u ∧ (u, v, w) ∈ g.arcs ∧
      (dist u + w < dist v ∨ (dist u + w = dist v ∧ stamp u < stamp v))

/-- The invariant of the loop that does not mention the work list's completeness. -/
structure Core (g : Graph) (src dest : Nat) (s : LibSt) : Prop where
  dsrc : s.dist src = 0
  psrc : s.pred src = none
  lo : ∀ v, 0 ≤ s.dist v
  hi : ∀ v, s.dist v ≤ infDist
  snd : ∀ v, s.dist v < infDist → Walk g src v (s.dist v)
  acy : Acyc g src s.dist s.pred
  bst : s.best = if s.visitedDest then s.dist dest else maxInt64
  vis : s.visitedDest = true ↔ s.dist dest < infDist
  lst : ∀ u ∈ s.visiting, s.dist u < infDist ∧ u ≠ dest

/-- The predecessor of a labelled vertex is the tail of an arc that fits the labels. -/
theorem Core.prd {g : Graph} {src dest : Nat} {s : LibSt} (h : Core g src dest s) :
    ∀ v, v ≠ src → s.dist v < infDist →
      ∃ u w, s.pred v = some u ∧ (u, v, w) ∈ g.arcs ∧ s.dist u + w ≤ s.dist v := by
  obtain ⟨stamp, bound, _, hch⟩ := h.acy
  intro v hvs hv
  obtain ⟨u, w, hp, ha, hd⟩ := hch v hvs hv
  refine ⟨u, w, hp, ha, ?_⟩
  rcases hd with hd | ⟨hd, _⟩ <;> omega

/-- A relaxation keeps the predecessor structure acyclic: the relaxed vertex gets a fresh stamp. -/
theorem acyc_relax {g : Graph} {src : Nat} {dist : Nat → Int} {pred : Nat → Option Nat}
    (h : Acyc g src dist pred) {cur v : Nat} {w : Int} (ha : (cur, v, w) ∈ g.arcs)
    (hlt : dist cur + w < dist v) (hvcur : v ≠ cur) :
    Acyc g src (upd dist v (dist cur + w)) (upd pred v (some cur)) := by
  obtain ⟨stamp, bound, hb, hch⟩ := h
  refine ⟨upd stamp v bound, bound + 1, ?_, ?_⟩
  · intro x
    simp only [upd]
    split
    · omega
    · have := hb x; omega
  · intro x hxs hx
    by_cases hxv : x = v
    · subst hxv
      refine ⟨cur, w, by simp [upd], ha, Or.inr ⟨?_, ?_⟩⟩
      · simp [upd, hvcur.symm]
      · have := hb cur
        simp [upd, hvcur.symm]; exact this
    · simp only [upd, hxv, if_false] at hx ⊢
      obtain ⟨u, w', hp, hau, hd⟩ := hch x hxs hx
      refine ⟨u, w', hp, hau, ?_⟩
      by_cases huv : u = v
      · subst huv
        left
        simp only [if_true]
        rcases hd with hd | ⟨hd, _⟩ <;> omega
      · simp only [huv, if_false]
        exact hd

/-- `u` needs no (further) expansion: it is pruned, or all its arcs are relaxed. -/
def Done (g : Graph) (s : LibSt) (u : Nat) : Prop :=
  s.best ≤ s.dist u ∨ ∀ v w, (u, v, w) ∈ g.arcs → s.dist v ≤ s.dist u + w

theorem infDist_lt_max : infDist < maxInt64 := by decide

theorem Done.mono {g : Graph} {s s' : LibSt} {u : Nat} (h : Done g s u)
    (hu : s'.dist u = s.dist u) (hd : ∀ x, s'.dist x ≤ s.dist x) (hb : s'.best ≤ s.best) :
    Done g s' u := by
  rcases h with h | h
  · left; rw [hu]; omega
  · right
    intro v w ha
    have := h v w ha
    have := hd v
    rw [hu]; omega

section
variable {g : Graph} {src dest : Nat}

/-- One successful relaxation keeps the invariant. -/
theorem relaxOne_core (hw : ∀ e ∈ g.arcs, 0 ≤ e.2.2) {s : LibSt} (hI : Core g src dest s)
    {cur v : Nat} {w : Int} (hcur : s.dist cur < infDist) (ha : (cur, v, w) ∈ g.arcs)
    (hlt : s.dist cur + w < s.dist v) :
    Core g src dest (relaxOne dest cur v w s) ∧
    (relaxOne dest cur v w s).dist v = s.dist cur + w ∧
    (∀ x, x ≠ v → (relaxOne dest cur v w s).dist x = s.dist x) ∧
    (relaxOne dest cur v w s).best ≤ s.best ∧
    (∀ x, x ∈ (relaxOne dest cur v w s).visiting ↔ (x = v ∧ v ≠ dest) ∨ x ∈ s.visiting) ∧
    (relaxOne dest cur v w s).oldCurrent = s.oldCurrent ∧ v ≠ cur := by
  have hw0 : 0 ≤ w := hw _ ha
  have hvcur : v ≠ cur := by intro e; subst e; omega
  have hvsrc : v ≠ src := by
    intro e; subst e
    have := hI.lo cur
    rw [hI.dsrc] at hlt; omega
  have hnewlt : s.dist cur + w < infDist := by have := hI.hi v; omega
  have hwalk : Walk g src v (s.dist cur + w) := Walk.trans (hI.snd cur hcur) (Walk.single ha)
  by_cases hvd : v = dest
  · -- the destination: update `best`, no push
    have e : relaxOne dest cur v w s =
        { s with dist := upd s.dist v (s.dist cur + w), pred := upd s.pred v (some cur),
                 best := s.dist cur + w, visitedDest := true } := by
      simp [relaxOne, hvd]
    rw [e]
    refine ⟨?_, by simp [upd], fun x hx => by simp [upd, hx], ?_, ?_, rfl, hvcur⟩
    · constructor
      · simp [upd, hvsrc.symm, hI.dsrc]
      · simp [upd, hvsrc.symm, hI.psrc]
      · intro x; simp only [upd]; split
        · have := hI.lo cur; omega
        · exact hI.lo x
      · intro x; simp only [upd]; split
        · omega
        · exact hI.hi x
      · intro x hx; simp only [upd] at hx ⊢; split
        · rename_i h; subst h; exact hwalk
        · rename_i h; simp only [h, if_false] at hx; exact hI.snd x hx
      · exact acyc_relax hI.acy ha hlt hvcur
      · simp [upd, hvd]
      · simp only [upd, hvd, if_true, true_iff]
        subst hvd; exact hnewlt
      · intro u hu
        obtain ⟨h1, h2⟩ := hI.lst u hu
        refine ⟨?_, h2⟩
        simp only [upd]
        split
        · exact hnewlt
        · exact h1
    · show s.dist cur + w ≤ s.best
      rw [hI.bst]
      split
      · subst hvd; omega
      · have := hI.hi v; have := infDist_lt_max; omega
    · intro x; simp [hvd]
  · -- another vertex: push it
    have e : relaxOne dest cur v w s =
        { s with dist := upd s.dist v (s.dist cur + w), pred := upd s.pred v (some cur),
                 visiting := pushOrdered (upd s.dist v (s.dist cur + w)) s.visiting v } := by
      simp [relaxOne, hvd]
    rw [e]
    have hdv : dest ≠ v := fun e => hvd e.symm
    refine ⟨?_, by simp [upd], fun x hx => by simp [upd, hx], Int.le_refl _, ?_, rfl, hvcur⟩
    · constructor
      · simp [upd, hvsrc.symm, hI.dsrc]
      · simp [upd, hvsrc.symm, hI.psrc]
      · intro x; simp only [upd]; split
        · have := hI.lo cur; omega
        · exact hI.lo x
      · intro x; simp only [upd]; split
        · omega
        · exact hI.hi x
      · intro x hx; simp only [upd] at hx ⊢; split
        · rename_i h; subst h; exact hwalk
        · rename_i h; simp only [h, if_false] at hx; exact hI.snd x hx
      · exact acyc_relax hI.acy ha hlt hvcur
      · simp only [upd, hdv, if_false]; exact hI.bst
      · simp only [upd, hdv, if_false]; exact hI.vis
      · intro u hu
        simp only at hu
        rcases (mem_pushOrdered _ _ _ _).mp hu with h | h
        · subst h
          exact ⟨by simp [upd]; exact hnewlt, hvd⟩
        · obtain ⟨h1, h2⟩ := hI.lst u h
          refine ⟨?_, h2⟩
          simp only [upd]
          split
          · exact hnewlt
          · exact h1
    · intro x
      simp only [mem_pushOrdered]
      simp [hvd]
end

section
variable {g : Graph} {src dest : Nat}

/-- The inner loop over the arcs of `cur`: never the loop error, keeps the invariant, relaxes every
listed arc, only lowers labels. -/
theorem relaxArcs_inv (hw : ∀ e ∈ g.arcs, 0 ≤ e.2.2) {cur : Nat} :
    ∀ (todo : List (Nat × Int)) (s : LibSt), Core g src dest s → s.dist cur < infDist →
      (∀ p ∈ todo, (cur, p.1, p.2) ∈ g.arcs) →
      (∀ u, s.dist u < infDist → u ≠ dest → u ≠ cur → u ∈ s.visiting ∨ Done g s u) →
      ∃ s', relaxArcs dest cur todo s = .ok s' ∧ Core g src dest s' ∧ s'.dist cur = s.dist cur ∧
        (∀ x, s'.dist x ≤ s.dist x) ∧ s'.best ≤ s.best ∧ s'.oldCurrent = s.oldCurrent ∧
        (∀ u, s'.dist u < infDist → u ≠ dest → u ≠ cur → u ∈ s'.visiting ∨ Done g s' u) ∧
        (∀ p ∈ todo, s'.dist p.1 ≤ s'.dist cur + p.2) := by
  intro todo
  induction todo with
  | nil =>
    intro s hI _ _ hset
    exact ⟨s, rfl, hI, rfl, fun _ => Int.le_refl _, Int.le_refl _, rfl, hset, by simp⟩
  | cons p rest ih =>
    obtain ⟨v, w⟩ := p
    intro s hI hcur hsub hset
    have ha : (cur, v, w) ∈ g.arcs := hsub (v, w) List.mem_cons_self
    have hsub' : ∀ p ∈ rest, (cur, p.1, p.2) ∈ g.arcs := fun p hp => hsub p (List.mem_cons_of_mem _ hp)
    have hw0 : 0 ≤ w := hw _ ha
    by_cases hlt : s.dist cur + w < s.dist v
    · -- the loop error cannot fire
      have hnoerr : ¬ (s.pred cur = some v ∧ v ≠ dest) := by
        rintro ⟨hp, _⟩
        by_cases hcs : cur = src
        · rw [hcs, hI.psrc] at hp; cases hp
        · obtain ⟨u, w', hp', hau, hle⟩ := hI.prd cur hcs hcur
          rw [hp] at hp'
          have : v = u := Option.some.inj hp'
          subst this
          have h0 : 0 ≤ w' := hw _ hau
          omega
      obtain ⟨hI1, hdv, hdx, hb1, hvis1, hold1, hvcur⟩ := relaxOne_core hw hI hcur ha hlt
      have hcur1 : (relaxOne dest cur v w s).dist cur = s.dist cur := hdx cur (fun e => hvcur e.symm)
      have hmono1 : ∀ x, (relaxOne dest cur v w s).dist x ≤ s.dist x := by
        intro x
        by_cases hx : x = v
        · subst hx; rw [hdv]; omega
        · rw [hdx x hx]; exact Int.le_refl _
      have hset1 : ∀ u, (relaxOne dest cur v w s).dist u < infDist → u ≠ dest → u ≠ cur →
          u ∈ (relaxOne dest cur v w s).visiting ∨ Done g (relaxOne dest cur v w s) u := by
        intro u hu hud huc
        by_cases huv : u = v
        · subst huv
          left; exact (hvis1 u).mpr (Or.inl ⟨rfl, hud⟩)
        · have hdu := hdx u huv
          rw [hdu] at hu
          rcases hset u hu hud huc with h | h
          · left; exact (hvis1 u).mpr (Or.inr h)
          · right; exact h.mono hdu hmono1 hb1
      obtain ⟨s', hr, hI', hc', hm', hb', ho', hs', hrel'⟩ :=
        ih (relaxOne dest cur v w s) hI1 (by rw [hcur1]; exact hcur) hsub' hset1
      refine ⟨s', ?_, hI', by rw [hc', hcur1], ?_, by omega, by rw [ho', hold1], hs', ?_⟩
      · simp only [relaxArcs, hlt, if_true, hnoerr, if_false]
        exact hr
      · intro x; have := hm' x; have := hmono1 x; omega
      · intro p hp
        rcases List.mem_cons.mp hp with rfl | hp
        · have := hm' v
          simp only
          rw [hc', hcur1]; omega
        · exact hrel' p hp
    · obtain ⟨s', hr, hI', hc', hm', hb', ho', hs', hrel'⟩ := ih s hI hcur hsub' hset
      refine ⟨s', ?_, hI', hc', hm', hb', ho', hs', ?_⟩
      · simp only [relaxArcs, hlt, if_false]
        exact hr
      · intro p hp
        rcases List.mem_cons.mp hp with rfl | hp
        · have := hm' v
          simp only
          rw [hc']; omega
        · exact hrel' p hp

/-- The loop invariant. -/
structure LoopInv (g : Graph) (src dest : Nat) (s : LibSt) : Prop extends Core g src dest s where
  set : ∀ u, s.dist u < infDist → u ≠ dest → u ∈ s.visiting ∨ Done g s u
  old : ∀ u, s.oldCurrent = some u → Done g s u

theorem Core.congr {s t : LibSt} (h : Core g src dest s) (hd : t.dist = s.dist)
    (hp : t.pred = s.pred) (hb : t.best = s.best) (hv : t.visitedDest = s.visitedDest)
    (hl : ∀ u ∈ t.visiting, u ∈ s.visiting) : Core g src dest t :=
  { dsrc := by rw [hd]; exact h.dsrc, psrc := by rw [hp]; exact h.psrc,
    lo := by rw [hd]; exact h.lo, hi := by rw [hd]; exact h.hi,
    snd := by rw [hd]; exact h.snd, acy := by rw [hd, hp]; exact h.acy,
    bst := by rw [hd, hb, hv]; exact h.bst, vis := by rw [hd, hv]; exact h.vis,
    lst := fun u hu => by rw [hd]; exact h.lst u (hl u hu) }

theorem Done.congr {s t : LibSt} {u : Nat} (h : Done g s u) (hd : t.dist = s.dist)
    (hb : t.best = s.best) : Done g t u := by
  unfold Done at h ⊢
  rw [hd, hb]; exact h

theorem evalLoop_inv (hw : ∀ e ∈ g.arcs, 0 ≤ e.2.2) :
    ∀ (fuel : Nat) (s : LibSt), LoopInv g src dest s →
      match evalLoop (adjOf g.arcs) dest fuel s with
      | .error _ => False
      | .ok none => True
      | .ok (some s') => LoopInv g src dest s' ∧ s'.visiting = [] := by
  intro fuel
  induction fuel with
  | zero =>
    intro s hI
    simp only [evalLoop]
    split
    · rename_i h; cases h
    · trivial
    · rename_i s' h
      split at h
      · rename_i he
        cases h
        exact ⟨hI, by simpa using he⟩
      · cases h
  | succ fuel ih =>
    intro s hI
    cases hv : s.visiting with
    | nil =>
      have : evalLoop (adjOf g.arcs) dest (fuel + 1) s = .ok (some s) := by
        simp only [evalLoop, hv]
      rw [this]
      exact ⟨hI, hv⟩
    | cons cur rest =>
      obtain ⟨hcur, hcd⟩ := hI.lst cur (by rw [hv]; exact List.mem_cons_self)
      have hsub : ∀ u ∈ rest, u ∈ s.visiting := fun u hu => by rw [hv]; exact List.mem_cons_of_mem _ hu
      have hset0 : ∀ u, s.dist u < infDist → u ≠ dest → u ≠ cur → u ∈ rest ∨ Done g s u := by
        intro u hu hud huc
        rcases hI.set u hu hud with h | h
        · rw [hv] at h
          rcases List.mem_cons.mp h with h | h
          · exact absurd h huc
          · exact Or.inl h
        · exact Or.inr h
      by_cases hold : s.oldCurrent = some cur
      · -- popped twice in a row: skipped
        have : evalLoop (adjOf g.arcs) dest (fuel + 1) s =
            evalLoop (adjOf g.arcs) dest fuel { s with visiting := rest } := by
          simp only [evalLoop, hv, hold, if_true]
        rw [this]
        apply ih
        refine { toCore := hI.toCore.congr rfl rfl rfl rfl hsub, set := ?_, old := ?_ }
        · intro u hu hud
          by_cases huc : u = cur
          · subst huc; right; exact (hI.old u hold).congr rfl rfl
          · rcases hset0 u hu hud huc with h | h
            · exact Or.inl h
            · exact Or.inr (h.congr rfl rfl)
        · intro u hu; exact (hI.old u hu).congr rfl rfl
      · by_cases hprune : s.dist cur ≥ s.best
        · -- pruned
          have : evalLoop (adjOf g.arcs) dest (fuel + 1) s =
              evalLoop (adjOf g.arcs) dest fuel { s with visiting := rest, oldCurrent := some cur } := by
            simp only [evalLoop, hv, hold, if_false, hprune, if_true]
          rw [this]
          apply ih
          have hdone : Done g s cur := Or.inl hprune
          refine { toCore := hI.toCore.congr rfl rfl rfl rfl hsub, set := ?_, old := ?_ }
          · intro u hu hud
            by_cases huc : u = cur
            · subst huc; right; exact hdone.congr rfl rfl
            · rcases hset0 u hu hud huc with h | h
              · exact Or.inl h
              · exact Or.inr (h.congr rfl rfl)
          · intro u hu
            have : u = cur := (Option.some.inj hu).symm
            subst this; exact hdone.congr rfl rfl
        · -- expanded
          have hcore1 : Core g src dest { s with visiting := rest, oldCurrent := some cur } :=
            hI.toCore.congr rfl rfl rfl rfl hsub
          have hset1 : ∀ u, s.dist u < infDist → u ≠ dest → u ≠ cur →
              u ∈ rest ∨ Done g { s with visiting := rest, oldCurrent := some cur } u := by
            intro u hu hud huc
            rcases hset0 u hu hud huc with h | h
            · exact Or.inl h
            · exact Or.inr (h.congr rfl rfl)
          obtain ⟨s', hr, hI', hc', hm', hb', ho', hs', hrel'⟩ :=
            relaxArcs_inv (g := g) (src := src) (dest := dest) hw (adjOf g.arcs cur)
              { s with visiting := rest, oldCurrent := some cur } hcore1 hcur
              (fun p hp => mem_adjOf.mp hp) hset1
          have : evalLoop (adjOf g.arcs) dest (fuel + 1) s = evalLoop (adjOf g.arcs) dest fuel s' := by
            simp only [evalLoop, hv, hold, if_false, hprune, hr]
          rw [this]
          apply ih
          have hdone : Done g s' cur := by
            right
            intro v w ha
            exact hrel' (v, w) (mem_adjOf.mpr ha)
          refine { toCore := hI', set := ?_, old := ?_ }
          · intro u hu hud
            by_cases huc : u = cur
            · subst huc; right; exact hdone
            · exact hs' u hu hud huc
          · intro u hu
            rw [ho'] at hu
            have : u = cur := (Option.some.inj hu).symm
            subst this; exact hdone
end

section
variable {g : Graph} {src dest : Nat}

theorem walk_cost_nonneg (hw : ∀ e ∈ g.arcs, 0 ≤ e.2.2) {u v : Nat} {c : Int} (h : Walk g u v c) :
    0 ≤ c := by
  induction h with
  | nil => exact Int.le_refl 0
  | cons ha _ ih => have := hw _ ha; simp only at this; omega

/-- When the work list is empty the destination's label is below every walk's cost (through any
vertex). -/
theorem final_le (hw : ∀ e ∈ g.arcs, 0 ≤ e.2.2) {s : LibSt} (hI : LoopInv g src dest s)
    (he : s.visiting = []) {u : Nat} {c : Int} (h : Walk g u dest c) :
    s.dist dest ≤ s.dist u + c := by
  induction h with
  | nil => omega
  | @cons u x z w c' ha hrest ih =>
    have ih := ih hI
    have hc' := walk_cost_nonneg hw hrest
    have hw0 : 0 ≤ w := hw _ ha
    by_cases hud : u = z
    · subst hud; omega
    · by_cases hlab : s.dist u < infDist
      · rcases hI.set u hlab hud with h | h
        · rw [he] at h; cases h
        · rcases h with h | h
          · rw [hI.bst] at h
            split at h
            · omega
            · have := infDist_lt_max; omega
          · have := h x w ha; omega
      · have := hI.hi z; omega

/-- A list of vertices that is a walk, with its cost. -/
inductive VWalk (g : Graph) : List Nat → Int → Prop
  | one (v : Nat) : VWalk g [v] 0
  | cons {a b : Nat} {rest : List Nat} {w c : Int} (ha : (a, b, w) ∈ g.arcs)
      (h : VWalk g (b :: rest) c) : VWalk g (a :: b :: rest) (w + c)

theorem VWalk.walk {l : List Nat} {c : Int} (h : VWalk g l c) :
    ∀ a z, l.head? = some a → l.getLast? = some z → Walk g a z c := by
  induction h with
  | one v =>
    intro a z ha hz
    simp at ha hz
    subst ha; subst hz
    exact Walk.nil _
  | @cons a' b rest w c ha _ ih =>
    intro a z hha hz
    simp at hha
    subst hha
    have hz' : (b :: rest).getLast? = some z := by simpa [List.getLast?_cons_cons] using hz
    exact Walk.cons ha (ih b z rfl hz')

/-- `bestPath`: following the predecessors from a vertex whose chain so far is a walk to `dest`
that fits below `dest`'s label yields a walk from `src` to `dest` that fits below it, too. -/
theorem bestPathAux_spec (hw : ∀ e ∈ g.arcs, 0 ≤ e.2.2) {s : LibSt} (hI : Core g src dest s) :
    ∀ (fuel c : Nat) (acc : List Nat) (cst : Int), VWalk g (c :: acc) cst →
      (c :: acc).getLast? = some dest → s.dist c + cst ≤ s.dist dest → s.dist c < infDist →
      ∀ p, bestPathAux s.pred src fuel c acc = some p →
        ∃ cst', VWalk g p cst' ∧ p.head? = some src ∧ p.getLast? = some dest ∧ cst' ≤ s.dist dest := by
  intro fuel
  induction fuel with
  | zero => intro c acc cst _ _ _ _ p hp; simp [bestPathAux] at hp
  | succ fuel ih =>
    intro c acc cst hvw hlast hle hlab p hp
    simp only [bestPathAux] at hp
    split at hp
    · rename_i hcs
      subst hcs
      cases hp
      refine ⟨cst, hvw, rfl, hlast, ?_⟩
      rw [hI.dsrc] at hle; omega
    · rename_i hcs
      obtain ⟨u, w, hpu, hau, hle'⟩ := hI.prd c hcs hlab
      rw [hpu] at hp
      simp only at hp
      have hw' : VWalk g (u :: c :: acc) (w + cst) := VWalk.cons hau hvw
      have hlast' : (u :: c :: acc).getLast? = some dest := by
        simpa [List.getLast?_cons_cons] using hlast
      have hw0 : 0 ≤ w := hw _ hau
      exact ih u (c :: acc) (w + cst) hw' hlast' (by omega) (by omega) p hp
end

/-! Termination of the main loop -/

/-- Sum of the labels of the vertices `0 … n-1` (labels are ≥ 0 under the invariant). -/
def labSum (n : Nat) (dist : Nat → Int) : Nat := ((List.range n).map fun v => (dist v).toNat).sum

theorem labSum_succ (n : Nat) (dist : Nat → Int) :
    labSum (n + 1) dist = labSum n dist + (dist n).toNat := by
  simp [labSum, List.range_succ]

theorem labSum_congr {n : Nat} {d d' : Nat → Int} (h : ∀ x, x < n → d' x = d x) :
    labSum n d' = labSum n d := by
  induction n with
  | zero => rfl
  | succ n ih =>
    rw [labSum_succ, labSum_succ, ih (fun x hx => h x (by omega)), h n (by omega)]

/-- Lowering one label below `n` lowers the sum. -/
theorem labSum_lt {n : Nat} {d d' : Nat → Int} {v : Nat} (hv : v < n)
    (hsame : ∀ x, x ≠ v → d' x = d x) (hlt : (d' v).toNat < (d v).toNat) :
    labSum n d' + 1 ≤ labSum n d := by
  induction n with
  | zero => omega
  | succ n ih =>
    rw [labSum_succ, labSum_succ]
    by_cases hvn : v = n
    · subst hvn
      rw [labSum_congr (n := v) (d := d) (d' := d') (fun x hx => hsame x (by omega))]
      omega
    · have := ih (by omega)
      rw [hsame n (fun e => hvn e.symm)]
      omega

theorem length_insertWalk_le (dist : Nat → Int) (v : Nat) : ∀ l : List Nat,
    (insertWalk dist v l).length ≤ l.length + 1 := by
  intro l
  induction l with
  | nil => simp [insertWalk]
  | cons c rest ih =>
    unfold insertWalk
    split
    · simp; omega
    · split <;> simp

theorem length_pushOrdered_le (dist : Nat → Int) (l : List Nat) (v : Nat) :
    (pushOrdered dist l v).length ≤ l.length + 1 := by
  unfold pushOrdered
  split
  · simp
  · split
    · simp
    · exact length_insertWalk_le dist v l

theorem length_relaxOne_visiting (dest cur v : Nat) (w : Int) (s : LibSt) :
    (relaxOne dest cur v w s).visiting.length ≤ s.visiting.length + 1 := by
  unfold relaxOne
  simp only
  split
  · simp
  · exact length_pushOrdered_le _ _ _

/-- The termination measure: twice the label sum plus the length of the work list. -/
def phi (n : Nat) (s : LibSt) : Nat := 2 * labSum n s.dist + s.visiting.length

section
variable {g : Graph} {src dest : Nat}

theorem relaxArcs_phi (hw : ∀ e ∈ g.arcs, 0 ≤ e.2.2) (hwf : ∀ e ∈ g.arcs, e.2.1 < g.n) {cur : Nat} :
    ∀ (todo : List (Nat × Int)) (s s' : LibSt), Core g src dest s → s.dist cur < infDist →
      (∀ p ∈ todo, (cur, p.1, p.2) ∈ g.arcs) → relaxArcs dest cur todo s = .ok s' →
      phi g.n s' ≤ phi g.n s := by
  intro todo
  induction todo with
  | nil => intro s s' _ _ _ h; simp [relaxArcs] at h; subst h; exact Nat.le_refl _
  | cons p rest ih =>
    obtain ⟨v, w⟩ := p
    intro s s' hI hcur hsub h
    have ha : (cur, v, w) ∈ g.arcs := hsub (v, w) List.mem_cons_self
    have hsub' : ∀ p ∈ rest, (cur, p.1, p.2) ∈ g.arcs := fun p hp => hsub p (List.mem_cons_of_mem _ hp)
    simp only [relaxArcs] at h
    split at h
    · rename_i hlt
      split at h
      · cases h
      · obtain ⟨hI1, hdv, hdx, _, _, _, hvcur⟩ := relaxOne_core hw hI hcur ha hlt
        have hcur1 : (relaxOne dest cur v w s).dist cur < infDist := by
          rw [hdx cur (fun e => hvcur e.symm)]; exact hcur
        have h1 := ih (relaxOne dest cur v w s) s' hI1 hcur1 hsub' h
        have hvn : v < g.n := hwf _ ha
        have hlo := hI.lo cur
        have hw0 : 0 ≤ w := hw _ ha
        have hsum := labSum_lt (n := g.n) (d := s.dist) (d' := (relaxOne dest cur v w s).dist) hvn hdx
          (by rw [hdv]; omega)
        have hlen := length_relaxOne_visiting dest cur v w s
        unfold phi at h1 ⊢
        omega
    · exact ih s s' hI hcur hsub' h

/-- One iteration of the main loop with a non-empty work list: the next state satisfies the
invariant again and the measure has dropped; the loop error does not occur. -/
theorem loop_step (hw : ∀ e ∈ g.arcs, 0 ≤ e.2.2) (hwf : ∀ e ∈ g.arcs, e.2.1 < g.n) {s : LibSt}
    (hI : LoopInv g src dest s) {cur : Nat} {rest : List Nat} (hv : s.visiting = cur :: rest) :
    ∃ s₁, (∀ fuel, evalLoop (adjOf g.arcs) dest (fuel + 1) s = evalLoop (adjOf g.arcs) dest fuel s₁) ∧
      LoopInv g src dest s₁ ∧ phi g.n s₁ + 1 ≤ phi g.n s := by
  obtain ⟨hcur, hcd⟩ := hI.lst cur (by rw [hv]; exact List.mem_cons_self)
  have hsub : ∀ u ∈ rest, u ∈ s.visiting := fun u hu => by rw [hv]; exact List.mem_cons_of_mem _ hu
  have hset0 : ∀ u, s.dist u < infDist → u ≠ dest → u ≠ cur → u ∈ rest ∨ Done g s u := by
    intro u hu hud huc
    rcases hI.set u hu hud with h | h
    · rw [hv] at h
      rcases List.mem_cons.mp h with h | h
      · exact absurd h huc
      · exact Or.inl h
    · exact Or.inr h
  have hphi0 : ∀ oc, phi g.n { s with visiting := rest, oldCurrent := oc } + 1 ≤ phi g.n s := by
    intro oc; simp only [phi, hv, List.length_cons]; omega
  by_cases hold : s.oldCurrent = some cur
  · refine ⟨{ s with visiting := rest }, ?_, ?_, hphi0 s.oldCurrent⟩
    · intro fuel; simp only [evalLoop, hv, hold, if_true]
    · refine { toCore := hI.toCore.congr rfl rfl rfl rfl hsub, set := ?_, old := ?_ }
      · intro u hu hud
        by_cases huc : u = cur
        · subst huc; right; exact (hI.old u hold).congr rfl rfl
        · rcases hset0 u hu hud huc with h | h
          · exact Or.inl h
          · exact Or.inr (h.congr rfl rfl)
      · intro u hu; exact (hI.old u hu).congr rfl rfl
  · by_cases hprune : s.dist cur ≥ s.best
    · refine ⟨{ s with visiting := rest, oldCurrent := some cur }, ?_, ?_, hphi0 (some cur)⟩
      · intro fuel; simp only [evalLoop, hv, hold, if_false, hprune, if_true]
      · have hdone : Done g s cur := Or.inl hprune
        refine { toCore := hI.toCore.congr rfl rfl rfl rfl hsub, set := ?_, old := ?_ }
        · intro u hu hud
          by_cases huc : u = cur
          · subst huc; right; exact hdone.congr rfl rfl
          · rcases hset0 u hu hud huc with h | h
            · exact Or.inl h
            · exact Or.inr (h.congr rfl rfl)
        · intro u hu
          have : u = cur := (Option.some.inj hu).symm
          subst this; exact hdone.congr rfl rfl
    · have hcore1 : Core g src dest { s with visiting := rest, oldCurrent := some cur } :=
        hI.toCore.congr rfl rfl rfl rfl hsub
      have hset1 : ∀ u, s.dist u < infDist → u ≠ dest → u ≠ cur →
          u ∈ rest ∨ Done g { s with visiting := rest, oldCurrent := some cur } u := by
        intro u hu hud huc
        rcases hset0 u hu hud huc with h | h
        · exact Or.inl h
        · exact Or.inr (h.congr rfl rfl)
      obtain ⟨s', hr, hI', hc', hm', hb', ho', hs', hrel'⟩ :=
        relaxArcs_inv (g := g) (src := src) (dest := dest) hw (adjOf g.arcs cur)
          { s with visiting := rest, oldCurrent := some cur } hcore1 hcur
          (fun p hp => mem_adjOf.mp hp) hset1
      have hphi := relaxArcs_phi (g := g) (src := src) (dest := dest) hw hwf (adjOf g.arcs cur)
        { s with visiting := rest, oldCurrent := some cur } s' hcore1 hcur
        (fun p hp => mem_adjOf.mp hp) hr
      refine ⟨s', ?_, ?_, by have := hphi0 (some cur); omega⟩
      · intro fuel; simp only [evalLoop, hv, hold, if_false, hprune, hr]
      · have hdone : Done g s' cur := by
          right
          intro v w ha
          exact hrel' (v, w) (mem_adjOf.mpr ha)
        refine { toCore := hI', set := ?_, old := ?_ }
        · intro u hu hud
          by_cases huc : u = cur
          · subst huc; right; exact hdone
          · exact hs' u hu hud huc
        · intro u hu
          rw [ho'] at hu
          have : u = cur := (Option.some.inj hu).symm
          subst this; exact hdone

/-- The loop ends by itself, with the invariant and an empty work list, as soon as the fuel covers
the measure; it never returns the loop error. -/
theorem evalLoop_total (hw : ∀ e ∈ g.arcs, 0 ≤ e.2.2) (hwf : ∀ e ∈ g.arcs, e.2.1 < g.n) :
    ∀ (fuel : Nat) (s : LibSt), LoopInv g src dest s → phi g.n s ≤ fuel →
      ∃ s', evalLoop (adjOf g.arcs) dest fuel s = .ok (some s') ∧ LoopInv g src dest s' ∧
        s'.visiting = [] := by
  intro fuel
  induction fuel with
  | zero =>
    intro s hI hphi
    have hl : s.visiting = [] := by
      have : s.visiting.length = 0 := by unfold phi at hphi; omega
      exact List.length_eq_zero_iff.mp this
    exact ⟨s, by simp [evalLoop, hl], hI, hl⟩
  | succ fuel ih =>
    intro s hI hphi
    cases hv : s.visiting with
    | nil => exact ⟨s, by simp only [evalLoop, hv], hI, hv⟩
    | cons cur rest =>
      obtain ⟨s₁, hstep, hI₁, hdec⟩ := loop_step hw hwf hI hv
      obtain ⟨s', hr, hI', he⟩ := ih s₁ hI₁ (by omega)
      exact ⟨s', by rw [hstep]; exact hr, hI', he⟩
end

theorem labSum_le (n : Nat) (d : Nat → Int) (B : Nat) (h : ∀ v, (d v).toNat ≤ B) :
    labSum n d ≤ n * B := by
  induction n with
  | zero => simp [labSum]
  | succ n ih =>
    rw [labSum_succ]
    have := h n
    have e : (n + 1) * B = n * B + B := by rw [Nat.add_mul]; simp
    omega

theorem phi_libInit_le (g : Graph) (src : Nat) : phi g.n (libInit src) ≤ libFuel g := by
  have h := labSum_le g.n (libInit src).dist infDist.toNat (by
    intro v
    simp only [libInit]
    split
    · simp
    · exact Nat.le_refl _)
  have hB : 1 ≤ infDist.toNat := by decide
  have e : infDist.toNat * (2 * g.n + 1) = 2 * (g.n * infDist.toNat) + infDist.toNat := by
    rw [Nat.mul_add, Nat.mul_one, Nat.mul_comm infDist.toNat (2 * g.n), Nat.mul_assoc]
  unfold phi libFuel
  simp only [libInit, List.length_singleton] at h ⊢
  omega

/-- Lexicographic order on (label, stamp). -/
def KeyLt (dist : Nat → Int) (stamp : Nat → Nat) (a b : Nat) : Prop :=
  dist a < dist b ∨ (dist a = dist b ∧ stamp a < stamp b)

theorem KeyLt.trans {dist : Nat → Int} {stamp : Nat → Nat} {a b c : Nat}
    (h₁ : KeyLt dist stamp a b) (h₂ : KeyLt dist stamp b c) : KeyLt dist stamp a c := by
  unfold KeyLt at *
  rcases h₁ with h₁ | ⟨h₁, h₁'⟩ <;> rcases h₂ with h₂ | ⟨h₂, h₂'⟩
  · left; omega
  · left; omega
  · left; omega
  · right; exact ⟨by omega, by omega⟩

theorem KeyLt.ne {dist : Nat → Int} {stamp : Nat → Nat} {a b : Nat} (h : KeyLt dist stamp a b) :
    a ≠ b := by
  intro e; subst e
  rcases h with h | ⟨_, h⟩ <;> omega

/-- `bestPath` reaches `src`: the chain of predecessors visits pairwise different vertices (their
keys decrease), and there are only `n` of them. -/
theorem bestPathAux_total {g : Graph} {src dest : Nat} (hw : ∀ e ∈ g.arcs, 0 ≤ e.2.2)
    (hwf : ∀ e ∈ g.arcs, e.2.1 < g.n) (hs : src < g.n) {s : LibSt} (hI : Core g src dest s)
    {stamp : Nat → Nat}
    (hch : ∀ v, v ≠ src → s.dist v < infDist → ∃ u w, s.pred v = some u ∧ (u, v, w) ∈ g.arcs ∧
      (s.dist u + w < s.dist v ∨ (s.dist u + w = s.dist v ∧ stamp u < stamp v))) :
    ∀ (fuel c : Nat) (acc : List Nat), (c :: acc).Pairwise (KeyLt s.dist stamp) →
      (∀ x ∈ c :: acc, s.dist x < infDist) → g.n + 1 ≤ acc.length + fuel →
      bestPathAux s.pred src fuel c acc ≠ none := by
  have hlt : ∀ x, s.dist x < infDist → x < g.n := by
    intro x hx
    rcases walk_end_lt hwf (hI.snd x hx) with h | h
    · rw [h]; exact hs
    · exact h
  intro fuel
  induction fuel with
  | zero =>
    intro c acc hp hl hlen
    exfalso
    have hnd : (c :: acc).Nodup := hp.imp (fun h => h.ne)
    have := nodup_length_le g.n (c :: acc) hnd (fun x hx => hlt x (hl x hx))
    simp at this; omega
  | succ fuel ih =>
    intro c acc hp hl hlen
    simp only [bestPathAux]
    split
    · simp
    · rename_i hcs
      have hc := hl c List.mem_cons_self
      obtain ⟨u, w, hpu, hau, hd⟩ := hch c hcs hc
      rw [hpu]
      simp only
      have hw0 : 0 ≤ w := hw _ hau
      have hlo := hI.lo u
      have hkey : KeyLt s.dist stamp u c := by
        unfold KeyLt
        rcases hd with hd | ⟨hd, hst⟩
        · left; omega
        · by_cases h0 : w = 0
          · right; exact ⟨by omega, hst⟩
          · left; omega
      apply ih u (c :: acc)
      · refine List.pairwise_cons.mpr ⟨?_, hp⟩
        intro x hx
        rcases List.mem_cons.mp hx with rfl | hx
        · exact hkey
        · exact hkey.trans ((List.pairwise_cons.mp hp).1 x hx)
      · intro x hx
        rcases List.mem_cons.mp hx with rfl | hx
        · rcases hd with hd | ⟨hd, _⟩ <;> omega
        · exact hl x hx
      · simp; omega

theorem libInit_inv (g : Graph) {src dest : Nat} (hsd : src ≠ dest) :
    LoopInv g src dest (libInit src) := by
  have hinf : (0 : Int) < infDist := by decide
  refine { dsrc := by simp [libInit], psrc := rfl, lo := ?_, hi := ?_, snd := ?_, acy := ?_,
           bst := rfl, vis := ?_, lst := ?_, set := ?_, old := ?_ }
  · intro v; simp only [libInit]; split <;> omega
  · intro v; simp only [libInit]; split <;> omega
  · intro v hv
    simp only [libInit] at hv ⊢
    split at hv
    · rename_i h; subst h; simp; exact Walk.nil _
    · omega
  · refine ⟨fun _ => 0, 1, fun _ => Nat.zero_lt_one, ?_⟩
    intro v hvs hv
    simp only [libInit, hvs, if_false] at hv
    omega
  · simp only [libInit]
    have : ¬ dest = src := fun e => hsd e.symm
    simp [this]
  · intro u hu
    simp only [libInit, List.mem_singleton] at hu
    subst hu
    exact ⟨by simp [libInit]; exact hinf, hsd⟩
  · intro u hu _
    simp only [libInit] at hu ⊢
    split at hu
    · rename_i h; left; simp [h]
    · omega
  · intro u hu; simp [libInit] at hu

/-- **Partial correctness of the ported `Shortest`** for weights ≥ 0: whenever it answers, the
answer is right; the loop error never occurs. -/
theorem libShortest_spec (g : Graph) (hw : ∀ e ∈ g.arcs, 0 ≤ e.2.2)
    (hwf : ∀ e ∈ g.arcs, e.2.1 < g.n) {src dest : Nat} (hs : src < g.n)
    (hsd : src ≠ dest) (fuel : Nat) :
    match libShortest fuel g.n (adjOf g.arcs) src dest with
    | .ok d p => IsDist g src dest d ∧
        ∃ h rest w c, p = src :: h :: rest ∧ (src, h, w) ∈ g.arcs ∧ Walk g h dest c ∧ w + c = d
    | .noPath => ∀ c, Walk g src dest c → infDist ≤ c
    | .loopErr => False
    | .outOfFuel => True
    | .badPred => False := by
  have hloop := evalLoop_inv hw fuel (libInit src) (libInit_inv g hsd)
  unfold libShortest
  cases hev : evalLoop (adjOf g.arcs) dest fuel (libInit src) with
  | error e => rw [hev] at hloop; exact hloop.elim
  | ok r =>
    cases r with
    | none => trivial
    | some s =>
      rw [hev] at hloop
      obtain ⟨hI, he⟩ := hloop
      simp only
      have hmin : ∀ c, Walk g src dest c → s.dist dest ≤ c := by
        intro c hc
        have := final_le hw hI he hc
        rw [hI.dsrc] at this; omega
      by_cases hvd : s.visitedDest = true
      · simp only [hvd, if_true]
        have hlab : s.dist dest < infDist := hI.vis.mp hvd
        cases hbp : bestPathAux s.pred src (g.n + 1) dest [] with
        | none =>
          obtain ⟨stamp, bound, _, hch⟩ := hI.acy
          exact bestPathAux_total hw hwf hs hI.toCore hch (g.n + 1) dest []
            (List.pairwise_singleton _ _) (by intro x hx; simp at hx; subst hx; exact hlab)
            (by simp) hbp
        | some p =>
          simp only
          obtain ⟨cst', hvw, hhead, hlast, hle⟩ :=
            bestPathAux_spec hw hI.toCore (g.n + 1) dest [] 0 (VWalk.one dest) rfl (by omega) hlab p hbp
          have hdist : IsDist g src dest (s.dist dest) := ⟨hI.snd dest hlab, hmin⟩
          refine ⟨hdist, ?_⟩
          have hwalk := hvw.walk src dest hhead hlast
          have hge := hmin _ hwalk
          cases hvw with
          | one v =>
            simp at hhead hlast
            exact absurd (hhead.symm.trans hlast) hsd
          | @cons a b rest w c ha hrest =>
            simp at hhead
            subst hhead
            have hlast' : (b :: rest).getLast? = some dest := by
              simpa [List.getLast?_cons_cons] using hlast
            exact ⟨b, rest, w, c, rfl, ha, hrest.walk b dest rfl hlast', by omega⟩
      · simp only [hvd]
        intro c hc
        have hnl : ¬ s.dist dest < infDist := fun h => hvd (hI.vis.mpr h)
        have := hmin c hc
        omega

/-- **The ported loop terminates by itself**: whenever the fuel covers the initial value of the
measure `phi` (which drops in every iteration) the answer is not `outOfFuel`. Stated for an
arbitrary fuel so that nothing tempts the elaborator to unfold the loop. -/
theorem libShortest_terminates_of_fuel (g : Graph) (hw : ∀ e ∈ g.arcs, 0 ≤ e.2.2)
    (hwf : ∀ e ∈ g.arcs, e.2.1 < g.n) {src dest : Nat} (hsd : src ≠ dest) (fuel : Nat)
    (hfuel : phi g.n (libInit src) ≤ fuel) :
    libShortest fuel g.n (adjOf g.arcs) src dest ≠ .outOfFuel := by
  obtain ⟨s', hr, _, _⟩ := evalLoop_total (g := g) (src := src) (dest := dest) hw hwf fuel
    (libInit src) (libInit_inv g hsd) hfuel
  unfold libShortest
  rw [hr]
  simp only
  split
  · split <;> simp
  · simp

/-- … in particular with the fuel the port uses. -/
theorem libShortest_terminates (g : Graph) (hw : ∀ e ∈ g.arcs, 0 ≤ e.2.2)
    (hwf : ∀ e ∈ g.arcs, e.2.1 < g.n) {src dest : Nat} (hsd : src ≠ dest) :
    libShortest (libFuel g) g.n (adjOf g.arcs) src dest ≠ .outOfFuel :=
  libShortest_terminates_of_fuel g hw hwf hsd (libFuel g) (phi_libInit_le g src)

theorem lookup_libTable (g : Graph) (d : Nat) :
    lookup (libTable g) d = if d < g.n ∧ d ≠ 0 then libNextHop g d else none := by
  unfold libTable
  rw [lookup_filterMap_key (fun d => libNextHop g d) d (List.range g.n)]
  simp [List.mem_range]

/-- From the specification of a `Shortest` answer to the next hop taken from it (the answer is a
variable here: nothing about the loop has to be evaluated). -/
theorem hopOf_spec {g : Graph}
    (hcost : ∀ d c, Walk g 0 d c → ∃ c', Walk g 0 d c' ∧ c' < infDist) (d : Nat) (r : LibRes)
    (hspec : match r with
      | .ok dist p => IsDist g 0 d dist ∧
          ∃ h rest w c, p = 0 :: h :: rest ∧ (0, h, w) ∈ g.arcs ∧ Walk g h d c ∧ w + c = dist
      | .noPath => ∀ c, Walk g 0 d c → infDist ≤ c
      | .loopErr => False
      | .outOfFuel => True
      | .badPred => False)
    (hnf : r ≠ .outOfFuel) :
    (∀ h, hopOf r = some h → ∃ w c, (0, h, w) ∈ g.arcs ∧ Walk g h d c ∧ IsDist g 0 d (w + c)) ∧
    (Reachable g 0 d → (hopOf r).isSome = true) := by
  cases r with
  | ok dist p =>
    obtain ⟨hdist, h, rest, w, c, hp, ha, hwalk, hsum⟩ := hspec
    subst hp
    refine ⟨?_, fun _ => rfl⟩
    intro h' hh'
    simp only [hopOf] at hh'
    cases hh'
    exact ⟨w, c, ha, hwalk, by rw [hsum]; exact hdist⟩
  | noPath =>
    refine ⟨fun h hh => by simp [hopOf] at hh, ?_⟩
    rintro ⟨c, hc⟩
    obtain ⟨c', hc', hlt⟩ := hcost d c hc
    have := hspec c' hc'
    omega
  | loopErr => exact hspec.elim
  | outOfFuel => exact absurd rfl hnf
  | badPred => exact hspec.elim

/-- **The routing table computed with the ported library loop is right** — for every graph with
weights ≥ 0 and every iteration order of the arc maps (the order of `g.arcs`), provided reachable
destinations are reachable at a cost below `MaxInt64 - 2` (the library's "infinity"). -/
theorem libTable_correct (g : Graph) (hw : ∀ e ∈ g.arcs, 0 ≤ e.2.2)
    (hwf : ∀ e ∈ g.arcs, e.2.1 < g.n)
    (hcost : ∀ d c, Walk g 0 d c → ∃ c', Walk g 0 d c' ∧ c' < infDist) :
    MinCostNextHop g (lookup (libTable g)) := by
  have key : ∀ d, d < g.n → d ≠ 0 →
      (∀ h, libNextHop g d = some h →
        ∃ w c, (0, h, w) ∈ g.arcs ∧ Walk g h d c ∧ IsDist g 0 d (w + c)) ∧
      (Reachable g 0 d → (libNextHop g d).isSome = true) := by
    intro d hd hd0
    exact hopOf_spec hcost d _
      (libShortest_spec g hw hwf (src := 0) (dest := d) (by omega) (fun e => hd0 e.symm) (libFuel g))
      (libShortest_terminates g hw hwf (src := 0) (dest := d) (fun e => hd0 e.symm))
  constructor
  · intro d
    rw [lookup_libTable]
    constructor
    · intro hsome
      split at hsome
      · rename_i hd
        obtain ⟨h, hh⟩ := Option.isSome_iff_exists.mp hsome
        obtain ⟨w, c, ha, hwalk, _⟩ := (key d hd.1 hd.2).1 h hh
        exact ⟨hd.2, w + c, Walk.cons ha hwalk⟩
      · cases hsome
    · rintro ⟨hd0, hreach⟩
      have hlt : d < g.n := by
        obtain ⟨c, hc⟩ := hreach
        rcases walk_end_lt hwf hc with h | h
        · exact absurd h hd0
        · exact h
      simp only [hlt, hd0, ne_eq, not_false_eq_true, and_self, if_true]
      exact (key d hlt hd0).2 hreach
  · intro d h hh
    rw [lookup_libTable] at hh
    split at hh
    · rename_i hd
      exact (key d hd.1 hd.2).1 h hh
    · cases hh


/-! ## §F The graph `computeRoutingTable` builds -/

theorem toInt64_small {x : Nat} (h : x < two64 / 2) : toInt64 x = (x : Int) := by
  have h2 : x < two64 := by unfold two64 at h ⊢; omega
  unfold toInt64
  rw [Nat.mod_eq_of_lt h2]
  simp [h]

/-- A loss time in the past costs the elapsed time; a live link costs nothing. -/
theorem edgeCost_past {now ts : Nat} (hts : 0 < ts) (hle : ts ≤ now) (hnow : now < two64 / 2) :
    edgeCost now ts = ((now - ts : Nat) : Int) := by
  have h64 : two64 / 2 * 2 = two64 := by decide
  have hn2 : now < two64 := by omega
  have ht2 : ts < two64 := by omega
  unfold edgeCost
  have : ts ≠ 0 := by omega
  simp only [this, if_false]
  rw [Nat.mod_eq_of_lt hn2, Nat.mod_eq_of_lt ht2]
  have e : (now + two64 - ts) % two64 = now - ts := by
    have : now + two64 - ts = (now - ts) + two64 := by omega
    rw [this, Nat.add_mod_right, Nat.mod_eq_of_lt (by omega)]
  rw [e]
  exact toInt64_small (by omega)

theorem edgeCost_nonneg {now ts : Nat} (hle : ts ≤ now) (hnow : now < two64 / 2) :
    0 ≤ edgeCost now ts := by
  by_cases h0 : ts = 0
  · simp [edgeCost, h0]
  · rw [edgeCost_past (by omega) hle hnow]
    exact Int.natCast_nonneg _

theorem mem_foldl_addArc (l : List Arc) : ∀ (acc : List Arc) (a : Arc),
    a ∈ l.foldl addArc acc → a ∈ acc ∨ a ∈ l := by
  induction l with
  | nil => intro acc a h; exact Or.inl h
  | cons b rest ih =>
    intro acc a h
    simp only [List.foldl_cons] at h
    rcases ih _ a h with h | h
    · unfold addArc at h
      rcases List.mem_append.mp h with h | h
      · exact Or.inl (List.mem_filter.mp h).1
      · simp at h; subst h; exact Or.inr List.mem_cons_self
    · exact Or.inr (List.mem_cons_of_mem _ h)

theorem idxOf_lt {ix : List Nat} (h : ix ≠ []) (id : Nat) : idxOf ix id < ix.length := by
  unfold idxOf
  simp only
  split
  · assumption
  · exact List.length_pos_iff.mpr h

/-- All loss times known to the node lie in the past. -/
def PastLosses (now : Nat) (s : State) : Prop :=
  (∀ e ∈ s.peers, e.2 ≤ now) ∧
  ∀ id d, s.received id = some d → ∀ e ∈ d.peers, e.2 ≤ now

theorem buildGraph_arc {now : Nat} {s : State} {a : Arc} (h : a ∈ (buildGraph now s).arcs) :
    (∃ e ∈ s.peers, a = (0, idxOf s.indexNode e.1, edgeCost now e.2)) ∨
    (∃ id d, s.received id = some d ∧ ∃ e ∈ d.peers,
      a = (idxOf s.indexNode d.id, idxOf s.indexNode e.1, edgeCost now e.2)) := by
  simp only [buildGraph] at h
  rcases mem_foldl_addArc _ _ _ h with h | h
  · cases h
  · rcases List.mem_append.mp h with h | h
    · left
      simp only [ownArcs, List.mem_map] at h
      obtain ⟨e, he, rfl⟩ := h
      exact ⟨e, he, rfl⟩
    · right
      simp only [recvArcs, List.mem_flatMap] at h
      obtain ⟨id, _, hid⟩ := h
      cases hr : s.received id with
      | none => simp [hr] at hid
      | some d =>
        simp only [hr, List.mem_map] at hid
        obtain ⟨e, he, rfl⟩ := hid
        exact ⟨id, d, hr, e, he, rfl⟩

theorem buildGraph_nonneg {now : Nat} {s : State} (hp : PastLosses now s) (hnow : now < two64 / 2) :
    ∀ e ∈ (buildGraph now s).arcs, 0 ≤ e.2.2 := by
  intro a ha
  rcases buildGraph_arc ha with ⟨e, he, rfl⟩ | ⟨id, d, hr, e, he, rfl⟩
  · exact edgeCost_nonneg (hp.1 e he) hnow
  · exact edgeCost_nonneg (hp.2 id d hr e he) hnow

theorem buildGraph_wf {now : Nat} {s : State} (hix : s.indexNode ≠ []) :
    ∀ e ∈ (buildGraph now s).arcs, e.1 < (buildGraph now s).n ∧ e.2.1 < (buildGraph now s).n := by
  intro a ha
  have hn : (buildGraph now s).n = s.indexNode.length := rfl
  rw [hn]
  rcases buildGraph_arc ha with ⟨e, _, rfl⟩ | ⟨id, d, _, e, _, rfl⟩
  · exact ⟨List.length_pos_iff.mpr hix, idxOf_lt hix _⟩
  · exact ⟨idxOf_lt hix _, idxOf_lt hix _⟩

/-- `SenderForBundle` for a unicast bundle. -/
theorem senderForBundle_unicast (table : Table) (clas sent : List Nat) (d : Nat) :
    (senderForBundle table clas sent (.node d)).sent = sent ∧
    ((senderForBundle table clas sent (.node d)).senders = [] ∧
        (senderForBundle table clas sent (.node d)).delete = false ∨
      ∃ h, lookup table d = some h ∧ h ∈ clas ∧
        (senderForBundle table clas sent (.node d)).senders = [h] ∧
        (senderForBundle table clas sent (.node d)).delete = true) := by
  cases hl : lookup table d with
  | none => simp [senderForBundle, hl]
  | some h =>
    by_cases hc : h ∈ clas
    · refine ⟨by simp [senderForBundle, hl, hc], Or.inr ⟨h, rfl, hc, ?_, ?_⟩⟩ <;>
        simp [senderForBundle, hl, hc]
    · simp [senderForBundle, hl, hc]

theorem forwardTargets_unicast (table : Table) (clas sent : List Nat) (d : Nat) :
    (∀ p ∈ (forwardTargets table clas sent (.node d)).senders, p = d ∨ lookup table d = some p) ∧
    ((forwardTargets table clas sent (.node d)).senders ≠ [] →
      (forwardTargets table clas sent (.node d)).delete = true) ∧
    (d ∉ clas → (forwardTargets table clas sent (.node d)).senders.length ≤ 1) := by
  unfold forwardTargets
  simp only
  by_cases hdir : (clas.filter (· == d)).isEmpty = true
  · simp only [hdir, if_true]
    obtain ⟨_, h⟩ := senderForBundle_unicast table clas sent d
    rcases h with ⟨h1, h2⟩ | ⟨h, hl, _, h1, h2⟩
    · rw [h1]; simp
    · rw [h1, h2]
      refine ⟨?_, fun _ => rfl, fun _ => by simp⟩
      intro p hp
      simp at hp
      subst hp
      exact Or.inr hl
  · simp only [hdir, Bool.false_eq_true, if_false]
    refine ⟨?_, fun _ => trivial, ?_⟩
    · intro p hp
      have := (List.mem_filter.mp hp).2
      left; simpa using this
    · intro hd
      exfalso
      apply hdir
      simp only [List.isEmpty_iff]
      apply List.filter_eq_nil_iff.mpr
      intro x hx hxd
      have : x = d := by simpa using hxd
      exact hd (this ▸ hx)

/-- A checkable sufficient condition for "reachable destinations are reachable below the library's
infinity": the Bellman–Ford distances from `0` are below it. -/
theorem cost_bound_of_bf {g : Graph} (hw : ∀ e ∈ g.arcs, 0 ≤ e.2.2) (hwf : ∀ e ∈ g.arcs, e.2.1 < g.n)
    (hn : 0 < g.n)
    (hb : ∀ d, d < g.n → ((bf g 0).get d).all (fun c => decide (c < infDist)) = true) :
    ∀ d c, Walk g 0 d c → ∃ c', Walk g 0 d c' ∧ c' < infDist := by
  intro d c hc
  have hd : d < g.n := by
    rcases walk_end_lt hwf hc with h | h
    · rw [h]; exact hn
    · exact h
  obtain ⟨c', hc', _⟩ := bf_complete hw hwf hn hc
  refine ⟨c', bf_sound g 0 d c' hc', ?_⟩
  have := hb d hd
  rw [hc'] at this
  simpa using this


/-! ## §G The node index -/

theorem newNode_nodup {ix : List Nat} (h : ix.Nodup) (id : Nat) : (newNode ix id).Nodup := by
  unfold newNode
  split
  · exact h
  · rename_i hc
    have : id ∉ ix := by simpa using hc
    exact List.nodup_append.mpr ⟨h, by simp, by
      intro a ha b hb hab
      simp at hb
      subst hb; subst hab
      exact this ha⟩

theorem newNode_head {ix : List Nat} (h : ix ≠ []) (id : Nat) : (newNode ix id).head? = ix.head? := by
  unfold newNode
  split
  · rfl
  · cases ix with
    | nil => exact absurd rfl h
    | cons a rest => rfl

theorem newNode_mem {ix : List Nat} (id x : Nat) : x ∈ newNode ix id ↔ x = id ∨ x ∈ ix := by
  unfold newNode
  split
  · rename_i hc
    have : id ∈ ix := by simpa using hc
    constructor
    · exact Or.inr
    · rintro (h | h)
      · subst h; exact this
      · exact h
  · simp [or_comm]

theorem foldl_newNode_nodup (l : List Nat) : ∀ {ix : List Nat}, ix.Nodup → (l.foldl newNode ix).Nodup := by
  induction l with
  | nil => intro ix h; exact h
  | cons a rest ih => intro ix h; exact ih (newNode_nodup h a)

theorem foldl_newNode_head (l : List Nat) : ∀ {ix : List Nat}, ix ≠ [] →
    (l.foldl newNode ix).head? = ix.head? ∧ l.foldl newNode ix ≠ [] := by
  induction l with
  | nil => intro ix h; exact ⟨rfl, h⟩
  | cons a rest ih =>
    intro ix h
    have hne : newNode ix a ≠ [] := by
      unfold newNode; split
      · exact h
      · simp
    obtain ⟨h1, h2⟩ := ih hne
    exact ⟨by simp only [List.foldl_cons]; rw [h1, newNode_head h], by simpa only [List.foldl_cons] using h2⟩

/-- Well-formed node index: no node twice, the own node first. -/
def IndexOk (self : Nat) (s : State) : Prop := s.indexNode.Nodup ∧ s.indexNode.head? = some self

theorem indexOk_init (self : Nat) : IndexOk self (State.init self) := by
  simp [IndexOk, State.init]

theorem indexOk_ne_nil {self : Nat} {s : State} (h : IndexOk self s) : s.indexNode ≠ [] := by
  intro e
  have := h.2
  rw [e] at this
  cases this

theorem indexOk_notify {self : Nat} {s : State} (h : IndexOk self s) (d : PeerData) :
    IndexOk self (s.notify d) := by
  unfold State.notify
  split
  · have hne := indexOk_ne_nil h
    simp only [IndexOk]
    split
    · have hne' : newNode s.indexNode d.id ≠ [] := by
        unfold newNode; split
        · exact hne
        · simp
      refine ⟨foldl_newNode_nodup _ (newNode_nodup h.1 _), ?_⟩
      rw [(foldl_newNode_head _ hne').1, newNode_head hne]
      exact h.2
    · refine ⟨foldl_newNode_nodup _ h.1, ?_⟩
      rw [(foldl_newNode_head _ hne).1]
      exact h.2
  · exact h

theorem indexOk_peerAppeared {self : Nat} {s : State} (h : IndexOk self s) (p : Nat) :
    IndexOk self (s.peerAppeared p) := by
  simp only [IndexOk, State.peerAppeared]
  exact ⟨newNode_nodup h.1 p, by rw [newNode_head (indexOk_ne_nil h)]; exact h.2⟩

theorem indexOk_peerDisappeared {self : Nat} {s : State} (h : IndexOk self s) (now p : Nat) :
    IndexOk self (s.peerDisappeared now p) := h

/-- In a duplicate-free index, `nodeIndex` and `indexNode` are inverse to each other. -/
theorem idxOf_getD {ix : List Nat} (h : ix.Nodup) {i : Nat} (hi : i < ix.length) :
    idxOf ix (ix.getD i 0) = i := by
  unfold idxOf
  have hget : ix.getD i 0 = ix[i] := by simp [List.getD, hi]
  rw [hget]
  have : ix.idxOf ix[i] = i := List.Nodup.idxOf_getElem h i hi
  simp [this, hi]

theorem getD_idxOf {ix : List Nat} {id : Nat} (h : id ∈ ix) : ix.getD (idxOf ix id) 0 = id := by
  unfold idxOf
  have hlt : ix.idxOf id < ix.length := List.idxOf_lt_length_of_mem h
  simp [hlt, List.getD]

theorem idxOf_self {self : Nat} {s : State} (h : IndexOk self s) : idxOf s.indexNode self = 0 := by
  have h2 := h.2
  cases hix : s.indexNode with
  | nil => rw [hix] at h2; cases h2
  | cons a rest =>
    rw [hix] at h2
    simp at h2
    subst h2
    simp [idxOf]

end Dtn7.Dtlsr.Lemmas
