/-
Helper lemmas for C20 (DTLSR). Property-level statements are in `Dtn7.Props.C20`.

  §A  walks, potentials, soundness of the certificate checker `checkTable`
-/
import Dtn7.Model.Dtlsr

namespace Dtn7.Dtlsr.Lemmas
open Dtn7.Dtlsr

/-! ## §A Walks and the certificate checker -/

theorem Walk.trans {g : Graph} {u v x : Nat} {c₁ c₂ : Int} (h₁ : Walk g u v c₁) (h₂ : Walk g v x c₂) :
    Walk g u x (c₁ + c₂) := by
  induction h₁ with
  | nil u => simpa using h₂
  | cons ha _ ih =>
    have := Walk.cons ha (ih h₂)
    simpa [Int.add_assoc] using this

theorem Walk.single {g : Graph} {u v : Nat} {w : Int} (ha : (u, v, w) ∈ g.arcs) : Walk g u v w := by
  simpa using Walk.cons ha (Walk.nil v)

/-- Walks never leave the vertex set when every arc ends in it. -/
theorem walk_end_lt {g : Graph} (hwf : ∀ e ∈ g.arcs, e.2.1 < g.n) {u v : Nat} {c : Int}
    (h : Walk g u v c) : v = u ∨ v < g.n := by
  induction h with
  | nil u => exact Or.inl rfl
  | @cons u v x w c ha _ ih =>
    rcases ih with h | h
    · right; subst h; exact hwf _ ha
    · exact Or.inr h

/-- Feasible potentials on a closed labelled set bound every walk from below. -/
theorem walk_lower {g : Graph} {pot : Nat → Option Int}
    (hf : ∀ e ∈ g.arcs, arcFeasible pot e = true) {u v : Nat} {c : Int} (h : Walk g u v c) :
    ∀ pu, pot u = some pu → ∃ pv, pot v = some pv ∧ pv ≤ pu + c := by
  induction h with
  | nil u => intro pu hpu; exact ⟨pu, hpu, by omega⟩
  | @cons u v x w c ha _ ih =>
    intro pu hpu
    have hfe := hf _ ha
    simp only [arcFeasible, hpu] at hfe
    cases hpv : pot v with
    | none => simp [hpv] at hfe
    | some pv =>
      simp only [hpv, decide_eq_true_eq] at hfe
      obtain ⟨px, hpx, hle⟩ := ih pv hpv
      exact ⟨px, hpx, by omega⟩

theorem tightArc_spec {g : Graph} {pot : Nat → Option Int} {a b : Nat}
    (h : tightArc g pot a b = true) :
    ∃ w pa pb, (a, b, w) ∈ g.arcs ∧ pot a = some pa ∧ pot b = some pb ∧ pa + w = pb := by
  simp only [tightArc, List.any_eq_true, Bool.and_eq_true, beq_iff_eq] at h
  obtain ⟨⟨x, y, w⟩, hmem, ⟨hx, hy⟩, hm⟩ := h
  simp only at hx hy
  subst hx; subst hy
  cases hpa : pot x with
  | none => simp [hpa] at hm
  | some pa =>
    cases hpb : pot y with
    | none => simp [hpa, hpb] at hm
    | some pb =>
      simp only [hpa, hpb, beq_iff_eq] at hm
      exact ⟨w, pa, pb, hmem, rfl, rfl, hm⟩

/-- A tight vertex list is a walk whose cost is the difference of the potentials of its ends. -/
theorem tightPath_walk {g : Graph} {pot : Nat → Option Int} :
    ∀ (p : List Nat) (a z : Nat), tightPath g pot (a :: p) = true → (a :: p).getLast? = some z →
      ∀ pa, pot a = some pa → ∃ pz, pot z = some pz ∧ Walk g a z (pz - pa) := by
  intro p
  induction p with
  | nil =>
    intro a z _ hl pa hpa
    simp at hl
    subst hl
    exact ⟨pa, hpa, by simpa using Walk.nil a⟩
  | cons b rest ih =>
    intro a z ht hl pa hpa
    simp only [tightPath, Bool.and_eq_true] at ht
    obtain ⟨w, pa', pb, hmem, hpa', hpb, hsum⟩ := tightArc_spec ht.1
    have hl' : (b :: rest).getLast? = some z := by
      simpa [List.getLast?_cons_cons] using hl
    obtain ⟨pz, hpz, hw⟩ := ih b z ht.2 hl' pb hpb
    refine ⟨pz, hpz, ?_⟩
    have hpaeq : pa' = pa := by rw [hpa] at hpa'; exact (Option.some.inj hpa').symm
    have := Walk.cons hmem hw
    have e : w + (pz - pb) = pz - pa := by omega
    rwa [e] at this

theorem pathOk_spec {g : Graph} {pot : Nat → Option Int} {h d : Nat} {p : List Nat} {p0 : Int}
    (hp0 : pot 0 = some p0) (hok : pathOk g pot h d p = true) :
    ∃ w c pd, (0, h, w) ∈ g.arcs ∧ Walk g h d c ∧ pot d = some pd ∧ pd = p0 + (w + c) := by
  match p, hok with
  | a :: b :: rest, hok =>
    simp only [pathOk, Bool.and_eq_true, beq_iff_eq] at hok
    obtain ⟨⟨⟨ha, hb⟩, hlast⟩, ht⟩ := hok
    subst ha; subst hb
    simp only [tightPath, Bool.and_eq_true] at ht
    obtain ⟨w, pa, pb, hmem, hpa, hpb, hsum⟩ := tightArc_spec ht.1
    obtain ⟨pz, hpz, hw⟩ := tightPath_walk rest b d ht.2 hlast pb hpb
    have : pa = p0 := by rw [hp0] at hpa; exact (Option.some.inj hpa).symm
    exact ⟨w, pz - pb, pz, hmem, hw, hpz, by omega⟩

theorem lookup_mem {t : Table} {d h : Nat} (hl : lookup t d = some h) : (d, h) ∈ t := by
  induction t with
  | nil => simp [lookup] at hl
  | cons e rest ih =>
    obtain ⟨k, v⟩ := e
    simp only [lookup] at hl
    split at hl
    · rename_i hk
      subst hk
      simp at hl
      subst hl
      exact List.mem_cons_self
    · exact List.mem_cons_of_mem _ (ih hl)

/-- **Soundness of the certificate checker**, for every graph (any size, any weights — feasible
potentials exist only if there is no negative cycle, so nothing has to be assumed). -/
theorem checker_sound (g : Graph) (t : Table) (c : Cert) (hc : checkTable g t c = true) :
    MinCostNextHop g (lookup t) := by
  simp only [checkTable, Bool.and_eq_true, List.all_eq_true, decide_eq_true_eq, beq_iff_eq,
    List.mem_range, Bool.or_eq_true, bne_iff_ne, ne_eq] at hc
  obtain ⟨⟨⟨⟨⟨hwf, hn⟩, hp0⟩, hfeas⟩, hkeys⟩, hrows⟩ := hc
  have hwf2 : ∀ e ∈ g.arcs, e.2.1 < g.n := fun e he => (hwf e he).2
  -- every vertex reachable from 0 is labelled and its label bounds every walk
  have hlow : ∀ {v : Nat} {cw : Int}, Walk g 0 v cw → ∃ pv, c.potAt v = some pv ∧ pv ≤ cw := by
    intro v cw hw
    obtain ⟨pv, hpv, hle⟩ := walk_lower hfeas hw 0 hp0
    exact ⟨pv, hpv, by omega⟩
  constructor
  · intro d
    constructor
    · intro hsome
      obtain ⟨h, hh⟩ := Option.isSome_iff_exists.mp hsome
      have hk := hkeys _ (lookup_mem hh)
      simp only at hk
      refine ⟨hk.1, ?_⟩
      have hrow := hrows d hk.2
      rcases hrow with h0 | hrow
      · exact absurd h0 hk.1
      · rw [hh] at hrow
        cases hpd : c.potAt d with
        | none => simp [hpd] at hrow
        | some pd =>
          simp only [hpd] at hrow
          obtain ⟨w, cw, _, hmem, hwalk, _, _⟩ := pathOk_spec hp0 hrow
          exact ⟨w + cw, Walk.cons hmem hwalk⟩
    · rintro ⟨hd0, cw, hw⟩
      have hlt : d < g.n := by
        rcases walk_end_lt hwf2 hw with h | h
        · exact absurd h hd0
        · exact h
      obtain ⟨pv, hpv, _⟩ := hlow hw
      rcases hrows d hlt with h0 | hrow
      · exact absurd h0 hd0
      · rw [hpv] at hrow
        cases hl : lookup t d with
        | none => simp [hl] at hrow
        | some h => rfl
  · intro d h hh
    have hk := hkeys _ (lookup_mem hh)
    simp only at hk
    rcases hrows d hk.2 with h0 | hrow
    · exact absurd h0 hk.1
    · rw [hh] at hrow
      cases hpd : c.potAt d with
      | none => simp [hpd] at hrow
      | some pd =>
        simp only [hpd] at hrow
        obtain ⟨w, cw, pd', hmem, hwalk, hpd', hsum⟩ := pathOk_spec hp0 hrow
        refine ⟨w, cw, hmem, hwalk, Walk.cons hmem hwalk, ?_⟩
        intro c' hw'
        obtain ⟨pv, hpv, hle⟩ := hlow hw'
        rw [hpd'] at hpv
        have : pd' = pv := Option.some.inj hpv
        omega

end Dtn7.Dtlsr.Lemmas
