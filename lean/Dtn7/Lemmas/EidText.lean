import Dtn7.Model.EidText
import Dtn7.Lemmas.Decimal

/-! Endpoint URI text ↔ structure. -/
namespace Dtn7.EidText.Lemmas
open Dtn7.Cbor (Bytes)
open Dtn7.Wire Dtn7.EidText

theorem takeWhile_sep {p : UInt8 → Bool} (l r : Bytes) (x : UInt8) (hl : l.all p = true) (hx : p x = false) :
    (l ++ x :: r).takeWhile p = l := by
  rw [List.takeWhile_append_of_pos (by simpa [List.all_eq_true] using hl)]
  simp [hx]

theorem dropWhile_sep {p : UInt8 → Bool} (l r : Bytes) (x : UInt8) (hl : l.all p = true) (hx : p x = false) :
    (l ++ x :: r).dropWhile p = x :: r := by
  rw [List.dropWhile_append_of_pos (by simpa [List.all_eq_true] using hl)]
  simp [hx]

theorem isDot_of_isNodeChar (b : UInt8) (h : isNodeChar b = true) : isDot b = true := by
  unfold isNodeChar isAlnum isDigit isAlpha at h
  unfold isDot
  simp only [Bool.or_eq_true, Bool.and_eq_true, decide_eq_true_eq] at h
  simp only [ne_eq, decide_not, Bool.not_eq_eq_eq_not, Bool.not_true, decide_eq_false_iff_not]
  omega

theorem isDot_of_isDigit (b : UInt8) (h : isDigit b = true) : isDot b = true := by
  unfold isDigit at h
  unfold isDot
  simp only [Bool.and_eq_true, decide_eq_true_eq] at h
  simp only [ne_eq, decide_not, Bool.not_eq_eq_eq_not, Bool.not_true, decide_eq_false_iff_not]
  omega

theorem all_imp {p q : UInt8 → Bool} (l : Bytes) (h : ∀ b, p b = true → q b = true) (hl : l.all p = true) :
    l.all q = true := by
  rw [List.all_eq_true] at hl ⊢
  exact fun b hb => h b (hl b hb)

/-! ### the dtn scheme-specific part -/

theorem parseDtnSsp_print (node demux : Bytes) (hn : node ≠ []) (hnc : node.all isNodeChar = true)
    (hd : demux.all isDot = true) :
    parseDtnSsp ([cSlash, cSlash] ++ node ++ [cSlash] ++ demux) = .ok (node, demux) := by
  have hs : isNodeChar 47 = false := by decide
  have e : [cSlash, cSlash] ++ node ++ [cSlash] ++ demux = 47 :: 47 :: (node ++ 47 :: demux) := by
    simp [cSlash]
  rw [e]
  simp only [parseDtnSsp]
  rw [takeWhile_sep node demux 47 hnc hs, dropWhile_sep node demux 47 hnc hs]
  have : node.isEmpty = false := by cases node <;> simp_all
  simp [this, hd]

theorem parseDtnSsp_ok (ssp node demux : Bytes) (h : parseDtnSsp ssp = .ok (node, demux)) :
    ssp = [cSlash, cSlash] ++ node ++ [cSlash] ++ demux ∧ node ≠ [] ∧ node.all isNodeChar = true ∧
      demux.all isDot = true := by
  unfold parseDtnSsp at h
  split at h
  · rename_i r
    split at h
    · rename_i demux' hdw
      by_cases hc : ((List.takeWhile isNodeChar r).isEmpty || !demux'.all isDot) = true
      · rw [if_pos hc] at h; exact absurd h (by simp)
      · rw [if_neg hc] at h
        simp only [Except.ok.injEq, Prod.mk.injEq] at h
        obtain ⟨h1, h2⟩ := h
        subst h2
        simp only [Bool.or_eq_true, Bool.not_eq_true', not_or, Bool.not_eq_true, Bool.not_eq_false] at hc
        have hr : r = List.takeWhile isNodeChar r ++ List.dropWhile isNodeChar r :=
          List.takeWhile_append_dropWhile.symm
        rw [hdw, h1] at hr
        refine ⟨?_, ?_, ?_, hc.2⟩
        · rw [hr]; simp [cSlash]
        · intro hnil; rw [← h1] at hnil; rw [hnil] at hc; simp at hc
        · rw [← h1]; exact List.all_takeWhile
    · exact absurd h (by simp)
  · exact absurd h (by simp)

/-! ### print → parse -/

theorem parseUri_none (strict : Bool) : parseUri strict (printUri .none) = .ok .none := by
  cases strict <;> rfl

theorem parseUri_dtn (strict : Bool) (node demux : Bytes) (hn : node ≠ []) (hnc : node.all isNodeChar = true)
    (hd : demux.all isDot = true) : parseUri strict (printUri (.dtn node demux)) = .ok (.dtn node demux) := by
  have e : printUri (.dtn node demux) = [100, 116, 110] ++ 58 :: ([cSlash, cSlash] ++ node ++ [cSlash] ++ demux) := by
    simp [printUri, sDtn, cColon, cSlash]
  rw [e]
  unfold parseUri
  rw [takeWhile_sep [100, 116, 110] _ 58 (by decide) (by decide),
    dropWhile_sep [100, 116, 110] _ 58 (by decide) (by decide)]
  simp only
  have hdot : ([cSlash, cSlash] ++ node ++ [cSlash] ++ demux).all isDot = true := by
    simp only [List.all_append, Bool.and_eq_true]
    exact ⟨⟨⟨by decide, all_imp node isDot_of_isNodeChar hnc⟩, by decide⟩, hd⟩
  have hne : ([cSlash, cSlash] ++ node ++ [cSlash] ++ demux).isEmpty = false := by simp
  have hnone : ([cSlash, cSlash] ++ node ++ [cSlash] ++ demux) ≠ sNone := by
    simp [cSlash, sNone]
  simp only [hdot, hne, List.isEmpty_cons, Bool.false_or, Bool.not_true, Bool.false_eq_true, ↓reduceIte, sDtn,
    hnone, parseDtnSsp_print node demux hn hnc hd]

theorem parseIpnSsp_print (strict : Bool) (n s : Nat) (hn1 : 1 ≤ n) (hn : n < 2 ^ 64) (hs1 : 1 ≤ s) (hs : s < 2 ^ 64) :
    parseIpnSsp strict (printDec n ++ [cPoint] ++ printDec s) = .ok (.ipn n s) := by
  have e : printDec n ++ [cPoint] ++ printDec s = printDec n ++ 46 :: printDec s := by simp [cPoint]
  rw [e]
  unfold parseIpnSsp
  rw [takeWhile_sep _ _ 46 (printDec_all_digit n) (by decide), dropWhile_sep _ _ 46 (printDec_all_digit n) (by decide)]
  simp only [parseDec_printDec]
  simp [hn, hs, hn1, hs1]

theorem parseUri_ipn (strict : Bool) (n s : Nat) (hn1 : 1 ≤ n) (hn : n < 2 ^ 64) (hs1 : 1 ≤ s) (hs : s < 2 ^ 64) :
    parseUri strict (printUri (.ipn n s)) = .ok (.ipn n s) := by
  have e : printUri (.ipn n s) = [105, 112, 110] ++ 58 :: (printDec n ++ [cPoint] ++ printDec s) := by
    simp [printUri, sIpn, cColon]
  rw [e]
  unfold parseUri
  rw [takeWhile_sep [105, 112, 110] _ 58 (by decide) (by decide),
    dropWhile_sep [105, 112, 110] _ 58 (by decide) (by decide)]
  simp only
  have hdot : (printDec n ++ [cPoint] ++ printDec s).all isDot = true := by
    simp only [List.all_append, Bool.and_eq_true]
    exact ⟨⟨all_imp _ isDot_of_isDigit (printDec_all_digit n), by decide⟩,
      all_imp _ isDot_of_isDigit (printDec_all_digit s)⟩
  have hne : (printDec n ++ [cPoint] ++ printDec s).isEmpty = false := by simp
  have hsch : ([105, 112, 110] : Bytes) ≠ sDtn := by decide
  simp only [hdot, hne, List.isEmpty_cons, Bool.false_or, Bool.not_true, Bool.false_eq_true, ↓reduceIte, hsch, sIpn,
    parseIpnSsp_print strict n s hn1 hn hs1 hs]

/-- **print → parse**: every valid endpoint is recovered from its text. -/
theorem parse_print (strict : Bool) (e : Eid) (hv : Valid e) : parseUri strict (printUri e) = .ok e := by
  cases e with
  | none => exact parseUri_none strict
  | dtn node demux => exact parseUri_dtn strict node demux hv.1 hv.2.1 hv.2.2
  | ipn n s => exact parseUri_ipn strict n s hv.1 hv.2.1 hv.2.2.1 hv.2.2.2

/-! ### parse → print -/

theorem parseIpnSsp_ok (ssp : Bytes) (e : Eid) (h : parseIpnSsp true ssp = .ok e) :
    ∃ n s, e = .ipn n s ∧ ssp = printDec n ++ [cPoint] ++ printDec s ∧ 1 ≤ n ∧ n < 2 ^ 64 ∧ 1 ≤ s ∧ s < 2 ^ 64 := by
  unfold parseIpnSsp at h
  split at h
  · rename_i r hdw
    split at h
    · rename_i n s hpn hps
      by_cases hc : n < 2 ^ 64 ∧ s < 2 ^ 64 ∧ 1 ≤ n ∧ 1 ≤ s
      · rw [if_pos hc] at h
        simp only [Except.ok.injEq] at h
        refine ⟨n, s, h.symm, ?_, hc.2.2.1, hc.1, hc.2.2.2, hc.2.1⟩
        have hr : ssp = List.takeWhile isDigit ssp ++ List.dropWhile isDigit ssp :=
          List.takeWhile_append_dropWhile.symm
        rw [hdw, ← printDec_of_parseDec _ _ hpn, ← printDec_of_parseDec _ _ hps] at hr
        rw [hr]; simp [cPoint]
      · rw [if_neg hc] at h; exact absurd h (by simp)
    · exact absurd h (by simp)
  · exact absurd h (by simp)

/-- **parse → print** (the repaired ipn parser): the accepted text is exactly the text the resulting
endpoint prints as, and the endpoint is valid. -/
theorem print_parse (s : Bytes) (e : Eid) (h : parseUri true s = .ok e) : printUri e = s ∧ Valid e := by
  unfold parseUri at h
  have hs : s = List.takeWhile isAlnum s ++ List.dropWhile isAlnum s := List.takeWhile_append_dropWhile.symm
  split at h
  · rename_i ssp hdw
    rw [hdw] at hs
    by_cases hc : ((List.takeWhile isAlnum s).isEmpty || ssp.isEmpty || !ssp.all isDot) = true
    · rw [if_pos hc] at h; exact absurd h (by simp)
    · rw [if_neg hc] at h
      by_cases hsch : List.takeWhile isAlnum s = sDtn
      · rw [if_pos hsch] at h
        by_cases hnone : ssp = sNone
        · rw [if_pos hnone] at h
          simp only [Except.ok.injEq] at h
          subst h
          refine ⟨?_, trivial⟩
          rw [hs, hsch, hnone]
          simp [printUri, cColon]
        · rw [if_neg hnone] at h
          split at h
          · rename_i node demux hp
            simp only [Except.ok.injEq] at h
            subst h
            obtain ⟨h1, h2, h3, h4⟩ := parseDtnSsp_ok ssp node demux hp
            refine ⟨?_, h2, h3, h4⟩
            rw [hs, hsch, h1]
            simp [printUri, cColon, cSlash]
          · exact absurd h (by simp)
      · rw [if_neg hsch] at h
        by_cases hipn : List.takeWhile isAlnum s = sIpn
        · rw [if_pos hipn] at h
          obtain ⟨n, sv, he, hssp, h1, h2, h3, h4⟩ := parseIpnSsp_ok ssp e h
          subst he
          refine ⟨?_, h1, h2, h3, h4⟩
          rw [hs, hipn, hssp]
          simp [printUri, cColon, cPoint]
        · rw [if_neg hipn] at h; exact absurd h (by simp)
  · exact absurd h (by simp)

/-- Two accepted texts that denote the same endpoint are the same text. -/
theorem parse_injective (s₁ s₂ : Bytes) (e : Eid) (h₁ : parseUri true s₁ = .ok e) (h₂ : parseUri true s₂ = .ok e) :
    s₁ = s₂ := by
  rw [← (print_parse s₁ e h₁).1, ← (print_parse s₂ e h₂).1]

/-! ### rejection of the near-miss classes -/

theorem reject_unknown_scheme (strict : Bool) (scheme ssp : Bytes) (ha : scheme.all isAlnum = true)
    (h1 : scheme ≠ sDtn) (h2 : scheme ≠ sIpn) : parseUri strict (scheme ++ cColon :: ssp) = .error .badEid := by
  show parseUri strict (scheme ++ 58 :: ssp) = _
  unfold parseUri
  rw [takeWhile_sep scheme ssp 58 ha (by decide), dropWhile_sep scheme ssp 58 ha (by decide)]
  simp only [h1, h2, ↓reduceIte]
  split <;> rfl

theorem reject_newline (strict : Bool) (scheme ssp : Bytes) (ha : scheme.all isAlnum = true)
    (hnl : (10 : UInt8) ∈ ssp) : parseUri strict (scheme ++ cColon :: ssp) = .error .badEid := by
  show parseUri strict (scheme ++ 58 :: ssp) = _
  unfold parseUri
  rw [takeWhile_sep scheme ssp 58 ha (by decide), dropWhile_sep scheme ssp 58 ha (by decide)]
  have : ssp.all isDot = false := by
    rw [List.all_eq_false]
    exact ⟨10, hnl, by decide⟩
  simp [this]

theorem reject_empty_node (strict : Bool) (demux : Bytes) :
    parseUri strict (sDtn ++ [cColon, cSlash, cSlash, cSlash] ++ demux) = .error .badEid := by
  have e : sDtn ++ [cColon, cSlash, cSlash, cSlash] ++ demux = [100, 116, 110] ++ 58 :: (47 :: 47 :: 47 :: demux) := by
    simp [sDtn, cColon, cSlash]
  rw [e]
  unfold parseUri
  rw [takeWhile_sep [100, 116, 110] _ 58 (by decide) (by decide),
    dropWhile_sep [100, 116, 110] _ 58 (by decide) (by decide)]
  have hs : isNodeChar 47 = false := by decide
  simp only [parseDtnSsp, List.takeWhile_cons, List.dropWhile_cons, hs]
  simp only [sDtn, sNone]
  split <;> simp

theorem reject_ipn_zero_or_big (strict : Bool) (n s : Nat) (h : n = 0 ∨ s = 0 ∨ 2 ^ 64 ≤ n ∨ 2 ^ 64 ≤ s) :
    parseUri strict (printUri (.ipn n s)) = .error .badEid := by
  have e : printUri (.ipn n s) = [105, 112, 110] ++ 58 :: (printDec n ++ 46 :: printDec s) := by
    simp [printUri, sIpn, cColon, cPoint]
  rw [e]
  unfold parseUri
  rw [takeWhile_sep [105, 112, 110] _ 58 (by decide) (by decide),
    dropWhile_sep [105, 112, 110] _ 58 (by decide) (by decide)]
  simp only
  have hdot : (printDec n ++ 46 :: printDec s).all isDot = true := by
    simp only [List.all_append, List.all_cons, Bool.and_eq_true]
    exact ⟨all_imp _ isDot_of_isDigit (printDec_all_digit n), by decide,
      all_imp _ isDot_of_isDigit (printDec_all_digit s)⟩
  have hne : (printDec n ++ 46 :: printDec s).isEmpty = false := by simp
  have hsch : ([105, 112, 110] : Bytes) ≠ sDtn := by decide
  simp only [hdot, hne, List.isEmpty_cons, Bool.false_or, Bool.not_true, Bool.false_eq_true, ↓reduceIte, hsch, sIpn]
  unfold parseIpnSsp
  rw [takeWhile_sep _ _ 46 (printDec_all_digit n) (by decide), dropWhile_sep _ _ 46 (printDec_all_digit n) (by decide)]
  simp only [parseDec_printDec]
  have : ¬ (n < 2 ^ 64 ∧ s < 2 ^ 64 ∧ 1 ≤ n ∧ 1 ≤ s) := by omega
  simp [this]

/-- `CheckValid` (on the printed form) accepts every structurally valid endpoint. -/
theorem checkValid_of_valid (e : Eid) (hv : Valid e) : checkValid e = true := by
  cases e with
  | none => rfl
  | dtn node demux =>
    simp only [checkValid]
    rw [parseDtnSsp_print node demux hv.1 hv.2.1 hv.2.2]
  | ipn n s => simp [checkValid, hv.1, hv.2.2.1]

end Dtn7.EidText.Lemmas
