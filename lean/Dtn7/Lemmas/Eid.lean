import Dtn7.Model.Eid
import Dtn7.Lemmas.Cbor

namespace Dtn7.Eid.Lemmas
open Dtn7.Cbor Dtn7.Cbor.Lemmas Dtn7.Eid

/-! ### The SSP recogniser -/

theorem takeWhile_all {α} (p : α → Bool) (l : List α) : ∀ x ∈ l.takeWhile p, p x = true := by
  induction l with
  | nil => simp
  | cons a l ih =>
    intro x hx
    rw [List.takeWhile_cons] at hx
    split at hx
    · rcases List.mem_cons.mp hx with rfl | h
      · assumption
      · exact ih x h
    · simp at hx

/-- What a successful match says about its input and its captures. -/
theorem parseSsp_some {ssp node demux : Bytes} (h : parseSsp ssp = some (node, demux)) :
    ssp = sspOf node demux ∧ node ≠ [] ∧ node.all isNodeChar = true ∧ noNewline demux = true := by
  unfold parseSsp at h
  match ssp, h with
  | a :: b :: t, h =>
    simp only at h
    split at h
    · rename_i hab
      split at h
      · rename_i c d hd
        split at h
        · rename_i hc
          simp only [Option.some.injEq, Prod.mk.injEq] at h
          obtain ⟨hn, hdm⟩ := h
          subst hdm
          have hsplit := List.takeWhile_append_dropWhile (p := isNodeChar) (l := t)
          rw [hd, hn] at hsplit
          refine ⟨?_, ?_, ?_, hc.2.2⟩
          · unfold sspOf; rw [hab.1, hab.2, hc.1] at *; rw [← hsplit]
          · rw [← hn]; exact hc.2.1
          · rw [← hn, List.all_eq_true]; exact takeWhile_all _ _
        · simp at h
      · simp at h
    · simp at h

/-- A canonical (node, demux) pair prints to an SSP that parses back to itself. -/
theorem parseSsp_sspOf (node demux : Bytes) (h1 : node ≠ []) (h2 : node.all isNodeChar = true)
    (h3 : noNewline demux = true) : parseSsp (sspOf node demux) = some (node, demux) := by
  have hall : ∀ a ∈ node, isNodeChar a = true := List.all_eq_true.mp h2
  have hs : isNodeChar slash = false := by decide
  have htw : (node ++ slash :: demux).takeWhile isNodeChar = node := by
    rw [List.takeWhile_append_of_pos hall, List.takeWhile_cons]; simp [hs]
  have hdw : (node ++ slash :: demux).dropWhile isNodeChar = slash :: demux := by
    rw [List.dropWhile_append_of_pos hall, List.dropWhile_cons]; simp [hs]
  unfold sspOf parseSsp
  simp only [and_self, ↓reduceIte, hdw, htw, h3, ne_eq, h1, not_false_eq_true]

theorem parseSsp_canonical_iff (node demux : Bytes) (hc : (Eid.dtn node demux).Canonical) :
    parseSsp (sspOf node demux) = some (node, demux) :=
  parseSsp_sspOf node demux hc.1 hc.2.1 hc.2.2

/-- Canonical endpoints are valid for `CheckValid` exactly when they are well-formed in the Spec's
sense (for dtn: always; for ipn: both numbers ≥ 1). -/
theorem valid_of_canonical_dtn (node demux : Bytes) (hc : (Eid.dtn node demux).Canonical) :
    (Eid.dtn node demux).valid = true := by
  show (parseSsp (sspOf node demux)).isSome = true
  rw [parseSsp_canonical_iff node demux hc]; rfl

/-! ### `CheckValid` implies the Spec's notion of a valid endpoint ID -/

theorem dtnTextOk_of_valid (node demux : Bytes) (h : (Eid.dtn node demux).valid = true) :
    dtnTextOk node demux = true := by
  unfold Eid.valid at h
  cases hp : parseSsp (sspOf node demux) with
  | none => simp [hp] at h
  | some nd =>
    obtain ⟨n, d⟩ := nd
    obtain ⟨heq, hne, hall, hnl⟩ := parseSsp_some hp
    have htxt : node ++ slash :: demux = n ++ slash :: d := by
      unfold sspOf at heq; simpa using heq
    have hallN : ∀ a ∈ n, (fun c => c != slash) a = true := by
      intro a ha
      have := List.all_eq_true.mp hall a ha
      simp only [bne_iff_ne, ne_eq]
      intro hs; rw [hs] at this; revert this; decide
    unfold dtnTextOk
    simp only [htxt]
    have h1 : (n ++ slash :: d).takeWhile (fun c => c != slash) = n := by
      rw [List.takeWhile_append_of_pos hallN, List.takeWhile_cons]; simp
    have h2 : (n ++ slash :: d).dropWhile (fun c => c != slash) = slash :: d := by
      rw [List.dropWhile_append_of_pos hallN, List.dropWhile_cons]; simp
    rw [h1, h2]
    have hne' : n.isEmpty = false := by cases n <;> simp_all
    have hsl : (slash != newline) = true := by decide
    simp only [hne', Bool.not_false, hall, Bool.and_self, List.all_cons, hsl, Bool.true_and]
    exact hnl

/-- **`CheckValid` ⇒ Spec validity**, for every endpoint structure. -/
theorem wf_of_valid (e : Eid) (h : e.valid = true) : e.WellFormed := by
  cases e with
  | none => trivial
  | dtn node demux => exact dtnTextOk_of_valid node demux h
  | ipn n s =>
    unfold Eid.valid at h
    simp only [Bool.and_eq_true, decide_eq_true_eq] at h
    exact h

/-! ### CBOR round trip -/

theorem decEid_encEidRaw (e : Eid) (hc : e.Canonical) (hb : e.Bounded) (rest : Bytes) :
    decEid (encEidRaw e ++ rest) = .ok (e, rest) := by
  cases e with
  | none =>
    unfold decEid encEidRaw
    rw [List.append_assoc, List.append_assoc, decArray_encArray 2 _ (by decide)]
    simp only [bindP_ok, ne_eq, not_true_eq_false, ↓reduceIte]
    rw [decUInt_encUInt schemeDtn _ (by decide)]
    simp only [bindP_ok, ↓reduceIte]
    unfold decDtn encUInt
    rw [decHead_encHead majUInt 0 rest (by decide) (by decide)]
    rfl
  | dtn node demux =>
    unfold decEid encEidRaw
    rw [List.append_assoc, List.append_assoc, decArray_encArray 2 _ (by decide)]
    simp only [bindP_ok, ne_eq, not_true_eq_false, ↓reduceIte]
    rw [decUInt_encUInt schemeDtn _ (by decide)]
    simp only [bindP_ok, ↓reduceIte]
    unfold decDtn encText
    have hlen : (sspOf node demux).length ≤ maxInt32 := hb
    have hn : (sspOf node demux).length < 2 ^ 64 := by unfold maxInt32 at hlen; omega
    rw [List.append_assoc, decHead_encHead majText _ _ (by decide) hn]
    have hm : ¬ (majText = majUInt) := by decide
    simp only [hm, ↓reduceIte]
    rw [readRaw_append _ _ hlen]
    simp only [bindP_ok, parseSsp_canonical_iff node demux hc]
  | ipn n s =>
    unfold decEid encEidRaw
    rw [List.append_assoc, List.append_assoc, decArray_encArray 2 _ (by decide)]
    simp only [bindP_ok, ne_eq, not_true_eq_false, ↓reduceIte]
    rw [decUInt_encUInt schemeIpn _ (by decide)]
    have h21 : ¬ (schemeIpn = schemeDtn) := by decide
    simp only [bindP_ok, h21, ↓reduceIte]
    unfold decIpn
    rw [List.append_assoc, List.append_assoc, decArray_encArray 2 _ (by decide)]
    simp only [bindP_ok, ne_eq, not_true_eq_false, ↓reduceIte]
    rw [decUInt_encUInt n _ hb.1]
    simp only [bindP_ok]
    rw [decUInt_encUInt s _ hb.2]
    rfl

end Dtn7.Eid.Lemmas
