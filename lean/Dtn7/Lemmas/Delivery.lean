/-
Helper lemmas for C07 (local delivery). Core-only.
-/
import Dtn7.Model.Delivery

namespace Dtn7.Delivery.Lemmas
open Dtn7.Delivery

/-! ## Part A — the fan-out reaches exactly the registered recipients -/

/-- Hand-overs caused by one child (the `if` of `MuxAgent.handle` and the child's own handling). -/
def childOut (cfg : Cfg) (b : Bundle) (c : Nat × Agent) : List (Rcpt × Bundle) :=
  if bagContains (c.2.endpoints cfg) [b.dest] then (c.2.receive cfg c.1 b).2 else []

theorem deliverChildren_out (cfg : Cfg) (b : Bundle) (l : List (Nat × Agent)) :
    (deliverChildren cfg b l).2 = l.flatMap (childOut cfg b) := by
  induction l with
  | nil => rfl
  | cons c rest ih =>
    obtain ⟨i, a⟩ := c
    simp only [deliverChildren, List.flatMap_cons, childOut]
    split <;> simp [ih]

theorem rangeVisit_all {α : Type} (pick : Nat) (l : List α) : rangeVisit true pick l = l := by
  simp [rangeVisit]

theorem contains_single (e d : Eid) : ([d] : List Eid).contains e = decide (e = d) := by
  simp

theorem ite_redundant {α : Type} {c : Bool} {L : List α} (h : c = false → L = []) :
    (if c = true then L else []) = L := by
  cases c with
  | true => simp
  | false => simp [h rfl]

theorem filter_map_regs {γ : Type} (key : γ → Rcpt) (eps : γ → List Eid) (d : Eid) (b : Bundle)
    (l : List γ) :
    ((l.map (fun c => (key c, eps c))).filter (fun r => r.2.contains d)).map (fun r => (r.1, b)) =
      (l.filter (fun c => (eps c).contains d)).map (fun c => (key c, b)) := by
  simp [List.filter_map, Function.comp_def, List.map_map]

/-- With complete `Range` loops, a child hands the bundle to exactly its registrations for the
destination — the outer endpoint test of the mux is then redundant. -/
theorem childOut_eq (cfg : Cfg) (hall : cfg.rangeAll = true) (b : Bundle) (c : Nat × Agent) :
    childOut cfg b c =
      ((c.2.registered c.1).filter (fun r => r.2.contains b.dest)).map (fun r => (r.1, b)) := by
  obtain ⟨i, a⟩ := c
  cases a with
  | ping ep =>
    simp only [childOut, Agent.endpoints, Agent.receive, Agent.registered, bagContains,
      List.any_cons, List.any_nil, Bool.or_false, contains_single]
    by_cases h : ep = b.dest
    · simp [h]
    · have h' : ¬ b.dest = ep := fun e => h e.symm
      simp [h, h']
  | mock eps =>
    simp only [childOut, Agent.endpoints, Agent.receive, Agent.registered, bagContains]
    by_cases h : b.dest ∈ eps
    · have : eps.any (fun e => ([b.dest] : List Eid).contains e) = true := by
        simp only [List.any_eq_true]; exact ⟨b.dest, h, by simp⟩
      simp [h]
    · have : eps.any (fun e => ([b.dest] : List Eid).contains e) = false := by
        rw [Bool.eq_false_iff]; intro hc
        simp only [List.any_eq_true, contains_single, decide_eq_true_eq] at hc
        obtain ⟨x, hx, rfl⟩ := hc; exact h hx
      simp [h]
  | rest ra =>
    simp only [childOut, Agent.endpoints, Agent.receive, Agent.registered, Rest.endpoints,
      Rest.receive, Rest.matching, hall, rangeVisit_all, bagContains]
    rw [filter_map_regs (fun c : Nat × Eid => Rcpt.rest i c.1) (fun c => [c.2])]
    have hf : (fun c : Nat × Eid => ([c.2] : List Eid).contains b.dest) =
        (fun c => decide (c.2 = b.dest)) := by
      funext c; by_cases h : c.2 = b.dest
      · simp [h]
      · have h' : ¬ b.dest = c.2 := fun e => h e.symm
        simp [h, h']
    rw [hf, List.map_map]
    apply ite_redundant
    intro hno
    have : ra.clients.filter (fun c => decide (c.2 = b.dest)) = [] := by
      rw [List.filter_eq_nil_iff]
      intro c hc hd
      rw [Bool.eq_false_iff] at hno
      apply hno
      simp only [List.any_eq_true, List.mem_map]
      exact ⟨c.2, ⟨c, hc, rfl⟩, by simpa using hd⟩
    rw [this]; rfl
  | ws conns =>
    simp only [childOut, Agent.endpoints, Agent.receive, Agent.registered, bagContains]
    rw [filter_map_regs (fun c : Nat × Option Eid => Rcpt.ws i c.1) (fun c => c.2.toList)]
    have hf : (fun c : Nat × Option Eid => c.2.toList.contains b.dest) =
        (fun c => c.2.toList.any (fun e => ([b.dest] : List Eid).contains e)) := by
      funext c
      obtain ⟨k, o⟩ := c
      cases o with
      | none => simp
      | some e =>
        by_cases h : e = b.dest
        · simp [h]
        · have h' : ¬ b.dest = e := fun x => h x.symm
          simp [h, h']
    rw [hf]
    apply ite_redundant
    intro hno
    have : conns.filter (fun c => c.2.toList.any (fun e => ([b.dest] : List Eid).contains e)) = [] := by
      rw [List.filter_eq_nil_iff]
      intro c hcm hd
      rw [Bool.eq_false_iff] at hno
      apply hno
      simp only [List.any_eq_true] at hd ⊢
      obtain ⟨e, he, hce⟩ := hd
      exact ⟨e, List.mem_flatMap.mpr ⟨c, hcm, he⟩, hce⟩
    rw [this]; rfl

/-- **Key equation**: the hand-overs of a delivery are exactly the recipients registered for the
destination, each with the unchanged bundle. -/
theorem deliver_out_eq (cfg : Cfg) (hall : cfg.rangeAll = true) (m : Mux) (b : Bundle) :
    (m.deliver cfg b).2 = (registeredFor m.registered b.dest).map (fun r => (r, b)) := by
  simp only [Mux.deliver, deliverChildren_out, registeredFor, Mux.registered, List.filter_flatMap,
    List.map_flatMap, List.map_map]
  congr 1
  funext c
  rw [childOut_eq cfg hall]
  simp [Function.comp_def]

/-! ### every registered recipient has one name -/

theorem registered_agent (i : Nat) (a : Agent) : ∀ r ∈ a.registered i, r.1.agent = i := by
  intro r hr
  cases a with
  | ping ep => simp [Agent.registered] at hr; subst hr; rfl
  | mock eps => simp [Agent.registered] at hr; subst hr; rfl
  | rest ra =>
    simp only [Agent.registered, List.mem_map] at hr
    obtain ⟨c, _, rfl⟩ := hr; rfl
  | ws conns =>
    simp only [Agent.registered, List.mem_map] at hr
    obtain ⟨c, _, rfl⟩ := hr; rfl

theorem registered_child_nodup (i : Nat) (a : Agent) (h : a.WF) :
    ((a.registered i).map (·.1)).Nodup := by
  cases a with
  | ping ep => simp [Agent.registered]
  | mock eps => simp [Agent.registered]
  | rest ra =>
    have hk : (ra.clients.map (·.1)).Nodup := h.1
    simp only [Agent.registered, List.map_map]
    unfold List.Nodup at hk ⊢
    rw [List.pairwise_map] at hk ⊢
    exact hk.imp (fun hne heq => hne (by simpa [Function.comp] using heq))
  | ws conns =>
    have hk : (conns.map (·.1)).Nodup := h
    simp only [Agent.registered, List.map_map]
    unfold List.Nodup at hk ⊢
    rw [List.pairwise_map] at hk ⊢
    exact hk.imp (fun hne heq => hne (by simpa [Function.comp] using heq))

theorem registered_nodup (m : Mux) (h : m.WF) : (m.registered.map (·.1)).Nodup := by
  obtain ⟨hk, hc⟩ := h
  simp only [Mux.registered, List.map_flatMap]
  unfold List.Nodup
  rw [List.pairwise_flatMap]
  constructor
  · intro c hcm
    exact registered_child_nodup c.1 c.2 (hc c hcm)
  · have hk' : List.Pairwise (fun a b : Nat × Agent => a.1 ≠ b.1) m.children := by
      have := hk; unfold keysNodup List.Nodup at this; rwa [List.pairwise_map] at this
    refine hk'.imp ?_
    intro c₁ c₂ hne x hx y hy hxy
    simp only [List.mem_map] at hx hy
    obtain ⟨r₁, hr₁, rfl⟩ := hx
    obtain ⟨r₂, hr₂, rfl⟩ := hy
    have h₁ := registered_agent c₁.1 c₁.2 r₁ hr₁
    have h₂ := registered_agent c₂.1 c₂.2 r₂ hr₂
    exact hne (by rw [← h₁, ← h₂, hxy])

theorem registeredFor_nodup (regs : Regs) (d : Eid) (h : (regs.map (·.1)).Nodup) :
    (registeredFor regs d).Nodup :=
  List.Nodup.sublist ((List.filter_sublist).map _) h

theorem deliveredExactly_of_eq (regs : Regs) (b : Bundle) (h : (registeredFor regs b.dest).Nodup) :
    DeliveredExactly regs b ((registeredFor regs b.dest).map (fun r => (r, b))) = true := by
  simp only [DeliveredExactly, Bool.and_eq_true, List.all_eq_true, List.mem_map]
  constructor
  · rintro o ⟨r, hr, rfl⟩
    simp [hr]
  · intro r hr
    have : ((registeredFor regs b.dest).map (fun r => (r, b))).map (·.1) = registeredFor regs b.dest := by
      simp [List.map_map, Function.comp_def]
    rw [this, h.count]
    simp [hr]

/-- `delivered_exactly` for every well-formed registry. -/
theorem delivered_exactly (cfg : Cfg) (hall : cfg.rangeAll = true) (m : Mux) (h : m.WF) (b : Bundle) :
    DeliveredExactly m.registered b (m.deliver cfg b).2 = true := by
  rw [deliver_out_eq cfg hall]
  exact deliveredExactly_of_eq _ _ (registeredFor_nodup _ _ (registered_nodup m h))

/-! ## Part B — `Endpoints()` / `HasEndpoint` are complete -/

theorem agent_endpoints_eq (cfg : Cfg) (hall : cfg.rangeAll = true) (i : Nat) (a : Agent) :
    a.endpoints cfg = (a.registered i).flatMap (·.2) := by
  cases a with
  | ping ep => simp [Agent.endpoints, Agent.registered]
  | mock eps => simp [Agent.endpoints, Agent.registered]
  | rest ra =>
    simp only [Agent.endpoints, Agent.registered, Rest.endpoints, hall, rangeVisit_all, List.flatMap_map]
    induction ra.clients with
    | nil => rfl
    | cons c t ih => simp [ih]
  | ws conns => simp [Agent.endpoints, Agent.registered, List.flatMap_map]

theorem endpoints_eq (cfg : Cfg) (hall : cfg.rangeAll = true) (m : Mux) :
    m.endpoints cfg = m.registered.flatMap (·.2) := by
  simp only [Mux.endpoints, Mux.registered, List.flatMap_assoc]
  congr 1
  funext c
  exact agent_endpoints_eq cfg hall c.1 c.2

theorem hasEndpoint_iff (cfg : Cfg) (hall : cfg.rangeAll = true) (m : Mux) (e : Eid) :
    m.hasEndpoint cfg e = true ↔ ∃ r ∈ m.registered, e ∈ r.2 := by
  simp only [Mux.hasEndpoint, bagContains, endpoints_eq cfg hall, List.any_eq_true, List.mem_flatMap,
    contains_single, decide_eq_true_eq]
  constructor
  · rintro ⟨x, ⟨r, hr, hx⟩, rfl⟩; exact ⟨r, hr, hx⟩
  · rintro ⟨r, hr, he⟩; exact ⟨e, ⟨r, hr, he⟩, rfl⟩

/-- If the mux knows the endpoint, a delivery hands the bundle to somebody. -/
theorem deliver_nonempty (cfg : Cfg) (hall : cfg.rangeAll = true) (m : Mux) (b : Bundle)
    (h : m.hasEndpoint cfg b.dest = true) : (m.deliver cfg b).2 ≠ [] := by
  rw [deliver_out_eq cfg hall]
  obtain ⟨r, hr, he⟩ := (hasEndpoint_iff cfg hall m b.dest).mp h
  intro hnil
  have hmem : r.1 ∈ registeredFor m.registered b.dest := by
    simp only [registeredFor, List.mem_map, List.mem_filter]
    exact ⟨r, ⟨hr, by simpa using he⟩, rfl⟩
  have : (registeredFor m.registered b.dest) = [] := by simpa using hnil
  rw [this] at hmem
  cases hmem

/-! ## Part C — association lists, well-formedness is preserved -/

theorem aload_isSome_iff {κ β : Type} [DecidableEq κ] (k : κ) (l : List (κ × β)) :
    (aload k l).isSome = true ↔ k ∈ l.map (·.1) := by
  induction l with
  | nil => simp [aload]
  | cons e t ih =>
    obtain ⟨k', v⟩ := e
    by_cases h : k' = k
    · simp [aload, h]
    · have h' : ¬ k = k' := fun x => h x.symm
      simp [aload, h, h', ih]

theorem astore_keys {κ β : Type} [DecidableEq κ] (k : κ) (v : β) (l : List (κ × β)) :
    (astore k v l).map (·.1) = if k ∈ l.map (·.1) then l.map (·.1) else l.map (·.1) ++ [k] := by
  induction l with
  | nil => simp [astore]
  | cons e t ih =>
    obtain ⟨k', v'⟩ := e
    by_cases h : k' = k
    · simp [astore, h]
    · have h' : ¬ k = k' := fun x => h x.symm
      simp only [astore, h, if_false, List.map_cons, ih, List.mem_cons, h', false_or]
      split <;> simp

theorem keysNodup_astore {κ β : Type} [DecidableEq κ] (k : κ) (v : β) (l : List (κ × β)) (h : keysNodup l) :
    keysNodup (astore k v l) := by
  unfold keysNodup at h ⊢
  rw [astore_keys]
  split
  · exact h
  · rename_i hk
    rw [List.nodup_append]
    refine ⟨h, by simp, ?_⟩
    intro a ha b hb
    simp at hb; subst hb
    intro hab; subst hab; exact hk ha

theorem keysNodup_adelete {κ β : Type} [DecidableEq κ] (k : κ) (l : List (κ × β)) (h : keysNodup l) :
    keysNodup (adelete k l) := by
  unfold keysNodup at h ⊢
  exact List.Nodup.sublist ((List.filter_sublist).map _) h

theorem keysNodup_nil {κ β : Type} : keysNodup ([] : List (κ × β)) := by
  simp [keysNodup]

theorem putMailbox_nodup (mb : List (Nat × List Bundle)) (u : Nat) (b : Bundle) (h : keysNodup mb) :
    keysNodup (putMailbox mb u b) := keysNodup_astore _ _ _ h

theorem foldl_putMailbox_nodup (us : List Nat) (b : Bundle) (mb : List (Nat × List Bundle))
    (h : keysNodup mb) : keysNodup (us.foldl (fun mb u => putMailbox mb u b) mb) := by
  induction us generalizing mb with
  | nil => exact h
  | cons u t ih => exact ih _ (putMailbox_nodup mb u b h)

theorem receive_wf (cfg : Cfg) (i : Nat) (a : Agent) (b : Bundle) (h : a.WF) :
    (a.receive cfg i b).1.WF := by
  cases a with
  | ping ep => exact h
  | mock eps => exact h
  | rest ra => exact ⟨h.1, foldl_putMailbox_nodup _ _ _ h.2⟩
  | ws conns => exact h

theorem deliverChildren_keys (cfg : Cfg) (b : Bundle) (l : List (Nat × Agent)) :
    (deliverChildren cfg b l).1.map (·.1) = l.map (·.1) := by
  induction l with
  | nil => rfl
  | cons c t ih =>
    obtain ⟨i, a⟩ := c
    simp only [deliverChildren]
    split <;> simp [ih]

theorem deliverChildren_wf (cfg : Cfg) (b : Bundle) (l : List (Nat × Agent))
    (h : ∀ c ∈ l, c.2.WF) : ∀ c ∈ (deliverChildren cfg b l).1, c.2.WF := by
  induction l with
  | nil => intro c hc; cases hc
  | cons c t ih =>
    obtain ⟨i, a⟩ := c
    have ha : a.WF := h (i, a) (by simp)
    have ht : ∀ c ∈ t, c.2.WF := fun c hc => h c (by simp [hc])
    simp only [deliverChildren]
    split
    · intro c hc
      simp only [List.mem_cons] at hc
      rcases hc with rfl | hc
      · exact receive_wf cfg i a b ha
      · exact ih ht c hc
    · intro c hc
      simp only [List.mem_cons] at hc
      rcases hc with rfl | hc
      · exact ha
      · exact ih ht c hc

theorem deliver_wf (cfg : Cfg) (m : Mux) (b : Bundle) (h : m.WF) : (m.deliver cfg b).1.WF := by
  obtain ⟨hk, hc⟩ := h
  refine ⟨?_, deliverChildren_wf cfg b m.children hc⟩
  unfold keysNodup at hk ⊢
  simp only [Mux.deliver]
  rw [deliverChildren_keys]; exact hk

theorem update_wf (m : Mux) (i : Nat) (f : Agent → Agent) (h : m.WF) (hf : ∀ a, a.WF → (f a).WF) :
    (m.update i f).WF := by
  obtain ⟨hk, hc⟩ := h
  constructor
  · unfold keysNodup at hk ⊢
    have : (m.update i f).children.map (·.1) = m.children.map (·.1) := by
      simp only [Mux.update, List.map_map]
      apply List.map_congr_left
      intro c _
      simp only [Function.comp]
      split <;> rfl
    rw [this]; exact hk
  · intro c hcm
    simp only [Mux.update, List.mem_map] at hcm
    obtain ⟨c', hc', rfl⟩ := hcm
    split
    · exact hf _ (hc c' hc')
    · exact hc c' hc'

theorem add_wf (m : Mux) (i : Nat) (a : Agent) (h : m.WF) (ha : a.WF) : (m.add i a).WF := by
  unfold Mux.add
  split
  · exact h
  · rename_i hnone
    obtain ⟨hk, hc⟩ := h
    have hi : i ∉ m.children.map (·.1) := by
      intro hmem
      exact hnone ((aload_isSome_iff i m.children).mpr hmem)
    constructor
    · unfold keysNodup at hk ⊢
      simp only [List.map_append, List.map_cons, List.map_nil]
      rw [List.nodup_append]
      refine ⟨hk, by simp, ?_⟩
      intro x hx y hy
      simp at hy; subst hy
      intro hxy; subst hxy; exact hi hx
    · intro c hcm
      simp only [List.mem_append, List.mem_singleton] at hcm
      rcases hcm with hcm | rfl
      · exact hc c hcm
      · exact ha

theorem aload_mem {κ β : Type} [DecidableEq κ] (k : κ) (l : List (κ × β)) (v : β) (h : aload k l = some v) :
    (k, v) ∈ l := by
  induction l with
  | nil => simp [aload] at h
  | cons e t ih =>
    obtain ⟨k', v'⟩ := e
    by_cases hk : k' = k
    · simp [aload, hk] at h; subst h; subst hk; simp
    · simp [aload, hk] at h; simp [ih h]

theorem step_wf (cfg : Cfg) (m : Mux) (op : Op) (h : m.WF) : (step cfg m op).1.WF := by
  cases op with
  | addPing a ep => exact add_wf m a _ h trivial
  | addMock a eps => exact add_wf m a _ h trivial
  | addRest a => exact add_wf m a _ h ⟨keysNodup_nil, keysNodup_nil⟩
  | addWs a => exact add_wf m a _ h keysNodup_nil
  | dropAgent a =>
    obtain ⟨hk, hc⟩ := h
    refine ⟨keysNodup_adelete a _ hk, ?_⟩
    intro c hcm
    exact hc c (List.mem_filter.mp hcm).1
  | restReg a c ep =>
    apply update_wf m a _ h
    intro x hx
    cases x with
    | rest ra => exact ⟨keysNodup_astore _ _ _ hx.1, hx.2⟩
    | _ => exact hx
  | restUnreg a c =>
    apply update_wf m a _ h
    intro x hx
    cases x with
    | rest ra => exact ⟨keysNodup_adelete _ _ hx.1, keysNodup_adelete _ _ hx.2⟩
    | _ => exact hx
  | restFetch a c =>
    simp only [step]
    split
    · rename_i ra hra
      apply update_wf m a _ h
      intro _ _
      have hmem := aload_mem a m.children _ hra
      have hwf : (Agent.rest ra).WF := h.2 _ hmem
      simp only [Rest.fetch]
      split
      · exact ⟨hwf.1, keysNodup_adelete _ _ hwf.2⟩
      · exact hwf
    · exact h
  | wsConnect a c ep =>
    apply update_wf m a _ h
    intro x hx
    cases x with
    | ws conns => exact keysNodup_astore _ _ _ hx
    | _ => exact hx
  | wsClose a c =>
    apply update_wf m a _ h
    intro x hx
    cases x with
    | ws conns => exact keysNodup_adelete _ _ hx
    | _ => exact hx
  | deliver b => exact deliver_wf cfg m b h

theorem empty_wf : (({} : Mux)).WF := ⟨keysNodup_nil, by intro c hc; cases hc⟩

theorem run_wf (cfg : Cfg) (m : Mux) (ops : List Op) (h : m.WF) : (run cfg m ops).WF := by
  induction ops generalizing m with
  | nil => exact h
  | cons op t ih => exact ih _ (step_wf cfg m op h)

/-! ## Part D — what a delivery does to the mailboxes -/

theorem aload_astore_same {κ β : Type} [DecidableEq κ] (k : κ) (v : β) (l : List (κ × β)) :
    aload k (astore k v l) = some v := by
  induction l with
  | nil => simp [astore, aload]
  | cons e t ih =>
    obtain ⟨k', v'⟩ := e
    by_cases h : k' = k
    · simp [astore, aload, h]
    · simp [astore, aload, h, ih]

theorem aload_astore_other {κ β : Type} [DecidableEq κ] (k k' : κ) (v : β) (l : List (κ × β)) (hne : k ≠ k') :
    aload k' (astore k v l) = aload k' l := by
  induction l with
  | nil => simp [astore, aload, hne]
  | cons e t ih =>
    obtain ⟨k'', v''⟩ := e
    by_cases h : k'' = k
    · subst h; simp [astore, aload, hne]
    · by_cases h2 : k'' = k'
      · subst h2; simp [astore, aload, h]
      · simp [astore, aload, h, h2, ih]

theorem aload_adelete_same {κ β : Type} [DecidableEq κ] (k : κ) (l : List (κ × β)) : aload k (adelete k l) = none := by
  induction l with
  | nil => rfl
  | cons e t ih =>
    obtain ⟨k', v'⟩ := e
    by_cases h : k' = k
    · simp [adelete, h] at ih ⊢; exact ih
    · simp [adelete, h, aload] at ih ⊢; exact ih

theorem aload_adelete_other {κ β : Type} [DecidableEq κ] (k k' : κ) (l : List (κ × β)) (hne : k ≠ k') :
    aload k' (adelete k l) = aload k' l := by
  induction l with
  | nil => rfl
  | cons e t ih =>
    obtain ⟨k'', v''⟩ := e
    by_cases h : k'' = k
    · subst h
      simp [adelete, aload, hne] at ih ⊢; exact ih
    · by_cases h2 : k'' = k'
      · subst h2; simp [adelete, h, aload]
      · simp [adelete, h, aload, h2] at ih ⊢; exact ih

theorem aload_eq_some_iff {κ β : Type} [DecidableEq κ] (k : κ) (v : β) (l : List (κ × β)) (h : keysNodup l) :
    aload k l = some v ↔ (k, v) ∈ l := by
  constructor
  · exact aload_mem k l v
  · intro hm
    induction l with
    | nil => cases hm
    | cons e t ih =>
      obtain ⟨k', v'⟩ := e
      have hnd : (k' :: t.map (·.1)).Nodup := h
      rw [List.nodup_cons] at hnd
      simp only [List.mem_cons, Prod.mk.injEq] at hm
      rcases hm with ⟨rfl, rfl⟩ | hm
      · simp [aload]
      · have hk : k' ≠ k := by
          intro e; subst e
          exact hnd.1 (List.mem_map.mpr ⟨(k', v), hm, rfl⟩)
        simp only [aload, hk, if_false]
        exact ih hnd.2 hm

theorem aload_foldl_put (b : Bundle) (us : List Nat) (hnd : us.Nodup) (u : Nat) :
    ∀ mb : List (Nat × List Bundle),
      aload u (us.foldl (fun mb x => putMailbox mb x b) mb) =
        if u ∈ us then some ((aload u mb).getD [] ++ [b]) else aload u mb := by
  induction us with
  | nil => intro mb; simp
  | cons x t ih =>
    intro mb
    rw [List.nodup_cons] at hnd
    simp only [List.foldl_cons]
    rw [ih hnd.2]
    by_cases hux : u = x
    · subst hux
      simp [hnd.1, putMailbox, aload_astore_same]
    · have hxu : x ≠ u := fun e => hux e.symm
      simp only [List.mem_cons, hux, false_or, putMailbox, aload_astore_other _ _ _ _ hxu]

theorem deliverChildren_child (cfg : Cfg) (b : Bundle) (i : Nat) (l : List (Nat × Agent)) :
    aload i (deliverChildren cfg b l).1 =
      (aload i l).map (fun a =>
        if bagContains (a.endpoints cfg) [b.dest] then (a.receive cfg i b).1 else a) := by
  induction l with
  | nil => rfl
  | cons c t ih =>
    obtain ⟨j, a⟩ := c
    simp only [deliverChildren]
    by_cases hj : j = i
    · subst hj
      split <;> simp_all [aload]
    · split <;> simp_all [aload]

/-- **The mailboxes after a delivery**: in every REST agent, exactly the clients registered for the
bundle's destination have the bundle appended to their mailbox; every other mailbox and all
registrations are unchanged. -/
theorem deliver_mailbox (cfg : Cfg) (hall : cfg.rangeAll = true) (m : Mux) (hwf : m.WF) (b : Bundle)
    (i : Nat) (ra : Rest) (h : m.child i = some (.rest ra)) :
    ∃ ra', (m.deliver cfg b).1.child i = some (.rest ra') ∧ ra'.clients = ra.clients ∧
      ∀ u, aload u ra'.mailbox =
        if aload u ra.clients = some b.dest then some ((aload u ra.mailbox).getD [] ++ [b])
        else aload u ra.mailbox := by
  have hra : (Agent.rest ra).WF := hwf.2 _ (aload_mem i m.children _ h)
  have hmatch : ∀ u, u ∈ ra.matching cfg b.dest ↔ aload u ra.clients = some b.dest := by
    intro u
    simp only [Rest.matching, hall, rangeVisit_all, List.mem_map, List.mem_filter, decide_eq_true_eq]
    rw [aload_eq_some_iff u b.dest ra.clients hra.1]
    constructor
    · rintro ⟨c, ⟨hc, hd⟩, rfl⟩; rw [← hd]; exact hc
    · intro hm; exact ⟨(u, b.dest), ⟨hm, rfl⟩, rfl⟩
  have hnd : (ra.matching cfg b.dest).Nodup := by
    simp only [Rest.matching, hall, rangeVisit_all]
    exact List.Nodup.sublist ((List.filter_sublist).map _) hra.1
  refine ⟨(ra.receive cfg b).1, ?_, rfl, ?_⟩
  · simp only [Mux.deliver, Mux.child, deliverChildren_child]
    have : aload i m.children = some (.rest ra) := h
    rw [this]
    simp only [Option.map_some, Agent.receive]
    split
    · rfl
    · rename_i hno
      -- nobody matches: receiving would not have changed anything
      have hnil : ra.matching cfg b.dest = [] := by
        cases hm : ra.matching cfg b.dest with
        | nil => rfl
        | cons u t =>
          exfalso; apply hno
          have hu : u ∈ ra.matching cfg b.dest := by rw [hm]; simp
          have := (hmatch u).mp hu
          have hmem := aload_mem u ra.clients _ this
          simp only [Agent.endpoints, Rest.endpoints, hall, rangeVisit_all, bagContains, List.any_eq_true,
            List.mem_map]
          exact ⟨b.dest, ⟨(u, b.dest), hmem, rfl⟩, by simp⟩
      simp [Rest.receive, hnil]
  · intro u
    simp only [Rest.receive]
    rw [aload_foldl_put b _ hnd u]
    by_cases hu : u ∈ ra.matching cfg b.dest
    · simp [hu, (hmatch u).mp hu]
    · have : ¬ aload u ra.clients = some b.dest := fun h => hu ((hmatch u).mpr h)
      simp [hu, this]

/-! ## Part E — every interleaving of deliveries and fetches on one mailbox -/

def crit : Thr → Bool
  | .dLocked _ | .dLoaded _ _ | .dStored _ | .fLocked | .fLoaded _ | .fDeleted _ => true
  | _ => false

/-- What a thread has read is still what the mailbox holds. -/
def consistent (s : Shared) : Thr → Prop
  | .dLoaded _ r => r = s.mbox
  | .fLoaded l => s.mbox = some l
  | _ => True

theorem consistent_of_noncrit (s : Shared) (t : Thr) (h : crit t = false) : consistent s t := by
  cases t <;> simp_all [crit, consistent]

structure Inv (l0 : List Bundle) (s : Shared) (ts : List Thr) : Prop where
  counts : ∀ x, (fetchedAll ts).count x + (s.mbox.getD []).count x =
                l0.count x + (storedAll ts).count x
  lock : ∀ j t, ts[j]? = some t → (crit t = true → s.lock = some j) ∧ consistent s t

theorem count_flatMap_set (f : Thr → List Bundle) (x : Bundle) :
    ∀ (ts : List Thr) (i : Nat) (t t' : Thr), ts[i]? = some t →
      ((ts.set i t').flatMap f).count x + (f t).count x =
        (ts.flatMap f).count x + (f t').count x := by
  intro ts
  induction ts with
  | nil => intro i t t' h; simp at h
  | cons a rest ih =>
    intro i t t' h
    cases i with
    | zero =>
      simp only [List.getElem?_cons_zero, Option.some.injEq] at h
      subst h
      simp only [List.set_cons_zero, List.flatMap_cons, List.count_append]
      omega
    | succ k =>
      simp only [List.getElem?_cons_succ] at h
      have := ih k t t' h
      simp only [List.set_cons_succ, List.flatMap_cons, List.count_append]
      omega

theorem flatMap_set_same (f : Thr → List Bundle) :
    ∀ (ts : List Thr) (i : Nat) (t t' : Thr), ts[i]? = some t → f t' = f t →
      (ts.set i t').flatMap f = ts.flatMap f := by
  intro ts
  induction ts with
  | nil => intro i t t' h; simp at h
  | cons a rest ih =>
    intro i t t' h hf
    cases i with
    | zero =>
      simp only [List.getElem?_cons_zero, Option.some.injEq] at h
      subst h
      simp [hf]
    | succ k =>
      simp only [List.getElem?_cons_succ] at h
      simp [ih k t t' h hf]

/-- A thread that can take a step is the only one that may be inside the critical section. -/
theorem others_noncrit {l0 s ts} (inv : Inv l0 s ts) {i t s' t'} (hi : ts[i]? = some t)
    (hs : stepThr true i s t = some (s', t')) :
    ∀ j tj, j ≠ i → ts[j]? = some tj → crit tj = false := by
  intro j tj hne hj
  cases hc : crit tj with
  | false => rfl
  | true =>
    have hl := (inv.lock j tj hj).1 hc
    have hli := (inv.lock i t hi).1
    cases t <;> simp_all [stepThr, crit]

theorem inv_step {l0 s ts} (inv : Inv l0 s ts) {i t s' t'} (hi : ts[i]? = some t)
    (hs : stepThr true i s t = some (s', t')) : Inv l0 s' (ts.set i t') := by
  have hothers := others_noncrit inv hi hs
  have hlt : i < ts.length := by
    rcases Nat.lt_or_ge i ts.length with h | h
    · exact h
    · rw [List.getElem?_eq_none h] at hi; cases hi
  have hcons := (inv.lock i t hi).2
  have hcrit := (inv.lock i t hi).1
  -- the lock part, given what has to hold for the stepping thread
  have lockPart : ((crit t' = true → s'.lock = some i) ∧ consistent s' t') →
      ∀ j tj, (ts.set i t')[j]? = some tj → (crit tj = true → s'.lock = some j) ∧ consistent s' tj := by
    intro hme j tj hj
    rw [List.getElem?_set] at hj
    by_cases hij : i = j
    · subst hij
      simp only [if_true, hlt, Option.some.injEq] at hj
      subst hj; exact hme
    · simp only [hij, if_false] at hj
      have hnc := hothers j tj (fun h => hij h.symm) hj
      exact ⟨by simp [hnc], consistent_of_noncrit _ _ hnc⟩
  have cf : ∀ x, (fetchedAll (ts.set i t')).count x + (Thr.fetched t).count x =
      (fetchedAll ts).count x + (Thr.fetched t').count x :=
    fun x => count_flatMap_set Thr.fetched x ts i t t' hi
  have cs : ∀ x, (storedAll (ts.set i t')).count x + (Thr.stored t).count x =
      (storedAll ts).count x + (Thr.stored t').count x :=
    fun x => count_flatMap_set Thr.stored x ts i t t' hi
  have hc := inv.counts
  cases t with
  | dIdle b =>
    simp only [stepThr, if_true] at hs
    split at hs
    · simp only [Option.some.injEq, Prod.mk.injEq] at hs
      obtain ⟨rfl, rfl⟩ := hs
      refine ⟨?_, lockPart ⟨by simp, trivial⟩⟩
      intro x; have := cf x; have := cs x; have := hc x
      simp only [Thr.fetched, Thr.stored, List.count_nil] at *
      omega
    · cases hs
  | dLocked b =>
    simp only [stepThr, Option.some.injEq, Prod.mk.injEq] at hs
    obtain ⟨rfl, rfl⟩ := hs
    refine ⟨?_, lockPart ⟨fun _ => hcrit (by simp [crit]), rfl⟩⟩
    intro x; have := cf x; have := cs x; have := hc x
    simp only [Thr.fetched, Thr.stored, List.count_nil] at *
    omega
  | dLoaded b r =>
    simp only [stepThr, Option.some.injEq, Prod.mk.injEq] at hs
    obtain ⟨rfl, rfl⟩ := hs
    have hr : r = s.mbox := hcons
    refine ⟨?_, lockPart ⟨fun _ => hcrit (by simp [crit]), trivial⟩⟩
    intro x; have := cf x; have := cs x; have := hc x
    subst hr
    simp only [Thr.fetched, Thr.stored, List.count_nil, Option.getD_some, List.count_append] at *
    omega
  | dStored b =>
    simp only [stepThr, if_true, Option.some.injEq, Prod.mk.injEq] at hs
    obtain ⟨rfl, rfl⟩ := hs
    refine ⟨?_, lockPart ⟨by simp [crit], trivial⟩⟩
    intro x; have := cf x; have := cs x; have := hc x
    simp only [Thr.fetched, Thr.stored, List.count_nil] at *
    omega
  | dDone b => simp [stepThr] at hs
  | fIdle =>
    simp only [stepThr, if_true] at hs
    split at hs
    · simp only [Option.some.injEq, Prod.mk.injEq] at hs
      obtain ⟨rfl, rfl⟩ := hs
      refine ⟨?_, lockPart ⟨by simp, trivial⟩⟩
      intro x; have := cf x; have := cs x; have := hc x
      simp only [Thr.fetched, Thr.stored, List.count_nil] at *
      omega
    · cases hs
  | fLocked =>
    simp only [stepThr] at hs
    split at hs
    · rename_i l hl
      simp only [Option.some.injEq, Prod.mk.injEq] at hs
      obtain ⟨rfl, rfl⟩ := hs
      refine ⟨?_, lockPart ⟨fun _ => hcrit (by simp [crit]), hl⟩⟩
      intro x; have := cf x; have := cs x; have := hc x
      simp only [Thr.fetched, Thr.stored, List.count_nil] at *
      omega
    · simp only [Option.some.injEq, Prod.mk.injEq] at hs
      obtain ⟨rfl, rfl⟩ := hs
      refine ⟨?_, lockPart ⟨fun _ => hcrit (by simp [crit]), trivial⟩⟩
      intro x; have := cf x; have := cs x; have := hc x
      simp only [Thr.fetched, Thr.stored, List.count_nil] at *
      omega
  | fLoaded l =>
    simp only [stepThr, Option.some.injEq, Prod.mk.injEq] at hs
    obtain ⟨rfl, rfl⟩ := hs
    have hl : s.mbox = some l := hcons
    refine ⟨?_, lockPart ⟨fun _ => hcrit (by simp [crit]), trivial⟩⟩
    intro x; have := cf x; have := cs x; have := hc x
    rw [hl] at this
    simp only [Thr.fetched, Thr.stored, List.count_nil, Option.getD_some, Option.getD_none] at *
    omega
  | fDeleted l =>
    simp only [stepThr, if_true, Option.some.injEq, Prod.mk.injEq] at hs
    obtain ⟨rfl, rfl⟩ := hs
    refine ⟨?_, lockPart ⟨by simp [crit], trivial⟩⟩
    intro x; have := cf x; have := cs x; have := hc x
    simp only [Thr.fetched, Thr.stored, List.count_nil] at *
    omega
  | fDone l => simp [stepThr] at hs

theorem inv_run {l0 : List Bundle} (σ : List Nat) : ∀ (s : Shared) (ts : List Thr), Inv l0 s ts →
    Inv l0 (runSched true (s, ts) σ).1 (runSched true (s, ts) σ).2 := by
  induction σ with
  | nil => intro s ts h; exact h
  | cons i σ ih =>
    intro s ts h
    simp only [runSched]
    split
    · rename_i t hi
      split
      · rename_i s' t' hs
        exact ih _ _ (inv_step h hi hs)
      · exact ih _ _ h
    · exact ih _ _ h

theorem flatMap_eq_nil_of {f : Thr → List Bundle} (ts : List Thr) (h : ∀ t ∈ ts, f t = []) :
    ts.flatMap f = [] := by
  induction ts with
  | nil => rfl
  | cons a t ih =>
    simp only [List.flatMap_cons, h a (by simp), List.nil_append]
    exact ih (fun x hx => h x (by simp [hx]))

theorem inv_init (mb : Option (List Bundle)) (ts : List Thr) (hidle : ∀ t ∈ ts, t.idle = true) :
    Inv (mb.getD []) { mbox := mb, lock := none } ts := by
  have hf : fetchedAll ts = [] := flatMap_eq_nil_of ts (by
    intro t ht; have := hidle t ht; cases t <;> simp_all [Thr.idle, Thr.fetched])
  have hst : storedAll ts = [] := flatMap_eq_nil_of ts (by
    intro t ht; have := hidle t ht; cases t <;> simp_all [Thr.idle, Thr.stored])
  constructor
  · intro x; simp [hf, hst]
  · intro j t hj
    have ht : t ∈ ts := List.mem_of_getElem? hj
    have := hidle t ht
    cases t <;> simp_all [Thr.idle, crit, consistent]

/-- The bundle a delivery thread carries never changes. -/
theorem stepThr_bundle {locked i s t s' t'} (h : stepThr locked i s t = some (s', t')) :
    t'.bundle = t.bundle := by
  cases t <;> simp only [stepThr] at h
  all_goals (try split at h)
  all_goals (try split at h)
  all_goals (first | (cases h; rfl) | cases h)

theorem run_bundles (locked : Bool) (σ : List Nat) : ∀ (s : Shared) (ts : List Thr),
    bundlesAll (runSched locked (s, ts) σ).2 = bundlesAll ts := by
  induction σ with
  | nil => intro s ts; rfl
  | cons i σ ih =>
    intro s ts
    simp only [runSched]
    split
    · rename_i t hi
      split
      · rename_i s' t' hs
        rw [ih]
        exact flatMap_set_same Thr.bundle ts i t t' hi (stepThr_bundle hs)
      · exact ih _ _
    · exact ih _ _

theorem stored_eq_bundles_of_done (ts : List Thr) (h : ∀ t ∈ ts, t.done = true) :
    storedAll ts = bundlesAll ts := by
  induction ts with
  | nil => rfl
  | cons a t ih =>
    have ha := h a (by simp)
    simp only [storedAll, bundlesAll, List.flatMap_cons] at ih ⊢
    rw [ih (fun x hx => h x (by simp [hx]))]
    cases a <;> simp_all [Thr.done, Thr.stored, Thr.bundle]

/-- Safety at every moment of every schedule: what was fetched so far plus what the mailbox holds
is exactly what was in it at the start plus what deliveries have stored so far. -/
theorem sched_perm (mb : Option (List Bundle)) (ts : List Thr) (hidle : ∀ t ∈ ts, t.idle = true)
    (σ : List Nat) :
    (fetchedAll (runSched true ({ mbox := mb, lock := none }, ts) σ).2 ++
        ((runSched true ({ mbox := mb, lock := none }, ts) σ).1.mbox.getD [])).Perm
      (mb.getD [] ++ storedAll (runSched true ({ mbox := mb, lock := none }, ts) σ).2) := by
  have inv := inv_run σ _ _ (inv_init mb ts hidle)
  rw [List.perm_iff_count]
  intro x
  have := inv.counts x
  simp only [List.count_append]
  omega

/-! ## Part F — the node -/

theorem deliver_out_bundle (cfg : Cfg) (hall : cfg.rangeAll = true) (m : Mux) (b : Bundle) :
    ∀ o ∈ (m.deliver cfg b).2, o.2 = b := by
  rw [deliver_out_eq cfg hall]
  intro o ho
  simp only [List.mem_map] at ho
  obtain ⟨r, _, rfl⟩ := ho; rfl

theorem statusReport_noForward (cfg : Cfg) (n : Node) (b : Bundle) :
    ∀ o ∈ statusReport cfg n b, o = .report b := by
  intro o ho
  unfold statusReport at ho
  split at ho
  · cases ho
  · split at ho
    · cases ho
    · simpa using ho

theorem localDelivery_outs (cfg : NCfg) (n : Node) (b : Bundle) (cons : List Constraint) :
    ∀ o ∈ (localDelivery cfg n b cons).2.1,
      o = .deletion b ∨ o = .report b ∨ ∃ r b', o = .handed r b' := by
  intro o ho
  unfold localDelivery at ho
  split at ho
  · simp at ho; exact Or.inl ho
  · have hAM : ∀ x ∈ (deliverAM cfg.toCfg n b (addLocal cons)).2.2.1,
        ∃ r b', x = .handed r b' := by
      intro x hx
      unfold deliverAM at hx
      split at hx
      · simp only [List.mem_map] at hx
        obtain ⟨h, _, rfl⟩ := hx; exact ⟨_, _, rfl⟩
      · cases hx
    dsimp only at ho
    by_cases hg : (cfg.reportGuard && !(deliverAM cfg.toCfg n b (addLocal cons)).1) = true
    · rw [if_pos hg] at ho
      exact Or.inr (Or.inr (hAM o ho))
    · rw [if_neg hg] at ho
      simp only [List.mem_append] at ho
      rcases ho with ho | ho
      · exact Or.inr (Or.inr (hAM o ho))
      · by_cases hr : b.reqDelivery = true
        · rw [if_pos hr] at ho
          exact Or.inr (Or.inl (statusReport_noForward _ _ _ o ho))
        · rw [if_neg hr] at ho; cases ho

/-- A bundle for a local endpoint is never given to `forward`. -/
theorem not_forwarded (cfg : NCfg) (n : Node) (b : Bundle) (cons : List Constraint)
    (h : n.hasEndpoint cfg.toCfg b.dest = true) :
    NotForwarded (dispatching cfg n b cons).2.1 = true := by
  simp only [dispatching, h, if_true, NotForwarded, List.all_eq_true]
  intro o ho
  rcases localDelivery_outs cfg n b cons o ho with rfl | rfl | ⟨r, b', rfl⟩ <;> rfl

theorem report_only_after_handover (cfg : NCfg) (hall : cfg.rangeAll = true)
    (hguard : cfg.reportGuard = true) (n : Node) (b : Bundle) (cons : List Constraint) :
    ReportOnlyAfterHandover b (localDelivery cfg n b cons).2.1 = true := by
  unfold localDelivery
  split
  · simp [ReportOnlyAfterHandover]
  · simp only [hguard, Bool.true_and]
    unfold deliverAM
    by_cases hep : n.mux.hasEndpoint cfg.toCfg b.dest = true
    · simp only [hep, if_true, Bool.not_true, Bool.false_eq_true, if_false]
      have hne := deliver_nonempty cfg.toCfg hall n.mux b hep
      have hb := deliver_out_bundle cfg.toCfg hall n.mux b
      simp only [ReportOnlyAfterHandover, Bool.or_eq_true]
      right
      rw [List.any_eq_true]
      cases hd : (n.mux.deliver cfg.toCfg b).2 with
      | nil => exact absurd hd hne
      | cons o t =>
        refine ⟨.handed o.1 o.2, by simp, ?_⟩
        have : o.2 = b := hb o (by rw [hd]; simp)
        simp [Out.isHanded, this]
    · simp [hep, ReportOnlyAfterHandover]

theorem retention_ok (cfg : NCfg) (hall : cfg.rangeAll = true) (hguard : cfg.reportGuard = true)
    (n : Node) (b : Bundle) (cons : List Constraint) :
    RetentionOk b (localDelivery cfg n b cons).2.1 (localDelivery cfg n b cons).2.2 = true := by
  unfold localDelivery
  split
  · simp [RetentionOk]
  · simp only [hguard, Bool.true_and]
    unfold deliverAM
    by_cases hep : n.mux.hasEndpoint cfg.toCfg b.dest = true
    · simp only [hep, if_true, Bool.not_true, Bool.false_eq_true, if_false]
      have hne := deliver_nonempty cfg.toCfg hall n.mux b hep
      have hb := deliver_out_bundle cfg.toCfg hall n.mux b
      simp only [RetentionOk, Bool.or_eq_true]
      left; right
      rw [List.any_eq_true]
      cases hd : (n.mux.deliver cfg.toCfg b).2 with
      | nil => exact absurd hd hne
      | cons o t =>
        refine ⟨.handed o.1 o.2, by simp, ?_⟩
        have : o.2 = b := hb o (by rw [hd]; simp)
        simp [Out.isHanded, this]
    · simp only [hep, Bool.false_eq_true, if_false, Bool.not_false, if_true, RetentionOk]
      have : Constraint.localEndpoint ∈ addLocal cons := by
        unfold addLocal
        by_cases hc : Constraint.localEndpoint ∈ cons
        · simp [hc]
        · simp [hc]
      simp [this]

/-- Every "delivered" report among the outputs is accompanied by a hand-over of that bundle. -/
def ReportsJustified (outs : List Out) : Prop :=
  ∀ b, Out.report b ∈ outs → ∃ r, Out.handed r b ∈ outs

theorem reportsJustified_append {o₁ o₂ : List Out} (h₁ : ReportsJustified o₁) (h₂ : ReportsJustified o₂) :
    ReportsJustified (o₁ ++ o₂) := by
  intro b hb
  simp only [List.mem_append] at hb ⊢
  rcases hb with hb | hb
  · obtain ⟨r, hr⟩ := h₁ b hb; exact ⟨r, Or.inl hr⟩
  · obtain ⟨r, hr⟩ := h₂ b hb; exact ⟨r, Or.inr hr⟩

theorem dispatching_reportsJustified (cfg : NCfg) (hall : cfg.rangeAll = true)
    (hguard : cfg.reportGuard = true) (n : Node) (b : Bundle) (cons : List Constraint) :
    ReportsJustified (dispatching cfg n b cons).2.1 := by
  intro b' hb'
  unfold dispatching at hb' ⊢
  split at hb'
  · rename_i hloc
    simp only [hloc, if_true]
    -- only `b` itself can be reported
    have hb : b' = b := by
      rcases localDelivery_outs cfg n b cons _ hb' with h | h | ⟨r, x, h⟩
      · cases h
      · cases h; rfl
      · cases h
    subst hb
    have h := report_only_after_handover cfg hall hguard n b' cons
    simp only [ReportOnlyAfterHandover, Bool.or_eq_true, Bool.not_eq_true', List.any_eq_true] at h
    rcases h with h | ⟨o, ho, hh⟩
    · have : (localDelivery cfg n b' cons).2.1.contains (Out.report b') = true := by
        simpa using hb'
      rw [this] at h; cases h
    · cases o with
      | handed r x =>
        simp only [Out.isHanded, beq_iff_eq] at hh
        subst hh; exact ⟨r, ho⟩
      | _ => simp [Out.isHanded] at hh
  · simp at hb'

theorem receive_reportsJustified (cfg : NCfg) (hall : cfg.rangeAll = true)
    (hguard : cfg.reportGuard = true) (n : Node) (b : Bundle) :
    ReportsJustified (receive cfg n b).2 := by
  unfold receive
  split
  · intro b' hb'; cases hb'
  · exact dispatching_reportsJustified cfg hall hguard n b [.dispatchPending]

theorem tick_reportsJustified (cfg : NCfg) (hall : cfg.rangeAll = true)
    (hguard : cfg.reportGuard = true) (n : Node) : ReportsJustified (tick cfg n).2 := by
  unfold tick
  suffices h : ∀ (l : List (Nat × Bundle × List Constraint)) (acc : Node × List Out),
      ReportsJustified acc.2 →
      ReportsJustified (l.foldl (fun acc e =>
        if pendingC e.2.2 then
          ((dispatching cfg acc.1 e.2.1 e.2.2).1.sync e.2.1 (dispatching cfg acc.1 e.2.1 e.2.2).2.2,
            acc.2 ++ (dispatching cfg acc.1 e.2.1 e.2.2).2.1)
        else acc) acc).2 from
    h n.store (n, []) (by intro b hb; cases hb)
  intro l
  induction l with
  | nil => intro acc h; exact h
  | cons e t ih =>
    intro acc h
    simp only [List.foldl_cons]
    apply ih
    split
    · exact reportsJustified_append h (dispatching_reportsJustified cfg hall hguard _ _ _)
    · exact h

end Dtn7.Delivery.Lemmas
