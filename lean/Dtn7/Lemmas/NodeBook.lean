/-
C13 along every history: the sent-list bookkeeping invariant (previous node and successful transmissions
stay booked; chosen peers are never booked ones).
-/
import Dtn7.Lemmas.NodeC13

namespace Dtn7.Node

/-! ## Provenance: which bundle an item holds -/

/-- `b'` is `b` as far as routing identity goes (tag, ID, previous node, destination); `forward` may
rewrite the spray block of the in-memory copy. -/
def Like (b b' : Bundle) : Prop := b'.tag = b.tag ∧ b'.key = b.key ∧ b'.prev = b.prev ∧ b'.dst = b.dst

theorem Like.refl (b : Bundle) : Like b b := ⟨rfl, rfl, rfl, rfl⟩
theorem Like.trans {a b c : Bundle} (h1 : Like a b) (h2 : Like b c) : Like a c :=
  ⟨h2.1.trans h1.1, h2.2.1.trans h1.2.1, h2.2.2.1.trans h1.2.2.1, h2.2.2.2.trans h1.2.2.2⟩

/-- The item under `k` afterwards holds (a bundle like) the one it held before, or (one like) the bundle
`b` that the step may push. -/
structure BStep (b : Bundle) (k : Key) (n n' : Node) : Prop where
  bundle : ∀ it', n'.store.get k = some it' →
    (∃ it, n.store.get k = some it ∧ Like it.bundle it'.bundle) ∨ Like b it'.bundle

theorem BStep.refl (b : Bundle) (k : Key) (n : Node) : BStep b k n n :=
  ⟨fun it' h => Or.inl ⟨it', h, Like.refl _⟩⟩

theorem BStep.trans {b : Bundle} {k : Key} {x y z : Node} (h1 : BStep b k x y) (h2 : BStep b k y z) :
    BStep b k x z := by
  refine ⟨fun it' h => ?_⟩
  rcases h2.bundle it' h with ⟨it1, g1, l1⟩ | hp
  · rcases h1.bundle it1 g1 with ⟨it0, g0, l0⟩ | hp0
    · exact Or.inl ⟨it0, g0, l0.trans l1⟩
    · exact Or.inr (hp0.trans l1)
  · exact Or.inr hp

theorem RtStep.bstep {b : Bundle} {k : Key} {n n' : Node} (h : RtStep k n n') : BStep b k n n' := by
  refine ⟨fun it' hg => ?_⟩
  cases h0 : n.store.get k with
  | none => rw [h.absent h0] at hg; cases hg
  | some it0 =>
    rcases h.item it0 h0 with ⟨it1, g1, b1, _⟩
    rw [hg] at g1
    cases g1
    exact Or.inl ⟨it0, rfl, by rw [b1]; exact Like.refl _⟩

theorem sync_bstep (b : Bundle) (d : Desc) (n : Node) (hb : ∀ b0, d.bndl = some b0 → Like b b0 ∧ b0.key = d.key) :
    BStep b d.key n (sync d n) := by
  refine ⟨fun it' hg => ?_⟩
  unfold sync at hg
  cases h : n.store.get d.key with
  | none =>
    simp only [h] at hg
    cases hd : d.bndl with
    | none => simp only [hd] at hg; rw [h] at hg; cases hg
    | some b0 =>
      simp only [hd] at hg
      have hk := (hb b0 hd).2
      have hab : n.store.get b0.key = none := by rw [hk]; exact h
      rw [← hk, push_get_absent b0 n hab] at hg
      cases hg
      exact Or.inr (hb b0 hd).1
  | some it =>
    simp only [h] at hg
    split at hg
    · simp only [Store.get_erase_eq] at hg; cases hg
    · simp only [Node.setItem, Store.get_set_eq] at hg
      cases hg
      exact Or.inl ⟨it, rfl, Like.refl _⟩

theorem bundleDeletion_bstep (b : Bundle) (d : Desc) (n : Node) (hb : ∀ b0, d.bndl = some b0 → Like b b0 ∧ b0.key = d.key) :
    BStep b d.key n (bundleDeletion d n) :=
  sync_bstep b { d with cons := d.cons.purge } n hb

theorem bundleContraindicated_bstep (b : Bundle) (d : Desc) (n : Node)
    (hb : ∀ b0, d.bndl = some b0 → Like b b0 ∧ b0.key = d.key) : BStep b d.key n (bundleContraindicated d n) :=
  sync_bstep b { d with cons := { d.cons with ci := true } } n hb

theorem localDelivery_bstep (b : Bundle) (d : Desc) (n : Node) (hb : ∀ b0, d.bndl = some b0 → Like b b0 ∧ b0.key = d.key) :
    BStep b d.key n (localDelivery d n) := by
  unfold localDelivery
  exact (sync_bstep b { d with cons := { d.cons with le := true } } n hb).trans
    (sync_bstep b { d with cons := ({ d.cons with le := true } : Cons).purge } _ hb)

theorem forwardSend_bstep (env : Env) (b : Bundle) (r : List Peer × Bool × Desc × Node)
    (hb : ∀ b0, r.2.2.1.bndl = some b0 → Like b b0 ∧ b0.key = r.2.2.1.key) :
    BStep b r.2.2.1.key r.2.2.2 (forwardSend env b r).1 := by
  unfold forwardSend
  simp only
  have hs : BStep b r.2.2.1.key r.2.2.2 (sendAll env r.2.2.1 b r.1 r.2.2.2).1 := (sendAll_rt env r.2.2.1 b r.1 r.2.2.2).bstep
  split
  · exact hs.trans (sync_bstep b { r.2.2.1 with cons := r.2.2.1.cons.purge } _ hb)
  · exact hs.trans (bundleContraindicated_bstep b r.2.2.1 _ hb)

theorem forward_bstep (env : Env) (d : Desc) (b : Bundle) (n : Node) (hd : d.bndl = some b) (hk : b.key = d.key) :
    BStep b d.key n (forward env d b n).1 := by
  unfold forward
  simp only
  have hb1 : ∀ b0, ({ d with cons := { d.cons with fp := true, dp := false } } : Desc).bndl = some b0 →
      Like b b0 ∧ b0.key = d.key := by
    intro b0 h
    rw [hd] at h
    cases h
    exact ⟨Like.refl _, hk⟩
  have h1 := sync_bstep b { d with cons := { d.cons with fp := true, dp := false } } n hb1
  split
  · exact h1.trans (bundleDeletion_bstep b _ _ hb1)
  · split
    · exact h1.trans (bundleDeletion_bstep b _ _ hb1)
    · split
      · exact h1.trans (bundleDeletion_bstep b _ _ hb1)
      · refine h1.trans ?_
        have hsel := selectSenders_rt env { d with cons := { d.cons with fp := true, dp := false } } b
          (sync { d with cons := { d.cons with fp := true, dp := false } } n)
        have hdesc := selectSenders_desc env { d with cons := { d.cons with fp := true, dp := false } } b
          (sync { d with cons := { d.cons with fp := true, dp := false } } n)
        refine (hsel.bstep (b := b)).trans ?_
        have := forwardSend_bstep env b (selectSenders env { d with cons := { d.cons with fp := true, dp := false } } b
          (sync { d with cons := { d.cons with fp := true, dp := false } } n)) ?_
        · rw [hdesc.1] at this
          exact this
        · intro b0 hb0
          rw [hdesc.1]
          rcases selectSenders_bndl env { d with cons := { d.cons with fp := true, dp := false } } b
            (sync { d with cons := { d.cons with fp := true, dp := false } } n) with h | ⟨c, h⟩
          · rw [h] at hb0
            exact hb1 b0 hb0
          · rw [h] at hb0
            cases hb0
            exact ⟨⟨rfl, rfl, rfl, rfl⟩, hk⟩


theorem dispatching_bstep (env : Env) (d : Desc) (b : Bundle) (n : Node)
    (hd : d.bndl = some b ∨ (d.bndl = none ∧ ∃ it, n.store.get d.key = some it ∧ it.bundle = b))
    (hk : b.key = d.key) : BStep b d.key n (dispatching env d n).1 := by
  unfold dispatching
  simp only
  have ha := dispatchingAllowed_rt env d n
  have hbd : ∀ b0, d.bndl = some b0 → Like b b0 ∧ b0.key = d.key := by
    intro b0 h0
    rcases hd with h | ⟨h, _⟩
    · rw [h] at h0; cases h0; exact ⟨Like.refl _, hk⟩
    · rw [h] at h0; cases h0
  split
  · split
    · exact (ha.bstep (b := b)).trans (bundleContraindicated_bstep b d _ hbd)
    · exact ha.bstep
  · refine (ha.bstep (b := b)).trans ?_
    cases hbun : d.bundle (dispatchingAllowed env d n).2 with
    | none => exact BStep.refl _ _ _
    | some b1 =>
      simp only
      have hb1 : b1 = b := by
        unfold Desc.bundle at hbun
        rcases hd with h | ⟨h, it, hg, hib⟩
        · simp [h] at hbun; exact hbun.symm
        · simp only [h] at hbun
          rcases ha.item it hg with ⟨ita, ga, ba, _⟩
          simp only [ga] at hbun
          split at hbun
          · cases hbun; rw [ba]; exact hib
          · cases hbun
      subst hb1
      split
      · exact localDelivery_bstep b1 { d with bndl := some b1 } _ (by intro b0 h; cases h; exact ⟨Like.refl _, hk⟩)
      · exact forward_bstep env { d with bndl := some b1 } b1 _ rfl hk

/-- The bundle the item of `k` holds after `checkPendingBundles` is like the one it held before. -/
theorem dispatchKeys_like (env : Env) (k : Key) : ∀ (ks : List Key) (n : Node), WF n →
    ∀ it', (dispatchKeys env ks n).1.store.get k = some it' → ∃ it, n.store.get k = some it ∧ Like it.bundle it'.bundle
  | [], n, _, it', h => ⟨it', h, Like.refl _⟩
  | k₁ :: ks, n, w, it', h => by
    simp only [dispatchKeys] at h
    have hd := dispatching_only env (newDesc n k₁) n w (by intro b hb; rw [newDesc_bndl] at hb; cases hb)
    rw [newDesc_key] at hd
    rcases dispatchKeys_like env k ks _ (hd.wf w) it' h with ⟨it1, g1, l1⟩
    by_cases hk : k₁ = k
    · subst hk
      cases hg : n.store.get k₁ with
      | none =>
        -- nothing is created by a retry
        exfalso
        -- the descriptor has no bundle and the store no item: dispatching cannot push
        have : (dispatching env (newDesc n k₁) n).1.store.get k₁ = none := by
          unfold dispatching
          simp only
          have ha := dispatchingAllowed_rt env (newDesc n k₁) n
          rw [newDesc_key] at ha
          have hna := ha.absent hg
          split
          · split
            · unfold bundleContraindicated sync
              simp only [newDesc_key, hna, newDesc_bndl]
            · exact hna
          · have : (newDesc n k₁).bundle (dispatchingAllowed env (newDesc n k₁) n).2 = none := by
              unfold Desc.bundle
              simp only [newDesc_bndl, newDesc_key, hna]
            simp only [this]
            exact hna
        rw [this] at g1
        cases g1
      | some it0 =>
        have hb := dispatching_bstep env (newDesc n k₁) it0.bundle n
          (Or.inr ⟨newDesc_bndl n k₁, it0, by rw [newDesc_key]; exact hg, rfl⟩)
          (by rw [newDesc_key]; exact w.keyed _ _ hg)
        rw [newDesc_key] at hb
        rcases hb.bundle it1 g1 with ⟨it2, g2, l2⟩ | l2
        · rw [hg] at g2; cases g2
          exact ⟨it0, rfl, l2.trans l1⟩
        · exact ⟨it0, rfl, l2.trans l1⟩
    · rw [hd.only.other k (fun e => hk e.symm)] at g1
      exact ⟨it1, g1, l1⟩


/-! ## Booked endpoint IDs -/

/-- Does the algorithm keep a sent list for this key right now? (store-kept lists: the item exists;
spray variants: the in-memory bookkeeping exists) -/
def hasBook (n : Node) (k : Key) : Bool :=
  match n.cfg.algo with
  | .spray => (lookupMeta n.spray k).isSome
  | .binarySpray => (lookupMeta n.spray k).isSome
  | _ => (n.store.get k).isSome

/-- `e` is in the bundle's sent list (if there is one). -/
def Booked (n : Node) (k : Key) (e : Eid) : Prop := hasBook n k = true → e ∈ sentL n k

/-- Everything booked stays booked, except the endpoint IDs in `X`. -/
def BookLe (X : Eid → Prop) (k : Key) (n n' : Node) : Prop :=
  ∀ e, Booked n k e → ¬ X e → Booked n' k e

theorem BookLe.refl (X : Eid → Prop) (k : Key) (n : Node) : BookLe X k n n := fun _ h _ => h

theorem BookLe.trans {X Y : Eid → Prop} {k : Key} {a b c : Node} (h1 : BookLe X k a b) (h2 : BookLe Y k b c) :
    BookLe (fun e => X e ∨ Y e) k a c :=
  fun e hb hn => h2 e (h1 e hb (fun hx => hn (Or.inl hx))) (fun hy => hn (Or.inr hy))

theorem BookLe.mono {X Y : Eid → Prop} {k : Key} {a b : Node} (h : BookLe X k a b) (hxy : ∀ e, X e → Y e) :
    BookLe Y k a b :=
  fun e hb hn => h e hb (fun hx => hn (hxy e hx))

/-- Same sent list and same "has a list" ⇒ same booked set. -/
theorem bookLe_of_eq {k : Key} {n n' : Node} (hs : sentL n' k = sentL n k) (hh : hasBook n' k = hasBook n k) :
    BookLe (fun _ => False) k n n' := by
  intro e hb _ hh'
  rw [hs]
  exact hb (by rw [← hh]; exact hh')

/-- A step that touches another key only. -/
theorem sentL_frame {k k' : Key} {n n' : Node} (h : OnlyKey k n n') (hk : k' ≠ k) :
    sentL n' k' = sentL n k' ∧ hasBook n' k' = hasBook n k' := by
  unfold sentL hasBook
  rw [h.env.cfg, h.other k' hk, h.spray k' hk]
  exact ⟨rfl, rfl⟩

/-- `Sync` of an existing item: the routing properties stay (or the item is deleted). -/
theorem sync_bookLe (d : Desc) (n : Node) (it : Item) (hg : n.store.get d.key = some it) :
    BookLe (fun _ => False) d.key n (sync d n) := by
  intro e hb _ hh
  have hcfg : (sync d n).cfg = n.cfg := (sync_env d n).cfg
  have hsp : (sync d n).spray = n.spray := sync_spray d n
  unfold Booked at hb
  by_cases hc : d.cons.isEmpty = true
  · -- deleted
    have hdel := sync_delete d n it hg hc
    cases ha : n.cfg.algo
    all_goals simp only [hasBook, sentL, hcfg, hsp, ha, hdel, hg, Option.isSome_none, Option.isSome_some,
      Bool.false_eq_true, Option.map_some, Option.getD_some, forall_const] at hh hb ⊢
    all_goals first | exact hb hh | exact hb
  · have hc' : d.cons.isEmpty = false := by cases h : d.cons.isEmpty <;> simp_all
    have hup := sync_update d n it hg hc'
    cases ha : n.cfg.algo
    all_goals simp only [hasBook, sentL, hcfg, hsp, ha, hup, hg, Option.isSome_some, Option.map_some,
      Option.getD_some, forall_const] at hh hb ⊢
    all_goals first | exact hb hh | exact hb


theorem hasBook_of_rt {k : Key} {n n' : Node} (h : RtStep k n n')
    (hs : (lookupMeta n'.spray k).isSome = (lookupMeta n.spray k).isSome) : hasBook n' k = hasBook n k := by
  unfold hasBook
  rw [h.only.env.cfg]
  have hi : (n'.store.get k).isSome = (n.store.get k).isSome := by
    cases h0 : n.store.get k with
    | none => rw [h.absent h0]
    | some it => rcases h.item it h0 with ⟨it', g', _⟩; rw [g']; rfl
  cases n.cfg.algo <;> simp only [hs, hi]

theorem reportFailure_spraySome (d : Desc) (p : Peer) (n : Node) :
    (lookupMeta (reportFailure d p n).spray d.key).isSome = (lookupMeta n.spray d.key).isSome := by
  unfold reportFailure modRt
  cases n.cfg.algo
  · simp only [modItem_spray]
  · simp only
    cases hg : lookupMeta n.spray d.key with
    | none => simp [hg]
    | some m => simp [lookupMeta_setMeta_eq]
  · simp only
    cases d.bndl.bind (·.bsCopies) with
    | none => rfl
    | some c =>
      simp only
      cases hg : lookupMeta n.spray d.key with
      | none => simp [hg]
      | some m => simp [lookupMeta_setMeta_eq]
  · simp only [modItem_spray]
  · simp only
    generalize (n.cfg.dtlsrFail && (match d.bndl with | some b => decide (b.dst = n.cfg.bcast) | none => false)) = cnd
    cases cnd
    · rfl
    · simp only [if_true, modItem_spray]

theorem reportFailure_bookLe (d : Desc) (p : Peer) (n : Node) :
    BookLe (fun e => e = p.eid) d.key n (reportFailure d p n) := by
  intro e hb hne hh
  have hhb := hasBook_of_rt (reportFailure_rt d p n) (reportFailure_spraySome d p n)
  rw [hhb] at hh
  exact (reportFailure_others d p n e).2 (hb hh) hne

theorem innerSenders_spraySome (env : Env) (d : Desc) (b : Bundle) (n : Node) :
    (lookupMeta (innerSenders env d b n).2.2.2.spray d.key).isSome = (lookupMeta n.spray d.key).isSome := by
  unfold innerSenders modRt
  cases n.cfg.algo
  · simp only
    cases n.store.get d.key <;> simp only [modItem_spray]
  · simp only
    cases hg : lookupMeta n.spray d.key with
    | none => simp [hg]
    | some m =>
      simp only
      split
      · simp [hg]
      · simp [lookupMeta_setMeta_eq]
  · simp only
    cases hg : lookupMeta n.spray d.key with
    | none => simp [hg]
    | some m =>
      simp only
      split
      · simp [hg]
      · cases (senders env n d.key).find? (fun p => !m.sent.contains p.eid) <;> simp [lookupMeta_setMeta_eq]
  · simp only
    cases n.store.get d.key with
    | none => rfl
    | some it => simp only; split <;> simp only [modItem_spray]
  · simp only
    split
    · cases n.store.get d.key <;> simp only [modItem_spray]
    · cases (senders env n d.key).find? (fun p => env.cand p.eid b) <;> rfl

/-- `SenderForBundle` only appends to the sent list. -/
theorem innerSenders_mono (env : Env) (d : Desc) (b : Bundle) (n : Node) (e : Eid)
    (h : e ∈ sentL n d.key) : e ∈ sentL (innerSenders env d b n).2.2.2 d.key := by
  by_cases hrep : replicates n.cfg b = true
  · rw [(innerSenders_spec env d b n hrep).2]
    exact List.mem_append_left _ h
  · -- DTLSR unicast: nothing is written
    have ha : n.cfg.algo = .dtlsr := by
      unfold replicates at hrep
      cases ha : n.cfg.algo <;> simp [ha] at hrep
      rfl
    have hb : ¬ b.dst = n.cfg.bcast := by
      unfold replicates at hrep
      simpa [ha] using hrep
    have : (innerSenders env d b n).2.2.2 = n := by
      unfold innerSenders
      simp only [ha, hb, if_false]
      cases (senders env n d.key).find? (fun p => env.cand p.eid b) <;> rfl
    rw [this]
    exact h

theorem innerSenders_bookLe (env : Env) (d : Desc) (b : Bundle) (n : Node) :
    BookLe (fun _ => False) d.key n (innerSenders env d b n).2.2.2 := by
  intro e hb _ hh
  have hhb := hasBook_of_rt (innerSenders_rt env d b n) (innerSenders_spraySome env d b n)
  rw [hhb] at hh
  exact innerSenders_mono env d b n e (hb hh)

theorem muleFilter_bookLe (d : Desc) : ∀ (ps : List Peer) (n : Node),
    BookLe (fun e => ∃ p ∈ ps, p.eid = e) d.key n (muleFilter d ps n).2
  | [], n => fun _ h _ => h
  | p :: ps, n => by
    have ih := muleFilter_bookLe d ps n
    simp only [muleFilter]
    by_cases h : muleDrops n.cfg d p = true
    · simp only [h, if_true]
      refine (ih.trans (reportFailure_bookLe d p _)).mono ?_
      intro e he
      rcases he with ⟨q, hq, hqe⟩ | he
      · exact ⟨q, List.mem_cons_of_mem _ hq, hqe⟩
      · exact ⟨p, List.mem_cons_self, he.symm⟩
    · simp only [h, Bool.false_eq_true, if_false]
      exact ih.mono (fun e ⟨q, hq, hqe⟩ => ⟨q, List.mem_cons_of_mem _ hq, hqe⟩)

theorem attempts_bookLe (k : Key) (n : Node) (a : List ((Nat × Nat × Nat) × Nat)) :
    BookLe (fun _ => False) k n { n with attempts := a } := fun _ h _ => h

/-- The transmissions: only peers whose `Send` failed are taken out of the list. -/
theorem sendAll_bookLe (env : Env) (d : Desc) (b : Bundle) : ∀ (ps : List Peer) (n : Node),
    BookLe (fun e => ∃ p ∈ ps, Output.sent p b false ∈ (sendAll env d b ps n).2.1 ∧ p.eid = e) d.key n
      (sendAll env d b ps n).1
  | [], n => fun _ h _ => h
  | p :: ps, n => by
    simp only [sendAll]
    by_cases hok : env.sendOk p.addr b.tag (attemptNo n p.addr b.tag b.seq) = true
    · simp only [hok, if_true]
      have ih := sendAll_bookLe env d b ps { n with attempts := setNat n.attempts (p.addr, b.tag, b.seq) (attemptNo n p.addr b.tag b.seq + 1) }
      refine ((attempts_bookLe d.key n _).trans ih).mono ?_
      intro e he
      rcases he with he | ⟨q, hq, hm, hqe⟩
      · exact absurd he id
      · exact ⟨q, List.mem_cons_of_mem _ hq, List.mem_cons_of_mem _ hm, hqe⟩
    · have hok' : env.sendOk p.addr b.tag (attemptNo n p.addr b.tag b.seq) = false := by
        cases h : env.sendOk p.addr b.tag (attemptNo n p.addr b.tag b.seq) <;> simp_all
      simp only [hok', Bool.false_eq_true, if_false]
      have ih := sendAll_bookLe env d b ps (reportFailure d p { n with attempts := setNat n.attempts (p.addr, b.tag, b.seq) (attemptNo n p.addr b.tag b.seq + 1) })
      refine (((attempts_bookLe d.key n _).trans (reportFailure_bookLe d p _)).trans ih).mono ?_
      intro e he
      rcases he with (he | he) | ⟨q, hq, hm, hqe⟩
      · exact absurd he id
      · exact ⟨p, List.mem_cons_self, List.mem_cons_self, he.symm⟩
      · exact ⟨q, List.mem_cons_of_mem _ hq, List.mem_cons_of_mem _ hm, hqe⟩


/-! ## One `forward`: booked endpoint IDs are neither chosen nor lost -/

/-- Whoever the algorithm picks: there is a sent list and the peer is not in it. -/
theorem innerSenders_fresh (env : Env) (d : Desc) (b : Bundle) (n : Node) (hrep : replicates n.cfg b = true) :
    ∀ p ∈ (innerSenders env d b n).1, hasBook n d.key = true ∧ p.eid ∉ sentL n d.key := by
  intro p hp
  refine ⟨?_, ?_⟩
  · -- no item / no bookkeeping ⇒ nobody is picked
    unfold hasBook
    unfold innerSenders at hp
    cases ha : n.cfg.algo <;> simp only [ha] at hp ⊢
    · cases hg : n.store.get d.key <;> simp [hg] at hp ⊢
    · cases hg : lookupMeta n.spray d.key <;> simp [hg] at hp ⊢
    · cases hg : lookupMeta n.spray d.key <;> simp [hg] at hp ⊢
    · cases hg : n.store.get d.key <;> simp [hg] at hp ⊢
    · have hb : b.dst = n.cfg.bcast := by
        unfold replicates at hrep
        simpa [ha] using hrep
      simp only [hb, if_true] at hp
      cases hg : n.store.get d.key <;> simp [hg] at hp ⊢
  · have := (innerSenders_spec env d b n hrep).1 p hp
    simpa using this

theorem sendersFor_book (env : Env) (d : Desc) (b : Bundle) (n : Node) (hrep : replicates n.cfg b = true) :
    (∀ p ∈ (sendersFor env d b n).1, hasBook n d.key = true ∧ p.eid ∉ sentL n d.key) ∧
    BookLe (fun e => ∃ p ∈ (innerSenders env d b n).1, p.eid = e) d.key n (sendersFor env d b n).2.2.2 := by
  unfold sendersFor
  simp only
  split
  · constructor
    · intro p hp
      exact innerSenders_fresh env d b n hrep p (muleFilter_fst_sub _ _ _ p hp)
    · have h1 := innerSenders_bookLe env d b n
      have hk := (innerSenders_desc env d b n).1
      have h2 := muleFilter_bookLe (innerSenders env d b n).2.2.1 (innerSenders env d b n).1 (innerSenders env d b n).2.2.2
      rw [hk] at h2
      exact (h1.trans h2).mono (fun e he => by
        rcases he with he | he
        · exact absurd he id
        · exact he)
  · exact ⟨innerSenders_fresh env d b n hrep, (innerSenders_bookLe env d b n).mono (fun _ h => absurd h id)⟩

/-- The endpoint IDs `E` that have to stay booked: none of them is the destination's node, all of them
are in the sent list. -/
structure MustStay (E : Eid → Prop) (b : Bundle) (n : Node) (k : Key) : Prop where
  notDst : ∀ e, E e → e.sameNode b.dst = false
  booked : ∀ e, E e → Booked n k e

theorem forwardSend_book (env : Env) (b : Bundle) (r : List Peer × Bool × Desc × Node) (it : Item)
    (hg : r.2.2.2.store.get r.2.2.1.key = some it) (E : Eid → Prop)
    (hE : ∀ e, E e → Booked r.2.2.2 r.2.2.1.key e) (hX : ∀ p ∈ r.1, ¬ E p.eid) :
    ∀ e, E e → Booked (forwardSend env b r).1 r.2.2.1.key e := by
  intro e he
  unfold forwardSend
  simp only
  have hs := sendAll_bookLe env r.2.2.1 b r.1 r.2.2.2
  have hrt := sendAll_rt env r.2.2.1 b r.1 r.2.2.2
  rcases hrt.item it hg with ⟨it2, g2, _⟩
  have hb2 : Booked (sendAll env r.2.2.1 b r.1 r.2.2.2).1 r.2.2.1.key e := by
    apply hs e (hE e he)
    intro ⟨p, hp, _, hpe⟩
    exact hX p hp (hpe ▸ he)
  split
  · exact sync_bookLe { r.2.2.1 with cons := r.2.2.1.cons.purge } _ it2 g2 e hb2 id
  · exact sync_bookLe { r.2.2.1 with cons := { r.2.2.1.cons with ci := true } } _ it2 g2 e hb2 id

theorem forward_book (env : Env) (d : Desc) (b : Bundle) (n : Node) (it : Item)
    (hg : n.store.get d.key = some it) (hrep : replicates n.cfg b = true)
    (E : Eid → Prop) (hE : MustStay E b n d.key) :
    (∀ p ok, Output.sent p b ok ∈ (forward env d b n).2 → p.eid.sameNode b.dst = false → ¬ E p.eid) ∧
    (∀ e, E e → Booked (forward env d b n).1 d.key e) := by
  unfold forward
  simp only
  generalize hd1 : ({ d with cons := { d.cons with fp := true, dp := false } } : Desc) = d1
  have hk1 : d1.key = d.key := by rw [← hd1]
  have hne : d1.cons.isEmpty = false := by rw [← hd1]; simp [Cons.isEmpty]
  rw [← hk1] at hg hE ⊢
  have h1 := sync_update d1 n it hg hne
  have hb1 : ∀ e, E e → Booked (sync d1 n) d1.key e :=
    fun e he => sync_bookLe d1 n it hg e (hE.booked e he) id
  have henv := sync_env d1 n
  have hcfg1 : (sync d1 n).cfg = n.cfg := henv.cfg
  -- the three refusals: nothing is sent, the item is deleted (or keeps its routing properties)
  have hdel : (∀ p ok, Output.sent p b ok ∈ ([] : List Output) → p.eid.sameNode b.dst = false → ¬ E p.eid) ∧
      (∀ e, E e → Booked (bundleDeletion d1 (sync d1 n)) d1.key e) := by
    refine ⟨(fun p ok h => by cases h), fun e he => ?_⟩
    exact sync_bookLe { d1 with cons := d1.cons.purge } (sync d1 n) _ h1 e (hb1 e he) id
  split
  · exact hdel
  · split
    · exact hdel
    · split
      · exact hdel
      · -- transmissions
        unfold selectSenders
        simp only
        split
        · -- the algorithm chooses
          have hdesc := sendersFor_desc env d1 b (sync d1 n)
          have hrt := sendersFor_rt env d1 b (sync d1 n)
          rcases hrt.item _ h1 with ⟨it3, g3, _⟩
          have hbook := sendersFor_book env d1 b (sync d1 n) (by rw [hcfg1]; exact hrep)
          constructor
          · intro p ok hmem hns
            rcases forwardSend_outs env b _ _ hmem with ⟨q, ok', hq, hqe⟩
            cases hqe
            rcases hbook.1 p hq with ⟨hhb, hfresh⟩
            intro hEp
            exact hfresh (hb1 _ hEp hhb)
          · have hE3 : ∀ e, E e → Booked (sendersFor env d1 b (sync d1 n)).2.2.2 d1.key e := by
              intro e he
              apply hbook.2 e (hb1 e he)
              intro ⟨q, hq, hqe⟩
              rcases innerSenders_fresh env d1 b _ (by rw [hcfg1]; exact hrep) q hq with ⟨hhb, hfresh⟩
              exact hfresh (hqe ▸ hb1 e he hhb)
            have := forwardSend_book env b (sendersFor env d1 b (sync d1 n)) it3
              (by rw [hdesc.1]; exact g3) E (by rw [hdesc.1]; exact hE3)
              (by
                intro p hp hEp
                rcases hbook.1 p hp with ⟨hhb, hfresh⟩
                exact hfresh (hb1 _ hEp hhb))
            rw [hdesc.1] at this
            exact this
        · -- direct delivery: every CLA tried belongs to the destination node
          have := forwardSend_book env b
            ((senders env (sync d1 n) d1.key).filter (fun p => p.eid.sameNode b.dst), true, d1, sync d1 n) _ h1 E hb1
            (by
              intro p hp hEp
              have hp2 := (List.mem_filter.mp hp).2
              rw [hE.notDst _ hEp] at hp2
              cases hp2)
          constructor
          · intro p ok hmem hns
            rcases forwardSend_outs env b _ _ hmem with ⟨q, ok', hq, hqe⟩
            cases hqe
            have hq2 := (List.mem_filter.mp hq).2
            rw [hns] at hq2
            cases hq2
          · exact this


/-! ## dispatching -/

theorem modItem_bookLe (k : Key) (f : Item → Item) (n : Node) (hf : ∀ it, (f it).rt = it.rt) :
    BookLe (fun _ => False) k n (modItem k f n) := by
  apply bookLe_of_eq
  · unfold sentL
    rw [(modItem_only k f n).env.cfg, modItem_get, modItem_spray]
    cases n.store.get k <;> simp [hf]
  · unfold hasBook
    rw [(modItem_only k f n).env.cfg, modItem_get, modItem_spray]
    cases n.store.get k <;> simp

theorem dispatchingAllowed_bookLe (env : Env) (d : Desc) (n : Node) :
    BookLe (fun _ => False) d.key n (dispatchingAllowed env d n).2 := by
  unfold dispatchingAllowed
  cases n.cfg.algo
  · simp only
    cases n.store.get d.key with
    | none => exact BookLe.refl _ _ _
    | some it =>
      simp only
      split
      · exact BookLe.refl _ _ _
      · split
        · exact BookLe.refl _ _ _
        · split
          · exact modItem_bookLe _ _ _ (fun _ => rfl)
          · exact BookLe.refl _ _ _
  all_goals exact BookLe.refl _ _ _

theorem dispatching_book (env : Env) (d : Desc) (n : Node) (it : Item) (b : Bundle)
    (hg : n.store.get d.key = some it) (hd : d.bndl = some b ∨ (d.bndl = none ∧ it.bundle = b))
    (hrep : replicates n.cfg b = true) (E : Eid → Prop) (hE : MustStay E b n d.key) :
    (∀ p b' ok, Output.sent p b' ok ∈ (dispatching env d n).2 →
      b' = b ∧ (p.eid.sameNode b.dst = false → ¬ E p.eid)) ∧
    (∀ e, E e → Booked (dispatching env d n).1 d.key e) := by
  unfold dispatching
  simp only
  have ha := dispatchingAllowed_rt env d n
  have hab := dispatchingAllowed_bookLe env d n
  rcases ha.item it hg with ⟨ita, ga, ba, _⟩
  have hEa : ∀ e, E e → Booked (dispatchingAllowed env d n).2 d.key e := fun e he => hab e (hE.booked e he) id
  have hcfg : (dispatchingAllowed env d n).2.cfg = n.cfg := ha.only.env.cfg
  split
  · refine ⟨(fun p b' ok h => by cases h), fun e he => ?_⟩
    split
    · exact sync_bookLe { d with cons := { d.cons with ci := true } } _ ita ga e (hEa e he) id
    · exact hEa e he
  · cases hbun : d.bundle (dispatchingAllowed env d n).2 with
    | none => exact ⟨(fun p b' ok h => by cases h), hEa⟩
    | some b1 =>
      simp only
      have hb1 : b1 = b := by
        unfold Desc.bundle at hbun
        rcases hd with h | ⟨h, hib⟩
        · simp [h] at hbun; exact hbun.symm
        · simp only [h, ga] at hbun
          split at hbun
          · cases hbun; rw [ba]; exact hib
          · cases hbun
      subst hb1
      split
      · refine ⟨(fun p b' ok h => by cases h), fun e he => ?_⟩
        unfold localDelivery
        have hne : ({ d.cons with le := true } : Cons).isEmpty = false := by simp [Cons.isEmpty]
        have h1 := sync_update { { d with bndl := some b1 } with cons := { d.cons with le := true } } _ ita ga hne
        have hb1 := sync_bookLe { { d with bndl := some b1 } with cons := { d.cons with le := true } } _ ita ga e (hEa e he) id
        exact sync_bookLe { { { d with bndl := some b1 } with cons := { d.cons with le := true } } with
          cons := ({ d.cons with le := true } : Cons).purge } _ _ h1 e hb1 id
      · have := forward_book env { d with bndl := some b1 } b1 (dispatchingAllowed env d n).2 ita ga
          (by rw [hcfg]; exact hrep) E ⟨hE.notDst, hEa⟩
        refine ⟨fun p b' ok h => ?_, this.2⟩
        rcases forward_outs env { d with bndl := some b1 } b1 _ _ h with ⟨q, b2, ok2, hq, _, _⟩
        -- the outputs of `forward` name the bundle `b1`
        have hb' : b' = b1 := by
          unfold forward at h
          simp only at h
          split at h
          · cases h
          · split at h
            · cases h
            · split at h
              · cases h
              · rcases forwardSend_outs env b1 _ _ h with ⟨_, _, _, hx⟩
                cases hx; rfl
        subst hb'
        exact ⟨rfl, this.1 p ok h⟩


/-! ## The previous-node invariant -/

/-- The previous node of `b`, unless it is the destination's node (then delivery is direct anyway). -/
def PrevE (b : Bundle) : Eid → Prop := fun e => b.prev = some e ∧ e.sameNode b.dst = false

theorem PrevE_like {a b : Bundle} (h : Like a b) : PrevE b = PrevE a := by
  funext e
  unfold PrevE
  rw [h.2.2.1, h.2.2.2]

theorem replicates_like {c : Cfg} {a b : Bundle} (h : Like a b) : replicates c b = replicates c a := by
  unfold replicates
  rw [h.2.2.2]

/-- Every stored bundle's previous node is in its sent list. -/
def PrevInv (c : Cfg) (n : Node) : Prop :=
  ∀ k it, n.store.get k = some it → replicates c it.bundle = true → ∀ e, PrevE it.bundle e → Booked n k e

/-- A transmission that is not a return to the previous node. -/
def NoRet (c : Cfg) (o : Output) : Prop :=
  ∀ p b ok, o = Output.sent p b ok → p.eid.sameNode b.dst = false → replicates c b = true → b.prev ≠ some p.eid

theorem booked_frame {k k' : Key} {n n' : Node} (h : OnlyKey k n n') (hk : k' ≠ k) (e : Eid) :
    Booked n k' e → Booked n' k' e := by
  intro hb hh
  rw [(sentL_frame h hk).1]
  exact hb (by rw [← (sentL_frame h hk).2]; exact hh)

/-- One retry keeps the invariant and does not send a bundle back. -/
theorem dispatch_prev (env : Env) (c : Cfg) (n : Node) (k : Key) (w : WF n) (hc : n.cfg = c) (hp : PrevInv c n) :
    PrevInv c (dispatching env (newDesc n k) n).1 ∧ ∀ o ∈ (dispatching env (newDesc n k) n).2, NoRet c o := by
  have hd := dispatching_only env (newDesc n k) n w (by intro b h; rw [newDesc_bndl] at h; cases h)
  rw [newDesc_key] at hd
  cases hg : n.store.get k with
  | none =>
    -- nothing to retry
    have hnone : dispatching env (newDesc n k) n = ((dispatching env (newDesc n k) n).1, []) ∧
        (dispatching env (newDesc n k) n).1.store.get k = none := by
      unfold dispatching
      simp only
      have ha := dispatchingAllowed_rt env (newDesc n k) n
      rw [newDesc_key] at ha
      have hna := ha.absent hg
      split
      · split
        · refine ⟨rfl, ?_⟩
          unfold bundleContraindicated sync
          simp only [newDesc_key, hna, newDesc_bndl]
        · exact ⟨rfl, hna⟩
      · have : (newDesc n k).bundle (dispatchingAllowed env (newDesc n k) n).2 = none := by
          unfold Desc.bundle
          simp only [newDesc_bndl, newDesc_key, hna]
        simp only [this]
        exact ⟨trivial, hna⟩
    constructor
    · intro k' it' hg' hrep e he
      by_cases hk : k' = k
      · subst hk; rw [hnone.2] at hg'; cases hg'
      · rw [hd.only.other k' hk] at hg'
        exact booked_frame hd.only hk e (hp k' it' hg' hrep e he)
    · intro o ho
      rw [hnone.1] at ho
      cases ho
  | some it =>
    by_cases hrep : replicates c it.bundle = true
    · have hb := dispatching_book env (newDesc n k) n it it.bundle (by rw [newDesc_key]; exact hg)
        (Or.inr ⟨newDesc_bndl n k, rfl⟩) (by rw [hc]; exact hrep) (PrevE it.bundle)
        ⟨fun e he => he.2, fun e he => by rw [newDesc_key]; exact hp k it hg hrep e he⟩
      rw [newDesc_key] at hb
      have hlike := dispatching_bstep env (newDesc n k) it.bundle n
        (Or.inr ⟨newDesc_bndl n k, it, by rw [newDesc_key]; exact hg, rfl⟩)
        (by rw [newDesc_key]; exact w.keyed _ _ hg)
      rw [newDesc_key] at hlike
      constructor
      · intro k' it' hg' hrep' e he
        by_cases hk : k' = k
        · subst hk
          have hl : Like it.bundle it'.bundle := by
            rcases hlike.bundle it' hg' with ⟨it0, g0, l0⟩ | l0
            · rw [hg] at g0; cases g0; exact l0
            · exact l0
          rw [PrevE_like hl] at he
          exact hb.2 e he
        · rw [hd.only.other k' hk] at hg'
          exact booked_frame hd.only hk e (hp k' it' hg' hrep' e he)
      · intro o ho p b ok ho' hns hrepb hprev
        subst ho'
        rcases hb.1 p b ok ho with ⟨hbb, hne⟩
        subst hbb
        exact hne hns ⟨hprev, hns⟩
    · -- a bundle the replication clause does not speak about (DTLSR unicast)
      have hlike := dispatching_bstep env (newDesc n k) it.bundle n
        (Or.inr ⟨newDesc_bndl n k, it, by rw [newDesc_key]; exact hg, rfl⟩)
        (by rw [newDesc_key]; exact w.keyed _ _ hg)
      rw [newDesc_key] at hlike
      constructor
      · intro k' it' hg' hrep' e he
        by_cases hk : k' = k
        · subst hk
          have hl : Like it.bundle it'.bundle := by
            rcases hlike.bundle it' hg' with ⟨it0, g0, l0⟩ | l0
            · rw [hg] at g0; cases g0; exact l0
            · exact l0
          rw [replicates_like hl] at hrep'
          exact absurd hrep' hrep
        · rw [hd.only.other k' hk] at hg'
          exact booked_frame hd.only hk e (hp k' it' hg' hrep' e he)
      · intro o ho p b ok ho' hns hrepb hprev
        subst ho'
        have hout := dispatching_outs env (newDesc n k) n it (by rw [newDesc_key]; exact hg) _ ho
        -- the outputs name the stored bundle
        have hbb : b = it.bundle := by
          have := dispatching_names env (newDesc n k) n it (by rw [newDesc_key]; exact hg) _ ho
          simpa [descTag, newDesc_bndl] using this
        rw [hbb] at hrepb
        exact hrep hrepb


theorem dispatchKeys_prev (env : Env) (c : Cfg) : ∀ (ks : List Key) (n : Node), WF n → n.cfg = c → PrevInv c n →
    PrevInv c (dispatchKeys env ks n).1 ∧ ∀ o ∈ (dispatchKeys env ks n).2, NoRet c o
  | [], n, _, _, hp => ⟨hp, fun o ho => by cases ho⟩
  | k :: ks, n, w, hc, hp => by
    simp only [dispatchKeys]
    have hd := dispatching_only env (newDesc n k) n w (by intro b h; rw [newDesc_bndl] at h; cases h)
    rcases dispatch_prev env c n k w hc hp with ⟨hp1, ho1⟩
    rcases dispatchKeys_prev env c ks _ (hd.wf w) (hd.only.env.cfg.trans hc) hp1 with ⟨hp2, ho2⟩
    refine ⟨hp2, fun o ho => ?_⟩
    rcases List.mem_append.mp ho with h | h
    · exact ho1 o h
    · exact ho2 o h

/-! ### a new bundle: `NotifyNewBundle` books the previous node -/

/-- The conditions under which the algorithm records the previous node of a new bundle: spray-and-wait
only for bundles of other nodes, binary spray with a BinarySprayBlock or — since the repair of
`BinarySpray.NotifyNewBundle` — for a bundle of another node without one. (What is excluded: a bundle of
this node that comes back from the network.) -/
def seedsPrev (c : Cfg) (b : Bundle) : Prop :=
  match c.algo with
  | .spray => hasEndpoint c b.src = false
  | .binarySpray => b.bsCopies.isSome = true ∨ hasEndpoint c b.src = false
  | _ => True

theorem notifyNew_booked (k : Key) (b : Bundle) (n : Node) (it : Item) (hg : n.store.get k = some it)
    (hs : seedsPrev n.cfg b) (e : Eid) (he : b.prev = some e) : Booked (notifyNew k b n) k e := by
  intro _
  unfold notifyNew
  unfold seedsPrev at hs
  cases ha : n.cfg.algo with
  | epidemic =>
    simp only
    rw [sentL_modRt_E _ _ _ ha]
    simp only [hg, Option.map_some, Option.getD_some, epiNotify, he]
    split <;> split <;> simp_all
  | spray =>
    simp only [ha] at hs
    simp only [hs, Bool.false_eq_true, if_false]
    simp [sentL, ha, lookupMeta_setMeta_eq, he]
  | binarySpray =>
    simp only [ha] at hs
    cases hbs : b.bsCopies with
    | none =>
      have hsrc : hasEndpoint n.cfg b.src = false := by simpa [hbs] using hs
      simp [sentL, ha, hsrc, lookupMeta_setMeta_eq, he]
    | some cp => simp [sentL, ha, lookupMeta_setMeta_eq, he]
  | prophet =>
    simp only [he]
    rw [sentL_modRt_P _ _ _ ha]
    simp only [hg, Option.map_some, Option.getD_some]
    split <;> simp_all
  | dtlsr =>
    simp only [he]
    rw [sentL_modRt_D _ _ _ ha]
    simp [hg]


/-! ### submit -/

theorem setIdk_bstep (b : Bundle) (k : Key) (n : Node) (x : List ((Eid × Nat) × Nat)) : BStep b k n (n.setIdk x) :=
  ⟨fun it' h => Or.inl ⟨it', h, Like.refl _⟩⟩

theorem dispatching_names' (env : Env) (d : Desc) (b : Bundle) (n : Node) (hd : d.bndl = some b) :
    ∀ o ∈ (dispatching env d n).2, ∃ p ok, o = Output.sent p b ok := by
  intro o ho
  unfold dispatching at ho
  simp only at ho
  split at ho
  · cases ho
  · have hbun : d.bundle (dispatchingAllowed env d n).2 = some b := by simp [Desc.bundle, hd]
    simp only [hbun] at ho
    split at ho
    · cases ho
    · exact forward_names env _ b _ o ho

theorem transmit_bstep (env : Env) (d : Desc) (b : Bundle) (n : Node) (hk : b.key = d.key)
    (hidk : n.cfg.seqFirst = true ∨ (lookupNat n.idk (b.src, b.ts) = none ∧ b.seq = 0)) :
    BStep b d.key n (transmit env d b n).1 ∧ ∀ o ∈ (transmit env d b n).2, ∃ p ok, o = Output.sent p b ok := by
  unfold transmit
  simp only
  rcases seqStep_x' n.cfg.seqFirst b n hidk with ⟨x, hx, _⟩
  rw [hx]
  simp only
  have hb : ∀ b0, ({ d with bndl := some b, cons := { d.cons with dp := true } } : Desc).bndl = some b0 →
      Like b b0 ∧ b0.key = d.key := by
    intro b0 h; cases h; exact ⟨Like.refl _, hk⟩
  have s1 := (setIdk_bstep b d.key n x).trans
    (sync_bstep b { d with bndl := some b, cons := { d.cons with dp := true } } (n.setIdk x) hb)
  split
  · exact ⟨s1.trans (bundleDeletion_bstep b _ _ hb), fun o ho => by cases ho⟩
  · exact ⟨s1.trans (dispatching_bstep env { d with bndl := some b, cons := { d.cons with dp := true } } b _ (Or.inl rfl) hk),
      dispatching_names' env { d with bndl := some b, cons := { d.cons with dp := true } } b _ rfl⟩

theorem sendBundle_bstep (env : Env) (b : Bundle) (n : Node)
    (hidk : lookupNat n.idk (b.src, b.ts) = none ∧ b.seq = 0) (hfresh : n.store.get b.key = none) :
    BStep b b.key n (sendBundle env b n).1 ∧ ∀ o ∈ (sendBundle env b n).2, ∃ p ok, o = Output.sent p b ok := by
  unfold sendBundle
  simp only
  rcases seqStep_x n.cfg.seqFirst b n hidk hfresh with ⟨x, hx, hx0, _⟩
  rw [hx]
  simp only
  unfold newDescFromBundle
  simp only
  have hDk := newDesc_key (n.setIdk x) b.key
  generalize newDesc (n.setIdk x) b.key = D at hDk ⊢
  obtain ⟨Dk, Dr, Dc, Db⟩ := D
  simp only at hDk
  subst hDk
  simp only
  have hbk : ∀ b0, ({ key := b.key, receiver := Dr, cons := Dc, bndl := some b } : Desc).bndl = some b0 →
      Like b b0 ∧ b0.key = b.key := by
    intro b0 h; cases h; exact ⟨Like.refl _, rfl⟩
  have s1 := (setIdk_bstep b b.key n x).trans
    (sync_bstep b { key := b.key, receiver := Dr, cons := Dc, bndl := some b } (n.setIdk x) hbk)
  have k1 := sync_kstep { key := b.key, receiver := Dr, cons := Dc, bndl := some b } (n.setIdk x) (fun b0 h => (hbk b0 h).2)
  have rt2 := notifyNew_rt b.key b (sync { key := b.key, receiver := Dr, cons := Dc, bndl := some b } (n.setIdk x))
  have s2 := s1.trans (rt2.bstep (b := b))
  have hcfg12 : (notifyNew b.key b (sync { key := b.key, receiver := Dr, cons := Dc, bndl := some b } (n.setIdk x))).cfg = n.cfg :=
    rt2.only.env.cfg.trans k1.only.env.cfg
  have hidk12 : (notifyNew b.key b (sync { key := b.key, receiver := Dr, cons := Dc, bndl := some b } (n.setIdk x))).idk = x :=
    rt2.idk.trans k1.idk
  have k3 := transmit_bstep env { key := b.key, receiver := Dr, cons := Dc, bndl := some b } b
    (notifyNew b.key b (sync { key := b.key, receiver := Dr, cons := Dc, bndl := some b } (n.setIdk x))) rfl
    (by
      rw [hcfg12, hidk12]
      cases hsf : n.cfg.seqFirst
      · right; rw [hx0 hsf]; exact hidk
      · left; rfl)
  exact ⟨s2.trans k3.1, k3.2⟩

/-- A submission (new ID, no previous-node block) keeps the invariant and sends nothing back. -/
theorem submit_prev (env : Env) (c : Cfg) (b : Bundle) (n : Node) (w : WF n) (hp : PrevInv c n)
    (hfresh : n.store.get b.key = none)
    (hidk : lookupNat n.idk (b.src, b.ts) = none ∧ b.seq = 0) (hprev : b.prev = none) :
    PrevInv c (sendBundle env b n).1 ∧ ∀ o ∈ (sendBundle env b n).2, NoRet c o := by
  have hstep := sendBundle_kstep env b n w hidk hfresh
  have hb := sendBundle_bstep env b n hidk hfresh
  constructor
  · intro k it' hg' hrep e he
    by_cases hk : k = b.key
    · subst hk
      -- the item holds the submitted bundle, which has no previous node
      rcases hb.1.bundle it' hg' with ⟨it0, g0, l0⟩ | l0
      · rw [hfresh] at g0; cases g0
      · rw [PrevE_like l0] at he
        unfold PrevE at he
        rw [hprev] at he
        exact absurd he.1 (by simp)
    · rw [hstep.other k hk] at hg'
      exact booked_frame hstep.only hk e (hp k it' hg' hrep e he)
  · intro o ho p b' ok hob hns hrep hpr
    rcases hb.2 o ho with ⟨q, ok', hq⟩
    rw [hob] at hq
    cases hq
    rw [hprev] at hpr
    cases hpr


/-! ### receive -/

/-- The three `Sync`s at the beginning of the reception of a bundle the node does not know (no item, or
an item without constraints): afterwards the store holds exactly the received copy. -/
theorem receive_m (b : Bundle) (r : Option Eid) (n : Node) (D : Desc)
    (he : D.cons.isEmpty = true) :
    ∃ itm, (sync { key := b.key, receiver := r, cons := { D.cons with dp := true }, bndl := some b }
      (sync { key := b.key, receiver := r, cons := D.cons, bndl := some b }
        (sync { key := b.key, receiver := D.receiver, cons := D.cons, bndl := some b } n))).store.get b.key = some itm ∧
      itm.bundle = b := by
  have hne : ({ D.cons with dp := true } : Cons).isEmpty = false := by simp [Cons.isEmpty]
  cases hg : n.store.get b.key with
  | none =>
    have hs1 : sync { key := b.key, receiver := D.receiver, cons := D.cons, bndl := some b } n = push b n :=
      sync_push _ _ b hg rfl
    rw [hs1]
    have hg1 := push_get_absent b n hg
    have hg2 := sync_delete { key := b.key, receiver := r, cons := D.cons, bndl := some b } (push b n) _ hg1 he
    have hs3 := sync_push { key := b.key, receiver := r, cons := { D.cons with dp := true }, bndl := some b } _ b hg2 rfl
    rw [hs3]
    exact ⟨_, push_get_absent b _ hg2, rfl⟩
  | some it =>
    have hg1 := sync_delete { key := b.key, receiver := D.receiver, cons := D.cons, bndl := some b } n it hg he
    have hs2 := sync_push { key := b.key, receiver := r, cons := D.cons, bndl := some b } _ b hg1 rfl
    rw [hs2]
    have hg2 := push_get_absent b _ hg1
    have hg3 := sync_update { key := b.key, receiver := r, cons := { D.cons with dp := true }, bndl := some b } _ _ hg2 hne
    exact ⟨_, hg3, rfl⟩

theorem receive_prev (env : Env) (c : Cfg) (b : Bundle) (r : Option Eid) (n : Node) (w : WF n) (hc : n.cfg = c)
    (hp : PrevInv c n) (hs : seedsPrev c b ∨ b.prev = none) :
    PrevInv c (receive env b r n).1 ∧ ∀ o ∈ (receive env b r n).2, NoRet c o := by
  have hstep := receive_kstep env b r n w
  -- everything about other keys
  have hother : ∀ k it' , k ≠ b.key → (receive env b r n).1.store.get k = some it' → replicates c it'.bundle = true →
      ∀ e, PrevE it'.bundle e → Booked (receive env b r n).1 k e := by
    intro k it' hk hg' hrep e he
    rw [hstep.only.other k hk] at hg'
    exact booked_frame hstep.only hk e (hp k it' hg' hrep e he)
  unfold receive at hother ⊢
  simp only at hother ⊢
  unfold newDescFromBundle at hother ⊢
  simp only at hother ⊢
  have hDk := newDesc_key n b.key
  generalize hD : newDesc n b.key = D at hDk hother ⊢
  obtain ⟨Dk, Dr, Dc, Db⟩ := D
  simp only at hDk
  subst hDk
  simp only at hother ⊢
  by_cases hemp : Dc.isEmpty = true
  · -- treated as a new bundle
    simp only [hemp, Bool.not_true, Bool.false_eq_true, if_false] at hother ⊢
    rcases receive_m b r n ⟨b.key, Dr, Dc, Db⟩ hemp with ⟨itm, hgm, hbm⟩
    simp only at hgm
    generalize hm : sync { key := b.key, receiver := r, cons := { Dc with dp := true }, bndl := some b }
      (sync { key := b.key, receiver := r, cons := Dc, bndl := some b }
        (sync { key := b.key, receiver := Dr, cons := Dc, bndl := some b } n)) = m at hgm hother ⊢
    have hmcfg : m.cfg = c := by
      rw [← hm, (sync_env _ _).cfg, (sync_env _ _).cfg, (sync_env _ _).cfg]; exact hc
    by_cases hdel : b.delBlock = true
    · simp only [hdel, if_true] at hother ⊢
      refine ⟨?_, fun o ho => by cases ho⟩
      intro k it' hg' hrep e he
      by_cases hk : k = b.key
      · subst hk
        have hne : ({ Dc with dp := true } : Cons).purge.isEmpty = true := by
          simp [Cons.purge, Cons.isEmpty, Cons.empty]
          have : Dc.le = false := by
            unfold Cons.isEmpty at hemp
            cases h : Dc.le <;> simp_all
          exact this
        have := sync_delete { key := b.key, receiver := r, cons := ({ Dc with dp := true } : Cons).purge, bndl := some b }
          m itm hgm hne
        unfold bundleDeletion at hg'
        rw [this] at hg'
        cases hg'
      · exact hother k it' hk hg' hrep e he
    · simp only [hdel, Bool.false_eq_true, if_false] at hother ⊢
      have hnn := notifyNew_rt b.key b m
      rcases hnn.item itm hgm with ⟨it4, g4, b4, _⟩
      have hcfg4 : (notifyNew b.key b m).cfg = c := hnn.only.env.cfg.trans hmcfg
      by_cases hrep : replicates c b = true
      · have hE : MustStay (PrevE b) b (notifyNew b.key b m) b.key := by
          refine ⟨fun e he => he.2, fun e he => ?_⟩
          rcases hs with hs | hs
          · exact notifyNew_booked b.key b m itm hgm (by rw [hmcfg]; exact hs) e he.1
          · unfold PrevE at he; rw [hs] at he; exact absurd he.1 (by simp)
        have hb := dispatching_book env { key := b.key, receiver := r, cons := { Dc with dp := true }, bndl := some b }
          (notifyNew b.key b m) it4 b g4 (Or.inl rfl) (by rw [hcfg4]; exact hrep) (PrevE b) hE
        have hlike := dispatching_bstep env { key := b.key, receiver := r, cons := { Dc with dp := true }, bndl := some b }
          b (notifyNew b.key b m) (Or.inl rfl) rfl
        constructor
        · intro k it' hg' hrep' e he
          by_cases hk : k = b.key
          · subst hk
            have hl : Like b it'.bundle := by
              rcases hlike.bundle it' hg' with ⟨it0, g0, l0⟩ | l0
              · rw [g4] at g0; cases g0; rw [b4, hbm] at l0; exact l0
              · exact l0
            rw [PrevE_like hl] at he
            exact hb.2 e he
          · exact hother k it' hk hg' hrep' e he
        · intro o ho p b' ok hob hns hrepb hprev
          subst hob
          rcases hb.1 p b' ok ho with ⟨hbb, hne⟩
          subst hbb
          exact hne hns ⟨hprev, hns⟩
      · have hlike := dispatching_bstep env { key := b.key, receiver := r, cons := { Dc with dp := true }, bndl := some b }
          b (notifyNew b.key b m) (Or.inl rfl) rfl
        constructor
        · intro k it' hg' hrep' e he
          by_cases hk : k = b.key
          · subst hk
            have hl : Like b it'.bundle := by
              rcases hlike.bundle it' hg' with ⟨it0, g0, l0⟩ | l0
              · rw [g4] at g0; cases g0; rw [b4, hbm] at l0; exact l0
              · exact l0
            rw [replicates_like hl] at hrep'
            exact absurd hrep' hrep
          · exact hother k it' hk hg' hrep' e he
        · intro o ho p b' ok hob hns hrepb hprev
          subst hob
          rcases dispatching_names' env { key := b.key, receiver := r, cons := { Dc with dp := true }, bndl := some b }
            b _ rfl _ ho with ⟨q, ok', hq⟩
          cases hq
          exact hrep hrepb
  · -- known bundle: the descriptor is synchronized twice and the reception ends
    have hemp' : Dc.isEmpty = false := by cases h : Dc.isEmpty <;> simp_all
    simp only [hemp', Bool.not_false, if_true] at hother ⊢
    refine ⟨?_, fun o ho => by cases ho⟩
    intro k it' hg' hrep e he
    by_cases hk : k = b.key
    · subst hk
      -- the item existed (its constraints were read from it)
      cases hg : n.store.get b.key with
      | none =>
        have : Dc = Cons.empty := by
          have := hD
          unfold newDesc at this
          simp only [hg] at this
          cases this; rfl
        rw [this] at hemp'
        cases hemp'
      | some it =>
        have h1 := sync_update { key := b.key, receiver := Dr, cons := Dc, bndl := some b } n it hg hemp'
        have h2 := sync_update { key := b.key, receiver := r, cons := Dc, bndl := some b } _ _ h1 hemp'
        rw [h2] at hg'
        cases hg'
        have hb1 := sync_bookLe { key := b.key, receiver := Dr, cons := Dc, bndl := some b } n it hg e
          (hp b.key it hg hrep e he) id
        exact sync_bookLe { key := b.key, receiver := r, cons := Dc, bndl := some b } _ _ h1 e hb1 id
    · exact hother k it' hk hg' hrep e he


/-! ## Every history: never back to the previous node -/

/-- The histories of `Domain` in which, in addition, applications do not attach previous-node blocks,
peers deliver bundles of other nodes and — under binary spray — relayed bundles that carry a previous
node also carry the BinarySprayBlock (the class excluded by the last clause is the known finding). -/
structure Domain13 (c : Cfg) (h : List Event) : Prop where
  dom : Domain h
  subPrev : ∀ b ∈ submitted h, b.prev = none
  recvSeeds : ∀ b ∈ received h, seedsPrev c b ∨ b.prev = none

theorem noRet_returnFail (c : Cfg) (e : Event) (outs : List Output) (v : View) (h : ∀ o ∈ outs, NoRet c o) :
    returnFail c ⟨e, outs, v⟩ = none := by
  unfold returnFail
  apply List.findSome?_eq_none_iff.mpr
  intro pbk hpbk
  unfold chosen at hpbk
  rcases List.mem_filterMap.mp hpbk with ⟨o, ho, hf⟩
  cases o with
  | deleted k => simp at hf
  | sent p b ok =>
    simp only at hf
    split at hf
    · cases hf
    · rename_i hcond
      cases hf
      simp only [Bool.or_eq_true, Bool.not_eq_true', not_or, Bool.not_eq_true, Bool.not_eq_false] at hcond
      have := h _ ho p b ok rfl hcond.1 hcond.2
      simp only
      split
      · rename_i heq
        exact absurd (by simpa using heq) this
      · rfl

theorem prevInv_storeSame (c : Cfg) (n m : Node) (hp : PrevInv c n) (hs : m.store = n.store) (hc : m.cfg = n.cfg)
    (hsp : m.spray = n.spray ∨ m.spray = []) : PrevInv c m := by
  intro k it hg hrep e he
  rw [hs] at hg
  have hb := hp k it hg hrep e he
  rcases hsp with hsp | hsp
  · have h1 : sentL m k = sentL n k := by unfold sentL; rw [hc, hs, hsp]
    have h2 : hasBook m k = hasBook n k := by unfold hasBook; rw [hc, hs, hsp]
    intro hh
    rw [h1]
    exact hb (by rw [← h2]; exact hh)
  · intro hh
    unfold hasBook at hh
    rw [hc, hs, hsp] at hh
    unfold Booked hasBook at hb
    unfold sentL at hb ⊢
    rw [hc, hs, hsp]
    cases ha : n.cfg.algo <;> simp only [ha, lookupMeta] at hh hb ⊢
    · exact hb hh
    · cases hh
    · cases hh
    · exact hb hh
    · exact hb hh

theorem prev_step (c : Cfg) (env : Env) (past fut : List Event) (e : Event)
    (hdom : Domain13 c (past ++ e :: fut)) (s : SpecSt) (n : Node) (inv : RInv c past s n) (hp : PrevInv c n) :
    returnFail c (obsOf (e, (step env n e).2, (step env n e).1)) = none ∧ PrevInv c (step env n e).1 := by
  -- it is enough to look at the core of the step
  suffices h : PrevInv c (stepCore env n e).1 ∧ ∀ o ∈ (stepCore env n e).2, NoRet c o by
    constructor
    · apply noRet_returnFail
      intro o ho
      rcases List.mem_append.mp ho with h1 | h1
      · exact h.2 o h1
      · unfold deletedKeys at h1
        rcases List.mem_map.mp h1 with ⟨kv, _, hk⟩
        intro p b ok hob
        rw [← hk] at hob
        cases hob
    · exact prevInv_storeSame c _ _ h.1 rfl rfl (Or.inl rfl)
  cases e with
  | submit b =>
    have hf := submit_fresh c past fut b hdom.dom s n inv
    have hb : b ∈ submitted (past ++ .submit b :: fut) := by
      rw [submitted_append]; exact List.mem_append_right _ List.mem_cons_self
    exact submit_prev env c b n inv.wf hp hf.1 hf.2 (hdom.subPrev b hb)
  | receive b r =>
    have hb : b ∈ received (past ++ .receive b r :: fut) := by
      rw [received_append]; exact List.mem_append_right _ List.mem_cons_self
    exact receive_prev env c b r n inv.wf inv.cfg hp (hdom.recvSeeds b hb)
  | peerUp p =>
    simp only [stepCore]
    split
    · exact dispatchKeys_prev env c _ n inv.wf inv.cfg hp
    · exact dispatchKeys_prev env c _ _ ⟨inv.wf.keyed, inv.wf.nodup⟩ inv.cfg
        (prevInv_storeSame c n _ hp rfl rfl (Or.inl rfl))
  | peerDown a =>
    exact ⟨prevInv_storeSame c n _ hp rfl rfl (Or.inl rfl), fun o ho => by cases ho⟩
  | retryTick => exact dispatchKeys_prev env c _ n inv.wf inv.cfg hp
  | restart =>
    exact ⟨prevInv_storeSame c n _ hp rfl rfl (Or.inr rfl), fun o ho => by cases ho⟩
  | cleanTick t =>
    refine ⟨?_, fun o ho => by cases ho⟩
    intro k it hg hrep e he hh
    have hget : ∀ k, (stepCore env n (.cleanTick t)).1.store.get k =
        if k ∈ expiredKeys n.store t then none else n.store.get k := by
      intro k
      simp only [stepCore, deleteExpired]
      exact Store.get_foldl_erase _ _ _
    rw [hget] at hg
    split at hg
    · cases hg
    · rename_i hk
      have hb := hp k it hg hrep e he
      unfold Booked hasBook sentL at hb
      unfold hasBook at hh
      unfold sentL
      have hcfg : (stepCore env n (.cleanTick t)).1.cfg = n.cfg := rfl
      have hsp : (stepCore env n (.cleanTick t)).1.spray = n.spray := rfl
      rw [hcfg, hsp, hget] at *
      simp only [hk, if_false] at hh ⊢
      exact hb hh

theorem prev_run (c : Cfg) (env : Env) :
    ∀ (fut past : List Event) (s : SpecSt) (n : Node) (i : Nat), Domain13 c (past ++ fut) → RInv c past s n →
    PrevInv c n → firstFail (fun c _ o => returnFail c o) c s i ((trace env n fut).map obsOf) = none
  | [], _, _, _, _, _, _, _ => rfl
  | e :: fut, past, s, n, i, hdom, inv, hp => by
    simp only [trace, List.map_cons, firstFail]
    have h2 := rinv_step c env past fut e hdom.dom s n inv
    rcases prev_step c env past fut e hdom s n inv hp with ⟨h3, h4⟩
    rw [h3]
    simp only
    exact prev_run c env fut (past ++ [e]) _ _ (i + 1) (by simpa using hdom) h2 h4

theorem prevInv_init (c : Cfg) (now : Nat) : PrevInv c (init c now) := by
  intro k it h
  simp [init, Store.get] at h


/-! ## One `forward`: a peer whose transmission succeeded is booked afterwards -/

theorem muleFilter_bookLe' (d : Desc) : ∀ (ps : List Peer) (n : Node),
    BookLe (fun e => ∃ q ∈ ps, muleDrops n.cfg d q = true ∧ q.eid = e) d.key n (muleFilter d ps n).2
  | [], n => fun _ h _ => h
  | p :: ps, n => by
    have ih := muleFilter_bookLe' d ps n
    simp only [muleFilter]
    by_cases h : muleDrops n.cfg d p = true
    · simp only [h, if_true]
      refine (ih.trans (reportFailure_bookLe d p _)).mono ?_
      intro e he
      rcases he with ⟨q, hq, hqd, hqe⟩ | he
      · exact ⟨q, List.mem_cons_of_mem _ hq, hqd, hqe⟩
      · exact ⟨p, List.mem_cons_self, h, he.symm⟩
    · simp only [h, Bool.false_eq_true, if_false]
      exact ih.mono (fun e ⟨q, hq, hqd, hqe⟩ => ⟨q, List.mem_cons_of_mem _ hq, hqd, hqe⟩)

/-- Each sender is tried once: one output per peer. -/
theorem sendAll_unique (env : Env) (d : Desc) (b : Bundle) : ∀ (ps : List Peer) (n : Node), ps.Nodup →
    ∀ p ok1 ok2, Output.sent p b ok1 ∈ (sendAll env d b ps n).2.1 → Output.sent p b ok2 ∈ (sendAll env d b ps n).2.1 →
    ok1 = ok2
  | [], n, _, p, ok1, ok2, h1, _ => by simp [sendAll] at h1
  | q :: ps, n, hn, p, ok1, ok2, h1, h2 => by
    simp only [sendAll] at h1 h2
    rcases List.nodup_cons.mp hn with ⟨hq, hps⟩
    rcases List.mem_cons.mp h1 with h1 | h1 <;> rcases List.mem_cons.mp h2 with h2 | h2
    · cases h1; cases h2; rfl
    · cases h1
      rcases sendAll_outs env d b ps _ _ h2 with ⟨x, _, hx, hxe⟩
      cases hxe
      exact absurd hx hq
    · cases h2
      rcases sendAll_outs env d b ps _ _ h1 with ⟨x, _, hx, hxe⟩
      cases hxe
      exact absurd hx hq
    · exact sendAll_unique env d b ps _ hps p ok1 ok2 h1 h2

theorem nodup_of_map_nodup {l : List Peer} (h : (l.map (·.eid)).Nodup) : l.Nodup := by
  induction l with
  | nil => simp
  | cons x xs ih =>
    simp only [List.map_cons, List.nodup_cons] at h ⊢
    exact ⟨fun hm => h.1 (List.mem_map.mpr ⟨x, hm, rfl⟩), ih h.2⟩

theorem eid_inj_of_nodup {l : List Peer} (h : (l.map (·.eid)).Nodup) {p q : Peer} (hp : p ∈ l) (hq : q ∈ l)
    (he : p.eid = q.eid) : p = q := by
  induction l with
  | nil => cases hp
  | cons x xs ih =>
    simp only [List.map_cons, List.nodup_cons] at h
    rcases List.mem_cons.mp hp with hp1 | hp1 <;> rcases List.mem_cons.mp hq with hq1 | hq1
    · rw [hp1, hq1]
    · rw [hp1] at he
      exact absurd (List.mem_map.mpr (⟨q, hq1, he.symm⟩ : ∃ a, a ∈ xs ∧ a.eid = x.eid)) h.1
    · rw [hq1] at he
      exact absurd (List.mem_map.mpr (⟨p, hp1, he⟩ : ∃ a, a ∈ xs ∧ a.eid = x.eid)) h.1
    · exact ih h.2 hp1 hq1

theorem forward_ok_booked (env : Env) (d : Desc) (b : Bundle) (n : Node) (it : Item)
    (hg : n.store.get d.key = some it) (hrep : replicates n.cfg b = true) :
    ∀ p, Output.sent p b true ∈ (forward env d b n).2 → p.eid.sameNode b.dst = false →
      Booked (forward env d b n).1 d.key p.eid := by
  intro p hmem hns
  unfold forward at hmem ⊢
  simp only at hmem ⊢
  generalize hd1 : ({ d with cons := { d.cons with fp := true, dp := false } } : Desc) = d1 at hmem ⊢
  have hk1 : d1.key = d.key := by rw [← hd1]
  have hne : d1.cons.isEmpty = false := by rw [← hd1]; simp [Cons.isEmpty]
  rw [← hk1] at hg ⊢
  have h1 := sync_update d1 n it hg hne
  have hcfg1 : (sync d1 n).cfg = n.cfg := (sync_env d1 n).cfg
  split at hmem
  · cases hmem
  · split at hmem
    · cases hmem
    · split at hmem
      · cases hmem
      · rename_i h_1 h_2 h_3
        simp only [h_1, h_2, h_3, Bool.false_eq_true, if_false]
        unfold selectSenders at hmem ⊢
        simp only at hmem ⊢
        split at hmem
        · rename_i hdirect
          simp only [hdirect, if_true]
          have hdesc := sendersFor_desc env d1 b (sync d1 n)
          have hrt := sendersFor_rt env d1 b (sync d1 n)
          rcases hrt.item _ h1 with ⟨it3, g3, _⟩
          -- p was picked by the algorithm and kept by the mule filter
          rcases forwardSend_outs env b _ _ hmem with ⟨q, ok', hq, hqe⟩
          cases hqe
          have hrep1 : replicates (sync d1 n).cfg b = true := by rw [hcfg1]; exact hrep
          have hsub : ∀ x ∈ (sendersFor env d1 b (sync d1 n)).1, x ∈ (innerSenders env d1 b (sync d1 n)).1 := by
            intro x hx
            unfold sendersFor at hx
            simp only at hx
            split at hx
            · exact muleFilter_fst_sub _ _ _ x hx
            · exact hx
          have hpin := hsub p hq
          have hnd := innerSenders_nodup env d1 b (sync d1 n)
          -- booked right after the choice
          have hb0 : Booked (innerSenders env d1 b (sync d1 n)).2.2.2 d1.key p.eid := by
            intro _
            rw [(innerSenders_spec env d1 b (sync d1 n) hrep1).2]
            exact List.mem_append_right _ (List.mem_map.mpr ⟨p, hpin, rfl⟩)
          -- still booked after the mule filter
          have hb1 : Booked (sendersFor env d1 b (sync d1 n)).2.2.2 d1.key p.eid := by
            unfold sendersFor at hq ⊢
            simp only at hq ⊢
            split at hq
            · rename_i hmule
              simp only [hmule, if_true]
              have hk := (innerSenders_desc env d1 b (sync d1 n)).1
              have hml := muleFilter_bookLe' (innerSenders env d1 b (sync d1 n)).2.2.1 (innerSenders env d1 b (sync d1 n)).1
                (innerSenders env d1 b (sync d1 n)).2.2.2
              rw [hk] at hml
              apply hml _ hb0
              intro ⟨x, hx, hxd, hxe⟩
              have hxp : x = p := eid_inj_of_nodup hnd hx hpin hxe
              subst hxp
              have := (muleFilter_sound (innerSenders env d1 b (sync d1 n)).2.2.1 (innerSenders env d1 b (sync d1 n)).1
                (innerSenders env d1 b (sync d1 n)).2.2.2).1
              rw [this] at hq
              have := (List.mem_filter.mp hq).2
              rw [hxd] at this
              cases this
            · rename_i hmule
              simp only [hmule, Bool.false_eq_true, if_false]
              exact hb0
          -- the transmissions: only failed peers are removed, and p did not fail
          unfold forwardSend at hmem ⊢
          simp only at hmem ⊢
          have hs := sendAll_bookLe env (sendersFor env d1 b (sync d1 n)).2.2.1 b (sendersFor env d1 b (sync d1 n)).1
            (sendersFor env d1 b (sync d1 n)).2.2.2
          have hsrt := sendAll_rt env (sendersFor env d1 b (sync d1 n)).2.2.1 b (sendersFor env d1 b (sync d1 n)).1
            (sendersFor env d1 b (sync d1 n)).2.2.2
          rw [hdesc.1] at hs hsrt
          rcases hsrt.item it3 g3 with ⟨it4, g4, _⟩
          have hnd2 : (sendersFor env d1 b (sync d1 n)).1.Nodup := by
            have : ((sendersFor env d1 b (sync d1 n)).1.map (·.eid)).Nodup := by
              unfold sendersFor
              simp only
              split
              · rw [(muleFilter_sound _ _ _).1]
                exact (hnd.sublist (List.Sublist.map _ List.filter_sublist))
              · exact hnd
            exact nodup_of_map_nodup this
          have hmem' : Output.sent p b true ∈ (sendAll env (sendersFor env d1 b (sync d1 n)).2.2.1 b
              (sendersFor env d1 b (sync d1 n)).1 (sendersFor env d1 b (sync d1 n)).2.2.2).2.1 := by
            split at hmem <;> exact hmem
          have hb2 : Booked (sendAll env (sendersFor env d1 b (sync d1 n)).2.2.1 b
              (sendersFor env d1 b (sync d1 n)).1 (sendersFor env d1 b (sync d1 n)).2.2.2).1 d1.key p.eid := by
            apply hs _ hb1
            intro ⟨x, hx, hxf, hxe⟩
            have hxp : x = p := eid_inj_of_nodup hnd (hsub x hx) hpin hxe
            subst hxp
            have := sendAll_unique env _ b _ _ hnd2 x true false hmem' hxf
            cases this
          split
          · have := sync_bookLe { (sendersFor env d1 b (sync d1 n)).2.2.1 with
              cons := (sendersFor env d1 b (sync d1 n)).2.2.1.cons.purge } _ it4 (by rw [hdesc.1]; exact g4) p.eid
              (by rw [hdesc.1]; exact hb2) id
            rw [hdesc.1] at this
            exact this
          · have := sync_bookLe { (sendersFor env d1 b (sync d1 n)).2.2.1 with
              cons := { (sendersFor env d1 b (sync d1 n)).2.2.1.cons with ci := true } } _ it4 (by rw [hdesc.1]; exact g4) p.eid
              (by rw [hdesc.1]; exact hb2) id
            rw [hdesc.1] at this
            exact this
        · -- direct delivery: p belongs to the destination node
          rcases forwardSend_outs env b _ _ hmem with ⟨q, ok', hq, hqe⟩
          cases hqe
          have hq2 := (List.mem_filter.mp hq).2
          rw [hns] at hq2
          cases hq2

end Dtn7.Node
