/-
C13 along every history: the sent-list bookkeeping invariant (previous node and successful transmissions
stay booked; chosen peers are never booked ones).
-/
import Dtn7.Lemmas.NodeC13

namespace Dtn7.Node

/-! ## Provenance: which bundle an item holds -/

/-- `b'` is `b` as far as routing identity goes (tag, ID, previous node, destination); `forward` may
rewrite the spray block of the in-memory copy. -/
def Like (b b' : Bundle) : Prop := b'.tag = b.tag ∧ b'.key = b.key ∧ b'.prev = b.prev ∧ b'.dst = b.dst

theorem Like.refl (b : Bundle) : Like b b := ⟨rfl, rfl, rfl, rfl⟩
theorem Like.trans {a b c : Bundle} (h1 : Like a b) (h2 : Like b c) : Like a c :=
  ⟨h2.1.trans h1.1, h2.2.1.trans h1.2.1, h2.2.2.1.trans h1.2.2.1, h2.2.2.2.trans h1.2.2.2⟩

/-- The item under `k` afterwards holds (a bundle like) the one it held before, or (one like) the bundle
`b` that the step may push. -/
structure BStep (b : Bundle) (k : Key) (n n' : Node) : Prop where
  bundle : ∀ it', n'.store.get k = some it' →
    (∃ it, n.store.get k = some it ∧ Like it.bundle it'.bundle) ∨ Like b it'.bundle

theorem BStep.refl (b : Bundle) (k : Key) (n : Node) : BStep b k n n :=
  ⟨fun it' h => Or.inl ⟨it', h, Like.refl _⟩⟩

theorem BStep.trans {b : Bundle} {k : Key} {x y z : Node} (h1 : BStep b k x y) (h2 : BStep b k y z) :
    BStep b k x z := by
  refine ⟨fun it' h => ?_⟩
  rcases h2.bundle it' h with ⟨it1, g1, l1⟩ | hp
  · rcases h1.bundle it1 g1 with ⟨it0, g0, l0⟩ | hp0
    · exact Or.inl ⟨it0, g0, l0.trans l1⟩
    · exact Or.inr (hp0.trans l1)
  · exact Or.inr hp

theorem RtStep.bstep {b : Bundle} {k : Key} {n n' : Node} (h : RtStep k n n') : BStep b k n n' := by
  refine ⟨fun it' hg => ?_⟩
  cases h0 : n.store.get k with
  | none => rw [h.absent h0] at hg; cases hg
  | some it0 =>
    rcases h.item it0 h0 with ⟨it1, g1, b1, _⟩
    rw [hg] at g1
    cases g1
    exact Or.inl ⟨it0, rfl, by rw [b1]; exact Like.refl _⟩

theorem sync_bstep (b : Bundle) (d : Desc) (n : Node) (hb : ∀ b0, d.bndl = some b0 → Like b b0 ∧ b0.key = d.key) :
    BStep b d.key n (sync d n) := by
  refine ⟨fun it' hg => ?_⟩
  unfold sync at hg
  cases h : n.store.get d.key with
  | none =>
    simp only [h] at hg
    cases hd : d.bndl with
    | none => simp only [hd] at hg; rw [h] at hg; cases hg
    | some b0 =>
      simp only [hd] at hg
      have hk := (hb b0 hd).2
      have hab : n.store.get b0.key = none := by rw [hk]; exact h
      rw [← hk, push_get_absent b0 n hab] at hg
      cases hg
      exact Or.inr (hb b0 hd).1
  | some it =>
    simp only [h] at hg
    split at hg
    · simp only [Store.get_erase_eq] at hg; cases hg
    · simp only [Node.setItem, Store.get_set_eq] at hg
      cases hg
      exact Or.inl ⟨it, rfl, Like.refl _⟩

theorem bundleDeletion_bstep (b : Bundle) (d : Desc) (n : Node) (hb : ∀ b0, d.bndl = some b0 → Like b b0 ∧ b0.key = d.key) :
    BStep b d.key n (bundleDeletion d n) :=
  sync_bstep b { d with cons := d.cons.purge } n hb

theorem bundleContraindicated_bstep (b : Bundle) (d : Desc) (n : Node)
    (hb : ∀ b0, d.bndl = some b0 → Like b b0 ∧ b0.key = d.key) : BStep b d.key n (bundleContraindicated d n) :=
  sync_bstep b { d with cons := { d.cons with ci := true } } n hb

theorem localDelivery_bstep (b : Bundle) (d : Desc) (n : Node) (hb : ∀ b0, d.bndl = some b0 → Like b b0 ∧ b0.key = d.key) :
    BStep b d.key n (localDelivery d n) := by
  unfold localDelivery
  exact (sync_bstep b { d with cons := { d.cons with le := true } } n hb).trans
    (sync_bstep b { d with cons := ({ d.cons with le := true } : Cons).purge } _ hb)

theorem forwardSend_bstep (env : Env) (b : Bundle) (r : List Peer × Bool × Desc × Node)
    (hb : ∀ b0, r.2.2.1.bndl = some b0 → Like b b0 ∧ b0.key = r.2.2.1.key) :
    BStep b r.2.2.1.key r.2.2.2 (forwardSend env b r).1 := by
  unfold forwardSend
  simp only
  have hs : BStep b r.2.2.1.key r.2.2.2 (sendAll env r.2.2.1 b r.1 r.2.2.2).1 := (sendAll_rt env r.2.2.1 b r.1 r.2.2.2).bstep
  split
  · exact hs.trans (sync_bstep b { r.2.2.1 with cons := r.2.2.1.cons.purge } _ hb)
  · exact hs.trans (bundleContraindicated_bstep b r.2.2.1 _ hb)

theorem forward_bstep (env : Env) (d : Desc) (b : Bundle) (n : Node) (hd : d.bndl = some b) (hk : b.key = d.key) :
    BStep b d.key n (forward env d b n).1 := by
  unfold forward
  simp only
  have hb1 : ∀ b0, ({ d with cons := { d.cons with fp := true, dp := false } } : Desc).bndl = some b0 →
      Like b b0 ∧ b0.key = d.key := by
    intro b0 h
    rw [hd] at h
    cases h
    exact ⟨Like.refl _, hk⟩
  have h1 := sync_bstep b { d with cons := { d.cons with fp := true, dp := false } } n hb1
  split
  · exact h1.trans (bundleDeletion_bstep b _ _ hb1)
  · split
    · exact h1.trans (bundleDeletion_bstep b _ _ hb1)
    · split
      · exact h1.trans (bundleDeletion_bstep b _ _ hb1)
      · refine h1.trans ?_
        have hsel := selectSenders_rt env { d with cons := { d.cons with fp := true, dp := false } } b
          (sync { d with cons := { d.cons with fp := true, dp := false } } n)
        have hdesc := selectSenders_desc env { d with cons := { d.cons with fp := true, dp := false } } b
          (sync { d with cons := { d.cons with fp := true, dp := false } } n)
        refine (hsel.bstep (b := b)).trans ?_
        have := forwardSend_bstep env b (selectSenders env { d with cons := { d.cons with fp := true, dp := false } } b
          (sync { d with cons := { d.cons with fp := true, dp := false } } n)) ?_
        · rw [hdesc.1] at this
          exact this
        · intro b0 hb0
          rw [hdesc.1]
          rcases selectSenders_bndl env { d with cons := { d.cons with fp := true, dp := false } } b
            (sync { d with cons := { d.cons with fp := true, dp := false } } n) with h | ⟨c, h⟩
          · rw [h] at hb0
            exact hb1 b0 hb0
          · rw [h] at hb0
            cases hb0
            exact ⟨⟨rfl, rfl, rfl, rfl⟩, hk⟩


theorem dispatching_bstep (env : Env) (d : Desc) (b : Bundle) (n : Node)
    (hd : d.bndl = some b ∨ (d.bndl = none ∧ ∃ it, n.store.get d.key = some it ∧ it.bundle = b))
    (hk : b.key = d.key) : BStep b d.key n (dispatching env d n).1 := by
  unfold dispatching
  simp only
  have ha := dispatchingAllowed_rt env d n
  have hbd : ∀ b0, d.bndl = some b0 → Like b b0 ∧ b0.key = d.key := by
    intro b0 h0
    rcases hd with h | ⟨h, _⟩
    · rw [h] at h0; cases h0; exact ⟨Like.refl _, hk⟩
    · rw [h] at h0; cases h0
  split
  · split
    · exact (ha.bstep (b := b)).trans (bundleContraindicated_bstep b d _ hbd)
    · exact ha.bstep
  · refine (ha.bstep (b := b)).trans ?_
    cases hbun : d.bundle (dispatchingAllowed env d n).2 with
    | none => exact BStep.refl _ _ _
    | some b1 =>
      simp only
      have hb1 : b1 = b := by
        unfold Desc.bundle at hbun
        rcases hd with h | ⟨h, it, hg, hib⟩
        · simp [h] at hbun; exact hbun.symm
        · simp only [h] at hbun
          rcases ha.item it hg with ⟨ita, ga, ba, _⟩
          simp only [ga] at hbun
          split at hbun
          · cases hbun; rw [ba]; exact hib
          · cases hbun
      subst hb1
      split
      · exact localDelivery_bstep b1 { d with bndl := some b1 } _ (by intro b0 h; cases h; exact ⟨Like.refl _, hk⟩)
      · exact forward_bstep env { d with bndl := some b1 } b1 _ rfl hk

/-- The bundle the item of `k` holds after `checkPendingBundles` is like the one it held before. -/
theorem dispatchKeys_like (env : Env) (k : Key) : ∀ (ks : List Key) (n : Node), WF n →
    ∀ it', (dispatchKeys env ks n).1.store.get k = some it' → ∃ it, n.store.get k = some it ∧ Like it.bundle it'.bundle
  | [], n, _, it', h => ⟨it', h, Like.refl _⟩
  | k₁ :: ks, n, w, it', h => by
    simp only [dispatchKeys] at h
    have hd := dispatching_only env (newDesc n k₁) n w (by intro b hb; rw [newDesc_bndl] at hb; cases hb)
    rw [newDesc_key] at hd
    rcases dispatchKeys_like env k ks _ (hd.wf w) it' h with ⟨it1, g1, l1⟩
    by_cases hk : k₁ = k
    · subst hk
      cases hg : n.store.get k₁ with
      | none =>
        -- nothing is created by a retry
        exfalso
        -- the descriptor has no bundle and the store no item: dispatching cannot push
        have : (dispatching env (newDesc n k₁) n).1.store.get k₁ = none := by
          unfold dispatching
          simp only
          have ha := dispatchingAllowed_rt env (newDesc n k₁) n
          rw [newDesc_key] at ha
          have hna := ha.absent hg
          split
          · split
            · unfold bundleContraindicated sync
              simp only [newDesc_key, hna, newDesc_bndl]
            · exact hna
          · have : (newDesc n k₁).bundle (dispatchingAllowed env (newDesc n k₁) n).2 = none := by
              unfold Desc.bundle
              simp only [newDesc_bndl, newDesc_key, hna]
            simp only [this]
            exact hna
        rw [this] at g1
        cases g1
      | some it0 =>
        have hb := dispatching_bstep env (newDesc n k₁) it0.bundle n
          (Or.inr ⟨newDesc_bndl n k₁, it0, by rw [newDesc_key]; exact hg, rfl⟩)
          (by rw [newDesc_key]; exact w.keyed _ _ hg)
        rw [newDesc_key] at hb
        rcases hb.bundle it1 g1 with ⟨it2, g2, l2⟩ | l2
        · rw [hg] at g2; cases g2
          exact ⟨it0, rfl, l2.trans l1⟩
        · exact ⟨it0, rfl, l2.trans l1⟩
    · rw [hd.only.other k (fun e => hk e.symm)] at g1
      exact ⟨it1, g1, l1⟩


/-! ## Booked endpoint IDs -/

/-- Does the algorithm keep a sent list for this key right now? (store-kept lists: the item exists;
spray variants: the in-memory bookkeeping exists) -/
def hasBook (n : Node) (k : Key) : Bool :=
  match n.cfg.algo with
  | .spray => (lookupMeta n.spray k).isSome
  | .binarySpray => (lookupMeta n.spray k).isSome
  | _ => (n.store.get k).isSome

/-- `e` is in the bundle's sent list (if there is one). -/
def Booked (n : Node) (k : Key) (e : Eid) : Prop := hasBook n k = true → e ∈ sentL n k

/-- Everything booked stays booked, except the endpoint IDs in `X`. -/
def BookLe (X : Eid → Prop) (k : Key) (n n' : Node) : Prop :=
  ∀ e, Booked n k e → ¬ X e → Booked n' k e

theorem BookLe.refl (X : Eid → Prop) (k : Key) (n : Node) : BookLe X k n n := fun _ h _ => h

theorem BookLe.trans {X Y : Eid → Prop} {k : Key} {a b c : Node} (h1 : BookLe X k a b) (h2 : BookLe Y k b c) :
    BookLe (fun e => X e ∨ Y e) k a c :=
  fun e hb hn => h2 e (h1 e hb (fun hx => hn (Or.inl hx))) (fun hy => hn (Or.inr hy))

theorem BookLe.mono {X Y : Eid → Prop} {k : Key} {a b : Node} (h : BookLe X k a b) (hxy : ∀ e, X e → Y e) :
    BookLe Y k a b :=
  fun e hb hn => h e hb (fun hx => hn (hxy e hx))

/-- Same sent list and same "has a list" ⇒ same booked set. -/
theorem bookLe_of_eq {k : Key} {n n' : Node} (hs : sentL n' k = sentL n k) (hh : hasBook n' k = hasBook n k) :
    BookLe (fun _ => False) k n n' := by
  intro e hb _ hh'
  rw [hs]
  exact hb (by rw [← hh]; exact hh')

/-- A step that touches another key only. -/
theorem sentL_frame {k k' : Key} {n n' : Node} (h : OnlyKey k n n') (hk : k' ≠ k) :
    sentL n' k' = sentL n k' ∧ hasBook n' k' = hasBook n k' := by
  unfold sentL hasBook
  rw [h.env.cfg, h.other k' hk, h.spray k' hk]
  exact ⟨rfl, rfl⟩

/-- `Sync` of an existing item: the routing properties stay (or the item is deleted). -/
theorem sync_bookLe (d : Desc) (n : Node) (it : Item) (hg : n.store.get d.key = some it) :
    BookLe (fun _ => False) d.key n (sync d n) := by
  intro e hb _ hh
  have hcfg : (sync d n).cfg = n.cfg := (sync_env d n).cfg
  have hsp : (sync d n).spray = n.spray := sync_spray d n
  unfold Booked at hb
  by_cases hc : d.cons.isEmpty = true
  · -- deleted
    have hdel := sync_delete d n it hg hc
    cases ha : n.cfg.algo
    all_goals simp only [hasBook, sentL, hcfg, hsp, ha, hdel, hg, Option.isSome_none, Option.isSome_some,
      Bool.false_eq_true, Option.map_some, Option.getD_some, forall_const] at hh hb ⊢
    all_goals first | exact hb hh | exact hb
  · have hc' : d.cons.isEmpty = false := by cases h : d.cons.isEmpty <;> simp_all
    have hup := sync_update d n it hg hc'
    cases ha : n.cfg.algo
    all_goals simp only [hasBook, sentL, hcfg, hsp, ha, hup, hg, Option.isSome_some, Option.map_some,
      Option.getD_some, forall_const] at hh hb ⊢
    all_goals first | exact hb hh | exact hb


theorem hasBook_of_rt {k : Key} {n n' : Node} (h : RtStep k n n')
    (hs : (lookupMeta n'.spray k).isSome = (lookupMeta n.spray k).isSome) : hasBook n' k = hasBook n k := by
  unfold hasBook
  rw [h.only.env.cfg]
  have hi : (n'.store.get k).isSome = (n.store.get k).isSome := by
    cases h0 : n.store.get k with
    | none => rw [h.absent h0]
    | some it => rcases h.item it h0 with ⟨it', g', _⟩; rw [g']; rfl
  cases n.cfg.algo <;> simp only [hs, hi]

theorem reportFailure_spraySome (d : Desc) (p : Peer) (n : Node) :
    (lookupMeta (reportFailure d p n).spray d.key).isSome = (lookupMeta n.spray d.key).isSome := by
  unfold reportFailure modRt
  cases n.cfg.algo
  · simp only [modItem_spray]
  · simp only
    cases hg : lookupMeta n.spray d.key with
    | none => simp [hg]
    | some m => simp [lookupMeta_setMeta_eq]
  · simp only
    cases d.bndl.bind (·.bsCopies) with
    | none => rfl
    | some c =>
      simp only
      cases hg : lookupMeta n.spray d.key with
      | none => simp [hg]
      | some m => simp [lookupMeta_setMeta_eq]
  · simp only [modItem_spray]
  · simp only
    generalize (n.cfg.dtlsrFail && (match d.bndl with | some b => decide (b.dst = n.cfg.bcast) | none => false)) = cnd
    cases cnd
    · rfl
    · simp only [if_true, modItem_spray]

theorem reportFailure_bookLe (d : Desc) (p : Peer) (n : Node) :
    BookLe (fun e => e = p.eid) d.key n (reportFailure d p n) := by
  intro e hb hne hh
  have hhb := hasBook_of_rt (reportFailure_rt d p n) (reportFailure_spraySome d p n)
  rw [hhb] at hh
  exact (reportFailure_others d p n e).2 (hb hh) hne

theorem innerSenders_spraySome (env : Env) (d : Desc) (b : Bundle) (n : Node) :
    (lookupMeta (innerSenders env d b n).2.2.2.spray d.key).isSome = (lookupMeta n.spray d.key).isSome := by
  unfold innerSenders modRt
  cases n.cfg.algo
  · simp only
    cases n.store.get d.key <;> simp only [modItem_spray]
  · simp only
    cases hg : lookupMeta n.spray d.key with
    | none => simp [hg]
    | some m =>
      simp only
      split
      · simp [hg]
      · simp [lookupMeta_setMeta_eq]
  · simp only
    cases hg : lookupMeta n.spray d.key with
    | none => simp [hg]
    | some m =>
      simp only
      split
      · simp [hg]
      · cases (senders env n d.key).find? (fun p => !m.sent.contains p.eid) <;> simp [lookupMeta_setMeta_eq]
  · simp only
    cases n.store.get d.key with
    | none => rfl
    | some it => simp only; split <;> simp only [modItem_spray]
  · simp only
    split
    · cases n.store.get d.key <;> simp only [modItem_spray]
    · cases (senders env n d.key).find? (fun p => env.cand p.eid b) <;> rfl

/-- `SenderForBundle` only appends to the sent list. -/
theorem innerSenders_mono (env : Env) (d : Desc) (b : Bundle) (n : Node) (e : Eid)
    (h : e ∈ sentL n d.key) : e ∈ sentL (innerSenders env d b n).2.2.2 d.key := by
  by_cases hrep : replicates n.cfg b = true
  · rw [(innerSenders_spec env d b n hrep).2]
    exact List.mem_append_left _ h
  · -- DTLSR unicast: nothing is written
    have ha : n.cfg.algo = .dtlsr := by
      unfold replicates at hrep
      cases ha : n.cfg.algo <;> simp [ha] at hrep
      rfl
    have hb : ¬ b.dst = n.cfg.bcast := by
      unfold replicates at hrep
      simpa [ha] using hrep
    have : (innerSenders env d b n).2.2.2 = n := by
      unfold innerSenders
      simp only [ha, hb, if_false]
      cases (senders env n d.key).find? (fun p => env.cand p.eid b) <;> rfl
    rw [this]
    exact h

theorem innerSenders_bookLe (env : Env) (d : Desc) (b : Bundle) (n : Node) :
    BookLe (fun _ => False) d.key n (innerSenders env d b n).2.2.2 := by
  intro e hb _ hh
  have hhb := hasBook_of_rt (innerSenders_rt env d b n) (innerSenders_spraySome env d b n)
  rw [hhb] at hh
  exact innerSenders_mono env d b n e (hb hh)

theorem muleFilter_bookLe (d : Desc) : ∀ (ps : List Peer) (n : Node),
    BookLe (fun e => ∃ p ∈ ps, p.eid = e) d.key n (muleFilter d ps n).2
  | [], n => fun _ h _ => h
  | p :: ps, n => by
    have ih := muleFilter_bookLe d ps n
    simp only [muleFilter]
    by_cases h : muleDrops n.cfg d p = true
    · simp only [h, if_true]
      refine (ih.trans (reportFailure_bookLe d p _)).mono ?_
      intro e he
      rcases he with ⟨q, hq, hqe⟩ | he
      · exact ⟨q, List.mem_cons_of_mem _ hq, hqe⟩
      · exact ⟨p, List.mem_cons_self, he.symm⟩
    · simp only [h, Bool.false_eq_true, if_false]
      exact ih.mono (fun e ⟨q, hq, hqe⟩ => ⟨q, List.mem_cons_of_mem _ hq, hqe⟩)

theorem attempts_bookLe (k : Key) (n : Node) (a : List ((Nat × Nat) × Nat)) :
    BookLe (fun _ => False) k n { n with attempts := a } := fun _ h _ => h

/-- The transmissions: only peers whose `Send` failed are taken out of the list. -/
theorem sendAll_bookLe (env : Env) (d : Desc) (b : Bundle) : ∀ (ps : List Peer) (n : Node),
    BookLe (fun e => ∃ p ∈ ps, Output.sent p b false ∈ (sendAll env d b ps n).2.1 ∧ p.eid = e) d.key n
      (sendAll env d b ps n).1
  | [], n => fun _ h _ => h
  | p :: ps, n => by
    simp only [sendAll]
    by_cases hok : env.sendOk p.addr b.tag (attemptNo n p.addr b.tag) = true
    · simp only [hok, if_true]
      have ih := sendAll_bookLe env d b ps { n with attempts := setNat n.attempts (p.addr, b.tag) (attemptNo n p.addr b.tag + 1) }
      refine ((attempts_bookLe d.key n _).trans ih).mono ?_
      intro e he
      rcases he with he | ⟨q, hq, hm, hqe⟩
      · exact absurd he id
      · exact ⟨q, List.mem_cons_of_mem _ hq, List.mem_cons_of_mem _ hm, hqe⟩
    · have hok' : env.sendOk p.addr b.tag (attemptNo n p.addr b.tag) = false := by
        cases h : env.sendOk p.addr b.tag (attemptNo n p.addr b.tag) <;> simp_all
      simp only [hok', Bool.false_eq_true, if_false]
      have ih := sendAll_bookLe env d b ps (reportFailure d p { n with attempts := setNat n.attempts (p.addr, b.tag) (attemptNo n p.addr b.tag + 1) })
      refine (((attempts_bookLe d.key n _).trans (reportFailure_bookLe d p _)).trans ih).mono ?_
      intro e he
      rcases he with (he | he) | ⟨q, hq, hm, hqe⟩
      · exact absurd he id
      · exact ⟨p, List.mem_cons_self, List.mem_cons_self, he.symm⟩
      · exact ⟨q, List.mem_cons_of_mem _ hq, List.mem_cons_of_mem _ hm, hqe⟩


/-! ## One `forward`: booked endpoint IDs are neither chosen nor lost -/

/-- Whoever the algorithm picks: there is a sent list and the peer is not in it. -/
theorem innerSenders_fresh (env : Env) (d : Desc) (b : Bundle) (n : Node) (hrep : replicates n.cfg b = true) :
    ∀ p ∈ (innerSenders env d b n).1, hasBook n d.key = true ∧ p.eid ∉ sentL n d.key := by
  intro p hp
  refine ⟨?_, ?_⟩
  · -- no item / no bookkeeping ⇒ nobody is picked
    unfold hasBook
    unfold innerSenders at hp
    cases ha : n.cfg.algo <;> simp only [ha] at hp ⊢
    · cases hg : n.store.get d.key <;> simp [hg] at hp ⊢
    · cases hg : lookupMeta n.spray d.key <;> simp [hg] at hp ⊢
    · cases hg : lookupMeta n.spray d.key <;> simp [hg] at hp ⊢
    · cases hg : n.store.get d.key <;> simp [hg] at hp ⊢
    · have hb : b.dst = n.cfg.bcast := by
        unfold replicates at hrep
        simpa [ha] using hrep
      simp only [hb, if_true] at hp
      cases hg : n.store.get d.key <;> simp [hg] at hp ⊢
  · have := (innerSenders_spec env d b n hrep).1 p hp
    simpa using this

theorem sendersFor_book (env : Env) (d : Desc) (b : Bundle) (n : Node) (hrep : replicates n.cfg b = true) :
    (∀ p ∈ (sendersFor env d b n).1, hasBook n d.key = true ∧ p.eid ∉ sentL n d.key) ∧
    BookLe (fun e => ∃ p ∈ (innerSenders env d b n).1, p.eid = e) d.key n (sendersFor env d b n).2.2.2 := by
  unfold sendersFor
  simp only
  split
  · constructor
    · intro p hp
      exact innerSenders_fresh env d b n hrep p (muleFilter_fst_sub _ _ _ p hp)
    · have h1 := innerSenders_bookLe env d b n
      have hk := (innerSenders_desc env d b n).1
      have h2 := muleFilter_bookLe (innerSenders env d b n).2.2.1 (innerSenders env d b n).1 (innerSenders env d b n).2.2.2
      rw [hk] at h2
      exact (h1.trans h2).mono (fun e he => by
        rcases he with he | he
        · exact absurd he id
        · exact he)
  · exact ⟨innerSenders_fresh env d b n hrep, (innerSenders_bookLe env d b n).mono (fun _ h => absurd h id)⟩

/-- The endpoint IDs `E` that have to stay booked: none of them is the destination's node, all of them
are in the sent list. -/
structure MustStay (E : Eid → Prop) (b : Bundle) (n : Node) (k : Key) : Prop where
  notDst : ∀ e, E e → e.sameNode b.dst = false
  booked : ∀ e, E e → Booked n k e

theorem forwardSend_book (env : Env) (b : Bundle) (r : List Peer × Bool × Desc × Node) (it : Item)
    (hg : r.2.2.2.store.get r.2.2.1.key = some it) (E : Eid → Prop)
    (hE : ∀ e, E e → Booked r.2.2.2 r.2.2.1.key e) (hX : ∀ p ∈ r.1, ¬ E p.eid) :
    ∀ e, E e → Booked (forwardSend env b r).1 r.2.2.1.key e := by
  intro e he
  unfold forwardSend
  simp only
  have hs := sendAll_bookLe env r.2.2.1 b r.1 r.2.2.2
  have hrt := sendAll_rt env r.2.2.1 b r.1 r.2.2.2
  rcases hrt.item it hg with ⟨it2, g2, _⟩
  have hb2 : Booked (sendAll env r.2.2.1 b r.1 r.2.2.2).1 r.2.2.1.key e := by
    apply hs e (hE e he)
    intro ⟨p, hp, _, hpe⟩
    exact hX p hp (hpe ▸ he)
  split
  · exact sync_bookLe { r.2.2.1 with cons := r.2.2.1.cons.purge } _ it2 g2 e hb2 id
  · exact sync_bookLe { r.2.2.1 with cons := { r.2.2.1.cons with ci := true } } _ it2 g2 e hb2 id

theorem forward_book (env : Env) (d : Desc) (b : Bundle) (n : Node) (it : Item)
    (hg : n.store.get d.key = some it) (hrep : replicates n.cfg b = true)
    (E : Eid → Prop) (hE : MustStay E b n d.key) :
    (∀ p ok, Output.sent p b ok ∈ (forward env d b n).2 → p.eid.sameNode b.dst = false → ¬ E p.eid) ∧
    (∀ e, E e → Booked (forward env d b n).1 d.key e) := by
  unfold forward
  simp only
  generalize hd1 : ({ d with cons := { d.cons with fp := true, dp := false } } : Desc) = d1
  have hk1 : d1.key = d.key := by rw [← hd1]
  have hne : d1.cons.isEmpty = false := by rw [← hd1]; simp [Cons.isEmpty]
  rw [← hk1] at hg hE ⊢
  have h1 := sync_update d1 n it hg hne
  have hb1 : ∀ e, E e → Booked (sync d1 n) d1.key e :=
    fun e he => sync_bookLe d1 n it hg e (hE.booked e he) id
  have henv := sync_env d1 n
  have hcfg1 : (sync d1 n).cfg = n.cfg := henv.cfg
  -- the three refusals: nothing is sent, the item is deleted (or keeps its routing properties)
  have hdel : (∀ p ok, Output.sent p b ok ∈ ([] : List Output) → p.eid.sameNode b.dst = false → ¬ E p.eid) ∧
      (∀ e, E e → Booked (bundleDeletion d1 (sync d1 n)) d1.key e) := by
    refine ⟨(fun p ok h => by cases h), fun e he => ?_⟩
    exact sync_bookLe { d1 with cons := d1.cons.purge } (sync d1 n) _ h1 e (hb1 e he) id
  split
  · exact hdel
  · split
    · exact hdel
    · split
      · exact hdel
      · -- transmissions
        unfold selectSenders
        simp only
        split
        · -- the algorithm chooses
          have hdesc := sendersFor_desc env d1 b (sync d1 n)
          have hrt := sendersFor_rt env d1 b (sync d1 n)
          rcases hrt.item _ h1 with ⟨it3, g3, _⟩
          have hbook := sendersFor_book env d1 b (sync d1 n) (by rw [hcfg1]; exact hrep)
          constructor
          · intro p ok hmem hns
            rcases forwardSend_outs env b _ _ hmem with ⟨q, ok', hq, hqe⟩
            cases hqe
            rcases hbook.1 p hq with ⟨hhb, hfresh⟩
            intro hEp
            exact hfresh (hb1 _ hEp hhb)
          · have hE3 : ∀ e, E e → Booked (sendersFor env d1 b (sync d1 n)).2.2.2 d1.key e := by
              intro e he
              apply hbook.2 e (hb1 e he)
              intro ⟨q, hq, hqe⟩
              rcases innerSenders_fresh env d1 b _ (by rw [hcfg1]; exact hrep) q hq with ⟨hhb, hfresh⟩
              exact hfresh (hqe ▸ hb1 e he hhb)
            have := forwardSend_book env b (sendersFor env d1 b (sync d1 n)) it3
              (by rw [hdesc.1]; exact g3) E (by rw [hdesc.1]; exact hE3)
              (by
                intro p hp hEp
                rcases hbook.1 p hp with ⟨hhb, hfresh⟩
                exact hfresh (hb1 _ hEp hhb))
            rw [hdesc.1] at this
            exact this
        · -- direct delivery: every CLA tried belongs to the destination node
          have := forwardSend_book env b
            ((senders env (sync d1 n) d1.key).filter (fun p => p.eid.sameNode b.dst), true, d1, sync d1 n) _ h1 E hb1
            (by
              intro p hp hEp
              have hp2 := (List.mem_filter.mp hp).2
              rw [hE.notDst _ hEp] at hp2
              cases hp2)
          constructor
          · intro p ok hmem hns
            rcases forwardSend_outs env b _ _ hmem with ⟨q, ok', hq, hqe⟩
            cases hqe
            have hq2 := (List.mem_filter.mp hq).2
            rw [hns] at hq2
            cases hq2
          · exact this

end Dtn7.Node
