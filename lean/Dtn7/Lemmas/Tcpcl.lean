import Dtn7.Model.Tcpcl

namespace Dtn7.Tcpcl.Lemmas
open Dtn7.Tcpcl

/-- Generalised Spec for a train that starts with an arbitrary START bit. -/
def TrainOk (start : Bool) (la : Bool) (data : Bytes) (m : Nat) (segs : List Seg) : Prop :=
  (∀ s ∈ segs, s.data.length ≤ m) ∧ concatData segs = data ∧
  (∃ s ss, segs = s :: ss ∧ s.start = start ∧ ∀ t ∈ ss, t.start = false) ∧
  (la = true → endsOk segs = true)

theorem endsOk_cons_cons (s t : Seg) (ss : List Seg) :
    endsOk (s :: t :: ss) = (!s.fin && endsOk (t :: ss)) := rfl

/-- One unfolding of the sender loop on a non-empty rest. -/
theorem segmentsFuel_short (la : Bool) (m fuel : Nat) (start : Bool) (rest : Bytes)
    (hne : rest ≠ []) (hlt : rest.length < m) :
    segmentsFuel la m (fuel + 1) start rest = [⟨start, true, rest⟩] := by
  have hpos : rest.length ≠ 0 := fun h => hne (List.length_eq_zero_iff.mp h)
  cases fuel <;> simp [segmentsFuel, nextSegment, hpos, hlt]

theorem segmentsFuel_full (la : Bool) (m fuel : Nat) (start : Bool) (rest : Bytes)
    (hne : rest ≠ []) (hge : ¬ rest.length < m) :
    segmentsFuel la m (fuel + 1) start rest =
      ⟨start, la && (rest.drop m).length = 0, rest.take m⟩ ::
        segmentsFuel la m fuel false (rest.drop m) := by
  have hpos : rest.length ≠ 0 := fun h => hne (List.length_eq_zero_iff.mp h)
  simp [segmentsFuel, nextSegment, hpos, hge]

theorem segmentsFuel_nil (la : Bool) (m fuel : Nat) (start : Bool) :
    segmentsFuel la m fuel start [] = [] := by
  cases fuel <;> simp [segmentsFuel, nextSegment]

theorem segmentsFuel_ok (la : Bool) (m : Nat) (hm : 0 < m) (fuel : Nat) (start : Bool)
    (rest : Bytes) (hne : rest ≠ []) (hf : rest.length ≤ fuel) :
    TrainOk start la rest m (segmentsFuel la m fuel start rest) := by
  induction fuel generalizing rest start with
  | zero =>
    exact absurd (List.length_eq_zero_iff.mp (Nat.le_zero.mp hf)) hne
  | succ fuel ih =>
    by_cases hlt : rest.length < m
    · rw [segmentsFuel_short la m fuel start rest hne hlt]
      refine ⟨?_, ?_, ⟨_, _, rfl, rfl, ?_⟩, ?_⟩
      · intro s hs
        simp only [List.mem_singleton] at hs
        subst hs; exact Nat.le_of_lt hlt
      · simp [concatData]
      · intro t ht; simp at ht
      · intro _; rfl
    · rw [segmentsFuel_full la m fuel start rest hne hlt]
      by_cases hr : rest.drop m = []
      · rw [hr, segmentsFuel_nil]
        have htake : rest.take m = rest := by
          have : rest.length ≤ m := by
            have := congrArg List.length hr
            simp only [List.length_drop, List.length_nil] at this
            omega
          exact List.take_of_length_le this
        refine ⟨?_, ?_, ⟨_, _, rfl, rfl, ?_⟩, ?_⟩
        · intro s hs
          simp only [List.mem_singleton] at hs
          subst hs
          simp only [List.length_take]; omega
        · simp [concatData, htake]
        · intro t ht; simp at ht
        · intro hla; simp [endsOk, hla]
      · have hlen' : (rest.drop m).length ≤ fuel := by
          simp only [List.length_drop]; omega
        obtain ⟨h1, h2, ⟨s, ss, hs, hst, hss⟩, h4⟩ := ih false (rest.drop m) hr hlen'
        refine ⟨?_, ?_, ⟨_, _, rfl, rfl, ?_⟩, ?_⟩
        · intro x hx
          rcases List.mem_cons.mp hx with hx | hx
          · subst hx; simp only [List.length_take]; omega
          · exact h1 x hx
        · simp only [concatData, h2, List.take_append_drop]
        · intro t ht
          rw [hs] at ht
          rcases List.mem_cons.mp ht with ht | ht
          · rw [ht]; exact hst
          · exact hss t ht
        · intro hla
          rw [hs, endsOk_cons_cons, ← hs, h4 hla]
          have : (rest.drop m).length ≠ 0 := by
            intro h; exact hr (List.length_eq_zero_iff.mp h)
          simp only [List.length_drop] at this
          simp [this]

theorem startsOk_of (segs : List Seg)
    (h : ∃ s ss, segs = s :: ss ∧ s.start = true ∧ ∀ t ∈ ss, t.start = false) :
    startsOk segs = true := by
  obtain ⟨s, ss, rfl, hs, hss⟩ := h
  simp only [startsOk, hs, Bool.true_and, List.all_eq_true]
  intro t ht; simp [hss t ht]

theorem segments_ok_lookahead (data : Bytes) (m : Nat) (hm : 0 < m) (hd : data ≠ []) :
    SegmentsOk data m (segments true m data) := by
  unfold segments
  simp only [hm, ↓reduceIte]
  obtain ⟨h1, h2, h3, h4⟩ := segmentsFuel_ok true m hm data.length true data hd (Nat.le_refl _)
  exact ⟨h1, h2, startsOk_of _ h3, h4 rfl⟩

/-- Without look-ahead END is set exactly when the last chunk is short. -/
theorem segmentsFuel_nolookahead_ends (m : Nat) (hm : 0 < m) (fuel : Nat) (start : Bool)
    (rest : Bytes) (hne : rest ≠ []) (hf : rest.length ≤ fuel) (hdiv : ¬ m ∣ rest.length) :
    endsOk (segmentsFuel false m fuel start rest) = true := by
  induction fuel generalizing rest start with
  | zero =>
    exact absurd (List.length_eq_zero_iff.mp (Nat.le_zero.mp hf)) hne
  | succ fuel ih =>
    by_cases hlt : rest.length < m
    · rw [segmentsFuel_short false m fuel start rest hne hlt]; rfl
    · rw [segmentsFuel_full false m fuel start rest hne hlt]
      have hge : m ≤ rest.length := Nat.le_of_not_lt hlt
      have hdiv' : ¬ m ∣ (rest.drop m).length := by
        simp only [List.length_drop]
        intro h
        apply hdiv
        have := Nat.dvd_add h (Nat.dvd_refl m)
        rwa [Nat.sub_add_cancel hge] at this
      have hr : rest.drop m ≠ [] := by
        intro h
        apply hdiv'
        simp [h]
      have hlen' : (rest.drop m).length ≤ fuel := by
        simp only [List.length_drop]; omega
      have ih' := ih false (rest.drop m) hr hlen' hdiv'
      obtain ⟨_, _, ⟨s, ss, hs, _, _⟩, _⟩ := segmentsFuel_ok false m hm fuel false (rest.drop m) hr hlen'
      rw [hs, endsOk_cons_cons, ← hs, ih']
      simp

theorem segments_ok_nolookahead (data : Bytes) (m : Nat) (hm : 0 < m) (hd : data ≠ [])
    (hdiv : ¬ m ∣ data.length) : SegmentsOk data m (segments false m data) := by
  unfold segments
  simp only [hm, ↓reduceIte]
  obtain ⟨h1, h2, h3, _⟩ := segmentsFuel_ok false m hm data.length true data hd (Nat.le_refl _)
  exact ⟨h1, h2, startsOk_of _ h3,
    segmentsFuel_nolookahead_ends m hm data.length true data hd (Nat.le_refl _) hdiv⟩

/-! ### Receiver -/

theorem receive_step_more (t : InT) (s : Seg) (ss : List Seg) (ht : t.fin = false)
    (hs : s.fin = false) :
    receive t (s :: ss) =
      (RxOut.ack (t.buf ++ s.data).length :: (receive ⟨false, t.buf ++ s.data⟩ ss).1,
        (receive ⟨false, t.buf ++ s.data⟩ ss).2) := by
  simp [receive, InT.next, ht, hs]

theorem receive_step_fin (t : InT) (s : Seg) (ss : List Seg) (ht : t.fin = false)
    (hs : s.fin = true) :
    receive t (s :: ss) = ([RxOut.ack (t.buf ++ s.data).length], some (t.buf ++ s.data)) := by
  simp [receive, InT.next, ht, hs]

theorem receive_ends (segs : List Seg) (t : InT) (ht : t.fin = false) (he : endsOk segs = true) :
    (receive t segs).2 = some (t.buf ++ concatData segs) := by
  induction segs generalizing t with
  | nil => simp [endsOk] at he
  | cons s ss ih =>
    cases ss with
    | nil =>
      simp only [endsOk] at he
      rw [receive_step_fin t s [] ht he]
      simp [concatData]
    | cons s2 ss2 =>
      rw [endsOk_cons_cons] at he
      simp only [Bool.and_eq_true, Bool.not_eq_eq_eq_not, Bool.not_true] at he
      obtain ⟨hs, he'⟩ := he
      rw [receive_step_more t s _ ht hs]
      simp only
      rw [ih ⟨false, t.buf ++ s.data⟩ rfl he']
      simp [concatData, List.append_assoc]

theorem receive_of_ok (data : Bytes) (m : Nat) (segs : List Seg) (h : SegmentsOk data m segs) :
    (receive {} segs).2 = some data := by
  obtain ⟨_, h2, _, h4⟩ := h
  have := receive_ends segs {} rfl h4
  simpa [h2] using this

theorem receive_no_end (segs : List Seg) (t : InT) (ht : t.fin = false)
    (h : ∀ s ∈ segs, s.fin = false) : (receive t segs).2 = none := by
  induction segs generalizing t with
  | nil => simp [receive, ht]
  | cons s ss ih =>
    have hs : s.fin = false := h s (by simp)
    simp only [receive, InT.next, ht, Bool.false_eq_true, ↓reduceIte, hs]
    exact ih _ rfl (fun x hx => h x (by simp [hx]))

/-- Acks of an honest receiver on a train: running total lengths. -/
theorem receive_acks_ge (segs : List Seg) (t : InT) (n : Nat)
    (h : RxOut.ack n ∈ (receive t segs).1) : t.buf.length ≤ n := by
  induction segs generalizing t with
  | nil => simp [receive] at h
  | cons s ss ih =>
    simp only [receive, InT.next] at h
    by_cases ht : t.fin
    · simp [ht] at h
    · simp only [ht, Bool.false_eq_true, ↓reduceIte] at h
      by_cases hs : s.fin
      · simp only [hs, ↓reduceIte, List.mem_singleton, RxOut.ack.injEq] at h
        subst h; simp
      · simp only [hs, Bool.false_eq_true, ↓reduceIte, List.mem_cons, RxOut.ack.injEq] at h
        rcases h with h | h
        · subst h; simp
        · have := ih _ h
          simp only [List.length_append] at this
          omega

/-! ### Send decision loop -/

theorem sendLoop_ok_gen (evs : List Ev) (i o : Nat) (h : sendLoop i o evs = .ok) :
    ∃ l, (Ev.allSent l ∈ evs ∨ l = o) ∧ (Ev.ack l ∈ evs ∨ l = i) ∧
      (Ev.allSent l ∈ evs ∨ Ev.ack l ∈ evs) := by
  induction evs generalizing i o with
  | nil => simp [sendLoop] at h
  | cons e es ih =>
    cases e with
    | sendErr => simp [sendLoop] at h
    | refuse => simp [sendLoop] at h
    | timeout => simp [sendLoop] at h
    | allSent l =>
      simp only [sendLoop] at h
      by_cases hl : l = i
      · exact ⟨l, Or.inl (by simp), Or.inr hl, Or.inl (by simp)⟩
      · simp only [hl, ↓reduceIte] at h
        obtain ⟨k, hk1, hk2, _⟩ := ih i l h
        have h1 : Ev.allSent k ∈ Ev.allSent l :: es := by
          rcases hk1 with hk1 | hk1
          · simp [hk1]
          · simp [hk1]
        refine ⟨k, Or.inl h1, ?_, Or.inl h1⟩
        rcases hk2 with hk2 | hk2
        · left; simp [hk2]
        · right; exact hk2
    | ack n =>
      simp only [sendLoop] at h
      by_cases hn : o = n
      · exact ⟨n, Or.inr hn.symm, Or.inl (by simp), Or.inr (by simp)⟩
      · simp only [hn, ↓reduceIte] at h
        obtain ⟨k, hk1, hk2, _⟩ := ih n o h
        have h2 : Ev.ack k ∈ Ev.ack n :: es := by
          rcases hk2 with hk2 | hk2
          · simp [hk2]
          · simp [hk2]
        refine ⟨k, ?_, Or.inl h2, Or.inr h2⟩
        rcases hk1 with hk1 | hk1
        · left; simp [hk1]
        · right; exact hk1

theorem send_ok_imp (evs : List Ev) (h : send evs = .ok) :
    (∃ l, Ev.allSent l ∈ evs ∧ (l = 0 ∨ Ev.ack l ∈ evs)) ∨ Ev.ack 0 ∈ evs := by
  obtain ⟨l, h1, h2, h3⟩ := sendLoop_ok_gen evs 0 0 h
  rcases h1 with h1 | h1
  · left
    refine ⟨l, h1, ?_⟩
    rcases h2 with h2 | h2
    · right; exact h2
    · left; exact h2
  · subst h1
    rcases h2 with h2 | _
    · right; exact h2
    · rcases h3 with h3 | h3
      · left; exact ⟨0, h3, Or.inl rfl⟩
      · right; exact h3

theorem send_fails_on (evs₁ evs₂ : List Ev) (e : Ev)
    (he : e = .refuse ∨ e = .sendErr ∨ e = .timeout) (i o : Nat)
    (hpre : sendLoop i o evs₁ = .blocked) :
    sendLoop i o (evs₁ ++ e :: evs₂) = .error := by
  induction evs₁ generalizing i o with
  | nil => rcases he with rfl | rfl | rfl <;> simp [sendLoop]
  | cons a as ih =>
    cases a with
    | sendErr => simp [sendLoop] at hpre
    | refuse => simp [sendLoop] at hpre
    | timeout => simp [sendLoop] at hpre
    | allSent l =>
      simp only [sendLoop, List.cons_append] at hpre ⊢
      by_cases hl : l = i
      · simp [hl] at hpre
      · simp only [hl, ↓reduceIte] at hpre ⊢
        exact ih i l hpre
    | ack n =>
      simp only [sendLoop, List.cons_append] at hpre ⊢
      by_cases hn : o = n
      · simp [hn] at hpre
      · simp only [hn, ↓reduceIte] at hpre ⊢
        exact ih n o hpre

/-- Every segment the sender emits carries at least one byte. -/
theorem segmentsFuel_nonempty (la : Bool) (m : Nat) (hm : 0 < m) (fuel : Nat) (start : Bool)
    (rest : Bytes) : ∀ s ∈ segmentsFuel la m fuel start rest, 0 < s.data.length := by
  induction fuel generalizing rest start with
  | zero => simp [segmentsFuel]
  | succ fuel ih =>
    by_cases hne : rest = []
    · subst hne; rw [segmentsFuel_nil]; simp
    · have hpos : 0 < rest.length := List.length_pos_iff.mpr hne
      by_cases hlt : rest.length < m
      · rw [segmentsFuel_short la m fuel start rest hne hlt]
        intro s hs; simp only [List.mem_singleton] at hs; subst hs; exact hpos
      · rw [segmentsFuel_full la m fuel start rest hne hlt]
        intro s hs
        rcases List.mem_cons.mp hs with hs | hs
        · subst hs; simp only [List.length_take]; omega
        · exact ih false (rest.drop m) s hs

theorem receive_acks_pos (segs : List Seg) (t : InT) (n : Nat)
    (hne : ∀ s ∈ segs, 0 < s.data.length)
    (h : RxOut.ack n ∈ (receive t segs).1) : t.buf.length < n := by
  cases segs with
  | nil => simp [receive] at h
  | cons s ss =>
    have hs := hne s (by simp)
    simp only [receive, InT.next] at h
    by_cases ht : t.fin
    · simp [ht] at h
    · simp only [ht, Bool.false_eq_true, ↓reduceIte] at h
      by_cases hf : s.fin
      · simp only [hf, ↓reduceIte, List.mem_singleton, RxOut.ack.injEq] at h
        subst h; simp only [List.length_append]; omega
      · simp only [hf, Bool.false_eq_true, ↓reduceIte, List.mem_cons, RxOut.ack.injEq] at h
        rcases h with h | h
        · subst h; simp only [List.length_append]; omega
        · have := receive_acks_ge ss _ n h
          simp only [List.length_append] at this
          omega

/-- The last ack of a complete train is the total length. -/
theorem receive_final_ack (segs : List Seg) (t : InT) (ht : t.fin = false)
    (he : endsOk segs = true) :
    RxOut.ack (t.buf.length + (concatData segs).length) ∈ (receive t segs).1 := by
  induction segs generalizing t with
  | nil => simp [endsOk] at he
  | cons s ss ih =>
    cases ss with
    | nil =>
      simp only [endsOk] at he
      rw [receive_step_fin t s [] ht he]
      simp [concatData]
    | cons s2 ss2 =>
      rw [endsOk_cons_cons] at he
      simp only [Bool.and_eq_true, Bool.not_eq_eq_eq_not, Bool.not_true] at he
      obtain ⟨hs, he'⟩ := he
      rw [receive_step_more t s _ ht hs]
      have := ih ⟨false, t.buf ++ s.data⟩ rfl he'
      simp only [List.length_append] at this
      simp only [List.mem_cons]
      right
      have e : t.buf.length + (concatData (s :: s2 :: ss2)).length
          = t.buf.length + s.data.length + (concatData (s2 :: ss2)).length := by
        simp only [concatData, List.length_append]; omega
      rw [e]; exact this

theorem receive_acks_le (segs : List Seg) (t : InT) (n : Nat)
    (h : RxOut.ack n ∈ (receive t segs).1) : n ≤ t.buf.length + (concatData segs).length := by
  induction segs generalizing t with
  | nil => simp [receive] at h
  | cons s ss ih =>
    simp only [receive, InT.next] at h
    by_cases ht : t.fin
    · simp [ht] at h
    · simp only [ht, Bool.false_eq_true, ↓reduceIte] at h
      by_cases hs : s.fin
      · simp only [hs, ↓reduceIte, List.mem_singleton, RxOut.ack.injEq] at h
        subst h; simp only [List.length_append, concatData]; omega
      · simp only [hs, Bool.false_eq_true, ↓reduceIte, List.mem_cons, RxOut.ack.injEq] at h
        rcases h with h | h
        · subst h; simp only [List.length_append, concatData]; omega
        · have := ih _ h
          simp only [List.length_append, concatData] at this ⊢
          omega

theorem concat_take_lt (segs : List Seg) (k : Nat) (hne : ∀ s ∈ segs, 0 < s.data.length)
    (hk : k < segs.length) : (concatData (segs.take k)).length < (concatData segs).length := by
  induction segs generalizing k with
  | nil => simp at hk
  | cons s ss ih =>
    have hs := hne s (by simp)
    cases k with
    | zero => simp only [List.take_zero, concatData, List.length_nil, List.length_append]; omega
    | succ k =>
      have := ih k (fun x hx => hne x (by simp [hx])) (by simpa using hk)
      simp only [List.take_succ_cons, concatData, List.length_append]
      omega

/-- The receiver has so far obtained the first `k` segments; the acknowledgements that reached
`Send` are among those it emitted for them. Then success implies the receiver handed up the
complete data. -/
theorem send_success_sound (data : Bytes) (m : Nat) (hm : 0 < m) (hd : data ≠ [])
    (k : Nat) (evs : List Ev)
    (honest : ∀ n, Ev.ack n ∈ evs →
      RxOut.ack n ∈ (receive {} ((segments true m data).take k)).1)
    (sender : ∀ l, Ev.allSent l ∈ evs → l = data.length)
    (h : send evs = .ok) :
    (receive {} ((segments true m data).take k)).2 = some data := by
  have hok := segments_ok_lookahead data m hm hd
  have hne : ∀ s ∈ segments true m data, 0 < s.data.length := by
    unfold segments; simp only [hm, ↓reduceIte]
    exact segmentsFuel_nonempty true m hm data.length true data
  have hne' : ∀ s ∈ (segments true m data).take k, 0 < s.data.length :=
    fun s hs => hne s (List.mem_of_mem_take hs)
  have hL : 0 < data.length := List.length_pos_iff.mpr hd
  have hackL : Ev.ack data.length ∈ evs := by
    rcases send_ok_imp evs h with ⟨l, hl, h0 | hal⟩ | h0
    · have := sender l hl; omega
    · rw [← sender l hl]; exact hal
    · have := receive_acks_pos _ {} 0 hne' (honest 0 h0)
      simp at this
  have hin := honest _ hackL
  by_cases hk : k < (segments true m data).length
  · have h1 := receive_acks_le _ {} _ hin
    have h2 := concat_take_lt _ k hne hk
    rw [hok.2.1] at h2
    have h0 : ({} : InT).buf.length = 0 := rfl
    rw [h0] at h1
    omega
  · rw [List.take_of_length_le (Nat.le_of_not_lt hk)]
    exact receive_of_ok data m _ hok

theorem demuxStep_other (tab : Table) (m : Msg) (tab' : Table) (d : Option (Nat × Bytes)) (k : Nat)
    (hk : k ≠ m.tid) (h : demuxStep tab m = some (tab', d)) : tab'.get k = tab.get k := by
  unfold demuxStep at h
  have hfind : ∀ (t : Table), (t.filter (·.1 != m.tid)).find? (·.1 == k) = t.find? (·.1 == k) := by
    intro t
    induction t with
    | nil => rfl
    | cons x xs ih =>
      by_cases hx : x.1 = m.tid
      · have hmk : (m.tid == k) = false := by
          simp only [beq_eq_false_iff_ne, ne_eq]; exact fun h => hk h.symm
        simp [List.filter, hx, List.find?, hmk, ih]
      · have hx' : (x.1 != m.tid) = true := by simp [hx]
        simp only [List.filter, hx', List.find?]
        cases hxk : x.1 == k
        · simpa using ih
        · rfl
  cases hnext : ((tab.get m.tid).next m.seg) with
  | mk t' o =>
    rw [hnext] at h
    cases o with
    | err => simp at h
    | ack n =>
      simp only at h
      by_cases hf : t'.fin
      · simp only [hf, ↓reduceIte, Option.some.injEq, Prod.mk.injEq] at h
        obtain ⟨h1, _⟩ := h
        subst h1
        simp only [Table.get, Table.del, hfind]
      · simp only [hf, Bool.false_eq_true, ↓reduceIte, Option.some.injEq, Prod.mk.injEq] at h
        obtain ⟨h1, _⟩ := h
        subst h1
        have hmk : (m.tid == k) = false := by
          simp only [beq_eq_false_iff_ne, ne_eq]; exact fun h => hk h.symm
        simp only [Table.get, Table.set, List.find?, hmk, hfind]

end Dtn7.Tcpcl.Lemmas
