/-
What `forward` / `dispatching` do to the item they work on and to everything else.
-/
import Dtn7.Lemmas.Node

namespace Dtn7.Node

/-! ## frame: only the descriptor's key is touched -/

theorem bundleDeletion_only (d : Desc) (n : Node) (hb : ∀ b, d.bndl = some b → b.key = d.key) :
    KStep d.key n (bundleDeletion d n) :=
  sync_kstep { d with cons := d.cons.purge } n hb

theorem bundleContraindicated_only (d : Desc) (n : Node) (hb : ∀ b, d.bndl = some b → b.key = d.key) :
    KStep d.key n (bundleContraindicated d n) :=
  sync_kstep { d with cons := { d.cons with ci := true } } n hb

theorem localDelivery_only (d : Desc) (n : Node) (hb : ∀ b, d.bndl = some b → b.key = d.key) :
    KStep d.key n (localDelivery d n) := by
  unfold localDelivery
  exact (sync_kstep { d with cons := { d.cons with le := true } } n hb).trans
    (sync_kstep { d with cons := ({ d.cons with le := true } : Cons).purge } _ hb)

/-- The descriptor after `SenderForBundle`: its in-memory bundle is the old one or the bundle with a
(re)written binary-spray block. -/
theorem innerSenders_bndl (env : Env) (d : Desc) (b : Bundle) (n : Node) :
    (innerSenders env d b n).2.2.1.bndl = d.bndl ∨
    ∃ c, (innerSenders env d b n).2.2.1.bndl = some { b with bsCopies := some c } := by
  unfold innerSenders
  repeat' (first | exact Or.inl rfl | exact Or.inr ⟨_, rfl⟩ | split | dsimp only)

theorem muleFilter_fst_sub (d : Desc) : ∀ (ps : List Peer) (n : Node), ∀ p ∈ (muleFilter d ps n).1, p ∈ ps
  | [], n, p, h => by simp [muleFilter] at h
  | q :: ps, n, p, h => by
    simp only [muleFilter] at h
    by_cases hq : muleDrops n.cfg d q = true
    · simp only [hq, if_true] at h
      exact List.mem_cons_of_mem _ (muleFilter_fst_sub d ps n p h)
    · simp only [hq] at h
      rcases List.mem_cons.mp h with h | h
      · exact h ▸ List.mem_cons_self
      · exact List.mem_cons_of_mem _ (muleFilter_fst_sub d ps n p h)

theorem sendersFor_bndl (env : Env) (d : Desc) (b : Bundle) (n : Node) :
    (sendersFor env d b n).2.2.1.bndl = d.bndl ∨
    ∃ c, (sendersFor env d b n).2.2.1.bndl = some { b with bsCopies := some c } := by
  unfold sendersFor
  simp only
  split
  · exact innerSenders_bndl env d b n
  · exact innerSenders_bndl env d b n

/-! ## sendAll: outputs -/

theorem sendAll_outs (env : Env) (d : Desc) (b : Bundle) : ∀ (ps : List Peer) (n : Node) (o : Output),
    o ∈ (sendAll env d b ps n).2.1 → ∃ p ok, p ∈ ps ∧ o = Output.sent p b ok
  | [], n, o, h => by simp [sendAll] at h
  | q :: ps, n, o, h => by
    simp only [sendAll] at h
    rcases List.mem_cons.mp h with h | h
    · exact ⟨q, _, List.mem_cons_self, h⟩
    · rcases sendAll_outs env d b ps _ o h with ⟨p, ok, hp, ho⟩
      exact ⟨p, ok, List.mem_cons_of_mem _ hp, ho⟩

/-- Every chosen sender is tried. -/
theorem sendAll_all (env : Env) (d : Desc) (b : Bundle) : ∀ (ps : List Peer) (n : Node) (p : Peer),
    p ∈ ps → ∃ ok, Output.sent p b ok ∈ (sendAll env d b ps n).2.1
  | [], n, p, h => by simp at h
  | q :: ps, n, p, h => by
    simp only [sendAll]
    rcases List.mem_cons.mp h with h | h
    · subst h
      exact ⟨_, List.mem_cons_self⟩
    · rcases sendAll_all env d b ps _ p h with ⟨ok, hok⟩
      exact ⟨ok, List.mem_cons_of_mem _ hok⟩

/-- `bundleSent` is set iff some `Send` succeeded. -/
theorem sendAll_sent (env : Env) (d : Desc) (b : Bundle) : ∀ (ps : List Peer) (n : Node),
    (sendAll env d b ps n).2.2 = true → ∃ p, Output.sent p b true ∈ (sendAll env d b ps n).2.1
  | [], n, h => by simp [sendAll] at h
  | q :: ps, n, h => by
    simp only [sendAll] at h ⊢
    by_cases hq : env.sendOk q.addr b.tag (attemptNo n q.addr b.tag b.seq) = true
    · exact ⟨q, by rw [hq]; exact List.mem_cons_self⟩
    · have hq' : env.sendOk q.addr b.tag (attemptNo n q.addr b.tag b.seq) = false := by
        cases hh : env.sendOk q.addr b.tag (attemptNo n q.addr b.tag b.seq) <;> simp_all
      rw [hq'] at h ⊢
      simp only [Bool.false_or] at h
      rcases sendAll_sent env d b ps _ h with ⟨p, hp⟩
      exact ⟨p, List.mem_cons_of_mem _ hp⟩

/-! ## forward -/

/-- Nothing in `forward` refuses the bundle at time `now`. -/
def forwardable (now : Nat) (b : Bundle) : Prop :=
  hopExceeded b = false ∧ lifetimeExceeded now b = false ∧ ageExpired b = false

/-- The item is still there, marked for retry, with the same bundle and expiry. -/
def Kept (it : Item) (o : Option Item) : Prop :=
  ∃ it', o = some it' ∧ it'.pending = true ∧ it'.bundle = it.bundle ∧ it'.expires = it.expires ∧
    it'.cons.pendingRule = true ∧ it'.cons.le = false

/-- A copy of the bundle with this tag was handed to a CLA successfully. -/
def OkSent (outs : List Output) (b0 : Bundle) : Prop :=
  ∃ p b, Output.sent p b true ∈ outs ∧ b.tag = b0.tag ∧ b.key = b0.key

/-- All outputs of one `forward`/`dispatching` are transmissions of the bundle with this tag to
connected peers. -/
def OutsOf (outs : List Output) (peers : List Peer) (tag : Nat) : Prop :=
  ∀ o ∈ outs, ∃ p b ok, o = Output.sent p b ok ∧ p ∈ peers ∧ b.tag = tag

theorem mem_arrange {pref : List Nat} {peers : List Peer} {p : Peer} (h : p ∈ arrange pref peers) : p ∈ peers := by
  unfold arrange at h
  rcases List.mem_append.mp h with h | h
  · rcases List.mem_filterMap.mp h with ⟨a, _, ha⟩
    exact List.mem_of_find?_eq_some ha
  · exact (List.mem_filter.mp h).1

theorem mem_senders {env : Env} {n : Node} {k : Key} {p : Peer} (h : p ∈ senders env n k) : p ∈ n.peers :=
  mem_arrange h

theorem filterCLAs_sub : ∀ (sent : List Eid) (ps : List Peer), ∀ p ∈ (filterCLAs sent ps).1, p ∈ ps
  | _, [], p, h => by simp [filterCLAs] at h
  | sent, q :: ps, p, h => by
    simp only [filterCLAs] at h
    split at h
    · exact List.mem_cons_of_mem _ (filterCLAs_sub sent ps p h)
    · rcases List.mem_cons.mp h with h | h
      · exact h ▸ List.mem_cons_self
      · exact List.mem_cons_of_mem _ (filterCLAs_sub _ ps p h)

theorem sprayPick_sub : ∀ (m : SprayMeta) (ps : List Peer), ∀ p ∈ (sprayPick m ps).1, p ∈ ps
  | _, [], p, h => by simp [sprayPick] at h
  | m, q :: ps, p, h => by
    simp only [sprayPick] at h
    split at h
    · simp at h
    · split at h
      · exact List.mem_cons_of_mem _ (sprayPick_sub m ps p h)
      · rcases List.mem_cons.mp h with h | h
        · exact h ▸ List.mem_cons_self
        · exact List.mem_cons_of_mem _ (sprayPick_sub _ ps p h)

/-- The senders an algorithm picks are connected peers. -/
theorem innerSenders_sub (env : Env) (d : Desc) (b : Bundle) (n : Node) :
    ∀ p ∈ (innerSenders env d b n).1, p ∈ n.peers := by
  intro p hp
  unfold innerSenders at hp
  cases ha : n.cfg.algo <;> simp only [ha] at hp
  · cases hg : n.store.get d.key <;> simp only [hg] at hp
    · simp at hp
    · exact mem_senders (filterCLAs_sub _ _ p hp)
  · cases hg : lookupMeta n.spray d.key <;> simp only [hg] at hp
    · simp at hp
    · split at hp
      · simp at hp
      · exact mem_senders (sprayPick_sub _ _ p hp)
  · cases hg : lookupMeta n.spray d.key <;> simp only [hg] at hp
    · simp at hp
    · split at hp
      · simp at hp
      · split at hp
        · simp at hp
        · rename_i q hq
          simp at hp
          subst hp
          exact mem_senders (List.mem_of_find?_eq_some hq)
  · cases hg : n.store.get d.key <;> simp only [hg] at hp
    · simp at hp
    · split at hp
      · simp at hp
      · exact mem_senders (List.mem_filter.mp (filterCLAs_sub _ _ p hp)).1
  · split at hp
    · cases hg : n.store.get d.key <;> simp only [hg] at hp
      · simp at hp
      · exact mem_senders (filterCLAs_sub _ _ p hp)
    · split at hp
      · rename_i q hq
        simp at hp
        subst hp
        exact mem_senders (List.mem_of_find?_eq_some hq)
      · simp at hp

theorem sendersFor_sub (env : Env) (d : Desc) (b : Bundle) (n : Node) :
    ∀ p ∈ (sendersFor env d b n).1, p ∈ n.peers := by
  intro p hp
  unfold sendersFor at hp
  simp only at hp
  split at hp
  · exact innerSenders_sub env d b n p (muleFilter_fst_sub _ _ _ p hp)
  · exact innerSenders_sub env d b n p hp


/-! ## selectSenders / forwardSend / forward -/

theorem selectSenders_desc (env : Env) (d : Desc) (b : Bundle) (n : Node) :
    (selectSenders env d b n).2.2.1.key = d.key ∧ (selectSenders env d b n).2.2.1.cons = d.cons ∧
    (selectSenders env d b n).2.2.1.receiver = d.receiver := by
  unfold selectSenders
  simp only
  split
  · exact sendersFor_desc env d b n
  · exact ⟨rfl, rfl, rfl⟩

theorem selectSenders_bndl (env : Env) (d : Desc) (b : Bundle) (n : Node) :
    (selectSenders env d b n).2.2.1.bndl = d.bndl ∨
    ∃ c, (selectSenders env d b n).2.2.1.bndl = some { b with bsCopies := some c } := by
  unfold selectSenders
  simp only
  split
  · exact sendersFor_bndl env d b n
  · exact Or.inl rfl

theorem selectSenders_rt (env : Env) (d : Desc) (b : Bundle) (n : Node) :
    RtStep d.key n (selectSenders env d b n).2.2.2 := by
  unfold selectSenders
  simp only
  split
  · exact sendersFor_rt env d b n
  · exact RtStep.refl _ n

theorem selectSenders_sub (env : Env) (d : Desc) (b : Bundle) (n : Node) :
    ∀ p ∈ (selectSenders env d b n).1, p ∈ n.peers := by
  intro p hp
  unfold selectSenders at hp
  simp only at hp
  split at hp
  · exact sendersFor_sub env d b n p hp
  · exact mem_senders (List.mem_filter.mp hp).1

/-- The bundle handed to the CLAs carries the tag (and everything but the binary-spray block) of `b`. -/
theorem selectSenders_tag (env : Env) (d : Desc) (b : Bundle) (n : Node) (hd : d.bndl = some b) :
    ((selectSenders env d b n).2.2.1.bndl.getD b).tag = b.tag ∧
    ((selectSenders env d b n).2.2.1.bndl.getD b).key = b.key ∧
    ((selectSenders env d b n).2.2.1.bndl.getD b).prev = b.prev ∧
    ((selectSenders env d b n).2.2.1.bndl.getD b).dst = b.dst := by
  rcases selectSenders_bndl env d b n with h | ⟨c, h⟩
  · rw [h, hd]; exact ⟨rfl, rfl, rfl, rfl⟩
  · rw [h]; exact ⟨rfl, rfl, rfl, rfl⟩

theorem forwardSend_only (env : Env) (b : Bundle) (r : List Peer × Bool × Desc × Node)
    (hb : ∀ b', r.2.2.1.bndl = some b' → b'.key = r.2.2.1.key) :
    KStep r.2.2.1.key r.2.2.2 (forwardSend env b r).1 := by
  unfold forwardSend
  simp only
  have hs := (sendAll_rt env r.2.2.1 b r.1 r.2.2.2).kstep
  split
  · exact hs.trans (sync_kstep { r.2.2.1 with cons := r.2.2.1.cons.purge } _ hb)
  · exact hs.trans (bundleContraindicated_only r.2.2.1 _ hb)

theorem forwardSend_outs (env : Env) (b : Bundle) (r : List Peer × Bool × Desc × Node) :
    ∀ o ∈ (forwardSend env b r).2, ∃ p ok, p ∈ r.1 ∧ o = Output.sent p b ok := by
  intro o ho
  unfold forwardSend at ho
  simp only at ho
  split at ho
  · exact sendAll_outs env _ _ _ _ o ho
  · exact sendAll_outs env _ _ _ _ o ho

theorem forwardSend_all (env : Env) (b : Bundle) (r : List Peer × Bool × Desc × Node) :
    ∀ p ∈ r.1, ∃ ok, Output.sent p b ok ∈ (forwardSend env b r).2 := by
  intro p hp
  unfold forwardSend
  simp only
  split
  · exact sendAll_all env _ _ _ _ p hp
  · exact sendAll_all env _ _ _ _ p hp

/-- After the transmissions the item is either kept (marked for retry) or a transmission succeeded. -/
theorem forwardSend_kept (env : Env) (b : Bundle) (r : List Peer × Bool × Desc × Node) (it : Item)
    (hg : r.2.2.2.store.get r.2.2.1.key = some it)
    (hrp : r.2.2.1.cons.rp = false) (hle : r.2.2.1.cons.le = false) :
    OkSent (forwardSend env b r).2 b ∨
    Kept it ((forwardSend env b r).1.store.get r.2.2.1.key) := by
  unfold forwardSend
  simp only
  have hs := sendAll_rt env r.2.2.1 b r.1 r.2.2.2
  rcases hs.item it hg with ⟨it2, g2, b2, e2, _, _, _⟩
  by_cases hok : (sendAll env r.2.2.1 b r.1 r.2.2.2).2.2 = true
  · left
    rcases sendAll_sent env _ _ _ _ hok with ⟨p, hp⟩
    refine ⟨p, _, ?_, rfl, rfl⟩
    split <;> exact hp
  · right
    have hok' : (sendAll env r.2.2.1 b r.1 r.2.2.2).2.2 = false := by
      cases h : (sendAll env r.2.2.1 b r.1 r.2.2.2).2.2 <;> simp_all
    simp only [hok', Bool.false_and, Bool.false_eq_true, if_false]
    have hne : ({ r.2.2.1.cons with ci := true } : Cons).isEmpty = false := by simp [Cons.isEmpty]
    have := sync_update { r.2.2.1 with cons := { r.2.2.1.cons with ci := true } } _ it2 g2 hne
    refine ⟨_, this, ?_, b2, e2, ?_, hle⟩
    · simp [Cons.pendingRule, hrp]
    · simp [Cons.pendingRule, hrp]

theorem forward_only (env : Env) (d : Desc) (b : Bundle) (n : Node) (hd : d.bndl = some b)
    (hk : b.key = d.key) : KStep d.key n (forward env d b n).1 := by
  unfold forward
  simp only
  have hb1 : ∀ b', ({ d with cons := { d.cons with fp := true, dp := false } } : Desc).bndl = some b' →
      b'.key = d.key := by
    intro b' h
    rw [hd] at h
    cases h
    exact hk
  have h1 := sync_kstep { d with cons := { d.cons with fp := true, dp := false } } n hb1
  split
  · exact h1.trans (bundleDeletion_only _ _ hb1)
  · split
    · exact h1.trans (bundleDeletion_only _ _ hb1)
    · split
      · exact h1.trans (bundleDeletion_only _ _ hb1)
      · refine h1.trans ?_
        have hsel := selectSenders_rt env { d with cons := { d.cons with fp := true, dp := false } } b (sync { d with cons := { d.cons with fp := true, dp := false } } n)
        have hdesc := selectSenders_desc env { d with cons := { d.cons with fp := true, dp := false } } b (sync { d with cons := { d.cons with fp := true, dp := false } } n)
        refine hsel.kstep.trans ?_
        have := forwardSend_only env b (selectSenders env { d with cons := { d.cons with fp := true, dp := false } } b (sync { d with cons := { d.cons with fp := true, dp := false } } n)) ?_
        · rw [hdesc.1] at this
          exact this
        · intro b' hb'
          rw [hdesc.1]
          rcases selectSenders_bndl env { d with cons := { d.cons with fp := true, dp := false } } b (sync { d with cons := { d.cons with fp := true, dp := false } } n) with h | ⟨c, h⟩
          · rw [h] at hb'
            exact hb1 b' hb'
          · rw [h] at hb'
            cases hb'
            exact hk

theorem forward_outs (env : Env) (d : Desc) (b : Bundle) (n : Node) :
    OutsOf (forward env d b n).2 n.peers b.tag := by
  intro o ho
  unfold forward at ho
  simp only at ho
  split at ho
  · simp at ho
  · split at ho
    · simp at ho
    · split at ho
      · simp at ho
      · rcases forwardSend_outs env b _ o ho with ⟨p, ok, hp, rfl⟩
        refine ⟨p, _, ok, rfl, ?_, rfl⟩
        have := selectSenders_sub env _ b _ p hp
        rw [(sync_env _ n).peers] at this
        exact this


theorem Kept.of_eq {it it2 : Item} {o : Option Item} (h : Kept it2 o) (hb : it2.bundle = it.bundle)
    (he : it2.expires = it.expires) : Kept it o := by
  rcases h with ⟨it', h1, h2, h3, h4, h5⟩
  exact ⟨it', h1, h2, h3.trans hb, h4.trans he, h5⟩

theorem forward_kept (env : Env) (d : Desc) (b : Bundle) (n : Node) (it : Item)
    (hg : n.store.get d.key = some it)
    (hrp : d.cons.rp = false) (hle : d.cons.le = false) (hf : forwardable n.now b) :
    OkSent (forward env d b n).2 b ∨ Kept it ((forward env d b n).1.store.get d.key) := by
  unfold forward
  simp only
  have hne : ({ d.cons with fp := true, dp := false } : Cons).isEmpty = false := by simp [Cons.isEmpty]
  have h1 := sync_update { d with cons := { d.cons with fp := true, dp := false } } n it hg hne
  have hnow := (sync_env { d with cons := { d.cons with fp := true, dp := false } } n).now
  rw [hnow]
  simp only [hf.1, hf.2.1, hf.2.2, Bool.false_eq_true, if_false]
  have hsel := selectSenders_rt env { d with cons := { d.cons with fp := true, dp := false } } b
    (sync { d with cons := { d.cons with fp := true, dp := false } } n)
  have hdesc := selectSenders_desc env { d with cons := { d.cons with fp := true, dp := false } } b
    (sync { d with cons := { d.cons with fp := true, dp := false } } n)
  rcases hsel.item _ h1 with ⟨it2, g2, b2, e2, _, _, _⟩
  have := forwardSend_kept env b (selectSenders env { d with cons := { d.cons with fp := true, dp := false } } b
    (sync { d with cons := { d.cons with fp := true, dp := false } } n)) it2
    (by rw [hdesc.1]; exact g2) (by rw [hdesc.2.1]; exact hrp) (by rw [hdesc.2.1]; exact hle)
  rw [hdesc.1] at this
  rcases this with h | h
  · exact Or.inl h
  · exact Or.inr (h.of_eq b2 e2)


/-! ## dispatching -/

/-- The bundle a descriptor stands for: the in-memory bundle, else the stored one. -/
def descTag (d : Desc) (it : Item) : Bundle :=
  match d.bndl with
  | some b => b
  | none => it.bundle

theorem dispatching_kept (env : Env) (d : Desc) (n : Node) (it : Item) (hfix : n.cfg.holdFix = true)
    (hg : n.store.get d.key = some it) (hrp : d.cons.rp = false) (hle : d.cons.le = false)
    (hcase : (∃ b, d.bndl = some b ∧ forwardable n.now b ∧ hasEndpoint n.cfg b.dst = false) ∨
      (d.bndl = none ∧ it.pending = true ∧ d.cons = it.cons ∧ it.cons.pendingRule = true ∧
        (loadable n.now it.bundle = true →
          forwardable n.now it.bundle ∧ hasEndpoint n.cfg it.bundle.dst = false))) :
    OkSent (dispatching env d n).2 (descTag d it) ∨ Kept it ((dispatching env d n).1.store.get d.key) := by
  unfold dispatching
  simp only
  have ha := dispatchingAllowed_rt env d n
  rcases ha.item it hg with ⟨ita, ga, ba, ea, ca, _, pa, _⟩
  have hnow : (dispatchingAllowed env d n).2.now = n.now := ha.only.env.now
  have hcfg : (dispatchingAllowed env d n).2.cfg = n.cfg := ha.only.env.cfg
  by_cases hal : (dispatchingAllowed env d n).1 = true
  · simp only [hal, Bool.not_true, Bool.false_eq_true, if_false]
    rcases hcase with ⟨b, hb, hf, hdst⟩ | ⟨hb, hp, hc, hne, hload⟩
    · -- first dispatch: the bundle is in memory
      have hbun : d.bundle (dispatchingAllowed env d n).2 = some b := by simp [Desc.bundle, hb]
      simp only [hbun, hcfg, hdst, Bool.false_eq_true, if_false]
      have := forward_kept env { d with bndl := some b } b (dispatchingAllowed env d n).2 ita ga hrp hle
        (by rw [hnow]; exact hf)
      simp only [descTag, hb]
      rcases this with h | h
      · exact Or.inl h
      · exact Or.inr (h.of_eq ba ea)
    · -- retry: the bundle is loaded from the store
      by_cases hl : loadable n.now it.bundle = true
      · have hbun : d.bundle (dispatchingAllowed env d n).2 = some it.bundle := by
          simp [Desc.bundle, hb, ga, hnow, ba, hl]
        simp only [hbun, hcfg, (hload hl).2, Bool.false_eq_true, if_false]
        have := forward_kept env { d with bndl := some it.bundle } it.bundle (dispatchingAllowed env d n).2 ita ga
          hrp hle (by rw [hnow]; exact (hload hl).1)
        simp only [descTag, hb]
        rcases this with h | h
        · exact Or.inl h
        · exact Or.inr (h.of_eq ba ea)
      · have hbun : d.bundle (dispatchingAllowed env d n).2 = none := by
          simp [Desc.bundle, hb, ga, hnow, ba, hl]
        simp only [hbun]
        right
        refine ⟨ita, ga, pa hp, ba, ea, ?_, ?_⟩
        · rw [ca]; exact hne
        · rw [ca, ← hc]; exact hle
  · have hal' : (dispatchingAllowed env d n).1 = false := by
      cases h : (dispatchingAllowed env d n).1 <;> simp_all
    simp only [hal', Bool.not_false, if_true, hfix]
    right
    have hne : ({ d.cons with ci := true } : Cons).isEmpty = false := by simp [Cons.isEmpty]
    have := sync_update { d with cons := { d.cons with ci := true } } _ ita ga hne
    refine ⟨_, this, ?_, ba, ea, ?_, hle⟩
    · simp [Cons.pendingRule, hrp]
    · simp [Cons.pendingRule, hrp]

theorem dispatching_only (env : Env) (d : Desc) (n : Node) (hk : WF n)
    (hb : ∀ b, d.bndl = some b → b.key = d.key) : KStep d.key n (dispatching env d n).1 := by
  unfold dispatching
  simp only
  have ha := dispatchingAllowed_rt env d n
  split
  · split
    · exact ha.kstep.trans (bundleContraindicated_only d _ hb)
    · exact ha.kstep
  · refine ha.kstep.trans ?_
    cases hbun : d.bundle (dispatchingAllowed env d n).2 with
    | none => exact KStep.refl _ _
    | some b =>
      simp only
      have hbk : b.key = d.key := by
        unfold Desc.bundle at hbun
        cases hd : d.bndl with
        | some b' =>
          simp [hd] at hbun
          subst hbun
          exact hb _ hd
        | none =>
          simp only [hd] at hbun
          cases hg : (dispatchingAllowed env d n).2.store.get d.key with
          | none => simp [hg] at hbun
          | some ita =>
            simp only [hg] at hbun
            split at hbun
            · cases hbun
              -- the item existed before `DispatchingAllowed` with the same bundle
              cases hg0 : n.store.get d.key with
              | none => rw [ha.absent hg0] at hg; cases hg
              | some it0 =>
                rcases ha.item it0 hg0 with ⟨it', g', b', _⟩
                rw [hg] at g'
                cases g'
                rw [b']
                exact hk.keyed _ _ hg0
            · cases hbun
      split
      · exact localDelivery_only { d with bndl := some b } _ (by intro b' h; cases h; exact hbk)
      · exact forward_only env { d with bndl := some b } b _ rfl hbk

theorem dispatching_outs (env : Env) (d : Desc) (n : Node) (it : Item)
    (hg : n.store.get d.key = some it) : OutsOf (dispatching env d n).2 n.peers (descTag d it).tag := by
  unfold dispatching
  simp only
  have ha := dispatchingAllowed_rt env d n
  split
  · intro o ho; simp at ho
  · cases hbun : d.bundle (dispatchingAllowed env d n).2 with
    | none => intro o ho; simp at ho
    | some b =>
      simp only
      split
      · intro o ho; simp at ho
      · have := forward_outs env { d with bndl := some b } b (dispatchingAllowed env d n).2
        rw [ha.only.env.peers] at this
        have htag : b.tag = (descTag d it).tag := by
          unfold Desc.bundle at hbun
          unfold descTag
          cases hd : d.bndl with
          | some b' => simp [hd] at hbun; rw [hbun]
          | none =>
            simp only [hd] at hbun
            rcases ha.item it hg with ⟨ita, ga, ba, _⟩
            simp only [ga] at hbun
            split at hbun
            · cases hbun; simp [ba]
            · cases hbun
        rw [htag] at this
        exact this


/-- The outputs of `forward` name the bundle `b`. -/
theorem forward_names (env : Env) (d : Desc) (b : Bundle) (n : Node) :
    ∀ o ∈ (forward env d b n).2, ∃ p ok, o = Output.sent p b ok := by
  intro o ho
  unfold forward at ho
  simp only at ho
  split at ho
  · cases ho
  · split at ho
    · cases ho
    · split at ho
      · cases ho
      · rcases forwardSend_outs env b _ o ho with ⟨p, ok, _, h⟩
        exact ⟨p, ok, h⟩

/-- The outputs of `dispatching` name the bundle the descriptor stands for. -/
theorem dispatching_names (env : Env) (d : Desc) (n : Node) (it : Item) (hg : n.store.get d.key = some it) :
    ∀ o ∈ (dispatching env d n).2, ∀ p b ok, o = Output.sent p b ok → b = descTag d it := by
  intro o ho p b ok hob
  unfold dispatching at ho
  simp only at ho
  have ha := dispatchingAllowed_rt env d n
  split at ho
  · cases ho
  · cases hbun : d.bundle (dispatchingAllowed env d n).2 with
    | none => simp only [hbun] at ho; cases ho
    | some b1 =>
      simp only [hbun] at ho
      have hb1 : b1 = descTag d it := by
        unfold Desc.bundle at hbun
        unfold descTag
        cases hd : d.bndl with
        | some b' => simp [hd] at hbun; rw [hbun]
        | none =>
          simp only [hd] at hbun
          rcases ha.item it hg with ⟨ita, ga, ba, _⟩
          simp only [ga] at hbun
          split at hbun
          · cases hbun; simp [ba]
          · cases hbun
      split at ho
      · cases ho
      · rcases forward_names env _ b1 _ o ho with ⟨q, ok', hq⟩
        rw [hob] at hq
        cases hq
        exact hb1

end Dtn7.Node
