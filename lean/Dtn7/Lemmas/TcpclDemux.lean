import Dtn7.Model.Tcpcl
import Dtn7.Lemmas.Tcpcl

/-! Demultiplexing of concurrent transfers: any interleaving of segment trains with pairwise
different transfer ids yields exactly one bundle per train, the one that was sent. -/
namespace Dtn7.Tcpcl.Lemmas
open Dtn7.Tcpcl

/-- The segments of transfer `k` inside an interleaved message sequence. -/
def proj (k : Nat) (ms : List Msg) : List Seg := (ms.filter (·.tid == k)).map (·.seg)

theorem proj_cons_self (m : Msg) (ms : List Msg) : proj m.tid (m :: ms) = m.seg :: proj m.tid ms := by
  simp [proj]

theorem proj_cons_other (m : Msg) (ms : List Msg) (k : Nat) (h : k ≠ m.tid) :
    proj k (m :: ms) = proj k ms := by
  have : (m.tid == k) = false := by
    simp only [beq_eq_false_iff_ne, ne_eq]; exact fun e => h e.symm
  simp [proj, this]

/-- Every transfer that still has segments to come is on track: its remaining segments end with
exactly one END (the last), its receiver is open, and what was received plus what is to come is
the sent data. -/
def Good (data : Nat → Bytes) (tab : Table) (ms : List Msg) : Prop :=
  ∀ k, proj k ms = [] ∨
    (endsOk (proj k ms) = true ∧ (tab.get k).fin = false ∧
      (tab.get k).buf ++ concatData (proj k ms) = data k)

theorem get_set_self (tab : Table) (k : Nat) (v : InT) : (tab.set k v).get k = v := by
  simp [Table.get, Table.set, List.find?]

theorem endsOk_fin_tail (s : Seg) (ss : List Seg) (h : endsOk (s :: ss) = true) (hf : s.fin = true) :
    ss = [] := by
  cases ss with
  | nil => rfl
  | cons t ts => rw [endsOk_cons_cons] at h; simp [hf] at h

theorem endsOk_nofin_tail (s : Seg) (ss : List Seg) (h : endsOk (s :: ss) = true)
    (hf : s.fin = false) : ss ≠ [] ∧ endsOk ss = true := by
  cases ss with
  | nil => simp [endsOk, hf] at h
  | cons t ts =>
    rw [endsOk_cons_cons] at h
    simp only [hf, Bool.not_false, Bool.true_and] at h
    exact ⟨by simp, h⟩

theorem demux_exact (data : Nat → Bytes) (ms : List Msg) (tab : Table) (hg : Good data tab ms)
    (k : Nat) (d : Bytes) :
    (demux tab ms).count (k, d) = if proj k ms ≠ [] ∧ d = data k then 1 else 0 := by
  induction ms generalizing tab with
  | nil => simp [demux, proj]
  | cons m rest ih =>
    have hm := hg m.tid
    rw [proj_cons_self] at hm
    rcases hm with hm | ⟨he, hfin, hdata⟩
    · simp at hm
    · -- the step succeeds
      have hnext : (tab.get m.tid).next m.seg =
          (⟨m.seg.fin, (tab.get m.tid).buf ++ m.seg.data⟩,
            RxOut.ack ((tab.get m.tid).buf ++ m.seg.data).length) := by
        simp [InT.next, hfin]
      by_cases hf : m.seg.fin = true
      · -- END: delivered, entry deleted, nothing more for this id
        have htail := endsOk_fin_tail _ _ he hf
        have hstep : demuxStep tab m =
            some (tab.del m.tid, some (m.tid, (tab.get m.tid).buf ++ m.seg.data)) := by
          simp [demuxStep, hnext, hf]
        have hg' : Good data (tab.del m.tid) rest := by
          intro j
          by_cases hj : j = m.tid
          · subst hj; left; exact htail
          · have := hg j
            rw [proj_cons_other m rest j hj] at this
            rw [demuxStep_other tab m _ _ j hj hstep]
            exact this
        have hdel : (tab.get m.tid).buf ++ m.seg.data = data m.tid := by
          rw [htail] at hdata; simpa [concatData] using hdata
        simp only [demux, hstep, List.count_cons, ih _ hg']
        by_cases hk : k = m.tid
        · subst hk
          rw [proj_cons_self, htail, hdel]
          by_cases hd : d = data m.tid
          · subst hd; simp
          · have : ((m.tid, data m.tid) == (m.tid, d)) = false := by
              simp only [beq_eq_false_iff_ne, ne_eq, Prod.mk.injEq, true_and]
              exact fun e => hd e.symm
            simp [hd, this]
        · rw [proj_cons_other m rest k hk]
          have : ((m.tid, (tab.get m.tid).buf ++ m.seg.data) == (k, d)) = false := by
            simp only [beq_eq_false_iff_ne, ne_eq, Prod.mk.injEq, not_and]
            exact fun e => absurd e.symm hk
          simp [this]
      · -- not END: buffered
        have hf' : m.seg.fin = false := by simpa using hf
        obtain ⟨hne, he'⟩ := endsOk_nofin_tail _ _ he hf'
        have hstep : demuxStep tab m =
            some (tab.set m.tid ⟨false, (tab.get m.tid).buf ++ m.seg.data⟩, none) := by
          simp [demuxStep, hnext, hf']
        have hg' : Good data (tab.set m.tid ⟨false, (tab.get m.tid).buf ++ m.seg.data⟩) rest := by
          intro j
          by_cases hj : j = m.tid
          · subst hj; right
            refine ⟨he', ?_, ?_⟩
            · rw [get_set_self]
            · rw [get_set_self]
              simpa [concatData, List.append_assoc] using hdata
          · have := hg j
            rw [proj_cons_other m rest j hj] at this
            rw [demuxStep_other tab m _ _ j hj hstep]
            exact this
        simp only [demux, hstep, ih _ hg']
        by_cases hk : k = m.tid
        · subst hk
          rw [proj_cons_self]
          simp [hne]
        · rw [proj_cons_other m rest k hk]

theorem good_fresh (data : Nat → Bytes) (m : Nat) (ms : List Msg)
    (h : ∀ k, proj k ms = [] ∨ SegmentsOk (data k) m (proj k ms)) : Good data [] ms := by
  intro k
  rcases h k with h | ⟨_, h2, _, h4⟩
  · left; exact h
  · right
    refine ⟨h4, rfl, ?_⟩
    show ([] : Bytes) ++ concatData (proj k ms) = data k
    simpa using h2

end Dtn7.Tcpcl.Lemmas
