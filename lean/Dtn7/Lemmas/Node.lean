/-
Basic lemmas about the node model (`Dtn7.Model.Node`): the store as a finite map, what the primitive
operations (`push`, `sync`, `modItem`, `modRt`) do to one key and that they leave every other key, the
configuration, the peers and the clock alone.
-/
import Dtn7.Model.Node

namespace Dtn7.Node

/-! ## The store as a finite map -/

theorem Store.get_set_eq (s : Store) (k : Key) (it : Item) : (s.set k it).get k = some it := by
  induction s with
  | nil => simp [Store.set, Store.get]
  | cons kv s ih =>
    obtain ⟨k', it'⟩ := kv
    by_cases h : k' = k
    · simp [Store.set, Store.get, h]
    · simp [Store.set, Store.get, h, ih]

theorem Store.get_set_ne (s : Store) (k k' : Key) (it : Item) (h : k' ≠ k) :
    (s.set k it).get k' = s.get k' := by
  induction s with
  | nil =>
    have : ¬ k = k' := fun e => h e.symm
    simp [Store.set, Store.get, this]
  | cons kv s ih =>
    obtain ⟨k₁, it₁⟩ := kv
    by_cases h1 : k₁ = k
    · subst h1
      have : ¬ k₁ = k' := fun e => h e.symm
      simp [Store.set, Store.get, this]
    · by_cases h2 : k₁ = k'
      · subst h2
        simp [Store.set, Store.get, h1]
      · simp [Store.set, Store.get, h1, h2, ih]

theorem Store.get_erase_eq (s : Store) (k : Key) : (s.erase k).get k = none := by
  induction s with
  | nil => simp [Store.erase, Store.get]
  | cons kv s ih =>
    obtain ⟨k', it'⟩ := kv
    by_cases h : k' = k
    · simp [Store.erase, h, ih]
    · simp [Store.erase, Store.get, h, ih]

theorem Store.get_erase_ne (s : Store) (k k' : Key) (h : k' ≠ k) : (s.erase k).get k' = s.get k' := by
  induction s with
  | nil => simp [Store.erase, Store.get]
  | cons kv s ih =>
    obtain ⟨k₁, it₁⟩ := kv
    by_cases h1 : k₁ = k
    · subst h1
      have : ¬ k₁ = k' := fun e => h e.symm
      simp [Store.erase, Store.get, this, ih]
    · by_cases h2 : k₁ = k'
      · subst h2
        simp [Store.erase, Store.get, h1]
      · simp [Store.erase, Store.get, h1, h2, ih]

theorem Store.mem_keys_of_get {s : Store} {k : Key} {it : Item} (h : s.get k = some it) : k ∈ s.keys := by
  induction s with
  | nil => simp [Store.get] at h
  | cons kv s ih =>
    obtain ⟨k', it'⟩ := kv
    by_cases hk : k' = k
    · simp [Store.keys, hk]
    · simp [Store.get, hk] at h
      have := ih h
      simp [Store.keys] at this ⊢
      exact Or.inr this

theorem Store.get_of_mem_keys {s : Store} {k : Key} (h : k ∈ s.keys) : ∃ it, s.get k = some it := by
  induction s with
  | nil => simp [Store.keys] at h
  | cons kv s ih =>
    obtain ⟨k', it'⟩ := kv
    by_cases hk : k' = k
    · exact ⟨it', by simp [Store.get, hk]⟩
    · simp [Store.keys] at h
      rcases h with h | h
      · exact absurd h.symm hk
      · have : k ∈ Store.keys s := by simpa [Store.keys] using h
        rcases ih this with ⟨it, hit⟩
        exact ⟨it, by simp [Store.get, hk, hit]⟩

theorem Store.get_foldl_erase (ks : List Key) : ∀ (s : Store) (k : Key),
    (ks.foldl Store.erase s).get k = if k ∈ ks then none else s.get k := by
  induction ks with
  | nil => intro s k; simp
  | cons k₀ ks ih =>
    intro s k
    simp only [List.foldl_cons, ih]
    by_cases h1 : k ∈ ks
    · simp [h1]
    · by_cases h0 : k = k₀
      · subst h0
        simp [h1, Store.get_erase_eq]
      · simp [h1, h0, Store.get_erase_ne _ _ _ h0]

theorem Store.keys_set (s : Store) (k : Key) (it : Item) :
    (s.set k it).keys = if k ∈ s.keys then s.keys else s.keys ++ [k] := by
  induction s with
  | nil => simp [Store.set, Store.keys]
  | cons kv s ih =>
    obtain ⟨k', it'⟩ := kv
    by_cases h : k' = k
    · subst h
      simp [Store.set, Store.keys]
    · have h' : ¬ k = k' := fun e => h e.symm
      simp only [Store.keys] at ih
      by_cases hm : k ∈ List.map (·.1) s
      · simp [Store.set, Store.keys, h, h', hm, ih]
      · simp [Store.set, Store.keys, h, h', hm, ih]

theorem Store.keys_erase (s : Store) (k : Key) : (s.erase k).keys = s.keys.filter (fun x => !(x == k)) := by
  induction s with
  | nil => simp [Store.erase, Store.keys]
  | cons kv s ih =>
    obtain ⟨k', it'⟩ := kv
    simp only [Store.keys] at ih
    by_cases h : k' = k
    · simp [Store.erase, Store.keys, h, ih]
    · simp [Store.erase, Store.keys, h, ih]

/-- Store invariant: every item is filed under the ID of its bundle, and no key occurs twice. -/
structure WF (n : Node) : Prop where
  keyed : ∀ k it, n.store.get k = some it → it.bundle.key = k
  nodup : n.store.keys.Nodup

theorem Store.nodup_set {s : Store} (h : s.keys.Nodup) (k : Key) (it : Item) : (s.set k it).keys.Nodup := by
  rw [Store.keys_set]
  split
  · exact h
  · rename_i hk
    exact List.nodup_append.mpr ⟨h, by simp, by
      intro a ha b hb
      simp at hb
      subst hb
      intro e
      exact hk (e ▸ ha)⟩

theorem Store.nodup_erase {s : Store} (h : s.keys.Nodup) (k : Key) : (s.erase k).keys.Nodup := by
  rw [Store.keys_erase]
  exact h.sublist List.filter_sublist

theorem lookupMeta_setMeta_eq (l : List (Key × SprayMeta)) (k : Key) (m : SprayMeta) :
    lookupMeta (setMeta l k m) k = some m := by
  induction l with
  | nil => simp [setMeta, lookupMeta]
  | cons p l ih =>
    obtain ⟨a, m'⟩ := p
    by_cases h : a = k
    · simp [setMeta, lookupMeta, h]
    · simp [setMeta, lookupMeta, h, ih]

theorem lookupMeta_setMeta_ne (l : List (Key × SprayMeta)) (k k' : Key) (m : SprayMeta) (h : k' ≠ k) :
    lookupMeta (setMeta l k m) k' = lookupMeta l k' := by
  induction l with
  | nil =>
    have : ¬ k = k' := fun e => h e.symm
    simp [setMeta, lookupMeta, this]
  | cons p l ih =>
    obtain ⟨a, m'⟩ := p
    by_cases h1 : a = k
    · subst h1
      have : ¬ a = k' := fun e => h e.symm
      simp [setMeta, lookupMeta, this]
    · by_cases h2 : a = k'
      · subst h2
        simp [setMeta, lookupMeta, h1]
      · simp [setMeta, lookupMeta, h1, h2, ih]

/-! ## What every store operation leaves alone -/

/-- Configuration, peers, clock and event counter are the same. -/
structure SameEnv (n n' : Node) : Prop where
  cfg : n'.cfg = n.cfg
  peers : n'.peers = n.peers
  now : n'.now = n.now
  evNo : n'.evNo = n.evNo

theorem SameEnv.refl (n : Node) : SameEnv n n := ⟨rfl, rfl, rfl, rfl⟩

theorem SameEnv.trans {a b c : Node} (h1 : SameEnv a b) (h2 : SameEnv b c) : SameEnv a c :=
  ⟨h2.cfg.trans h1.cfg, h2.peers.trans h1.peers, h2.now.trans h1.now, h2.evNo.trans h1.evNo⟩

/-- Only the item of key `k` may differ (and the in-memory bookkeeping of the algorithms). -/
structure OnlyKey (k : Key) (n n' : Node) : Prop where
  env : SameEnv n n'
  other : ∀ k', k' ≠ k → n'.store.get k' = n.store.get k'
  spray : ∀ k', k' ≠ k → lookupMeta n'.spray k' = lookupMeta n.spray k'

theorem OnlyKey.refl (k : Key) (n : Node) : OnlyKey k n n := ⟨SameEnv.refl n, fun _ _ => rfl, fun _ _ => rfl⟩

theorem OnlyKey.trans {k : Key} {a b c : Node} (h1 : OnlyKey k a b) (h2 : OnlyKey k b c) : OnlyKey k a c :=
  ⟨h1.env.trans h2.env, fun k' hk => (h2.other k' hk).trans (h1.other k' hk),
   fun k' hk => (h2.spray k' hk).trans (h1.spray k' hk)⟩

theorem onlyKey_setStore (k : Key) (n : Node) (s : Store) (h : ∀ k', k' ≠ k → s.get k' = n.store.get k') :
    OnlyKey k n { n with store := s } := ⟨⟨rfl, rfl, rfl, rfl⟩, h, fun _ _ => rfl⟩

theorem onlyKey_setItem (k : Key) (n : Node) (it : Item) : OnlyKey k n (n.setItem k it) :=
  onlyKey_setStore k n _ (fun _ hk => Store.get_set_ne _ _ _ _ hk)

theorem onlyKey_erase (k : Key) (n : Node) : OnlyKey k n { n with store := n.store.erase k } :=
  onlyKey_setStore k n _ (fun _ hk => Store.get_erase_ne _ _ _ hk)

theorem onlyKey_spray (k : Key) (n : Node) (m : SprayMeta) : OnlyKey k n { n with spray := setMeta n.spray k m } :=
  ⟨⟨rfl, rfl, rfl, rfl⟩, fun _ _ => rfl, fun _ hk => lookupMeta_setMeta_ne _ _ _ _ hk⟩

theorem onlyKey_attempts (k : Key) (n : Node) (a : List ((Nat × Nat × Nat) × Nat)) :
    OnlyKey k n { n with attempts := a } :=
  ⟨⟨rfl, rfl, rfl, rfl⟩, fun _ _ => rfl, fun _ _ => rfl⟩

/-! ## modItem / modRt -/

theorem modItem_get (k : Key) (f : Item → Item) (n : Node) :
    (modItem k f n).store.get k = (n.store.get k).map f := by
  unfold modItem
  cases h : n.store.get k with
  | none => simp [h]
  | some it => simp [Node.setItem, Store.get_set_eq]

theorem modItem_only (k : Key) (f : Item → Item) (n : Node) : OnlyKey k n (modItem k f n) := by
  unfold modItem
  cases h : n.store.get k with
  | none => exact OnlyKey.refl k n
  | some it => exact onlyKey_setItem k n _

theorem modItem_spray (k : Key) (f : Item → Item) (n : Node) : (modItem k f n).spray = n.spray := by
  unfold modItem; cases n.store.get k <;> rfl

theorem modItem_attempts (k : Key) (f : Item → Item) (n : Node) : (modItem k f n).attempts = n.attempts := by
  unfold modItem; cases n.store.get k <;> rfl

theorem modRt_get (k : Key) (f : Routing → Routing) (n : Node) :
    (modRt k f n).store.get k = (n.store.get k).map (fun it => { it with rt := f it.rt }) :=
  modItem_get k _ n

theorem modRt_only (k : Key) (f : Routing → Routing) (n : Node) : OnlyKey k n (modRt k f n) :=
  modItem_only k _ n

/-! ## push / sync -/

theorem push_get_absent (b : Bundle) (n : Node) (h : n.store.get b.key = none) :
    (push b n).store.get b.key = some (newItem n.cfg n.now b) := by
  simp [push, h, Node.setItem, Store.get_set_eq]

theorem push_present (b : Bundle) (n : Node) (it : Item) (h : n.store.get b.key = some it) : push b n = n := by
  simp [push, h]

theorem push_only (b : Bundle) (n : Node) : OnlyKey b.key n (push b n) := by
  unfold push
  cases n.store.get b.key with
  | none => exact onlyKey_setItem _ n _
  | some _ => exact OnlyKey.refl _ n

/-- `Sync` when the item exists and the descriptor has constraints. -/
theorem sync_update (d : Desc) (n : Node) (it : Item) (h : n.store.get d.key = some it)
    (hc : d.cons.isEmpty = false) :
    (sync d n).store.get d.key =
      some { it with pending := d.cons.pendingRule, receiver := d.receiver, cons := d.cons } := by
  simp [sync, h, hc, Node.setItem, Store.get_set_eq]

/-- `Sync` when the item exists and the descriptor has no constraint left: deleted. -/
theorem sync_delete (d : Desc) (n : Node) (it : Item) (h : n.store.get d.key = some it)
    (hc : d.cons.isEmpty = true) : (sync d n).store.get d.key = none := by
  simp [sync, h, hc, Store.get_erase_eq]

/-- `Sync` when the item does not exist: the in-memory bundle is pushed. -/
theorem sync_push (d : Desc) (n : Node) (b : Bundle) (h : n.store.get d.key = none) (hb : d.bndl = some b) :
    sync d n = push b n := by
  simp [sync, h, hb]

theorem sync_only (d : Desc) (n : Node) (hb : ∀ b, d.bndl = some b → b.key = d.key) :
    OnlyKey d.key n (sync d n) := by
  unfold sync
  cases h : n.store.get d.key with
  | none =>
    cases hd : d.bndl with
    | none => exact OnlyKey.refl _ n
    | some b =>
      have := push_only b n
      rw [hb b hd] at this
      exact this
  | some it =>
    simp only
    split
    · exact onlyKey_erase _ n
    · exact onlyKey_setItem _ n _

theorem sync_env (d : Desc) (n : Node) : SameEnv n (sync d n) := by
  unfold sync push Node.setItem
  cases n.store.get d.key with
  | none =>
    cases d.bndl with
    | none => exact SameEnv.refl n
    | some b => simp only; cases n.store.get b.key <;> exact ⟨rfl, rfl, rfl, rfl⟩
  | some it => simp only; split <;> exact ⟨rfl, rfl, rfl, rfl⟩

theorem sync_spray (d : Desc) (n : Node) : (sync d n).spray = n.spray := by
  unfold sync push Node.setItem
  cases n.store.get d.key with
  | none =>
    cases d.bndl with
    | none => rfl
    | some b => simp only; cases n.store.get b.key <;> rfl
  | some it => simp only; split <;> rfl

theorem sync_attempts (d : Desc) (n : Node) : (sync d n).attempts = n.attempts := by
  unfold sync push Node.setItem
  cases n.store.get d.key with
  | none =>
    cases d.bndl with
    | none => rfl
    | some b => simp only; cases n.store.get b.key <;> rfl
  | some it => simp only; split <;> rfl

end Dtn7.Node

namespace Dtn7.Node

/-! ## Steps that only touch routing bookkeeping -/

/-- The item of key `k` keeps its bundle, expiry, constraints and receiver; `pending` can only be
switched on; the item is neither created nor deleted. Everything the routing algorithms do to the store
is of this kind. -/
structure RtStep (k : Key) (n n' : Node) : Prop where
  only : OnlyKey k n n'
  item : ∀ it, n.store.get k = some it → ∃ it', n'.store.get k = some it' ∧ it'.bundle = it.bundle ∧
    it'.expires = it.expires ∧ it'.cons = it.cons ∧ it'.receiver = it.receiver ∧
    (it.pending = true → it'.pending = true) ∧
    -- `routing/epidemic/destination`, once written, is never changed
    (∀ e, it.rt.epiDst = some e → it'.rt.epiDst = some e)
  absent : n.store.get k = none → n'.store.get k = none
  keys : n'.store.keys = n.store.keys
  idk : n'.idk = n.idk

theorem RtStep.refl (k : Key) (n : Node) : RtStep k n n :=
  ⟨OnlyKey.refl k n, fun it h => ⟨it, h, rfl, rfl, rfl, rfl, id, fun _ h => h⟩, id, rfl, rfl⟩

theorem RtStep.trans {k : Key} {a b c : Node} (h1 : RtStep k a b) (h2 : RtStep k b c) : RtStep k a c := by
  refine ⟨h1.only.trans h2.only, ?_, fun h => h2.absent (h1.absent h), h2.keys.trans h1.keys, h2.idk.trans h1.idk⟩
  intro it h
  rcases h1.item it h with ⟨it1, g1, b1, e1, c1, r1, p1, d1⟩
  rcases h2.item it1 g1 with ⟨it2, g2, b2, e2, c2, r2, p2, d2⟩
  exact ⟨it2, g2, b2.trans b1, e2.trans e1, c2.trans c1, r2.trans r1, fun hp => p2 (p1 hp),
    fun e he => d2 e (d1 e he)⟩

/-- A step that only touches key `k` and keeps the store well-formed. -/
structure KStep (k : Key) (n n' : Node) : Prop where
  only : OnlyKey k n n'
  wf : WF n → WF n'
  idk : n'.idk = n.idk

theorem KStep.refl (k : Key) (n : Node) : KStep k n n := ⟨OnlyKey.refl k n, id, rfl⟩

theorem KStep.trans {k : Key} {a b c : Node} (h1 : KStep k a b) (h2 : KStep k b c) : KStep k a c :=
  ⟨h1.only.trans h2.only, fun h => h2.wf (h1.wf h), h2.idk.trans h1.idk⟩

theorem RtStep.kstep {k : Key} {n n' : Node} (h : RtStep k n n') : KStep k n n' := by
  refine ⟨h.only, fun w => ⟨?_, by rw [h.keys]; exact w.nodup⟩, h.idk⟩
  intro k' it' hg
  by_cases hk : k' = k
  · subst hk
    cases h0 : n.store.get k' with
    | none => rw [h.absent h0] at hg; cases hg
    | some it0 =>
      rcases h.item it0 h0 with ⟨it1, g1, b1, _⟩
      rw [hg] at g1
      cases g1
      rw [b1]
      exact w.keyed _ _ h0
  · rw [h.only.other k' hk] at hg
    exact w.keyed _ _ hg

theorem wf_setItem {n : Node} (w : WF n) (k : Key) (it : Item) (hk : it.bundle.key = k) : WF (n.setItem k it) := by
  refine ⟨?_, Store.nodup_set w.nodup k it⟩
  intro k' it' hg
  by_cases h : k' = k
  · subst h
    simp [Node.setItem, Store.get_set_eq] at hg
    subst hg
    exact hk
  · simp only [Node.setItem] at hg
    rw [Store.get_set_ne _ _ _ _ h] at hg
    exact w.keyed _ _ hg

theorem wf_erase {n : Node} (w : WF n) (k : Key) : WF { n with store := n.store.erase k } := by
  refine ⟨?_, Store.nodup_erase w.nodup k⟩
  intro k' it' hg
  by_cases h : k' = k
  · subst h
    simp [Store.get_erase_eq] at hg
  · simp only at hg
    rw [Store.get_erase_ne _ _ _ h] at hg
    exact w.keyed _ _ hg

theorem push_kstep (b : Bundle) (n : Node) : KStep b.key n (push b n) := by
  refine ⟨push_only b n, fun w => ?_, ?_⟩
  · unfold push
    cases n.store.get b.key with
    | none => exact wf_setItem w _ _ rfl
    | some _ => exact w
  · unfold push Node.setItem
    cases n.store.get b.key <;> rfl

theorem sync_kstep (d : Desc) (n : Node) (hb : ∀ b, d.bndl = some b → b.key = d.key) :
    KStep d.key n (sync d n) := by
  refine ⟨sync_only d n hb, fun w => ?_, ?_⟩
  · unfold sync
    cases h : n.store.get d.key with
    | none =>
      cases hd : d.bndl with
      | none => exact w
      | some b => exact (push_kstep b n).wf w
    | some it =>
      simp only
      split
      · exact wf_erase w _
      · exact wf_setItem w _ _ (w.keyed _ it h)
  · unfold sync push Node.setItem
    repeat' (first | rfl | split | dsimp only)

theorem rtStep_modItem (k : Key) (f : Item → Item) (n : Node)
    (hf : ∀ it, (f it).bundle = it.bundle ∧ (f it).expires = it.expires ∧ (f it).cons = it.cons ∧
      (f it).receiver = it.receiver ∧ (it.pending = true → (f it).pending = true) ∧
      (∀ e, it.rt.epiDst = some e → (f it).rt.epiDst = some e)) :
    RtStep k n (modItem k f n) := by
  refine ⟨modItem_only k f n, ?_, ?_, ?_, ?_⟩
  · intro it h
    refine ⟨f it, by simp [modItem_get, h], (hf it).1, (hf it).2.1, (hf it).2.2.1, (hf it).2.2.2.1,
      (hf it).2.2.2.2.1, (hf it).2.2.2.2.2⟩
  · intro h
    simp [modItem_get, h]
  · unfold modItem
    cases h : n.store.get k with
    | none => rfl
    | some it =>
      simp only [Node.setItem, Store.keys_set, Store.mem_keys_of_get h, if_true]
  · unfold modItem Node.setItem
    cases n.store.get k <;> rfl

theorem rtStep_modRt (k : Key) (f : Routing → Routing) (n : Node)
    (hf : ∀ r e, r.epiDst = some e → (f r).epiDst = some e) : RtStep k n (modRt k f n) :=
  rtStep_modItem k _ n (fun it => ⟨rfl, rfl, rfl, rfl, id, hf it.rt⟩)

theorem epiNotify_keeps (b : Bundle) (r : Routing) (e : Eid) (h : r.epiDst = some e) :
    (epiNotify b r).epiDst = some e := by
  unfold epiNotify
  simp only [h, Option.isNone_some, Bool.false_eq_true, if_false]
  cases b.prev with
  | none => exact h
  | some p => simp only; split <;> first | exact h | rfl

theorem rtStep_spray (k : Key) (n : Node) (m : SprayMeta) : RtStep k n { n with spray := setMeta n.spray k m } :=
  ⟨onlyKey_spray k n m, fun it h => ⟨it, h, rfl, rfl, rfl, rfl, id, fun _ h => h⟩, id, rfl, rfl⟩

theorem rtStep_attempts (k : Key) (n : Node) (a : List ((Nat × Nat × Nat) × Nat)) :
    RtStep k n { n with attempts := a } :=
  ⟨onlyKey_attempts k n a, fun it h => ⟨it, h, rfl, rfl, rfl, rfl, id, fun _ h => h⟩, id, rfl, rfl⟩

/-- Case analysis for functions that are a tree of `match`/`if` with routing-only leaves. -/
macro "rt_auto" : tactic =>
  `(tactic| repeat' (first
      | exact RtStep.refl _ _
      | exact rtStep_modRt _ _ _ (fun _ _ h => h)
      | exact rtStep_modRt _ _ _ (epiNotify_keeps _)
      | exact rtStep_modRt _ _ _ (fun _ _ h => by split <;> exact h)
      | exact rtStep_spray _ _ _
      | exact rtStep_modItem _ _ _ (fun _ => ⟨rfl, rfl, rfl, rfl, fun _ => rfl, fun _ h => h⟩)
      | split
      | dsimp only))

theorem notifyNew_rt (k : Key) (b : Bundle) (n : Node) : RtStep k n (notifyNew k b n) := by
  unfold notifyNew
  rt_auto

theorem dispatchingAllowed_rt (env : Env) (d : Desc) (n : Node) :
    RtStep d.key n (dispatchingAllowed env d n).2 := by
  unfold dispatchingAllowed
  rt_auto

theorem reportFailure_rt (d : Desc) (p : Peer) (n : Node) : RtStep d.key n (reportFailure d p n) := by
  unfold reportFailure
  rt_auto

/-- `SenderForBundle` keeps the descriptor's key, receiver and constraints. -/
theorem innerSenders_desc (env : Env) (d : Desc) (b : Bundle) (n : Node) :
    (innerSenders env d b n).2.2.1.key = d.key ∧ (innerSenders env d b n).2.2.1.cons = d.cons ∧
    (innerSenders env d b n).2.2.1.receiver = d.receiver := by
  unfold innerSenders
  repeat' (first | exact ⟨rfl, rfl, rfl⟩ | split | dsimp only)

theorem innerSenders_rt (env : Env) (d : Desc) (b : Bundle) (n : Node) :
    RtStep d.key n (innerSenders env d b n).2.2.2 := by
  unfold innerSenders
  rt_auto

theorem muleFilter_rt (d : Desc) : ∀ (ps : List Peer) (n : Node), RtStep d.key n (muleFilter d ps n).2
  | [], n => RtStep.refl _ n
  | p :: ps, n => by
    have ih := muleFilter_rt d ps n
    simp only [muleFilter]
    by_cases h : muleDrops n.cfg d p = true
    · simp only [h, if_true]
      exact ih.trans (reportFailure_rt d p _)
    · simp only [h]
      exact ih

theorem sendersFor_desc (env : Env) (d : Desc) (b : Bundle) (n : Node) :
    (sendersFor env d b n).2.2.1.key = d.key ∧ (sendersFor env d b n).2.2.1.cons = d.cons ∧
    (sendersFor env d b n).2.2.1.receiver = d.receiver := by
  unfold sendersFor
  simp only
  split
  · exact innerSenders_desc env d b n
  · exact innerSenders_desc env d b n

theorem sendersFor_rt (env : Env) (d : Desc) (b : Bundle) (n : Node) :
    RtStep d.key n (sendersFor env d b n).2.2.2 := by
  unfold sendersFor
  simp only
  split
  · have h1 := innerSenders_rt env d b n
    have hk := (innerSenders_desc env d b n).1
    have h2 := muleFilter_rt (innerSenders env d b n).2.2.1 (innerSenders env d b n).1 (innerSenders env d b n).2.2.2
    rw [hk] at h2
    exact h1.trans h2
  · exact innerSenders_rt env d b n

theorem sendAll_rt (env : Env) (d : Desc) (b : Bundle) : ∀ (ps : List Peer) (n : Node),
    RtStep d.key n (sendAll env d b ps n).1
  | [], n => RtStep.refl _ n
  | p :: ps, n => by
    simp only [sendAll]
    refine RtStep.trans ?_ (sendAll_rt env d b ps _)
    split
    · exact rtStep_attempts _ n _
    · exact (rtStep_attempts _ n _).trans (reportFailure_rt d p _)


theorem modItem_idk (k : Key) (f : Item → Item) (n : Node) : (modItem k f n).idk = n.idk := by
  unfold modItem; cases n.store.get k <;> rfl

theorem notifyNew_idk (k : Key) (b : Bundle) (n : Node) : (notifyNew k b n).idk = n.idk := by
  unfold notifyNew modRt
  repeat' (first | rfl | exact modItem_idk _ _ _ | split | dsimp only)

@[simp] theorem setIdk_store (n : Node) (x : List ((Eid × Nat) × Nat)) : (n.setIdk x).store = n.store := rfl
@[simp] theorem setIdk_cfg (n : Node) (x : List ((Eid × Nat) × Nat)) : (n.setIdk x).cfg = n.cfg := rfl
@[simp] theorem setIdk_now (n : Node) (x : List ((Eid × Nat) × Nat)) : (n.setIdk x).now = n.now := rfl
@[simp] theorem setIdk_peers (n : Node) (x : List ((Eid × Nat) × Nat)) : (n.setIdk x).peers = n.peers := rfl
@[simp] theorem setIdk_evNo (n : Node) (x : List ((Eid × Nat) × Nat)) : (n.setIdk x).evNo = n.evNo := rfl
@[simp] theorem setIdk_idk (n : Node) (x : List ((Eid × Nat) × Nat)) : (n.setIdk x).idk = x := rfl
theorem setIdk_self (n : Node) : n.setIdk n.idk = n := rfl

theorem wf_idk {n : Node} (w : WF n) (x : List ((Eid × Nat) × Nat)) : WF (n.setIdk x) :=
  ⟨w.keyed, w.nodup⟩

theorem sync_idk (d : Desc) (n : Node) : (sync d n).idk = n.idk := by
  unfold sync push Node.setItem
  repeat' (first | rfl | split | dsimp only)

end Dtn7.Node
