/-
C13 without a domain of histories: `never_to_prev_node` for EVERY history of the code as it is.
`SendBundle` files a bundle under a free ID (`assignSeq_free`), so a submission neither meets nor disturbs
a stored bundle — the hypotheses "submissions have pairwise different (source, time)" of `Domain` are not
needed any more. What remains are hypotheses about the bundles themselves (applications attach no
previous-node block; what a relayed bundle must carry for the algorithm to learn its previous node).
-/
import Dtn7.Lemmas.NodeBook
import Dtn7.Lemmas.NodeSkip
import Dtn7.Lemmas.NodeFull

namespace Dtn7.Node

/-- `sendBundle_bstep` in every state: the item under the assigned ID holds the submitted bundle (with the
assigned number); all outputs are transmissions of it. -/
theorem sendBundle_bstep_any (env : Env) (b : Bundle) (n : Node)
    (hseq : n.cfg.seqFirst = true) (hskip : n.cfg.skipStored = true) :
    BStep (assignSeq b n).1 (assignSeq b n).1.key n (sendBundle env b n).1 ∧
    ∀ o ∈ (sendBundle env b n).2, ∃ p ok, o = Output.sent p (assignSeq b n).1 ok := by
  rcases assignSeq_free b n hskip with ⟨⟨q, hq⟩, ⟨x, hx⟩, _⟩
  have hpair : assignSeq b n = ({ b with seq := q }, n.setIdk x) := Prod.ext hq hx
  unfold sendBundle
  simp only [hseq, if_true, hpair]
  generalize ({ b with seq := q } : Bundle) = b'
  unfold newDescFromBundle
  simp only
  have hDk := newDesc_key (n.setIdk x) b'.key
  generalize newDesc (n.setIdk x) b'.key = D at hDk ⊢
  obtain ⟨Dk, Dr, Dc, Db⟩ := D
  simp only at hDk
  subst hDk
  simp only
  have hbk : ∀ b0, ({ key := b'.key, receiver := Dr, cons := Dc, bndl := some b' } : Desc).bndl = some b0 →
      Like b' b0 ∧ b0.key = b'.key := by
    intro b0 h; cases h; exact ⟨Like.refl _, rfl⟩
  have s1 := (setIdk_bstep b' b'.key n x).trans
    (sync_bstep b' { key := b'.key, receiver := Dr, cons := Dc, bndl := some b' } (n.setIdk x) hbk)
  have k1 := sync_kstep { key := b'.key, receiver := Dr, cons := Dc, bndl := some b' } (n.setIdk x) (fun b0 h => (hbk b0 h).2)
  have rt2 := notifyNew_rt b'.key b' (sync { key := b'.key, receiver := Dr, cons := Dc, bndl := some b' } (n.setIdk x))
  have s2 := s1.trans (rt2.bstep (b := b'))
  have hcfg12 : (notifyNew b'.key b' (sync { key := b'.key, receiver := Dr, cons := Dc, bndl := some b' } (n.setIdk x))).cfg = n.cfg :=
    rt2.only.env.cfg.trans k1.only.env.cfg
  have k3 := transmit_bstep env { key := b'.key, receiver := Dr, cons := Dc, bndl := some b' } b'
    (notifyNew b'.key b' (sync { key := b'.key, receiver := Dr, cons := Dc, bndl := some b' } (n.setIdk x))) rfl
    (by rw [hcfg12]; exact Or.inl hseq)
  exact ⟨s2.trans k3.1, k3.2⟩

/-- A submission (no previous-node block) keeps the invariant and sends nothing back — in every state. -/
theorem submit_prev_any (env : Env) (c : Cfg) (b : Bundle) (n : Node) (w : WF n) (hp : PrevInv c n)
    (hseq : n.cfg.seqFirst = true) (hskip : n.cfg.skipStored = true) (hprev : b.prev = none) :
    PrevInv c (sendBundle env b n).1 ∧ ∀ o ∈ (sendBundle env b n).2, NoRet c o := by
  have hstep := (sendBundle_only_any env b n w hseq hskip).2.1
  have hb := sendBundle_bstep_any env b n hseq hskip
  rcases assignSeq_free b n hskip with ⟨⟨q, hq⟩, _, hfresh⟩
  have hprev' : (assignSeq b n).1.prev = none := by rw [hq]; exact hprev
  constructor
  · intro k it' hg' hrep e he
    by_cases hk : k = (assignSeq b n).1.key
    · subst hk
      rcases hb.1.bundle it' hg' with ⟨it0, g0, l0⟩ | l0
      · rw [hfresh] at g0; cases g0
      · rw [PrevE_like l0] at he
        unfold PrevE at he
        rw [hprev'] at he
        exact absurd he.1 (by simp)
    · rw [hstep.other k hk] at hg'
      exact booked_frame hstep hk e (hp k it' hg' hrep e he)
  · intro o ho p b' ok hob hns hrep hpr
    rcases hb.2 o ho with ⟨q', ok', hq'⟩
    rw [hob] at hq'
    cases hq'
    rw [hprev'] at hpr
    cases hpr

/-- What `never_to_prev_node` assumes about the bundles of a history (nothing about IDs): applications do
not attach previous-node blocks; a relayed bundle with a previous node satisfies `seedsPrev` (spray: not a
bundle of this node; binary spray: carries the BinarySprayBlock or is not a bundle of this node). -/
structure Bundles13 (c : Cfg) (h : List Event) : Prop where
  subPrev : ∀ b ∈ submitted h, b.prev = none
  recvSeeds : ∀ b ∈ received h, seedsPrev c b ∨ b.prev = none

theorem prev_step_any (c : Cfg) (hc : Cur c) (env : Env) (e : Event)
    (hsub : ∀ b, e = .submit b → b.prev = none)
    (hrecv : ∀ b r, e = .receive b r → seedsPrev c b ∨ b.prev = none)
    (s : SpecSt) (n : Node) (inv : VInv c s n) (hp : PrevInv c n) :
    returnFail c (obsOf (e, (step env n e).2, (step env n e).1)) = none ∧ PrevInv c (step env n e).1 := by
  suffices h : PrevInv c (stepCore env n e).1 ∧ ∀ o ∈ (stepCore env n e).2, NoRet c o by
    constructor
    · apply noRet_returnFail
      intro o ho
      rcases List.mem_append.mp ho with h1 | h1
      · exact h.2 o h1
      · unfold deletedKeys at h1
        rcases List.mem_map.mp h1 with ⟨kv, _, hk⟩
        intro p b ok hob
        rw [← hk] at hob
        cases hob
    · exact prevInv_storeSame c _ _ h.1 rfl rfl (Or.inl rfl)
  cases e with
  | submit b =>
    exact submit_prev_any env c b n inv.wf hp (by rw [inv.cfg]; exact hc.seq) (by rw [inv.cfg]; exact hc.skip)
      (hsub b rfl)
  | receive b r => exact receive_prev env c b r n inv.wf inv.cfg hp (hrecv b r rfl)
  | peerUp p =>
    simp only [stepCore]
    split
    · exact dispatchKeys_prev env c _ n inv.wf inv.cfg hp
    · exact dispatchKeys_prev env c _ _ ⟨inv.wf.keyed, inv.wf.nodup⟩ inv.cfg
        (prevInv_storeSame c n _ hp rfl rfl (Or.inl rfl))
  | peerDown a =>
    exact ⟨prevInv_storeSame c n _ hp rfl rfl (Or.inl rfl), fun o ho => by cases ho⟩
  | retryTick => exact dispatchKeys_prev env c _ n inv.wf inv.cfg hp
  | restart =>
    exact ⟨prevInv_storeSame c n _ hp rfl rfl (Or.inr rfl), fun o ho => by cases ho⟩
  | cleanTick t =>
    refine ⟨?_, fun o ho => by cases ho⟩
    intro k it hg hrep e he hh
    have hget : ∀ k, (stepCore env n (.cleanTick t)).1.store.get k =
        if k ∈ expiredKeys n.store t then none else n.store.get k := by
      intro k
      simp only [stepCore, deleteExpired]
      exact Store.get_foldl_erase _ _ _
    rw [hget] at hg
    split at hg
    · cases hg
    · rename_i hk
      have hb := hp k it hg hrep e he
      unfold Booked hasBook sentL at hb
      unfold hasBook at hh
      unfold sentL
      have hcfg : (stepCore env n (.cleanTick t)).1.cfg = n.cfg := rfl
      have hsp : (stepCore env n (.cleanTick t)).1.spray = n.spray := rfl
      rw [hcfg, hsp, hget] at *
      simp only [hk, if_false] at hh ⊢
      exact hb hh

theorem prev_run_any (c : Cfg) (hc : Cur c) (env : Env) :
    ∀ (h : List Event) (s : SpecSt) (n : Node) (i : Nat), Bundles13 c h → RInvF c s n →
    PrevInv c n → firstFail (fun c _ o => returnFail c o) c s i ((trace env n h).map obsOf) = none
  | [], _, _, _, _, _, _ => rfl
  | e :: h, s, n, i, hb, inv, hp => by
    simp only [trace, List.map_cons, firstFail]
    have h2 := (rinvF_step c hc env e s n inv).2
    have hsub : ∀ b, e = .submit b → b.prev = none := by
      intro b he; subst he
      exact hb.subPrev b (by simp [submitted])
    have hrecv : ∀ b r, e = .receive b r → seedsPrev c b ∨ b.prev = none := by
      intro b r he; subst he
      exact hb.recvSeeds b (by simp [received])
    rcases prev_step_any c hc env e hsub hrecv s n inv.v hp with ⟨h3, h4⟩
    rw [h3]
    simp only
    refine prev_run_any c hc env h _ _ (i + 1) ⟨?_, ?_⟩ h2 h4
    · intro b hbm
      apply hb.subPrev b
      cases e <;> simp [submitted, hbm]
    · intro b hbm
      apply hb.recvSeeds b
      cases e <;> simp [received, hbm]

end Dtn7.Node
