/-
Lemmas about the PRoPHET model that do not depend on the number type: every property of the
tables follows from a handful of facts about the three update formulas (`Laws`); the forwarding
decision. The two instances (exact rationals, binary64) are in `Lemmas/ProphetRat.lean` and
`Lemmas/ProphetF64.lean`.
-/
import Dtn7.Model.Prophet

namespace Dtn7.Lemmas.Prophet
open Dtn7.Prophet

variable {κ : Type} [DecidableEq κ] {α : Type}

/-- What the invariants need to know about the arithmetic: `Dom` is "is a probability" (for
binary64 additionally: is a double), `le` the order. -/
structure Laws (o : Ops α) (le : α → α → Prop) (Dom : α → Prop) : Prop where
  le_refl : ∀ a, le a a
  le_trans : ∀ a b c, le a b → le b c → le a c
  dom_zero : Dom o.zero
  enc : ∀ c p, Dom c → Dom p → Dom (encounterVal o c p) ∧ le p (encounterVal o c p)
  age : ∀ g p, Dom g → Dom p → Dom (ageVal o g p) ∧ le (ageVal o g p) p
  trans : ∀ b p a c, Dom b → Dom p → Dom a → Dom c →
    Dom (transVal o b p a c) ∧ le p (transVal o b p a c)

def MapDom (Dom : α → Prop) (m : List (κ × α)) : Prop := ∀ kv ∈ m, Dom kv.2

def StDom (Dom : α → Prop) (st : St κ α) : Prop :=
  MapDom Dom st.own ∧ ∀ pv ∈ st.peers, MapDom Dom pv.2

def CfgDom (Dom : α → Prop) (cfg : Cfg α) : Prop := Dom cfg.pInit ∧ Dom cfg.beta ∧ Dom cfg.gamma

def EvDom (Dom : α → Prop) : Ev κ α → Prop
  | .receive _ _ vec => MapDom Dom vec
  | _ => True

/-! ### association lists -/

theorem get_dom {Dom : α → Prop} {z : α} (hz : Dom z) (m : List (κ × α)) (hm : MapDom Dom m) (k : κ) :
    Dom (mget z m k) := by
  induction m with
  | nil => exact hz
  | cons kv t ih =>
    obtain ⟨k', v⟩ := kv
    simp only [mget]
    split
    · exact hm (k', v) (List.mem_cons_self ..)
    · exact ih fun x hx => hm x (List.mem_cons_of_mem _ hx)

theorem set_dom {Dom : α → Prop} (m : List (κ × α)) (hm : MapDom Dom m) (k : κ) (v : α) (hv : Dom v) :
    MapDom Dom (mset m k v) := by
  induction m with
  | nil => intro kv hkv; simp only [mset, List.mem_singleton] at hkv; subst hkv; exact hv
  | cons kv t ih =>
    obtain ⟨k', v'⟩ := kv
    simp only [mset]
    split
    · intro x hx
      rcases List.mem_cons.1 hx with rfl | hx
      · exact hv
      · exact hm x (List.mem_cons_of_mem _ hx)
    · intro x hx
      rcases List.mem_cons.1 hx with rfl | hx
      · exact hm _ (List.mem_cons_self ..)
      · exact ih (fun y hy => hm y (List.mem_cons_of_mem _ hy)) x hx

theorem get_set_eq (z : α) (m : List (κ × α)) (k : κ) (v : α) : mget z (mset m k v) k = v := by
  induction m with
  | nil => simp [mset, mget]
  | cons kv t ih =>
    obtain ⟨k', v'⟩ := kv
    simp only [mset]
    split
    · simp [mget]
    · next h => simp [mget, h, ih]

theorem get_set_ne (z : α) (m : List (κ × α)) (k k' : κ) (v : α) (h : k ≠ k') :
    mget z (mset m k v) k' = mget z m k' := by
  induction m with
  | nil => simp [mset, mget, h]
  | cons kv t ih =>
    obtain ⟨k'', v'⟩ := kv
    simp only [mset]
    split
    · next h2 => subst h2; simp [mget, h]
    · simp only [mget, ih]

theorem lookupVec_mem (ps : List (κ × List (κ × α))) (k : κ) (vec : List (κ × α))
    (h : lookupVec ps k = some vec) : ∃ k', (k', vec) ∈ ps := by
  induction ps with
  | nil => simp [lookupVec] at h
  | cons kv t ih =>
    obtain ⟨k', v⟩ := kv
    simp only [lookupVec] at h
    split at h
    · injection h with h; subst h; exact ⟨k', List.mem_cons_self ..⟩
    · obtain ⟨k'', hk⟩ := ih h; exact ⟨k'', List.mem_cons_of_mem _ hk⟩

theorem setVec_dom {Dom : α → Prop} (ps : List (κ × List (κ × α)))
    (hp : ∀ pv ∈ ps, MapDom Dom pv.2) (k : κ) (vec : List (κ × α)) (hv : MapDom Dom vec) :
    ∀ pv ∈ setVec ps k vec, MapDom Dom pv.2 := by
  induction ps with
  | nil => intro pv h; simp only [setVec, List.mem_singleton] at h; subst h; exact hv
  | cons kv t ih =>
    obtain ⟨k', v'⟩ := kv
    simp only [setVec]
    split
    · intro x hx
      rcases List.mem_cons.1 hx with rfl | hx
      · exact hv
      · exact hp x (List.mem_cons_of_mem _ hx)
    · intro x hx
      rcases List.mem_cons.1 hx with rfl | hx
      · exact hp _ (List.mem_cons_self ..)
      · exact ih (fun y hy => hp y (List.mem_cons_of_mem _ hy)) x hx

/-! ### the range invariant -/

section inv
variable {o : Ops α} {le : α → α → Prop} {Dom : α → Prop}

theorem encounter_dom (L : Laws o le Dom) (cfg : Cfg α) (hc : CfgDom Dom cfg) (st : St κ α)
    (hs : StDom Dom st) (peer : κ) : StDom Dom (encounter o cfg st peer) :=
  ⟨set_dom _ hs.1 _ _ (L.enc _ _ hc.1 (get_dom L.dom_zero _ hs.1 _)).1, hs.2⟩

omit [DecidableEq κ] in
theorem ageAll_dom (L : Laws o le Dom) (cfg : Cfg α) (hc : CfgDom Dom cfg) (st : St κ α)
    (hs : StDom Dom st) : StDom Dom (ageAll (κ := κ) o cfg st) := by
  refine ⟨?_, hs.2⟩
  intro kv hkv
  simp only [ageAll, List.mem_map] at hkv
  obtain ⟨x, hx, rfl⟩ := hkv
  exact (L.age _ _ hc.2.2 (hs.1 x hx)).1

theorem transStep_dom (L : Laws o le Dom) (cfg : Cfg α) (hc : CfgDom Dom cfg) (peer : κ)
    (own : List (κ × α)) (ho : MapDom Dom own) (e : κ × α) (he : Dom e.2) :
    MapDom Dom (transStep o cfg peer own e) :=
  set_dom _ ho _ _ (L.trans _ _ _ _ hc.2.1 (get_dom L.dom_zero _ ho _) (get_dom L.dom_zero _ ho _) he).1

theorem transFold_dom (L : Laws o le Dom) (cfg : Cfg α) (hc : CfgDom Dom cfg) (peer : κ)
    (vec : List (κ × α)) (hv : MapDom Dom vec) :
    ∀ own : List (κ × α), MapDom Dom own → MapDom Dom (vec.foldl (transStep o cfg peer) own) := by
  induction vec with
  | nil => intro own ho; exact ho
  | cons e t ih =>
    intro own ho
    exact ih (fun x hx => hv x (List.mem_cons_of_mem _ hx)) _
      (transStep_dom L cfg hc peer own ho e (hv e (List.mem_cons_self ..)))

theorem transitivity_dom (L : Laws o le Dom) (cfg : Cfg α) (hc : CfgDom Dom cfg) (st : St κ α)
    (hs : StDom Dom st) (peer : κ) : StDom Dom (transitivity o cfg st peer) := by
  unfold transitivity
  split
  · exact hs
  · next vec hl =>
    obtain ⟨k', hk⟩ := lookupVec_mem _ _ _ hl
    exact ⟨transFold_dom L cfg hc peer vec (hs.2 _ hk) _ hs.1, hs.2⟩

theorem receiveVec_dom (L : Laws o le Dom) (cfg : Cfg α) (hc : CfgDom Dom cfg) (st : St κ α)
    (hs : StDom Dom st) (toMe : Bool) (peer : κ) (vec : List (κ × α)) (hv : MapDom Dom vec) :
    StDom Dom (receiveVec o cfg st toMe peer vec) := by
  unfold receiveVec
  split
  · have h' : StDom Dom ({ st with peers := setVec st.peers peer vec } : St κ α) :=
      ⟨hs.1, setVec_dom _ hs.2 _ _ hv⟩
    exact transitivity_dom L cfg hc _ h' peer
  · exact hs

theorem step_dom (L : Laws o le Dom) (cfg : Cfg α) (hc : CfgDom Dom cfg) (st : St κ α)
    (hs : StDom Dom st) (ev : Ev κ α) (he : EvDom Dom ev) : StDom Dom (step o cfg st ev) := by
  cases ev with
  | encounter p => exact encounter_dom L cfg hc st hs p
  | age => exact ageAll_dom L cfg hc st hs
  | receive toMe p vec => exact receiveVec_dom L cfg hc st hs toMe p vec he

/-- The range invariant for all event sequences (induction over the event list). -/
theorem run_dom (L : Laws o le Dom) (cfg : Cfg α) (hc : CfgDom Dom cfg) (evs : List (Ev κ α))
    (he : ∀ ev ∈ evs, EvDom Dom ev) : ∀ st : St κ α, StDom Dom st → StDom Dom (run o cfg st evs) := by
  induction evs with
  | nil => intro st hs; exact hs
  | cons ev t ih =>
    intro st hs
    exact ih (fun x hx => he x (List.mem_cons_of_mem _ hx)) _
      (step_dom L cfg hc st hs ev (he ev (List.mem_cons_self ..)))

/-! ### monotonicity, for every key -/

theorem encounter_le (L : Laws o le Dom) (cfg : Cfg α) (hc : CfgDom Dom cfg) (st : St κ α)
    (hs : StDom Dom st) (peer k : κ) :
    le (mget o.zero st.own k) (mget o.zero (encounter o cfg st peer).own k) := by
  simp only [encounter]
  by_cases h : peer = k
  · subst h
    rw [get_set_eq]
    exact (L.enc _ _ hc.1 (get_dom L.dom_zero _ hs.1 _)).2
  · rw [get_set_ne _ _ _ _ _ h]
    exact L.le_refl _

theorem ageAll_le (L : Laws o le Dom) (cfg : Cfg α) (hc : CfgDom Dom cfg) (st : St κ α)
    (hs : StDom Dom st) (k : κ) :
    le (mget o.zero (ageAll o cfg st).own k) (mget o.zero st.own k) := by
  obtain ⟨own, peers⟩ := st
  have ho : MapDom Dom own := hs.1
  simp only [ageAll]
  clear hs
  induction own with
  | nil => exact L.le_refl _
  | cons kv t ih =>
    obtain ⟨k', v⟩ := kv
    simp only [List.map_cons, mget]
    split
    · exact (L.age _ _ hc.2.2 (ho (k', v) (List.mem_cons_self ..))).2
    · exact ih fun x hx => ho x (List.mem_cons_of_mem _ hx)

theorem transStep_le (L : Laws o le Dom) (cfg : Cfg α) (hc : CfgDom Dom cfg) (peer : κ)
    (own : List (κ × α)) (ho : MapDom Dom own) (e : κ × α) (he : Dom e.2) (k : κ) :
    le (mget o.zero own k) (mget o.zero (transStep o cfg peer own e) k) := by
  simp only [transStep]
  by_cases h : e.1 = k
  · subst h
    rw [get_set_eq]
    exact (L.trans _ _ _ _ hc.2.1 (get_dom L.dom_zero _ ho _) (get_dom L.dom_zero _ ho _) he).2
  · rw [get_set_ne _ _ _ _ _ h]
    exact L.le_refl _

theorem transFold_le (L : Laws o le Dom) (cfg : Cfg α) (hc : CfgDom Dom cfg) (peer : κ)
    (vec : List (κ × α)) (hv : MapDom Dom vec) (k : κ) :
    ∀ own : List (κ × α), MapDom Dom own →
      le (mget o.zero own k) (mget o.zero (vec.foldl (transStep o cfg peer) own) k) := by
  induction vec with
  | nil => intro own _; exact L.le_refl _
  | cons e t ih =>
    intro own ho
    have he := hv e (List.mem_cons_self ..)
    exact L.le_trans _ _ _ (transStep_le L cfg hc peer own ho e he k)
      (ih (fun x hx => hv x (List.mem_cons_of_mem _ hx)) _ (transStep_dom L cfg hc peer own ho e he))

theorem receiveVec_le (L : Laws o le Dom) (cfg : Cfg α) (hc : CfgDom Dom cfg) (st : St κ α)
    (hs : StDom Dom st) (toMe : Bool) (peer : κ) (vec : List (κ × α)) (hv : MapDom Dom vec) (k : κ) :
    le (mget o.zero st.own k) (mget o.zero (receiveVec o cfg st toMe peer vec).own k) := by
  unfold receiveVec
  split
  · unfold transitivity
    split
    · exact L.le_refl _
    · next vec' hl =>
      obtain ⟨k', hk⟩ := lookupVec_mem _ _ _ hl
      exact transFold_le L cfg hc peer vec' (setVec_dom _ hs.2 _ _ hv _ hk) k _ hs.1
  · exact L.le_refl _

end inv

/-! ### the forwarding decision -/

theorem chooseLoop_mem (o : Ops α) (st : St κ α) (dest : κ) (conn : List κ) :
    ∀ (chosen sent : List κ) (p : κ), p ∈ (chooseLoop o st dest conn chosen sent).1 →
      p ∈ chosen ∨ (p ∈ conn ∧ o.lt (mget o.zero st.own dest) (peerPred o st p dest) = true ∧ p ∉ sent) := by
  induction conn with
  | nil => intro chosen sent p h; exact Or.inl h
  | cons cs rest ih =>
    intro chosen sent p h
    simp only [chooseLoop] at h
    split at h
    · next hlt =>
      split at h
      · rcases ih _ _ _ h with h | ⟨h1, h2, h3⟩
        · exact Or.inl h
        · exact Or.inr ⟨List.mem_cons_of_mem _ h1, h2, h3⟩
      · next hns =>
        rcases ih _ _ _ h with h | ⟨h1, h2, h3⟩
        · rcases List.mem_append.1 h with h | h
          · exact Or.inl h
          · simp only [List.mem_singleton] at h
            subst h
            exact Or.inr ⟨List.mem_cons_self .., hlt, hns⟩
        · exact Or.inr ⟨List.mem_cons_of_mem _ h1, h2, fun hp => h3 (List.mem_append_left _ hp)⟩
    · rcases ih _ _ _ h with h | ⟨h1, h2, h3⟩
      · exact Or.inl h
      · exact Or.inr ⟨List.mem_cons_of_mem _ h1, h2, h3⟩

theorem senderForBundle_mem (o : Ops α) (st : St κ α) (isMeta : Bool) (dest : κ) (conn sent : List κ)
    (p : κ) (h : p ∈ (senderForBundle o st isMeta dest conn sent).1) :
    isMeta = false ∧ p ∈ conn ∧
      o.lt (mget o.zero st.own dest) (peerPred o st p dest) = true ∧ p ∉ sent := by
  unfold senderForBundle at h
  split at h
  · simp at h
  · next hm =>
    rcases chooseLoop_mem o st dest conn [] sent p h with h | h
    · simp at h
    · exact ⟨by simpa using hm, h⟩

theorem senderForBundle_meta (o : Ops α) (st : St κ α) (dest : κ) (conn sent : List κ) :
    senderForBundle o st true dest conn sent = ([], true) := by
  simp [senderForBundle]

theorem forwardTargets_mem (o : Ops α) (st : St κ α) (isMeta : Bool) (dest : κ) (conn sent : List κ)
    (p : κ) (h : p ∈ forwardTargets o st isMeta dest conn sent) :
    p = dest ∨ (isMeta = false ∧ p ∈ conn ∧
      o.lt (mget o.zero st.own dest) (peerPred o st p dest) = true ∧ p ∉ sent) := by
  simp only [forwardTargets] at h
  split at h
  · exact Or.inr (senderForBundle_mem o st isMeta dest conn sent p h)
  · simp only [List.mem_filter, decide_eq_true_eq] at h
    exact Or.inl h.2

end Dtn7.Lemmas.Prophet
