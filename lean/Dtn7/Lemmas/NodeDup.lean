/-
C13 along every history, part 2: a generic "booked set" invariant (instances: the previous node; the
peers that got the bundle successfully) and `never_twice`.
-/
import Dtn7.Lemmas.NodeBook

namespace Dtn7.Node

/-- A class of endpoint IDs attached to bundles that only depends on the routing identity of the bundle
and never contains the destination's node. -/
structure EClass (EB : Bundle → Eid → Prop) : Prop where
  like : ∀ a b, Like a b → EB b = EB a
  notDst : ∀ b e, EB b e → e.sameNode b.dst = false

/-- Every member of the class of a stored bundle is booked. -/
def GenInv (EB : Bundle → Eid → Prop) (c : Cfg) (n : Node) : Prop :=
  ∀ k it, n.store.get k = some it → replicates c it.bundle = true → ∀ e, EB it.bundle e → Booked n k e

/-- The algorithm did not choose a member of the bundle's class. -/
def OutOk (EB : Bundle → Eid → Prop) (c : Cfg) (o : Output) : Prop :=
  ∀ p b ok, o = Output.sent p b ok → p.eid.sameNode b.dst = false → replicates c b = true → ¬ EB b p.eid

/-- A chosen peer whose transmission succeeded is booked under the bundle's ID. -/
def OkB (c : Cfg) (n : Node) (o : Output) : Prop :=
  ∀ p b, o = Output.sent p b true → p.eid.sameNode b.dst = false → replicates c b = true → Booked n b.key p.eid

theorem dispatching_ok_booked (env : Env) (d : Desc) (n : Node) (it : Item) (b : Bundle)
    (hg : n.store.get d.key = some it) (hd : d.bndl = some b ∨ (d.bndl = none ∧ it.bundle = b))
    (hrep : replicates n.cfg b = true) :
    ∀ p, Output.sent p b true ∈ (dispatching env d n).2 → p.eid.sameNode b.dst = false →
      Booked (dispatching env d n).1 d.key p.eid := by
  intro p hmem hns
  unfold dispatching at hmem ⊢
  simp only at hmem ⊢
  have ha := dispatchingAllowed_rt env d n
  rcases ha.item it hg with ⟨ita, ga, ba, _⟩
  have hcfg : (dispatchingAllowed env d n).2.cfg = n.cfg := ha.only.env.cfg
  split at hmem
  · cases hmem
  · rename_i hal
    simp only [hal, Bool.false_eq_true, if_false]
    cases hbun : d.bundle (dispatchingAllowed env d n).2 with
    | none => simp only [hbun] at hmem; cases hmem
    | some b1 =>
      simp only [hbun] at hmem ⊢
      have hb1 : b1 = b := by
        unfold Desc.bundle at hbun
        rcases hd with h | ⟨h, hib⟩
        · simp [h] at hbun; exact hbun.symm
        · simp only [h, ga] at hbun
          split at hbun
          · cases hbun; rw [ba]; exact hib
          · cases hbun
      subst hb1
      split at hmem
      · cases hmem
      · rename_i hloc
        simp only [hloc, Bool.false_eq_true, if_false]
        exact forward_ok_booked env { d with bndl := some b1 } b1 _ ita ga (by rw [hcfg]; exact hrep) p hmem hns

theorem dispatch_gen (env : Env) (EB : Bundle → Eid → Prop) (hEB : EClass EB) (c : Cfg) (n : Node) (k : Key)
    (w : WF n) (hc : n.cfg = c) (hp : GenInv EB c n) :
    GenInv EB c (dispatching env (newDesc n k) n).1 ∧
    ∀ o ∈ (dispatching env (newDesc n k) n).2, OutOk EB c o ∧ OkB c (dispatching env (newDesc n k) n).1 o ∧
      ∀ p b ok, o = Output.sent p b ok → b.key = k ∧ ∃ it, n.store.get k = some it ∧ b = it.bundle := by
  have hd := dispatching_only env (newDesc n k) n w (by intro b h; rw [newDesc_bndl] at h; cases h)
  rw [newDesc_key] at hd
  cases hg : n.store.get k with
  | none =>
    have hnone : dispatching env (newDesc n k) n = ((dispatching env (newDesc n k) n).1, []) ∧
        (dispatching env (newDesc n k) n).1.store.get k = none := by
      unfold dispatching
      simp only
      have ha := dispatchingAllowed_rt env (newDesc n k) n
      rw [newDesc_key] at ha
      have hna := ha.absent hg
      split
      · split
        · refine ⟨rfl, ?_⟩
          unfold bundleContraindicated sync
          simp only [newDesc_key, hna, newDesc_bndl]
        · exact ⟨rfl, hna⟩
      · have : (newDesc n k).bundle (dispatchingAllowed env (newDesc n k) n).2 = none := by
          unfold Desc.bundle
          simp only [newDesc_bndl, newDesc_key, hna]
        simp only [this]
        exact ⟨trivial, hna⟩
    constructor
    · intro k' it' hg' hrep e he
      by_cases hk : k' = k
      · subst hk; rw [hnone.2] at hg'; cases hg'
      · rw [hd.only.other k' hk] at hg'
        exact booked_frame hd.only hk e (hp k' it' hg' hrep e he)
    · intro o ho
      rw [hnone.1] at ho
      cases ho
  | some it =>
    have hkey : it.bundle.key = k := w.keyed _ _ hg
    have hlike := dispatching_bstep env (newDesc n k) it.bundle n
      (Or.inr ⟨newDesc_bndl n k, it, by rw [newDesc_key]; exact hg, rfl⟩)
      (by rw [newDesc_key]; exact hkey)
    rw [newDesc_key] at hlike
    have hnames : ∀ o ∈ (dispatching env (newDesc n k) n).2, ∀ p b ok, o = Output.sent p b ok → b = it.bundle := by
      intro o ho p b ok hob
      have := dispatching_names env (newDesc n k) n it (by rw [newDesc_key]; exact hg) o ho p b ok hob
      simpa [descTag, newDesc_bndl] using this
    have hitem' : ∀ it', (dispatching env (newDesc n k) n).1.store.get k = some it' → Like it.bundle it'.bundle := by
      intro it' hg'
      rcases hlike.bundle it' hg' with ⟨it0, g0, l0⟩ | l0
      · rw [hg] at g0; cases g0; exact l0
      · exact l0
    by_cases hrep : replicates c it.bundle = true
    · have hb := dispatching_book env (newDesc n k) n it it.bundle (by rw [newDesc_key]; exact hg)
        (Or.inr ⟨newDesc_bndl n k, rfl⟩) (by rw [hc]; exact hrep) (EB it.bundle)
        ⟨fun e he => hEB.notDst _ e he, fun e he => by rw [newDesc_key]; exact hp k it hg hrep e he⟩
      have hokb := dispatching_ok_booked env (newDesc n k) n it it.bundle (by rw [newDesc_key]; exact hg)
        (Or.inr ⟨newDesc_bndl n k, rfl⟩) (by rw [hc]; exact hrep)
      rw [newDesc_key] at hb hokb
      constructor
      · intro k' it' hg' hrep' e he
        by_cases hk : k' = k
        · subst hk
          rw [hEB.like _ _ (hitem' it' hg')] at he
          exact hb.2 e he
        · rw [hd.only.other k' hk] at hg'
          exact booked_frame hd.only hk e (hp k' it' hg' hrep' e he)
      · intro o ho
        refine ⟨?_, ?_, ?_⟩
        · intro p b ok hob hns hrepb hE
          have hbb := hnames o ho p b ok hob
          subst hbb
          subst hob
          exact (hb.1 p _ ok ho).2 hns hE
        · intro p b hob hns hrepb
          have hbb := hnames o ho p b true hob
          subst hbb
          subst hob
          rw [hkey]
          exact hokb p ho hns
        · intro p b ok hob
          rw [hnames o ho p b ok hob]
          exact ⟨hkey, it, rfl, rfl⟩
    · constructor
      · intro k' it' hg' hrep' e he
        by_cases hk : k' = k
        · subst hk
          rw [replicates_like (hitem' it' hg')] at hrep'
          exact absurd hrep' hrep
        · rw [hd.only.other k' hk] at hg'
          exact booked_frame hd.only hk e (hp k' it' hg' hrep' e he)
      · intro o ho
        refine ⟨?_, ?_, ?_⟩
        · intro p b ok hob hns hrepb hE
          rw [hnames o ho p b ok hob] at hrepb
          exact hrep hrepb
        · intro p b hob hns hrepb
          rw [hnames o ho p b true hob] at hrepb
          exact absurd hrepb hrep
        · intro p b ok hob
          rw [hnames o ho p b ok hob]
          exact ⟨hkey, it, rfl, rfl⟩

/-- A step that does not touch key `k` keeps what is booked there. -/
theorem dispatchKeys_booked (env : Env) (ks : List Key) (n : Node) (w : WF n) (k : Key) (hk : k ∉ ks) (e : Eid) :
    Booked n k e → Booked (dispatchKeys env ks n).1 k e := by
  rcases dispatchKeys_kstep env ks n w with ⟨_, henv, hst, _, hsp⟩
  intro hb hh
  have hs : sentL (dispatchKeys env ks n).1 k = sentL n k := by
    unfold sentL; rw [henv.cfg, hst k hk, hsp k hk]
  have hhb : hasBook (dispatchKeys env ks n).1 k = hasBook n k := by
    unfold hasBook; rw [henv.cfg, hst k hk, hsp k hk]
  rw [hs]
  exact hb (by rw [← hhb]; exact hh)

theorem dispatchKeys_gen (env : Env) (EB : Bundle → Eid → Prop) (hEB : EClass EB) (c : Cfg) :
    ∀ (ks : List Key) (n : Node), ks.Nodup → WF n → n.cfg = c → GenInv EB c n →
    GenInv EB c (dispatchKeys env ks n).1 ∧
    ∀ o ∈ (dispatchKeys env ks n).2, OutOk EB c o ∧ OkB c (dispatchKeys env ks n).1 o ∧
      ∀ p b ok, o = Output.sent p b ok → ∃ k it, k ∈ ks ∧ n.store.get k = some it ∧ b = it.bundle
  | [], n, _, _, _, hp => ⟨hp, fun o ho => by cases ho⟩
  | k :: ks, n, hnd, w, hc, hp => by
    simp only [dispatchKeys]
    rcases List.nodup_cons.mp hnd with ⟨hk, hks⟩
    have hd := dispatching_only env (newDesc n k) n w (by intro b h; rw [newDesc_bndl] at h; cases h)
    rcases dispatch_gen env EB hEB c n k w hc hp with ⟨hp1, ho1⟩
    rcases dispatchKeys_gen env EB hEB c ks _ hks (hd.wf w) (hd.only.env.cfg.trans hc) hp1 with ⟨hp2, ho2⟩
    refine ⟨hp2, fun o ho => ?_⟩
    rcases List.mem_append.mp ho with h | h
    · rcases ho1 o h with ⟨h1, h2, h3⟩
      refine ⟨h1, ?_, ?_⟩
      · intro p b hob hns hrepb
        have hbk := (h3 p b true hob).1
        rw [hbk]
        apply dispatchKeys_booked env ks _ (hd.wf w) k hk
        have := h2 p b hob hns hrepb
        rw [hbk] at this
        exact this
      · intro p b ok hob
        rcases (h3 p b ok hob).2 with ⟨it, hg, hb⟩
        exact ⟨k, it, List.mem_cons_self, hg, hb⟩
    · rcases ho2 o h with ⟨h1, h2, h3⟩
      refine ⟨h1, h2, ?_⟩
      intro p b ok hob
      rcases h3 p b ok hob with ⟨k', it, hk', hg, hb⟩
      have hne : k' ≠ k := fun e => hk (e ▸ hk')
      have hdk := hd.only.other k' (by rw [newDesc_key]; exact hne)
      rw [hdk] at hg
      exact ⟨k', it, List.mem_cons_of_mem _ hk', hg, hb⟩

theorem pendingKeys_nodup {n : Node} (w : WF n) : (pendingKeys n.store).Nodup := by
  unfold pendingKeys
  exact w.nodup.sublist List.filter_sublist


/-! ### submit -/

theorem transmit_ok_booked (env : Env) (d : Desc) (b : Bundle) (n : Node) (it : Item)
    (hg : n.store.get d.key = some it)
    (hidk : n.cfg.seqFirst = true ∨ (lookupNat n.idk (b.src, b.ts) = none ∧ b.seq = 0))
    (hrep : replicates n.cfg b = true) :
    ∀ p, Output.sent p b true ∈ (transmit env d b n).2 → p.eid.sameNode b.dst = false →
      Booked (transmit env d b n).1 d.key p.eid := by
  intro p hmem hns
  unfold transmit at hmem ⊢
  simp only at hmem ⊢
  rcases seqStep' n.cfg.seqFirst b n hidk with ⟨x, hx⟩
  rw [hx] at hmem ⊢
  simp only at hmem ⊢
  have hne : ({ d.cons with dp := true } : Cons).isEmpty = false := by simp [Cons.isEmpty]
  have h1 := sync_update { d with bndl := some b, cons := { d.cons with dp := true } } (n.setIdk x) it hg hne
  have hcfg : (sync { d with bndl := some b, cons := { d.cons with dp := true } } (n.setIdk x)).cfg = n.cfg :=
    (sync_env _ _).cfg
  split at hmem
  · cases hmem
  · rename_i hsrc
    simp only [hsrc, Bool.false_eq_true, if_false]
    exact dispatching_ok_booked env { d with bndl := some b, cons := { d.cons with dp := true } } _ _ b h1
      (Or.inl rfl) (by rw [hcfg]; exact hrep) p hmem hns

theorem sendBundle_ok_booked (env : Env) (b : Bundle) (n : Node) (hfresh : n.store.get b.key = none)
    (hidk : lookupNat n.idk (b.src, b.ts) = none ∧ b.seq = 0) (hrep : replicates n.cfg b = true) :
    ∀ p, Output.sent p b true ∈ (sendBundle env b n).2 → p.eid.sameNode b.dst = false →
      Booked (sendBundle env b n).1 b.key p.eid := by
  intro p hmem hns
  unfold sendBundle at hmem ⊢
  simp only at hmem ⊢
  rcases seqStep n.cfg.seqFirst b n hidk hfresh with ⟨x, hx, hx0⟩
  rw [hx] at hmem ⊢
  simp only at hmem ⊢
  have hnd : newDesc (n.setIdk x) b.key = { key := b.key, receiver := none, cons := Cons.empty, bndl := none } := by
    unfold newDesc
    simp only [setIdk_store, hfresh]
  unfold newDescFromBundle at hmem ⊢
  simp only [hnd] at hmem ⊢
  have hs1 : sync { key := b.key, receiver := none, cons := Cons.empty, bndl := some b } (n.setIdk x) =
      push b (n.setIdk x) := sync_push _ _ b hfresh rfl
  rw [hs1] at hmem ⊢
  have hg1 : (push b (n.setIdk x)).store.get b.key = some (newItem n.cfg n.now b) :=
    push_get_absent b (n.setIdk x) hfresh
  have hnn := notifyNew_rt b.key b (push b (n.setIdk x))
  rcases hnn.item _ hg1 with ⟨it2, g2, _⟩
  have hpenv : SameEnv (n.setIdk x) (push b (n.setIdk x)) := (push_only b (n.setIdk x)).env
  have hcfg : (notifyNew b.key b (push b (n.setIdk x))).cfg = n.cfg := hnn.only.env.cfg.trans hpenv.cfg
  have hidk2 : (notifyNew b.key b (push b (n.setIdk x))).idk = x := by
    rw [notifyNew_idk]
    unfold push Node.setItem
    cases (n.setIdk x).store.get b.key <;> rfl
  exact transmit_ok_booked env { key := b.key, receiver := none, cons := Cons.empty, bndl := some b } b
    (notifyNew b.key b (push b (n.setIdk x))) it2 g2
    (by
      rw [hcfg, hidk2]
      cases hsf : n.cfg.seqFirst
      · right; rw [hx0 hsf]; exact hidk
      · left; rfl)
    (by rw [hcfg]; exact hrep) p hmem hns

/-- A submission (new ID) whose bundle has an empty class keeps the invariant. -/
theorem submit_gen (env : Env) (EB : Bundle → Eid → Prop) (hEB : EClass EB) (c : Cfg) (b : Bundle) (n : Node)
    (w : WF n) (hc : n.cfg = c) (hp : GenInv EB c n) (hfresh : n.store.get b.key = none)
    (hidk : lookupNat n.idk (b.src, b.ts) = none ∧ b.seq = 0) (hE : ∀ e, ¬ EB b e) :
    GenInv EB c (sendBundle env b n).1 ∧
    ∀ o ∈ (sendBundle env b n).2, OutOk EB c o ∧ OkB c (sendBundle env b n).1 o := by
  have hstep := sendBundle_kstep env b n w hidk hfresh
  have hb := sendBundle_bstep env b n hidk hfresh
  constructor
  · intro k it' hg' hrep e he
    by_cases hk : k = b.key
    · subst hk
      rcases hb.1.bundle it' hg' with ⟨it0, g0, l0⟩ | l0
      · rw [hfresh] at g0; cases g0
      · rw [hEB.like _ _ l0] at he
        exact absurd he (hE e)
    · rw [hstep.other k hk] at hg'
      exact booked_frame hstep.only hk e (hp k it' hg' hrep e he)
  · intro o ho
    rcases hb.2 o ho with ⟨q, ok', hq⟩
    subst hq
    constructor
    · intro p b' ok hob hns hrep hEb
      cases hob
      exact hE _ hEb
    · intro p b' hob hns hrep
      cases hob
      exact sendBundle_ok_booked env b n hfresh hidk (by rw [hc]; exact hrep) q ho hns


/-! ### receive -/

theorem receive_gen (env : Env) (EB : Bundle → Eid → Prop) (hEB : EClass EB) (c : Cfg) (b : Bundle)
    (r : Option Eid) (n : Node) (w : WF n) (hc : n.cfg = c) (hp : GenInv EB c n)
    (hseed : (newDesc n b.key).cons.isEmpty = true →
      ∀ m itm, m.store.get b.key = some itm → m.cfg = c → ∀ e, EB b e → Booked (notifyNew b.key b m) b.key e) :
    GenInv EB c (receive env b r n).1 ∧
    ∀ o ∈ (receive env b r n).2, OutOk EB c o ∧ OkB c (receive env b r n).1 o := by
  have hstep := receive_kstep env b r n w
  have hother : ∀ k it' , k ≠ b.key → (receive env b r n).1.store.get k = some it' → replicates c it'.bundle = true →
      ∀ e, EB it'.bundle e → Booked (receive env b r n).1 k e := by
    intro k it' hk hg' hrep e he
    rw [hstep.only.other k hk] at hg'
    exact booked_frame hstep.only hk e (hp k it' hg' hrep e he)
  unfold receive at hother ⊢
  simp only at hother ⊢
  unfold newDescFromBundle at hother ⊢
  simp only at hother ⊢
  have hDk := newDesc_key n b.key
  generalize hD : newDesc n b.key = D at hDk hother ⊢
  obtain ⟨Dk, Dr, Dc, Db⟩ := D
  simp only at hDk
  subst hDk
  simp only at hother ⊢
  by_cases hemp : Dc.isEmpty = true
  · simp only [hemp, Bool.not_true, Bool.false_eq_true, if_false] at hother ⊢
    rcases receive_m b r n ⟨b.key, Dr, Dc, Db⟩ hemp with ⟨itm, hgm, hbm⟩
    simp only at hgm
    generalize hm : sync { key := b.key, receiver := r, cons := { Dc with dp := true }, bndl := some b }
      (sync { key := b.key, receiver := r, cons := Dc, bndl := some b }
        (sync { key := b.key, receiver := Dr, cons := Dc, bndl := some b } n)) = m at hgm hother ⊢
    have hmcfg : m.cfg = c := by
      rw [← hm, (sync_env _ _).cfg, (sync_env _ _).cfg, (sync_env _ _).cfg]; exact hc
    by_cases hdel : b.delBlock = true
    · simp only [hdel, if_true] at hother ⊢
      refine ⟨?_, fun o ho => by cases ho⟩
      intro k it' hg' hrep e he
      by_cases hk : k = b.key
      · subst hk
        have hne : ({ Dc with dp := true } : Cons).purge.isEmpty = true := by
          simp [Cons.purge, Cons.isEmpty, Cons.empty]
          have : Dc.le = false := by
            unfold Cons.isEmpty at hemp
            cases h : Dc.le <;> simp_all
          exact this
        have := sync_delete { key := b.key, receiver := r, cons := ({ Dc with dp := true } : Cons).purge, bndl := some b }
          m itm hgm hne
        unfold bundleDeletion at hg'
        rw [this] at hg'
        cases hg'
      · exact hother k it' hk hg' hrep e he
    · simp only [hdel, Bool.false_eq_true, if_false] at hother ⊢
      have hnn := notifyNew_rt b.key b m
      rcases hnn.item itm hgm with ⟨it4, g4, b4, _⟩
      have hcfg4 : (notifyNew b.key b m).cfg = c := hnn.only.env.cfg.trans hmcfg
      have hlike := dispatching_bstep env { key := b.key, receiver := r, cons := { Dc with dp := true }, bndl := some b }
        b (notifyNew b.key b m) (Or.inl rfl) rfl
      have hitem' : ∀ it', (dispatching env { key := b.key, receiver := r, cons := { Dc with dp := true }, bndl := some b }
          (notifyNew b.key b m)).1.store.get b.key = some it' → Like b it'.bundle := by
        intro it' hg'
        rcases hlike.bundle it' hg' with ⟨it0, g0, l0⟩ | l0
        · rw [g4] at g0; cases g0; rw [b4, hbm] at l0; exact l0
        · exact l0
      have hnames := dispatching_names' env { key := b.key, receiver := r, cons := { Dc with dp := true }, bndl := some b }
        b (notifyNew b.key b m) rfl
      by_cases hrep : replicates c b = true
      · have hE : MustStay (EB b) b (notifyNew b.key b m) b.key :=
          ⟨fun e he => hEB.notDst _ e he, fun e he => hseed (by rw [hD]; exact hemp) m itm hgm hmcfg e he⟩
        have hb := dispatching_book env { key := b.key, receiver := r, cons := { Dc with dp := true }, bndl := some b }
          (notifyNew b.key b m) it4 b g4 (Or.inl rfl) (by rw [hcfg4]; exact hrep) (EB b) hE
        have hokb := dispatching_ok_booked env { key := b.key, receiver := r, cons := { Dc with dp := true }, bndl := some b }
          (notifyNew b.key b m) it4 b g4 (Or.inl rfl) (by rw [hcfg4]; exact hrep)
        constructor
        · intro k it' hg' hrep' e he
          by_cases hk : k = b.key
          · subst hk
            rw [hEB.like _ _ (hitem' it' hg')] at he
            exact hb.2 e he
          · exact hother k it' hk hg' hrep' e he
        · intro o ho
          rcases hnames o ho with ⟨q, ok', hq⟩
          subst hq
          constructor
          · intro p b' ok hob hns hrepb hEb
            cases hob
            exact (hb.1 q b ok' ho).2 hns hEb
          · intro p b' hob hns hrepb
            cases hob
            exact hokb q ho hns
      · constructor
        · intro k it' hg' hrep' e he
          by_cases hk : k = b.key
          · subst hk
            rw [replicates_like (hitem' it' hg')] at hrep'
            exact absurd hrep' hrep
          · exact hother k it' hk hg' hrep' e he
        · intro o ho
          rcases hnames o ho with ⟨q, ok', hq⟩
          subst hq
          constructor
          · intro p b' ok hob hns hrepb hEb
            cases hob
            exact hrep hrepb
          · intro p b' hob hns hrepb
            cases hob
            exact absurd hrepb hrep
  · have hemp' : Dc.isEmpty = false := by cases h : Dc.isEmpty <;> simp_all
    simp only [hemp', Bool.not_false, if_true] at hother ⊢
    refine ⟨?_, fun o ho => by cases ho⟩
    intro k it' hg' hrep e he
    by_cases hk : k = b.key
    · subst hk
      cases hg : n.store.get b.key with
      | none =>
        have : Dc = Cons.empty := by
          have := hD
          unfold newDesc at this
          simp only [hg] at this
          cases this; rfl
        rw [this] at hemp'
        cases hemp'
      | some it =>
        have h1 := sync_update { key := b.key, receiver := Dr, cons := Dc, bndl := some b } n it hg hemp'
        have h2 := sync_update { key := b.key, receiver := r, cons := Dc, bndl := some b } _ _ h1 hemp'
        rw [h2] at hg'
        cases hg'
        have hb1 := sync_bookLe { key := b.key, receiver := Dr, cons := Dc, bndl := some b } n it hg e
          (hp b.key it hg hrep e he) id
        exact sync_bookLe { key := b.key, receiver := r, cons := Dc, bndl := some b } _ _ h1 e hb1 id
    · exact hother k it' hk hg' hrep e he


/-! ## Every stored item has a retention constraint (with the repaired `dispatching`) -/

def ConsInv (n : Node) : Prop := ∀ k it, n.store.get k = some it → it.cons.isEmpty = false

/-- `Sync` of an existing item leaves it with the descriptor's (non-empty) constraints, or deletes it. -/
theorem sync_exists_cons (d : Desc) (n : Node) (it : Item) (hg : n.store.get d.key = some it) :
    ∀ it', (sync d n).store.get d.key = some it' → it'.cons.isEmpty = false := by
  intro it' hg'
  by_cases hc : d.cons.isEmpty = true
  · rw [sync_delete d n it hg hc] at hg'; cases hg'
  · have hc' : d.cons.isEmpty = false := by cases h : d.cons.isEmpty <;> simp_all
    rw [sync_update d n it hg hc'] at hg'
    cases hg'
    exact hc'

theorem forwardSend_cons (env : Env) (b : Bundle) (r : List Peer × Bool × Desc × Node) (it : Item)
    (hg : r.2.2.2.store.get r.2.2.1.key = some it) :
    ∀ it', (forwardSend env b r).1.store.get r.2.2.1.key = some it' → it'.cons.isEmpty = false := by
  unfold forwardSend
  simp only
  have hrt := sendAll_rt env r.2.2.1 b r.1 r.2.2.2
  rcases hrt.item it hg with ⟨it2, g2, _⟩
  split
  · exact sync_exists_cons { r.2.2.1 with cons := r.2.2.1.cons.purge } _ it2 g2
  · exact sync_exists_cons { r.2.2.1 with cons := { r.2.2.1.cons with ci := true } } _ it2 g2

theorem forward_cons (env : Env) (d : Desc) (b : Bundle) (n : Node) (it : Item)
    (hg : n.store.get d.key = some it) :
    ∀ it', (forward env d b n).1.store.get d.key = some it' → it'.cons.isEmpty = false := by
  unfold forward
  simp only
  generalize hd1 : ({ d with cons := { d.cons with fp := true, dp := false } } : Desc) = d1
  have hk1 : d1.key = d.key := by rw [← hd1]
  have hne : d1.cons.isEmpty = false := by rw [← hd1]; simp [Cons.isEmpty]
  rw [← hk1] at hg ⊢
  have h1 := sync_update d1 n it hg hne
  have hdel : ∀ it', (bundleDeletion d1 (sync d1 n)).store.get d1.key = some it' → it'.cons.isEmpty = false :=
    sync_exists_cons { d1 with cons := d1.cons.purge } (sync d1 n) _ h1
  split
  · exact hdel
  · split
    · exact hdel
    · split
      · exact hdel
      · have hsel := selectSenders_rt env d1 b (sync d1 n)
        have hdesc := selectSenders_desc env d1 b (sync d1 n)
        rcases hsel.item _ h1 with ⟨it3, g3, _⟩
        have := forwardSend_cons env b (selectSenders env d1 b (sync d1 n)) it3 (by rw [hdesc.1]; exact g3)
        rw [hdesc.1] at this
        exact this

theorem dispatching_cons (env : Env) (d : Desc) (n : Node) (it : Item) (hfix : n.cfg.holdFix = true)
    (hg : n.store.get d.key = some it) (hpre : d.bndl.isSome = true ∨ it.cons.isEmpty = false) :
    ∀ it', (dispatching env d n).1.store.get d.key = some it' → it'.cons.isEmpty = false := by
  unfold dispatching
  simp only
  have ha := dispatchingAllowed_rt env d n
  rcases ha.item it hg with ⟨ita, ga, ba, _, ca, _⟩
  split
  · simp only [hfix]
    exact sync_exists_cons { d with cons := { d.cons with ci := true } } _ ita ga
  · cases hbun : d.bundle (dispatchingAllowed env d n).2 with
    | none =>
      simp only
      intro it' hg'
      rw [ga] at hg'
      cases hg'
      rcases hpre with h | h
      · -- an in-memory bundle is always "loaded"
        unfold Desc.bundle at hbun
        cases hd : d.bndl with
        | none => rw [hd] at h; cases h
        | some b0 => simp [hd] at hbun
      · rw [ca]; exact h
    | some b1 =>
      simp only
      split
      · unfold localDelivery
        have hne : ({ d.cons with le := true } : Cons).isEmpty = false := by simp [Cons.isEmpty]
        have h1 := sync_update { { d with bndl := some b1 } with cons := { d.cons with le := true } } _ ita ga hne
        exact sync_exists_cons { { { d with bndl := some b1 } with cons := { d.cons with le := true } } with
          cons := ({ d.cons with le := true } : Cons).purge } _ _ h1
      · exact forward_cons env { d with bndl := some b1 } b1 _ ita ga

theorem dispatchKeys_cons (env : Env) : ∀ (ks : List Key) (n : Node), WF n → n.cfg.holdFix = true → ConsInv n →
    ConsInv (dispatchKeys env ks n).1
  | [], _, _, _, hc => hc
  | k :: ks, n, w, hfix, hc => by
    simp only [dispatchKeys]
    have hd := dispatching_only env (newDesc n k) n w (by intro b h; rw [newDesc_bndl] at h; cases h)
    rw [newDesc_key] at hd
    apply dispatchKeys_cons env ks _ (hd.wf w) (by rw [hd.only.env.cfg]; exact hfix)
    intro k' it' hg'
    by_cases hk : k' = k
    · subst hk
      cases hg : n.store.get k' with
      | none =>
        -- nothing is created by a retry
        have := dispatchKeys_like env k' [k'] n w it' (by simpa [dispatchKeys] using hg')
        rcases this with ⟨it0, g0, _⟩
        rw [hg] at g0; cases g0
      | some it =>
        have := dispatching_cons env (newDesc n k') n it hfix (by rw [newDesc_key]; exact hg) (Or.inr (hc k' it hg))
        rw [newDesc_key] at this
        exact this it' hg'
    · rw [hd.only.other k' hk] at hg'
      exact hc k' it' hg'


theorem transmit_cons (env : Env) (d : Desc) (b : Bundle) (n : Node) (it : Item) (hfix : n.cfg.holdFix = true)
    (hg : n.store.get d.key = some it)
    (hidk : n.cfg.seqFirst = true ∨ (lookupNat n.idk (b.src, b.ts) = none ∧ b.seq = 0)) :
    ∀ it', (transmit env d b n).1.store.get d.key = some it' → it'.cons.isEmpty = false := by
  unfold transmit
  simp only
  rcases seqStep' n.cfg.seqFirst b n hidk with ⟨x, hx⟩
  rw [hx]
  simp only
  have hne : ({ d.cons with dp := true } : Cons).isEmpty = false := by simp [Cons.isEmpty]
  have h1 := sync_update { d with bndl := some b, cons := { d.cons with dp := true } } (n.setIdk x) it hg hne
  have hcfg : (sync { d with bndl := some b, cons := { d.cons with dp := true } } (n.setIdk x)).cfg = n.cfg :=
    (sync_env _ _).cfg
  split
  · exact sync_exists_cons { { d with bndl := some b, cons := { d.cons with dp := true } } with
      cons := ({ d.cons with dp := true } : Cons).purge } _ _ h1
  · exact dispatching_cons env { d with bndl := some b, cons := { d.cons with dp := true } } _ _
      (by rw [hcfg]; exact hfix) h1 (Or.inl rfl)

theorem sendBundle_cons (env : Env) (b : Bundle) (n : Node) (w : WF n) (hfix : n.cfg.holdFix = true)
    (hc : ConsInv n) (hfresh : n.store.get b.key = none)
    (hidk : lookupNat n.idk (b.src, b.ts) = none ∧ b.seq = 0) : ConsInv (sendBundle env b n).1 := by
  have hstep := sendBundle_kstep env b n w hidk hfresh
  intro k it' hg'
  by_cases hk : k = b.key
  · subst hk
    revert hg'
    unfold sendBundle
    simp only
    rcases seqStep n.cfg.seqFirst b n hidk hfresh with ⟨x, hx, hx0⟩
    rw [hx]
    simp only
    have hnd : newDesc (n.setIdk x) b.key = { key := b.key, receiver := none, cons := Cons.empty, bndl := none } := by
      unfold newDesc
      simp only [setIdk_store, hfresh]
    unfold newDescFromBundle
    simp only [hnd]
    have hs1 : sync { key := b.key, receiver := none, cons := Cons.empty, bndl := some b } (n.setIdk x) =
        push b (n.setIdk x) := sync_push _ _ b hfresh rfl
    rw [hs1]
    have hg1 : (push b (n.setIdk x)).store.get b.key = some (newItem n.cfg n.now b) :=
      push_get_absent b (n.setIdk x) hfresh
    have hnn := notifyNew_rt b.key b (push b (n.setIdk x))
    rcases hnn.item _ hg1 with ⟨it2, g2, _⟩
    have hpenv : SameEnv (n.setIdk x) (push b (n.setIdk x)) := (push_only b (n.setIdk x)).env
    have hcfg : (notifyNew b.key b (push b (n.setIdk x))).cfg = n.cfg := hnn.only.env.cfg.trans hpenv.cfg
    have hidk2 : (notifyNew b.key b (push b (n.setIdk x))).idk = x := by
      rw [notifyNew_idk]
      unfold push Node.setItem
      cases (n.setIdk x).store.get b.key <;> rfl
    intro hg'
    exact transmit_cons env { key := b.key, receiver := none, cons := Cons.empty, bndl := some b } b
      (notifyNew b.key b (push b (n.setIdk x))) it2 (by rw [hcfg]; exact hfix) g2
      (by
        rw [hcfg, hidk2]
        cases hsf : n.cfg.seqFirst
        · right; rw [hx0 hsf]; exact hidk
        · left; rfl) it' hg'
  · rw [hstep.other k hk] at hg'
    exact hc k it' hg'

theorem receive_cons (env : Env) (b : Bundle) (r : Option Eid) (n : Node) (w : WF n) (hfix : n.cfg.holdFix = true)
    (hc : ConsInv n) : ConsInv (receive env b r n).1 := by
  have hstep := receive_kstep env b r n w
  intro k it' hg'
  by_cases hk : k = b.key
  · subst hk
    revert hg'
    unfold receive
    simp only
    unfold newDescFromBundle
    simp only
    have hDk := newDesc_key n b.key
    generalize hD : newDesc n b.key = D at hDk ⊢
    obtain ⟨Dk, Dr, Dc, Db⟩ := D
    simp only at hDk
    subst hDk
    simp only
    by_cases hemp : Dc.isEmpty = true
    · simp only [hemp, Bool.not_true, Bool.false_eq_true, if_false]
      rcases receive_m b r n ⟨b.key, Dr, Dc, Db⟩ hemp with ⟨itm, hgm, _⟩
      simp only at hgm
      generalize hm : sync { key := b.key, receiver := r, cons := { Dc with dp := true }, bndl := some b }
        (sync { key := b.key, receiver := r, cons := Dc, bndl := some b }
          (sync { key := b.key, receiver := Dr, cons := Dc, bndl := some b } n)) = m at hgm ⊢
      have hmcfg : m.cfg = n.cfg := by
        rw [← hm, (sync_env _ _).cfg, (sync_env _ _).cfg, (sync_env _ _).cfg]
      split
      · exact sync_exists_cons { key := b.key, receiver := r, cons := ({ Dc with dp := true } : Cons).purge, bndl := some b }
          m itm hgm it'
      · have hnn := notifyNew_rt b.key b m
        rcases hnn.item itm hgm with ⟨it4, g4, _⟩
        exact dispatching_cons env { key := b.key, receiver := r, cons := { Dc with dp := true }, bndl := some b }
          (notifyNew b.key b m) it4 (by rw [hnn.only.env.cfg, hmcfg]; exact hfix) g4 (Or.inl rfl) it'
    · have hemp' : Dc.isEmpty = false := by cases h : Dc.isEmpty <;> simp_all
      simp only [hemp', Bool.not_false, if_true]
      intro hg'
      cases hg : n.store.get b.key with
      | none =>
        have : Dc = Cons.empty := by
          have := hD
          unfold newDesc at this
          simp only [hg] at this
          cases this; rfl
        rw [this] at hemp'
        cases hemp'
      | some it =>
        have h1 := sync_update { key := b.key, receiver := Dr, cons := Dc, bndl := some b } n it hg hemp'
        have h2 := sync_update { key := b.key, receiver := r, cons := Dc, bndl := some b } _ _ h1 hemp'
        rw [h2] at hg'
        cases hg'
        exact hemp'
  · rw [hstep.only.other k hk] at hg'
    exact hc k it' hg'


/-! ## Provenance of the stored bundles -/

def evBundle (h : List Event) (e : Bundle) : Prop := e ∈ submitted h ∨ e ∈ received h

theorem evBundle_snoc {past : List Event} {ev : Event} {e : Bundle} (h : evBundle past e) : evBundle (past ++ [ev]) e :=
  h.imp mem_submitted_snoc mem_received_snoc

/-- Every stored bundle is (like) a bundle of an earlier submission or delivery. -/
def Prov (past : List Event) (n : Node) : Prop :=
  ∀ k it, n.store.get k = some it → ∃ e, evBundle past e ∧ Like e it.bundle

theorem receive_bstep (env : Env) (b : Bundle) (r : Option Eid) (n : Node) : BStep b b.key n (receive env b r n).1 := by
  unfold receive
  simp only
  unfold newDescFromBundle
  simp only
  have hDk := newDesc_key n b.key
  generalize newDesc n b.key = D at hDk ⊢
  obtain ⟨Dk, Dr, Dc, Db⟩ := D
  simp only at hDk
  subst hDk
  simp only
  have hb : ∀ (rr : Option Eid) (cc : Cons) b0, ({ key := b.key, receiver := rr, cons := cc, bndl := some b } : Desc).bndl = some b0 →
      Like b b0 ∧ b0.key = b.key := by
    intro rr cc b0 h; cases h; exact ⟨Like.refl _, rfl⟩
  have k1 := sync_bstep b { key := b.key, receiver := Dr, cons := Dc, bndl := some b } n (hb Dr Dc)
  have k2 := sync_bstep b { key := b.key, receiver := r, cons := Dc, bndl := some b }
    (sync { key := b.key, receiver := Dr, cons := Dc, bndl := some b } n) (hb r Dc)
  have k12 := k1.trans k2
  split
  · exact k12
  · have k3 := sync_bstep b { key := b.key, receiver := r, cons := { Dc with dp := true }, bndl := some b }
      (sync { key := b.key, receiver := r, cons := Dc, bndl := some b }
        (sync { key := b.key, receiver := Dr, cons := Dc, bndl := some b } n)) (hb r _)
    have k123 := k12.trans k3
    split
    · exact k123.trans (bundleDeletion_bstep b { key := b.key, receiver := r, cons := { Dc with dp := true }, bndl := some b } _ (hb r _))
    · have k4 : BStep b b.key _ _ := (notifyNew_rt b.key b (sync { key := b.key, receiver := r, cons := { Dc with dp := true }, bndl := some b }
        (sync { key := b.key, receiver := r, cons := Dc, bndl := some b }
          (sync { key := b.key, receiver := Dr, cons := Dc, bndl := some b } n)))).bstep
      exact (k123.trans k4).trans (dispatching_bstep env { key := b.key, receiver := r, cons := { Dc with dp := true }, bndl := some b }
        b _ (Or.inl rfl) rfl)

theorem prov_touch {past : List Event} {ev : Event} {n n' : Node} {b : Bundle} (hp : Prov past n)
    (hb : evBundle (past ++ [ev]) b) (hstep : BStep b b.key n n')
    (hother : ∀ k, k ≠ b.key → n'.store.get k = n.store.get k) : Prov (past ++ [ev]) n' := by
  intro k it' hg'
  by_cases hk : k = b.key
  · subst hk
    rcases hstep.bundle it' hg' with ⟨it0, g0, l0⟩ | l0
    · rcases hp _ it0 g0 with ⟨e, he, hl⟩
      exact ⟨e, evBundle_snoc he, hl.trans l0⟩
    · exact ⟨b, hb, l0⟩
  · rw [hother k hk] at hg'
    rcases hp k it' hg' with ⟨e, he, hl⟩
    exact ⟨e, evBundle_snoc he, hl⟩

theorem prov_sub {past : List Event} {ev : Event} {n n' : Node} (hp : Prov past n)
    (hsub : ∀ k it', n'.store.get k = some it' → ∃ it, n.store.get k = some it ∧ Like it.bundle it'.bundle) :
    Prov (past ++ [ev]) n' := by
  intro k it' hg'
  rcases hsub k it' hg' with ⟨it, hg, hl⟩
  rcases hp k it hg with ⟨e, he, hl0⟩
  exact ⟨e, evBundle_snoc he, hl0.trans hl⟩


/-! ## never twice, along every history -/

/-- The peers that got the bundle (this tag and sequence number) successfully by the algorithm's choice. -/
def EBd (S : List (Nat × Nat × Eid)) (b : Bundle) (e : Eid) : Prop :=
  (b.tag, b.seq, e) ∈ S ∧ e.sameNode b.dst = false

theorem EBd_class (S : List (Nat × Nat × Eid)) : EClass (EBd S) :=
  ⟨fun a b h => by
      funext e; unfold EBd
      have hs : b.seq = a.seq := congrArg Key.seq h.2.1
      rw [h.1, h.2.2.2, hs],
   fun _ _ h => h.2⟩

/-- `Domain13` plus: the tag names the concrete bundle (two different bundles of the history carry
different tags; the same bundle may be delivered or submitted again). -/
structure Domain13t (c : Cfg) (h : List Event) : Prop where
  d13 : Domain13 c h
  tags : ∀ a b, evBundle h a → evBundle h b → a.tag = b.tag → a = b

structure DInv (c : Cfg) (past : List Event) (s : SpecSt) (n : Node) : Prop where
  prov : Prov past n
  cons : ConsInv n
  dup : GenInv (EBd s.okSent) c n
  live : ∀ te ∈ s.okSent, ∃ k it, n.store.get k = some it ∧ it.bundle.tag = te.1

/-- What has to be shown about the core of a step. -/
structure DCore (c : Cfg) (past : List Event) (s : SpecSt) (ev : Event) (m : Node) (outs : List Output) : Prop where
  wf : WF m
  prov : Prov (past ++ [ev]) m
  cons : ConsInv m
  gen : GenInv (EBd s.okSent) c m
  outs : ∀ o ∈ outs, OutOk (EBd s.okSent) c o ∧ OkB c m o ∧
    ∀ p b ok, o = Output.sent p b ok → ∃ e, evBundle (past ++ [ev]) e ∧ Like e b

theorem genInv_mono {S S' : List (Nat × Nat × Eid)} {c : Cfg} {n : Node} (h : GenInv (EBd S') c n)
    (hs : ∀ te ∈ S, te ∈ S') : GenInv (EBd S) c n :=
  fun k it hg hrep e he => h k it hg hrep e ⟨hs _ he.1, he.2⟩

theorem mem_chosen {c : Cfg} {outs : List Output} {pbk : Peer × Bundle × Bool} (h : pbk ∈ chosen c outs) :
    Output.sent pbk.1 pbk.2.1 pbk.2.2 ∈ outs ∧ pbk.1.eid.sameNode pbk.2.1.dst = false ∧ replicates c pbk.2.1 = true := by
  unfold chosen at h
  rcases List.mem_filterMap.mp h with ⟨o, ho, hf⟩
  cases o with
  | deleted k => simp at hf
  | sent p b ok =>
    simp only at hf
    split at hf
    · cases hf
    · rename_i hcond
      cases hf
      simp only [Bool.or_eq_true, Bool.not_eq_true', not_or, Bool.not_eq_true, Bool.not_eq_false] at hcond
      exact ⟨ho, hcond.1, hcond.2⟩

theorem dup_of_core (c : Cfg) (env : Env) (past fut : List Event) (ev : Event) (s : SpecSt) (n : Node)
    (hdom : Domain13t c (past ++ ev :: fut))
    (hcore : DCore c past s ev (stepCore env n ev).1 (stepCore env n ev).2) :
    dupFail c s (obsOf (ev, (step env n ev).2, (step env n ev).1)) = none ∧
    DInv c (past ++ [ev]) (specNext c s (obsOf (ev, (step env n ev).2, (step env n ev).1))) (step env n ev).1 := by
  have hstore : (step env n ev).1.store = (stepCore env n ev).1.store := rfl
  -- the outputs of the step that are transmissions are those of the core
  have hsent : ∀ p b ok, Output.sent p b ok ∈ (step env n ev).2 → Output.sent p b ok ∈ (stepCore env n ev).2 := by
    intro p b ok h
    rcases List.mem_append.mp h with h | h
    · exact h
    · unfold deletedKeys at h
      rcases List.mem_map.mp h with ⟨kv, _, hk⟩
      cases hk
  -- Booked only depends on configuration, store and spray bookkeeping
  have hbooked : ∀ k e, Booked (stepCore env n ev).1 k e → Booked (step env n ev).1 k e := fun _ _ h => h
  constructor
  · unfold dupFail
    apply List.findSome?_eq_none_iff.mpr
    intro pbk hpbk
    rcases mem_chosen hpbk with ⟨hm, hns, hrep⟩
    simp only [obsOf] at hm
    have := (hcore.outs _ (hsent _ _ _ hm)).1 pbk.1 pbk.2.1 pbk.2.2 rfl hns hrep
    have hnot : (pbk.2.1.tag, pbk.2.1.seq, pbk.1.eid) ∉ s.okSent := fun h => this ⟨h, hns⟩
    simp [hnot]
  · refine ⟨?_, ?_, ?_, ?_⟩
    · intro k it hg; rw [hstore] at hg; exact hcore.prov k it hg
    · intro k it hg; rw [hstore] at hg; exact hcore.cons k it hg
    · -- every remembered success is booked
      intro k it hg hrep e he
      rw [hstore] at hg
      apply hbooked
      have hmem : (it.bundle.tag, it.bundle.seq, e) ∈ okSentAfter c s (obsOf (ev, (step env n ev).2, (step env n ev).1)) := he.1
      unfold okSentAfter at hmem
      rcases List.mem_append.mp (List.mem_filter.mp hmem).1 with h | h
      · exact hcore.gen k it hg hrep e ⟨h, he.2⟩
      · rcases List.mem_filterMap.mp h with ⟨pbk, hpbk, hf⟩
        split at hf
        · rename_i hok
          have heq2 : (pbk.2.1.tag, pbk.2.1.seq, pbk.1.eid) = (it.bundle.tag, it.bundle.seq, e) := Option.some.inj hf
          rcases mem_chosen hpbk with ⟨hm, hns, hrepb⟩
          simp only [obsOf] at hm
          rw [hok] at hm
          have hco := hcore.outs _ (hsent _ _ _ hm)
          have hb := hco.2.1 pbk.1 pbk.2.1 rfl hns hrepb
          -- the item that carries this tag is the item of that bundle's ID
          rcases hco.2.2 pbk.1 pbk.2.1 true rfl with ⟨e2, he2, hl2⟩
          rcases hcore.prov k it hg with ⟨e1, he1, hl1⟩
          have hpast : ∀ x, evBundle (past ++ [ev]) x → evBundle (past ++ ev :: fut) x := by
            intro x hx
            have : past ++ ev :: fut = (past ++ [ev]) ++ fut := by simp
            rw [this]
            rcases hx with hx | hx
            · left; rw [submitted_append]; exact List.mem_append_left _ hx
            · right; rw [received_append]; exact List.mem_append_left _ hx
          have htag : e1.tag = e2.tag := by
            rw [← hl1.1, ← hl2.1]
            exact (Prod.mk.inj heq2).1.symm
          have heq := hdom.tags e1 e2 (hpast _ he1) (hpast _ he2) htag
          have hk : k = pbk.2.1.key := by
            rw [← hcore.wf.keyed k it hg, hl1.2.1, heq, ← hl2.2.1]
          rw [hk, ← (Prod.mk.inj (Prod.mk.inj heq2).2).2]
          exact hb
        · cases hf
    · intro te hte
      have hmem : te ∈ okSentAfter c s (obsOf (ev, (step env n ev).2, (step env n ev).1)) := hte
      unfold okSentAfter at hmem
      have := (List.mem_filter.mp hmem).2
      rcases List.any_eq_true.mp this with ⟨i, hi, hti⟩
      simp only [obsOf, viewOf] at hi
      rcases List.mem_map.mp hi with ⟨⟨k, it⟩, hkv, rfl⟩
      refine ⟨k, it, ?_, by have := hti; simp only [itemView, Bool.and_eq_true, beq_iff_eq] at this; exact this.1⟩
      rw [hstore]
      exact Store.get_of_mem hcore.wf.nodup hkv


/-! ### the events -/

theorem genInv_storeSame (EB : Bundle → Eid → Prop) (c : Cfg) (n m : Node) (hp : GenInv EB c n)
    (hs : m.store = n.store) (hc : m.cfg = n.cfg) (hsp : m.spray = n.spray ∨ m.spray = []) : GenInv EB c m := by
  intro k it hg hrep e he
  rw [hs] at hg
  have hb := hp k it hg hrep e he
  rcases hsp with hsp | hsp
  · have h1 : sentL m k = sentL n k := by unfold sentL; rw [hc, hs, hsp]
    have h2 : hasBook m k = hasBook n k := by unfold hasBook; rw [hc, hs, hsp]
    intro hh
    rw [h1]
    exact hb (by rw [← h2]; exact hh)
  · intro hh
    unfold hasBook at hh
    rw [hc, hs, hsp] at hh
    unfold Booked hasBook at hb
    unfold sentL at hb ⊢
    rw [hc, hs, hsp]
    cases ha : n.cfg.algo <;> simp only [ha, lookupMeta] at hh hb ⊢
    · exact hb hh
    · cases hh
    · cases hh
    · exact hb hh
    · exact hb hh

theorem dcore_checkPending (c : Cfg) (hfix : c.holdFix = true) (env : Env) (past : List Event) (s : SpecSt)
    (n n1 : Node) (ev : Event) (inv : RInv c past s n) (di : DInv c past s n)
    (hs : n1.store = n.store) (hcfg : n1.cfg = n.cfg) (hsp : n1.spray = n.spray) :
    DCore c past s ev (checkPending env n1).1 (checkPending env n1).2 := by
  have w1 : WF n1 := ⟨by rw [hs]; exact inv.wf.keyed, by rw [hs]; exact inv.wf.nodup⟩
  have hc1 : n1.cfg = c := hcfg.trans inv.cfg
  have hg1 : GenInv (EBd s.okSent) c n1 := genInv_storeSame _ c n n1 di.dup hs hcfg (Or.inl hsp)
  unfold checkPending
  rcases dispatchKeys_kstep env (pendingKeys n1.store) n1 w1 with ⟨w', _, _, _, _⟩
  rcases dispatchKeys_gen env _ (EBd_class _) c (pendingKeys n1.store) n1 (pendingKeys_nodup w1) w1 hc1 hg1 with ⟨hg2, ho2⟩
  refine ⟨w', ?_, ?_, hg2, ?_⟩
  · apply prov_sub di.prov
    intro k it' hg'
    have := dispatchKeys_like env k (pendingKeys n1.store) n1 w1 it' hg'
    rw [hs] at this
    exact this
  · apply dispatchKeys_cons env _ n1 w1 (by rw [hc1]; exact hfix)
    intro k it hg; rw [hs] at hg; exact di.cons k it hg
  · intro o ho
    rcases ho2 o ho with ⟨h1, h2, h3⟩
    refine ⟨h1, h2, ?_⟩
    intro p b ok hob
    rcases h3 p b ok hob with ⟨k, it, _, hg, hb⟩
    rw [hs] at hg
    rcases di.prov k it hg with ⟨e, he, hl⟩
    exact ⟨e, evBundle_snoc he, by rw [hb]; exact hl⟩

theorem dcore_storeSame (c : Cfg) (past : List Event) (s : SpecSt) (n m : Node) (ev : Event)
    (inv : RInv c past s n) (di : DInv c past s n) (hs : m.store = n.store) (hc : m.cfg = n.cfg)
    (hsp : m.spray = n.spray ∨ m.spray = []) : DCore c past s ev m [] := by
  refine ⟨⟨by rw [hs]; exact inv.wf.keyed, by rw [hs]; exact inv.wf.nodup⟩, ?_, ?_, ?_, fun o ho => by cases ho⟩
  · exact prov_sub di.prov (fun k it' hg' => ⟨it', by rw [hs] at hg'; exact hg', Like.refl _⟩)
  · intro k it hg; rw [hs] at hg; exact di.cons k it hg
  · exact genInv_storeSame _ c n m di.dup hs hc hsp


theorem dcore_submit (c : Cfg) (hfix : c.holdFix = true) (env : Env) (past fut : List Event) (b : Bundle)
    (hdom : Domain13t c (past ++ .submit b :: fut)) (s : SpecSt) (n : Node)
    (inv : RInv c past s n) (di : DInv c past s n) :
    DCore c past s (.submit b) (stepCore env n (.submit b)).1 (stepCore env n (.submit b)).2 := by
  have hf := submit_fresh c past fut b hdom.d13.dom s n inv
  have hstep := sendBundle_kstep env b n inv.wf hf.2 hf.1
  have hbs := sendBundle_bstep env b n hf.2 hf.1
  have hbnew : evBundle (past ++ [.submit b]) b := by
    left; rw [submitted_append]; exact List.mem_append_right _ List.mem_cons_self
  have hball : evBundle (past ++ .submit b :: fut) b := by
    left; rw [submitted_append]; exact List.mem_append_right _ List.mem_cons_self
  have hpast : ∀ x, evBundle past x → evBundle (past ++ .submit b :: fut) x := by
    intro x hx
    rcases hx with hx | hx
    · left; rw [submitted_append]; exact List.mem_append_left _ hx
    · right; rw [received_append]; exact List.mem_append_left _ hx
  -- a bundle with a new ID has no remembered transmissions: a remembered one is still stored, under this ID
  have hE : ∀ e, ¬ EBd s.okSent b e := by
    intro e he
    rcases di.live _ he.1 with ⟨k, it, hg, htag⟩
    rcases di.prov k it hg with ⟨e1, he1, hl1⟩
    have heq : e1 = b := hdom.tags e1 b (hpast _ he1) hball (by rw [← hl1.1]; exact htag)
    have hk : k = b.key := by rw [← inv.wf.keyed k it hg, hl1.2.1, heq]
    rw [hk, hf.1] at hg
    cases hg
  have hg0 : GenInv (EBd s.okSent) c n := di.dup
  rcases submit_gen env _ (EBd_class _) c b n inv.wf inv.cfg hg0 hf.1 hf.2 hE with ⟨hg2, ho2⟩
  simp only [stepCore]
  refine ⟨hstep.wf inv.wf, prov_touch di.prov hbnew hbs.1 hstep.other,
    sendBundle_cons env b n inv.wf (by rw [inv.cfg]; exact hfix) di.cons hf.1 hf.2, hg2, ?_⟩
  intro o ho
  rcases ho2 o ho with ⟨h1, h2⟩
  refine ⟨h1, h2, ?_⟩
  intro p b' ok hob
  rcases hbs.2 o ho with ⟨q, ok', hq⟩
  rw [hob] at hq
  cases hq
  exact ⟨b, hbnew, Like.refl _⟩

theorem dcore_receive (c : Cfg) (hfix : c.holdFix = true) (env : Env) (past fut : List Event) (b : Bundle)
    (r : Option Eid) (hdom : Domain13t c (past ++ .receive b r :: fut)) (s : SpecSt) (n : Node)
    (inv : RInv c past s n) (di : DInv c past s n) :
    DCore c past s (.receive b r) (stepCore env n (.receive b r)).1 (stepCore env n (.receive b r)).2 := by
  have hstep := receive_kstep env b r n inv.wf
  have hbnew : evBundle (past ++ [.receive b r]) b := by
    right; rw [received_append]; exact List.mem_append_right _ List.mem_cons_self
  have hball : evBundle (past ++ .receive b r :: fut) b := by
    right; rw [received_append]; exact List.mem_append_right _ List.mem_cons_self
  have hpast : ∀ x, evBundle past x → evBundle (past ++ .receive b r :: fut) x := by
    intro x hx
    rcases hx with hx | hx
    · left; rw [submitted_append]; exact List.mem_append_left _ hx
    · right; rw [received_append]; exact List.mem_append_left _ hx
  -- a bundle the node does not know has no remembered transmissions
  have hseed : (newDesc n b.key).cons.isEmpty = true →
      ∀ m itm, m.store.get b.key = some itm → m.cfg = c → ∀ e, EBd s.okSent b e →
        Booked (notifyNew b.key b m) b.key e := by
    intro hemp m itm _ _ e he
    exfalso
    have hnone : n.store.get b.key = none := by
      cases hg : n.store.get b.key with
      | none => rfl
      | some it =>
        have := di.cons _ it hg
        rw [newDesc_cons n b.key it hg, this] at hemp
        cases hemp
    rcases di.live _ he.1 with ⟨k, it, hg, htag⟩
    rcases di.prov k it hg with ⟨e1, he1, hl1⟩
    have heq : e1 = b := hdom.tags e1 b (hpast _ he1) hball (by rw [← hl1.1]; exact htag)
    have hk : k = b.key := by rw [← inv.wf.keyed k it hg, hl1.2.1, heq]
    rw [hk, hnone] at hg
    cases hg
  have hg0 : GenInv (EBd s.okSent) c n := di.dup
  rcases receive_gen env _ (EBd_class _) c b r n inv.wf inv.cfg hg0 hseed with ⟨hg2, ho2⟩
  simp only [stepCore]
  refine ⟨hstep.wf inv.wf, prov_touch di.prov hbnew (receive_bstep env b r n) hstep.only.other,
    receive_cons env b r n inv.wf (by rw [inv.cfg]; exact hfix) di.cons, hg2, ?_⟩
  intro o ho
  rcases ho2 o ho with ⟨h1, h2⟩
  refine ⟨h1, h2, ?_⟩
  intro p b' ok hob
  -- the outputs of a reception name the received bundle
  have : b' = b := by
    subst hob
    unfold receive at ho
    simp only at ho
    split at ho
    · cases ho
    · split at ho
      · cases ho
      · rcases dispatching_names' env _ b _ rfl _ ho with ⟨q, ok', hq⟩
        cases hq; rfl
  rw [this]
  exact ⟨b, hbnew, Like.refl _⟩

theorem dcore_cleanTick (c : Cfg) (env : Env) (past : List Event) (s : SpecSt) (n : Node) (t : Nat)
    (inv : RInv c past s n) (di : DInv c past s n) :
    DCore c past s (.cleanTick t) (stepCore env n (.cleanTick t)).1 (stepCore env n (.cleanTick t)).2 := by
  have hget : ∀ k, (stepCore env n (.cleanTick t)).1.store.get k =
      if k ∈ expiredKeys n.store t then none else n.store.get k := by
    intro k
    simp only [stepCore, deleteExpired]
    exact Store.get_foldl_erase _ _ _
  have hsub : ∀ k it', (stepCore env n (.cleanTick t)).1.store.get k = some it' → n.store.get k = some it' := by
    intro k it' hg
    rw [hget] at hg
    split at hg
    · cases hg
    · exact hg
  refine ⟨wf_foldl_erase (expiredKeys n.store t) { n with now := t } ⟨inv.wf.keyed, inv.wf.nodup⟩, ?_, ?_, ?_,
    fun o ho => by cases ho⟩
  · exact prov_sub di.prov (fun k it' hg' => ⟨it', hsub k it' hg', Like.refl _⟩)
  · intro k it hg; exact di.cons k it (hsub k it hg)
  · intro k it hg hrep e he hh
    have hg0 := hsub k it hg
    have hb := di.dup k it hg0 hrep e he
    unfold Booked hasBook sentL at hb
    unfold hasBook at hh
    unfold sentL
    have hcfg : (stepCore env n (.cleanTick t)).1.cfg = n.cfg := rfl
    have hsp : (stepCore env n (.cleanTick t)).1.spray = n.spray := rfl
    rw [hcfg, hsp, hg] at *
    rw [hg0] at hb
    exact hb hh

theorem dup_step (c : Cfg) (hfix : c.holdFix = true) (env : Env) (past fut : List Event) (ev : Event)
    (hdom : Domain13t c (past ++ ev :: fut)) (s : SpecSt) (n : Node) (inv : RInv c past s n) (di : DInv c past s n) :
    dupFail c s (obsOf (ev, (step env n ev).2, (step env n ev).1)) = none ∧
    DInv c (past ++ [ev]) (specNext c s (obsOf (ev, (step env n ev).2, (step env n ev).1))) (step env n ev).1 := by
  apply dup_of_core c env past fut ev s n hdom
  cases ev with
  | submit b => exact dcore_submit c hfix env past fut b hdom s n inv di
  | receive b r => exact dcore_receive c hfix env past fut b r hdom s n inv di
  | peerUp p =>
    simp only [stepCore]
    split
    · exact dcore_checkPending c hfix env past s n n (.peerUp p) inv di rfl rfl rfl
    · exact dcore_checkPending c hfix env past s n _ (.peerUp p) inv di rfl rfl rfl
  | peerDown a => exact dcore_storeSame c past s n _ (.peerDown a) inv di rfl rfl (Or.inl rfl)
  | retryTick => exact dcore_checkPending c hfix env past s n n .retryTick inv di rfl rfl rfl
  | cleanTick t => exact dcore_cleanTick c env past s n t inv di
  | restart => exact dcore_storeSame c past s n _ .restart inv di rfl rfl (Or.inr rfl)

theorem dup_run (c : Cfg) (hfix : c.holdFix = true) (env : Env) :
    ∀ (fut past : List Event) (s : SpecSt) (n : Node) (i : Nat), Domain13t c (past ++ fut) → RInv c past s n →
    DInv c past s n → firstFail dupFail c s i ((trace env n fut).map obsOf) = none
  | [], _, _, _, _, _, _, _ => rfl
  | ev :: fut, past, s, n, i, hdom, inv, di => by
    simp only [trace, List.map_cons, firstFail]
    have h2 := rinv_step c env past fut ev hdom.d13.dom s n inv
    rcases dup_step c hfix env past fut ev hdom s n inv di with ⟨h3, h4⟩
    rw [h3]
    simp only
    exact dup_run c hfix env fut (past ++ [ev]) _ _ (i + 1) (by simpa using hdom) h2 h4

theorem dinv_init (c : Cfg) (now : Nat) : DInv c [] (SpecSt.init now) (init c now) := by
  refine ⟨?_, ?_, ?_, ?_⟩
  · intro k it h; simp [init, Store.get] at h
  · intro k it h; simp [init, Store.get] at h
  · intro k it h; simp [init, Store.get] at h
  · intro te h; simp [SpecSt.init] at h

end Dtn7.Node
