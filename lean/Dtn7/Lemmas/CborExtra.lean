import Dtn7.Model.Cbor
import Dtn7.Model.Eid
import Dtn7.Lemmas.Cbor

/-!
Inversion lemmas for the CBOR head codec: what a successful read says about the value and the
bytes consumed (used to show that everything the bundle parser accepts can be written again).
-/
namespace Dtn7.Cbor.Lemmas
open Dtn7.Cbor Dtn7.Eid

theorem foldl_beVal_lt (bs : Bytes) (acc : Nat) :
    bs.foldl (fun a b => a * 256 + b.toNat) acc < (acc + 1) * 256 ^ bs.length := by
  induction bs generalizing acc with
  | nil => simp
  | cons b bs ih =>
    simp only [List.foldl_cons, List.length_cons, Nat.pow_succ]
    have hb : b.toNat < 256 := b.toNat_lt
    have h := ih (acc * 256 + b.toNat)
    have : (acc * 256 + b.toNat + 1) * 256 ^ bs.length ≤ (acc + 1) * (256 ^ bs.length * 256) := by
      have : acc * 256 + b.toNat + 1 ≤ (acc + 1) * 256 := by omega
      calc (acc * 256 + b.toNat + 1) * 256 ^ bs.length
          ≤ ((acc + 1) * 256) * 256 ^ bs.length := Nat.mul_le_mul_right _ this
        _ = (acc + 1) * (256 ^ bs.length * 256) := by
            rw [Nat.mul_assoc, Nat.mul_comm 256 (256 ^ bs.length)]
    omega

theorem beVal_lt (bs : Bytes) : beVal bs < 256 ^ bs.length := by
  have := foldl_beVal_lt bs 0
  simpa [beVal] using this

/-- A successful head read: the major type is one of the eight, the argument fits `uint64`, at least
one byte was consumed and the rest is a suffix. -/
theorem decHead_ok {bs : Bytes} {m n : Nat} {r : Bytes} (h : decHead bs = .ok (m, n, r)) :
    m < 8 ∧ n < 2 ^ 64 ∧ r.length < bs.length ∧ ∃ pre, bs = pre ++ r := by
  cases bs with
  | nil => simp [decHead] at h
  | cons b rest =>
    simp only [decHead] at h
    split at h
    · simp at h
    · split at h
      · simp at h
      · have hb : b.toNat < 256 := b.toNat_lt
        split at h
        · simp only [Except.ok.injEq, Prod.mk.injEq] at h
          obtain ⟨rfl, rfl, rfl⟩ := h
          refine ⟨by omega, by omega, by simp, [b], rfl⟩
        · split at h
          · split at h
            · simp at h
            · rename_i h27 hlen
              simp only [Except.ok.injEq, Prod.mk.injEq] at h
              obtain ⟨rfl, rfl, rfl⟩ := h
              have hl : (List.take (2 ^ (b.toNat % 32 - 24)) rest).length ≤ 8 := by
                rw [List.length_take]
                have : 2 ^ (b.toNat % 32 - 24) ≤ 8 := by
                  have h3 : b.toNat % 32 - 24 ≤ 3 := by omega
                  calc 2 ^ (b.toNat % 32 - 24) ≤ 2 ^ 3 := Nat.pow_le_pow_right (by decide) h3
                    _ = 8 := rfl
                omega
              have hv := beVal_lt (List.take (2 ^ (b.toNat % 32 - 24)) rest)
              have hp : 256 ^ (List.take (2 ^ (b.toNat % 32 - 24)) rest).length ≤ 256 ^ 8 :=
                Nat.pow_le_pow_right (by decide) hl
              refine ⟨by omega, ?_, ?_, b :: rest.take (2 ^ (b.toNat % 32 - 24)), ?_⟩
              · have : (256 : Nat) ^ 8 = 2 ^ 64 := by decide
                omega
              · simp only [List.length_drop, List.length_cons]
                exact Nat.lt_succ_of_le (Nat.sub_le _ _)
              · simp
          · simp at h

theorem decExpect_ok {maj : Nat} {bs : Bytes} {n : Nat} {r : Bytes} (h : decExpect maj bs = .ok (n, r)) :
    n < 2 ^ 64 ∧ r.length < bs.length ∧ decHead bs = .ok (maj, n, r) := by
  unfold decExpect at h
  cases hd : decHead bs with
  | error e => simp [hd] at h
  | ok x =>
    obtain ⟨m, n', r'⟩ := x
    simp only [hd] at h
    split at h
    · rename_i hm
      simp only [Except.ok.injEq, Prod.mk.injEq] at h
      obtain ⟨rfl, rfl⟩ := h
      obtain ⟨_, h2, h3, _⟩ := decHead_ok hd
      exact ⟨h2, h3, by rw [hm]⟩
    · simp at h

theorem readRaw_ok {l : Nat} {bs d r : Bytes} (h : readRaw l bs = .ok (d, r)) :
    d.length = l ∧ l ≤ maxInt32 ∧ bs = d ++ r := by
  unfold readRaw at h
  split at h
  · simp at h
  · split at h
    · simp at h
    · simp only [Except.ok.injEq, Prod.mk.injEq] at h
      obtain ⟨rfl, rfl⟩ := h
      refine ⟨?_, by omega, (List.take_append_drop l bs).symm⟩
      rw [List.length_take]; omega

theorem decBytes_ok {bs d r : Bytes} (h : decBytes bs = .ok (d, r)) :
    d.length ≤ maxInt32 ∧ r.length < bs.length := by
  unfold decBytes at h
  cases he : decExpect majBytes bs with
  | error e => simp [he] at h
  | ok x =>
    obtain ⟨n, r'⟩ := x
    simp only [he] at h
    obtain ⟨h1, h2, h3⟩ := readRaw_ok h
    obtain ⟨_, h5, _⟩ := decExpect_ok he
    refine ⟨by omega, ?_⟩
    have : r'.length = d.length + r.length := by rw [h3, List.length_append]
    omega

/-- `bindP` succeeds iff both stages do. -/
theorem bindP_eq_ok {α β : Type} {p : Except Err (α × Bytes)} {f : α → Bytes → Except Err β} {y : β} :
    bindP p f = .ok y ↔ ∃ a r, p = .ok (a, r) ∧ f a r = .ok y := by
  cases p with
  | error e => simp [bindP]
  | ok x =>
    obtain ⟨a, r⟩ := x
    simp only [bindP, Except.ok.injEq, Prod.mk.injEq]
    constructor
    · intro h; exact ⟨a, r, ⟨rfl, rfl⟩, h⟩
    · rintro ⟨_, _, ⟨rfl, rfl⟩, h⟩; exact h

end Dtn7.Cbor.Lemmas
