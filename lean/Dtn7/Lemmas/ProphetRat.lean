/-
The update formulas on EXACT rationals satisfy the `Laws` (Mathlib: linear arithmetic only).
-/
import Dtn7.Lemmas.Prophet
import Mathlib.Tactic.Linarith
import Mathlib.Tactic.Ring
import Mathlib.Algebra.Order.Ring.Rat
import Mathlib.Algebra.Order.Field.Rat

namespace Dtn7.Lemmas.Prophet
open Dtn7.Prophet

/-- "is a probability" on exact rationals -/
def ProbQ (v : Rat) : Prop := 0 ≤ v ∧ v ≤ 1

theorem ratLaws : Laws ratOps (· ≤ ·) ProbQ where
  le_refl := fun a => le_refl a
  le_trans := fun _ _ _ h1 h2 => le_trans h1 h2
  dom_zero := ⟨le_refl _, by decide⟩
  enc := by
    rintro c p ⟨c0, c1⟩ ⟨p0, p1⟩
    simp only [encounterVal, ratOps, ProbQ]
    have h1 := mul_nonneg (sub_nonneg.2 p1) c0
    have h2 := mul_nonneg (sub_nonneg.2 p1) (sub_nonneg.2 c1)
    refine ⟨⟨?_, ?_⟩, ?_⟩ <;> nlinarith
  age := by
    rintro g p ⟨g0, g1⟩ ⟨p0, p1⟩
    simp only [ageVal, ratOps, ProbQ]
    have h1 := mul_nonneg p0 g0
    have h2 := mul_nonneg p0 (sub_nonneg.2 g1)
    refine ⟨⟨?_, ?_⟩, ?_⟩ <;> nlinarith
  trans := by
    rintro b p a c ⟨b0, b1⟩ ⟨p0, p1⟩ ⟨a0, a1⟩ ⟨c0, c1⟩
    simp only [transVal, ratOps, ProbQ]
    have hd : 0 ≤ 1 - p := sub_nonneg.2 p1
    have hac0 : 0 ≤ a * c := mul_nonneg a0 c0
    have hac1 : a * c ≤ 1 := by nlinarith [mul_nonneg a0 (sub_nonneg.2 c1)]
    have hacb0 : 0 ≤ a * c * b := mul_nonneg hac0 b0
    have hacb1 : a * c * b ≤ 1 := by nlinarith [mul_nonneg hac0 (sub_nonneg.2 b1)]
    have e : (1 - p) * a * c * b = (1 - p) * (a * c * b) := by ring
    rw [e]
    have h1 := mul_nonneg hd hacb0
    have h2 := mul_nonneg hd (sub_nonneg.2 hacb1)
    refine ⟨⟨?_, ?_⟩, ?_⟩ <;> nlinarith

end Dtn7.Lemmas.Prophet
