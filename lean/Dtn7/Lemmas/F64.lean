/-
Facts about the concrete `rne` of `Dtn7.Model.F64` (core Lean only: `omega` + `Nat` lemmas).

  * `rneNat_mono`       rounding is monotone
  * `rneNat_exact`      identity on binary64 values
  * `rneNat_isF64`      the result is a binary64 value
  * `rneNat_le_one`     anything ≤ 1 + 2⁻⁵³ rounds to at most 1 (the tie goes to the even mantissa of 1)
  * `rneNat_err_le`     for y ≤ 1 the rounding error is at most 2⁻⁵⁴ (upwards)
and from them the three inequalities the PRoPHET invariants need:
  `mul_le_left` (`rne(a·c) ≤ a` for `c ≤ 1`), `add_ge_left`, `add_one_sub_le_one`
  (`rne(p + t) ≤ 1` whenever `t ≤ rne(1 − p)`).
-/
import Dtn7.Model.F64

namespace Dtn7.Lemmas.F64
open Dtn7.F64

/-! ### bit length -/

theorem lt_pow_bitLen (k : Nat) : k < 2 ^ bitLen k := by
  unfold bitLen
  split
  · next h => subst h; decide
  · exact Nat.lt_log2_self

theorem pow_bitLen_le (k : Nat) (h : k ≠ 0) : 2 ^ (bitLen k - 1) ≤ k := by
  unfold bitLen
  simp only [h, if_false, Nat.add_sub_cancel]
  exact Nat.log2_self_le h

theorem bitLen_le_iff (k l : Nat) : bitLen k ≤ l ↔ k < 2 ^ l := by
  constructor
  · intro h
    exact Nat.lt_of_lt_of_le (lt_pow_bitLen k) (Nat.pow_le_pow_right (by decide) h)
  · intro h
    apply Classical.byContradiction
    intro hn
    have hk : k ≠ 0 := by
      intro h0; subst h0; simp [bitLen] at hn
    have h1 := pow_bitLen_le k hk
    have h2 : 2 ^ l ≤ 2 ^ (bitLen k - 1) := Nat.pow_le_pow_right (by decide) (by omega)
    omega

theorem bitLen_mono {a b : Nat} (h : a ≤ b) : bitLen a ≤ bitLen b :=
  (bitLen_le_iff a _).2 (Nat.lt_of_le_of_lt h (lt_pow_bitLen b))

/-! ### rounding a quotient -/

theorem rs_cases (k s : Nat) : roundShift k s = k / 2 ^ s ∨ roundShift k s = k / 2 ^ s + 1 := by
  unfold roundShift
  simp only
  split
  · exact Or.inr rfl
  · exact Or.inl rfl

/-- The rounded quotient is at most half a unit above the exact one. -/
theorem rs_upper (k s : Nat) : 2 * (roundShift k s * 2 ^ s) ≤ 2 * k + 2 ^ s := by
  have hD : 0 < 2 ^ s := Nat.two_pow_pos s
  have hdm := Nat.div_add_mod k (2 ^ s)
  have hr := Nat.mod_lt k hD
  unfold roundShift
  simp only
  generalize 2 ^ s = D at *
  generalize hn : k / D = n at *
  generalize k % D = r at *
  split
  · next hc =>
    rw [Nat.add_mul, Nat.mul_comm n D]
    generalize D * n = nd at *
    omega
  · rw [Nat.mul_comm n D]
    generalize D * n = nd at *
    omega

/-- … and at most half a unit below. -/
theorem rs_lower (k s : Nat) : 2 * k ≤ 2 * (roundShift k s * 2 ^ s) + 2 ^ s := by
  have hD : 0 < 2 ^ s := Nat.two_pow_pos s
  have hdm := Nat.div_add_mod k (2 ^ s)
  have hr := Nat.mod_lt k hD
  unfold roundShift
  simp only
  generalize 2 ^ s = D at *
  generalize hn : k / D = n at *
  generalize k % D = r at *
  split
  · next hc =>
    rw [Nat.add_mul, Nat.mul_comm n D]
    generalize D * n = nd at *
    omega
  · next hc =>
    rw [Nat.mul_comm n D]
    generalize D * n = nd at *
    omega

theorem rs_exact (g s : Nat) : roundShift (g * 2 ^ s) s = g := by
  have hD : 0 < 2 ^ s := Nat.two_pow_pos s
  unfold roundShift
  simp only [Nat.mul_mod_left, Nat.mul_div_cancel _ hD]
  split
  · next hc => omega
  · rfl

theorem rs_mono {k1 k2 : Nat} (s : Nat) (h : k1 ≤ k2) : roundShift k1 s ≤ roundShift k2 s := by
  have hD : 0 < 2 ^ s := Nat.two_pow_pos s
  have hdm1 := Nat.div_add_mod k1 (2 ^ s)
  have hdm2 := Nat.div_add_mod k2 (2 ^ s)
  have hr1 := Nat.mod_lt k1 hD
  have hr2 := Nat.mod_lt k2 hD
  have hdiv : k1 / 2 ^ s ≤ k2 / 2 ^ s := Nat.div_le_div_right h
  rcases Nat.lt_or_ge (k1 / 2 ^ s) (k2 / 2 ^ s) with hlt | hge
  · rcases rs_cases k1 s with h1 | h1 <;> rcases rs_cases k2 s with h2 | h2 <;> omega
  · have heq : k1 / 2 ^ s = k2 / 2 ^ s := Nat.le_antisymm hdiv hge
    unfold roundShift
    simp only
    rw [heq] at hdm1 ⊢
    generalize 2 ^ s = D at *
    generalize k2 / D = n at *
    generalize k1 % D = r1 at *
    generalize k2 % D = r2 at *
    generalize D * n = nd at *
    have hr : r1 ≤ r2 := by omega
    split
    · next hc1 =>
      split
      · exact Nat.le_refl _
      · next hc2 => exfalso; apply hc2; omega
    · split <;> omega

theorem rs_le_of_le {k g s : Nat} (h : k ≤ g * 2 ^ s) : roundShift k s ≤ g := by
  have := rs_mono s h
  rwa [rs_exact] at this

theorem rs_ge_of_ge {k g s : Nat} (h : g * 2 ^ s ≤ k) : g ≤ roundShift k s := by
  have := rs_mono s h
  rwa [rs_exact] at this

/-! ### `rneNat` -/

theorem le_shiftOf (x k : Nat) : x ≤ shiftOf x k := by unfold shiftOf; omega

theorem shiftOf_mono (x : Nat) {k1 k2 : Nat} (h : k1 ≤ k2) : shiftOf x k1 ≤ shiftOf x k2 := by
  have := bitLen_mono h
  unfold shiftOf
  omega

theorem lt_pow_shiftOf (x k : Nat) : k < 2 ^ (shiftOf x k + 53) := by
  apply (bitLen_le_iff k _).1
  unfold shiftOf
  omega

theorem pow_mul_pow_sub {a b : Nat} (h : b ≤ a) : 2 ^ (a - b) * 2 ^ b = 2 ^ a := by
  rw [← Nat.pow_add]; congr 1; omega

/-- **Monotone.** -/
theorem rneNat_mono (x : Nat) {k1 k2 : Nat} (h : k1 ≤ k2) : rneNat x k1 ≤ rneNat x k2 := by
  unfold rneNat
  have hs := shiftOf_mono x h
  have hx1 := le_shiftOf x k1
  have hx2 := le_shiftOf x k2
  rcases Nat.lt_or_ge (shiftOf x k1) (shiftOf x k2) with hlt | hge
  · -- different binades: the boundary 2^(s2+52) separates them and is on both grids
    generalize hs1 : shiftOf x k1 = s1 at *
    generalize hs2 : shiftOf x k2 = s2 at *
    have hb2 : bitLen k2 = s2 + 53 := by unfold shiftOf at hs2; omega
    have hk2 : k2 ≠ 0 := by intro h0; subst h0; simp [bitLen] at hb2
    have hlow : 2 ^ (s2 + 52) ≤ k2 := by
      have := pow_bitLen_le k2 hk2
      rwa [hb2] at this
    have hup : k1 < 2 ^ (s1 + 53) := by rw [← hs1]; exact lt_pow_shiftOf x k1
    have hup' : k1 ≤ 2 ^ (s2 + 52 - s1) * 2 ^ s1 := by
      rw [pow_mul_pow_sub (by omega)]
      exact Nat.le_of_lt (Nat.lt_of_lt_of_le hup (Nat.pow_le_pow_right (by decide) (by omega)))
    have hlow' : 2 ^ 52 * 2 ^ s2 ≤ k2 := by rw [← Nat.pow_add, Nat.add_comm]; exact hlow
    have h1 := rs_le_of_le hup'
    have h2 := rs_ge_of_ge hlow'
    calc roundShift k1 s1 * 2 ^ (s1 - x)
        ≤ 2 ^ (s2 + 52 - s1) * 2 ^ (s1 - x) := Nat.mul_le_mul_right _ h1
      _ = 2 ^ 52 * 2 ^ (s2 - x) := by rw [← Nat.pow_add, ← Nat.pow_add]; congr 1; omega
      _ ≤ roundShift k2 s2 * 2 ^ (s2 - x) := Nat.mul_le_mul_right _ h2
  · have heq : shiftOf x k1 = shiftOf x k2 := Nat.le_antisymm hs hge
    rw [heq]
    exact Nat.mul_le_mul_right _ (rs_mono _ h)

/-- **Identity on binary64 values** (`f` double, in any unit `x`). -/
theorem rneNat_exact (x f : Nat) (hf : IsF64 f) : rneNat x (f * 2 ^ x) = f := by
  obtain ⟨m, q, hm, rfl⟩ := hf
  unfold rneNat
  have hx := le_shiftOf x (m * 2 ^ q * 2 ^ x)
  have hsq : shiftOf x (m * 2 ^ q * 2 ^ x) ≤ q + x := by
    have : m * 2 ^ q * 2 ^ x < 2 ^ (53 + (q + x)) := by
      rw [Nat.mul_assoc, ← Nat.pow_add, Nat.pow_add 2 53]
      exact Nat.mul_lt_mul_of_pos_right hm (Nat.two_pow_pos _)
    have := (bitLen_le_iff _ _).2 this
    unfold shiftOf
    omega
  generalize shiftOf x (m * 2 ^ q * 2 ^ x) = s at *
  have e : m * 2 ^ q * 2 ^ x = (m * 2 ^ (q + x - s)) * 2 ^ s := by
    rw [Nat.mul_assoc, Nat.mul_assoc, ← Nat.pow_add, pow_mul_pow_sub hsq]
  rw [e, rs_exact, Nat.mul_assoc, ← Nat.pow_add]
  congr 2
  omega

/-- **The result is a binary64 value.** -/
theorem rneNat_isF64 (x k : Nat) : IsF64 (rneNat x k) := by
  unfold rneNat
  have hlt := lt_pow_shiftOf x k
  generalize shiftOf x k = s at *
  have hle : roundShift k s ≤ 2 ^ 53 := by
    apply rs_le_of_le
    rw [← Nat.pow_add, Nat.add_comm]
    exact Nat.le_of_lt hlt
  rcases Nat.lt_or_ge (roundShift k s) (2 ^ 53) with h | h
  · exact ⟨_, _, h, rfl⟩
  · have : roundShift k s = 2 ^ 53 := Nat.le_antisymm hle h
    refine ⟨2 ^ 52, s - x + 1, by decide, ?_⟩
    rw [this, Nat.pow_succ 2 (s - x)]
    generalize 2 ^ (s - x) = P
    omega

theorem isF64_zero : IsF64 0 := ⟨0, 0, by decide, rfl⟩
theorem isF64_pow (e : Nat) : IsF64 (2 ^ e) := ⟨1, e, by decide, by rw [Nat.one_mul]⟩

/-- The double 1.0 (in units of 2^-1074). -/
def oneN : Nat := 2 ^ 1074

theorem one_eq : (one : Int) = ((oneN : Nat) : Int) := by
  simp [one, oneN]

theorem bitLen_of_range {k e : Nat} (h1 : 2 ^ e ≤ k) (h2 : k < 2 ^ (e + 1)) : bitLen k = e + 1 := by
  have hle := (bitLen_le_iff k (e + 1)).2 h2
  have hge : ¬ bitLen k ≤ e := fun h => by
    have := (bitLen_le_iff k e).1 h
    omega
  omega

/-- **Anything up to 1 + 2⁻⁵³ rounds to at most 1** (unit 2^-1074): above 1 the grid is 2⁻⁵², the
midpoint to the next double is a tie and 1 has the even mantissa. -/
theorem rneNat_le_one (k : Nat) (h : k ≤ oneN + 2 ^ 1021) : rneNat 0 k ≤ oneN := by
  rcases Nat.lt_or_ge k oneN with hlt | hge
  · have := rneNat_mono 0 (Nat.le_of_lt hlt)
    have e := rneNat_exact 0 oneN (isF64_pow 1074)
    rw [Nat.pow_zero, Nat.mul_one] at e
    rwa [e] at this
  · have hb : bitLen k = 1075 := by
      apply bitLen_of_range (e := 1074) hge
      have : (2 : Nat) ^ 1021 < 2 ^ 1074 := Nat.pow_lt_pow_right (by decide) (by decide)
      have e2 : (2 : Nat) ^ (1074 + 1) = 2 ^ 1074 + 2 ^ 1074 := by rw [Nat.pow_succ]; omega
      unfold oneN at h
      omega
    have hs : shiftOf 0 k = 1022 := by unfold shiftOf; omega
    unfold rneNat
    rw [hs]
    -- k = 2^52 · 2^1022 + e with e ≤ 2^1021: quotient 2^52 (even), remainder e ≤ half
    have e1 : oneN = 2 ^ 52 * 2 ^ 1022 := by unfold oneN; rw [← Nat.pow_add]
    have e3 : (2 : Nat) ^ 1022 = 2 * 2 ^ 1021 := by rw [Nat.mul_comm, ← Nat.pow_succ]
    have hD : 0 < 2 ^ 1022 := Nat.two_pow_pos _
    have hdm := Nat.div_add_mod k (2 ^ 1022)
    have hr := Nat.mod_lt k hD
    have hq : k / 2 ^ 1022 = 2 ^ 52 := by
      apply Nat.le_antisymm
      · apply Nat.le_of_lt_succ
        apply (Nat.div_lt_iff_lt_mul hD).2
        rw [Nat.succ_mul, ← e1]
        omega
      · apply (Nat.le_div_iff_mul_le hD).2
        rw [← e1]; exact hge
    have hrs : roundShift k 1022 = 2 ^ 52 := by
      unfold roundShift
      simp only [hq]
      rw [hq, Nat.mul_comm, ← e1] at hdm
      split
      · next hc =>
        exfalso
        rcases hc with hc | ⟨_, hc⟩
        · omega
        · have : (2 : Nat) ^ 52 % 2 = 0 := by decide
          omega
      · rfl
    rw [hrs, Nat.sub_zero, ← e1]
    exact Nat.le_refl _

/-- For `y ≤ 1` rounding (unit 2^-1074) goes up by at most 2⁻⁵⁴. -/
theorem rneNat_err_le (y : Nat) (h : y ≤ oneN) : rneNat 0 y ≤ y + 2 ^ 1021 := by
  unfold rneNat
  have hs : shiftOf 0 y ≤ 1022 := by
    have : bitLen y ≤ 1075 := (bitLen_le_iff _ _).2 (Nat.lt_of_le_of_lt h (by
      unfold oneN; exact Nat.pow_lt_pow_right (by decide) (by decide)))
    unfold shiftOf; omega
  have hu := rs_upper y (shiftOf 0 y)
  generalize shiftOf 0 y = s at *
  have hp : 2 ^ s ≤ 2 ^ 1022 := Nat.pow_le_pow_right (by decide) hs
  have e3 : (2 : Nat) ^ 1022 = 2 * 2 ^ 1021 := by rw [Nat.mul_comm, ← Nat.pow_succ]
  rw [Nat.sub_zero]
  omega

/-! ### the three inequalities used by the PRoPHET invariants (Nat level, unit 2^-1074) -/

/-- `rne(a · c) ≤ a` for a double `a` and `c ≤ 1`. -/
theorem mul_le_left (a c : Nat) (ha : IsF64 a) (hc : c ≤ oneN) : rneNat 1074 (a * c) ≤ a := by
  have h1 : a * c ≤ a * 2 ^ 1074 := Nat.mul_le_mul_left _ hc
  have := rneNat_mono 1074 h1
  rwa [rneNat_exact 1074 a ha] at this

/-- `p ≤ rne(p + t)` for a double `p`. -/
theorem add_ge_left (p t : Nat) (hp : IsF64 p) : p ≤ rneNat 0 (p + t) := by
  have := rneNat_mono 0 (Nat.le_add_right p t)
  have e := rneNat_exact 0 p hp
  rw [Nat.pow_zero, Nat.mul_one] at e
  rwa [e] at this

/-- `rne(p + t) ≤ 1` whenever `t ≤ rne(1 − p)`: the subtraction errs by at most 2⁻⁵⁴ and
everything up to 1 + 2⁻⁵³ rounds to 1. -/
theorem add_one_sub_le_one (p t : Nat) (hp : p ≤ oneN) (ht : t ≤ rneNat 0 (oneN - p)) :
    rneNat 0 (p + t) ≤ oneN := by
  apply rneNat_le_one
  have := rneNat_err_le (oneN - p) (Nat.sub_le _ _)
  omega

theorem rneNat_sub_le_one (p : Nat) : rneNat 0 (oneN - p) ≤ oneN := by
  have := rneNat_mono 0 (Nat.sub_le oneN p)
  have e := rneNat_exact 0 oneN (isF64_pow 1074)
  rw [Nat.pow_zero, Nat.mul_one] at e
  rwa [e] at this

/-! ### signed wrapper -/

theorem rne_ofNat (x k : Nat) : rne x (k : Int) = ((rneNat x k : Nat) : Int) := by
  unfold rne
  have : ¬ ((k : Int) < 0) := by omega
  simp [this]

end Dtn7.Lemmas.F64
