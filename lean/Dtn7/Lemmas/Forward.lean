import Dtn7.Model.Forward

/-! Helper lemmas for C06 (`Dtn7.Props.C06`). Core only. -/
namespace Dtn7.Forward.Lemmas
open Dtn7.Forward

/-! ### Hop count: `uint8` arithmetic over the whole 0..255 × 0..255 square -/

theorem hopIncrement_fixed (l c : UInt8) :
    hopIncrement Cfg.fixed l c =
      if c = 255 then (c, true) else (c + 1, decide (c + 1 > l)) := by
  simp [hopIncrement, Cfg.fixed]

theorem toNat_succ_of_ne (c : UInt8) (h : c ≠ 255) : (c + 1).toNat = c.toNat + 1 := by
  have h1 : c.toNat < 256 := c.toNat_lt
  have h2 : c.toNat ≠ 255 := fun e => h (UInt8.toNat_inj.mp (by simpa using e))
  rw [UInt8.toNat_add]
  have : (1 : UInt8).toNat = 1 := rfl
  rw [this]
  omega

/-- The returned "exceeded" is exactly `count + 1 > limit` (in ℕ), for every pair. -/
theorem hopIncrement_exceeded_iff (l c : UInt8) :
    (hopIncrement Cfg.fixed l c).2 = true ↔ c.toNat + 1 > l.toNat := by
  rw [hopIncrement_fixed]
  by_cases h : c = 255
  · subst h
    have : l.toNat < 256 := l.toNat_lt
    simp
    have : (255 : UInt8).toNat = 255 := rfl
    omega
  · simp only [h, if_false, decide_eq_true_eq]
    rw [gt_iff_lt, UInt8.lt_iff_toNat_lt, toNat_succ_of_ne c h]

/-- Not exceeded ⇒ the new count is exactly one higher (no wrap) and within the limit. -/
theorem hopIncrement_ok (l c : UInt8) (h : (hopIncrement Cfg.fixed l c).2 = false) :
    (hopIncrement Cfg.fixed l c).1.toNat = c.toNat + 1 ∧ c.toNat + 1 ≤ l.toNat := by
  have hne : ¬ (c.toNat + 1 > l.toNat) := by
    intro hgt
    have := (hopIncrement_exceeded_iff l c).mpr hgt
    rw [h] at this
    exact Bool.noConfusion this
  have hc : c ≠ 255 := by
    intro e
    subst e
    have : l.toNat < 256 := l.toNat_lt
    have h255 : (255 : UInt8).toNat = 255 := rfl
    omega
  refine ⟨?_, by omega⟩
  rw [hopIncrement_fixed]
  simp only [hc, if_false]
  exact toNat_succ_of_ne c hc

/-- The reset after the sends restores the received count. -/
theorem hopDecrement_increment (l c : UInt8) (h : (hopIncrement Cfg.fixed l c).2 = false) :
    hopDecrement (hopIncrement Cfg.fixed l c).1 = c := by
  have hc : c ≠ 255 := by
    intro e
    subst e
    simp [hopIncrement_fixed] at h
  rw [hopIncrement_fixed]
  simp only [hc, if_false, hopDecrement]
  exact UInt8.add_sub_cancel c 1

/-! ### Block classes are disjoint; setters stay in their class -/

theorem isHop_not_others (b : Block) (h : isHop b = true) :
    isAge b = false ∧ isPrev b = false ∧ isPayload b = false := by
  unfold isHop at h
  unfold isAge isPrev isPayload
  split at h <;> simp_all

theorem isAge_not_others (b : Block) (h : isAge b = true) :
    isHop b = false ∧ isPrev b = false ∧ isPayload b = false := by
  unfold isAge at h
  unfold isHop isPrev isPayload
  split at h <;> simp_all

theorem isPrev_not_others (b : Block) (h : isPrev b = true) :
    isHop b = false ∧ isAge b = false ∧ isPayload b = false := by
  unfold isPrev at h
  unfold isHop isAge isPayload
  split at h <;> simp_all

theorem isSpecial_of_isHop (b : Block) (h : isHop b = true) : isSpecial b = true := by
  simp [isSpecial, h]
theorem isSpecial_of_isAge (b : Block) (h : isAge b = true) : isSpecial b = true := by
  simp [isSpecial, h]
theorem isSpecial_of_isPrev (b : Block) (h : isPrev b = true) : isSpecial b = true := by
  simp [isSpecial, h]

theorem isHop_setHopCount (c : UInt8) (b : Block) (h : isHop b = true) : isHop (setHopCount c b) = true := by
  unfold isHop at h ⊢
  unfold setHopCount
  split at h <;> simp_all
theorem isAge_setAge (a : Nat) (b : Block) (h : isAge b = true) : isAge (setAge a b) = true := by
  unfold isAge at h ⊢
  unfold setAge
  split at h <;> simp_all
theorem isPrev_setPrev (n : Bytes) (b : Block) (h : isPrev b = true) : isPrev (setPrev n b) = true := by
  unfold isPrev at h ⊢
  unfold setPrev
  split at h <;> simp_all

/-! ### `mapFirst` under `filter` -/

/-- A class `q` that neither the touched block nor its replacement belongs to is not affected. -/
theorem filter_mapFirst_other (p q : Block → Bool) (f : Block → Block)
    (h : ∀ b, p b = true → q b = false ∧ q (f b) = false) (bs : List Block) :
    (mapFirst p f bs).filter q = bs.filter q := by
  induction bs with
  | nil => rfl
  | cons b bs ih =>
    unfold mapFirst
    by_cases hp : p b = true
    · simp [hp, (h b hp).1, (h b hp).2]
    · simp [hp, List.filter_cons, ih]

/-- Within its own class the first element is replaced. -/
theorem filter_mapFirst_same (p : Block → Bool) (f : Block → Block)
    (hf : ∀ b, p b = true → p (f b) = true) (bs : List Block) :
    (mapFirst p f bs).filter p =
      match bs.filter p with
      | [] => []
      | h :: t => f h :: t := by
  induction bs with
  | nil => rfl
  | cons b bs ih =>
    unfold mapFirst
    by_cases hp : p b = true
    · simp [hp, hf b hp]
    · simp [hp, ih]

theorem firstHop_filter (bs : List Block) :
    firstHop bs = match bs.filter isHop with
      | [] => none
      | h :: _ => (match h.value with | .hop l c => some (l, c) | _ => none) := by
  induction bs with
  | nil => rfl
  | cons b bs ih =>
    unfold firstHop
    cases hv : b.value <;> simp [isHop, hv, ih]

theorem firstAge_filter (bs : List Block) :
    firstAge bs = match bs.filter isAge with
      | [] => none
      | h :: _ => (match h.value with | .age a => some a | _ => none) := by
  induction bs with
  | nil => rfl
  | cons b bs ih =>
    unfold firstAge
    cases hv : b.value <;> simp [isAge, hv, ih]

/-- Perm between lists of length ≤ 1 is equality. -/
theorem perm_eq_of_length_le_one {α} (l₁ l₂ : List α) (h : l₁.Perm l₂) (hl : l₂.length ≤ 1) : l₁ = l₂ := by
  match l₂, hl with
  | [], _ => exact List.Perm.eq_nil h
  | [a], _ => exact List.perm_singleton.mp h

/-! ### `sortBlocks` and `freeNum` -/

theorem insertBlk_perm (x : Block) (l : List Block) : (insertBlk x l).Perm (x :: l) := by
  induction l with
  | nil => exact List.Perm.refl _
  | cons y ys ih =>
    unfold insertBlk
    by_cases h : blkLess x y = true
    · simp [h]
    · simp only [h]
      exact (List.Perm.cons y ih).trans (List.Perm.swap x y ys)

theorem sortBlocks_perm (l : List Block) : (sortBlocks l).Perm l := by
  induction l with
  | nil => exact List.Perm.refl _
  | cons b bs ih =>
    unfold sortBlocks
    exact (insertBlk_perm b (sortBlocks bs)).trans (List.Perm.cons b ih)

/-- The loop of `AddExtensionBlock` ends on a number no block uses. -/
theorem freeNumFuel_not_mem (used : List Nat) :
    ∀ (fuel n : Nat), (used.filter (fun u => decide (n ≤ u))).length < fuel →
      freeNumFuel fuel n used ∉ used := by
  intro fuel
  induction fuel with
  | zero => intro n h; exact absurd h (Nat.not_lt_zero _)
  | succ fuel ih =>
    intro n h
    unfold freeNumFuel
    by_cases hc : used.contains n = true
    · simp only [hc, if_true]
      apply ih
      have hmem : n ∈ used := by simpa using hc
      -- the candidates ≥ n+1 are the candidates ≥ n without (at least one) n
      have hlt : (used.filter (fun u => decide (n + 1 ≤ u))).length <
          (used.filter (fun u => decide (n ≤ u))).length := by
        clear h ih hc
        induction used with
        | nil => cases hmem
        | cons u us ihu =>
          by_cases hu : u = n
          · subst hu
            have h1 : ¬ (u + 1 ≤ u) := by omega
            have hle : (us.filter (fun v => decide (u + 1 ≤ v))).length ≤
                (us.filter (fun v => decide (u ≤ v))).length := by
              clear ihu hmem
              induction us with
              | nil => simp
              | cons w ws ihw =>
                by_cases hw1 : u + 1 ≤ w
                · have hw0 : u ≤ w := by omega
                  simp [hw1, hw0]
                  exact ihw
                · by_cases hw0 : u ≤ w
                  · simp [hw1, hw0]
                    omega
                  · simp [hw1, hw0]
                    exact ihw
            simp [h1]
            omega
          · have hmem' : n ∈ us := by
              cases hmem with
              | head => exact absurd rfl hu
              | tail _ h => exact h
            have := ihu hmem'
            by_cases hw1 : n + 1 ≤ u
            · have hw0 : n ≤ u := by omega
              simp [hw1, hw0]
              exact this
            · by_cases hw0 : n ≤ u
              · simp [hw1, hw0]
                omega
              · simp [hw1, hw0]
                exact this
      omega
    · simp only [hc]
      intro hmem
      exact hc (by simpa using hmem)

theorem freeNum_not_mem (start : Nat) (used : List Nat) : freeNum start used ∉ used := by
  unfold freeNum
  apply freeNumFuel_not_mem
  have := List.length_filter_le (fun u => decide (start ≤ u)) used
  omega

/-! ### The steps of `forward` under `filter` -/

theorem isHop_iff (b : Block) : isHop b = true ↔ ∃ l c, b.value = .hop l c := by
  unfold isHop
  cases b.value <;> simp
theorem isAge_iff (b : Block) : isAge b = true ↔ ∃ a, b.value = .age a := by
  unfold isAge
  cases b.value <;> simp
theorem isPrev_iff (b : Block) : isPrev b = true ↔ ∃ e, b.value = .prevNode e := by
  unfold isPrev
  cases b.value <;> simp

theorem head_of_filter {p : Block → Bool} {bs : List Block} {x : Block} {t : List Block}
    (h : bs.filter p = x :: t) : p x = true := by
  have : x ∈ bs.filter p := by rw [h]; exact List.mem_cons_self
  exact (List.mem_filter.mp this).2

/-- `stepHop` leaves every class alone that contains no hop count block. -/
theorem stepHop_filter (cfg : Cfg) (q : Block → Bool) (hq : ∀ b, isHop b = true → q b = false)
    (bs bs1 : List Block) (h : stepHop cfg bs = .ok bs1) : bs1.filter q = bs.filter q := by
  unfold stepHop at h
  split at h
  · cases h; rfl
  · simp only at h
    split at h
    · cases h
    · cases h
      exact filter_mapFirst_other isHop q _
        (fun b hb => ⟨hq b hb, hq _ (isHop_setHopCount _ b hb)⟩) bs

theorem stepHop_nil (cfg : Cfg) (bs bs1 : List Block) (hn : bs.filter isHop = [])
    (h : stepHop cfg bs = .ok bs1) : bs1 = bs := by
  have hf : firstHop bs = none := by rw [firstHop_filter, hn]
  unfold stepHop at h
  rw [hf] at h
  cases h; rfl

theorem stepHop_cons (cfg : Cfg) (bs bs1 : List Block) (x : Block) (t : List Block) (l c : UInt8)
    (hc : bs.filter isHop = x :: t) (hv : x.value = .hop l c) (h : stepHop cfg bs = .ok bs1) :
    (hopIncrement cfg l c).2 = false ∧
      bs1.filter isHop = setHopCount (hopIncrement cfg l c).1 x :: t := by
  have hf : firstHop bs = some (l, c) := by rw [firstHop_filter, hc]; simp [hv]
  unfold stepHop at h
  rw [hf] at h
  simp only at h
  split at h
  · cases h
  · rename_i hex
    cases h
    refine ⟨by simpa using hex, ?_⟩
    rw [filter_mapFirst_same isHop _ (fun b hb => isHop_setHopCount _ b hb), hc]

theorem stepAge_filter (cfg : Cfg) (lt el : Nat) (q : Block → Bool) (hq : ∀ b, isAge b = true → q b = false)
    (bs bs2 : List Block) (h : stepAge cfg lt el bs = .ok bs2) : bs2.filter q = bs.filter q := by
  unfold stepAge at h
  split at h
  · cases h; rfl
  · simp only at h
    split at h
    · cases h
    · cases h
      exact filter_mapFirst_other isAge q _
        (fun b hb => ⟨hq b hb, hq _ (isAge_setAge _ b hb)⟩) bs

theorem stepAge_nil (cfg : Cfg) (lt el : Nat) (bs bs2 : List Block) (hn : bs.filter isAge = [])
    (h : stepAge cfg lt el bs = .ok bs2) : bs2 = bs := by
  have hf : firstAge bs = none := by rw [firstAge_filter, hn]
  unfold stepAge at h
  rw [hf] at h
  cases h; rfl

theorem stepAge_cons (cfg : Cfg) (lt el : Nat) (bs bs2 : List Block) (x : Block) (t : List Block) (a : Nat)
    (hc : bs.filter isAge = x :: t) (hv : x.value = .age a) (h : stepAge cfg lt el bs = .ok bs2) :
    (a + ageDelta cfg el) % 2 ^ 64 < lt ∧
      bs2.filter isAge = setAge ((a + ageDelta cfg el) % 2 ^ 64) x :: t := by
  have hf : firstAge bs = some a := by rw [firstAge_filter, hc]; simp [hv]
  unfold stepAge at h
  rw [hf] at h
  simp only at h
  split at h
  · cases h
  · rename_i hlt
    cases h
    refine ⟨by omega, ?_⟩
    rw [filter_mapFirst_same isAge _ (fun b hb => isAge_setAge _ b hb), hc]

theorem any_isPrev_iff (bs : List Block) : bs.any isPrev = true ↔ bs.filter isPrev ≠ [] := by
  induction bs with
  | nil => simp
  | cons b bs ih =>
    by_cases hb : isPrev b = true
    · simp [hb]
    · simp [hb, ih]

/-- The block `AddExtensionBlock` appends for the previous node. -/
def newPrev (node : Bytes) (bs : List Block) : Block :=
  ⟨freeNum 2 (bs.map (·.num)), 0, 0, .prevNode node⟩

theorem addExtensionBlock_prev (node : Bytes) (bs : List Block) :
    addExtensionBlock bs ⟨0, 0, 0, .prevNode node⟩ = sortBlocks (bs ++ [newPrev node bs]) := by
  simp [addExtensionBlock, newPrev, Block.type, Value.type]

theorem stepPrev_filter_perm (node : Bytes) (q : Block → Bool) (hq : ∀ b, isPrev b = true → q b = false)
    (bs : List Block) : ((stepPrev node bs).filter q).Perm (bs.filter q) := by
  unfold stepPrev
  by_cases ha : bs.any isPrev = true
  · simp only [ha, if_true]
    rw [filter_mapFirst_other isPrev q _ (fun b hb => ⟨hq b hb, hq _ (isPrev_setPrev _ b hb)⟩) bs]
  · simp only [ha]
    rw [addExtensionBlock_prev]
    have hp : ((sortBlocks (bs ++ [newPrev node bs])).filter q).Perm ((bs ++ [newPrev node bs]).filter q) :=
      (sortBlocks_perm _).filter q
    have hn : q (newPrev node bs) = false := hq _ (by simp [isPrev, newPrev])
    have : (bs ++ [newPrev node bs]).filter q = bs.filter q := by
      simp [List.filter_append, hn]
    rw [this] at hp
    exact hp

theorem transform_ok (cfg : Cfg) (node : Bytes) (b : Bundle) (el now : Nat) (s : Bundle)
    (h : transform cfg node b el now = .ok s) :
    ∃ bs1 bs2, stepHop cfg b.blocks = .ok bs1 ∧ isLifetimeExceeded b.primary bs1 now = false ∧
      stepAge cfg b.primary.lifetime el bs1 = .ok bs2 ∧
      s = { b with blocks := stepPrev node bs2 } := by
  unfold transform at h
  split at h
  · cases h
  · rename_i bs1 h1
    split at h
    · cases h
    · rename_i hl
      split at h
      · cases h
      · rename_i bs2 h2
        cases h
        exact ⟨bs1, bs2, h1, by simpa using hl, h2, rfl⟩

/-- Every class of blocks that contains none of hop count / bundle age / previous node leaves the
node as the same multiset. -/
theorem transform_filter_perm (cfg : Cfg) (node : Bytes) (b : Bundle) (el now : Nat) (s : Bundle)
    (q : Block → Bool) (hq : ∀ x, isSpecial x = true → q x = false)
    (h : transform cfg node b el now = .ok s) :
    (s.blocks.filter q).Perm (b.blocks.filter q) := by
  obtain ⟨bs1, bs2, h1, _, h2, hs⟩ := transform_ok cfg node b el now s h
  subst hs
  have e1 := stepHop_filter cfg q (fun x hx => hq x (isSpecial_of_isHop x hx)) _ _ h1
  have e2 := stepAge_filter cfg _ _ q (fun x hx => hq x (isSpecial_of_isAge x hx)) _ _ h2
  have e3 := stepPrev_filter_perm node q (fun x hx => hq x (isSpecial_of_isPrev x hx)) bs2
  simp only
  rw [e2, e1] at e3
  exact e3

theorem transform_primary (cfg : Cfg) (node : Bytes) (b : Bundle) (el now : Nat) (s : Bundle)
    (h : transform cfg node b el now = .ok s) : s.primary = b.primary := by
  obtain ⟨_, _, _, _, _, hs⟩ := transform_ok cfg node b el now s h
  subst hs
  rfl

/-! ### The rewritten blocks -/

theorem transform_hop (node : Bytes) (b : Bundle) (el now : Nat) (s : Bundle)
    (h : transform Cfg.fixed node b el now = .ok s) (h1 : (b.blocks.filter isHop).length ≤ 1) :
    hopOk (b.blocks.filter isHop) (s.blocks.filter isHop) = true := by
  obtain ⟨bs1, bs2, hs1, _, hs2, hs⟩ := transform_ok _ node b el now s h
  subst hs
  have e2 := stepAge_filter _ _ _ isHop (fun x hx => (isAge_not_others x hx).1) _ _ hs2
  have e3 := stepPrev_filter_perm node isHop (fun x hx => (isPrev_not_others x hx).1) bs2
  rw [e2] at e3
  simp only
  cases hb : b.blocks.filter isHop with
  | nil =>
    have := stepHop_nil _ _ _ hb hs1
    subst this
    rw [hb] at e3
    rw [List.Perm.eq_nil e3]
    rfl
  | cons x t =>
    cases t with
    | cons y t' => rw [hb] at h1; simp at h1
    | nil =>
      obtain ⟨l, c, hv⟩ := (isHop_iff x).mp (head_of_filter hb)
      obtain ⟨hex, hf⟩ := stepHop_cons _ _ _ x [] l c hb hv hs1
      rw [hf] at e3
      rw [List.perm_singleton.mp e3]
      obtain ⟨hn, hle⟩ := hopIncrement_ok l c hex
      simp [hopOk, hv, setHopCount, hn, hle]

/-- `forward` passes the hop count guard only if `count + 1 ≤ limit`. -/
theorem transform_hop_le (node : Bytes) (b : Bundle) (el now : Nat) (s : Bundle) (l c : UInt8)
    (h : transform Cfg.fixed node b el now = .ok s) (hf : firstHop b.blocks = some (l, c)) :
    c.toNat + 1 ≤ l.toNat := by
  obtain ⟨bs1, _, hs1, _, _, _⟩ := transform_ok _ node b el now s h
  unfold stepHop at hs1
  rw [hf] at hs1
  simp only at hs1
  split at hs1
  · cases hs1
  · rename_i hex
    exact (hopIncrement_ok l c (by simpa using hex)).2

theorem transform_age (node : Bytes) (b : Bundle) (el now : Nat) (s : Bundle)
    (h : transform Cfg.fixed node b el now = .ok s) (h2 : (b.blocks.filter isAge).length ≤ 1)
    (hw : ∀ a, firstAge b.blocks = some a → a + el / 1000000 < 2 ^ 64) :
    ageOk el el (b.blocks.filter isAge) (s.blocks.filter isAge) = true := by
  obtain ⟨bs1, bs2, hs1, _, hs2, hs⟩ := transform_ok _ node b el now s h
  subst hs
  have e1 := stepHop_filter _ isAge (fun x hx => (isHop_not_others x hx).1) _ _ hs1
  have e3 := stepPrev_filter_perm node isAge (fun x hx => (isPrev_not_others x hx).2.1) bs2
  simp only
  cases hb : b.blocks.filter isAge with
  | nil =>
    rw [hb] at e1
    have := stepAge_nil _ _ _ _ _ e1 hs2
    subst this
    rw [e1] at e3
    rw [List.Perm.eq_nil e3]
    rfl
  | cons x t =>
    cases t with
    | cons y t' => rw [hb] at h2; simp at h2
    | nil =>
      rw [hb] at e1
      obtain ⟨a, hv⟩ := (isAge_iff x).mp (head_of_filter hb)
      obtain ⟨_, hf⟩ := stepAge_cons _ _ _ _ _ x [] a e1 hv hs2
      rw [hf] at e3
      rw [List.perm_singleton.mp e3]
      have hfa : firstAge b.blocks = some a := by rw [firstAge_filter, hb]; simp [hv]
      have hlt := hw a hfa
      have hd : ageDelta Cfg.fixed el = el / 1000000 := by simp [ageDelta, Cfg.fixed]
      rw [hd, Nat.mod_eq_of_lt hlt]
      simp [ageOk, hv, setAge]

/-- A transmitted bundle age is below the lifetime (the residence time included). -/
theorem transform_age_lt (node : Bytes) (b : Bundle) (el now : Nat) (s : Bundle) (a : Nat)
    (h : transform Cfg.fixed node b el now = .ok s) (hf : firstAge b.blocks = some a)
    (hw : a + el / 1000000 < 2 ^ 64) : a + el / 1000000 < b.primary.lifetime := by
  obtain ⟨bs1, bs2, hs1, _, hs2, _⟩ := transform_ok _ node b el now s h
  have e1 := stepHop_filter _ isAge (fun x hx => (isHop_not_others x hx).1) _ _ hs1
  have hf1 : firstAge bs1 = some a := by rw [firstAge_filter, e1, ← firstAge_filter]; exact hf
  unfold stepAge at hs2
  rw [hf1] at hs2
  simp only at hs2
  split at hs2
  · cases hs2
  · rename_i hlt
    have hd : ageDelta Cfg.fixed el = el / 1000000 := by simp [ageDelta, Cfg.fixed]
    rw [hd, Nat.mod_eq_of_lt hw] at hlt
    omega

/-- A transmitted bundle passed `IsLifetimeExceeded`. -/
theorem transform_not_expired (node : Bytes) (b : Bundle) (el now : Nat) (s : Bundle)
    (h : transform Cfg.fixed node b el now = .ok s) :
    (b.primary.created ≠ 0 → now ≤ b.primary.created + b.primary.lifetime) ∧
    (b.primary.created = 0 → ∃ a, firstAge b.blocks = some a ∧ a ≤ b.primary.lifetime) := by
  obtain ⟨bs1, _, hs1, hl, _, _⟩ := transform_ok _ node b el now s h
  have e1 := stepHop_filter _ isAge (fun x hx => (isHop_not_others x hx).1) _ _ hs1
  have hf1 : firstAge bs1 = firstAge b.blocks := by rw [firstAge_filter, e1, ← firstAge_filter]
  unfold isLifetimeExceeded at hl
  rw [hf1] at hl
  constructor
  · intro hc
    simp [hc] at hl
    exact hl
  · intro hc
    simp [hc] at hl
    cases hfa : firstAge b.blocks with
    | none => simp [hfa] at hl
    | some a =>
      simp [hfa] at hl
      exact ⟨a, rfl, hl⟩

theorem transform_prev (node : Bytes) (b : Bundle) (el now : Nat) (s : Bundle)
    (h : transform Cfg.fixed node b el now = .ok s) (h3 : (b.blocks.filter isPrev).length ≤ 1) :
    prevOk node s.blocks (b.blocks.filter isPrev) (s.blocks.filter isPrev) = true := by
  obtain ⟨bs1, bs2, hs1, _, hs2, hs⟩ := transform_ok _ node b el now s h
  subst hs
  have e1 := stepHop_filter _ isPrev (fun x hx => (isHop_not_others x hx).2.1) _ _ hs1
  have e2 := stepAge_filter _ _ _ isPrev (fun x hx => (isAge_not_others x hx).2.1) _ _ hs2
  rw [e1] at e2
  simp only
  cases hb : b.blocks.filter isPrev with
  | nil =>
    rw [hb] at e2
    have hany : ¬ (bs2.any isPrev = true) := fun ha => (any_isPrev_iff bs2).mp ha e2
    have hsp : stepPrev node bs2 = sortBlocks (bs2 ++ [newPrev node bs2]) := by
      unfold stepPrev
      rw [if_neg hany, addExtensionBlock_prev]
    rw [hsp]
    have hp := sortBlocks_perm (bs2 ++ [newPrev node bs2])
    have hnp : isPrev (newPrev node bs2) = true := by simp [isPrev, newPrev]
    have hf : (sortBlocks (bs2 ++ [newPrev node bs2])).filter isPrev = [newPrev node bs2] := by
      have := hp.filter isPrev
      have h' : List.filter isPrev [newPrev node bs2] = [newPrev node bs2] := by simp [hnp]
      rw [List.filter_append, e2, h', List.nil_append] at this
      exact List.perm_singleton.mp this
    rw [hf]
    have hnum : ∀ x ∈ bs2, (x.num == (newPrev node bs2).num) = false := by
      intro x hx
      have hfree := freeNum_not_mem 2 (bs2.map (·.num))
      have : x.num ∈ bs2.map (·.num) := List.mem_map.mpr ⟨x, hx, rfl⟩
      have hne : x.num ≠ (newPrev node bs2).num := by
        intro e
        apply hfree
        simp only [newPrev] at e
        rw [← e]
        exact this
      simpa using hne
    have hcount : ((sortBlocks (bs2 ++ [newPrev node bs2])).filter
        (fun x => x.num == (newPrev node bs2).num)).length = 1 := by
      rw [(hp.filter _).length_eq, List.filter_append]
      have : bs2.filter (fun x => x.num == (newPrev node bs2).num) = [] :=
        List.filter_eq_nil_iff.mpr (fun x hx => by simp [hnum x hx])
      rw [this]
      simp
    simp [prevOk, hcount]
    simp [newPrev]
  | cons x t =>
    cases t with
    | cons y t' => rw [hb] at h3; simp at h3
    | nil =>
      rw [hb] at e2
      have hany : bs2.any isPrev = true := (any_isPrev_iff bs2).mpr (by rw [e2]; simp)
      have hsp : stepPrev node bs2 = mapFirst isPrev (setPrev node) bs2 := by
        unfold stepPrev
        rw [if_pos hany]
      rw [hsp]
      rw [filter_mapFirst_same isPrev _ (fun b hb => isPrev_setPrev _ b hb), e2]
      obtain ⟨e, hv⟩ := (isPrev_iff x).mp (head_of_filter hb)
      simp [prevOk, setPrev, hv]

/-! ### Reception: blocks of unknown type -/

theorem recvBlocks_some (known : List Nat) (bs r : List Block) (h : (recvBlocks known bs).1 = some r) :
    r = bs.filter (fun b => !removable known b) := by
  induction bs generalizing r with
  | nil => simp [recvBlocks] at h; subst h; rfl
  | cons b rest ih =>
    unfold recvBlocks at h
    cases hrec : recvBlocks known rest with
    | mk o n =>
      rw [hrec] at h
      cases o with
      | none => simp at h
      | some rest' =>
        have hr : rest' = rest.filter (fun b => !removable known b) := ih rest' (by rw [hrec])
        by_cases hk : isKnown known b.type = true
        · simp [hk] at h
          simp [removable, hk, ← h, hr]
        · simp only [hk] at h
          by_cases hd : flagDelete b.flags = true
          · simp [hd] at h
          · by_cases hrm : flagRemove b.flags = true
            · simp [hd, hrm] at h
              simp [removable, hk, hrm, ← h, hr]
            · simp [hd, hrm] at h
              simp [removable, hk, hrm, ← h, hr]

theorem processed_some (known : List Nat) (acc P : Bundle) (h : processed known acc = some P) :
    P = { acc with blocks := acc.blocks.filter (fun b => !removable known b) } := by
  unfold processed at h
  split at h
  · cases h
  · rename_i bs hbs
    cases h
    rw [recvBlocks_some known acc.blocks bs hbs]

/-- Blocks of a known type are never removed on reception. -/
theorem filter_kept (known : List Nat) (q : Block → Bool) (hq : ∀ x, q x = true → isKnown known x.type = true)
    (bs : List Block) : (bs.filter (fun b => !removable known b)).filter q = bs.filter q := by
  rw [List.filter_filter]
  apply List.filter_congr
  intro x _
  by_cases hx : q x = true
  · simp [hx, removable, hq x hx]
  · simp [hx]

theorem known_isHop (known : List Nat) (x : Block) (h : isHop x = true) : isKnown known x.type = true := by
  obtain ⟨l, c, hv⟩ := (isHop_iff x).mp h
  simp [isKnown, Block.type, hv, Value.type, builtinTypes]
theorem known_isAge (known : List Nat) (x : Block) (h : isAge x = true) : isKnown known x.type = true := by
  obtain ⟨a, hv⟩ := (isAge_iff x).mp h
  simp [isKnown, Block.type, hv, Value.type, builtinTypes]
theorem known_isPrev (known : List Nat) (x : Block) (h : isPrev x = true) : isKnown known x.type = true := by
  obtain ⟨a, hv⟩ := (isPrev_iff x).mp h
  simp [isKnown, Block.type, hv, Value.type, builtinTypes]
theorem known_isPayload (known : List Nat) (x : Block) (h : isPayload x = true) : isKnown known x.type = true := by
  unfold isPayload at h
  cases hv : x.value <;> simp [hv] at h
  simp [isKnown, Block.type, hv, Value.type, builtinTypes]

/-! ### Histories: reception followed by any number of retries -/

theorem retry_cases (node : Bytes) (P : Bundle) (st : Option Bundle) (hst : st = none ∨ st = some P)
    (el now : Nat) :
    ((retry Cfg.fixed node st el now).2 = none ∨ (retry Cfg.fixed node st el now).2 = some P) ∧
    (∀ s, (retry Cfg.fixed node st el now).1 = some s → transform Cfg.fixed node P el now = .ok s) := by
  rcases hst with rfl | rfl
  · simp [retry]
  · unfold retry
    by_cases hl : loadOk P now = true
    · simp only [hl, if_true]
      unfold forward
      cases ht : transform Cfg.fixed node P el now with
      | error e => simp
      | ok s' => simp
    · simp [hl]

theorem retries_spec (node : Bytes) (P : Bundle) (evs : List (Nat × Nat)) :
    ∀ (st : Option Bundle), (st = none ∨ st = some P) →
      (∀ (n : Nat) (s : Bundle), (retries Cfg.fixed node st evs).1[n]? = some (some s) →
        ∃ (el now : Nat), evs[n]? = some (el, now) ∧ transform Cfg.fixed node P el now = .ok s) ∧
      ((retries Cfg.fixed node st evs).2 = none ∨ (retries Cfg.fixed node st evs).2 = some P) := by
  induction evs with
  | nil => intro st hst; simp [retries]; exact hst
  | cons ev evs ih =>
    intro st hst
    obtain ⟨el, now⟩ := ev
    obtain ⟨h2, h1⟩ := retry_cases node P st hst el now
    obtain ⟨ihn, ihs⟩ := ih _ h2
    unfold retries
    refine ⟨?_, ihs⟩
    intro n s hn
    cases n with
    | zero =>
      simp at hn
      exact ⟨el, now, by simp, h1 s hn⟩
    | succ n =>
      simp at hn
      obtain ⟨el', now', he, ht⟩ := ihn n s hn
      exact ⟨el', now', by simpa using he, ht⟩

/-- Every bundle offered to a convergence sender in any run is `transform` of the bundle as
processed on reception, for that run's residence time and clock. -/
theorem run_spec (known : List Nat) (node : Bytes) (acc : Bundle) (first : Nat × Nat)
    (evs : List (Nat × Nat)) (n : Nat) (s : Bundle)
    (h : (run Cfg.fixed known node acc first evs).1[n]? = some (some s)) :
    ∃ (P : Bundle) (el now : Nat), processed known acc = some P ∧ (first :: evs)[n]? = some (el, now) ∧
      transform Cfg.fixed node P el now = .ok s := by
  unfold run at h
  cases hp : processed known acc with
  | none =>
    have hr : receive Cfg.fixed known node acc first.1 first.2 = (none, none) := by simp [receive, hp]
    rw [hr] at h
    have := (retries_spec node acc evs none (Or.inl rfl)).1
    cases n with
    | zero => simp at h
    | succ n =>
      simp at h
      obtain ⟨_, _, _, _⟩ := this n s h
      -- outputs from an empty store do not exist: `retry` on `none` yields `none`
      exfalso
      clear this
      have hnone : ∀ (evs : List (Nat × Nat)) (k : Nat) (x : Bundle),
          (retries Cfg.fixed node none evs).1[k]? ≠ some (some x) := by
        intro evs
        induction evs with
        | nil => intro k x; simp [retries]
        | cons e es ihh =>
          intro k x
          unfold retries
          cases k with
          | zero => simp [retry]
          | succ k => simpa [retry] using ihh k x
      exact hnone evs n s h
  | some P =>
    have hr : receive Cfg.fixed known node acc first.1 first.2 =
        forward Cfg.fixed node P first.1 first.2 (some P) := by simp [receive, hp, Cfg.fixed]
    rw [hr] at h
    unfold forward at h
    cases ht : transform Cfg.fixed node P first.1 first.2 with
    | error e =>
      rw [ht] at h
      cases n with
      | zero => simp at h
      | succ n =>
        simp at h
        obtain ⟨el, now, he, htt⟩ := (retries_spec node P evs none (Or.inl rfl)).1 n s h
        exact ⟨P, el, now, rfl, by simpa using he, htt⟩
    | ok s0 =>
      rw [ht] at h
      cases n with
      | zero =>
        simp at h
        subst h
        exact ⟨P, first.1, first.2, rfl, by simp, ht⟩
      | succ n =>
        simp at h
        obtain ⟨el, now, he, htt⟩ := (retries_spec node P evs (some P) (Or.inr rfl)).1 n s h
        exact ⟨P, el, now, rfl, by simpa using he, htt⟩

/-- Nothing leaves an empty store. -/
theorem retries_none (cfg : Cfg) (node : Bytes) (evs : List (Nat × Nat)) :
    (retries cfg node none evs).1 = evs.map (fun _ => none) ∧ (retries cfg node none evs).2 = none := by
  induction evs with
  | nil => simp [retries]
  | cons e es ih =>
    obtain ⟨el, now⟩ := e
    unfold retries
    simp [retry, ih.1, ih.2]

/-! ### Reading the Spec's Boolean clauses -/

theorem hopOk_elim (a : Block) (ss : List Block) (l c : UInt8) (hv : a.value = .hop l c)
    (h : hopOk [a] ss = true) :
    ∃ c' : UInt8, ss = [⟨a.num, a.flags, a.crc, .hop l c'⟩] ∧ c'.toNat = c.toNat + 1 ∧ c'.toNat ≤ l.toNat := by
  match ss with
  | [] => simp [hopOk] at h
  | _ :: _ :: _ => simp [hopOk] at h
  | [s] =>
    obtain ⟨sn, sf, sc, sv⟩ := s
    cases sv with
    | hop l' c' =>
      simp [hopOk, hv] at h
      obtain ⟨⟨⟨⟨⟨h1, h2⟩, h3⟩, h4⟩, h5⟩, h6⟩ := h
      exact ⟨c', by simp [h1, h2, h3, h4], h5, by rw [← h4]; exact h6⟩
    | age _ => simp [hopOk, hv] at h
    | prevNode _ => simp [hopOk, hv] at h
    | payload _ => simp [hopOk, hv] at h
    | other _ _ => simp [hopOk, hv] at h

theorem hopOk_nil_elim (ss : List Block) (h : hopOk [] ss = true) : ss = [] := by
  match ss with
  | [] => rfl
  | _ :: _ => simp [hopOk] at h

theorem ageOk_elim (elLo elHi : Nat) (a : Block) (ss : List Block) (x : Nat) (hv : a.value = .age x)
    (h : ageOk elLo elHi [a] ss = true) :
    ∃ y : Nat, ss = [⟨a.num, a.flags, a.crc, .age y⟩] ∧ x + elLo / 1000000 ≤ y ∧ y ≤ x + elHi / 1000000 := by
  match ss with
  | [] => simp [ageOk] at h
  | _ :: _ :: _ => simp [ageOk] at h
  | [s] =>
    obtain ⟨sn, sf, sc, sv⟩ := s
    cases sv with
    | age y =>
      simp [ageOk, hv] at h
      obtain ⟨⟨⟨⟨h1, h2⟩, h3⟩, h4⟩, h5⟩ := h
      exact ⟨y, by simp [h1, h2, h3], h4, h5⟩
    | hop _ _ => simp [ageOk, hv] at h
    | prevNode _ => simp [ageOk, hv] at h
    | payload _ => simp [ageOk, hv] at h
    | other _ _ => simp [ageOk, hv] at h

theorem ageOk_nil_elim (elLo elHi : Nat) (ss : List Block) (h : ageOk elLo elHi [] ss = true) : ss = [] := by
  match ss with
  | [] => rfl
  | _ :: _ => simp [ageOk] at h

/-- In every case exactly one previous-node block leaves the node and it names `node`. -/
theorem prevOk_elim (node : Bytes) (all as ss : List Block) (h : prevOk node all as ss = true) :
    ∃ s, ss = [s] ∧ s.value = .prevNode node := by
  match as, ss with
  | [], [s] => simp [prevOk] at h; exact ⟨s, rfl, h.1⟩
  | [a], [s] => simp [prevOk] at h; exact ⟨s, rfl, h.1.1.1⟩
  | [], [] => simp [prevOk] at h
  | [], _ :: _ :: _ => simp [prevOk] at h
  | [_], [] => simp [prevOk] at h
  | [_], _ :: _ :: _ => simp [prevOk] at h
  | _ :: _ :: _, _ => simp [prevOk] at h

/-- A received previous-node block keeps its number, flags and CRC type. -/
theorem prevOk_replace_elim (node : Bytes) (all : List Block) (a : Block) (ss : List Block)
    (h : prevOk node all [a] ss = true) : ss = [⟨a.num, a.flags, a.crc, .prevNode node⟩] := by
  match ss with
  | [] => simp [prevOk] at h
  | _ :: _ :: _ => simp [prevOk] at h
  | [s] =>
    obtain ⟨sn, sf, sc, sv⟩ := s
    simp [prevOk] at h
    obtain ⟨⟨⟨h1, h2⟩, h3⟩, h4⟩ := h
    simp [h1, h2, h3, h4]

/-! ### Refusals -/

theorem transform_hop_refuse (node : Bytes) (b : Bundle) (el now : Nat) (l c : UInt8)
    (hf : firstHop b.blocks = some (l, c)) (hx : c.toNat + 1 > l.toNat) :
    transform Cfg.fixed node b el now = .error .hopLimit := by
  have hex := (hopIncrement_exceeded_iff l c).mpr hx
  unfold transform stepHop
  rw [hf]
  simp [hex]

/-! ### What reception keeps -/

theorem processed_filter (known : List Nat) (acc P : Bundle) (hP : processed known acc = some P)
    (q : Block → Bool) (hq : ∀ x, q x = true → isKnown known x.type = true) :
    P.blocks.filter q = acc.blocks.filter q := by
  rw [processed_some known acc P hP]
  exact filter_kept known q hq acc.blocks

theorem processed_firstAge (known : List Nat) (acc P : Bundle) (hP : processed known acc = some P) :
    firstAge P.blocks = firstAge acc.blocks := by
  rw [firstAge_filter, firstAge_filter,
    processed_filter known acc P hP isAge (known_isAge known)]

theorem processed_firstHop (known : List Nat) (acc P : Bundle) (hP : processed known acc = some P) :
    firstHop P.blocks = firstHop acc.blocks := by
  rw [firstHop_filter, firstHop_filter,
    processed_filter known acc P hP isHop (known_isHop known)]

theorem processed_primary (known : List Nat) (acc P : Bundle) (hP : processed known acc = some P) :
    P.primary = acc.primary := by
  rw [processed_some known acc P hP]


/-! ### Block numbers stay pairwise different -/

theorem map_num_mapFirst (p : Block → Bool) (f : Block → Block) (hf : ∀ b, (f b).num = b.num)
    (bs : List Block) : (mapFirst p f bs).map (·.num) = bs.map (·.num) := by
  induction bs with
  | nil => rfl
  | cons b bs ih =>
    unfold mapFirst
    by_cases hp : p b = true
    · simp [hp, hf b]
    · simp [hp, ih]

theorem setHopCount_num (c : UInt8) (b : Block) : (setHopCount c b).num = b.num := by
  unfold setHopCount; split <;> rfl
theorem setAge_num (a : Nat) (b : Block) : (setAge a b).num = b.num := by
  unfold setAge; split <;> rfl
theorem setPrev_num (n : Bytes) (b : Block) : (setPrev n b).num = b.num := by
  unfold setPrev; split <;> rfl

theorem stepHop_nums (cfg : Cfg) (bs bs1 : List Block) (h : stepHop cfg bs = .ok bs1) :
    bs1.map (·.num) = bs.map (·.num) := by
  unfold stepHop at h
  split at h
  · cases h; rfl
  · simp only at h
    split at h
    · cases h
    · cases h; exact map_num_mapFirst _ _ (setHopCount_num _) bs

theorem stepAge_nums (cfg : Cfg) (lt el : Nat) (bs bs2 : List Block) (h : stepAge cfg lt el bs = .ok bs2) :
    bs2.map (·.num) = bs.map (·.num) := by
  unfold stepAge at h
  split at h
  · cases h; rfl
  · simp only at h
    split at h
    · cases h
    · cases h; exact map_num_mapFirst _ _ (setAge_num _) bs

theorem stepPrev_nodup (node : Bytes) (bs : List Block) (h : (bs.map (·.num)).Nodup) :
    ((stepPrev node bs).map (·.num)).Nodup := by
  unfold stepPrev
  by_cases ha : bs.any isPrev = true
  · rw [if_pos ha, map_num_mapFirst _ _ (setPrev_num node) bs]
    exact h
  · rw [if_neg ha, addExtensionBlock_prev]
    have hp := (sortBlocks_perm (bs ++ [newPrev node bs])).map (·.num)
    rw [hp.nodup_iff, List.map_append]
    have hfree := freeNum_not_mem 2 (bs.map (·.num))
    simp only [List.map_cons, List.map_nil, newPrev]
    rw [List.nodup_append]
    refine ⟨h, by simp, ?_⟩
    intro a ha b hb
    simp at hb
    subst hb
    intro e
    subst e
    exact hfree ha

theorem transform_nodup (cfg : Cfg) (node : Bytes) (b : Bundle) (el now : Nat) (s : Bundle)
    (h : transform cfg node b el now = .ok s) (hn : (b.blocks.map (·.num)).Nodup) :
    (s.blocks.map (·.num)).Nodup := by
  obtain ⟨bs1, bs2, h1, _, h2, hs⟩ := transform_ok cfg node b el now s h
  subst hs
  apply stepPrev_nodup
  rw [stepAge_nums _ _ _ _ _ h2, stepHop_nums _ _ _ h1]
  exact hn

theorem processed_nodup (known : List Nat) (acc P : Bundle) (hP : processed known acc = some P)
    (hn : (acc.blocks.map (·.num)).Nodup) : (P.blocks.map (·.num)).Nodup := by
  rw [processed_some known acc P hP]
  exact hn.sublist (List.filter_sublist.map _)

/-! ### The reset after the sends -/

theorem afterSend_restores (node : Bytes) (b : Bundle) (el now : Nat) (s : Bundle) (l c : UInt8)
    (h : transform Cfg.fixed node b el now = .ok s) (h1 : (b.blocks.filter isHop).length ≤ 1)
    (hf : firstHop b.blocks = some (l, c)) : firstHop (afterSend s).blocks = some (l, c) := by
  have hh := transform_hop node b el now s h h1
  rw [firstHop_filter] at hf
  cases hb : b.blocks.filter isHop with
  | nil => rw [hb] at hf; cases hf
  | cons a t =>
    cases t with
    | cons y t' => rw [hb] at h1; simp at h1
    | nil =>
      rw [hb] at hf hh
      obtain ⟨l0, c0, hv⟩ := (isHop_iff a).mp (head_of_filter hb)
      simp [hv] at hf
      obtain ⟨rfl, rfl⟩ := hf
      obtain ⟨c', hs, hc', _⟩ := hopOk_elim a _ l0 c0 hv hh
      have hfs : firstHop s.blocks = some (l0, c') := by rw [firstHop_filter, hs]
      unfold afterSend
      rw [hfs]
      simp only
      rw [firstHop_filter, filter_mapFirst_same isHop _ (fun b hb => isHop_setHopCount _ b hb), hs]
      simp only [setHopCount, hopDecrement]
      have : c' - 1 = c0 := by
        apply UInt8.toNat_inj.mp
        rw [UInt8.toNat_sub_of_le]
        · have : (1 : UInt8).toNat = 1 := rfl
          omega
        · rw [UInt8.le_iff_toNat_le]
          have : (1 : UInt8).toNat = 1 := rfl
          omega
      rw [this]

end Dtn7.Forward.Lemmas
