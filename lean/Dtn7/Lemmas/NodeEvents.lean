/-
Event-level lemmas: what one event does to the item of one bundle.
-/
import Dtn7.Lemmas.NodeFwd

namespace Dtn7.Node

/-- An item that waits for its next retry. -/
def Stable (it : Item) : Prop := it.pending = true ∧ it.cons.pendingRule = true ∧ it.cons.le = false

theorem Kept.stable {it : Item} {o : Option Item} (h : Kept it o) :
    ∃ it', o = some it' ∧ Stable it' ∧ it'.bundle = it.bundle ∧ it'.expires = it.expires := by
  rcases h with ⟨it', h1, h2, h3, h4, h5, h6⟩
  exact ⟨it', h1, ⟨h2, h5, h6⟩, h3, h4⟩

theorem Kept.of_stable {it : Item} (h : Stable it) : Kept it (some it) :=
  ⟨it, rfl, h.1, rfl, rfl, h.2.1, h.2.2⟩

theorem pendingRule_rp {c : Cons} (h : c.pendingRule = true) : c.rp = false := by
  unfold Cons.pendingRule at h
  cases hr : c.rp <;> simp_all

theorem OkSent.append_left {a b : List Output} {t : Bundle} (h : OkSent a t) : OkSent (a ++ b) t := by
  rcases h with ⟨p, bb, hm, ht⟩
  exact ⟨p, bb, List.mem_append_left _ hm, ht⟩

theorem OkSent.append_right {a b : List Output} {t : Bundle} (h : OkSent b t) : OkSent (a ++ b) t := by
  rcases h with ⟨p, bb, hm, ht⟩
  exact ⟨p, bb, List.mem_append_right _ hm, ht⟩

theorem newDesc_key (n : Node) (k : Key) : (newDesc n k).key = k := by
  unfold newDesc; cases n.store.get k <;> rfl

theorem newDesc_bndl (n : Node) (k : Key) : (newDesc n k).bndl = none := by
  unfold newDesc; cases n.store.get k <;> rfl

theorem newDesc_cons (n : Node) (k : Key) (it : Item) (h : n.store.get k = some it) :
    (newDesc n k).cons = it.cons := by
  unfold newDesc; simp [h]

/-! ## checkPendingBundles -/

theorem dispatchKeys_kstep (env : Env) : ∀ (ks : List Key) (n : Node), WF n →
    WF (dispatchKeys env ks n).1 ∧ SameEnv n (dispatchKeys env ks n).1 ∧
    (∀ k, k ∉ ks → (dispatchKeys env ks n).1.store.get k = n.store.get k) ∧
    (dispatchKeys env ks n).1.idk = n.idk ∧
    (∀ k, k ∉ ks → lookupMeta (dispatchKeys env ks n).1.spray k = lookupMeta n.spray k)
  | [], n, w => ⟨w, SameEnv.refl n, fun _ _ => rfl, rfl, fun _ _ => rfl⟩
  | k₁ :: ks, n, w => by
    simp only [dispatchKeys]
    have hd := dispatching_only env (newDesc n k₁) n w (by intro b h; rw [newDesc_bndl] at h; cases h)
    rw [newDesc_key] at hd
    rcases dispatchKeys_kstep env ks _ (hd.wf w) with ⟨w', e', o', i', s'⟩
    refine ⟨w', hd.only.env.trans e', ?_, i'.trans hd.idk, ?_⟩
    · intro k hk
      have hk1 : k ≠ k₁ := fun e => hk (e ▸ List.mem_cons_self)
      have hk2 : k ∉ ks := fun e => hk (List.mem_cons_of_mem _ e)
      rw [o' k hk2, hd.only.other k hk1]
    · intro k hk
      have hk1 : k ≠ k₁ := fun e => hk (e ▸ List.mem_cons_self)
      have hk2 : k ∉ ks := fun e => hk (List.mem_cons_of_mem _ e)
      rw [s' k hk2, hd.only.spray k hk1]

theorem dispatchKeys_kept (env : Env) (k : Key) : ∀ (ks : List Key) (n : Node) (it : Item),
    WF n → n.cfg.holdFix = true → n.store.get k = some it → Stable it →
    (loadable n.now it.bundle = true → forwardable n.now it.bundle ∧ hasEndpoint n.cfg it.bundle.dst = false) →
    OkSent (dispatchKeys env ks n).2 it.bundle ∨ Kept it ((dispatchKeys env ks n).1.store.get k)
  | [], n, it, _, _, hg, hs, _ => by
    right
    simp only [dispatchKeys]
    rw [hg]
    exact Kept.of_stable hs
  | k₁ :: ks, n, it, w, hfix, hg, hs, hl => by
    simp only [dispatchKeys]
    have hd := dispatching_only env (newDesc n k₁) n w (by intro b h; rw [newDesc_bndl] at h; cases h)
    rw [newDesc_key] at hd
    have hcfg := hd.only.env.cfg
    have hnow := hd.only.env.now
    by_cases hk : k₁ = k
    · subst hk
      have hkept := dispatching_kept env (newDesc n k₁) n it hfix (by rw [newDesc_key]; exact hg)
        (by rw [newDesc_cons n k₁ it hg]; exact pendingRule_rp hs.2.1)
        (by rw [newDesc_cons n k₁ it hg]; exact hs.2.2)
        (Or.inr ⟨newDesc_bndl n k₁, hs.1, newDesc_cons n k₁ it hg, hs.2.1, hl⟩)
      rw [newDesc_key] at hkept
      have htag : descTag (newDesc n k₁) it = it.bundle := by simp [descTag, newDesc_bndl]
      rw [htag] at hkept
      rcases hkept with h | h
      · exact Or.inl h.append_left
      · rcases h.stable with ⟨it', g', s', b', e'⟩
        have := dispatchKeys_kept env k₁ ks _ it' (hd.wf w) (by rw [hcfg]; exact hfix) g' s'
          (by rw [hcfg, hnow, b']; exact hl)
        rw [b'] at this
        rcases this with h2 | h2
        · exact Or.inl h2.append_right
        · exact Or.inr (h2.of_eq b' e')
    · have hsame : (dispatching env (newDesc n k₁) n).1.store.get k = some it := by
        rw [hd.only.other k (fun e => hk e.symm)]; exact hg
      have := dispatchKeys_kept env k ks _ it (hd.wf w) (by rw [hcfg]; exact hfix) hsame hs
        (by rw [hcfg, hnow]; exact hl)
      rcases this with h2 | h2
      · exact Or.inl h2.append_right
      · exact Or.inr h2


/-! ## submit -/

theorem idkUpdate_fresh (b : Bundle) (n : Node) (hl : lookupNat n.idk (b.src, b.ts) = none) (hs : b.seq = 0) :
    idkUpdate b n = (b, n.setIdk (setNat n.idk (b.src, b.ts) 0)) := by
  have hb : ({ b with seq := 0 } : Bundle) = b := by
    cases b with
    | mk tag src ts seq dst prev lt hop age del bs =>
      simp only at hs
      subst hs
      rfl
  unfold idkUpdate
  simp only [hl, hb]

/-- The loop of `SendBundle` does nothing for a bundle whose ID is not in the store. -/
theorem idkSkip_absent (fuel : Nat) (b : Bundle) (n : Node) (h : n.store.get b.key = none) :
    idkSkip fuel b n = (b, n) := by
  cases fuel with
  | zero => rfl
  | succ f => unfold idkSkip; simp [h]

/-- `SendBundle`'s assignment for a new (source, time) pair, sequence number 0 and a free ID. -/
theorem assignSeq_fresh (b : Bundle) (n : Node) (hl : lookupNat n.idk (b.src, b.ts) = none) (hs : b.seq = 0)
    (hfresh : n.store.get b.key = none) :
    assignSeq b n = (b, n.setIdk (setNat n.idk (b.src, b.ts) 0)) := by
  unfold assignSeq
  simp only [idkUpdate_fresh b n hl hs]
  split
  · exact idkSkip_absent _ _ _ (by simpa using hfresh)
  · rfl

/-- The sequence-number assignment of a bundle whose (source, time) pair is new, whose sequence
number is 0 and whose ID is free leaves the bundle as it is; only the IdKeeper changes (if the assignment
happens here). -/
theorem seqStep (c : Bool) (b : Bundle) (n : Node)
    (hidk : lookupNat n.idk (b.src, b.ts) = none ∧ b.seq = 0) (hfresh : n.store.get b.key = none) :
    ∃ x, (if c = true then assignSeq b n else (b, n)) = (b, n.setIdk x) ∧ (c = false → x = n.idk) := by
  cases c
  · exact ⟨n.idk, rfl, fun _ => rfl⟩
  · exact ⟨_, by simp only [if_true]; exact assignSeq_fresh b n hidk.1 hidk.2 hfresh, fun h => by cases h⟩

theorem seqStep' (c : Bool) (b : Bundle) (n : Node)
    (hidk : c = true ∨ (lookupNat n.idk (b.src, b.ts) = none ∧ b.seq = 0)) :
    ∃ x, (if c = true then (b, n) else idkUpdate b n) = (b, n.setIdk x) := by
  cases c
  · rcases hidk with h | h
    · cases h
    · exact ⟨_, by simp only [Bool.false_eq_true, if_false]; exact idkUpdate_fresh b n h.1 h.2⟩
  · exact ⟨n.idk, rfl⟩

/-- What a stored, waiting copy of the bundle `b` looks like. -/
def Holds (n : Node) (b : Bundle) (exp : Nat) : Prop :=
  ∃ it, n.store.get b.key = some it ∧ Stable it ∧ it.bundle = b ∧ it.expires = exp

theorem Holds.of_kept {n : Node} {b : Bundle} {exp : Nat} {it : Item}
    (h : Kept it (n.store.get b.key)) (hb : it.bundle = b) (he : it.expires = exp) : Holds n b exp := by
  rcases h.stable with ⟨it', g', s', b', e'⟩
  exact ⟨it', g', s', b'.trans hb, e'.trans he⟩

theorem transmit_kept (env : Env) (d : Desc) (b : Bundle) (n : Node) (it : Item)
    (hfix : n.cfg.holdFix = true) (hg : n.store.get d.key = some it)
    (hidk : n.cfg.seqFirst = true ∨ (lookupNat n.idk (b.src, b.ts) = none ∧ b.seq = 0))
    (hrp : d.cons.rp = false) (hle : d.cons.le = false)
    (hsrc : hasEndpoint n.cfg b.src = true) (hf : forwardable n.now b) (hdst : hasEndpoint n.cfg b.dst = false) :
    OkSent (transmit env d b n).2 b ∨ Kept it ((transmit env d b n).1.store.get d.key) := by
  unfold transmit
  simp only
  rcases seqStep' n.cfg.seqFirst b n hidk with ⟨x, hx⟩
  rw [hx]
  simp only
  have hne : ({ d.cons with dp := true } : Cons).isEmpty = false := by simp [Cons.isEmpty]
  have h1 := sync_update { d with bndl := some b, cons := { d.cons with dp := true } } (n.setIdk x) it hg hne
  have hcfg : (sync { d with bndl := some b, cons := { d.cons with dp := true } } (n.setIdk x)).cfg = n.cfg :=
    (sync_env _ _).cfg
  have hnow : (sync { d with bndl := some b, cons := { d.cons with dp := true } } (n.setIdk x)).now = n.now :=
    (sync_env _ _).now
  rw [hcfg]
  simp only [hsrc, Bool.not_true, Bool.false_eq_true, if_false]
  have := dispatching_kept env { d with bndl := some b, cons := { d.cons with dp := true } }
    (sync { d with bndl := some b, cons := { d.cons with dp := true } } (n.setIdk x)) _
    (by rw [hcfg]; exact hfix) h1 hrp hle
    (Or.inl ⟨b, rfl, by rw [hnow]; exact hf, by rw [hcfg]; exact hdst⟩)
  simp only [descTag] at this
  rcases this with h | h
  · exact Or.inl h
  · exact Or.inr (h.of_eq rfl rfl)

/-- The effect of a submission on everything but the item of its bundle ID. -/
structure SubStep (k : Key) (b : Bundle) (n n' : Node) : Prop where
  wf : WF n → WF n'
  env : SameEnv n n'
  other : ∀ k', k' ≠ k → n'.store.get k' = n.store.get k'
  spray : ∀ k', k' ≠ k → lookupMeta n'.spray k' = lookupMeta n.spray k'
  idk : ∀ st, (lookupNat n'.idk st).isSome = true → (lookupNat n.idk st).isSome = true ∨ st = (b.src, b.ts)

theorem KStep.subStep {k : Key} {b : Bundle} {n n' : Node} (h : KStep k n n') : SubStep k b n n' :=
  ⟨h.wf, h.only.env, h.only.other, h.only.spray, fun st hs => Or.inl (by rw [h.idk] at hs; exact hs)⟩

theorem SubStep.only {k : Key} {b : Bundle} {n n' : Node} (h : SubStep k b n n') : OnlyKey k n n' :=
  ⟨h.env, h.other, h.spray⟩

theorem SubStep.trans {k : Key} {b : Bundle} {n₁ n₂ n₃ : Node} (h1 : SubStep k b n₁ n₂) (h2 : SubStep k b n₂ n₃) :
    SubStep k b n₁ n₃ :=
  ⟨fun w => h2.wf (h1.wf w), h1.env.trans h2.env, fun k' hk => (h2.other k' hk).trans (h1.other k' hk),
   fun k' hk => (h2.spray k' hk).trans (h1.spray k' hk),
   fun st hs => by
    rcases h2.idk st hs with h | h
    · exact h1.idk st h
    · exact Or.inr h⟩

theorem lookupNat_setNat {α} [DecidableEq α] (l : List (α × Nat)) (a x : α) (v : Nat) :
    lookupNat (setNat l a v) x = if a = x then some v else lookupNat l x := by
  induction l with
  | nil => simp [setNat, lookupNat]
  | cons p l ih =>
    obtain ⟨a', v'⟩ := p
    by_cases h : a' = a
    · subst h
      by_cases hx : a' = x
      · simp [setNat, lookupNat, hx]
      · simp [setNat, lookupNat, hx]
    · by_cases hx : a' = x
      · subst hx
        have : ¬ a = a' := fun e => h e.symm
        simp [setNat, lookupNat, h, this]
      · simp [setNat, lookupNat, h, hx, ih]

/-- The IdKeeper step of a new (source, time) pair. -/
theorem subStep_idk (k : Key) (b : Bundle) (n : Node) (x : List ((Eid × Nat) × Nat))
    (hx : x = n.idk ∨ x = setNat n.idk (b.src, b.ts) 0) : SubStep k b n (n.setIdk x) := by
  refine ⟨fun w => wf_idk w x, ⟨rfl, rfl, rfl, rfl⟩, fun _ _ => rfl, fun _ _ => rfl, ?_⟩
  intro st hs
  simp only [setIdk_idk] at hs
  rcases hx with h | h
  · left; rw [h] at hs; exact hs
  · rw [h, lookupNat_setNat] at hs
    by_cases he : (b.src, b.ts) = st
    · right; exact he.symm
    · left; simpa [he] using hs

theorem seqStep_x (c : Bool) (b : Bundle) (n : Node)
    (hidk : lookupNat n.idk (b.src, b.ts) = none ∧ b.seq = 0) (hfresh : n.store.get b.key = none) :
    ∃ x, (if c = true then assignSeq b n else (b, n)) = (b, n.setIdk x) ∧ (c = false → x = n.idk) ∧
      (x = n.idk ∨ x = setNat n.idk (b.src, b.ts) 0) := by
  cases c
  · exact ⟨n.idk, rfl, fun _ => rfl, Or.inl rfl⟩
  · exact ⟨_, by simp only [if_true]; exact assignSeq_fresh b n hidk.1 hidk.2 hfresh, (fun h => by cases h), Or.inr rfl⟩

theorem seqStep_x' (c : Bool) (b : Bundle) (n : Node)
    (hidk : c = true ∨ (lookupNat n.idk (b.src, b.ts) = none ∧ b.seq = 0)) :
    ∃ x, (if c = true then (b, n) else idkUpdate b n) = (b, n.setIdk x) ∧
      (x = n.idk ∨ x = setNat n.idk (b.src, b.ts) 0) := by
  cases c
  · rcases hidk with h | h
    · cases h
    · exact ⟨_, by simp only [Bool.false_eq_true, if_false]; exact idkUpdate_fresh b n h.1 h.2, Or.inr rfl⟩
  · exact ⟨n.idk, rfl, Or.inl rfl⟩

theorem transmit_kstep (env : Env) (d : Desc) (b : Bundle) (n : Node) (w : WF n) (hk : b.key = d.key)
    (hidk : n.cfg.seqFirst = true ∨ (lookupNat n.idk (b.src, b.ts) = none ∧ b.seq = 0)) :
    SubStep d.key b n (transmit env d b n).1 := by
  unfold transmit
  simp only
  rcases seqStep_x' n.cfg.seqFirst b n hidk with ⟨x, hx, hxx⟩
  rw [hx]
  simp only
  have hb : ∀ b', ({ d with bndl := some b, cons := { d.cons with dp := true } } : Desc).bndl = some b' →
      b'.key = d.key := by
    intro b' h; cases h; exact hk
  have s0 := subStep_idk d.key b n x hxx
  have k1 := sync_kstep { d with bndl := some b, cons := { d.cons with dp := true } } (n.setIdk x) hb
  split
  · exact s0.trans (k1.trans (bundleDeletion_only _ _ hb)).subStep
  · exact s0.trans (k1.trans (dispatching_only env _ _ (k1.wf (s0.wf w)) hb)).subStep

theorem sendBundle_kept (env : Env) (b : Bundle) (n : Node) (hfix : n.cfg.holdFix = true)
    (hfresh : n.store.get b.key = none)
    (hidk : lookupNat n.idk (b.src, b.ts) = none ∧ b.seq = 0)
    (hsrc : hasEndpoint n.cfg b.src = true) (hf : forwardable n.now b) (hdst : hasEndpoint n.cfg b.dst = false) :
    OkSent (sendBundle env b n).2 b ∨ Holds (sendBundle env b n).1 b (calcExpires n.cfg n.now b) := by
  unfold sendBundle
  simp only
  rcases seqStep n.cfg.seqFirst b n hidk hfresh with ⟨x, hx, hx0⟩
  rw [hx]
  simp only
  -- the descriptor of a new bundle; the first Sync pushes it
  have hnd : newDesc (n.setIdk x) b.key = { key := b.key, receiver := none, cons := Cons.empty, bndl := none } := by
    unfold newDesc
    simp only [setIdk_store, hfresh]
  unfold newDescFromBundle
  simp only [hnd]
  have hs1 : sync { key := b.key, receiver := none, cons := Cons.empty, bndl := some b } (n.setIdk x) =
      push b (n.setIdk x) := sync_push _ _ b hfresh rfl
  rw [hs1]
  have hg1 : (push b (n.setIdk x)).store.get b.key = some (newItem n.cfg n.now b) :=
    push_get_absent b (n.setIdk x) hfresh
  have hnn := notifyNew_rt b.key b (push b (n.setIdk x))
  rcases hnn.item _ hg1 with ⟨it2, g2, b2, e2, _, _, _⟩
  have hpenv : SameEnv (n.setIdk x) (push b (n.setIdk x)) := (push_only b (n.setIdk x)).env
  have hcfg : (notifyNew b.key b (push b (n.setIdk x))).cfg = n.cfg := hnn.only.env.cfg.trans hpenv.cfg
  have hnow : (notifyNew b.key b (push b (n.setIdk x))).now = n.now := hnn.only.env.now.trans hpenv.now
  have hidk2 : (notifyNew b.key b (push b (n.setIdk x))).idk = x := by
    rw [notifyNew_idk]
    unfold push Node.setItem
    cases (n.setIdk x).store.get b.key <;> rfl
  have := transmit_kept env { key := b.key, receiver := none, cons := Cons.empty, bndl := some b } b
    (notifyNew b.key b (push b (n.setIdk x))) it2 (by rw [hcfg]; exact hfix) g2
    (by
      rw [hcfg, hidk2]
      cases hsf : n.cfg.seqFirst
      · right; rw [hx0 hsf]; exact hidk
      · left; rfl)
    rfl rfl (by rw [hcfg]; exact hsrc) (by rw [hnow]; exact hf) (by rw [hcfg]; exact hdst)
  rcases this with h | h
  · exact Or.inl h
  · exact Or.inr (Holds.of_kept h b2 e2)

/-- A submission only touches the item of its bundle ID. -/
theorem sendBundle_kstep (env : Env) (b : Bundle) (n : Node) (w : WF n)
    (hidk : lookupNat n.idk (b.src, b.ts) = none ∧ b.seq = 0) (hfresh : n.store.get b.key = none) :
    SubStep b.key b n (sendBundle env b n).1 := by
  unfold sendBundle
  simp only
  rcases seqStep_x n.cfg.seqFirst b n hidk hfresh with ⟨x, hx, hx0, hxx⟩
  rw [hx]
  simp only
  unfold newDescFromBundle
  simp only
  have hDk := newDesc_key (n.setIdk x) b.key
  generalize newDesc (n.setIdk x) b.key = D at hDk ⊢
  obtain ⟨Dk, Dr, Dc, Db⟩ := D
  simp only at hDk
  subst hDk
  simp only
  have hbk : ∀ b', ({ key := b.key, receiver := Dr, cons := Dc, bndl := some b } : Desc).bndl = some b' →
      b'.key = b.key := by
    intro b' h; cases h; rfl
  have s0 := subStep_idk b.key b n x hxx
  have k1 := sync_kstep { key := b.key, receiver := Dr, cons := Dc, bndl := some b } (n.setIdk x) hbk
  have k2 := (notifyNew_rt b.key b (sync { key := b.key, receiver := Dr, cons := Dc, bndl := some b } (n.setIdk x))).kstep
  have k12 := k1.trans k2
  have s12 : SubStep b.key b n _ := s0.trans k12.subStep
  have hcfg12 : (notifyNew b.key b (sync { key := b.key, receiver := Dr, cons := Dc, bndl := some b } (n.setIdk x))).cfg = n.cfg :=
    s12.env.cfg
  have hidk12 : (notifyNew b.key b (sync { key := b.key, receiver := Dr, cons := Dc, bndl := some b } (n.setIdk x))).idk = x :=
    k12.idk
  have k3 := transmit_kstep env { key := b.key, receiver := Dr, cons := Dc, bndl := some b } b
    (notifyNew b.key b (sync { key := b.key, receiver := Dr, cons := Dc, bndl := some b } (n.setIdk x))) (s12.wf w) rfl
    (by
      rw [hcfg12, hidk12]
      cases hsf : n.cfg.seqFirst
      · right; rw [hx0 hsf]; exact hidk
      · left; rfl)
  exact s12.trans k3

/-! ## receive -/

theorem pendingRule_nonempty {c : Cons} (h : c.pendingRule = true) : c.isEmpty = false := by
  unfold Cons.pendingRule at h
  unfold Cons.isEmpty
  cases c with
  | mk dp fp rp ci le => cases dp <;> cases fp <;> cases rp <;> cases ci <;> cases le <;> simp_all

/-- A reception only touches the item of its bundle ID. -/
theorem receive_kstep (env : Env) (b : Bundle) (r : Option Eid) (n : Node) (w : WF n) :
    KStep b.key n (receive env b r n).1 := by
  unfold receive
  simp only
  unfold newDescFromBundle
  simp only
  have hDk := newDesc_key n b.key
  generalize newDesc n b.key = D at hDk ⊢
  obtain ⟨Dk, Dr, Dc, Db⟩ := D
  simp only at hDk
  subst hDk
  simp only
  have k1 := sync_kstep { key := b.key, receiver := Dr, cons := Dc, bndl := some b } n
    (by intro b' h; cases h; rfl)
  have k2 := sync_kstep { key := b.key, receiver := r, cons := Dc, bndl := some b }
    (sync { key := b.key, receiver := Dr, cons := Dc, bndl := some b } n) (by intro b' h; cases h; rfl)
  have k12 := k1.trans k2
  split
  · exact k12
  · have k3 := sync_kstep { key := b.key, receiver := r, cons := { Dc with dp := true }, bndl := some b }
      (sync { key := b.key, receiver := r, cons := Dc, bndl := some b }
        (sync { key := b.key, receiver := Dr, cons := Dc, bndl := some b } n)) (by intro b' h; cases h; rfl)
    have k123 := k12.trans k3
    have hb3 : ∀ b', ({ key := b.key, receiver := r, cons := { Dc with dp := true }, bndl := some b } : Desc).bndl = some b' →
        b'.key = b.key := by
      intro b' h; cases h; rfl
    split
    · exact k123.trans (bundleDeletion_only { key := b.key, receiver := r, cons := { Dc with dp := true }, bndl := some b } _ hb3)
    · have k4 := (notifyNew_rt b.key b (sync { key := b.key, receiver := r, cons := { Dc with dp := true }, bndl := some b }
        (sync { key := b.key, receiver := r, cons := Dc, bndl := some b }
          (sync { key := b.key, receiver := Dr, cons := Dc, bndl := some b } n)))).kstep
      have k1234 := k123.trans k4
      exact k1234.trans (dispatching_only env { key := b.key, receiver := r, cons := { Dc with dp := true }, bndl := some b } _
        (k1234.wf w) hb3)

/-- A duplicate of a waiting bundle is ignored; the bundle keeps waiting. -/
theorem receive_known (env : Env) (b : Bundle) (r : Option Eid) (n : Node) (it : Item)
    (hg : n.store.get b.key = some it) (hs : Stable it) :
    (receive env b r n).2 = [] ∧ Kept it ((receive env b r n).1.store.get b.key) := by
  unfold receive
  simp only
  unfold newDescFromBundle
  have hnd : newDesc n b.key = { key := b.key, receiver := it.receiver, cons := it.cons, bndl := none } := by
    unfold newDesc; simp only [hg]
  simp only [hnd]
  have hne := pendingRule_nonempty hs.2.1
  have h1 := sync_update { key := b.key, receiver := it.receiver, cons := it.cons, bndl := some b } n it hg hne
  have h2 := sync_update { key := b.key, receiver := r, cons := it.cons, bndl := some b } _ _ h1 hne
  simp only [hne, Bool.not_false, if_true]
  exact ⟨trivial, _, h2, hs.2.1, rfl, rfl, hs.2.1, hs.2.2⟩

/-- A bundle with a new ID that nothing refuses is kept (or transmitted at once). -/
theorem receive_new (env : Env) (b : Bundle) (r : Option Eid) (n : Node) (hfix : n.cfg.holdFix = true)
    (hfresh : n.store.get b.key = none) (hdel : b.delBlock = false)
    (hf : forwardable n.now b) (hdst : hasEndpoint n.cfg b.dst = false) :
    OkSent (receive env b r n).2 b ∨ Holds (receive env b r n).1 b (calcExpires n.cfg n.now b) := by
  unfold receive
  simp only
  unfold newDescFromBundle
  have hnd : newDesc n b.key = { key := b.key, receiver := none, cons := Cons.empty, bndl := none } := by
    unfold newDesc; simp only [hfresh]
  simp only [hnd]
  -- first Sync: push; second Sync (receiver set): no constraints yet, so the item is deleted again
  have hs1 : sync { key := b.key, receiver := none, cons := Cons.empty, bndl := some b } n = push b n :=
    sync_push _ _ b hfresh rfl
  rw [hs1]
  have hg1 : (push b n).store.get b.key = some (newItem n.cfg n.now b) := push_get_absent b n hfresh
  have hemp : Cons.empty.isEmpty = true := rfl
  have hg2 := sync_delete { key := b.key, receiver := r, cons := Cons.empty, bndl := some b } (push b n) _ hg1 hemp
  have henv2 : SameEnv n (sync { key := b.key, receiver := r, cons := Cons.empty, bndl := some b } (push b n)) :=
    (push_only b n).env.trans (sync_env _ _)
  simp only [hemp, Bool.not_true, Bool.false_eq_true, if_false]
  -- third Sync: pushed again
  have hs3 : sync { key := b.key, receiver := r, cons := { Cons.empty with dp := true }, bndl := some b }
      (sync { key := b.key, receiver := r, cons := Cons.empty, bndl := some b } (push b n)) =
      push b (sync { key := b.key, receiver := r, cons := Cons.empty, bndl := some b } (push b n)) :=
    sync_push _ _ b hg2 rfl
  rw [hs3]
  have hg3 := push_get_absent b _ hg2
  rw [henv2.cfg, henv2.now] at hg3
  have henv3 : SameEnv n (push b (sync { key := b.key, receiver := r, cons := Cons.empty, bndl := some b } (push b n))) :=
    henv2.trans (push_only b _).env
  simp only [hdel, Bool.false_eq_true, if_false]
  have hnn := notifyNew_rt b.key b (push b (sync { key := b.key, receiver := r, cons := Cons.empty, bndl := some b } (push b n)))
  rcases hnn.item _ hg3 with ⟨it4, g4, b4, e4, _, _, _⟩
  have hcfg : (notifyNew b.key b (push b (sync { key := b.key, receiver := r, cons := Cons.empty, bndl := some b } (push b n)))).cfg = n.cfg :=
    hnn.only.env.cfg.trans henv3.cfg
  have hnow : (notifyNew b.key b (push b (sync { key := b.key, receiver := r, cons := Cons.empty, bndl := some b } (push b n)))).now = n.now :=
    hnn.only.env.now.trans henv3.now
  have := dispatching_kept env { key := b.key, receiver := r, cons := { Cons.empty with dp := true }, bndl := some b }
    _ it4 (by rw [hcfg]; exact hfix) g4 rfl rfl
    (Or.inl ⟨b, rfl, by rw [hnow]; exact hf, by rw [hcfg]; exact hdst⟩)
  simp only [descTag] at this
  rcases this with h | h
  · exact Or.inl h
  · exact Or.inr (Holds.of_kept h b4 e4)

end Dtn7.Node
