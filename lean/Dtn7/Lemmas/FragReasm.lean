/-
Fragmentation followed by reassembly (model level): the fragments `fragment` produces are genuine
fragments (`FragOf`) of the payload they were cut from — also when the input is itself a fragment — and
they cover it, so reassembly in any order returns the original payload and blocks.
-/
import Dtn7.Lemmas.Fragment
import Dtn7.Lemmas.Reassemble

namespace Dtn7.Frag

/-- A model fragment as reassembly sees it. -/
def Frag.toR (f : Frag) : RFrag := ⟨true, f.off, f.total, f.data, f.carried.map (·.type)⟩

namespace Lemmas

/-- A tiling of `[s, e)` covers every index of `[s, e)` and nothing outside. -/
theorem partitions_cover : ∀ (l : List (Nat × Nat)) (s e : Nat), partitions s e l = true →
    s ≤ e ∧ (∀ on ∈ l, s ≤ on.1 ∧ on.1 + on.2 ≤ e) ∧
      ∀ k, s ≤ k → k < e → ∃ on ∈ l, on.1 ≤ k ∧ k < on.1 + on.2 := by
  intro l
  induction l with
  | nil =>
    intro s e h
    simp [partitions] at h; subst h
    exact ⟨Nat.le_refl _, by simp, fun k h1 h2 => by omega⟩
  | cons on l ih =>
    intro s e h
    obtain ⟨o, n⟩ := on
    simp only [partitions, Bool.and_eq_true, beq_iff_eq] at h
    obtain ⟨ho, hr⟩ := h
    subst ho
    obtain ⟨h1, h2, h3⟩ := ih _ _ hr
    refine ⟨by omega, ?_, ?_⟩
    · intro q hq
      rcases List.mem_cons.mp hq with rfl | hq
      · exact ⟨Nat.le_refl _, h1⟩
      · have := h2 q hq; omega
    · intro k hk1 hk2
      by_cases hk : k < o + n
      · exact ⟨(o, n), by simp, hk1, hk⟩
      · obtain ⟨q, hq, r⟩ := h3 k (by omega) hk2
        exact ⟨q, by simp [hq], r⟩

theorem slice_of_slice (p : List UInt8) (a n j c : Nat) :
    (((p.drop a).take n).drop j).take c = (p.drop (a + j)).take (min c (n - j)) := by
  rw [List.drop_take, List.drop_drop, List.take_take]

/-- What `fragment` (code after the repairs) returns for an input whose payload is the slice
`[x.off', x.off' + |payload|)` of `p`, where `off'` is the input's own offset if it is a fragment and 0
otherwise: every result is a genuine fragment of `p` inside that range. -/
theorem fragment_fragOf (x : In) (p : List UInt8) (fs : List Frag)
    (hp : x.payload = (p.drop (base Cfg.fixed x)).take x.payload.length)
    (hin : base Cfg.fixed x + x.payload.length ≤ p.length) (ht : tot Cfg.fixed x = p.length)
    (h : fragment Cfg.fixed x = .frags fs) :
    ∀ f ∈ fs, FragOf p f.toR ∧ base Cfg.fixed x ≤ f.off ∧
      f.off + f.data.length ≤ base Cfg.fixed x + x.payload.length ∧ 1 ≤ f.data.length := by
  intro f hf
  obtain ⟨j, _, hj, hov, _, rfl⟩ := loop_mem _ _ _ _ _ _ _ (fragment_frags _ _ _ h) f hf
  have hcap : 1 ≤ x.mtu - overheadAt Cfg.fixed x (extLen x).1 (extLen x).2 j := by omega
  generalize x.mtu - overheadAt Cfg.fixed x (extLen x).1 (extLen x).2 j = cap at *
  have hlen : ((x.payload.drop j).take cap).length = min cap (x.payload.length - j) := by
    rw [List.length_take, List.length_drop]
  refine ⟨⟨rfl, ht, ?_, ?_⟩, by simp, ?_, ?_⟩
  · simp only [Frag.toR, RFrag.stop, hlen]; omega
  · simp only [Frag.toR, hlen]
    have e : (x.payload.drop j).take cap = (p.drop (base Cfg.fixed x + j)).take (min cap (x.payload.length - j)) := by
      rw [hp, slice_of_slice, List.length_take, List.length_drop]
      congr 1
      omega
    rw [e]
  · simp only [hlen]; omega
  · simp only [hlen]; omega

/-- Fragmenting an unfragmented bundle and reassembling the fragments in any order gives back the
payload and the extension blocks. -/
theorem fragment_reassemble (x : In) (fs : List Frag) (hnf : x.isFragment = false)
    (h : fragment Cfg.fixed x = .frags fs) (s : List RFrag) (hperm : s.Perm (fs.map Frag.toR))
    (hs : SortedOff s) : reassembleSorted true s = .ok x.payload (x.blocks.map (·.type)) := by
  have hb : base Cfg.fixed x = 0 := by simp [base, hnf]
  have ht : tot Cfg.fixed x = x.payload.length := by simp [tot, hnf]
  have hloop := fragment_frags _ _ _ h
  have hfo := fragment_fragOf x x.payload fs (by simp [hb]) (by omega) ht h
  have hne : fs ≠ [] := by
    intro e; subst e
    unfold fragment at h
    split at h; · simp at h
    split at h; · simp at h
    split at h; · simp at h
    rename_i fs' hl
    simp only [Cfg.fixed, if_true] at h
    rw [hloop] at hl
    simp only [Except.ok.injEq] at hl
    subst hl
    simp at h
  have hsne : s ≠ [] := by
    intro e; subst e
    have := hperm.length_eq
    cases fs with
    | nil => exact hne rfl
    | cons a b => simp at this
  have hcov : Covers (fs.map Frag.toR) x.payload.length := by
    have hp := loop_partition _ _ _ _ _ _ _ hloop (by omega)
    rw [hb] at hp
    simp only [Nat.zero_add, Nat.zero_le, Nat.min_eq_left] at hp
    obtain ⟨_, h2, h3⟩ := partitions_cover _ _ _ hp
    refine ⟨fun f hf => ?_, fun k hk => ?_⟩
    · obtain ⟨g, hg, rfl⟩ := List.mem_map.mp hf
      exact (h2 (g.off, g.data.length) (List.mem_map.mpr ⟨g, hg, rfl⟩)).2
    · obtain ⟨on, hon, r⟩ := h3 k (Nat.zero_le _) hk
      obtain ⟨g, hg, rfl⟩ := List.mem_map.mp hon
      exact ⟨g.toR, List.mem_map.mpr ⟨g, hg, rfl⟩, r⟩
  apply reassembleSorted_exact x.payload _ s hsne hs
  · intro f hf
    obtain ⟨g, hg, rfl⟩ := List.mem_map.mp (hperm.mem_iff.mp hf)
    exact (hfo g hg).1
  · exact (covers_perm hperm _).mpr hcov
  · intro f hf h0
    obtain ⟨g, hg, rfl⟩ := List.mem_map.mp (hperm.mem_iff.mp hf)
    obtain ⟨j, _, _, _, _, rfl⟩ := loop_mem _ _ _ _ _ _ _ hloop g hg
    simp only [Frag.toR, hb, Nat.zero_add] at h0 ⊢
    subst h0
    simp [carried]

end Lemmas
end Dtn7.Frag
