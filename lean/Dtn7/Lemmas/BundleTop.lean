import Dtn7.Lemmas.BundleCodec
import Dtn7.Lemmas.BundleInv
import Dtn7.Lemmas.BundleValid

/-!
Bundle-level statements assembled from the component lemmas.
-/
namespace Dtn7.Bundle.Lemmas
open Dtn7.Cbor Dtn7.Cbor.Lemmas Dtn7.Eid Dtn7.Eid.Lemmas Dtn7.Bundle

/-- `parse` = `parseRaw` followed by `checkValid`. -/
theorem parse_ok_iff {cfg : Cfg} {now : Nat} {bs : Bytes} {b : Bundle} {r : Bytes} :
    parse cfg now bs = .ok (b, r) ↔ parseRaw cfg bs = .ok (b, r) ∧ checkValid cfg.strict now b = true := by
  unfold parse
  constructor
  · intro h
    obtain ⟨b', r', h1, h2⟩ := bindP_eq_ok.mp h
    split at h2
    · rename_i hv
      simp only [Except.ok.injEq, Prod.mk.injEq] at h2
      obtain ⟨rfl, rfl⟩ := h2
      exact ⟨h1, hv⟩
    · simp at h2
  · rintro ⟨h1, h2⟩
    rw [h1]; simp [h2]

theorem valueEids_valid (v : BlockValue) (h : v.checkValid true = true) : v.eids.all Eid.valid = true := by
  cases v <;> simp_all [BlockValue.eids, BlockValue.checkValid, List.all_map, Function.comp_def]
  · exact h.2
  · exact h

/-- A bundle that is encodable and passes `CheckValid` (of the repaired code) is one `MarshalCbor`
does not refuse. -/
theorem serializable_of (cfg : Cfg) (now : Nat) (b : Bundle) (he : Encodable cfg b)
    (hv : checkValid true now b = true) : b.serializable = true := by
  unfold checkValid at hv
  simp only [Bool.and_eq_true] at hv
  obtain ⟨⟨⟨⟨⟨⟨⟨⟨hp, hall⟩, _⟩, _⟩, _⟩, _⟩, _⟩, _⟩, _⟩ := hv
  unfold Primary.checkValid at hp
  simp only [Bool.and_eq_true] at hp
  obtain ⟨⟨⟨⟨⟨_, _⟩, hdst⟩, hsrc⟩, hrpt⟩, _⟩ := hp
  obtain ⟨hpe, hce⟩ := he
  unfold Bundle.serializable Primary.serializable
  have hck : crcKnown b.primary.crcT = true := by simpa [crcKnown] using hpe.2.2.1
  simp only [hdst, hsrc, hrpt, hck, Bool.and_self, Bool.true_and, List.all_eq_true]
  intro c hc
  have hcv := List.all_eq_true.mp hall c hc
  unfold Canonical.checkValid at hcv
  simp only [Bool.and_eq_true] at hcv
  unfold Canonical.serializable
  have : crcKnown c.crcT = true := by simpa [crcKnown] using (hce c hc).2.2.1
  simp [valueEids_valid _ hcv.1, this]

/-- **Lossless**: serialising an encodable, valid bundle succeeds, and parsing those bytes (followed
by anything) yields the very same bundle and leaves exactly what followed. -/
theorem parse_serialize (cfg : Cfg) (hs : cfg.strict = true) (now : Nat) (b : Bundle)
    (he : Encodable cfg b) (hv : checkValid cfg.strict now b = true) (rest : Bytes) :
    serialize b = .ok (serializeRaw b) ∧ parse cfg now (serializeRaw b ++ rest) = .ok (b, rest) := by
  rw [hs] at hv
  refine ⟨?_, ?_⟩
  · unfold serialize; rw [serializable_of cfg now b he hv]; rfl
  · rw [parse_ok_iff, hs]; exact ⟨parseRaw_serializeRaw cfg b he rest, hv⟩

/-- **Idempotent**: every accepted byte string re-serialises, and the new bytes are accepted again
(at any instant at which the bundle is still valid), consumed entirely, and yield the same bundle. -/
theorem accepted_reserialises (cfg : Cfg) (hs : cfg.strict = true) (now : Nat) (bs : Bytes)
    (b : Bundle) (r : Bytes) (h : parse cfg now bs = .ok (b, r)) :
    Encodable cfg b ∧ serialize b = .ok (serializeRaw b) ∧
    ∀ now', checkValid cfg.strict now' b = true → parse cfg now' (serializeRaw b) = .ok (b, []) := by
  obtain ⟨h1, h2⟩ := parse_ok_iff.mp h
  have he := parseRaw_inv hs h1
  refine ⟨he, (parse_serialize cfg hs now b he h2 []).1, fun now' hv' => ?_⟩
  have := (parse_serialize cfg hs now' b he hv' []).2
  rwa [List.append_nil] at this

end Dtn7.Bundle.Lemmas
