import Dtn7.Model.Wire
import Dtn7.Lemmas.Cbor

namespace Dtn7.Wire.Lemmas
open Dtn7.Cbor (Bytes beBytes beVal)
open Dtn7.Cbor.Lemmas (beBytes_length beVal_beBytes)
open Dtn7.Wire

theorem takeN_append (d rest : Bytes) : takeN d.length (d ++ rest) = .ok (d, rest) := by
  unfold takeN
  simp

theorem takeN_append' (k : Nat) (d rest : Bytes) (h : d.length = k) :
    takeN k (d ++ rest) = .ok (d, rest) := by
  subst h; exact takeN_append d rest

theorem readBE_beBytes (k n : Nat) (rest : Bytes) (h : n < 256 ^ k) :
    readBE k (beBytes k n ++ rest) = .ok (n, rest) := by
  unfold readBE
  rw [takeN_append' k _ _ (beBytes_length k n)]
  simp [beVal_beBytes k n h]

theorem readU8_cons (b : UInt8) (rest : Bytes) : readU8 (b :: rest) = .ok (b, rest) := rfl

/-- The all-values principle for bytes: a statement checked for the 256 bit vectors holds for every
`UInt8`. -/
theorem forall_uint8 {P : UInt8 → Prop} (h : ∀ b : BitVec 8, P (UInt8.ofBitVec b)) : ∀ x : UInt8, P x :=
  fun x => h x.toBitVec

/-! ### Stream alignment, generically

If a decoder consumes exactly what its encoder wrote (`dec (enc v ++ rest) = ok (v, rest)`) for the
values satisfying `C`, and encodings are non-empty, then reading values until the stream is
exhausted returns exactly the list that was written. -/

theorem decManyFuel_flatMap {α} (enc : α → Bytes) (dec : Bytes → Except Err (α × Bytes))
    (C : α → Prop)
    (rt : ∀ v rest, C v → dec (enc v ++ rest) = .ok (v, rest))
    (ne : ∀ v, C v → enc v ≠ [])
    (vs : List α) (hC : ∀ v ∈ vs, C v) (f : Nat) (hf : (vs.flatMap enc).length ≤ f) :
    decManyFuel dec f (vs.flatMap enc) = .ok vs := by
  induction vs generalizing f with
  | nil => cases f <;> simp [decManyFuel]
  | cons v vs ih =>
    have hv : C v := hC v (by simp)
    have hne := ne v hv
    simp only [List.flatMap_cons] at hf ⊢
    cases hev : enc v with
    | nil => exact absurd hev hne
    | cons b t =>
      rw [hev] at hf
      cases f with
      | zero => simp at hf
      | succ f =>
        simp only [List.cons_append, decManyFuel]
        have := rt v (vs.flatMap enc) hv
        rw [hev] at this
        simp only [List.cons_append] at this
        rw [this]
        have hlen : (vs.flatMap enc).length ≤ f := by
          simp only [List.cons_append, List.length_cons, List.length_append] at hf
          omega
        simp only [ih (fun w hw => hC w (by simp [hw])) f hlen]

theorem decMany_flatMap {α} (enc : α → Bytes) (dec : Bytes → Except Err (α × Bytes))
    (C : α → Prop)
    (rt : ∀ v rest, C v → dec (enc v ++ rest) = .ok (v, rest))
    (ne : ∀ v, C v → enc v ≠ [])
    (vs : List α) (hC : ∀ v ∈ vs, C v) :
    decMany dec (vs.flatMap enc) = .ok vs :=
  decManyFuel_flatMap enc dec C rt ne vs hC _ (Nat.le_refl _)

end Dtn7.Wire.Lemmas
