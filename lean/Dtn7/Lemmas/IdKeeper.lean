/-
Lemmas about `Dtn7.Model.IdKeeper` (C14). Core-only.
-/
import Dtn7.Model.IdKeeper

set_option linter.unusedSimpArgs false

namespace Dtn7.IdKeeper.Lemmas
open Dtn7.IdKeeper

/-! ### the map -/

@[simp] theorem set_same (m : Keeper) (k : Key) (v : Nat) : (m.set k v) k = some v := by
  simp [Keeper.set]

theorem set_other (m : Keeper) (k k' : Key) (v : Nat) (h : k' ≠ k) : (m.set k v) k' = m k' := by
  simp [Keeper.set, h]

theorem clean_keep (w now : Nat) (m : Keeper) (k : Key) (h : dropped w now k = false) :
    (m.clean w now) k = m k := by
  simp [Keeper.clean, h]

theorem clean_drop (w now : Nat) (m : Keeper) (k : Key) (h : dropped w now k = true) :
    (m.clean w now) k = none := by
  simp [Keeper.clean, h]

@[simp] theorem nextOf_some (c : Nat) : nextOf (some c) = c + 1 := rfl
@[simp] theorem nextOf_none : nextOf none = 0 := rfl

theorem getD_succ_eq_nextOf (o : Option Nat) (h : o.isSome) : o.getD 0 + 1 = nextOf o := by
  cases o <;> simp_all

@[simp] theorem update_snd (m : Keeper) (k : Key) : (m.update k).2 = nextOf (m k) := by
  simp [Keeper.update]

@[simp] theorem update_fst_same (m : Keeper) (k : Key) : (m.update k).1 k = some (nextOf (m k)) := by
  simp [Keeper.update]

theorem update_fst_other (m : Keeper) (k k' : Key) (h : k' ≠ k) : (m.update k).1 k' = m k' := by
  simp [Keeper.update, set_other _ _ _ _ h]

theorem cleanU_keep (w now : Nat) (m : Keeper) (u : Used) (k : Key) (h : droppedAt w now (u k) k = false) :
    (m.cleanU w u now) k = m k := by
  simp [Keeper.cleanU, h]

theorem cleanU_drop (w now : Nat) (m : Keeper) (u : Used) (k : Key) (h : droppedAt w now (u k) k = true) :
    (m.cleanU w u now) k = none := by
  simp [Keeper.cleanU, h]

@[simp] theorem used_set_same (u : Used) (k : Key) (t : Nat) : (u.set k t) k = t := by simp [Used.set]

theorem used_set_other (u : Used) (k k' : Key) (t : Nat) (h : k' ≠ k) : (u.set k t) k' = u k' := by
  simp [Used.set, h]

/-- The epoch time is never dropped. -/
theorem droppedAt_epoch (w now t : Nat) (k : Key) (h : k.time = 0) : droppedAt w now t k = false := by
  simp [droppedAt, h]

theorem threshold_eq (w now : Nat) (hw : w ≤ now) (hn : now < 2 ^ 64) : threshold w now = now - w := by
  unfold threshold
  have : now + 2 ^ 64 - w = (now - w) + 2 ^ 64 := by omega
  rw [this, Nat.add_mod_right, Nat.mod_eq_of_lt (by omega)]

/-- A time that is at most `w` older than the clock (or in the future) is not dropped. -/
theorem droppedAt_window (w now t : Nat) (k : Key) (hw : w ≤ now) (hn : now < 2 ^ 64)
    (h : now - t ≤ w) : droppedAt w now t k = false := by
  simp [droppedAt, threshold_eq w now hw hn]
  omega

/-- The epoch time is never dropped. -/
theorem dropped_epoch (w now : Nat) (k : Key) (h : k.time = 0) : dropped w now k = false :=
  droppedAt_epoch w now k.time k h

/-- A creation time that is at most `w` older than the clock (or in the future) is not dropped. -/
theorem dropped_window (w now : Nat) (k : Key) (hw : w ≤ now) (hn : now < 2 ^ 64)
    (h : now - k.time ≤ w) : dropped w now k = false :=
  droppedAt_window w now k.time k hw hn h

/-! ### scripts on a bare IdKeeper -/

theorem runOps_nil (w : Nat) (auto : Bool) (m : Keeper) (u : Used) : runOps w auto m u [] = (m, []) := rfl

theorem runOps_upd (w : Nat) (auto : Bool) (m : Keeper) (u : Used) (k : Key) (now : Nat) (ops : List Op) :
    (runOps w auto m u (.upd k now :: ops)).2 =
      (k, nextOf (m k)) ::
        (runOps w auto (if auto then (m.update k).1.cleanU w (u.set k now) now else (m.update k).1)
          (u.set k now) ops).2 := by
  simp [runOps]

theorem runOps_clean (w : Nat) (auto : Bool) (m : Keeper) (u : Used) (now : Nat) (ops : List Op) :
    runOps w auto m u (.clean now :: ops) = runOps w auto (m.cleanU w u now) u ops := rfl

/-- Is this script element an `update` of tuple `κ`? -/
def isUpd (κ : Key) : Op → Bool
  | .upd k _ => k = κ
  | .clean _ => false

/-- While no `clean` of the script comes more than a window after the last use of tuple `κ` (the use before
the script, `u κ`, and the `update`s of `κ` in the script), the numbers handed to `κ` are exactly
`next, next+1, next+2, …` where `next` is 0 for an unknown tuple and `last + 1` otherwise. -/
theorem seqsOf_eq (w : Nat) (auto : Bool) (κ : Key) (ops : List Op) :
    ∀ (m : Keeper) (u : Used),
      (∀ op ∈ ops, op.cleans auto = true → droppedAt w op.now (u κ) κ = false) →
      (∀ op ∈ ops, op.cleans auto = true → ∀ op' ∈ ops, isUpd κ op' = true →
        droppedAt w op.now op'.now κ = false) →
      seqsOf w auto κ m u ops = List.range' (nextOf (m κ)) (ops.countP (isUpd κ)) := by
  induction ops with
  | nil => intro m u _ _; simp [seqsOf, runOps_nil]
  | cons op ops ih =>
    intro m u h0 h
    have hrest : ∀ op' ∈ ops, op'.cleans auto = true → ∀ op'' ∈ ops, isUpd κ op'' = true →
        droppedAt w op'.now op''.now κ = false :=
      fun op' ho hc op'' ho'' hu => h op' (List.mem_cons_of_mem _ ho) hc op'' (List.mem_cons_of_mem _ ho'') hu
    have h0rest : ∀ op' ∈ ops, op'.cleans auto = true → droppedAt w op'.now (u κ) κ = false :=
      fun op' ho => h0 op' (List.mem_cons_of_mem _ ho)
    cases op with
    | clean now =>
      have hk : droppedAt w now (u κ) κ = false := h0 (.clean now) (List.mem_cons_self ..) rfl
      have := ih (m.cleanU w u now) u h0rest hrest
      simp only [seqsOf, runOps_clean] at this ⊢
      rw [this, cleanU_keep _ _ _ _ _ hk]
      simp [isUpd]
    | upd k now =>
      -- the last use of κ after this element
      have hu' : ∀ op' ∈ ops, op'.cleans auto = true → droppedAt w op'.now ((u.set k now) κ) κ = false := by
        intro op' ho hc
        by_cases hkκ : κ = k
        · subst hkκ
          rw [used_set_same]
          exact h op' (List.mem_cons_of_mem _ ho) hc (.upd κ now) (List.mem_cons_self ..) (by simp [isUpd])
        · rw [used_set_other _ _ _ _ hkκ]
          exact h0rest op' ho hc
      -- the map after this element, at κ
      have hκ : (if auto then (m.update k).1.cleanU w (u.set k now) now else (m.update k).1) κ = (m.update k).1 κ := by
        cases auto with
        | false => rfl
        | true =>
          have hk : droppedAt w now ((u.set k now) κ) κ = false := by
            by_cases hkκ : κ = k
            · subst hkκ
              rw [used_set_same]
              exact h (.upd κ now) (List.mem_cons_self ..) rfl (.upd κ now) (List.mem_cons_self ..) (by simp [isUpd])
            · rw [used_set_other _ _ _ _ hkκ]
              exact h0 (.upd k now) (List.mem_cons_self ..) rfl
          simp [cleanU_keep _ _ _ _ _ hk]
      have := ih (if auto then (m.update k).1.cleanU w (u.set k now) now else (m.update k).1) (u.set k now) hu' hrest
      simp only [seqsOf] at this ⊢
      rw [runOps_upd]
      by_cases hkκ : k = κ
      · subst hkκ
        simp only [List.filter_cons, if_true, decide_true, List.map_cons, isUpd, List.countP_cons_of_pos]
        rw [this, hκ, update_fst_same]
        simp [List.range'_succ]
      · have hne : κ ≠ k := fun e => hkκ e.symm
        simp only [List.filter_cons, hkκ, decide_false, Bool.false_eq_true, if_false]
        rw [this, hκ, update_fst_other _ _ _ hne]
        simp [isUpd, hkκ]

/-! ### the node, configuration `Cfg.code` -/

theorem le_firstFree (store : List (BundleId × Bundle)) (k : Key) : ∀ (fuel v : Nat), v ≤ firstFree store k fuel v
  | 0, v => Nat.le_refl v
  | fuel + 1, v => by
    unfold firstFree
    split
    · exact Nat.le_trans (Nat.le_succ v) (le_firstFree store k fuel (v + 1))
    · exact Nat.le_refl v

/-! #### the loop of `updateUnless` ends at a free number (counting argument) -/

private def pFrom (k : Key) (v : Nat) (e : BundleId × Bundle) : Bool :=
  e.1.source == k.source && e.1.time == k.time && decide (v ≤ e.1.seq)

private theorem pFrom_succ {k : Key} {v : Nat} {e : BundleId × Bundle} (h : pFrom k (v + 1) e = true) :
    pFrom k v e = true := by
  unfold pFrom at h ⊢
  simp only [Bool.and_eq_true, decide_eq_true_eq] at h ⊢
  exact ⟨h.1, by omega⟩

private theorem countP_succ_lt_of_mem (k : Key) (v : Nat) :
    ∀ (s : List (BundleId × Bundle)) (e : BundleId × Bundle), e ∈ s → e.1 = ⟨k.source, k.time, v⟩ →
    s.countP (pFrom k (v + 1)) < s.countP (pFrom k v)
  | [], _, h, _ => by cases h
  | x :: s, e, h, he => by
    have hle : s.countP (pFrom k (v + 1)) ≤ s.countP (pFrom k v) :=
      List.countP_mono_left (fun _ _ h => pFrom_succ h)
    simp only [List.countP_cons]
    rcases List.mem_cons.mp h with hx | hx
    · subst hx
      have h1 : pFrom k (v + 1) e = false := by simp [pFrom, he]
      have h2 : pFrom k v e = true := by simp [pFrom, he]
      simp only [h1, h2, Bool.false_eq_true, if_false, if_true]
      omega
    · have ih := countP_succ_lt_of_mem k v s e hx he
      by_cases hc : pFrom k (v + 1) x = true
      · simp only [hc, pFrom_succ hc, if_true]; omega
      · have hc' : pFrom k (v + 1) x = false := by simpa using hc
        by_cases hd : pFrom k v x = true
        · simp only [hc', hd, Bool.false_eq_true, if_false, if_true]; omega
        · have hd' : pFrom k v x = false := by simpa using hd
          simp only [hc', hd', Bool.false_eq_true, if_false]; omega

/-- With enough fuel the loop ends at a number whose id the store does not know. -/
theorem firstFree_free (store : List (BundleId × Bundle)) (k : Key) :
    ∀ (fuel v : Nat), store.countP (pFrom k v) < fuel →
      knows store ⟨k.source, k.time, firstFree store k fuel v⟩ = false
  | 0, _, h => absurd h (Nat.not_lt_zero _)
  | fuel + 1, v, h => by
    unfold firstFree
    by_cases hk : knows store ⟨k.source, k.time, v⟩ = true
    · simp only [hk, if_true]
      obtain ⟨e, hmem, hid⟩ := (by simpa [knows] using hk : ∃ e ∈ store, e.1 = ⟨k.source, k.time, v⟩)
      have := countP_succ_lt_of_mem k v store e hmem hid
      exact firstFree_free store k fuel (v + 1) (by omega)
    · simp only [hk]
      simpa using hk

/-- **The number `updateUnless` writes into the bundle is free**: at the moment of `stamp` the store does
not know the resulting id — for every store and every counter value, no retention hypothesis. -/
theorem stampSeq_free (n : Node) (k : Key) :
    knows n.store ⟨k.source, k.time, stampSeq Cfg.code n k⟩ = false := by
  unfold stampSeq
  simp only [show Cfg.code.skipKnown = true from rfl, if_true]
  exact firstFree_free n.store k _ _ (Nat.lt_succ_of_le List.countP_le_length)

theorem le_stampSeq (c : Cfg) (n : Node) (k : Key) : (n.keeper k).getD 0 ≤ stampSeq c n k := by
  unfold stampSeq
  split
  · exact le_firstFree _ _ _ _
  · exact Nat.le_refl _

theorem prog_code : prog Cfg.code = [.lock, .read, .write, .stamp, .unlock, .clean, .push, .send] := rfl

@[simp, grind =] theorem setTh_th (n : Node) (i : Nat) (t : Th) (j : Nat) :
    (n.setTh i t).th j = if j = i then t else n.th j := rfl
@[simp, grind =] theorem setTh_keeper (n : Node) (i : Nat) (t : Th) : (n.setTh i t).keeper = n.keeper := rfl
@[simp, grind =] theorem setTh_holder (n : Node) (i : Nat) (t : Th) : (n.setTh i t).holder = n.holder := rfl
@[simp, grind =] theorem setTh_used (n : Node) (i : Nat) (t : Th) : (n.setTh i t).used = n.used := rfl
@[simp, grind =] theorem setTh_store (n : Node) (i : Nat) (t : Th) : (n.setTh i t).store = n.store := rfl
@[simp, grind =] theorem setTh_sent (n : Node) (i : Nat) (t : Th) : (n.setTh i t).sent = n.sent := rfl

/-- What one scheduler decision for thread `i` does, by program counter. -/
theorem step_code_cases (subs : Nat → Sub) (n : Node) (i : Nat) :
    ((n.th i).pc = 0 ∧ step Cfg.code subs n (.step i) = exec Cfg.code subs n i .lock) ∨
    ((n.th i).pc = 1 ∧ step Cfg.code subs n (.step i) = exec Cfg.code subs n i .read) ∨
    ((n.th i).pc = 2 ∧ step Cfg.code subs n (.step i) = exec Cfg.code subs n i .write) ∨
    ((n.th i).pc = 3 ∧ step Cfg.code subs n (.step i) = exec Cfg.code subs n i .stamp) ∨
    ((n.th i).pc = 4 ∧ step Cfg.code subs n (.step i) = exec Cfg.code subs n i .unlock) ∨
    ((n.th i).pc = 5 ∧ step Cfg.code subs n (.step i) = exec Cfg.code subs n i .clean) ∨
    ((n.th i).pc = 6 ∧ step Cfg.code subs n (.step i) = exec Cfg.code subs n i .push) ∨
    ((n.th i).pc = 7 ∧ step Cfg.code subs n (.step i) = exec Cfg.code subs n i .send) ∨
    (8 ≤ (n.th i).pc ∧ step Cfg.code subs n (.step i) = n) := by
  simp only [step, prog_code]
  rcases h : (n.th i).pc with _ | _ | _ | _ | _ | _ | _ | _ | p <;> simp

/-- Invariant of the counter part. `A` marks the submissions that take part in the schedule. -/
structure Inv (subs : Nat → Sub) (A : Nat → Prop) (n : Node) : Prop where
  act : ∀ i, 0 < (n.th i).pc → A i
  l1 : ∀ i, 1 ≤ (n.th i).pc → (n.th i).pc ≤ 4 → n.holder = some i
  l2 : ∀ i, n.holder = some i → 1 ≤ (n.th i).pc ∧ (n.th i).pc ≤ 4
  r : ∀ i, (n.th i).pc = 2 → (n.th i).reg = n.keeper (subs i).key
  w : ∀ i, (n.th i).pc = 3 → (n.keeper (subs i).key).isSome ∧
        ∀ j, j ≠ i → 4 ≤ (n.th j).pc → (subs j).key = (subs i).key →
          (n.th j).seq + 1 < nextOf (n.keeper (subs i).key)
  s : ∀ i, 4 ≤ (n.th i).pc → (n.th i).seq < nextOf (n.keeper (subs i).key)
  d : ∀ i j, i ≠ j → 4 ≤ (n.th i).pc → 4 ≤ (n.th j).pc → (subs i).key = (subs j).key →
        (n.th i).seq ≠ (n.th j).seq
  /-- the tuple of a submission that has written its number was last used at a participant's clock reading:
      no participant's `clean` drops it -/
  u : ∀ i j, A i → 3 ≤ (n.th j).pc →
        droppedAt Cfg.code.window (subs i).now (n.used (subs j).key) (subs j).key = false

theorem inv_init (subs : Nat → Sub) (A : Nat → Prop) (k0 : Keeper) (u0 : Used) :
    Inv subs A (Node.init subs k0 u0) := by
  constructor <;> simp [Node.init]

theorem inv_step (subs : Nat → Sub) (A : Nat → Prop)
    (hret : ∀ i j, A i → A j → droppedAt Cfg.code.window (subs i).now (subs j).now (subs j).key = false)
    (n : Node) (a : Act) (ha : ∀ i, a = .step i → A i) (h : Inv subs A n) :
    Inv subs A (step Cfg.code subs n a) := by
  cases a with
  | retry p => exact ⟨h.act, h.l1, h.l2, h.r, h.w, h.s, h.d, h.u⟩
  | step i =>
    have hA : A i := ha i rfl
    obtain ⟨hact, hl1, hl2, hr, hw, hs, hd, hu⟩ := h
    rcases step_code_cases subs n i with ⟨hpc, he⟩ | ⟨hpc, he⟩ | ⟨hpc, he⟩ | ⟨hpc, he⟩ | ⟨hpc, he⟩ |
        ⟨hpc, he⟩ | ⟨hpc, he⟩ | ⟨hpc, he⟩ | ⟨hpc, he⟩ <;> rw [he]
    · -- lock
      unfold exec
      by_cases hh : n.holder = none
      · simp only [hh, if_true]
        constructor <;> simp only [Node.bump, setTh_th, setTh_keeper, setTh_holder, setTh_used] <;> grind
      · simp only [hh, if_false]; exact ⟨hact, hl1, hl2, hr, hw, hs, hd, hu⟩
    · -- read
      unfold exec
      constructor <;> simp only [Node.bump, setTh_th, setTh_keeper, setTh_holder, setTh_used] <;> grind
    · -- write
      unfold exec
      refine ⟨?_, ?_, ?_, ?_, ?_, ?_, ?_, ?_⟩
      iterate 7 (simp only [Node.bump, setTh_th, setTh_keeper, setTh_holder, setTh_used, Keeper.set]; grind [nextOf])
      · -- the tuple's last use is this submission's clock reading
        intro i0 j hA0 hj
        simp only [Node.bump, setTh_th, setTh_used] at hj ⊢
        by_cases hk : (subs j).key = (subs i).key
        · rw [hk, used_set_same]
          exact hret i0 i hA0 hA
        · rw [used_set_other _ _ _ _ hk]
          have hji : j ≠ i := fun e => hk (e ▸ rfl)
          simp only [hji, if_false] at hj
          exact hu i0 j hA0 hj
    · -- stamp (with the skip loop: the number is at least the counter, and the counter follows it)
      unfold exec
      have hsome := (hw i hpc).1
      have hget := getD_succ_eq_nextOf _ hsome
      have hle := le_stampSeq Cfg.code n (subs i).key
      have hskip : Cfg.code.skipKnown = true := rfl
      generalize stampSeq Cfg.code n (subs i).key = q at hle ⊢
      simp only [hskip, if_true]
      constructor <;> simp only [Node.bump, setTh_th, setTh_keeper, setTh_holder, setTh_used, Keeper.set] <;> grind [nextOf]
    · -- unlock
      unfold exec
      constructor <;> simp only [Node.bump, setTh_th, setTh_keeper, setTh_holder, setTh_used] <;> grind
    · -- clean
      unfold exec
      cases hh : n.holder with
      | some j => simpa [Cfg.code] using ⟨hact, hl1, hl2, hr, hw, hs, hd, hu⟩
      | none =>
        have hnone : ∀ j, 1 ≤ (n.th j).pc → (n.th j).pc ≤ 4 → False := fun j h1 h2 => by
          have := hl1 j h1 h2; simp [hh] at this
        have hkeep : ∀ j, 0 < (n.th j).pc →
            (n.keeper.cleanU Cfg.code.window n.used (subs i).now) (subs j).key = n.keeper (subs j).key := by
          intro j hj
          apply cleanU_keep
          apply hu i j hA
          rcases Nat.lt_or_ge (n.th j).pc 5 with h5 | h5
          · exact (hnone j hj (by omega)).elim
          · omega
        have hby : Cfg.code.byUse = true := rfl
        simp only [Option.isSome_none, Bool.and_false, Bool.false_eq_true, if_false, hby, if_true]
        constructor <;> simp only [Node.bump, setTh_th, setTh_keeper, setTh_holder, setTh_used] <;> grind
    · -- push
      unfold exec
      by_cases hk : knows n.store (bundleOf subs n i).id = true
      · simp only [hk, if_true]
        constructor <;> simp only [Node.bump, setTh_th, setTh_keeper, setTh_holder, setTh_used] <;> grind
      · simp only [hk, if_false]
        constructor <;> simp only [Node.bump, setTh_th, setTh_keeper, setTh_holder, setTh_used] <;> grind
    · -- send
      unfold exec
      constructor <;> simp only [Node.bump, setTh_th, setTh_keeper, setTh_holder, setTh_used] <;> grind
    · exact ⟨hact, hl1, hl2, hr, hw, hs, hd, hu⟩

theorem inv_run (subs : Nat → Sub) (A : Nat → Prop)
    (hret : ∀ i j, A i → A j → droppedAt Cfg.code.window (subs i).now (subs j).now (subs j).key = false)
    (σ : List Act) : ∀ (n : Node), (∀ i, Act.step i ∈ σ → A i) → Inv subs A n →
      Inv subs A (run Cfg.code subs n σ) := by
  induction σ with
  | nil => intro n _ h; exact h
  | cons a σ ih =>
    intro n hσ h
    exact ih _ (fun i hi => hσ i (List.mem_cons_of_mem _ hi))
      (inv_step subs A hret n a (fun i e => hσ i (e ▸ List.mem_cons_self ..)) h)

/-! ### store and wire -/

theorem knows_iff (s : List (BundleId × Bundle)) (id : BundleId) :
    knows s id = true ↔ ∃ e ∈ s, e.1 = id := by
  simp [knows]

/-- Everything in the store and everything handed to an adapter is the in-memory bundle of a
submission that has passed `push`. Holds for every schedule, with or without retention. -/
structure InvS (subs : Nat → Sub) (n : Node) : Prop where
  p : ∀ e ∈ n.store, ∃ i, 7 ≤ (n.th i).pc ∧ e = ((bundleOf subs n i).id, bundleOf subs n i)
  t : ∀ e ∈ n.sent, ∃ i, 7 ≤ (n.th i).pc ∧ e.2 = bundleOf subs n i
  nd : (n.store.map (·.1)).Nodup

theorem invS_init (subs : Nat → Sub) (k0 : Keeper) : InvS subs (Node.init subs k0) := by
  constructor <;> simp [Node.init]

theorem bundleOf_congr (subs : Nat → Sub) (n n' : Node) (j : Nat) (h : (n'.th j).seq = (n.th j).seq) :
    bundleOf subs n' j = bundleOf subs n j := by
  simp [bundleOf, idOf, h]

/-- A step of thread `i` that keeps every sequence number and only raises `i`'s program counter
preserves `p` and `t` for unchanged store/sent lists. -/
theorem invS_of_same (subs : Nat → Sub) (n n' : Node)
    (hseq : ∀ j, (n'.th j).seq = (n.th j).seq) (hpc : ∀ j, (n.th j).pc ≤ (n'.th j).pc)
    (hst : n'.store = n.store) (hse : n'.sent = n.sent) (h : InvS subs n) : InvS subs n' := by
  obtain ⟨hp, ht, hn⟩ := h
  refine ⟨?_, ?_, hst ▸ hn⟩
  · intro e he
    obtain ⟨i, h7, rfl⟩ := hp e (hst ▸ he)
    exact ⟨i, Nat.le_trans h7 (hpc i), by rw [bundleOf_congr subs n n' i (hseq i)]⟩
  · intro e he
    obtain ⟨i, h7, h2⟩ := ht e (hse ▸ he)
    exact ⟨i, Nat.le_trans h7 (hpc i), by rw [bundleOf_congr subs n n' i (hseq i)]; exact h2⟩

theorem invS_step (subs : Nat → Sub) (n : Node) (a : Act) (h : InvS subs n) :
    InvS subs (step Cfg.code subs n a) := by
  cases a with
  | retry p =>
    obtain ⟨hp, ht, hn⟩ := h
    refine ⟨hp, ?_, hn⟩
    intro e he
    simp only [step, List.mem_append, List.mem_map] at he
    rcases he with ⟨e', he', rfl⟩ | he
    · obtain ⟨i, h7, rfl⟩ := hp e' he'
      exact ⟨i, h7, rfl⟩
    · exact ht e he
  | step i =>
    rcases step_code_cases subs n i with ⟨hpc, he⟩ | ⟨hpc, he⟩ | ⟨hpc, he⟩ | ⟨hpc, he⟩ | ⟨hpc, he⟩ |
        ⟨hpc, he⟩ | ⟨hpc, he⟩ | ⟨hpc, he⟩ | ⟨hpc, he⟩ <;> rw [he]
    · -- lock
      simp only [exec]
      by_cases hh : n.holder = none
      · simp only [hh, if_true]
        exact invS_of_same subs n _ (by intro j; simp [Node.bump]; split <;> simp_all)
          (by intro j; simp [Node.bump]; split <;> simp_all) rfl rfl h
      · simp only [hh, if_false]; exact h
    · -- read
      exact invS_of_same subs n _ (by intro j; simp [exec]; split <;> simp_all)
          (by intro j; simp [exec]; split <;> simp_all) rfl rfl h
    · -- write
      exact invS_of_same subs n _ (by intro j; simp [exec, Node.bump]; split <;> simp_all)
          (by intro j; simp [exec, Node.bump]; split <;> simp_all) rfl rfl h
    · -- stamp: the number of thread i changes, but i has not pushed yet
      obtain ⟨hp, ht, hn⟩ := h
      have hb : ∀ j, 7 ≤ (n.th j).pc →
          bundleOf subs (exec Cfg.code subs n i .stamp) j = bundleOf subs n j ∧
          7 ≤ ((exec Cfg.code subs n i .stamp).th j).pc := by
        intro j h7
        have hji : j ≠ i := by intro e; subst e; omega
        simp [exec, bundleOf, idOf, hji, h7]
      refine ⟨?_, ?_, hn⟩
      · intro e he
        obtain ⟨j, h7, rfl⟩ := hp e he
        exact ⟨j, (hb j h7).2, by rw [(hb j h7).1]⟩
      · intro e he
        obtain ⟨j, h7, h2⟩ := ht e he
        exact ⟨j, (hb j h7).2, by rw [(hb j h7).1]; exact h2⟩
    · -- unlock
      exact invS_of_same subs n _ (by intro j; simp [exec, Node.bump]; split <;> simp_all)
          (by intro j; simp [exec, Node.bump]; split <;> simp_all) rfl rfl h
    · -- clean
      simp only [exec]
      split
      · exact h
      · exact invS_of_same subs n _ (by intro j; simp [Node.bump]; split <;> simp_all)
          (by intro j; simp [Node.bump]; split <;> simp_all) rfl rfl h
    · -- push
      simp only [exec]
      by_cases hk : knows n.store (bundleOf subs n i).id = true
      · simp only [hk, if_true]
        exact invS_of_same subs n _ (by intro j; simp [Node.bump]; split <;> simp_all)
          (by intro j; simp [Node.bump]; split <;> simp_all) rfl rfl h
      · simp only [hk, if_false]
        have hsame := invS_of_same subs n (n.bump i) (by intro j; simp [Node.bump]; split <;> simp_all)
          (by intro j; simp [Node.bump]; split <;> simp_all) rfl rfl h
        obtain ⟨hp, ht, hn⟩ := hsame
        have hbi : bundleOf subs (n.bump i) i = bundleOf subs n i :=
          bundleOf_congr subs n _ i (by simp [Node.bump])
        refine ⟨?_, ht, ?_⟩
        · intro e he
          have he' : e ∈ ((bundleOf subs n i).id, bundleOf subs n i) :: n.store := he
          rcases List.mem_cons.mp he' with rfl | he
          · refine ⟨i, ?_, ?_⟩
            · show 7 ≤ ((n.bump i).th i).pc
              simp [Node.bump, hpc]
            · show _ = ((bundleOf subs (n.bump i) i).id, bundleOf subs (n.bump i) i)
              rw [hbi]
          · exact hp e he
        · show ((((bundleOf subs n i).id, bundleOf subs n i) :: n.store).map (·.1)).Nodup
          simp only [List.map_cons, List.nodup_cons]
          refine ⟨?_, hn⟩
          intro hmem
          apply hk
          rw [knows_iff]
          simpa using hmem
    · -- send
      have hsame := invS_of_same subs n (n.bump i) (by intro j; simp [Node.bump]; split <;> simp_all)
          (by intro j; simp [Node.bump]; split <;> simp_all) rfl rfl h
      obtain ⟨hp, ht, hn⟩ := hsame
      have hbi : bundleOf subs (n.bump i) i = bundleOf subs n i :=
        bundleOf_congr subs n _ i (by simp [Node.bump])
      refine ⟨hp, ?_, hn⟩
      intro e he
      have he' : e ∈ (subs i).peers.map (fun p => (p, bundleOf subs n i)) ++ n.sent := he
      simp only [List.mem_append, List.mem_map] at he'
      rcases he' with ⟨q, _, rfl⟩ | he
      · refine ⟨i, ?_, ?_⟩
        · show 7 ≤ ((n.bump i).th i).pc
          simp [Node.bump, hpc]
        · show bundleOf subs n i = bundleOf subs (n.bump i) i
          rw [hbi]
      · exact ht e he
    · exact h

theorem invS_run (subs : Nat → Sub) (σ : List Act) : ∀ (n : Node), InvS subs n →
    InvS subs (run Cfg.code subs n σ) := by
  induction σ with
  | nil => intro n h; exact h
  | cons a σ ih => intro n h; exact ih _ (invS_step subs n a h)

/-- The mutex part of the invariant on its own (needs no hypothesis on the schedule or the clock). -/
structure InvL (n : Node) : Prop where
  l1 : ∀ i, 1 ≤ (n.th i).pc → (n.th i).pc ≤ 4 → n.holder = some i
  l2 : ∀ i, n.holder = some i → 1 ≤ (n.th i).pc ∧ (n.th i).pc ≤ 4

theorem invL_step (subs : Nat → Sub) (n : Node) (a : Act) (h : InvL n) :
    InvL (step Cfg.code subs n a) := by
  cases a with
  | retry p => exact ⟨h.l1, h.l2⟩
  | step i =>
    obtain ⟨hl1, hl2⟩ := h
    rcases step_code_cases subs n i with ⟨hpc, he⟩ | ⟨hpc, he⟩ | ⟨hpc, he⟩ | ⟨hpc, he⟩ | ⟨hpc, he⟩ |
        ⟨hpc, he⟩ | ⟨hpc, he⟩ | ⟨hpc, he⟩ | ⟨hpc, he⟩ <;> rw [he]
    · simp only [exec]
      by_cases hh : n.holder = none
      · simp only [hh, if_true]
        constructor <;> simp only [Node.bump, setTh_th, setTh_holder] <;> grind
      · simp only [hh, if_false]; exact ⟨hl1, hl2⟩
    · simp only [exec]
      constructor <;> simp only [setTh_th, setTh_holder] <;> grind
    · simp only [exec]
      constructor <;> simp only [Node.bump, setTh_th, setTh_holder] <;> grind
    · simp only [exec]
      constructor <;> simp only [setTh_th, setTh_holder] <;> grind
    · simp only [exec]
      constructor <;> simp only [Node.bump, setTh_th, setTh_holder] <;> grind
    · simp only [exec]
      split
      · exact ⟨hl1, hl2⟩
      · constructor <;> simp only [Node.bump, setTh_th, setTh_holder] <;> grind
    · simp only [exec]
      split
      · constructor <;> simp only [Node.bump, setTh_th, setTh_holder] <;> grind
      · constructor <;> simp only [Node.bump, setTh_th, setTh_holder] <;> grind
    · simp only [exec]
      constructor <;> simp only [Node.bump, setTh_th, setTh_holder] <;> grind
    · exact ⟨hl1, hl2⟩

theorem invL_run (subs : Nat → Sub) (σ : List Act) : ∀ (n : Node), InvL n →
    InvL (run Cfg.code subs n σ) := by
  induction σ with
  | nil => intro n h; exact h
  | cons a σ ih => intro n h; exact ih _ (invL_step subs n a h)

/-- Mutual exclusion: at most one submission is between `lock` and `unlock`. -/
theorem exclusive_of_inv (n : Node) (h : InvL n)
    (i j : Nat) (hi : 1 ≤ (n.th i).pc ∧ (n.th i).pc ≤ 4) (hj : 1 ≤ (n.th j).pc ∧ (n.th j).pc ≤ 4) :
    i = j := by
  have h1 := h.l1 i hi.1 hi.2
  have h2 := h.l1 j hj.1 hj.2
  rw [h1] at h2
  exact Option.some.inj h2

/-- Two submissions that have their final number carry different ids. -/
theorem ids_ne_of_inv (subs : Nat → Sub) (A : Nat → Prop) (n : Node) (h : Inv subs A n)
    (i j : Nat) (hij : i ≠ j) (hi : 4 ≤ (n.th i).pc) (hj : 4 ≤ (n.th j).pc) :
    idOf subs n i ≠ idOf subs n j := by
  intro e
  simp only [idOf, BundleId.mk.injEq] at e
  have hk : (subs i).key = (subs j).key := by
    cases hki : (subs i).key; cases hkj : (subs j).key
    simp_all
  exact h.d i j hij hi hj hk e.2.2

/-- Every submission that has passed `push` is in the store under its own id. -/
def Filed (subs : Nat → Sub) (n : Node) : Prop :=
  ∀ i, 7 ≤ (n.th i).pc → ((bundleOf subs n i).id, bundleOf subs n i) ∈ n.store

theorem filed_of_same (subs : Nat → Sub) (n n' : Node)
    (hseq : ∀ j, 7 ≤ (n'.th j).pc → (n'.th j).seq = (n.th j).seq)
    (hpc : ∀ j, 7 ≤ (n'.th j).pc → 7 ≤ (n.th j).pc)
    (hst : n'.store = n.store) (h : Filed subs n) : Filed subs n' := by
  intro j h7
  rw [hst, bundleOf_congr subs n n' j (hseq j h7)]
  exact h j (hpc j h7)

theorem filed_step (subs : Nat → Sub) (A : Nat → Prop) (n : Node) (a : Act)
    (hi : Inv subs A n) (hs : InvS subs n) (hf : Filed subs n) :
    Filed subs (step Cfg.code subs n a) := by
  cases a with
  | retry p => exact hf
  | step i =>
    rcases step_code_cases subs n i with ⟨hpc, he⟩ | ⟨hpc, he⟩ | ⟨hpc, he⟩ | ⟨hpc, he⟩ | ⟨hpc, he⟩ |
        ⟨hpc, he⟩ | ⟨hpc, he⟩ | ⟨hpc, he⟩ | ⟨hpc, he⟩ <;> rw [he]
    · simp only [exec]
      split
      · exact filed_of_same subs n _ (by intro j; simp [Node.bump]; split <;> simp_all)
          (by intro j; simp [Node.bump]; split <;> simp_all) rfl hf
      · exact hf
    · exact filed_of_same subs n _ (by intro j; simp [exec]; split <;> simp_all)
          (by intro j; simp [exec]; split <;> simp_all) rfl hf
    · exact filed_of_same subs n _ (by intro j; simp [exec, Node.bump]; split <;> simp_all)
          (by intro j; simp [exec, Node.bump]; split <;> simp_all) rfl hf
    · exact filed_of_same subs n _ (by intro j; simp [exec]; split <;> simp_all)
          (by intro j; simp [exec]; split <;> simp_all) rfl hf
    · exact filed_of_same subs n _ (by intro j; simp [exec, Node.bump]; split <;> simp_all)
          (by intro j; simp [exec, Node.bump]; split <;> simp_all) rfl hf
    · simp only [exec]
      split
      · exact hf
      · exact filed_of_same subs n _ (by intro j; simp [Node.bump]; split <;> simp_all)
          (by intro j; simp [Node.bump]; split <;> simp_all) rfl hf
    · -- push
      simp only [exec]
      by_cases hk : knows n.store (bundleOf subs n i).id = true
      · -- impossible: the key would belong to another submission with the same id
        exfalso
        obtain ⟨e, hmem, hid⟩ := (knows_iff _ _).mp hk
        obtain ⟨j, h7, rfl⟩ := hs.p e hmem
        have hji : j ≠ i := by intro e; subst e; omega
        exact ids_ne_of_inv subs A n hi j i hji (by omega) (by omega) hid
      · have hk' : knows n.store (bundleOf subs n i).id = false := by simpa using hk
        simp only [hk', Bool.false_eq_true, if_false]
        intro j h7
        have h7' : 7 ≤ ((n.bump i).th j).pc := h7
        have hseq : ((n.bump i).th j).seq = (n.th j).seq := by
          simp [Node.bump]; split <;> simp_all
        show ((bundleOf subs (n.bump i) j).id, bundleOf subs (n.bump i) j) ∈
          ((bundleOf subs n i).id, bundleOf subs n i) :: n.store
        rw [bundleOf_congr subs n (n.bump i) j hseq]
        by_cases hji : j = i
        · subst hji; exact List.mem_cons_self ..
        · refine List.mem_cons_of_mem _ (hf j ?_)
          have : ((n.bump i).th j).pc = (n.th j).pc := by simp [Node.bump, hji]
          omega
    · exact filed_of_same subs n _ (by intro j; simp [exec, Node.bump]; split <;> simp_all)
          (by intro j; simp [exec, Node.bump]; split <;> simp_all <;> omega) rfl hf
    · exact hf

/-- All three invariants along any schedule. -/
theorem all_run (subs : Nat → Sub) (A : Nat → Prop)
    (hret : ∀ i j, A i → A j → droppedAt Cfg.code.window (subs i).now (subs j).now (subs j).key = false)
    (σ : List Act) : ∀ (n : Node), (∀ i, Act.step i ∈ σ → A i) →
      Inv subs A n → InvS subs n → Filed subs n →
      Inv subs A (run Cfg.code subs n σ) ∧ InvS subs (run Cfg.code subs n σ) ∧
        Filed subs (run Cfg.code subs n σ) := by
  induction σ with
  | nil => intro n _ h1 h2 h3; exact ⟨h1, h2, h3⟩
  | cons a σ ih =>
    intro n hσ h1 h2 h3
    exact ih _ (fun i hi => hσ i (List.mem_cons_of_mem _ hi))
      (inv_step subs A hret n a (fun i e => hσ i (e ▸ List.mem_cons_self ..)) h1)
      (invS_step subs n a h2) (filed_step subs A n a h1 h2 h3)

/-! ### Spec predicates on the model's observations -/

theorem storedIsSent_of_inv (subs : Nat → Sub) (n : Node)
    (htag : ∀ i j, (subs i).tag = (subs j).tag → i = j) (h : InvS subs n) :
    StoredIsSent (obsOf n) := by
  refine ⟨?_, ?_, ?_⟩
  · intro e he
    simp only [obsOf, List.mem_map] at he
    obtain ⟨e', he', rfl⟩ := he
    obtain ⟨i, _, rfl⟩ := h.p e' he'
    rfl
  · intro e he s hs ht
    simp only [obsOf, List.mem_map] at he hs
    obtain ⟨e', he', rfl⟩ := he
    obtain ⟨s', hs', rfl⟩ := hs
    obtain ⟨i, _, rfl⟩ := h.p e' he'
    obtain ⟨j, _, hj⟩ := h.t s' hs'
    simp only [hj, bundleOf] at ht ⊢
    rw [htag i j ht]
  · intro a ha b hb ht
    simp only [obsOf, List.mem_map] at ha hb
    obtain ⟨a', ha', rfl⟩ := ha
    obtain ⟨b', hb', rfl⟩ := hb
    obtain ⟨i, _, hi⟩ := h.t a' ha'
    obtain ⟨j, _, hj⟩ := h.t b' hb'
    simp only [hi, hj, bundleOf] at ht ⊢
    rw [htag i j ht]

theorem sentDistinct_of_inv (subs : Nat → Sub) (A : Nat → Prop) (n : Node)
    (hi : Inv subs A n) (hs : InvS subs n) : SentIdsDistinct (obsOf n) := by
  intro a ha b hb ht
  simp only [obsOf, List.mem_map] at ha hb
  obtain ⟨a', ha', rfl⟩ := ha
  obtain ⟨b', hb', rfl⟩ := hb
  obtain ⟨i, h7i, hbi⟩ := hs.t a' ha'
  obtain ⟨j, h7j, hbj⟩ := hs.t b' hb'
  simp only [hbi, hbj, bundleOf] at ht ⊢
  have hij : i ≠ j := by intro e; subst e; exact ht rfl
  exact ids_ne_of_inv subs A n hi i j hij (by omega) (by omega)

theorem storeDistinct_of_inv (subs : Nat → Sub) (A : Nat → Prop) (n : Node)
    (hi : Inv subs A n) (hs : InvS subs n) : StoreKeysDistinct (obsOf n) := by
  refine ⟨?_, ?_⟩
  · simpa [obsOf, Function.comp_def] using hs.nd
  · intro a ha b hb ht
    simp only [obsOf, List.mem_map] at ha hb
    obtain ⟨a', ha', rfl⟩ := ha
    obtain ⟨b', hb', rfl⟩ := hb
    obtain ⟨i, h7i, rfl⟩ := hs.p a' ha'
    obtain ⟨j, h7j, rfl⟩ := hs.p b' hb'
    simp only [bundleOf] at ht ⊢
    have hij : i ≠ j := by intro e; subst e; exact ht rfl
    exact ids_ne_of_inv subs A n hi i j hij (by omega) (by omega)

theorem filedOnce_of_inv (subs : Nat → Sub) (n : Node)
    (htag : ∀ i j, (subs i).tag = (subs j).tag → i = j) (hs : InvS subs n) (hf : Filed subs n)
    (is : List Nat) (his : ∀ i ∈ is, 7 ≤ (n.th i).pc) :
    FiledOnce (is.map (fun i => (subs i).tag)) (obsOf n) := by
  intro t ht
  simp only [List.mem_map] at ht
  obtain ⟨i, hi, rfl⟩ := ht
  refine ⟨((bundleOf subs n i).id, (bundleOf subs n i).id, (subs i).tag), ?_, rfl, ?_⟩
  · simp only [obsOf, List.mem_map]
    exact ⟨_, hf i (his i hi), rfl⟩
  · intro e' he' ht'
    simp only [obsOf, List.mem_map] at he'
    obtain ⟨e'', he'', rfl⟩ := he'
    obtain ⟨j, _, rfl⟩ := hs.p e'' he''
    simp only [bundleOf] at ht' ⊢
    rw [htag j i ht']

end Dtn7.IdKeeper.Lemmas
