/-
Epidemic routing, one `forward`: the per-peer transmissions (`sendAll`) leave every peer whose `Send` FAILED out of
the bundle's sent list — whatever the other transmissions of the same attempt did — and keep every other entry.
(The clause `c05FailX` / `reenableFail` judges this on the implementation's observations.)
-/
import Dtn7.Lemmas.NodeFwd

namespace Dtn7.Node

theorem not_mem_eraseFirst_of_nodup (e : Eid) : ∀ (l : List Eid), l.Nodup → e ∉ eraseFirst e l
  | [], _ => by simp [eraseFirst]
  | x :: xs, h => by
    have hx := (List.nodup_cons.mp h)
    unfold eraseFirst
    split
    · next heq => subst heq; exact hx.1
    · next hne =>
      intro hm
      rcases List.mem_cons.mp hm with hm | hm
      · exact hne hm.symm
      · exact not_mem_eraseFirst_of_nodup e xs hx.2 hm

theorem mem_of_mem_eraseFirst' (e x : Eid) : ∀ (l : List Eid), x ∈ eraseFirst e l → x ∈ l
  | [], h => by simp [eraseFirst] at h
  | y :: ys, h => by
    unfold eraseFirst at h
    split at h
    · exact List.mem_cons_of_mem _ h
    · rcases List.mem_cons.mp h with h | h
      · exact h ▸ List.mem_cons_self
      · exact List.mem_cons_of_mem _ (mem_of_mem_eraseFirst' e x ys h)

theorem mem_eraseFirst_of_ne' (e x : Eid) (hne : x ≠ e) : ∀ (l : List Eid), x ∈ l → x ∈ eraseFirst e l
  | [], h => by cases h
  | y :: ys, h => by
    unfold eraseFirst
    split
    · next heq =>
      rcases List.mem_cons.mp h with h | h
      · exact absurd (h.trans heq) hne
      · exact h
    · rcases List.mem_cons.mp h with h | h
      · exact h ▸ List.mem_cons_self
      · exact List.mem_cons_of_mem _ (mem_eraseFirst_of_ne' e x hne ys h)

theorem nodup_eraseFirst (e : Eid) : ∀ (l : List Eid), l.Nodup → (eraseFirst e l).Nodup
  | [], _ => by simp [eraseFirst]
  | x :: xs, h => by
    have hx := List.nodup_cons.mp h
    unfold eraseFirst
    split
    · exact hx.2
    · exact List.nodup_cons.mpr ⟨fun hm => hx.1 (mem_of_mem_eraseFirst' e x xs hm), nodup_eraseFirst e xs hx.2⟩

/-- The per-peer transmissions of one `forward` under epidemic routing. -/
theorem sendAll_failed_unlisted (env : Env) (d : Desc) (b : Bundle) : ∀ (ps : List Peer) (n : Node) (it : Item),
    n.cfg.algo = .epidemic → n.store.get d.key = some it → it.rt.sentE.Nodup →
    ∃ it', (sendAll env d b ps n).1.store.get d.key = some it' ∧ it'.rt.sentE.Nodup ∧
      (∀ p, Output.sent p b false ∈ (sendAll env d b ps n).2.1 → p.eid ∉ it'.rt.sentE) ∧
      (∀ e ∈ it.rt.sentE, (∀ p, Output.sent p b false ∈ (sendAll env d b ps n).2.1 → p.eid ≠ e) → e ∈ it'.rt.sentE) ∧
      (∀ e ∈ it'.rt.sentE, e ∈ it.rt.sentE)
  | [], n, it, _, hg, hn => by
    refine ⟨it, by simpa [sendAll] using hg, hn, ?_, ?_, fun e he => he⟩
    · intro p hp; simp [sendAll] at hp
    · intro e he _; exact he
  | q :: ps, n, it, ha, hg, hn => by
    simp only [sendAll]
    -- the state after this peer's goroutine
    let n1 : Node := { n with attempts := setNat n.attempts (q.addr, b.tag, b.seq) (attemptNo n q.addr b.tag b.seq + 1) }
    have hg1 : n1.store.get d.key = some it := hg
    have ha1 : n1.cfg.algo = .epidemic := ha
    cases hok : env.sendOk q.addr b.tag (attemptNo n q.addr b.tag b.seq) with
    | true =>
      simp only [if_true]
      rcases sendAll_failed_unlisted env d b ps n1 it ha1 hg1 hn with ⟨it', g', n', f', k', s'⟩
      refine ⟨it', g', n', ?_, ?_, s'⟩
      · intro p hp
        rcases List.mem_cons.mp hp with hp | hp
        · cases hp
        · exact f' p hp
      · intro e he hno
        exact k' e he (fun p hp => hno p (List.mem_cons_of_mem _ hp))
    | false =>
      simp only [Bool.false_eq_true, if_false]
      have hrf : reportFailure d q n1 = modRt d.key (fun r => { r with sentE := eraseFirst q.eid r.sentE }) n1 := by
        unfold reportFailure; simp only [ha1]
      rw [hrf]
      have hg2 : (modRt d.key (fun r => { r with sentE := eraseFirst q.eid r.sentE }) n1).store.get d.key =
          some { it with rt := { it.rt with sentE := eraseFirst q.eid it.rt.sentE } } := by
        rw [modRt_get, hg1]; rfl
      have ha2 : (modRt d.key (fun r => { r with sentE := eraseFirst q.eid r.sentE }) n1).cfg.algo = .epidemic := by
        rw [(modRt_only _ _ n1).env.cfg]; exact ha1
      rcases sendAll_failed_unlisted env d b ps _ _ ha2 hg2 (nodup_eraseFirst q.eid _ hn) with ⟨it', g', n', f', k', s'⟩
      refine ⟨it', g', n', ?_, ?_, ?_⟩
      · intro p hp
        rcases List.mem_cons.mp hp with hp | hp
        · cases hp
          intro hm
          exact not_mem_eraseFirst_of_nodup q.eid _ hn (s' _ hm)
        · exact f' p hp
      · intro e he hno
        apply k' e
        · exact mem_eraseFirst_of_ne' q.eid e (fun h => hno q List.mem_cons_self h.symm) _ he
        · exact fun p hp => hno p (List.mem_cons_of_mem _ hp)
      · intro e he
        exact mem_of_mem_eraseFirst' q.eid e _ (s' e he)

end Dtn7.Node
