/-
C05, full strength: the retention invariant along EVERY history — no domain hypothesis — for the code as it
is (`Cur c`: sequence number first, stored numbers skipped, refused dispatching holds the bundle, expiry
of clock-less bundles counted from now), for every send oracle and every routing algorithm.

What made the domain hypothesis of the earlier proof unnecessary is /repo 43cf7bc: a submission is filed
under an ID that is not in the store (`assignSeq_free`), so it can neither disturb nor be disturbed by any
bundle the node holds; a reception under a known ID leaves the stored bundle alone (`receive_known`).
-/
import Dtn7.Lemmas.NodeC05
import Dtn7.Lemmas.NodeSkip

namespace Dtn7.Node

/-- The code as it is (every variant flag of the model set as the regenerated facts say). -/
structure Cur (c : Cfg) : Prop where
  seq : c.seqFirst = true
  skip : c.skipStored = true
  hold : c.holdFix = true
  exp : c.expiryNow = true

/-- Bundles that agree in what the forwarding decisions and the expiry depend on. -/
def SameFwd (a b : Bundle) : Prop :=
  a.ts = b.ts ∧ a.dst = b.dst ∧ a.lifetime = b.lifetime ∧ a.hop = b.hop ∧ a.age = b.age

theorem SameFwd.refl (a : Bundle) : SameFwd a a := ⟨rfl, rfl, rfl, rfl, rfl⟩

theorem SameFwd.trans {a b c : Bundle} (h1 : SameFwd a b) (h2 : SameFwd b c) : SameFwd a c :=
  ⟨h1.1.trans h2.1, h1.2.1.trans h2.2.1, h1.2.2.1.trans h2.2.2.1, h1.2.2.2.1.trans h2.2.2.2.1,
   h1.2.2.2.2.trans h2.2.2.2.2⟩

theorem forwardable_congrF {a b : Bundle} (now : Nat) (h : SameFwd a b) (hf : forwardable now b) :
    forwardable now a := by
  unfold forwardable hopExceeded lifetimeExceeded ageExpired at *
  rw [h.1, h.2.2.1, h.2.2.2.1, h.2.2.2.2]
  exact hf

theorem calcExpires_congrF {a b : Bundle} (c : Cfg) (at_ : Nat) (h : SameFwd a b) :
    calcExpires c at_ a = calcExpires c at_ b := by
  unfold calcExpires
  rw [h.1, h.2.2.1, h.2.2.2.2]

/-- The store's expiry of the item does not end before the obligation's lifetime. -/
def ExpOk (ob : Obl) (it : Item) : Prop :=
  ∀ t, lifetimeOk t ob.acceptedAt ob.b = true → ¬ it.expires < t

/-- What the invariant says about one live obligation: under the obligation's ID the store holds a
waiting (pending, retention constraint of its own) copy of the bundle — for a submission the very bundle —
whose expiry does not end before the bundle's lifetime. -/
structure OblF (c : Cfg) (n : Node) (ob : Obl) : Prop where
  dst : hasEndpoint c ob.b.dst = false
  hop : hopRefused ob.b = false
  item : ∃ it, n.store.get ob.key = some it ∧ Stable it ∧ SameFwd it.bundle ob.b ∧
    (ob.strict = true → it.bundle.tag = ob.b.tag) ∧ ExpOk ob it

structure RInvF (c : Cfg) (s : SpecSt) (n : Node) : Prop where
  wf : WF n
  cfg : n.cfg = c
  now : s.now = n.now
  prev : s.prev = viewOf n
  obls : ∀ ob ∈ s.obls, OblF c n ob
  peers : s.peers = n.peers
  pnodup : (n.peers.map (·.addr)).Nodup

theorem RInvF.v {c : Cfg} {s : SpecSt} {n : Node} (h : RInvF c s n) : VInv c s n :=
  ⟨h.wf, h.cfg, h.now, h.prev, h.peers, h.pnodup⟩

theorem OblF.frame {c : Cfg} {n n' : Node} {ob : Obl} (h : OblF c n ob)
    (hg : n'.store.get ob.key = n.store.get ob.key) : OblF c n' ob :=
  ⟨h.dst, h.hop, by rw [hg]; exact h.item⟩

/-- An item that satisfies the invariant is found by the Spec's lookup and is pending. -/
theorem retained1_okF {c : Cfg} {n : Node} {ob : Obl} (e : Event) (outs : List Output) (h : OblF c n ob) :
    retainedFail1 ⟨e, outs, viewOf n⟩ ob = none := by
  rcases h.item with ⟨it, hg, hst, _, htag, _⟩
  have hc : (!ob.strict || (itemView (ob.key, it)).bundle.tag == ob.b.tag) = true := by
    cases hs : ob.strict
    · simp
    · simp [itemView, htag hs]
  unfold retainedFail1 Obl.item
  simp only
  rw [viewOf_get, hg]
  simp only [Option.map_some, hc, if_true]
  simp [itemView, hst.1]

theorem discharged_of_okSentF {ob : Obl} {outs : List Output} {b0 : Bundle} (h : OkSent outs b0)
    (ht : ob.strict = true → b0.tag = ob.b.tag) (hk : b0.key = ob.key) : ob.discharged outs = true := by
  rcases h with ⟨p, b, hm, htag, hkey⟩
  unfold Obl.discharged
  apply List.any_eq_true.mpr
  refine ⟨_, hm, ?_⟩
  simp only [Bool.true_and]
  cases hs : ob.strict
  · simp [hkey, hk]
  · simp [hkey, hk, htag, ht hs]

theorem discharged_appendF {ob : Obl} {a b : List Output} (h : ob.discharged a = true) :
    ob.discharged (a ++ b) = true := by
  unfold Obl.discharged at *
  rw [List.any_append, h, Bool.true_or]

/-! ## From the facts about one step to the Spec clause and the invariant -/

structure CoreF (c : Cfg) (s : SpecSt) (o : Obs) (m : Node) : Prop where
  wf : WF m
  cfg : m.cfg = c
  now : m.now = nowAfter s.now o.ev
  view : o.view = viewOf m
  old : ∀ ob ∈ s.obls, ob.discharged o.outs = true ∨
    lifetimeOk (nowAfter s.now o.ev) ob.acceptedAt ob.b = false ∨ OblF c m ob
  new : ∀ ob, newObl c s o = some ob → ob.discharged o.outs = true ∨ OblF c m ob
  peers : m.peers = peersAfter s.peers o.ev
  pnodup : (m.peers.map (·.addr)).Nodup

theorem rinvF_of_core (c : Cfg) (s : SpecSt) (o : Obs) (m : Node) (h : CoreF c s o m) :
    retainedFail c s o = none ∧ RInvF c (specNext c s o) m := by
  have hall : ∀ ob ∈ oblsAfter c s o, OblF c m ob := by
    intro ob hob
    unfold oblsAfter at hob
    rcases List.mem_filter.mp hob with ⟨hmem, hcond⟩
    simp only [Bool.and_eq_true, Bool.not_eq_true'] at hcond
    rcases List.mem_append.mp hmem with h1 | h1
    · rcases h.old ob h1 with h2 | h2 | h2
      · rw [hcond.1] at h2; cases h2
      · rw [h2] at hcond; exact absurd hcond.2 (by simp)
      · exact h2
    · have hn : newObl c s o = some ob := by
        cases hno : newObl c s o with
        | none => simp [hno] at h1
        | some ob' => simp [hno] at h1; rw [h1]
      rcases h.new ob hn with h2 | h2
      · rw [hcond.1] at h2; cases h2
      · exact h2
  constructor
  · unfold retainedFail
    apply List.findSome?_eq_none_iff.mpr
    intro ob hob
    have := retained1_okF o.ev o.outs (hall ob hob)
    rw [← h.view] at this
    exact this
  · exact ⟨h.wf, h.cfg, h.now.symm, h.view, hall, h.peers.symm, h.pnodup⟩

/-! ## The events -/

section events
variable (c : Cfg) (env : Env) (s : SpecSt) (n : Node)

/-- The observation of one step of the model. -/
def obsStep (e : Event) : Obs := obsOf (e, (step env n e).2, (step env n e).1)

theorem obsStep_view (e : Event) : (obsStep env n e).view = viewOf (step env n e).1 := rfl
theorem obsStep_ev (e : Event) : (obsStep env n e).ev = e := rfl
theorem obsStep_outs (e : Event) :
    (obsStep env n e).outs = (stepCore env n e).2 ++ deletedKeys n.store (stepCore env n e).1.store := rfl
theorem step_store (e : Event) : (step env n e).1.store = (stepCore env n e).1.store := rfl
theorem step_cfg (e : Event) : (step env n e).1.cfg = (stepCore env n e).1.cfg := rfl
theorem step_now (e : Event) : (step env n e).1.now = (stepCore env n e).1.now := rfl
theorem step_peers (e : Event) : (step env n e).1.peers = (stepCore env n e).1.peers := rfl

theorem wf_step {e : Event} (w : WF (stepCore env n e).1) : WF (step env n e).1 := ⟨w.keyed, w.nodup⟩

theorem newObl_none_of (o : Obs) (h : ∀ b, o.ev ≠ .submit b) (h' : ∀ b r, o.ev ≠ .receive b r) :
    newObl c s o = none := by
  unfold newObl
  cases he : o.ev with
  | submit b => exact absurd he (h b)
  | receive b r => exact absurd he (h' b r)
  | _ => rfl

/-- An event whose core leaves the store as it is. -/
theorem coreF_storeSame (e : Event) (inv : RInvF c s n)
    (hs : (stepCore env n e).1.store = n.store) (hc : (stepCore env n e).1.cfg = n.cfg)
    (hn : (stepCore env n e).1.now = nowAfter s.now e)
    (h1 : ∀ b, e ≠ .submit b) (h2 : ∀ b r, e ≠ .receive b r)
    (hp : (stepCore env n e).1.peers = peersAfter s.peers e)
    (hpn : ((stepCore env n e).1.peers.map (·.addr)).Nodup) :
    CoreF c s (obsStep env n e) (step env n e).1 := by
  refine ⟨wf_step env n ⟨by rw [hs]; exact inv.wf.keyed, by rw [hs]; exact inv.wf.nodup⟩,
    hc.trans inv.cfg, hn, rfl, ?_, ?_, hp, hpn⟩
  · intro ob hob
    right; right
    exact (inv.obls ob hob).frame (by rw [step_store, hs])
  · intro ob hob
    rw [newObl_none_of c s _ h1 h2] at hob
    cases hob

theorem coreF_peerDown (a : Nat) (inv : RInvF c s n) :
    CoreF c s (obsStep env n (.peerDown a)) (step env n (.peerDown a)).1 :=
  coreF_storeSame c env s n _ inv rfl rfl inv.now.symm (fun _ h => by cases h) (fun _ _ h => by cases h)
    (by simp [stepCore, peersAfter, inv.peers])
    (by
      simp only [stepCore]
      exact inv.pnodup.sublist (List.Sublist.map _ List.filter_sublist))

theorem coreF_restart (inv : RInvF c s n) :
    CoreF c s (obsStep env n .restart) (step env n .restart).1 :=
  coreF_storeSame c env s n _ inv rfl rfl inv.now.symm (fun _ h => by cases h) (fun _ _ h => by cases h)
    (by simp [stepCore, peersAfter]) (by simp [stepCore])

theorem coreF_cleanTick (t : Nat) (inv : RInvF c s n) :
    CoreF c s (obsStep env n (.cleanTick t)) (step env n (.cleanTick t)).1 := by
  have hget : ∀ k, (stepCore env n (.cleanTick t)).1.store.get k =
      if k ∈ expiredKeys n.store t then none else n.store.get k := by
    intro k
    simp only [stepCore, deleteExpired]
    exact Store.get_foldl_erase _ _ _
  refine ⟨wf_step env n ?_, inv.cfg, rfl, rfl, ?_, ?_,
    by simp [step, stepCore, deleteExpired, peersAfter, inv.peers, obsStep_ev],
    by simp only [step, stepCore, deleteExpired]; exact inv.pnodup⟩
  · exact wf_foldl_erase (expiredKeys n.store t) { n with now := t } ⟨inv.wf.keyed, inv.wf.nodup⟩
  · intro ob hob
    by_cases hl : lifetimeOk t ob.acceptedAt ob.b = true
    · right; right
      have hok := inv.obls ob hob
      rcases hok.item with ⟨it, hg, _, _, _, hexp⟩
      refine hok.frame ?_
      rw [step_store, hget]
      have : ob.key ∉ expiredKeys n.store t := by
        intro hmem
        unfold expiredKeys at hmem
        have := (List.mem_filter.mp hmem).2
        rw [hg] at this
        simp only [decide_eq_true_eq] at this
        exact hexp t hl this
      simp [this]
    · right; left
      simpa [nowAfter, obsStep_ev] using hl
  · intro ob hob
    rw [newObl_none_of c s _ (fun _ h => by cases h) (fun _ _ h => by cases h)] at hob
    cases hob

/-- `checkPendingBundles` from a state with the store of `n`. -/
theorem coreF_checkPending (hfix : c.holdFix = true) (e : Event) (n1 : Node) (inv : RInvF c s n)
    (hcore : stepCore env n e = checkPending env n1)
    (hs : n1.store = n.store) (hcfg : n1.cfg = n.cfg) (hnow : n1.now = n.now)
    (hev : nowAfter s.now e = s.now)
    (h1 : ∀ b, e ≠ .submit b) (h2 : ∀ b r, e ≠ .receive b r)
    (hp : n1.peers = peersAfter s.peers e) (hpn : (n1.peers.map (·.addr)).Nodup) :
    CoreF c s (obsStep env n e) (step env n e).1 := by
  have w1 : WF n1 := ⟨by rw [hs]; exact inv.wf.keyed, by rw [hs]; exact inv.wf.nodup⟩
  have hm : (stepCore env n e).1 = (checkPending env n1).1 := by rw [hcore]
  have ho : (stepCore env n e).2 = (checkPending env n1).2 := by rw [hcore]
  unfold checkPending at hm ho
  rcases dispatchKeys_kstep env (pendingKeys n1.store) n1 w1 with ⟨w', e', _, _, _⟩
  refine ⟨wf_step env n (by rw [hm]; exact w'), by rw [step_cfg, hm]; exact (e'.cfg.trans hcfg).trans inv.cfg,
    ?_, rfl, ?_, ?_, by rw [step_peers, hm]; exact e'.peers.trans hp, by rw [step_peers, hm, e'.peers]; exact hpn⟩
  · rw [step_now, hm, obsStep_ev, hev, e'.now, hnow, inv.now]
  · intro ob hob
    rw [obsStep_ev]
    by_cases hl : lifetimeOk (nowAfter s.now e) ob.acceptedAt ob.b = true
    · have hok := inv.obls ob hob
      rcases hok.item with ⟨it, hg, hst, hsb, htag, hexp⟩
      have hg1 : n1.store.get ob.key = some it := by rw [hs]; exact hg
      have hfw : forwardable n1.now it.bundle := by
        rw [hnow, ← inv.now, ← hev]
        exact forwardable_congrF _ hsb (forwardable_of_ok _ _ _ hl hok.hop)
      have hdst : hasEndpoint n1.cfg it.bundle.dst = false := by
        rw [hcfg, inv.cfg, hsb.2.1]; exact hok.dst
      have := dispatchKeys_kept env ob.key (pendingKeys n1.store) n1 it w1
        (by rw [hcfg, inv.cfg]; exact hfix) hg1 hst (fun _ => ⟨hfw, hdst⟩)
      rcases this with h | h
      · left
        rw [obsStep_outs, ho]
        exact discharged_appendF (discharged_of_okSentF h htag (inv.wf.keyed _ _ hg))
      · right; right
        rcases h.stable with ⟨it', g', s', b', x'⟩
        refine ⟨hok.dst, hok.hop, it', by rw [step_store, hm]; exact g', s', by rw [b']; exact hsb,
          by rw [b']; exact htag, ?_⟩
        intro t ht
        rw [x']
        exact hexp t ht
    · right; left
      cases h : lifetimeOk (nowAfter s.now e) ob.acceptedAt ob.b
      · rfl
      · exact absurd h hl
  · intro ob hob
    rw [newObl_none_of c s _ (by rw [obsStep_ev]; exact h1) (by rw [obsStep_ev]; exact h2)] at hob
    cases hob

theorem coreF_retryTick (hfix : c.holdFix = true) (inv : RInvF c s n) :
    CoreF c s (obsStep env n .retryTick) (step env n .retryTick).1 :=
  coreF_checkPending c env s n hfix .retryTick n inv rfl rfl rfl rfl rfl
    (fun _ h => by cases h) (fun _ _ h => by cases h) (by simp [peersAfter, inv.peers]) inv.pnodup

theorem coreF_peerUp (hfix : c.holdFix = true) (p : Peer) (inv : RInvF c s n) :
    CoreF c s (obsStep env n (.peerUp p)) (step env n (.peerUp p)).1 := by
  by_cases h : n.peers.any (fun q => q.addr == p.addr) = true
  · exact coreF_checkPending c env s n hfix (.peerUp p) n inv (by simp only [stepCore, h, if_true]) rfl rfl rfl rfl
      (fun _ h => by cases h) (fun _ _ h => by cases h) (by simp [peersAfter, inv.peers, h]) inv.pnodup
  · have h' : n.peers.any (fun q => q.addr == p.addr) = false := by
      cases hh : n.peers.any (fun q => q.addr == p.addr) <;> simp_all
    refine coreF_checkPending c env s n hfix (.peerUp p) { n with peers := n.peers ++ [p] } inv
      (by simp only [stepCore, h', Bool.false_eq_true, if_false]) rfl rfl rfl rfl
      (fun _ h => by cases h) (fun _ _ h => by cases h) (by simp [peersAfter, inv.peers, h']) ?_
    simp only [List.map_append, List.map_cons, List.map_nil]
    refine List.nodup_append.mpr ⟨inv.pnodup, by simp, ?_⟩
    intro a ha b hb
    simp at hb
    subst hb
    intro hab
    subst hab
    rcases List.mem_map.mp ha with ⟨q, hq, hqa⟩
    apply h
    apply List.any_eq_true.mpr
    exact ⟨q, hq, by simp [hqa]⟩

/-! ### receive -/

theorem coreF_receive (hc : Cur c) (b : Bundle) (r : Option Eid) (inv : RInvF c s n) :
    CoreF c s (obsStep env n (.receive b r)) (step env n (.receive b r)).1 := by
  have hstep := receive_kstep env b r n inv.wf
  have hm : (stepCore env n (.receive b r)).1 = (receive env b r n).1 := rfl
  have ho : (stepCore env n (.receive b r)).2 = (receive env b r n).2 := rfl
  refine ⟨wf_step env n (hstep.wf inv.wf), hstep.only.env.cfg.trans inv.cfg, ?_, rfl, ?_, ?_,
    by rw [step_peers, hm, hstep.only.env.peers]; simp [peersAfter, inv.peers, obsStep_ev],
    by rw [step_peers, hm, hstep.only.env.peers]; exact inv.pnodup⟩
  · rw [step_now, hm, hstep.only.env.now, ← inv.now]; rfl
  · intro ob hob
    have hok := inv.obls ob hob
    right; right
    by_cases hk : ob.key = b.key
    · -- a reception under the ID of a waiting bundle leaves it waiting
      rcases hok.item with ⟨it, hg, hst, hsb, htag, hexpok⟩
      have hg' : n.store.get b.key = some it := by rw [← hk]; exact hg
      rcases receive_known env b r n it hg' hst with ⟨_, hkept⟩
      rcases hkept.stable with ⟨it', g', s', b', x'⟩
      refine ⟨hok.dst, hok.hop, it', by rw [hk, step_store, hm]; exact g', s', by rw [b']; exact hsb,
        by rw [b']; exact htag, ?_⟩
      intro t ht
      rw [x']
      exact hexpok t ht
    · exact hok.frame (by rw [step_store, hm]; exact hstep.only.other _ hk)
  · intro ob hob
    unfold newObl at hob
    simp only [obsStep_ev] at hob
    split at hob
    · rename_i hcond
      cases hob
      simp only [Bool.and_eq_true, Bool.not_eq_true'] at hcond
      obtain ⟨⟨⟨⟨hdst, hlife⟩, hhop⟩, hdel⟩, hnone⟩ := hcond
      have hfresh : n.store.get b.key = none := by
        rw [inv.prev, viewOf_get] at hnone
        cases hg : n.store.get b.key with
        | none => rfl
        | some it => simp [hg] at hnone
      have hdst' : hasEndpoint n.cfg b.dst = false := by rw [inv.cfg]; exact hasEndpoint_false_of hdst
      have hf : forwardable n.now b := by rw [← inv.now]; exact forwardable_of_ok _ _ _ hlife hhop
      rcases receive_new env b r n (by rw [inv.cfg]; exact hc.hold) hfresh hdel hf hdst' with h | h
      · left
        rw [obsStep_outs, ho]
        exact discharged_appendF (discharged_of_okSentF h (fun h => by cases h) rfl)
      · right
        rcases h with ⟨it, hg, hst, hb, he⟩
        refine ⟨by rw [← inv.cfg]; exact hdst', hhop, it, by rw [step_store, hm]; exact hg, hst,
          by rw [hb]; exact SameFwd.refl _, (by intro h; exact Bool.noConfusion h), ?_⟩
        intro t ht
        rw [he, inv.cfg, ← inv.now]
        exact calcExpires_ok c hc.exp t s.now b ht
    · cases hob

/-! ### submit -/

theorem findSome?_eq_of {α β} (f : α → Option β) (v : β) : ∀ (l : List α),
    (∀ x ∈ l, f x = none ∨ f x = some v) → (∃ x ∈ l, f x = some v) → l.findSome? f = some v
  | [], _, h => by rcases h with ⟨x, hx, _⟩; cases hx
  | a :: l, hall, hex => by
    simp only [List.findSome?_cons]
    rcases hall a List.mem_cons_self with ha | ha
    · rw [ha]
      simp only
      apply findSome?_eq_of f v l (fun x hx => hall x (List.mem_cons_of_mem _ hx))
      rcases hex with ⟨x, hx, hfx⟩
      rcases List.mem_cons.mp hx with hxa | hxl
      · subst hxa; rw [ha] at hfx; cases hfx
      · exact ⟨x, hxl, hfx⟩
    · rw [ha]

theorem findSome?_none_of {α β} (f : α → Option β) (l : List α) (h : ∀ x ∈ l, f x = none) :
    l.findSome? f = none := List.findSome?_eq_none_iff.mpr h

/-- The ID the Spec reads off the observation of a submission is the ID the node assigned. -/
theorem filedKey_eq (prev : View) (o : Obs) (b b' : Bundle) (hb' : ∃ q, b' = { b with seq := q })
    (hnew : (prev.get b'.key).isNone = true)
    (houts : ∀ x ∈ o.outs, (∃ k, x = Output.deleted k) ∨ ∃ p ok, x = Output.sent p b' ok)
    (hitems : ∀ i ∈ o.view.items, (prev.get i.key).isNone = true → i.key = b'.key)
    (hsome : (∃ p ok, Output.sent p b' ok ∈ o.outs) ∨
      ∃ i ∈ o.view.items, i.key = b'.key ∧ i.bundle.tag = b.tag) :
    filedKey prev o b = b'.key := by
  rcases hb' with ⟨q, rfl⟩
  have hk : ({ b with seq := q } : Bundle).key = ⟨b.src, b.ts, q⟩ := rfl
  have hnk : isNewKey prev b ({ b with seq := q } : Bundle).key = true := by
    unfold isNewKey
    rw [hnew]
    simp [hk]
  have hsel : ∀ p ok, newKeyOf prev b (Output.sent p { b with seq := q } ok) = some ({ b with seq := q } : Bundle).key := by
    intro p ok
    simp only [newKeyOf, hnk, Bool.and_true, beq_self_eq_true, if_true]
  unfold filedKey
  by_cases hs : ∃ p ok, Output.sent p { b with seq := q } ok ∈ o.outs
  · rcases hs with ⟨p, ok, hm⟩
    have : o.outs.findSome? (newKeyOf prev b) = some ({ b with seq := q } : Bundle).key := by
      apply findSome?_eq_of
      · intro x hx
        rcases houts x hx with ⟨k, rfl⟩ | ⟨p', ok', rfl⟩
        · left; rfl
        · right; exact hsel p' ok'
      · exact ⟨_, hm, hsel p ok⟩
    rw [this]
  · have hnone : o.outs.findSome? (newKeyOf prev b) = none := by
      apply findSome?_none_of
      intro x hx
      rcases houts x hx with ⟨k, rfl⟩ | ⟨p', ok', rfl⟩
      · rfl
      · exact absurd ⟨p', ok', hx⟩ hs
    rw [hnone]
    simp only
    rcases hsome with h | ⟨i, hi, hik, hit⟩
    · exact absurd h hs
    · cases hf : o.view.items.find? (isNewItem prev b) with
      | none =>
        have := List.find?_eq_none.mp hf i hi
        exfalso
        apply this
        unfold isNewItem
        rw [hik, hnk, hit]
        simp
      | some j =>
        simp only
        have hj := List.find?_some hf
        have hjm := List.mem_of_find?_eq_some hf
        unfold isNewItem isNewKey at hj
        simp only [Bool.and_eq_true] at hj
        exact hitems j hjm hj.2.2

theorem coreF_submit (hc : Cur c) (b : Bundle) (inv : RInvF c s n) :
    CoreF c s (obsStep env n (.submit b)) (step env n (.submit b)).1 := by
  have hseq : n.cfg.seqFirst = true := by rw [inv.cfg]; exact hc.seq
  have hskip : n.cfg.skipStored = true := by rw [inv.cfg]; exact hc.skip
  rcases assignSeq_free b n hskip with ⟨⟨q, hq⟩, _, hfree⟩
  rcases sendBundle_only_any env b n inv.wf hseq hskip with ⟨hwf, honly, hnames⟩
  have hm : (stepCore env n (.submit b)).1 = (sendBundle env b n).1 := rfl
  have ho : (stepCore env n (.submit b)).2 = (sendBundle env b n).2 := rfl
  generalize hb' : (assignSeq b n).1 = b' at hq hfree honly hnames
  refine ⟨wf_step env n (e := .submit b) hwf, honly.env.cfg.trans inv.cfg, ?_, rfl, ?_, ?_,
    by rw [step_peers, hm, honly.env.peers]; simp [peersAfter, inv.peers, obsStep_ev],
    by rw [step_peers, hm, honly.env.peers]; exact inv.pnodup⟩
  · rw [step_now, hm, honly.env.now, ← inv.now]; rfl
  · -- the bundles the node holds are not touched: the new ID is not one of theirs
    intro ob hob
    right; right
    have hok := inv.obls ob hob
    refine hok.frame ?_
    rw [step_store, hm]
    apply honly.other
    intro hk
    rcases hok.item with ⟨it, hg, _⟩
    rw [hk, hfree] at hg
    cases hg
  · intro ob hob
    unfold newObl at hob
    simp only [obsStep_ev] at hob
    split at hob
    · rename_i hcond
      simp only [Bool.and_eq_true, Bool.not_eq_true', beq_iff_eq] at hcond
      obtain ⟨⟨⟨hsrc, hdst⟩, hlife⟩, hhop⟩ := hcond
      have hsrc' : hasEndpoint n.cfg b.src = true := by rw [inv.cfg]; simp [hasEndpoint, hsrc]
      have hdst' : hasEndpoint n.cfg b.dst = false := by rw [inv.cfg]; exact hasEndpoint_false_of hdst
      have hf : forwardable n.now b := by rw [← inv.now]; exact forwardable_of_ok _ _ _ hlife hhop
      have hkept := sendBundle_kept_any env b n (by rw [inv.cfg]; exact hc.hold) hseq hskip hsrc' hf hdst'
      rw [hb'] at hkept
      -- the Spec finds the assigned ID
      have hprevnone : (s.prev.get b'.key).isNone = true := by
        rw [inv.prev, viewOf_get, hfree]; rfl
      have hitems : ∀ i ∈ (obsStep env n (.submit b)).view.items, (s.prev.get i.key).isNone = true →
          i.key = b'.key := by
        intro i hi hnone
        rw [obsStep_view] at hi
        rcases mem_viewOf (wf_step env n (e := .submit b) hwf) hi with ⟨k, it, hg, rfl⟩
        simp only [itemView] at hnone ⊢
        by_cases hk : k = b'.key
        · exact hk
        · exfalso
          rw [step_store, hm, honly.other k hk] at hg
          rw [inv.prev, viewOf_get, hg] at hnone
          simp at hnone
      have houts : ∀ x ∈ (obsStep env n (.submit b)).outs,
          (∃ k, x = Output.deleted k) ∨ ∃ p ok, x = Output.sent p b' ok := by
        intro x hx
        rw [obsStep_outs, ho] at hx
        rcases List.mem_append.mp hx with h | h
        · exact Or.inr (hnames x h)
        · unfold deletedKeys at h
          rcases List.mem_map.mp h with ⟨kv, _, rfl⟩
          exact Or.inl ⟨_, rfl⟩
      have hsome : (∃ p ok, Output.sent p b' ok ∈ (obsStep env n (.submit b)).outs) ∨
          ∃ i ∈ (obsStep env n (.submit b)).view.items, i.key = b'.key ∧ i.bundle.tag = b.tag := by
        rcases hkept with ⟨p, bb, hmem, _, _⟩ | ⟨it, hg, _, hbe, _⟩
        · left
          rcases hnames _ hmem with ⟨p', ok', he⟩
          refine ⟨p', ok', ?_⟩
          rw [obsStep_outs, ho, ← he]
          exact List.mem_append_left _ hmem
        · right
          refine ⟨itemView (b'.key, it), ?_, rfl, ?_⟩
          · rw [obsStep_view]
            exact List.mem_map.mpr ⟨(b'.key, it), Store.mem_of_get (by rw [step_store, hm]; exact hg), rfl⟩
          · simp only [itemView, hbe, hq]
      have hfk := filedKey_eq s.prev (obsStep env n (.submit b)) b b' ⟨q, hq⟩ hprevnone houts hitems hsome
      rw [hfk] at hob
      cases hob
      rcases hkept with h | h
      · left
        rw [obsStep_outs, ho]
        exact discharged_appendF (discharged_of_okSentF h (fun _ => by rw [hq]) rfl)
      · right
        rcases h with ⟨it, hg, hst, hbe, he⟩
        have hsf : SameFwd b' b := by rw [hq]; exact SameFwd.refl _ |>.trans ⟨rfl, rfl, rfl, rfl, rfl⟩
        refine ⟨by rw [← inv.cfg]; exact hdst', hhop, it, by rw [step_store, hm]; exact hg, hst,
          by rw [hbe]; exact hsf, fun _ => by rw [hbe, hq], ?_⟩
        intro t ht
        rw [he, inv.cfg, ← inv.now, calcExpires_congrF c s.now hsf]
        exact calcExpires_ok c hc.exp t s.now b ht
    · cases hob

end events

/-! ## Every history -/

theorem rinvF_step (c : Cfg) (hc : Cur c) (env : Env) (e : Event) (s : SpecSt) (n : Node) (inv : RInvF c s n) :
    retainedFail c s (obsOf (e, (step env n e).2, (step env n e).1)) = none ∧
    RInvF c (specNext c s (obsOf (e, (step env n e).2, (step env n e).1))) (step env n e).1 := by
  apply rinvF_of_core c s _ _
  cases e with
  | submit b => exact coreF_submit c env s n hc b inv
  | receive b r => exact coreF_receive c env s n hc b r inv
  | peerUp p => exact coreF_peerUp c env s n hc.hold p inv
  | peerDown a => exact coreF_peerDown c env s n a inv
  | retryTick => exact coreF_retryTick c env s n hc.hold inv
  | cleanTick t => exact coreF_cleanTick c env s n t inv
  | restart => exact coreF_restart c env s n inv

theorem retained_run_full (c : Cfg) (hc : Cur c) (env : Env) :
    ∀ (h : List Event) (s : SpecSt) (n : Node) (i : Nat), RInvF c s n →
    firstFail retainedFail c s i ((trace env n h).map obsOf) = none
  | [], _, _, _, _ => rfl
  | e :: h, s, n, i, inv => by
    simp only [trace, List.map_cons, firstFail]
    rcases rinvF_step c hc env e s n inv with ⟨h1, h2⟩
    rw [h1]
    simp only
    exact retained_run_full c hc env h _ _ (i + 1) h2

theorem rinvF_init (c : Cfg) (now : Nat) : RInvF c (SpecSt.init now) (init c now) := by
  refine ⟨⟨?_, ?_⟩, rfl, rfl, rfl, ?_, rfl, ?_⟩
  · intro k it h; simp [init, Store.get] at h
  · simp [init, Store.keys]
  · intro ob h; simp [SpecSt.init] at h
  · simp [init]

end Dtn7.Node
