/-
Helper lemmas for C16 (CLA manager). The property theorems are in `Dtn7.Props.C16`.

Structure: `G env reg hist` is the invariant tying the registry to the observation log. It is
preserved by five elementary transitions (`G.mark`, `G.start`, `G.drop`, `G.stop`, `G.add`); the
manager operations are compositions of these.
-/
import Dtn7.Model.ClaManager

namespace Dtn7.ClaManager
open Spec

/-! ### lists -/

theorem pw_mid {α} {R : α → α → Prop} (hs : ∀ a b, R a b → R b a) {l1 l2 : List α} {e : α}
    (h : (l1 ++ e :: l2).Pairwise R) : ∀ x ∈ l1 ++ l2, R x e := by
  intro x hx
  rw [List.pairwise_append] at h
  obtain ⟨_, h2, h3⟩ := h
  rw [List.pairwise_cons] at h2
  rcases List.mem_append.mp hx with hx | hx
  · exact h3 x hx e (List.mem_cons_self)
  · exact hs _ _ (h2.1 x hx)

theorem pw_drop {α} {R : α → α → Prop} {l1 l2 : List α} {e : α}
    (h : (l1 ++ e :: l2).Pairwise R) : (l1 ++ l2).Pairwise R := by
  rw [List.pairwise_append] at h ⊢
  obtain ⟨h1, h2, h3⟩ := h
  rw [List.pairwise_cons] at h2
  exact ⟨h1, h2.2, fun a ha b hb => h3 a ha b (List.mem_cons_of_mem _ hb)⟩

theorem pw_repl {α} {R : α → α → Prop} {l1 l2 : List α} {e e' : α}
    (hr : ∀ x, (R x e → R x e') ∧ (R e x → R e' x))
    (h : (l1 ++ e :: l2).Pairwise R) : (l1 ++ e' :: l2).Pairwise R := by
  rw [List.pairwise_append] at h ⊢
  obtain ⟨h1, h2, h3⟩ := h
  rw [List.pairwise_cons] at h2 ⊢
  refine ⟨h1, ⟨fun x hx => (hr x).2 (h2.1 x hx), h2.2⟩, ?_⟩
  intro a ha b hb
  rcases List.mem_cons.mp hb with rfl | hb
  · exact (hr a).1 (h3 a ha e List.mem_cons_self)
  · exact h3 a ha b (List.mem_cons_of_mem _ hb)

/-! ### the invariant -/

/-- what must hold of one registry element w.r.t. the log -/
def ElOk (env : Env) (h : Hist) (x : Elem) : Prop :=
  (-1 ≤ x.ttl ∧ x.ttl ≤ env.budget) ∧ (x.ttl < 0 ↔ x.stop = .opened) ∧
  (x.ttl < 0 ↔ running x.conv h = true) ∧
  ((env.cfg x.conv).permanent = false → 0 ≤ x.ttl → x.ttl ≤ left env.cfg env.budget x.conv h)

structure G (env : Env) (reg : List Elem) (h : Hist) : Prop where
  nodup : reg.Pairwise (fun e e' => addrOf env e ≠ addrOf env e')
  el : ∀ x ∈ reg, ElOk env h x
  runIn : ∀ a, running a h = true → ∃ x ∈ reg, x.conv = a
  pend : ∀ a, (env.cfg a).permanent = true → pending a h = true → ∃ x ∈ reg, x.conv = a ∧ 0 ≤ x.ttl
  disc : discipline h = true
  bud : ∀ a, (env.cfg a).permanent = false → budgetOk env.cfg env.budget a h = true

theorem addr_ne_conv_ne {env : Env} {x e : Elem} (h : addrOf env x ≠ addrOf env e) : x.conv ≠ e.conv := by
  intro hc; apply h; simp [addrOf, hc]

theorem ElOk.start_ne {env : Env} {h : Hist} {x : Elem} {c : Nat} {r : Ans} (hne : x.conv ≠ c) :
    ElOk env (.start c r :: h) x ↔ ElOk env h x := by
  have hne' : c ≠ x.conv := fun h => hne h.symm
  simp [ElOk, running, left, hne']

theorem ElOk.stop_ne {env : Env} {h : Hist} {x : Elem} {c : Nat} (hne : x.conv ≠ c) :
    ElOk env (.stop c :: h) x ↔ ElOk env h x := by
  have hne' : c ≠ x.conv := fun h => hne h.symm
  simp [ElOk, running, left, hne']

/-- a new operation begins -/
theorem G.mark {env : Env} {reg : List Elem} {h : Hist} (g : G env reg h) (o : Op) :
    G env reg (.op o :: h) where
  nodup := g.nodup
  el := by
    intro x hx
    obtain ⟨h1, h2, h3, h4⟩ := g.el x hx
    refine ⟨h1, h2, by simpa [running] using h3, ?_⟩
    intro hp h0
    simp only [left]
    split
    · exact h1.2
    · exact h4 hp h0
  runIn := by intro a ha; exact g.runIn a (by simpa [running] using ha)
  pend := by
    intro a hp ha
    simp [pending] at ha
    exact g.pend a hp ha.2
  disc := by simpa [discipline] using g.disc
  bud := by intro a hp; simpa [budgetOk] using g.bud a hp

theorem mem_mid {α} {l1 l2 : List α} {e x : α} : x ∈ l1 ++ e :: l2 ↔ x = e ∨ x ∈ l1 ++ l2 := by
  simp only [List.mem_append, List.mem_cons]
  constructor
  · rintro (h | h | h)
    · exact .inr (.inl h)
    · exact .inl h
    · exact .inr (.inr h)
  · rintro (h | h | h)
    · exact .inr (.inl h)
    · exact .inl h
    · exact .inr (.inr h)

/-- the element after `Start()` answered `r` (repaired code) -/
def afterStart (e : Elem) (r : Ans) : Elem :=
  match r with
  | .ok => { e with ttl := -1, stop := .opened }
  | .failRetry => { e with ttl := if 0 < e.ttl then e.ttl - 1 else e.ttl }
  | .failNoRetry => { e with ttl := 0 }

@[simp] theorem afterStart_conv (e : Elem) (r : Ans) : (afterStart e r).conv = e.conv := by
  cases r <;> rfl

/-- `Start()` of an inactive registered element that may be started answers `r` -/
theorem G.start {env : Env} {l1 l2 : List Elem} {e : Elem} {h : Hist}
    (g : G env (l1 ++ e :: l2) h) (hin : 0 ≤ e.ttl)
    (hok : ¬ (e.ttl = 0 ∧ (env.cfg e.conv).permanent = false)) (r : Ans) :
    G env (l1 ++ afterStart e r :: l2) (.start e.conv r :: h) := by
  have hne : ∀ x ∈ l1 ++ l2, x.conv ≠ e.conv := fun x hx =>
    addr_ne_conv_ne (pw_mid (fun _ _ h => Ne.symm h) g.nodup x hx)
  obtain ⟨he1, he2, he3, he4⟩ := g.el e (mem_mid.mpr (.inl rfl))
  have hnr : running e.conv h = false := by
    cases hr : running e.conv h
    · rfl
    · have := he3.mpr hr; omega
  refine ⟨?_, ?_, ?_, ?_, ?_, ?_⟩
  · refine pw_repl ?_ g.nodup
    intro x; simp [addrOf]
  · intro x hx
    rcases mem_mid.mp hx with rfl | hx
    · cases r
      · refine ⟨by simp [afterStart], by simp [afterStart], by simp [afterStart, running], ?_⟩
        simp [afterStart]
      · refine ⟨?_, ?_, ?_, ?_⟩
        · simp only [afterStart]; split <;> omega
        · have : e.stop ≠ .opened := fun hs => by have := he2.mpr hs; omega
          simp only [afterStart]
          constructor
          · intro hlt; split at hlt <;> omega
          · intro hs; exact absurd hs this
        · simp only [afterStart, running, if_true]
          constructor
          · intro hlt; split at hlt <;> omega
          · intro hd; simp at hd
        · intro hp h0
          have hpos : 0 < e.ttl := by
            rcases Int.lt_or_eq_of_le hin with h | h
            · exact h
            · exact absurd ⟨h.symm, hp⟩ hok
          have := he4 hp hin
          simp only [afterStart, left, if_true, hpos]
          simp only [afterStart_conv] at hp
          omega
      · refine ⟨by simp [afterStart], ?_, by simp [afterStart, running], by simp [afterStart, left]⟩
        have : e.stop ≠ .opened := fun hs => by have := he2.mpr hs; omega
        simp [afterStart, this]
    · exact (ElOk.start_ne (hne x hx)).mpr (g.el x (mem_mid.mpr (.inr hx)))
  · intro a ha
    by_cases hc : e.conv = a
    · exact ⟨afterStart e r, mem_mid.mpr (.inl rfl), by simp [hc]⟩
    · simp [running, hc] at ha
      obtain ⟨x, hx, hxa⟩ := g.runIn a ha
      rcases mem_mid.mp hx with rfl | hx
      · exact absurd hxa hc
      · exact ⟨x, mem_mid.mpr (.inr hx), hxa⟩
  · intro a hp ha
    by_cases hc : e.conv = a
    · simp [pending, hc] at ha
      refine ⟨afterStart e r, mem_mid.mpr (.inl rfl), by simp [hc], ?_⟩
      subst ha
      simp only [afterStart]; split <;> omega
    · simp [pending, hc] at ha
      obtain ⟨x, hx, hxa, hx0⟩ := g.pend a hp ha
      rcases mem_mid.mp hx with rfl | hx
      · exact absurd hxa hc
      · exact ⟨x, mem_mid.mpr (.inr hx), hxa, hx0⟩
  · simp [discipline, hnr, g.disc]
  · intro a hp
    simp only [budgetOk, Bool.and_eq_true, g.bud a hp, and_true]
    by_cases hc : e.conv = a
    · subst hc
      have := he4 hp hin
      have hpos : 0 < e.ttl := by
        rcases Int.lt_or_eq_of_le hin with h | h
        · exact h
        · exact absurd ⟨h.symm, hp⟩ hok
      simp; omega
    · simp [hc]

/-- an inactive element that is not a waiting permanent adapter is forgotten -/
theorem G.drop {env : Env} {l1 l2 : List Elem} {e : Elem} {h : Hist}
    (g : G env (l1 ++ e :: l2) h) (hin : 0 ≤ e.ttl)
    (hp : (env.cfg e.conv).permanent = true → pending e.conv h = false) :
    G env (l1 ++ l2) h := by
  obtain ⟨_, _, he3, _⟩ := g.el e (mem_mid.mpr (.inl rfl))
  refine ⟨pw_drop g.nodup, fun x hx => g.el x (mem_mid.mpr (.inr hx)), ?_, ?_, g.disc, g.bud⟩
  · intro a ha
    obtain ⟨x, hx, hxa⟩ := g.runIn a ha
    rcases mem_mid.mp hx with rfl | hx
    · subst hxa; have := he3.mpr ha; omega
    · exact ⟨x, hx, hxa⟩
  · intro a hpa ha
    obtain ⟨x, hx, hxa, hx0⟩ := g.pend a hpa ha
    rcases mem_mid.mp hx with rfl | hx
    · subst hxa; rw [hp hpa] at ha; cases ha
    · exact ⟨x, hx, hxa, hx0⟩

/-- an active element is deactivated (its adapter closed) and forgotten -/
theorem G.stop {env : Env} {l1 l2 : List Elem} {e : Elem} {h : Hist}
    (g : G env (l1 ++ e :: l2) h) (hact : e.ttl < 0) :
    G env (l1 ++ l2) (.stop e.conv :: h) := by
  have hne : ∀ x ∈ l1 ++ l2, x.conv ≠ e.conv := fun x hx =>
    addr_ne_conv_ne (pw_mid (fun _ _ h => Ne.symm h) g.nodup x hx)
  obtain ⟨_, _, he3, _⟩ := g.el e (mem_mid.mpr (.inl rfl))
  refine ⟨pw_drop g.nodup, ?_, ?_, ?_, ?_, ?_⟩
  · intro x hx
    exact (ElOk.stop_ne (hne x hx)).mpr (g.el x (mem_mid.mpr (.inr hx)))
  · intro a ha
    by_cases hc : e.conv = a
    · simp [running, hc] at ha
    · simp [running, hc] at ha
      obtain ⟨x, hx, hxa⟩ := g.runIn a ha
      rcases mem_mid.mp hx with rfl | hx
      · exact absurd hxa hc
      · exact ⟨x, hx, hxa⟩
  · intro a hp ha
    by_cases hc : e.conv = a
    · simp [pending, hc] at ha
    · simp [pending, hc] at ha
      obtain ⟨x, hx, hxa, hx0⟩ := g.pend a hp ha
      rcases mem_mid.mp hx with rfl | hx
      · exact absurd hxa hc
      · exact ⟨x, hx, hxa, hx0⟩
  · simp [discipline, he3.mp hact, g.disc]
  · intro a hp; simpa [budgetOk] using g.bud a hp

/-- a fresh element for adapter `a` (address not yet registered) -/
theorem G.add {env : Env} {reg : List Elem} {h : Hist} (g : G env reg h) (a : Nat)
    (hfresh : ∀ x ∈ reg, addrOf env x ≠ (env.cfg a).addr)
    (hleft : (env.cfg a).permanent = false → env.budget ≤ left env.cfg env.budget a h) :
    G env (reg ++ [⟨a, env.budget, .absent⟩]) h := by
  have hnr : running a h = false := by
    cases hr : running a h
    · rfl
    · obtain ⟨x, hx, hxa⟩ := g.runIn a hr
      exact absurd (by simp [addrOf, hxa]) (hfresh x hx)
  refine ⟨?_, ?_, ?_, ?_, g.disc, g.bud⟩
  · rw [List.pairwise_append]
    refine ⟨g.nodup, List.pairwise_singleton _ _, ?_⟩
    intro x hx y hy
    simp only [List.mem_singleton] at hy
    subst hy
    exact hfresh x hx
  · intro x hx
    rcases List.mem_append.mp hx with hx | hx
    · exact g.el x hx
    · simp only [List.mem_singleton] at hx
      subst hx
      refine ⟨by simp, by simp, by simp [hnr], ?_⟩
      intro hp _
      have := hleft hp
      simp; omega
  · intro b hb
    obtain ⟨x, hx, hxa⟩ := g.runIn b hb
    exact ⟨x, List.mem_append_left _ hx, hxa⟩
  · intro b hp hb
    obtain ⟨x, hx, hxa⟩ := g.pend b hp hb
    exact ⟨x, List.mem_append_left _ hx, hxa⟩

/-! ### the model's functions in terms of the elementary transitions -/

theorem activate_eq (env : Env) (hf : env.fixed = true) (e : Elem) (h : Hist) :
    activate env e h =
      if e.ttl < 0 ∨ (e.ttl = 0 ∧ (env.cfg e.conv).permanent = false) then ⟨e, h, false, false⟩
      else
        ⟨afterStart e (env.script e.conv (startCount e.conv h)),
         .start e.conv (env.script e.conv (startCount e.conv h)) :: h,
         decide (env.script e.conv (startCount e.conv h) = .ok),
         decide (env.script e.conv (startCount e.conv h) = .failRetry)⟩ := by
  unfold activate
  by_cases h1 : e.ttl < 0
  · simp [h1]
  · by_cases h2 : e.ttl = 0 ∧ (env.cfg e.conv).permanent = false
    · simp [h2]
    · simp only [h1, h2, if_false, false_or]
      cases env.script e.conv (startCount e.conv h) <;> simp [afterStart, hf]

theorem lookup_some {env : Env} {addr : Nat} {reg : List Elem} {e : Elem}
    (h : lookup env addr reg = some e) :
    addrOf env e = addr ∧ ∃ l1 l2, reg = l1 ++ e :: l2 := by
  unfold lookup at h
  rw [List.find?_eq_some_iff_append] at h
  obtain ⟨hp, l1, l2, hreg, _⟩ := h
  exact ⟨by simpa using hp, l1, l2, hreg⟩

theorem lookup_none {env : Env} {addr : Nat} {reg : List Elem}
    (h : lookup env addr reg = none) : ∀ x ∈ reg, addrOf env x ≠ addr := by
  unfold lookup at h
  rw [List.find?_eq_none] at h
  intro x hx; simpa using h x hx

theorem replace_mid {env : Env} {l1 l2 : List Elem} {e e' : Elem}
    (hn : (l1 ++ e :: l2).Pairwise (fun e e' => addrOf env e ≠ addrOf env e'))
    (ha : addrOf env e' = addrOf env e) :
    replace env e' (l1 ++ e :: l2) = l1 ++ e' :: l2 := by
  have hne := pw_mid (fun _ _ h => Ne.symm h) hn
  have hid : ∀ l : List Elem, (∀ x ∈ l, addrOf env x ≠ addrOf env e) →
      l.map (fun x => if addrOf env x == addrOf env e then e' else x) = l := by
    intro l hl
    induction l with
    | nil => rfl
    | cons y ys ih =>
      have hy := hl y List.mem_cons_self
      simp only [List.map_cons]
      rw [ih (fun x hx => hl x (List.mem_cons_of_mem _ hx))]
      simp [hy]
  unfold replace
  rw [ha, List.map_append, List.map_cons, hid l1 (fun x hx => hne x (List.mem_append_left _ hx)),
    hid l2 (fun x hx => hne x (List.mem_append_right _ hx))]
  simp

theorem remove_mid {env : Env} {l1 l2 : List Elem} {e : Elem}
    (hn : (l1 ++ e :: l2).Pairwise (fun e e' => addrOf env e ≠ addrOf env e')) :
    remove env (addrOf env e) (l1 ++ e :: l2) = l1 ++ l2 := by
  have hne := pw_mid (fun _ _ h => Ne.symm h) hn
  have hid : ∀ l : List Elem, (∀ x ∈ l, addrOf env x ≠ addrOf env e) →
      l.filter (fun x => addrOf env x != addrOf env e) = l := by
    intro l hl
    rw [List.filter_eq_self]
    intro x hx; simpa using hl x hx
  unfold remove
  rw [List.filter_append, List.filter_cons, hid l1 (fun x hx => hne x (List.mem_append_left _ hx)),
    hid l2 (fun x hx => hne x (List.mem_append_right _ hx))]
  simp

/-! ### the state invariant -/

structure Inv (env : Env) (s : State) : Prop where
  g : G env s.reg s.hist
  np : s.panicked = false
  closedEmpty : s.closed = true → s.reg = []
  closedMark : s.closed = true → Item.op .close ∈ s.hist

theorem Inv.upd {env : Env} {s : State} (inv : Inv env s) {reg : List Elem} {h : Hist}
    (g : G env reg h) (hc : s.closed = false) : Inv env { s with reg := reg, hist := h } :=
  ⟨g, inv.np, fun h => by simp [hc] at h, fun h => by simp [hc] at h⟩

theorem Inv.init (env : Env) : Inv env {} :=
  ⟨⟨List.Pairwise.nil, by simp, by simp [running], by simp [pending], by simp [discipline],
    by simp [budgetOk]⟩, rfl, fun _ => rfl, fun h => by simp at h⟩

theorem register_inv {env : Env} (hf : env.fixed = true) {s : State} {a : Nat} (inv : Inv env s)
    (hleft : (env.cfg a).permanent = false → env.budget ≤ left env.cfg env.budget a s.hist) :
    Inv env (register env s a) := by
  unfold register
  split
  · exact inv
  next hc =>
  have hc : s.closed = false := by simpa using hc
  split
  · next e hl =>
    obtain ⟨_, l1, l2, hreg⟩ := lookup_some hl
    split
    · exact inv
    next hact =>
    split
    · exact inv
    have g := inv.g
    rw [hreg] at g
    simp only [activate_eq env hf, hreg]
    split
    · next hcond =>
      rw [replace_mid g.nodup rfl]
      exact inv.upd g hc
    · next hcond =>
      have h1 : 0 ≤ e.ttl := by omega
      have h2 : ¬ (e.ttl = 0 ∧ (env.cfg e.conv).permanent = false) := fun h => hcond (.inr h)
      rw [replace_mid g.nodup (by simp [addrOf])]
      exact inv.upd (g.start h1 h2 _) hc
  · next hl =>
    have hfresh := lookup_none hl
    split
    · exact inv
    simp only [activate_eq env hf]
    split
    · next hcond =>
      simp only [Bool.not_false, Bool.and_self, if_true]
      exact inv.upd inv.g hc
    · next hcond =>
      have g1 := inv.g.add a hfresh hleft
      have h1 : (0 : Int) ≤ (⟨a, env.budget, .absent⟩ : Elem).ttl := by simp
      have g2 := G.start (l2 := []) g1 h1 (fun h => hcond (.inr h)) (env.script a (startCount a s.hist))
      split
      · next hdrop =>
        have hr : env.script a (startCount a s.hist) = .failNoRetry := by
          cases hs : env.script a (startCount a s.hist) <;> simp [hs] at hdrop ⊢
        have g3 := G.drop g2 (by rw [hr]; simp [afterStart]) (by intro _; simp [pending, hr])
        simp only [List.append_nil] at g3
        exact inv.upd g3 hc
      · exact inv.upd g2 hc

theorem unregister_inv {env : Env} {s : State} {a : Nat} (inv : Inv env s)
    (hpend : pending a s.hist = false) :
    Inv env (unregister env s a) ∧ (unregister env s a).closed = s.closed ∧
      ((unregister env s a).hist = s.hist ∨ (unregister env s a).hist = .stop a :: s.hist) := by
  unfold unregister
  split
  · exact ⟨inv, rfl, .inl rfl⟩
  next e hl =>
  obtain ⟨hea, l1, l2, hreg⟩ := lookup_some hl
  have hc : s.closed = false := by
    cases hcl : s.closed
    · rfl
    · have := inv.closedEmpty hcl; rw [hreg] at this; simp at this
  split
  · exact ⟨inv, rfl, .inl rfl⟩
  next hconv =>
  have hconv : e.conv = a := by simpa using hconv
  have g := inv.g
  rw [hreg] at g
  obtain ⟨_, he2, _, _⟩ := g.el e (mem_mid.mpr (.inl rfl))
  unfold deactivate
  by_cases hact : e.ttl < 0
  · have hs := he2.mp hact
    simp only [hact, if_true, hs, hreg, ← hea]
    rw [remove_mid g.nodup]
    exact ⟨inv.upd (g.stop hact) hc, by simp, by simp [hconv]⟩
  · simp only [hact, if_false, hreg, ← hea]
    rw [remove_mid g.nodup]
    exact ⟨inv.upd (g.drop (by omega) (by intro _; rw [hconv]; exact hpend)) hc, by simp, by simp⟩

theorem restart_inv {env : Env} (hf : env.fixed = true) {s : State} {a : Nat} (inv : Inv env s)
    (hpend : pending a s.hist = false)
    (hleft : (env.cfg a).permanent = false → env.budget ≤ left env.cfg env.budget a s.hist) :
    Inv env (restart env s a) := by
  obtain ⟨inv1, _, hh⟩ := unregister_inv (a := a) inv hpend
  unfold restart
  simp only [inv1.np, Bool.false_eq_true, if_false]
  refine register_inv hf inv1 ?_
  intro hp
  rcases hh with hh | hh <;> rw [hh]
  · exact hleft hp
  · simpa [left] using hleft hp

theorem tickList_G {env : Env} (hf : env.fixed = true) :
    ∀ (es done : List Elem) (h : Hist), G env (done ++ es) h →
      G env (done ++ (tickList env es h).1) (tickList env es h).2 := by
  intro es
  induction es with
  | nil => intro done h g; simpa [tickList] using g
  | cons e es ih =>
    intro done h g
    unfold tickList
    split
    · next hact =>
      have := ih (done ++ [e]) h (by simpa using g)
      simpa using this
    · next hact =>
      simp only [activate_eq env hf]
      split
      · next hcond =>
        have hnp : (env.cfg e.conv).permanent = false := by
          rcases hcond with h | h
          · exact absurd h hact
          · exact h.2
        simp only [Bool.not_false, Bool.and_self, if_true]
        exact ih done h (g.drop (by omega) (by intro hp; rw [hnp] at hp; cases hp))
      · next hcond =>
        have h1 : 0 ≤ e.ttl := by omega
        have g2 := g.start h1 (fun h => hcond (.inr h)) (env.script e.conv (startCount e.conv h))
        split
        · next hdrop =>
          have hr : env.script e.conv (startCount e.conv h) = .failNoRetry := by
            cases hs : env.script e.conv (startCount e.conv h) <;> simp [hs] at hdrop ⊢
          exact ih done _ (g2.drop (by rw [hr]; simp [afterStart]) (by intro _; simp [pending, hr]))
        · have := ih (done ++ [afterStart e (env.script e.conv (startCount e.conv h))]) _
            (by simpa using g2)
          simpa using this

theorem tick_inv {env : Env} (hf : env.fixed = true) {s : State} (inv : Inv env s) :
    Inv env (tick env s) := by
  unfold tick
  split
  · exact inv
  next hc =>
  have hc : s.closed = false := by simpa using hc
  have := tickList_G hf s.reg [] s.hist (by simpa using inv.g)
  exact inv.upd (by simpa using this) hc

theorem closeAll_G {env : Env} :
    ∀ (es done : List Elem) (h : Hist), G env (done ++ es) h → (∀ a, pending a h = false) →
      Item.op .close ∈ h →
      ∃ h', closeAll env es h = some h' ∧ G env done h' ∧ Item.op .close ∈ h' := by
  intro es
  induction es with
  | nil => intro done h g _ hm; exact ⟨h, rfl, by simpa using g, hm⟩
  | cons e es ih =>
    intro done h g hp hm
    obtain ⟨_, he2, _, _⟩ := g.el e (mem_mid.mpr (.inl rfl))
    unfold closeAll deactivate
    by_cases hact : e.ttl < 0
    · have hs := he2.mp hact
      simp only [hact, if_true, hs]
      refine ih done _ (g.stop hact) ?_ (List.mem_cons_of_mem _ hm)
      intro a
      simp only [pending, hp a]
      split <;> rfl
    · simp only [hact, if_false]
      exact ih done _ (g.drop (by omega) (fun _ => hp _)) hp hm

theorem step_inv {env : Env} (hf : env.fixed = true) {s : State} (inv : Inv env s) (o : Op)
    (hok : ¬ (o = .close ∧ s.closed = true)) : Inv env (step env s o) := by
  have inv0 : Inv env { s with hist := .op o :: s.hist } :=
    ⟨inv.g.mark o, inv.np, inv.closedEmpty, fun h => List.mem_cons_of_mem _ (inv.closedMark h)⟩
  have hnp : ¬ (s.panicked = true) := by simp [inv.np]
  unfold step
  rw [if_neg hnp]
  cases o with
  | register a => exact register_inv hf inv0 (by intro _; simp [left, registers])
  | unregister a => exact (unregister_inv (a := a) inv0 (by simp [pending, clears])).1
  | restart a =>
    exact restart_inv hf inv0 (by simp [pending, clears]) (by intro _; simp [left, registers])
  | tick => exact tick_inv hf inv0
  | peerDisappeared a =>
    simp only
    split
    · exact inv0
    · exact restart_inv hf inv0 (by simp [pending, clears]) (by intro _; simp [left, registers])
  | close =>
    have hc : s.closed = false := by
      cases h : s.closed
      · rfl
      · exact absurd ⟨rfl, h⟩ hok
    simp only [close, hc, Bool.false_eq_true, if_false]
    obtain ⟨h', heq, g', hm⟩ := closeAll_G s.reg [] (.op .close :: s.hist)
      (by simpa using inv0.g) (by intro a; simp [pending, clears]) List.mem_cons_self
    simp only [heq]
    exact ⟨g', inv.np, fun _ => rfl, fun _ => hm⟩

/-! ### the Spec clauses from the invariant -/

theorem mem_listing {env : Env} {reg : List Elem} {h : Hist} (g : G env reg h)
    (role : Cfg → Bool) (a : Nat) :
    a ∈ (reg.filter (fun e => e.active && role (env.cfg e.conv))).map (·.conv) ↔
      (running a h = true ∧ role (env.cfg a) = true) := by
  simp only [List.mem_map, List.mem_filter, Bool.and_eq_true, Elem.active, decide_eq_true_eq]
  constructor
  · rintro ⟨x, ⟨hx, hact, hr⟩, rfl⟩
    obtain ⟨_, _, h3, _⟩ := g.el x hx
    exact ⟨h3.mp hact, hr⟩
  · rintro ⟨hrun, hr⟩
    obtain ⟨x, hx, rfl⟩ := g.runIn a hrun
    obtain ⟨_, _, h3, _⟩ := g.el x hx
    exact ⟨x, ⟨hx, h3.mpr hrun, hr⟩, rfl⟩

theorem activeIffStarted_of_G {env : Env} {s : State} (g : G env s.reg s.hist) (o : Op) :
    activeIffStarted env.cfg ⟨o, s.hist, sendersOf env s, receiversOf env s, .ok⟩ = true := by
  simp only [activeIffStarted, List.all_eq_true, Bool.and_eq_true, beq_iff_eq]
  intro a _
  constructor
  · rw [Bool.eq_iff_iff, List.contains_iff_mem, Bool.and_eq_true]
    exact mem_listing g (·.sender) a
  · rw [Bool.eq_iff_iff, List.contains_iff_mem, Bool.and_eq_true]
    exact mem_listing g (·.receiver) a

theorem singleInstance_of_G {env : Env} {reg : List Elem} {h : Hist} (g : G env reg h) :
    singleInstance env.cfg h = true := by
  simp only [singleInstance, List.all_eq_true, Bool.or_eq_true, beq_iff_eq,
    Bool.and_eq_false_iff, Bool.not_eq_eq_eq_not, Bool.not_true]
  intro a _ a' _
  by_cases haa : a = a'
  · exact .inl (.inl haa)
  by_cases hadr : (env.cfg a).addr = (env.cfg a').addr
  · refine .inr ?_
    cases hr : running a h
    · exact .inl rfl
    cases hr' : running a' h
    · exact .inr rfl
    exfalso
    obtain ⟨x, hx, rfl⟩ := g.runIn _ hr
    obtain ⟨x', hx', rfl⟩ := g.runIn _ hr'
    have hne : x ≠ x' := fun h => haa (by rw [h])
    -- two different elements with one address contradict `nodup`
    have : ∀ (l : List Elem), l.Pairwise (fun e e' => addrOf env e ≠ addrOf env e') →
        x ∈ l → x' ∈ l → False := by
      intro l hl
      induction l with
      | nil => intro h; cases h
      | cons y ys ih =>
        rw [List.pairwise_cons] at hl
        intro h1 h2
        rcases List.mem_cons.mp h1 with e1 | h1'
        · rcases List.mem_cons.mp h2 with e2 | h2'
          · exact hne (e1.trans e2.symm)
          · subst e1; exact hl.1 _ h2' hadr
        · rcases List.mem_cons.mp h2 with e2 | h2'
          · subst e2; exact hl.1 _ h1' hadr.symm
          · exact ih hl.2 h1' h2'
    exact this reg g.nodup hx hx'
  · exact .inl (.inr (by simpa using hadr))

theorem allStopped_of_G {env : Env} {h : Hist} (g : G env [] h) : allStopped h = true := by
  simp only [allStopped, List.all_eq_true, Bool.not_eq_true']
  intro a _
  cases hr : running a h
  · rfl
  · obtain ⟨x, hx, _⟩ := g.runIn a hr; cases hx

theorem budgetRespected_of_G {env : Env} {reg : List Elem} {h : Hist} (g : G env reg h) :
    budgetRespected env.cfg env.budget h = true := by
  simp only [budgetRespected, List.all_eq_true, Bool.or_eq_true]
  intro a _
  cases hp : (env.cfg a).permanent
  · exact .inr (g.bud a hp)
  · exact .inl rfl

/-! ### the retry pass starts every waiting permanent adapter exactly once -/

/-- the pass calls `Start()` on this element -/
def startable (env : Env) (e : Elem) : Bool :=
  decide (0 ≤ e.ttl) && !(decide (e.ttl = 0) && !(env.cfg e.conv).permanent)

theorem tickList_starts {env : Env} (hf : env.fixed = true) (a : Nat) :
    ∀ (es : List Elem) (h : Hist),
      startsInStep a (tickList env es h).2 =
        startsInStep a h + (es.filter (fun e => e.conv == a && startable env e)).length := by
  intro es
  induction es with
  | nil => intro h; simp [tickList]
  | cons e es ih =>
    intro h
    unfold tickList
    split
    · next hact =>
      have hns : startable env e = false := by simp [startable]; intro; omega
      simp [ih, hns]
    · next hact =>
      simp only [activate_eq env hf]
      split
      · next hcond =>
        have hns : startable env e = false := by
          rcases hcond with h | h
          · exact absurd h hact
          · simp [startable, h.1, h.2]
        simp [ih, hns]
      · next hcond =>
        have hs : startable env e = true := by
          simp only [not_or, not_and] at hcond
          simp only [startable, Bool.and_eq_true, decide_eq_true_eq, Bool.not_eq_true',
            Bool.and_eq_false_iff, decide_eq_false_iff_not, Bool.not_eq_false']
          refine ⟨by omega, ?_⟩
          by_cases h0 : e.ttl = 0
          · right; have := hcond.2 h0; simpa using this
          · left; exact h0
        have key : ∀ r : Ans, startsInStep a (tickList env es (.start e.conv r :: h)).2 =
            startsInStep a h + (List.filter (fun e => e.conv == a && startable env e) (e :: es)).length := by
          intro r
          rw [ih, List.filter_cons]
          by_cases hc : e.conv = a
          · simp [startsInStep, hc, hs]; omega
          · simp [startsInStep, hc]
        split <;> exact key _

theorem tickList_prev {env : Env} (hf : env.fixed = true) :
    ∀ (es : List Elem) (h : Hist), prev (tickList env es h).2 = prev h := by
  intro es
  induction es with
  | nil => intro h; simp [tickList]
  | cons e es ih =>
    intro h
    unfold tickList
    split
    · simp [ih]
    · simp only [activate_eq env hf]
      split
      · simp [ih]
      · split <;> simp [ih, prev]

theorem count_unique {env : Env} (a : Nat) (q : Elem → Bool) :
    ∀ (reg : List Elem), reg.Pairwise (fun e e' => addrOf env e ≠ addrOf env e') →
      (reg.filter (fun e => e.conv == a && q e)).length ≤ 1 := by
  intro reg
  induction reg with
  | nil => intro _; simp
  | cons y ys ih =>
    intro hp
    rw [List.pairwise_cons] at hp
    rw [List.filter_cons]
    split
    · next hy =>
      have hya : y.conv = a := by simp at hy; exact hy.1
      have : ys.filter (fun e => e.conv == a && q e) = [] := by
        rw [List.filter_eq_nil_iff]
        intro z hz hzp
        have hza : z.conv = a := by simp at hzp; exact hzp.1
        exact hp.1 z hz (by simp [addrOf, hya, hza])
      simp [this]
    · exact ih hp.2

theorem permanentRetried_tick {env : Env} (hf : env.fixed = true) {s : State} (inv : Inv env s)
    (snd rcv : List Nat) (out : Outcome) :
    permanentRetried env.cfg
      ⟨.tick, (tick env { s with hist := .op .tick :: s.hist }).hist, snd, rcv, out⟩ = true := by
  have hprev : prev (tick env { s with hist := .op .tick :: s.hist }).hist = s.hist := by
    unfold tick; split <;> simp [tickList_prev hf, prev]
  simp only [permanentRetried, beq_self_eq_true, Bool.not_true, Bool.false_or, List.all_eq_true,
    Bool.or_eq_true, Bool.not_eq_true', Bool.and_eq_false_iff, beq_iff_eq, hprev]
  intro a _
  cases hp : (env.cfg a).permanent
  · exact .inl (.inl rfl)
  cases hpe : pending a s.hist
  · exact .inl (.inr rfl)
  right
  obtain ⟨x, hx, hxa, hx0⟩ := inv.g.pend a hp hpe
  have hc : s.closed = false := by
    cases hcl : s.closed
    · rfl
    · rw [inv.closedEmpty hcl] at hx; cases hx
  simp only [tick, hc, Bool.false_eq_true, if_false]
  rw [tickList_starts hf]
  have h1 := count_unique a (startable env) s.reg inv.g.nodup
  have h2 : 0 < (s.reg.filter (fun e => e.conv == a && startable env e)).length := by
    apply List.length_pos_of_mem (a := x)
    rw [List.mem_filter]
    refine ⟨hx, ?_⟩
    simp [hxa, startable, hx0, hp]
  simp [startsInStep]
  omega

theorem running_of_not_mem (a : Nat) : ∀ h : Hist, a ∉ adapters h → running a h = false := by
  intro h
  induction h with
  | nil => intro _; rfl
  | cons it h ih =>
    intro hn
    cases it with
    | op o => simp only [adapters] at hn; simpa [running] using ih hn
    | start a' r =>
      simp only [adapters, List.mem_cons, not_or] at hn
      have : a' ≠ a := fun h => hn.1 h.symm
      simpa [running, this] using ih hn.2
    | stop a' =>
      simp only [adapters, List.mem_cons, not_or] at hn
      have : a' ≠ a := fun h => hn.1 h.symm
      simpa [running, this] using ih hn.2

/-! ### restarting a running adapter closes it once and starts it once -/

theorem lookup_unique {env : Env} {reg : List Elem} {x : Elem}
    (hn : reg.Pairwise (fun e e' => addrOf env e ≠ addrOf env e')) (hx : x ∈ reg) :
    lookup env (addrOf env x) reg = some x := by
  cases hl : lookup env (addrOf env x) reg with
  | none => exact absurd rfl (lookup_none hl x hx)
  | some e =>
    obtain ⟨hea, l1, l2, hreg⟩ := lookup_some hl
    rw [hreg] at hn hx
    rcases mem_mid.mp hx with h | h
    · rw [h]
    · exact absurd hea.symm (pw_mid (fun _ _ h => Ne.symm h) hn x h)

theorem lookup_none_of {env : Env} {addr : Nat} {reg : List Elem}
    (h : ∀ y ∈ reg, addrOf env y ≠ addr) : lookup env addr reg = none := by
  unfold lookup
  rw [List.find?_eq_none]
  intro y hy; simpa using h y hy

theorem mem_adapters_of_running (a : Nat) (h : Hist) (hr : running a h = true) : a ∈ adapters h := by
  by_cases hm : a ∈ adapters h
  · exact hm
  · rw [running_of_not_mem a h hm] at hr; cases hr

/-- the model's refusal test, read off the log -/
theorem refused_iff {env : Env} {l1 l2 : List Elem} {x : Elem} {h : Hist}
    (g : G env (l1 ++ x :: l2) h) :
    refused env (l1 ++ l2) x.conv = peerIsReceiver env.cfg x.conv h := by
  have hne : ∀ y ∈ l1 ++ l2, y.conv ≠ x.conv := fun y hy =>
    addr_ne_conv_ne (pw_mid (fun _ _ h => Ne.symm h) g.nodup y hy)
  unfold refused peerIsReceiver
  congr 1
  rw [Bool.eq_iff_iff]
  simp only [List.any_eq_true, Bool.and_eq_true, Elem.active, decide_eq_true_eq, beq_iff_eq,
    bne_iff_ne, ne_eq]
  constructor
  · rintro ⟨y, hy, ⟨⟨hact, hrec⟩, heid⟩⟩
    obtain ⟨_, _, h3, _⟩ := g.el y (mem_mid.mpr (.inr hy))
    have hrun := h3.mp hact
    exact ⟨y.conv, mem_adapters_of_running _ _ hrun, ⟨⟨⟨hne y hy, hrun⟩, hrec⟩, heid⟩⟩
  · rintro ⟨r, _, ⟨⟨⟨hra, hrun⟩, hrec⟩, heid⟩⟩
    obtain ⟨y, hy, rfl⟩ := g.runIn r hrun
    obtain ⟨_, _, h3, _⟩ := g.el y hy
    rcases mem_mid.mp hy with rfl | hy'
    · exact absurd rfl hra
    · exact ⟨y, hy', ⟨⟨h3.mpr hrun, hrec⟩, heid⟩⟩

theorem restart_running {env : Env} (hf : env.fixed = true) {s : State} {a : Nat} (inv : Inv env s)
    (hrun : running a s.hist = true) :
    (peerIsReceiver env.cfg a s.hist || (env.budget == 0 && !(env.cfg a).permanent)) = true ∧
        (restart env s a).hist = .stop a :: s.hist ∨
    (peerIsReceiver env.cfg a s.hist || (env.budget == 0 && !(env.cfg a).permanent)) = false ∧
        ∃ r, (restart env s a).hist = .start a r :: .stop a :: s.hist := by
  obtain ⟨x, hx, hxa⟩ := inv.g.runIn a hrun
  obtain ⟨_, h2, h3, _⟩ := inv.g.el x hx
  have hact : x.ttl < 0 := h3.mpr (by rw [hxa]; exact hrun)
  have hst := h2.mp hact
  have hl : lookup env (env.cfg a).addr s.reg = some x := by
    have := lookup_unique inv.g.nodup hx
    simpa [addrOf, hxa] using this
  obtain ⟨_, l1, l2, hreg⟩ := lookup_some hl
  have g := inv.g
  rw [hreg] at g
  have hc : s.closed = false := by
    cases hcl : s.closed
    · rfl
    · have := inv.closedEmpty hcl; rw [hreg] at this; simp at this
  have hrm : remove env (env.cfg a).addr s.reg = l1 ++ l2 := by
    have := remove_mid g.nodup
    rw [hreg]; simpa [addrOf, hxa] using this
  have hun : unregister env s a = { s with reg := l1 ++ l2, hist := .stop a :: s.hist } := by
    unfold unregister
    simp only [hl, hxa, ne_eq, not_true_eq_false, if_false, deactivate, hact, if_true, hst, hrm]
  have hnone : lookup env (env.cfg a).addr (l1 ++ l2) = none := by
    apply lookup_none_of
    intro y hy
    have := pw_mid (fun _ _ h => Ne.symm h) g.nodup y hy
    simpa [addrOf, hxa] using this
  have href := refused_iff g
  rw [hxa] at href
  unfold restart
  simp only [hun, inv.np, Bool.false_eq_true, if_false, register, hc, hnone, href,
    activate_eq env hf]
  cases hpr : peerIsReceiver env.cfg a s.hist
  · simp only [Bool.false_eq_true, if_false, Bool.false_or]
    by_cases hb : env.budget = 0 ∧ (env.cfg a).permanent = false
    · left
      simp [hb.1, hb.2]
    · right
      have hcond : ¬ ((env.budget : Int) < 0 ∨ ((env.budget : Int) = 0 ∧ (env.cfg a).permanent = false)) := by
        intro h
        rcases h with h | h
        · omega
        · exact hb ⟨by omega, h.2⟩
      simp only [hcond, if_false]
      refine ⟨?_, env.script a (startCount a (.stop a :: s.hist)), ?_⟩
      · cases hp : (env.cfg a).permanent
        · have : env.budget ≠ 0 := fun h => hb ⟨h, hp⟩
          simp [this]
        · simp
      · split <;> rfl
  · left; simp

/-! ### an operation only adds `Start`/`Close` events on top of its marker -/

theorem activate_prev {env : Env} (hf : env.fixed = true) (e : Elem) (h : Hist) :
    prev (activate env e h).hist = prev h := by
  rw [activate_eq env hf]; split <;> simp [prev]

theorem register_prev {env : Env} (hf : env.fixed = true) (s : State) (a : Nat) :
    prev (register env s a).hist = prev s.hist := by
  unfold register
  repeat' split
  all_goals first | rfl | exact activate_prev hf _ _ | (simp only []; split <;> exact activate_prev hf _ _)

theorem deactivate_prev {env : Env} {e e' : Elem} {h h' : Hist}
    (hd : deactivate env e h = some (e', h')) : prev h' = prev h := by
  unfold deactivate at hd
  split at hd
  · split at hd
    · simp only [Option.some.injEq, Prod.mk.injEq] at hd; rw [← hd.2]; simp [prev]
    · cases hd
  · simp only [Option.some.injEq, Prod.mk.injEq] at hd; rw [← hd.2]

theorem unregister_prev {env : Env} (s : State) (a : Nat) :
    prev (unregister env s a).hist = prev s.hist := by
  unfold unregister
  split
  · rfl
  · split
    · rfl
    · split
      · rfl
      · next heq => exact deactivate_prev heq

theorem restart_prev {env : Env} (hf : env.fixed = true) (s : State) (a : Nat) :
    prev (restart env s a).hist = prev s.hist := by
  unfold restart
  simp only []
  split
  · exact unregister_prev s a
  · rw [register_prev hf, unregister_prev]

theorem closeAll_prev {env : Env} : ∀ (es : List Elem) (h h' : Hist),
    closeAll env es h = some h' → prev h' = prev h := by
  intro es
  induction es with
  | nil => intro h h' heq; simp [closeAll] at heq; rw [heq]
  | cons e es ih =>
    intro h h' heq
    unfold closeAll at heq
    split at heq
    · cases heq
    · next hd => rw [ih _ _ heq, deactivate_prev hd]

theorem prev_step {env : Env} (hf : env.fixed = true) (s : State) (o : Op) (hnp : s.panicked = false) :
    prev (step env s o).hist = s.hist := by
  unfold step
  simp only [hnp, Bool.false_eq_true, if_false]
  cases o with
  | register a => rw [register_prev hf]; rfl
  | unregister a => rw [unregister_prev]; rfl
  | restart a => rw [restart_prev hf]; rfl
  | tick =>
    simp only [tick]
    split
    · rfl
    · simp [tickList_prev hf, prev]
  | peerDisappeared a =>
    simp only
    split
    · rfl
    · rw [restart_prev hf]; rfl
  | close =>
    simp only [close]
    split
    · rfl
    · split
      · rfl
      · next h heq => simp only; rw [closeAll_prev _ _ _ heq]; rfl

theorem restartRestarts_restart {env : Env} (hf : env.fixed = true) {s : State} (inv : Inv env s)
    (o : Op) (a : Nat) (ho : o = .restart a ∨ o = .peerDisappeared a) (snd rcv : List Nat) :
    restartRestarts env.cfg env.budget
      ⟨o, (restart env { s with hist := .op o :: s.hist } a).hist, snd, rcv, .ok⟩ = true := by
  have inv0 : Inv env { s with hist := .op o :: s.hist } :=
    ⟨inv.g.mark o, inv.np, inv.closedEmpty, fun h => List.mem_cons_of_mem _ (inv.closedMark h)⟩
  have hprev : prev (restart env { s with hist := .op o :: s.hist } a).hist = s.hist := by
    rw [restart_prev hf]; rfl
  have key : (!running a s.hist ||
      (stopsInStep a (restart env { s with hist := .op o :: s.hist } a).hist == 1 &&
        startsInStep a (restart env { s with hist := .op o :: s.hist } a).hist ==
          (if (peerIsReceiver env.cfg a s.hist || (env.budget == 0 && !(env.cfg a).permanent)) = true
            then 0 else 1))) = true := by
    cases hrun : running a s.hist
    · rfl
    · have hrun0 : running a (.op o :: s.hist) = true := by simpa [running] using hrun
      have hpi : peerIsReceiver env.cfg a (.op o :: s.hist) = peerIsReceiver env.cfg a s.hist := by
        simp [peerIsReceiver, adapters, running]
      rcases restart_running hf inv0 hrun0 with ⟨hc, hh⟩ | ⟨hc, r, hh⟩
      · rw [hpi] at hc
        simp only [hh, hc, if_true]
        simp [stopsInStep, startsInStep]
      · rw [hpi] at hc
        simp only [hh, hc]
        simp [stopsInStep, startsInStep]
  rcases ho with rfl | rfl <;> simpa [restartRestarts, hprev] using key

/-! ### every observation of every trace satisfies the Spec -/

theorem step_close_closed {env : Env} {s : State} (hnp : s.panicked = false) :
    (step env s .close).closed = true := by
  unfold step close
  simp only [hnp, Bool.false_eq_true, if_false]
  split
  · next h => simpa using h
  · split <;> rfl

theorem step_obs {env : Env} (hf : env.fixed = true) {s : State} (inv : Inv env s) (o : Op) :
    obsOk env.cfg env.budget (obsOf env o (step env s o)) = true ∧
      ((step env s o).panicked = false → Inv env (step env s o)) := by
  by_cases hbad : o = .close ∧ s.closed = true
  · obtain ⟨rfl, hcl⟩ := hbad
    have hs : step env s .close = { s with hist := .op .close :: s.hist, panicked := true } := by
      unfold step close
      simp [inv.np, hcl]
    rw [hs]
    refine ⟨?_, fun h => by simp at h⟩
    have hm := inv.closedMark hcl
    simp [obsOf, obsOk, noPanic, prev, hm]
  · have inv' := step_inv hf inv o hbad
    refine ⟨?_, fun _ => inv'⟩
    simp only [obsOf, inv'.np, Bool.false_eq_true, if_false, obsOk, noPanic, Bool.true_and,
      bne_self_eq_false, Bool.false_or, Bool.and_eq_true]
    refine ⟨⟨⟨⟨⟨⟨activeIffStarted_of_G inv'.g o, inv'.g.disc⟩, ?_⟩, budgetRespected_of_G inv'.g⟩, ?_⟩,
      singleInstance_of_G inv'.g⟩, ?_⟩
    · -- close stops everything
      simp only [closeStops, Bool.or_eq_true, Bool.not_eq_true', beq_eq_false_iff_ne]
      by_cases ho : o = .close
      · subst ho
        right
        have hemp := inv'.closedEmpty (step_close_closed inv.np)
        have g := inv'.g
        rw [hemp] at g
        exact allStopped_of_G g
      · exact .inl ho
    · by_cases ho : o = .tick
      · subst ho
        have := permanentRetried_tick hf inv (sendersOf env (step env s .tick))
          (receiversOf env (step env s .tick)) .ok
        have hs : (step env s .tick).hist = (tick env { s with hist := .op .tick :: s.hist }).hist := by
          unfold step; simp [inv.np]
        rw [hs]; exact this
      · simp [permanentRetried, ho]
    · cases o with
      | restart a =>
        have hs : (step env s (.restart a)).hist =
            (restart env { s with hist := .op (.restart a) :: s.hist } a).hist := by
          unfold step; simp [inv.np]
        rw [hs]
        exact restartRestarts_restart hf inv _ a (.inl rfl) _ _
      | peerDisappeared a =>
        by_cases hcl : s.closed = true
        · have hs : (step env s (.peerDisappeared a)).hist = .op (.peerDisappeared a) :: s.hist := by
            unfold step; simp [inv.np, hcl]
          have hr : running a s.hist = false := by
            cases hr : running a s.hist
            · rfl
            · obtain ⟨x, hx, _⟩ := inv.g.runIn a hr
              rw [inv.closedEmpty hcl] at hx; cases hx
          simp [restartRestarts, hs, prev, hr]
        · have hs : (step env s (.peerDisappeared a)).hist =
              (restart env { s with hist := .op (.peerDisappeared a) :: s.hist } a).hist := by
            unfold step; simp [inv.np, hcl]
          rw [hs]
          exact restartRestarts_restart hf inv _ a (.inr rfl) _ _
      | _ => rfl

theorem runObs_ok {env : Env} (hf : env.fixed = true) :
    ∀ (ops : List Op) (s : State), Inv env s →
      ∀ o ∈ runObs env s ops, obsOk env.cfg env.budget o = true := by
  intro ops
  induction ops with
  | nil => intro s _ o ho; cases ho
  | cons op ops ih =>
    intro s inv o ho
    obtain ⟨h1, h2⟩ := step_obs hf inv op
    simp only [runObs, List.mem_cons] at ho
    rcases ho with rfl | ho
    · exact h1
    · cases hp : (step env s op).panicked
      · simp only [hp, Bool.false_eq_true, if_false] at ho
        exact ih _ (h2 hp) o ho
      · simp [hp] at ho

/-! ### reachable states -/

theorem run_panicked {env : Env} : ∀ (ops : List Op) (s : State), s.panicked = true →
    (run env s ops).panicked = true := by
  intro ops
  induction ops with
  | nil => intro s h; exact h
  | cons o os ih =>
    intro s h
    have : step env s o = s := by unfold step; simp [h]
    simp only [run, this]
    exact ih s h

theorem run_inv {env : Env} (hf : env.fixed = true) : ∀ (ops : List Op) (s : State), Inv env s →
    (run env s ops).panicked = false → Inv env (run env s ops) := by
  intro ops
  induction ops with
  | nil => intro s inv _; exact inv
  | cons o os ih =>
    intro s inv hnp
    simp only [run] at hnp ⊢
    cases hp : (step env s o).panicked
    · exact ih _ ((step_obs hf inv o).2 hp) hnp
    · rw [run_panicked os _ hp] at hnp; cases hnp

theorem run_append {env : Env} : ∀ (ops : List Op) (s : State) (o : Op),
    run env s (ops ++ [o]) = step env (run env s ops) o := by
  intro ops
  induction ops with
  | nil => intro s o; rfl
  | cons x xs ih => intro s o; simp only [List.cons_append, run]; exact ih _ o

/-- with the Start/Close discipline every successful start is matched by exactly one close, except
the one that is still running -/
theorem discipline_balance (a : Nat) : ∀ h : Hist, discipline h = true →
    okStarts a h = stops a h + (running a h).toNat := by
  intro h
  induction h with
  | nil => intro _; simp [okStarts, stops, running]
  | cons it h ih =>
    intro hd
    cases it with
    | op o =>
      have := ih (by simpa [discipline] using hd)
      simp only [okStarts, stops, running]; exact this
    | start a' r =>
      simp only [discipline, Bool.and_eq_true, Bool.not_eq_true'] at hd
      have := ih hd.2
      by_cases hc : a' = a
      · subst hc
        simp only [hd.1, Bool.toNat_false, Nat.add_zero] at this
        cases r <;> simp [okStarts, stops, running, this] <;> omega
      · simp only [okStarts, stops, running, hc, false_and, if_false, Nat.zero_add]; exact this
    | stop a' =>
      simp only [discipline, Bool.and_eq_true] at hd
      have := ih hd.2
      by_cases hc : a' = a
      · subst hc
        simp only [hd.1, Bool.toNat_true] at this
        simp only [okStarts, stops, running, if_true, Bool.toNat_false]; omega
      · simp only [okStarts, stops, running, hc, if_false, Nat.zero_add]; exact this

/-- no `deactivate` of a registered element can panic -/
theorem deactivate_defined {env : Env} {s : State} (inv : Inv env s) :
    ∀ e ∈ s.reg, deactivate env e s.hist ≠ none := by
  intro e he
  obtain ⟨_, h2, _, _⟩ := inv.g.el e he
  unfold deactivate
  split
  · next hact => rw [h2.mp hact]; simp
  · simp

/-- registering another instance of an address whose registered instance is running changes
nothing and calls nothing -/
theorem register_second_instance {env : Env} {s : State} (inv : Inv env s) {a a' : Nat}
    (haddr : (env.cfg a').addr = (env.cfg a).addr) (hrun : running a s.hist = true) :
    step env s (.register a') = { s with hist := .op (.register a') :: s.hist } := by
  obtain ⟨x, hx, hxa⟩ := inv.g.runIn a hrun
  obtain ⟨_, _, h3, _⟩ := inv.g.el x hx
  have hact : x.ttl < 0 := h3.mpr (by rw [hxa]; exact hrun)
  have hnp : ¬ (s.panicked = true) := by simp [inv.np]
  unfold step
  rw [if_neg hnp]
  simp only [register]
  split
  · rfl
  · cases hl : lookup env (env.cfg a').addr s.reg with
    | none =>
      exact absurd (by simp [addrOf, hxa, haddr]) (lookup_none hl x hx)
    | some e =>
      obtain ⟨hea, l1, l2, hreg⟩ := lookup_some hl
      have : e = x := by
        have hn := inv.g.nodup
        rw [hreg] at hn hx
        rcases mem_mid.mp hx with h | h
        · exact h.symm
        · exact absurd (by rw [hea]; simp [addrOf, hxa, haddr] : addrOf env x = addrOf env e)
            (pw_mid (fun _ _ h => Ne.symm h) hn x h)
      subst this
      simp [hact]

/-! ### one failing adapter alone: exact attempt counts -/

theorem step_tick_single {env : Env} (hf : env.fixed = true) {s : State} {a t : Nat}
    (hreg : s.reg = [⟨a, (t : Int), .absent⟩]) (hc : s.closed = false) (hp : s.panicked = false)
    (hs : env.script a (startCount a s.hist) = .failRetry) :
    step env s .tick =
      if t = 0 ∧ (env.cfg a).permanent = false then { s with reg := [], hist := .op .tick :: s.hist }
      else { s with reg := [⟨a, ((t - 1 : Nat) : Int), .absent⟩],
                    hist := .start a .failRetry :: .op .tick :: s.hist } := by
  have hcnt : startCount a (.op .tick :: s.hist) = startCount a s.hist := by simp [startCount]
  unfold step tick
  simp only [hp, hc, Bool.false_eq_true, if_false, hreg, tickList, activate_eq env hf]
  have h0 : ¬ ((t : Int) < 0) := by omega
  simp only [h0, if_false, false_or, hcnt, hs]
  by_cases hcond : t = 0 ∧ (env.cfg a).permanent = false
  · have : (t : Int) = 0 ∧ (env.cfg a).permanent = false := ⟨by omega, hcond.2⟩
    simp [hcond]
  · have : ¬ ((t : Int) = 0 ∧ (env.cfg a).permanent = false) := by
      intro h; exact hcond ⟨by omega, h.2⟩
    simp only [this, hcond, if_false]
    simp [afterStart]
    split <;> omega

theorem step_register_fresh {env : Env} (hf : env.fixed = true) {a : Nat}
    (hs : env.script a 0 = .failRetry) :
    step env {} (.register a) =
      if env.budget = 0 ∧ (env.cfg a).permanent = false then
        { hist := [.op (.register a)] }
      else { reg := [⟨a, ((env.budget - 1 : Nat) : Int), .absent⟩],
             hist := [.start a .failRetry, .op (.register a)] } := by
  unfold step register
  simp only [Bool.false_eq_true, if_false, lookup, List.find?_nil, refused, List.any_nil,
    Bool.and_false, activate_eq env hf]
  have h0 : ¬ ((env.budget : Int) < 0) := by omega
  simp only [h0, false_or, startCount, hs]
  by_cases hcond : env.budget = 0 ∧ (env.cfg a).permanent = false
  · have : (env.budget : Int) = 0 ∧ (env.cfg a).permanent = false := ⟨by omega, hcond.2⟩
    simp [hcond]
  · have : ¬ ((env.budget : Int) = 0 ∧ (env.cfg a).permanent = false) := by
      intro h; exact hcond ⟨by omega, h.2⟩
    simp only [this, hcond, if_false]
    simp [afterStart]
    split <;> omega

theorem step_tick_empty {env : Env} {s : State} (hreg : s.reg = []) (hp : s.panicked = false) :
    step env s .tick = { s with hist := .op .tick :: s.hist } := by
  unfold step tick
  simp only [hp, Bool.false_eq_true, if_false, hreg, tickList]
  split <;> simp

theorem register_ticks_eq (a : Nat) (n : Nat) :
    (Op.register a :: List.replicate (n + 1) Op.tick) =
      (Op.register a :: List.replicate n Op.tick) ++ [Op.tick] := by
  rw [List.replicate_succ']; rfl

/-- a non-permanent adapter that always fails retryably: `register` then `n` retry ticks -/
theorem budget_run {env : Env} (hf : env.fixed = true) {a : Nat}
    (hnp : (env.cfg a).permanent = false) (hs : ∀ k, env.script a k = .failRetry) :
    ∀ n : Nat,
      (run env {} (.register a :: List.replicate n .tick)).panicked = false ∧
      (run env {} (.register a :: List.replicate n .tick)).closed = false ∧
      startCount a (run env {} (.register a :: List.replicate n .tick)).hist = min (n + 1) env.budget ∧
      (run env {} (.register a :: List.replicate n .tick)).reg =
        (if n < env.budget then [⟨a, ((env.budget - (n + 1) : Nat) : Int), .absent⟩] else []) := by
  intro n
  induction n with
  | zero =>
    simp only [List.replicate_zero, run, step_register_fresh hf (hs 0), hnp, and_true]
    by_cases hb : env.budget = 0
    · simp [hb, startCount]
    · have : 0 < env.budget := by omega
      simp [hb, startCount, this]; omega
  | succ n ih =>
    obtain ⟨h1, h2, h3, h4⟩ := ih
    rw [register_ticks_eq, run_append]
    generalize run env {} (.register a :: List.replicate n .tick) = s at h1 h2 h3 h4
    by_cases hlt : n < env.budget
    · simp only [hlt, if_true] at h4
      rw [step_tick_single hf h4 h2 h1 (hs _)]
      by_cases ht : env.budget - (n + 1) = 0
      · have : ¬ (n + 1 < env.budget) := by omega
        simp only [ht, hnp, and_self, if_true, h1, h2, startCount, h3, this, if_false, true_and]
        exact ⟨by omega, trivial⟩
      · have : n + 1 < env.budget := by omega
        simp only [ht, false_and, if_false, h1, h2, startCount, h3, this, if_true, true_and]
        refine ⟨by omega, ?_⟩
        congr 3
    · simp only [hlt, if_false] at h4
      rw [step_tick_empty h4 h1]
      have : ¬ (n + 1 < env.budget) := by omega
      simp only [h1, h2, startCount, h3, h4, this, if_false, true_and, and_true]
      omega

/-- a permanent adapter that always fails retryably: `register` then `n` retry ticks -/
theorem permanent_run {env : Env} (hf : env.fixed = true) {a : Nat}
    (hperm : (env.cfg a).permanent = true) (hs : ∀ k, env.script a k = .failRetry) :
    ∀ n : Nat,
      (run env {} (.register a :: List.replicate n .tick)).panicked = false ∧
      (run env {} (.register a :: List.replicate n .tick)).closed = false ∧
      startCount a (run env {} (.register a :: List.replicate n .tick)).hist = n + 1 ∧
      (run env {} (.register a :: List.replicate n .tick)).reg =
        [⟨a, ((env.budget - (n + 1) : Nat) : Int), .absent⟩] := by
  intro n
  induction n with
  | zero =>
    simp [run, step_register_fresh hf (hs 0), hperm, startCount]
  | succ n ih =>
    obtain ⟨h1, h2, h3, h4⟩ := ih
    rw [register_ticks_eq, run_append]
    generalize run env {} (.register a :: List.replicate n .tick) = s at h1 h2 h3 h4
    rw [step_tick_single hf h4 h2 h1 (hs _)]
    simp only [hperm, Bool.true_eq_false, and_false, if_false, h1, h2, startCount, h3, if_true,
      true_and]
    refine ⟨by omega, ?_⟩
    congr 2

/-! ### panics: only a second `Close` -/

theorem step_closed_of_ne {env : Env} (s : State) (o : Op) (ho : o ≠ .close) :
    (step env s o).closed = s.closed := by
  have hreg : ∀ (s : State) (a : Nat), (register env s a).closed = s.closed := by
    intro s a
    unfold register
    repeat' split
    all_goals first | rfl | (simp only []; split <;> rfl)
  have hunreg : ∀ (s : State) (a : Nat), (unregister env s a).closed = s.closed := by
    intro s a
    unfold unregister
    repeat' split
    all_goals rfl
  have hrest : ∀ (s : State) (a : Nat), (restart env s a).closed = s.closed := by
    intro s a
    unfold restart
    simp only []
    split
    · exact hunreg s a
    · rw [hreg, hunreg]
  unfold step
  split
  · rfl
  · cases o with
    | register a => exact hreg _ a
    | unregister a => exact hunreg _ a
    | restart a => exact hrest _ a
    | tick => simp only [tick]; split <;> rfl
    | peerDisappeared a =>
      simp only
      split
      · rfl
      · exact hrest _ a
    | close => exact absurd rfl ho

theorem run_single_close {env : Env} (hf : env.fixed = true) :
    ∀ (ops : List Op) (s : State), Inv env s →
      (s.closed = false ∧ ops.count .close ≤ 1 ∨ s.closed = true ∧ ops.count .close = 0) →
      (run env s ops).panicked = false := by
  intro ops
  induction ops with
  | nil => intro s inv _; exact inv.np
  | cons o os ih =>
    intro s inv hcnt
    simp only [run]
    by_cases ho : o = .close
    · subst ho
      simp only [List.count_cons_self] at hcnt
      rcases hcnt with ⟨hc, hle⟩ | ⟨_, h0⟩
      · have inv' := step_inv hf inv .close (by simp [hc])
        exact ih _ inv' (.inr ⟨step_close_closed inv.np, by omega⟩)
      · omega
    · have inv' := step_inv hf inv o (by simp [ho])
      have hcl := step_closed_of_ne (env := env) s o ho
      have hco : (o :: os).count .close = os.count .close := by
        rw [List.count_cons]; simp [ho]
      rw [hco] at hcnt
      exact ih _ inv' (by rw [hcl]; exact hcnt)

theorem balanced_of_allStopped {h : Hist} (hd : discipline h = true) (hs : allStopped h = true)
    (a : Nat) : okStarts a h = stops a h := by
  have hr : running a h = false := by
    by_cases hm : a ∈ adapters h
    · simp only [allStopped, List.all_eq_true, Bool.not_eq_true'] at hs
      exact hs a hm
    · exact running_of_not_mem a h hm
  have := discipline_balance a h hd
  simpa [hr] using this

/-- the clauses of `obsOk` for an operation that returned -/
theorem obsOk_clauses {cfg : Nat → Cfg} {b : Nat} {o : Obs} (h : obsOk cfg b o = true)
    (hok : o.outcome = .ok) :
    activeIffStarted cfg o = true ∧ discipline o.hist = true ∧ closeStops o = true ∧
      budgetRespected cfg b o.hist = true ∧ permanentRetried cfg o = true ∧
      singleInstance cfg o.hist = true ∧ restartRestarts cfg b o = true := by
  simp only [obsOk, hok, bne_self_eq_false, Bool.false_or, Bool.and_eq_true] at h
  obtain ⟨_, ⟨⟨⟨⟨⟨h1, h2⟩, h3⟩, h4⟩, h5⟩, h6⟩, h7⟩ := h
  exact ⟨h1, h2, h3, h4, h5, h6, h7⟩

end Dtn7.ClaManager
