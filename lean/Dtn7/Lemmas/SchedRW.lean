/-
Proofs about the RW-mutex interleaving semantics of `Dtn7.Model.SchedRW` (core Lean only).
Main result: `protected_imp_race_free`.
-/
import Dtn7.Model.SchedRW

namespace Dtn7.Lemmas.SchedRW
open Dtn7.SchedRW

variable {L : Type} [DecidableEq L]

/-- The invariant carried along every schedule: each thread's remaining steps obey the lock
discipline from the mode it holds, and a writer excludes every other holder. -/
def Inv (ℓ : L) (s : State L) : Prop :=
  (∀ (i : Nat) (th : Thread L), s[i]? = some th → (wlEnd ℓ th.held th.rest).isSome = true) ∧
  (∀ (i j : Nat) (thi thj : Thread L), i ≠ j → s[i]? = some thi → s[j]? = some thj →
    thi.held = Mode.W → thj.held = Mode.none)

theorem wl_step (ℓ : L) (h : Mode) (st : Step L) (rest : List (Step L))
    (hw : (wlEnd ℓ h (st :: rest)).isSome = true) :
    (wlEnd ℓ (modeAfter h st) rest).isSome = true := by
  cases st <;> simp only [wlEnd, modeAfter] at hw ⊢
  · split at hw
    · exact hw
    · simp at hw
  · split at hw
    · exact hw
    · simp at hw
  · split at hw
    · simp at hw
    · exact hw
  · split at hw
    · simp at hw
    · exact hw
  · split at hw
    · simp at hw
    · exact hw

theorem wl_acq_none (ℓ : L) (h : Mode) (st : Step L) (rest : List (Step L))
    (hw : (wlEnd ℓ h (st :: rest)).isSome = true) (ha : st = .acqR ∨ st = .acqW) : h = .none := by
  rcases ha with rfl | rfl <;> simp only [wlEnd] at hw <;> (split at hw; assumption; simp at hw)

theorem inv_init (ℓ : L) (progs : List (List (Step L)))
    (hp : ∀ p ∈ progs, (wlEnd ℓ .none p).isSome = true) : Inv ℓ (init progs) := by
  constructor
  · intro i th hi
    simp only [init, List.getElem?_map, Option.map_eq_some_iff] at hi
    obtain ⟨p, hp', rfl⟩ := hi
    exact hp p (List.mem_of_getElem? hp')
  · intro i j thi thj _ _ hj _
    simp only [init, List.getElem?_map, Option.map_eq_some_iff] at hj
    obtain ⟨p, _, rfl⟩ := hj
    rfl

theorem inv_step (ℓ : L) (s s' : State L) (i : Nat) (hs : stepAt s i = some s') (hinv : Inv ℓ s) :
    Inv ℓ s' := by
  unfold stepAt at hs
  split at hs
  next h st rest hi =>
    split at hs
    next hen =>
      injection hs with hs
      subst hs
      obtain ⟨hwl, hex⟩ := hinv
      have hilt : i < s.length := by
        rcases Nat.lt_or_ge i s.length with h | h
        · exact h
        · simp [List.getElem?_eq_none h] at hi
      have hwi := hwl i _ hi
      constructor
      · intro k th hk
        rw [List.getElem?_set] at hk
        split at hk
        next hik =>
          injection hk with hk
          subst hk
          exact wl_step ℓ h st rest hwi
        next hik => exact hwl k th hk
      · intro a b tha thb hab ha hb hW
        rw [List.getElem?_set] at ha hb
        split at ha
        next hia =>
          -- a = i : thread i now holds W, so it just acquired it or held it before
          subst hia
          injection ha with ha
          subst ha
          have hbi : ¬ i = b := hab
          simp only [hbi, if_false] at hb
          simp only at hW
          cases st with
          | acqW =>
            simp only [enabledStep, List.all_eq_true, beq_iff_eq] at hen
            exact hen thb (List.mem_of_getElem? hb)
          | acqR => simp [modeAfter] at hW
          | rel => simp [modeAfter] at hW
          | read l => exact hex i b _ thb hab hi hb (by simpa [modeAfter] using hW)
          | write l => exact hex i b _ thb hab hi hb (by simpa [modeAfter] using hW)
        next hia =>
          split at hb
          next hib =>
            -- b = i : somebody else holds W while thread i moves
            subst hib
            injection hb with hb
            subst hb
            have hnone : h = .none := hex a i tha _ hab ha hi hW
            simp only
            cases st with
            | acqW =>
              simp only [enabledStep, List.all_eq_true, beq_iff_eq] at hen
              have := hen tha (List.mem_of_getElem? ha)
              rw [hW] at this
              cases this
            | acqR =>
              simp only [enabledStep, List.all_eq_true, bne_iff_ne] at hen
              exact absurd hW (hen tha (List.mem_of_getElem? ha))
            | rel => rfl
            | read l => simpa [modeAfter] using hnone
            | write l => simpa [modeAfter] using hnone
          next hib => exact hex a b tha thb hab ha hb hW
    next => simp at hs
  next => simp at hs

theorem inv_exec (ℓ : L) (σ : List Nat) : ∀ (s s' : State L), exec s σ = some s' → Inv ℓ s → Inv ℓ s' := by
  induction σ with
  | nil => intro s s' h hi; simp only [exec] at h; injection h with h; exact h ▸ hi
  | cons i σ ih =>
    intro s s' h hi
    simp only [exec] at h
    cases hst : stepAt s i with
    | none => simp [hst] at h
    | some s1 =>
      simp only [hst, Option.bind_some] at h
      exact ih s1 s' h (inv_step ℓ s s1 i hst hi)

theorem inv_not_racy (ℓ : L) (s : State L) (hinv : Inv ℓ s) : ¬ Racy ℓ s := by
  rintro ⟨i, j, a, b, hij, ha, hb, hwa, hab⟩
  obtain ⟨hwl, hex⟩ := hinv
  simp only [next, Option.bind_eq_some_iff] at ha hb
  obtain ⟨thi, hi, hai⟩ := ha
  obtain ⟨thj, hj, hbj⟩ := hb
  have hwi := hwl i thi hi
  have hwj := hwl j thj hj
  obtain ⟨hi', ri⟩ := thi
  obtain ⟨hj', rj⟩ := thj
  cases ri with
  | nil => simp at hai
  | cons a' ri =>
    cases rj with
    | nil => simp at hbj
    | cons b' rj =>
      simp only [List.head?_cons, Option.some.injEq] at hai hbj
      subst hai hbj
      -- the writer holds W
      have hW : hi' = .W := by
        cases a' with
        | write l =>
          simp only [isWriteOf, beq_iff_eq] at hwa
          subst hwa
          simp only [wlEnd] at hwi
          split at hwi
          · simp at hwi
          · next hc => exact Classical.byContradiction fun hne => hc ⟨trivial, hne⟩
        | _ => simp [isWriteOf] at hwa
      have hN : hj' = .none := hex i j _ _ hij hi hj hW
      -- the other access needs the mutex as well
      cases b' with
      | read l =>
        simp only [isAccessOf, beq_iff_eq] at hab
        subst hab
        simp only [wlEnd] at hwj
        split at hwj
        · simp at hwj
        · next hc => exact hc ⟨trivial, hN⟩
      | write l =>
        simp only [isAccessOf, beq_iff_eq] at hab
        subst hab
        simp only [wlEnd] at hwj
        split at hwj
        · simp at hwj
        · next hc => exact hc ⟨trivial, by rw [hN]; decide⟩
      | _ => simp [isAccessOf] at hab

/-- **Protected ⇒ race free.** If every thread's program obeys the lock discipline for location ℓ
(every write to ℓ under the W lock, every read of ℓ under the R or W lock), then in no state
reachable by any feasible schedule a write to ℓ and another access to ℓ by a different thread are
both about to happen. -/
theorem protected_imp_race_free (ℓ : L) (progs : List (List (Step L)))
    (hp : ∀ p ∈ progs, (wlEnd ℓ .none p).isSome = true) (σ : List Nat) (s' : State L)
    (h : exec (init progs) σ = some s') : ¬ Racy ℓ s' :=
  inv_not_racy ℓ s' (inv_exec ℓ σ _ _ h (inv_init ℓ progs hp))

/-! ### From method shapes to programs -/

theorem wlEnd_append (ℓ : L) (p q : List (Step L)) : ∀ h,
    wlEnd ℓ h (p ++ q) = (wlEnd ℓ h p).bind (wlEnd ℓ · q) := by
  induction p with
  | nil => intro h; rfl
  | cons st p ih =>
    intro h
    cases st <;> simp only [List.cons_append, wlEnd] <;> split <;> simp [ih]

theorem wlEnd_accesses (ℓ : L) (h : Mode) (accs as' : List (Step L))
    (hall : accs.all (fun a => isAccess a && (wlEnd ℓ h [a]).isSome) = true)
    (hsub : ∀ a ∈ as', a ∈ accs) : wlEnd ℓ h as' = some h := by
  induction as' with
  | nil => rfl
  | cons a as' ih =>
    have ha := hsub a (List.mem_cons_self ..)
    have hrest := ih fun x hx => hsub x (List.mem_cons_of_mem _ hx)
    rw [List.all_eq_true] at hall
    have := hall a ha
    simp only [Bool.and_eq_true] at this
    obtain ⟨hacc, hok⟩ := this
    cases a with
    | read l =>
      simp only [wlEnd] at hok ⊢
      split
      · next hc => simp [hc] at hok
      · exact hrest
    | write l =>
      simp only [wlEnd] at hok ⊢
      split
      · next hc => simp [hc] at hok
      · exact hrest
    | _ => simp [isAccess] at hacc

theorem path_wlEnd (ℓ : L) (items : List (Item L)) (p : List (Step L)) (hp : Path items p) :
    ∀ h h', shapeEnd ℓ h items = some h' → wlEnd ℓ h p = some h' := by
  induction hp with
  | nil => intro h h' hs; simpa [shapeEnd, wlEnd] using hs
  | @op s is p _ ih =>
    intro h h' hs
    simp only [shapeEnd] at hs
    split at hs
    · simp at hs
    · cases h1 : wlEnd ℓ h [s] with
      | none => simp [h1] at hs
      | some h1' =>
        simp only [h1, Option.bind_some] at hs
        have := wlEnd_append ℓ [s] p h
        simp only [List.singleton_append] at this
        rw [this, h1]
        exact ih h1' h' hs
  | @any accs as' is p hsub _ ih =>
    intro h h' hs
    simp only [shapeEnd] at hs
    split at hs
    · next hall =>
      rw [wlEnd_append, wlEnd_accesses ℓ h accs as' hall hsub]
      exact ih h h' hs
    · simp at hs

/-- Any sequence of calls of balanced, disciplined methods is a disciplined program. -/
theorem progOf_wlEnd (ℓ : L) (methods : List (List (Item L)))
    (hm : ∀ m ∈ methods, shapeEnd ℓ .none m = some .none) (p : List (Step L))
    (hp : ProgOf methods p) : wlEnd ℓ .none p = some .none := by
  induction hp with
  | nil => rfl
  | call hmem hpath _ ih =>
    rw [wlEnd_append, path_wlEnd ℓ _ _ hpath .none .none (hm _ hmem)]
    exact ih

/-- Race freedom for threads that run arbitrary sequences of calls of the given methods. -/
theorem methods_race_free (ℓ : L) (methods : List (List (Item L)))
    (hm : ∀ m ∈ methods, shapeEnd ℓ .none m = some .none)
    (progs : List (List (Step L))) (hp : ∀ p ∈ progs, ProgOf methods p)
    (σ : List Nat) (s' : State L) (h : exec (init progs) σ = some s') : ¬ Racy ℓ s' :=
  protected_imp_race_free ℓ progs
    (fun p hpm => by rw [progOf_wlEnd ℓ methods hm p (hp p hpm)]; rfl) σ s' h

end Dtn7.Lemmas.SchedRW
