import Dtn7.Model.Bundle
import Dtn7.Lemmas.CborExtra
import Dtn7.Lemmas.BundleInv
import Dtn7.Lemmas.BundleTop

/-!
**Extension stability** of the bundle parser: whatever `Bundle.UnmarshalCbor` accepts on a byte string it
accepts, with the same result, when more bytes follow (the extra bytes are appended to the unconsumed rest).
Every decoder reads forward only and decides on what it has read; the break code and the length-delimited
blocks close the bundle. Consequence (with C01's exact consumption): a strict prefix of a bundle's encoding is
never accepted as a bundle (`parse_truncated`).
-/
namespace Dtn7.Bundle.Stable
open Dtn7.Cbor Dtn7.Cbor.Lemmas Dtn7.Eid Dtn7.Bundle Dtn7.Bundle.Lemmas

def Stable {α : Type} (p : Bytes → Except Err (α × Bytes)) : Prop :=
  ∀ bs a r t, p bs = .ok (a, r) → p (bs ++ t) = .ok (a, r ++ t)

/-- Sequencing: a stable first stage followed by a continuation that is stable in its byte argument. -/
theorem bindP_stable {α β : Type} {p : Bytes → Except Err (α × Bytes)} (hp : Stable p) {bs t : Bytes}
    {f g : α → Bytes → Except Err (β × Bytes)} {y : β} {r' : Bytes}
    (hf : ∀ a r, f a r = .ok (y, r') → g a (r ++ t) = .ok (y, r' ++ t))
    (h : bindP (p bs) f = .ok (y, r')) : bindP (p (bs ++ t)) g = .ok (y, r' ++ t) := by
  obtain ⟨a, r, h1, h2⟩ := bindP_eq_ok.mp h
  rw [hp bs a r t h1]
  exact hf a r h2

/-! ### CBOR primitives -/

theorem decHead_stable : ∀ bs m n r t, decHead bs = .ok (m, n, r) → decHead (bs ++ t) = .ok (m, n, r ++ t) := by
  intro bs m n r t h
  cases bs with
  | nil => simp [decHead] at h
  | cons b rest =>
    simp only [List.cons_append, decHead] at h ⊢
    split at h
    · simp at h
    · split at h
      · simp at h
      · rename_i h1 h2
        simp only [h1, h2, ↓reduceIte]
        split at h
        · rename_i ha
          simp only [Except.ok.injEq, Prod.mk.injEq] at h
          simp only [ha, ↓reduceIte, Except.ok.injEq, Prod.mk.injEq]
          exact ⟨h.1, h.2.1, by rw [h.2.2]⟩
        · rename_i ha
          simp only [ha, ↓reduceIte]
          split at h
          · rename_i hb
            simp only [hb, ↓reduceIte]
            split at h
            · simp at h
            · rename_i hl
              have hl' : ¬ (rest ++ t).length < 2 ^ (b.toNat % 32 - 24) := by
                simp only [List.length_append]; omega
              simp only [hl', ↓reduceIte]
              simp only [Except.ok.injEq, Prod.mk.injEq] at h ⊢
              have hle : 2 ^ (b.toNat % 32 - 24) ≤ rest.length := by omega
              refine ⟨h.1, ?_, ?_⟩
              · rw [List.take_append_of_le_length hle]; exact h.2.1
              · rw [List.drop_append_of_le_length hle, h.2.2]
          · simp at h

theorem decExpect_stable (maj : Nat) : Stable (decExpect maj) := by
  intro bs n r t h
  unfold decExpect at h ⊢
  split at h
  · simp at h
  · rename_i m n' r' hd
    rw [decHead_stable bs m n' r' t hd]
    simp only
    split at h
    · rename_i hm
      simp only [Except.ok.injEq, Prod.mk.injEq] at h
      simp only [hm, ↓reduceIte, Except.ok.injEq, Prod.mk.injEq]
      exact ⟨h.1, by rw [h.2]⟩
    · simp at h

theorem decUInt_stable : Stable decUInt := decExpect_stable majUInt
theorem decArray_stable : Stable decArray := decExpect_stable majArray

theorem readRaw_stable (l : Nat) : Stable (readRaw l) := by
  intro bs d r t h
  unfold readRaw at h ⊢
  split at h
  · simp at h
  · rename_i h1
    simp only [h1, ↓reduceIte]
    split at h
    · simp at h
    · rename_i h2
      have h2' : ¬ (bs ++ t).length < l := by simp only [List.length_append]; omega
      simp only [h2', ↓reduceIte]
      simp only [Except.ok.injEq, Prod.mk.injEq] at h ⊢
      have hle : l ≤ bs.length := by omega
      exact ⟨by rw [List.take_append_of_le_length hle]; exact h.1,
        by rw [List.drop_append_of_le_length hle, h.2]⟩

theorem decBytes_stable : Stable decBytes := by
  intro bs d r t h
  unfold decBytes at h ⊢
  split at h
  · simp at h
  · rename_i n r1 he
    rw [decExpect_stable majBytes bs n r1 t he]
    exact readRaw_stable n r1 d r t h

/-! ### endpoint IDs, timestamp, primary block -/

theorem decDtn_stable : Stable decDtn := by
  intro bs e r t h
  unfold decDtn at h ⊢
  split at h
  · simp at h
  · rename_i m n r1 hd
    rw [decHead_stable bs m n r1 t hd]
    simp only
    split at h
    · rename_i hm
      simp only [Except.ok.injEq, Prod.mk.injEq] at h
      simp only [hm, ↓reduceIte, Except.ok.injEq, Prod.mk.injEq]
      exact ⟨h.1, by rw [h.2]⟩
    · rename_i hm
      simp only [hm, ↓reduceIte]
      split at h
      · rename_i hm2
        simp only [hm2, ↓reduceIte]
        refine bindP_stable (readRaw_stable n) ?_ h
        intro ssp r2 h
        split at h
        · rename_i node demux hp
          simp only [Except.ok.injEq, Prod.mk.injEq] at h
          simp only [hp, Except.ok.injEq, Prod.mk.injEq]
          exact ⟨h.1, by rw [h.2]⟩
        · simp at h
      · simp at h

theorem decIpn_stable : Stable decIpn := by
  intro bs e r t h
  unfold decIpn at h ⊢
  refine bindP_stable decArray_stable ?_ h
  intro l r1 h
  split at h
  · simp at h
  · rename_i hl
    simp only [hl, ↓reduceIte]
    refine bindP_stable decUInt_stable ?_ h
    intro n r2 h
    refine bindP_stable decUInt_stable ?_ h
    intro s r3 h
    simp only [Except.ok.injEq, Prod.mk.injEq] at h ⊢
    exact ⟨h.1, by rw [h.2]⟩

theorem decEid_stable : Stable decEid := by
  intro bs e r t h
  unfold decEid at h ⊢
  refine bindP_stable decArray_stable ?_ h
  intro l r1 h
  split at h
  · simp at h
  · rename_i hl
    simp only [hl, ↓reduceIte]
    refine bindP_stable decUInt_stable ?_ h
    intro sc r2 h
    split at h
    · rename_i h1
      simp only [h1, ↓reduceIte]
      exact decDtn_stable r2 e r t h
    · rename_i h1
      simp only [h1, ↓reduceIte]
      split at h
      · rename_i h2
        simp only [h2, ↓reduceIte]
        exact decIpn_stable r2 e r t h
      · simp at h

theorem decTimestamp_stable : Stable decTimestamp := by
  intro bs a r t h
  unfold decTimestamp at h ⊢
  refine bindP_stable decArray_stable ?_ h
  intro l r1 h
  split at h
  · simp at h
  · rename_i hl
    simp only [hl, ↓reduceIte]
    refine bindP_stable decUInt_stable ?_ h
    intro n r2 h
    refine bindP_stable decUInt_stable ?_ h
    intro s r3 h
    simp only [Except.ok.injEq, Prod.mk.injEq] at h ⊢
    exact ⟨h.1, by rw [h.2]⟩

theorem decPrimaryFields_stable (strict : Bool) : Stable (decPrimaryFields strict) := by
  intro bs a r t h
  unfold decPrimaryFields at h ⊢
  refine bindP_stable decArray_stable ?_ h
  intro bl r1 h
  split at h
  · simp at h
  · rename_i hbl
    simp only [hbl, ↓reduceIte]
    refine bindP_stable decUInt_stable ?_ h
    intro ver r2 h
    split at h
    · simp at h
    · rename_i hver
      simp only [hver, ↓reduceIte]
      refine bindP_stable decUInt_stable ?_ h
      intro flags r3 h
      refine bindP_stable decUInt_stable ?_ h
      intro ct r4 h
      split at h
      · simp at h
      · rename_i hst
        simp only [hst, ↓reduceIte]
        refine bindP_stable decEid_stable ?_ h
        intro dst r5 h
        refine bindP_stable decEid_stable ?_ h
        intro src r6 h
        refine bindP_stable decEid_stable ?_ h
        intro rpt r7 h
        refine bindP_stable decTimestamp_stable ?_ h
        intro ts r8 h
        refine bindP_stable decUInt_stable ?_ h
        intro lt r9 h
        obtain ⟨ft, r10, h1, h2⟩ := bindP_eq_ok.mp h
        have h1' : (if bl = 10 ∨ bl = 11 then
              bindP (decUInt (r9 ++ t)) fun off r => bindP (decUInt r) fun tot r => .ok ((off, tot), r)
            else .ok ((0, 0), r9 ++ t)) = .ok (ft, r10 ++ t) := by
          by_cases hb : bl = 10 ∨ bl = 11
          · simp only [hb, ↓reduceIte] at h1 ⊢
            refine bindP_stable decUInt_stable ?_ h1
            intro off r11 h
            refine bindP_stable decUInt_stable ?_ h
            intro tot r12 h
            simp only [Except.ok.injEq, Prod.mk.injEq] at h ⊢
            exact ⟨h.1, by rw [h.2]⟩
          · simp only [hb, ↓reduceIte, Except.ok.injEq, Prod.mk.injEq] at h1 ⊢
            exact ⟨h1.1, by rw [h1.2]⟩
        rw [h1']
        simp only [bindP_ok, Except.ok.injEq, Prod.mk.injEq] at h2 ⊢
        exact ⟨h2.1, by rw [h2.2]⟩

theorem consumed_ext (bs r t : Bytes) : consumed (bs ++ t) (r ++ t) = consumed bs r := by
  unfold consumed
  simp only [List.length_append]
  have : bs.length + t.length - (r.length + t.length) = bs.length - r.length := by omega
  rw [this, List.take_append_of_le_length (by omega)]

theorem decPrimary_stable (strict : Bool) : Stable (decPrimary strict) := by
  intro bs p r t h
  unfold decPrimary at h ⊢
  obtain ⟨x, r1, h1, h2⟩ := bindP_eq_ok.mp h
  rw [decPrimaryFields_stable strict bs x r1 t h1]
  simp only [bindP_ok]
  split at h2
  · rename_i hx
    simp only [hx, ↓reduceIte, consumed_ext]
    split at h2
    · simp at h2
    · rename_i cc hcc
      refine bindP_stable decBytes_stable ?_ h2
      intro cv r2 h
      split at h
      · rename_i heq
        simp only [Except.ok.injEq, Prod.mk.injEq] at h
        simp only [heq, ↓reduceIte, Except.ok.injEq, Prod.mk.injEq]
        exact ⟨h.1, by rw [h.2]⟩
      · simp at h
  · rename_i hx
    simp only [hx, ↓reduceIte]
    simp only [Except.ok.injEq, Prod.mk.injEq] at h2 ⊢
    exact ⟨h2.1, by rw [h2.2]⟩

/-! ### canonical blocks -/

/-- A block-decoder outcome with `t` appended to what is left. -/
def ext (t : Bytes) : CanonRes → CanonRes
  | .block c r => .block c (r ++ t)
  | .brk r => .brk (r ++ t)
  | .err e => .err e

def good : CanonRes → Prop
  | .err _ => False
  | _ => True

theorem decHead_break {bs : Bytes} (h : decHead bs = .error .flagBreak) (t : Bytes) :
    bs ≠ [] ∧ decHead (bs ++ t) = .error .flagBreak := by
  cases bs with
  | nil => simp [decHead] at h
  | cons b rest =>
    refine ⟨by simp, ?_⟩
    simp only [List.cons_append, decHead] at h ⊢
    split at h
    · simp at h
    · rename_i h1
      simp only [h1, ↓reduceIte]
      split at h
      · rename_i h2; simp [h2]
      · split at h
        · simp at h
        · split at h
          · split at h <;> simp at h
          · simp at h

theorem decExpect_break {maj : Nat} {bs : Bytes} (h : decExpect maj bs = .error .flagBreak) (t : Bytes) :
    bs ≠ [] ∧ decExpect maj (bs ++ t) = .error .flagBreak := by
  unfold decExpect at h ⊢
  split at h
  · rename_i e he
    simp only [Except.error.injEq] at h
    subst h
    obtain ⟨h1, h2⟩ := decHead_break he t
    exact ⟨h1, by rw [h2]⟩
  · split at h <;> simp at h

theorem rawHead_stable {maj : Nat} {bs t : Bytes} {k k' : Nat → Bytes → CanonRes} {res : CanonRes}
    (h : rawHead maj bs k = res) (hg : good res)
    (hk : ∀ n r, k n r = res → k' n (r ++ t) = ext t res) :
    rawHead maj (bs ++ t) k' = ext t res := by
  unfold rawHead at h ⊢
  split at h
  · rename_i n r he
    rw [decExpect_stable maj bs n r t he]
    exact hk n r h
  · rename_i he
    obtain ⟨hne, he'⟩ := decExpect_break he t
    rw [he']
    subst h
    simp only [ext]
    cases bs with
    | nil => exact absurd rfl hne
    | cons b rest => rfl
  · subst h; exact absurd hg (by simp [good])

theorem decCanonFields_stable {cfg : Cfg} {bl : Nat} {r0 t : Bytes} {k k' : Canonical → Bytes → CanonRes}
    {res : CanonRes} (h : decCanonFields cfg bl r0 k = res) (hg : good res)
    (hk : ∀ c r, k c r = res → k' c (r ++ t) = ext t res) :
    decCanonFields cfg bl (r0 ++ t) k' = ext t res := by
  unfold decCanonFields at h ⊢
  refine rawHead_stable h hg ?_
  intro bt r1 h
  refine rawHead_stable h hg ?_
  intro num r2 h
  refine rawHead_stable h hg ?_
  intro flags r3 h
  refine rawHead_stable h hg ?_
  intro ct r4 h
  split at h
  · subst h; exact absurd hg (by simp [good])
  · rename_i hst
    simp only [hst, ↓reduceIte]
    split at h
    · subst h; exact absurd hg (by simp [good])
    · rename_i data r5 hd
      rw [decBytes_stable r4 data r5 t hd]
      simp only
      split at h
      · subst h; exact absurd hg (by simp [good])
      · rename_i v hv
        exact hk _ r5 h

theorem decCanon_stable {cfg : Cfg} {bs t : Bytes} {res : CanonRes} (h : decCanon cfg bs = res) (hg : good res) :
    decCanon cfg (bs ++ t) = ext t res := by
  unfold decCanon at h ⊢
  refine rawHead_stable h hg ?_
  intro bl r0 h
  split at h
  · subst h; exact absurd hg (by simp [good])
  · rename_i hbl
    simp only [hbl, ↓reduceIte]
    refine decCanonFields_stable h hg ?_
    intro c r h
    split at h
    · rename_i h6
      simp only [h6, ↓reduceIte, consumed_ext]
      split at h
      · subst h; exact absurd hg (by simp [good])
      · rename_i cc hcc
        refine rawHead_stable h hg ?_
        intro n r1 h
        split at h
        · subst h; exact absurd hg (by simp [good])
        · rename_i cv r2 hr
          rw [readRaw_stable n r1 cv r2 t hr]
          simp only
          split at h
          · rename_i heq
            subst h
            simp [heq, ext]
          · subst h; exact absurd hg (by simp [good])
    · rename_i h6
      simp only [h6, ↓reduceIte]
      subst h
      rfl

/-- The block loop with the same fuel (one unit per block). -/
theorem decBlocks_stable (cfg : Cfg) : ∀ (fuel : Nat) (bs : Bytes) (cs : List Canonical) (r t : Bytes),
    decBlocks cfg fuel bs = .ok (cs, r) → decBlocks cfg fuel (bs ++ t) = .ok (cs, r ++ t) := by
  intro fuel
  induction fuel with
  | zero => intro bs cs r t h; simp [decBlocks] at h
  | succ f ih =>
    intro bs cs r t h
    simp only [decBlocks] at h ⊢
    cases hc : decCanon cfg bs with
    | err e => rw [hc] at h; simp at h
    | brk r1 =>
      rw [hc] at h
      simp only [Except.ok.injEq, Prod.mk.injEq] at h
      rw [decCanon_stable hc (by simp [good])]
      simp only [ext, Except.ok.injEq, Prod.mk.injEq]
      exact ⟨h.1, by rw [h.2]⟩
    | block c r1 =>
      rw [hc] at h
      simp only at h
      rw [decCanon_stable hc (by simp [good])]
      simp only [ext]
      cases hr : decBlocks cfg f r1 with
      | error e => rw [hr] at h; simp at h
      | ok x =>
        obtain ⟨cs', r2⟩ := x
        rw [hr] at h
        simp only [Except.ok.injEq, Prod.mk.injEq] at h
        rw [ih r1 cs' r2 t hr]
        simp only [Except.ok.injEq, Prod.mk.injEq]
        exact ⟨h.1, by rw [h.2]⟩

/-- More fuel does not change a successful run of the block loop. -/
theorem decBlocks_more_fuel (cfg : Cfg) : ∀ (fuel d : Nat) (bs : Bytes) (x : List Canonical × Bytes),
    decBlocks cfg fuel bs = .ok x → decBlocks cfg (fuel + d) bs = .ok x := by
  intro fuel
  induction fuel with
  | zero => intro d bs x h; simp [decBlocks] at h
  | succ f ih =>
    intro d bs x h
    have e : f + 1 + d = (f + d) + 1 := by omega
    rw [e]
    simp only [decBlocks] at h ⊢
    cases hc : decCanon cfg bs with
    | err e => rw [hc] at h; simp at h
    | brk r1 => rw [hc] at h; exact h
    | block c r1 =>
      rw [hc] at h
      simp only at h ⊢
      cases hr : decBlocks cfg f r1 with
      | error e => rw [hr] at h; simp at h
      | ok y => rw [hr] at h; rw [ih d r1 y hr]; exact h

/-! ### the bundle -/

theorem parseRaw_stable (cfg : Cfg) : Stable (parseRaw cfg) := by
  intro bs b r t h
  unfold parseRaw at h ⊢
  cases bs with
  | nil => simp at h
  | cons b0 rest =>
    simp only [List.cons_append] at h ⊢
    split at h
    · simp at h
    · rename_i hb0
      simp only [hb0, ↓reduceIte]
      obtain ⟨p, r1, h1, h2⟩ := bindP_eq_ok.mp h
      have h1' := decPrimary_stable cfg.strict rest p r1 t (wrapErr_ok h1)
      rw [h1']
      simp only [wrapErr, bindP_ok]
      obtain ⟨cs, r2, h3, h4⟩ := bindP_eq_ok.mp h2
      have h3' := decBlocks_stable cfg _ r1 cs r2 t h3
      have h3'' := decBlocks_more_fuel cfg (r1.length + 1) t.length (r1 ++ t) _ h3'
      have e : r1.length + 1 + t.length = (r1 ++ t).length + 1 := by simp only [List.length_append]; omega
      rw [e] at h3''
      rw [h3'']
      simp only [bindP_ok, Except.ok.injEq, Prod.mk.injEq] at h4 ⊢
      exact ⟨h4.1, by rw [h4.2]⟩

/-- **Extension stability of `Bundle.UnmarshalCbor`**. -/
theorem parse_stable (cfg : Cfg) (now : Nat) : Stable (parse cfg now) := by
  intro bs b r t h
  obtain ⟨h1, h2⟩ := parse_ok_iff.mp h
  exact parse_ok_iff.mpr ⟨parseRaw_stable cfg bs b r t h1, h2⟩

end Dtn7.Bundle.Stable
