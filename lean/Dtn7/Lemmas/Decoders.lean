import Dtn7.Model.Decoders
import Dtn7.Lemmas.Cbor
import Dtn7.Lemmas.Tcpcl

/-!
Lemmas for `Dtn7.Decoders`: every decoder is `Sound` — it only ever consumes input, every entry it adds
to the allocation log is within `C + K · arrived`, and it never reports exhausted fuel — and the element
decoders of the count-driven loops `Adv`ance (a successful element consumes at least one byte).
-/
namespace Dtn7.Decoders.Lemmas
open Dtn7.Cbor Dtn7.Decoders

structure Sound (x : D α) : Prop where
  rest : ∀ s, (x s).2.rest.length ≤ s.rest.length
  pos : ∀ s, s.pos ≤ (x s).2.pos
  log : ∀ s, LogOk s.log → LogOk (x s).2.log
  nofuel : ∀ s, (x s).1 ≠ .error fuelErr

/-- A successful run consumes at least one byte. -/
def Adv (x : D α) : Prop :=
  ∀ s a s', x s = (.ok a, s') → s'.rest.length < s.rest.length ∧ s.pos < s'.pos

theorem logOk_nil : LogOk [] := by intro p hp; cases hp

theorem logOk_cons {r a : Nat} {l : Log} (h : r ≤ C + K * a) (hl : LogOk l) : LogOk ((r, a) :: l) := by
  intro p hp
  rcases List.mem_cons.mp hp with hp | hp
  · subst hp; exact h
  · exact hl p hp

/-! ### Combinators -/

theorem sound_pure (a : α) : Sound (D.pure a) :=
  ⟨fun _ => Nat.le_refl _, fun _ => Nat.le_refl _, fun _ h => h, fun _ h => by cases h⟩

theorem sound_fail (e : Err) (he : e ≠ fuelErr) : Sound (fail e : D α) :=
  ⟨fun _ => Nat.le_refl _, fun _ => Nat.le_refl _, fun _ h => h,
   fun _ h => by simp only [fail] at h; exact he (by injection h)⟩

theorem bind_eq (x : D α) (f : α → D β) (s : St) :
    (x >>= f) s = match x s with
      | (.error e, s') => (.error e, s')
      | (.ok a, s') => f a s' := rfl

theorem sound_bind {x : D α} {f : α → D β} (hx : Sound x) (hf : ∀ a, Sound (f a)) : Sound (x >>= f) := by
  refine ⟨fun s => ?_, fun s => ?_, fun s hl => ?_, fun s => ?_⟩ <;> rw [bind_eq] <;>
    (have h1 := hx.rest s; have h2 := hx.pos s; have h3 := hx.log s; have h4 := hx.nofuel s
     rcases hxs : x s with ⟨r, s'⟩
     rw [hxs] at h1 h2 h3 h4
     cases r with
     | error e => first | exact h1 | exact h2 | exact h3 hl | (intro h; exact h4 (by simpa using h))
     | ok a =>
       first
       | exact Nat.le_trans ((hf a).rest s') h1
       | exact Nat.le_trans h2 ((hf a).pos s')
       | exact (hf a).log s' (h3 hl)
       | exact (hf a).nofuel s')

theorem sound_ite {c : Prop} [Decidable c] {x y : D α} (hx : Sound x) (hy : Sound y) :
    Sound (if c then x else y) := by
  split <;> assumption

theorem adv_bind_left {x : D α} {f : α → D β} (hx : Adv x) (hf : ∀ a, Sound (f a)) : Adv (x >>= f) := by
  intro s b s'' h
  rw [bind_eq] at h
  rcases hxs : x s with ⟨r, s'⟩
  rw [hxs] at h
  cases r with
  | error e => simp at h
  | ok a =>
    obtain ⟨h1, h2⟩ := hx s a s' hxs
    have h3 := (hf a).rest s'
    have h4 := (hf a).pos s'
    simp only at h
    rw [h] at h3 h4
    exact ⟨by simp only at h3; omega, by simp only at h4; omega⟩

/-! ### Primitives -/

theorem fuelErr_ne : (Err.eof ≠ fuelErr) ∧ (Err.flagIndef ≠ fuelErr) ∧ (Err.flagBreak ≠ fuelErr) ∧
    (Err.badAdds ≠ fuelErr) ∧ (Err.wrongMajor ≠ fuelErr) ∧ (Err.tooLong ≠ fuelErr) := by
  refine ⟨?_, ?_, ?_, ?_, ?_, ?_⟩ <;> (intro h; cases h)

theorem other_ne (n : Nat) (h : n ≠ 99) : Err.other n ≠ fuelErr := by
  intro e; unfold fuelErr at e; injection e with e; exact h e

/-- What `head` does to the state, in one statement. -/
theorem head_cases (s : St) :
    ((head s).1 ≠ .error fuelErr) ∧ (head s).2.log = s.log ∧
    (((head s).2 = s ∧ ∃ e, (head s).1 = .error e) ∨
     (∃ a, (head s).1 = .ok a ∧ (head s).2.rest.length < s.rest.length ∧ s.pos < (head s).2.pos)) := by
  unfold head
  rcases hs : s.rest with _ | ⟨b, rest⟩
  · exact ⟨by simp [fuelErr], rfl, Or.inl ⟨rfl, _, rfl⟩⟩
  · simp only
    split
    · exact ⟨by simp [fuelErr], rfl, Or.inl ⟨rfl, _, rfl⟩⟩
    · split
      · exact ⟨by simp [fuelErr], rfl, Or.inl ⟨rfl, _, rfl⟩⟩
      · split
        · refine ⟨by simp, rfl, Or.inr ⟨_, rfl, ?_, ?_⟩⟩ <;> simp
        · split
          · have hl : 0 < 2 ^ (b.toNat % 32 - 24) := Nat.pow_pos (by decide)
            split
            · exact ⟨by simp [fuelErr], rfl, Or.inl ⟨rfl, _, rfl⟩⟩
            · refine ⟨by simp, rfl, Or.inr ⟨_, rfl, ?_, ?_⟩⟩
              · simp only [List.length_drop, List.length_cons]; omega
              · simp only; omega
          · exact ⟨by simp [fuelErr], rfl, Or.inl ⟨rfl, _, rfl⟩⟩

theorem sound_head : Sound head := by
  refine ⟨fun s => ?_, fun s => ?_, fun s hl => ?_, fun s => ?_⟩ <;>
    obtain ⟨h1, h2, h3⟩ := head_cases s
  · rcases h3 with ⟨h, _⟩ | ⟨_, _, h, _⟩
    · rw [h]; exact Nat.le_refl _
    · exact Nat.le_of_lt h
  · rcases h3 with ⟨h, _⟩ | ⟨_, _, _, h⟩
    · rw [h]; exact Nat.le_refl _
    · exact Nat.le_of_lt h
  · rw [h2]; exact hl
  · exact h1

theorem adv_head : Adv head := by
  intro s a s' h
  obtain ⟨_, _, h3⟩ := head_cases s
  rcases h3 with ⟨_, e, he⟩ | ⟨_, _, h4, h5⟩
  · rw [h] at he; simp at he
  · rw [h] at h4 h5; exact ⟨h4, h5⟩

theorem expect_eq (maj : Nat) (s : St) :
    expect maj s = match head s with
      | (.error e, s') => (.error e, s')
      | (.ok p, s') => if p.1 = maj then (.ok p.2, s') else (.error .wrongMajor, s') := rfl

theorem sound_expect (maj : Nat) : Sound (expect maj) := by
  have hh := sound_head
  refine ⟨fun s => ?_, fun s => ?_, fun s hl => ?_, fun s => ?_⟩ <;> rw [expect_eq] <;>
    (have h1 := hh.rest s; have h2 := hh.pos s; have h3 := hh.log s; have h4 := hh.nofuel s
     rcases hxs : head s with ⟨r, s'⟩
     rw [hxs] at h1 h2 h3 h4
     cases r with
     | error e => first | exact h1 | exact h2 | exact h3 hl | (intro h; exact h4 (by simpa using h))
     | ok a =>
       simp only
       split <;> first | exact h1 | exact h2 | exact h3 hl | (intro h; simp [fuelErr] at h))

theorem adv_expect (maj : Nat) : Adv (expect maj) := by
  intro s a s' h
  rw [expect_eq] at h
  rcases hxs : head s with ⟨r, s1⟩
  rw [hxs] at h
  cases r with
  | error e => simp at h
  | ok p =>
    simp only at h
    split at h
    · have := adv_head s p s1 hxs
      simp only [Prod.mk.injEq] at h
      rw [← h.2]; exact this
    · simp at h

theorem sound_uint : Sound uint := sound_expect _
theorem sound_arrayLen : Sound arrayLen := sound_expect _
theorem sound_mapLen : Sound mapLen := sound_expect _
theorem adv_arrayLen : Adv arrayLen := adv_expect _

theorem sound_check (c : Bool) (e : Err) (he : e ≠ fuelErr) : Sound (check c e) := by
  unfold check; split
  · exact sound_pure _
  · exact sound_fail e he

theorem sound_byte : Sound byte := by
  refine ⟨fun s => ?_, fun s => ?_, fun s hl => ?_, fun s => ?_⟩ <;> unfold byte <;>
    rcases hs : s.rest with _ | ⟨b, rest⟩ <;> simp [hs, fuelErr] <;> first | omega | exact hl

theorem adv_byte : Adv byte := by
  intro s a s' h
  unfold byte at h
  rcases hs : s.rest with _ | ⟨b, rest⟩
  · rw [hs] at h; simp at h
  · rw [hs] at h
    simp only [Prod.mk.injEq] at h
    rw [← h.2]; simp

theorem sound_boolean : Sound boolean := by
  have hb := sound_byte
  refine ⟨fun s => ?_, fun s => ?_, fun s hl => ?_, fun s => ?_⟩ <;> unfold boolean <;>
    (have h1 := hb.rest s; have h2 := hb.pos s; have h3 := hb.log s; have h4 := hb.nofuel s
     rcases hxs : byte s with ⟨r, s'⟩
     rw [hxs] at h1 h2 h3 h4
     cases r with
     | error e => first | exact h1 | exact h2 | exact h3 hl | (intro h; exact h4 (by simpa using h))
     | ok a =>
       simp only
       split
       · first | exact h1 | exact h2 | exact h3 hl | (intro h; simp at h)
       · split <;> first | exact h1 | exact h2 | exact h3 hl | (intro h; simp [fuelErr] at h))

theorem sound_takeN (n : Nat) : Sound (takeN n) := by
  refine ⟨fun s => ?_, fun s => ?_, fun s hl => ?_, fun s => ?_⟩ <;> unfold takeN <;> simp only <;> split <;>
    simp [fuelErr] <;> first | omega | exact hl

theorem adv_takeN (n : Nat) (hn : 0 < n) : Adv (takeN n) := by
  intro s a s' h
  unfold takeN at h
  simp only at h
  split at h
  · simp at h
  · rename_i hlt
    simp only [Prod.mk.injEq] at h
    rw [← h.2]
    simp only [List.length_take] at hlt
    simp only [List.length_drop]
    omega

theorem sound_be (w : Nat) : Sound (be w) := by
  have hb := sound_takeN w
  refine ⟨fun s => ?_, fun s => ?_, fun s hl => ?_, fun s => ?_⟩ <;> unfold be <;>
    (have h1 := hb.rest s; have h2 := hb.pos s; have h3 := hb.log s; have h4 := hb.nofuel s
     rcases hxs : takeN w s with ⟨r, s'⟩
     rw [hxs] at h1 h2 h3 h4
     cases r with
     | error e => first | exact h1 | exact h2 | exact h3 hl | (intro h; exact h4 (by simpa using h))
     | ok a => first | exact h1 | exact h2 | exact h3 hl | (intro h; simp at h))

theorem adv_be (w : Nat) (hw : 0 < w) : Adv (be w) := by
  intro s a s' h
  unfold be at h
  rcases hxs : takeN w s with ⟨r, s1⟩
  rw [hxs] at h
  cases r with
  | error e => simp at h
  | ok t =>
    simp only [Prod.mk.injEq] at h
    rw [← h.2]; exact adv_takeN w hw s t s1 hxs

/-- `cboring.ReadRawBytes`: the pre-allocation is at most 1 MiB; beyond that the buffer follows the bytes
that arrive. -/
theorem sound_raw (l : Nat) : Sound (raw l) := by
  refine ⟨fun s => ?_, fun s => ?_, fun s hl => ?_, fun s => ?_⟩ <;> unfold raw <;> simp only
  · split
    · exact Nat.le_refl _
    · split <;> split <;> simp <;> omega
  · split
    · exact Nat.le_refl _
    · split <;> split <;> simp
  · split
    · exact hl
    · by_cases hp : l ≤ preallocLimit
      · have key : LogOk ((l, s.pos) :: s.log) := logOk_cons (by unfold C; omega) hl
        simp only [hp, if_true]
        split <;> exact key
      · have key : LogOk ((2 * (s.rest.take l).length + minRead, s.pos + (s.rest.take l).length) :: s.log) :=
          logOk_cons (by unfold C K blockSize; omega) hl
        simp only [hp, if_false]
        split <;> exact key
  · split
    · simp [fuelErr]
    · split <;> simp [fuelErr]

theorem sound_discard (l : Nat) : Sound (discard l) := by
  refine ⟨fun s => ?_, fun s => ?_, fun s hl => ?_, fun s => ?_⟩ <;> unfold discard <;> simp only <;> split <;>
    (try split) <;> simp [fuelErr] <;> first | omega | exact hl

/-! ### Loops -/

theorem loopN_spec (elem : D α) (esz : Nat) (he : Sound elem) (ha : Adv elem) (hk : 2 * esz ≤ K) :
    ∀ (f n : Nat) (acc : List α) (s : St), s.rest.length + 1 ≤ f → acc.length ≤ s.pos →
      (loopN elem esz f n acc s).2.rest.length ≤ s.rest.length ∧
      s.pos ≤ (loopN elem esz f n acc s).2.pos ∧
      (LogOk s.log → LogOk (loopN elem esz f n acc s).2.log) ∧
      (loopN elem esz f n acc s).1 ≠ .error fuelErr := by
  intro f
  induction f with
  | zero => intro n acc s hf; omega
  | succ f ih =>
    intro n acc s hf hacc
    cases n with
    | zero => simp [loopN, D.pure]
    | succ n =>
      simp only [loopN]
      have h1 := he.rest s; have h2 := he.pos s; have h3 := he.log s; have h4 := he.nofuel s
      rcases hxs : elem s with ⟨r, s'⟩
      rw [hxs] at h1 h2 h3 h4
      cases r with
      | error e => exact ⟨h1, h2, h3, fun h => h4 (by simpa using h)⟩
      | ok x =>
        obtain ⟨a1, a2⟩ := ha s x s' hxs
        simp only
        have := ih n (x :: acc) { s' with log := (2 * esz * (acc.length + 1), s'.pos) :: s'.log }
          (by simp only; omega) (by simp only [List.length_cons]; omega)
        obtain ⟨i1, i2, i3, i4⟩ := this
        refine ⟨by simp only at i1; omega, by simp only at i2; omega, fun hl => i3 ?_, i4⟩
        refine logOk_cons ?_ (h3 hl)
        have : 2 * esz * (acc.length + 1) ≤ K * s'.pos :=
          Nat.mul_le_mul hk (by omega)
        omega

theorem sound_repeatN (elem : D α) (esz n : Nat) (he : Sound elem) (ha : Adv elem) (hk : 2 * esz ≤ K) :
    Sound (repeatN elem esz n) := by
  have h := fun s => loopN_spec elem esz he ha hk (s.rest.length + 1) n [] s (Nat.le_refl _) (Nat.zero_le _)
  exact ⟨fun s => (h s).1, fun s => (h s).2.1, fun s => (h s).2.2.1, fun s => (h s).2.2.2⟩

theorem loopBreak_spec (elem : D α) (esz : Nat) (he : Sound elem) (ha : Adv elem) (hk : 2 * esz ≤ K) :
    ∀ (f : Nat) (acc : List α) (s : St), s.rest.length + 1 ≤ f → acc.length ≤ s.pos →
      (loopBreak elem esz f acc s).2.rest.length ≤ s.rest.length ∧
      s.pos ≤ (loopBreak elem esz f acc s).2.pos ∧
      (LogOk s.log → LogOk (loopBreak elem esz f acc s).2.log) ∧
      (loopBreak elem esz f acc s).1 ≠ .error fuelErr := by
  intro f
  induction f with
  | zero => intro acc s hf; omega
  | succ f ih =>
    intro acc s hf hacc
    simp only [loopBreak]
    have h1 := he.rest s; have h2 := he.pos s; have h3 := he.log s; have h4 := he.nofuel s
    rcases hxs : elem s with ⟨r, s'⟩
    rw [hxs] at h1 h2 h3 h4
    cases r with
    | error e =>
      simp only
      split
      · exact ⟨h1, h2, h3, by simp⟩
      · exact ⟨h1, h2, h3, fun h => h4 (by simpa using h)⟩
    | ok x =>
      obtain ⟨a1, a2⟩ := ha s x s' hxs
      simp only
      have := ih (x :: acc) { s' with log := (2 * esz * (acc.length + 1), s'.pos) :: s'.log }
        (by simp only; omega) (by simp only [List.length_cons]; omega)
      obtain ⟨i1, i2, i3, i4⟩ := this
      refine ⟨by simp only at i1; omega, by simp only at i2; omega, fun hl => i3 ?_, i4⟩
      refine logOk_cons ?_ (h3 hl)
      have : 2 * esz * (acc.length + 1) ≤ K * s'.pos :=
        Nat.mul_le_mul hk (by omega)
      omega

theorem sound_untilBreak (elem : D α) (esz : Nat) (he : Sound elem) (ha : Adv elem) (hk : 2 * esz ≤ K) :
    Sound (untilBreak elem esz) := by
  have h := fun s => loopBreak_spec elem esz he ha hk (s.rest.length + 1) [] s (Nat.le_refl _) (Nat.zero_le _)
  exact ⟨fun s => (h s).1, fun s => (h s).2.1, fun s => (h s).2.2.1, fun s => (h s).2.2.2⟩

/-- `bind` when the continuation needs a fact about the value (e.g. a 16 bit field is below 2^16). -/
theorem sound_bind_val {x : D α} {f : α → D β} (P : α → Prop) (hx : Sound x)
    (hv : ∀ s a s', x s = (.ok a, s') → P a) (hf : ∀ a, P a → Sound (f a)) : Sound (x >>= f) := by
  refine ⟨fun s => ?_, fun s => ?_, fun s hl => ?_, fun s => ?_⟩ <;> rw [bind_eq] <;>
    (have h1 := hx.rest s; have h2 := hx.pos s; have h3 := hx.log s; have h4 := hx.nofuel s
     have hv' := hv s
     rcases hxs : x s with ⟨r, s'⟩
     rw [hxs] at h1 h2 h3 h4 hv'
     cases r with
     | error e => first | exact h1 | exact h2 | exact h3 hl | (intro h; exact h4 (by simpa using h))
     | ok a =>
       have hp := hv' a s' rfl
       first
       | exact Nat.le_trans ((hf a hp).rest s') h1
       | exact Nat.le_trans h2 ((hf a hp).pos s')
       | exact (hf a hp).log s' (h3 hl)
       | exact (hf a hp).nofuel s')

theorem foldl_be_lt (bs : Bytes) (acc : Nat) :
    bs.foldl (fun a b => a * 256 + b.toNat) acc < (acc + 1) * 256 ^ bs.length := by
  induction bs generalizing acc with
  | nil => simp
  | cons b bs ih =>
    simp only [List.foldl_cons, List.length_cons]
    have hb : b.toNat < 256 := b.toNat_lt
    calc _ < (acc * 256 + b.toNat + 1) * 256 ^ bs.length := ih _
      _ ≤ ((acc + 1) * 256) * 256 ^ bs.length := Nat.mul_le_mul_right _ (by omega)
      _ = (acc + 1) * 256 ^ (bs.length + 1) := by rw [Nat.pow_succ, Nat.mul_assoc, Nat.mul_comm 256]

theorem beVal_lt (bs : Bytes) : beVal bs < 256 ^ bs.length := by
  have := foldl_be_lt bs 0
  simpa [beVal] using this

/-- A `w` byte big-endian field is below `256^w` (the type bound of `uint16`, `uint32`, …). -/
theorem takeN_len (n : Nat) (s : St) (t : Bytes) (s' : St) (h : takeN n s = (.ok t, s')) : t.length = n := by
  unfold takeN at h
  simp only at h
  split at h
  · simp at h
  · rename_i hlt
    simp only [Prod.mk.injEq, Except.ok.injEq] at h
    rw [← h.1]
    have := List.length_take_le n s.rest
    omega

theorem be_lt (w : Nat) (s : St) (a : Nat) (s' : St) (h : be w s = (.ok a, s')) : a < 256 ^ w := by
  unfold be at h
  rcases hxs : takeN w s with ⟨r, s1⟩
  rw [hxs] at h
  cases r with
  | error e => simp at h
  | ok t =>
    simp only [Prod.mk.injEq, Except.ok.injEq] at h
    rw [← h.1, ← takeN_len w s t s1 hxs]
    exact beVal_lt t

theorem sound_logAlloc (r : Nat) (hr : r ≤ C) : Sound (logAlloc r) := by
  refine ⟨fun s => Nat.le_refl _, fun s => Nat.le_refl _, fun s hl => ?_, fun s h => by simp [logAlloc] at h⟩
  exact logOk_cons (by omega) hl

/-! ### The decoders -/

syntax "sound_step" : tactic
macro_rules
  | `(tactic| sound_step) => `(tactic| first
      | exact sound_uint | exact sound_arrayLen | exact sound_mapLen | exact sound_head | exact sound_boolean
      | exact sound_byte | exact sound_pure _ | exact sound_expect _ | exact sound_raw _ | exact sound_discard _
      | exact sound_be _ | exact sound_takeN _
      | exact sound_fail _ (by decide) | exact sound_check _ _ (by decide)
      | apply sound_bind | apply sound_ite | intro _ | split)

theorem sound_dtnSsp : Sound dtnSsp := by
  unfold dtnSsp; repeat sound_step

theorem sound_ipnSsp : Sound ipnSsp := by
  unfold ipnSsp; repeat sound_step

theorem sound_eid : Sound eid := by
  unfold eid
  repeat (first | exact sound_dtnSsp | exact sound_ipnSsp | sound_step)

theorem adv_eid : Adv eid := by
  unfold eid
  refine adv_bind_left adv_arrayLen (fun _ => ?_)
  repeat (first | exact sound_dtnSsp | exact sound_ipnSsp | sound_step)

theorem sound_statusItem : Sound statusItem := by
  unfold statusItem; repeat sound_step

theorem adv_statusItem : Adv statusItem := by
  unfold statusItem
  refine adv_bind_left adv_arrayLen (fun _ => ?_)
  repeat sound_step

theorem sound_timestamp : Sound timestamp := by
  unfold timestamp; repeat sound_step

theorem sound_statusReport : Sound statusReport := by
  unfold statusReport
  repeat (first
    | exact sound_repeatN _ _ _ sound_statusItem adv_statusItem (by decide)
    | exact sound_eid | exact sound_timestamp | sound_step)

theorem sound_adminRecord : Sound adminRecord := by
  unfold adminRecord
  repeat (first | exact sound_statusReport | sound_step)

theorem sound_announcement : Sound announcement := by
  unfold announcement
  repeat (first | exact sound_eid | sound_step)

theorem adv_announcement : Adv announcement := by
  unfold announcement
  refine adv_bind_left adv_arrayLen (fun _ => ?_)
  repeat (first | exact sound_eid | sound_step)

theorem sound_announcements : Sound announcements := by
  unfold announcements
  repeat (first
    | exact sound_repeatN _ _ _ sound_announcement adv_announcement (by decide)
    | sound_step)

theorem sound_dtlsrEntry : Sound dtlsrEntry := by
  unfold dtlsrEntry; repeat (first | exact sound_eid | sound_step)

theorem adv_dtlsrEntry : Adv dtlsrEntry := by
  unfold dtlsrEntry
  refine adv_bind_left adv_eid (fun _ => ?_)
  repeat sound_step

theorem sound_prophetEntry : Sound prophetEntry := by
  unfold prophetEntry; repeat (first | exact sound_eid | sound_step)

theorem adv_prophetEntry : Adv prophetEntry := by
  unfold prophetEntry
  refine adv_bind_left adv_eid (fun _ => ?_)
  repeat sound_step

theorem sound_dtlsr : Sound dtlsr := by
  unfold dtlsr
  repeat (first
    | exact sound_repeatN _ _ _ sound_dtlsrEntry adv_dtlsrEntry (by decide)
    | exact sound_eid | sound_step)

theorem sound_prophet : Sound prophet := by
  unfold prophet
  repeat (first
    | exact sound_repeatN _ _ _ sound_prophetEntry adv_prophetEntry (by decide)
    | sound_step)

/-- The block loop of a bundle, for ANY primary/canonical block decoder that is itself sound and whose
blocks consume input. -/
theorem sound_bundleBlocks {primary : D β} {block : D α} (hp : Sound primary) (hb : Sound block) (ha : Adv block) :
    Sound (bundleBlocks primary block) := by
  unfold bundleBlocks
  repeat (first
    | exact hp
    | exact sound_untilBreak _ _ hb ha (by decide)
    | sound_step)

theorem sound_xferSegment : Sound xferSegment := by
  unfold xferSegment; repeat sound_step

theorem sound_sessInit : Sound sessInit := by
  unfold sessInit
  repeat (first | apply sound_bind (sound_be 1) | apply sound_bind (sound_check _ _ (by decide))
                | apply sound_bind (sound_be 8) | intro _)
  apply sound_bind (sound_be 2); intro _
  apply sound_bind (sound_be 8); intro _
  apply sound_bind (sound_be 8); intro _
  refine sound_bind_val (fun a => a < 256 ^ 2) (sound_be 2) (be_lt 2) (fun idLen hid => ?_)
  apply sound_bind (sound_logAlloc idLen (by unfold C preallocLimit minRead; omega))
  repeat sound_step

/-! ### Tie to the shared CBOR head model -/

/-- `head` is `Cbor.decHead` (the shared model of `cboring.ReadMajors`) on the state's input: same
result, same unconsumed rest. -/
theorem head_decHead (s : St) :
    (head s).1 = (decHead s.rest).map (fun r => (r.1, r.2.1)) ∧
    (∀ m n r, decHead s.rest = .ok (m, n, r) → (head s).2.rest = r) := by
  unfold head decHead
  rcases s.rest with _ | ⟨b, rest⟩
  · simp [Except.map]
  · by_cases h1 : b.toNat = 0x9F
    · simp [h1, Except.map]
    · by_cases h2 : b.toNat = 0xFF
      · simp [h2, Except.map]
      · by_cases h3 : b.toNat % 32 ≤ 23
        · simp [h1, h2, h3, Except.map]
        · by_cases h4 : b.toNat % 32 ≤ 27
          · have hlen : (min (2 ^ (b.toNat % 32 - 24)) rest.length < 2 ^ (b.toNat % 32 - 24)) ↔
                (rest.length < 2 ^ (b.toNat % 32 - 24)) := by omega
            by_cases h : rest.length < 2 ^ (b.toNat % 32 - 24)
            · simp [h1, h2, h3, h4, h, hlen.mpr h, Except.map]
            · have h' : ¬ min (2 ^ (b.toNat % 32 - 24)) rest.length < 2 ^ (b.toNat % 32 - 24) :=
                fun x => h (hlen.mp x)
              simp [h1, h2, h3, h4, h, h', Except.map]
          · simp [h1, h2, h3, h4, Except.map]

/-! ### The sender side -/

theorem negotiate_ok (v m : Nat) (h : negotiate v = .ok m) : 1 ≤ m ∧ m ≤ maxSegmentMtu := by
  unfold negotiate at h
  split at h
  · simp at h
  · simp only [Except.ok.injEq] at h
    unfold maxSegmentMtu at *
    omega

theorem segmentBuffer_ok (v m : Nat) (h : segmentBuffer v = .ok m) : 1 ≤ m ∧ m ≤ maxSegmentMtu := by
  unfold segmentBuffer at h
  split at h
  · simp at h
  · simp only [Except.ok.injEq] at h
    unfold maxSegmentMtu at *
    omega

open Dtn7.Tcpcl in
/-- One `NextSegment` with a segment size ≥ 1 that yields a segment takes at least one byte and at most
`mtu` bytes from the stream … -/
theorem nextSegment_progress (la st : Bool) (rest : List UInt8) (mtu : Nat) (hm : 1 ≤ mtu) (sg : Seg)
    (r : List UInt8) (h : nextSegment la st rest mtu = .seg sg r) :
    r.length < rest.length ∧ 1 ≤ sg.data.length ∧ sg.data.length ≤ mtu := by
  unfold nextSegment at h
  by_cases h0 : rest.length = 0
  · simp [h0] at h
  · by_cases h1 : rest.length < mtu
    · simp only [h0, h1, if_false, if_true, Next.seg.injEq] at h
      obtain ⟨hs, hr⟩ := h
      subst hs; subst hr
      simp only [List.length_nil]; omega
    · simp only [h0, h1, if_false, Next.seg.injEq] at h
      obtain ⟨hs, hr⟩ := h
      subst hs; subst hr
      simp only [List.length_drop, List.length_take]; omega

open Dtn7.Tcpcl in
/-- … and it reports the end of the stream only when nothing is left. -/
theorem nextSegment_eof (la st : Bool) (rest : List UInt8) (mtu : Nat)
    (h : nextSegment la st rest mtu = .eof) : rest = [] := by
  unfold nextSegment at h
  by_cases h0 : rest.length = 0
  · exact List.length_eq_zero_iff.mp h0
  · by_cases h1 : rest.length < mtu <;> simp [h0, h1] at h

open Dtn7.Tcpcl in
theorem concat_length_ge (segs : List Seg) (h : ∀ sg ∈ segs, 0 < sg.data.length) :
    segs.length ≤ (concatData segs).length := by
  induction segs with
  | nil => simp [concatData]
  | cons a as ih =>
    have ha := h a (List.mem_cons_self ..)
    have := ih (fun x hx => h x (List.mem_cons_of_mem _ hx))
    simp only [concatData, List.length_cons, List.length_append]
    omega

open Dtn7.Tcpcl in
/-- Everything `Send` emits for a bundle encoding `data`, whatever segment size it was handed: at most one
segment per byte (no spinning), every segment carries 1 … `MaxSegmentMtu` bytes (bounded buffers), and the
segments are the data. -/
theorem sendSegments_spec (mtu : Nat) (data : List UInt8) (segs : List Seg) (h : sendSegments mtu data = .ok segs) :
    segs.length ≤ data.length ∧ (∀ sg ∈ segs, 1 ≤ sg.data.length ∧ sg.data.length ≤ maxSegmentMtu) ∧
      concatData segs = data := by
  unfold sendSegments at h
  rcases hb : segmentBuffer mtu with e | m
  · rw [hb] at h; simp at h
  · rw [hb] at h
    simp only [Except.ok.injEq] at h
    obtain ⟨hm1, hm2⟩ := segmentBuffer_ok mtu m hb
    subst h
    unfold segments
    simp only [show 0 < m from hm1, if_true]
    have hne := Dtn7.Tcpcl.Lemmas.segmentsFuel_nonempty true m hm1 data.length true data
    by_cases hd : data = []
    · subst hd; simp [Dtn7.Tcpcl.Lemmas.segmentsFuel_nil, concatData]
    · obtain ⟨h1, h2, _, _⟩ := Dtn7.Tcpcl.Lemmas.segmentsFuel_ok true m hm1 data.length true data hd (Nat.le_refl _)
      refine ⟨?_, fun sg hsg => ⟨hne sg hsg, Nat.le_trans (h1 sg hsg) hm2⟩, h2⟩
      have := concat_length_ge _ hne
      rwa [h2] at this

end Dtn7.Decoders.Lemmas
