import Dtn7.Model.Bundle
import Dtn7.Model.BundleSpec
import Dtn7.Lemmas.Eid
import Dtn7.Lemmas.CborExtra
import Dtn7.Lemmas.BundleValid

/-!
Inversion: whatever the parser accepts is `Encodable` — every number fits, every endpoint structure is
in the parser's normal form, typed values sit under registered codes — and its canonical re-encoding
is never longer than the bytes it was read from (so the re-encoded block values stay within the
reader's 2 GiB limit).
-/
namespace Dtn7.Bundle.Lemmas
open Dtn7.Cbor Dtn7.Cbor.Lemmas Dtn7.Eid Dtn7.Eid.Lemmas Dtn7.Bundle

/-! ### heads: the shortest form is never longer than the form read -/

theorem headLen_pos (n : Nat) : 1 ≤ headLen n := by
  unfold headLen; repeat' split
  all_goals omega

theorem headLen_small (n : Nat) (h : n < 24) : headLen n = 1 := by
  unfold headLen; simp [h]

theorem headLen_beVal (rest : Bytes) (l : Nat) (hl : l = 1 ∨ l = 2 ∨ l = 4 ∨ l = 8)
    (hlen : ¬ rest.length < l) : headLen (beVal (rest.take l)) ≤ 1 + l := by
  have hv := beVal_lt (rest.take l)
  rw [List.length_take, Nat.min_eq_left (by omega)] at hv
  unfold headLen
  rcases hl with rfl | rfl | rfl | rfl
  all_goals
    simp only [Nat.reducePow] at hv ⊢
    repeat' split
    all_goals omega

theorem decHead_len {bs : Bytes} {m n : Nat} {r : Bytes} (h : decHead bs = .ok (m, n, r)) :
    headLen n + r.length ≤ bs.length := by
  cases bs with
  | nil => simp [decHead] at h
  | cons b rest =>
    simp only [decHead] at h
    split at h
    · simp at h
    · split at h
      · simp at h
      · split at h
        · rename_i h23
          simp only [Except.ok.injEq, Prod.mk.injEq] at h
          obtain ⟨_, rfl, rfl⟩ := h
          rw [headLen_small _ (by omega)]
          simp only [List.length_cons]; omega
        · split at h
          · split at h
            · simp at h
            · rename_i h23 h27 hlen
              simp only [Except.ok.injEq, Prod.mk.injEq] at h
              obtain ⟨_, rfl, rfl⟩ := h
              generalize hA : b.toNat % 32 = a at *
              have ha : a = 24 ∨ a = 25 ∨ a = 26 ∨ a = 27 := by omega
              rcases ha with rfl | rfl | rfl | rfl
              all_goals
                simp only [Nat.sub_self, Nat.reduceSub, Nat.pow_zero, Nat.pow_one, Nat.reducePow] at hlen ⊢
                have hk := headLen_beVal rest _ (by decide) hlen
                simp only [List.length_drop, List.length_cons]
                omega
          · simp at h

theorem decExpect_len {maj : Nat} {bs : Bytes} {n : Nat} {r : Bytes} (h : decExpect maj bs = .ok (n, r)) :
    n < 2 ^ 64 ∧ headLen n + r.length ≤ bs.length :=
  let ⟨h1, _, h3⟩ := decExpect_ok h
  ⟨h1, decHead_len h3⟩

theorem encUInt_length (n : Nat) : (encUInt n).length = headLen n := encHead_length _ _
theorem encArray_length (n : Nat) : (encArray n).length = headLen n := encHead_length _ _

/-! ### endpoint IDs -/

theorem decEid_inv {bs : Bytes} {e : Eid} {r : Bytes} (h : decEid bs = .ok (e, r)) :
    Eid.Enc e ∧ (encEidRaw e).length + r.length ≤ bs.length := by
  unfold decEid at h
  obtain ⟨l, r1, h1, h⟩ := bindP_eq_ok.mp h
  split at h
  · simp at h
  · rename_i hl
    have hl2 : l = 2 := by simpa using hl
    subst hl2
    obtain ⟨sc, r2, h2, h⟩ := bindP_eq_ok.mp h
    obtain ⟨_, hlen1⟩ := decExpect_len h1
    obtain ⟨_, hlen2⟩ := decExpect_len h2
    have hp1 := headLen_pos 2
    have hp2 := headLen_pos sc
    split at h
    · -- dtn
      unfold decDtn at h
      cases hd : decHead r2 with
      | error e' => simp [hd] at h
      | ok x =>
        obtain ⟨m, n, r3⟩ := x
        simp only [hd] at h
        have hlen3 := decHead_len hd
        have hp3 := headLen_pos n
        split at h
        · simp only [Except.ok.injEq, Prod.mk.injEq] at h
          obtain ⟨rfl, rfl⟩ := h
          refine ⟨⟨trivial, trivial⟩, ?_⟩
          simp only [encEidRaw, List.length_append, encUInt_length, encArray_length,
            headLen_small 2 (by decide), headLen_small schemeDtn (by decide), headLen_small 0 (by decide)]
          omega
        · split at h
          · obtain ⟨ssp, r4, h4, h⟩ := bindP_eq_ok.mp h
            obtain ⟨hsl, hmax, hcat⟩ := readRaw_ok h4
            cases hps : parseSsp ssp with
            | none => simp [hps] at h
            | some nd =>
              obtain ⟨node, demux⟩ := nd
              simp only [hps, Except.ok.injEq, Prod.mk.injEq] at h
              obtain ⟨rfl, rfl⟩ := h
              obtain ⟨heq, hne, hall, hnl⟩ := parseSsp_some hps
              refine ⟨⟨⟨hne, hall, hnl⟩, ?_⟩, ?_⟩
              · show (sspOf node demux).length ≤ maxInt32
                rw [← heq]; omega
              · have : r3.length = ssp.length + r4.length := by rw [hcat, List.length_append]
                simp only [encEidRaw, encText, List.length_append, encUInt_length, encArray_length,
                  encHead_length, headLen_small 2 (by decide), headLen_small schemeDtn (by decide), ← heq, hsl]
                omega
          · simp at h
    · split at h
      · -- ipn
        unfold decIpn at h
        obtain ⟨l', r3, h3, h⟩ := bindP_eq_ok.mp h
        split at h
        · simp at h
        · rename_i hl'
          have hl2 : l' = 2 := by simpa using hl'
          subst hl2
          obtain ⟨nn, r4, h4, h⟩ := bindP_eq_ok.mp h
          obtain ⟨ss, r5, h5, h⟩ := bindP_eq_ok.mp h
          simp only [Except.ok.injEq, Prod.mk.injEq] at h
          obtain ⟨rfl, rfl⟩ := h
          obtain ⟨_, hlen3⟩ := decExpect_len h3
          obtain ⟨hn, hlen4⟩ := decExpect_len h4
          obtain ⟨hs, hlen5⟩ := decExpect_len h5
          refine ⟨⟨trivial, hn, hs⟩, ?_⟩
          simp only [encEidRaw, List.length_append, encUInt_length, encArray_length,
            headLen_small 2 (by decide), headLen_small schemeIpn (by decide)]
          omega
      · simp at h

/-! ### map entries -/

def PairsEnc (m : EidMap) : Prop := ∀ p ∈ m, Eid.Enc p.1 ∧ U64 p.2

theorem mapInsert_keys (m : EidMap) (k : Eid) (v : Nat) (x : Eid)
    (hx : x ∈ (mapInsert m k v).map (·.1)) : x ∈ m.map (·.1) ∨ x = k := by
  induction m with
  | nil => simp [mapInsert] at hx; exact Or.inr hx
  | cons p ps ih =>
    obtain ⟨k', v'⟩ := p
    simp only [mapInsert] at hx
    split at hx
    · rename_i hk
      simp only [List.map_cons, List.mem_cons] at hx ⊢
      rcases hx with h | h
      · exact Or.inr h
      · exact Or.inl (Or.inr h)
    · simp only [List.map_cons, List.mem_cons] at hx ⊢
      rcases hx with h | h
      · exact Or.inl (Or.inl h)
      · rcases ih h with h' | h'
        · exact Or.inl (Or.inr h')
        · exact Or.inr h'

theorem mapInsert_inv (encV : Nat → Bytes) (m : EidMap) (k : Eid) (v : Nat) (hm : PairsEnc m)
    (hnd : (m.map (·.1)).Nodup) (hk : Eid.Enc k) (hv : U64 v) :
    PairsEnc (mapInsert m k v) ∧ ((mapInsert m k v).map (·.1)).Nodup ∧
    (mapInsert m k v).length ≤ m.length + 1 ∧
    (encPairs encV (mapInsert m k v)).length ≤
      (encPairs encV m).length + (encEidRaw k).length + (encV v).length := by
  induction m with
  | nil =>
    refine ⟨?_, by simp [mapInsert], by simp [mapInsert], by simp [mapInsert, encPairs]⟩
    intro p hp
    simp only [mapInsert, List.mem_singleton] at hp
    subst hp; exact ⟨hk, hv⟩
  | cons p ps ih =>
    obtain ⟨k', v'⟩ := p
    simp only [List.map_cons, List.nodup_cons] at hnd
    have hps : PairsEnc ps := fun q hq => hm q (List.mem_cons_of_mem _ hq)
    by_cases hkk : k' = k
    · subst hkk
      simp only [mapInsert, ↓reduceIte]
      refine ⟨?_, by simpa using hnd, by simp, by simp [encPairs]; omega⟩
      intro q hq
      rcases List.mem_cons.mp hq with rfl | hq
      · exact ⟨hk, hv⟩
      · exact hps q hq
    · obtain ⟨i1, i2, i3, i4⟩ := ih hps hnd.2
      simp only [mapInsert, hkk, ↓reduceIte]
      refine ⟨?_, ?_, by simp; omega, by simp only [encPairs, List.length_append]; omega⟩
      · intro q hq
        rcases List.mem_cons.mp hq with rfl | hq
        · exact hm _ (List.mem_cons_self ..)
        · exact i1 q hq
      · simp only [List.map_cons, List.nodup_cons]
        refine ⟨fun hmem => ?_, i2⟩
        rcases mapInsert_keys ps k v k' hmem with h | h
        · exact hnd.1 h
        · exact hkk h

theorem decPairs_inv (encV : Nat → Bytes) (decV : Bytes → Except Err (Nat × Bytes))
    (hV : ∀ bs v r, decV bs = .ok (v, r) → v < 2 ^ 64 ∧ (encV v).length + r.length ≤ bs.length)
    (n : Nat) (acc : EidMap) (bs : Bytes) (m : EidMap) (r : Bytes)
    (h : decPairs decV n acc bs = .ok (m, r)) (hacc : PairsEnc acc) (hnd : (acc.map (·.1)).Nodup) :
    PairsEnc m ∧ (m.map (·.1)).Nodup ∧ m.length ≤ acc.length + n ∧
    (encPairs encV m).length + r.length ≤ (encPairs encV acc).length + bs.length := by
  induction n generalizing acc bs with
  | zero =>
    simp only [decPairs, Except.ok.injEq, Prod.mk.injEq] at h
    obtain ⟨rfl, rfl⟩ := h
    exact ⟨hacc, hnd, by omega, by omega⟩
  | succ n ih =>
    simp only [decPairs] at h
    obtain ⟨k, r1, h1, h⟩ := bindP_eq_ok.mp h
    obtain ⟨v, r2, h2, h⟩ := bindP_eq_ok.mp h
    obtain ⟨hk, hklen⟩ := decEid_inv h1
    obtain ⟨hv, hvlen⟩ := hV _ _ _ h2
    obtain ⟨i1, i2, i3, i4⟩ := mapInsert_inv encV acc k v hacc hnd hk hv
    obtain ⟨j1, j2, j3, j4⟩ := ih _ _ h i1 i2
    exact ⟨j1, j2, by omega, by omega⟩

/-! ### block values -/

theorem decUInt_inv {bs : Bytes} {v : Nat} {r : Bytes} (h : decUInt bs = .ok (v, r)) :
    v < 2 ^ 64 ∧ (encUInt v).length + r.length ≤ bs.length := by
  rw [encUInt_length]; exact decExpect_len h

theorem decFloatBits_inv {bs : Bytes} {v : Nat} {r : Bytes} (h : decFloatBits bs = .ok (v, r)) :
    v < 2 ^ 64 ∧ (encFloatBits v).length + r.length ≤ bs.length := by
  unfold encFloatBits; rw [encHead_length]; exact decExpect_len h

theorem decHopField_inv {bs : Bytes} {v : Nat} {r : Bytes} (h : decHopField bs = .ok (v, r)) :
    v ≤ 255 ∧ (encUInt v).length + r.length ≤ bs.length := by
  unfold decHopField at h
  obtain ⟨x, r1, h1, h⟩ := bindP_eq_ok.mp h
  split at h
  · simp at h
  · simp only [Except.ok.injEq, Prod.mk.injEq] at h
    obtain ⟨rfl, rfl⟩ := h
    exact ⟨by omega, (decUInt_inv h1).2⟩

theorem decBytes_inv {bs d r : Bytes} (h : decBytes bs = .ok (d, r)) :
    d.length ≤ maxInt32 ∧ (encBytes d).length + r.length ≤ bs.length := by
  unfold decBytes at h
  cases he : decExpect majBytes bs with
  | error e => simp [he] at h
  | ok x =>
    obtain ⟨n, r'⟩ := x
    simp only [he] at h
    obtain ⟨h1, h2, h3⟩ := readRaw_ok h
    obtain ⟨_, h5⟩ := decExpect_len he
    refine ⟨by omega, ?_⟩
    have : r'.length = d.length + r.length := by rw [h3, List.length_append]
    simp only [encBytes, List.length_append, encHead_length, h1]
    omega

/-- **What `ReadBlock` yields is encodable under the code it was read for, and its canonical form
is no longer than the data it was read from.** -/
theorem decValue_inv {cfg : Cfg} {bt : Nat} {data : Bytes} {v : BlockValue}
    (h : decValue cfg bt data = .ok v) (hbt : bt < 2 ^ 64) :
    BlockValue.Enc cfg v ∧ v.typeCode = bt ∧ (encValueInner v).length ≤ data.length := by
  unfold decValue at h
  split at h
  · rename_i hreg
    simp only [Except.ok.injEq] at h; subst h
    exact ⟨⟨by simpa using hreg, hbt⟩, rfl, Nat.le_refl _⟩
  · rename_i hreg
    have hreg' : cfg.registered bt = true := by simpa using hreg
    split at h
    · rename_i hb; simp only [Except.ok.injEq] at h; subst h
      exact ⟨trivial, hb.symm, Nat.le_refl _⟩
    split at h
    · rename_i hb
      obtain ⟨e, r, h1, h⟩ := bindP_eq_ok.mp h
      simp only [Except.ok.injEq] at h; subst h
      obtain ⟨he, hl⟩ := decEid_inv h1
      exact ⟨he, hb.symm, by simp only [encValueInner]; omega⟩
    split at h
    · rename_i hb
      obtain ⟨n, r, h1, h⟩ := bindP_eq_ok.mp h
      simp only [Except.ok.injEq] at h; subst h
      obtain ⟨hn, hl⟩ := decUInt_inv h1
      exact ⟨hn, hb.symm, by simp only [encValueInner]; omega⟩
    split at h
    · rename_i hb
      obtain ⟨l, r, h1, h⟩ := bindP_eq_ok.mp h
      split at h
      · simp at h
      · rename_i hl2
        have hl2' : l = 2 := by simpa using hl2
        subst hl2'
        obtain ⟨lim, r2, h2, h⟩ := bindP_eq_ok.mp h
        obtain ⟨cnt, r3, h3, h⟩ := bindP_eq_ok.mp h
        simp only [Except.ok.injEq] at h; subst h
        obtain ⟨_, hl1⟩ := decExpect_len h1
        obtain ⟨hlim, hl2⟩ := decHopField_inv h2
        obtain ⟨hcnt, hl3⟩ := decHopField_inv h3
        refine ⟨⟨hlim, hcnt⟩, hb.symm, ?_⟩
        simp only [encValueInner, List.length_append, encArray_length] at *
        omega
    split at h
    · rename_i hb
      obtain ⟨n, r, h1, h⟩ := bindP_eq_ok.mp h
      simp only [Except.ok.injEq] at h; subst h
      obtain ⟨hn, hl⟩ := decUInt_inv h1
      exact ⟨⟨by rw [← hb]; exact hreg', hn⟩, hb.symm, by simp only [encValueInner]; omega⟩
    split at h
    · rename_i hb
      obtain ⟨l, r, h1, h⟩ := bindP_eq_ok.mp h
      split at h
      · simp at h
      · rename_i hl3
        have hl3' : l = 3 := by simpa using hl3
        subst hl3'
        obtain ⟨id, r2, h2, h⟩ := bindP_eq_ok.mp h
        obtain ⟨ts, r3, h3, h⟩ := bindP_eq_ok.mp h
        obtain ⟨n, r4, h4, h⟩ := bindP_eq_ok.mp h
        obtain ⟨peers, r5, h5, h⟩ := bindP_eq_ok.mp h
        simp only [Except.ok.injEq] at h; subst h
        obtain ⟨_, hl1⟩ := decExpect_len h1
        obtain ⟨hid, hl2⟩ := decEid_inv h2
        obtain ⟨hts, hl3⟩ := decUInt_inv h3
        obtain ⟨hn, hl4⟩ := decExpect_len h4
        obtain ⟨p1, p2, p3, p4⟩ := decPairs_inv encUInt decUInt (fun _ _ _ hh => decUInt_inv hh)
          n [] r4 peers r5 h5 (by intro p hp; simp at hp) (by simp)
        simp only [List.length_nil, Nat.zero_add, encPairs] at p3 p4
        have hmono := headLen_mono p3
        refine ⟨⟨by rw [← hb]; exact hreg', hid, hts, p1, p2, by unfold U64; omega⟩, hb.symm, ?_⟩
        simp only [encValueInner, List.length_append, encArray_length, encHead_length] at *
        omega
    split at h
    · rename_i hb
      obtain ⟨n, r4, h4, h⟩ := bindP_eq_ok.mp h
      obtain ⟨m, r5, h5, h⟩ := bindP_eq_ok.mp h
      simp only [Except.ok.injEq] at h; subst h
      obtain ⟨hn, hl4⟩ := decExpect_len h4
      obtain ⟨p1, p2, p3, p4⟩ := decPairs_inv encFloatBits decFloatBits (fun _ _ _ hh => decFloatBits_inv hh)
        n [] r4 m r5 h5 (by intro p hp; simp at hp) (by simp)
      simp only [List.length_nil, Nat.zero_add, encPairs] at p3 p4
      have hmono := headLen_mono p3
      refine ⟨⟨by rw [← hb]; exact hreg', p1, p2, by unfold U64; omega⟩, hb.symm, ?_⟩
      simp only [encValueInner, List.length_append, encHead_length] at *
      omega
    split at h
    · rename_i hb
      obtain ⟨l, r, h1, h⟩ := bindP_eq_ok.mp h
      split at h
      · simp at h
      · rename_i hl2
        have hl2' : l = 2 := by simpa using hl2
        subst hl2'
        obtain ⟨pk, r2, h2, h⟩ := bindP_eq_ok.mp h
        obtain ⟨sg, r3, h3, h⟩ := bindP_eq_ok.mp h
        simp only [Except.ok.injEq] at h; subst h
        obtain ⟨_, hl1⟩ := decExpect_len h1
        obtain ⟨hpk, hl2⟩ := decBytes_inv h2
        obtain ⟨hsg, hl3⟩ := decBytes_inv h3
        refine ⟨⟨by rw [← hb]; exact hreg', hpk, hsg⟩, hb.symm, ?_⟩
        simp only [encValueInner, List.length_append, encArray_length] at *
        omega
    · -- registered, but none of the eight codes: impossible
      exfalso
      rename_i h1 h6 h7 h10 h192 h193 h194 h195
      simp only [Cfg.registered, Bool.or_eq_true, beq_iff_eq, Bool.and_eq_true] at hreg'
      rcases hreg' with (((h | h) | h) | h) | ⟨((h | h) | h) | h, _⟩ <;> contradiction

/-! ### primary block -/

theorem decTimestamp_inv {bs : Bytes} {ts : Nat × Nat} {r : Bytes} (h : decTimestamp bs = .ok (ts, r)) :
    ts.1 < 2 ^ 64 ∧ ts.2 < 2 ^ 64 := by
  unfold decTimestamp at h
  obtain ⟨l, r1, _, h⟩ := bindP_eq_ok.mp h
  split at h
  · simp at h
  · obtain ⟨t, r2, h2, h⟩ := bindP_eq_ok.mp h
    obtain ⟨s, r3, h3, h⟩ := bindP_eq_ok.mp h
    simp only [Except.ok.injEq, Prod.mk.injEq] at h
    obtain ⟨rfl, rfl⟩ := h
    exact ⟨(decUInt_inv h2).1, (decUInt_inv h3).1⟩

theorem decPrimaryFields_inv {bs : Bytes} {bl : Nat} {p : Primary} {r : Bytes}
    (h : decPrimaryFields true bs = .ok ((bl, p), r)) : Primary.Enc p := by
  unfold decPrimaryFields at h
  obtain ⟨bl', r1, _, h⟩ := bindP_eq_ok.mp h
  split at h
  · simp at h
  obtain ⟨ver, r2, _, h⟩ := bindP_eq_ok.mp h
  split at h
  · simp at h
  obtain ⟨flags, r3, h3, h⟩ := bindP_eq_ok.mp h
  obtain ⟨ct, r4, h4, h⟩ := bindP_eq_ok.mp h
  split at h
  · simp at h
  rename_i hstrict
  obtain ⟨dst, r5, h5, h⟩ := bindP_eq_ok.mp h
  obtain ⟨src, r6, h6, h⟩ := bindP_eq_ok.mp h
  obtain ⟨rpt, r7, h7, h⟩ := bindP_eq_ok.mp h
  obtain ⟨ts, r8, h8, h⟩ := bindP_eq_ok.mp h
  obtain ⟨lt, r9, h9, h⟩ := bindP_eq_ok.mp h
  obtain ⟨ft, r10, h10, h⟩ := bindP_eq_ok.mp h
  simp only [Except.ok.injEq, Prod.mk.injEq] at h
  obtain ⟨⟨rfl, rfl⟩, rfl⟩ := h
  simp only [Bool.true_and, Bool.or_eq_true, Bool.not_eq_true', bne_iff_ne, ne_eq, not_or,
    Bool.not_eq_false, Decidable.not_not] at hstrict
  obtain ⟨⟨hck, hfr⟩, _⟩ := hstrict
  obtain ⟨htt, hts⟩ := decTimestamp_inv h8
  have hft : ft.1 < 2 ^ 64 ∧ ft.2 < 2 ^ 64 ∧ (has flags bIsFragment = false → ft.1 = 0 ∧ ft.2 = 0) := by
    split at h10
    · rename_i hbl
      obtain ⟨off, r11, h11, h10⟩ := bindP_eq_ok.mp h10
      obtain ⟨tot, r12, h12, h10⟩ := bindP_eq_ok.mp h10
      simp only [Except.ok.injEq, Prod.mk.injEq] at h10
      obtain ⟨rfl, rfl⟩ := h10
      refine ⟨(decUInt_inv h11).1, (decUInt_inv h12).1, fun hnf => ?_⟩
      rw [hnf] at hfr
      simp [hbl] at hfr
    · simp only [Except.ok.injEq, Prod.mk.injEq] at h10
      obtain ⟨rfl, rfl⟩ := h10
      exact ⟨by decide, by decide, fun _ => ⟨rfl, rfl⟩⟩
  exact ⟨rfl, (decUInt_inv h3).1, by simpa [crcKnown] using hck, (decEid_inv h5).1, (decEid_inv h6).1,
    (decEid_inv h7).1, htt, hts, (decUInt_inv h9).1, hft.1, hft.2.1, hft.2.2⟩

theorem decPrimary_inv {bs : Bytes} {p : Primary} {r : Bytes} (h : decPrimary true bs = .ok (p, r)) :
    Primary.Enc p := by
  unfold decPrimary at h
  obtain ⟨x, r1, h1, h⟩ := bindP_eq_ok.mp h
  obtain ⟨bl, p'⟩ := x
  have hp' := decPrimaryFields_inv h1
  split at h
  · split at h
    · simp at h
    · obtain ⟨cv, r2, _, h⟩ := bindP_eq_ok.mp h
      split at h
      · simp only [Except.ok.injEq, Prod.mk.injEq] at h
        rw [← h.1]; exact hp'
      · simp at h
  · simp only [Except.ok.injEq, Prod.mk.injEq] at h
    rw [← h.1]; exact hp'

/-! ### canonical block, block list, bundle -/

theorem rawHead_block {maj : Nat} {bs : Bytes} {k : Nat → Bytes → CanonRes} {c : Canonical} {r : Bytes}
    (h : rawHead maj bs k = .block c r) :
    ∃ n r1, decExpect maj bs = .ok (n, r1) ∧ k n r1 = .block c r := by
  unfold rawHead at h
  split at h
  · rename_i n r1 he; exact ⟨n, r1, he, h⟩
  · simp at h
  · simp at h

theorem decCanonFields_block {cfg : Cfg} {bl : Nat} {r0 : Bytes} {k : Canonical → Bytes → CanonRes}
    {c : Canonical} {r : Bytes} (hs : cfg.strict = true)
    (h : decCanonFields cfg bl r0 k = .block c r) :
    ∃ c' r1, Canonical.Enc cfg c' ∧ k c' r1 = .block c r := by
  unfold decCanonFields at h
  obtain ⟨bt, r1, h1, h⟩ := rawHead_block h
  obtain ⟨num, r2, h2, h⟩ := rawHead_block h
  obtain ⟨flags, r3, h3, h⟩ := rawHead_block h
  obtain ⟨ct, r4, h4, h⟩ := rawHead_block h
  split at h
  · simp at h
  rename_i hstrict
  simp only [hs, Bool.true_and, Bool.or_eq_true, Bool.not_eq_true', not_or, Bool.not_eq_false] at hstrict
  split at h
  · simp at h
  rename_i data r5 hd
  split at h
  · simp at h
  rename_i v hv
  obtain ⟨hvenc, _, hvlen⟩ := decValue_inv hv (decExpect_len h1).1
  obtain ⟨hdl, _⟩ := decBytes_inv hd
  refine ⟨⟨num, flags, ct, v⟩, r5, ?_, h⟩
  unfold Canonical.Enc U64
  exact ⟨(decExpect_len h2).1, (decExpect_len h3).1, by simpa [crcKnown] using hstrict.1, hvenc,
    by simp only; omega⟩

theorem decCanon_block {cfg : Cfg} {bs : Bytes} {c : Canonical} {r : Bytes} (hs : cfg.strict = true)
    (h : decCanon cfg bs = .block c r) : Canonical.Enc cfg c := by
  unfold decCanon at h
  obtain ⟨bl, r0, _, h⟩ := rawHead_block h
  split at h
  · simp at h
  obtain ⟨c', r1, hc', h⟩ := decCanonFields_block hs h
  split at h
  · split at h
    · simp at h
    · obtain ⟨n, r2, _, h⟩ := rawHead_block h
      split at h
      · simp at h
      · split at h
        · simp only [CanonRes.block.injEq] at h
          rw [← h.1]; exact hc'
        · simp at h
  · simp only [CanonRes.block.injEq] at h
    rw [← h.1]; exact hc'

theorem decBlocks_inv {cfg : Cfg} (hs : cfg.strict = true) (fuel : Nat) (bs : Bytes)
    (cs : List Canonical) (r : Bytes) (h : decBlocks cfg fuel bs = .ok (cs, r)) :
    ∀ c ∈ cs, Canonical.Enc cfg c := by
  induction fuel generalizing bs cs r with
  | zero => simp [decBlocks] at h
  | succ f ih =>
    simp only [decBlocks] at h
    split at h
    · simp only [Except.ok.injEq, Prod.mk.injEq] at h
      rw [← h.1]; simp
    · simp at h
    · rename_i c r1 hc
      split at h
      · simp at h
      · rename_i cs' r' hcs
        simp only [Except.ok.injEq, Prod.mk.injEq] at h
        rw [← h.1]
        intro d hd
        rcases List.mem_cons.mp hd with rfl | hd
        · exact decCanon_block hs hc
        · exact ih r1 cs' r' hcs d hd

theorem wrapErr_ok {α : Type} {x : Except Err α} {a : α} (h : wrapErr x = .ok a) : x = .ok a := by
  cases x with
  | error e => simp [wrapErr] at h
  | ok b => simpa [wrapErr] using h

/-- **Everything the decoder yields is encodable.** -/
theorem parseRaw_inv {cfg : Cfg} (hs : cfg.strict = true) {bs : Bytes} {b : Bundle} {r : Bytes}
    (h : parseRaw cfg bs = .ok (b, r)) : Encodable cfg b := by
  unfold parseRaw at h
  split at h
  · simp at h
  · split at h
    · simp at h
    · obtain ⟨p, r1, h1, h⟩ := bindP_eq_ok.mp h
      obtain ⟨cs, r2, h2, h⟩ := bindP_eq_ok.mp h
      simp only [Except.ok.injEq, Prod.mk.injEq] at h
      rw [← h.1]
      have h1' := wrapErr_ok h1
      rw [hs] at h1'
      exact ⟨decPrimary_inv h1', decBlocks_inv hs _ _ _ _ h2⟩

/-! ### the fuel of the block loop is never the limiting factor -/

theorem rawHead_block_len {maj : Nat} {bs : Bytes} {k : Nat → Bytes → CanonRes} {c : Canonical} {r : Bytes}
    (h : rawHead maj bs k = .block c r) :
    ∃ n r1, r1.length < bs.length ∧ k n r1 = .block c r := by
  obtain ⟨n, r1, he, hk⟩ := rawHead_block h
  exact ⟨n, r1, (decExpect_ok he).2.1, hk⟩

theorem decCanonFields_block_len {cfg : Cfg} {bl : Nat} {r0 : Bytes} {k : Canonical → Bytes → CanonRes}
    {c : Canonical} {r : Bytes} (h : decCanonFields cfg bl r0 k = .block c r) :
    ∃ c' r1, r1.length < r0.length ∧ k c' r1 = .block c r := by
  unfold decCanonFields at h
  obtain ⟨_, r1, l1, h⟩ := rawHead_block_len h
  obtain ⟨_, r2, l2, h⟩ := rawHead_block_len h
  obtain ⟨_, r3, l3, h⟩ := rawHead_block_len h
  obtain ⟨_, r4, l4, h⟩ := rawHead_block_len h
  split at h
  · simp at h
  split at h
  · simp at h
  rename_i data r5 hd
  split at h
  · simp at h
  exact ⟨_, r5, by have := (decBytes_ok hd).2; omega, h⟩

/-- A successfully read block consumes at least one byte. -/
theorem decCanon_block_len {cfg : Cfg} {bs : Bytes} {c : Canonical} {r : Bytes}
    (h : decCanon cfg bs = .block c r) : r.length < bs.length := by
  unfold decCanon at h
  obtain ⟨bl, r0, l0, h⟩ := rawHead_block_len h
  split at h
  · simp at h
  obtain ⟨c', r1, l1, h⟩ := decCanonFields_block_len h
  split at h
  · split at h
    · simp at h
    · obtain ⟨n, r2, l2, h⟩ := rawHead_block_len h
      split at h
      · simp at h
      · rename_i cv r' hr
        split at h
        · simp only [CanonRes.block.injEq] at h
          obtain ⟨_, _, hcat⟩ := readRaw_ok hr
          have : r2.length = cv.length + r'.length := by rw [hcat, List.length_append]
          rw [← h.2]; omega
        · simp at h
  · simp only [CanonRes.block.injEq] at h
    rw [← h.2]; omega

/-- **Fuel independence**: with more fuel than input bytes the block loop is the unbounded loop of
`Bundle.UnmarshalCbor` — its result does not depend on the amount of fuel. -/
theorem decBlocks_fuel (cfg : Cfg) (f1 f2 : Nat) (bs : Bytes) (h1 : bs.length < f1) (h2 : bs.length < f2) :
    decBlocks cfg f1 bs = decBlocks cfg f2 bs := by
  induction f1 generalizing f2 bs with
  | zero => omega
  | succ f1 ih =>
    cases f2 with
    | zero => omega
    | succ f2 =>
      simp only [decBlocks]
      cases hc : decCanon cfg bs with
      | brk r => rfl
      | err e => rfl
      | block c r =>
        have hl := decCanon_block_len hc
        simp only
        rw [ih f2 r (by omega) (by omega)]

end Dtn7.Bundle.Lemmas
