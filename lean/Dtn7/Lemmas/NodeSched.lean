/-
Lemmas about the interleavings of concurrent failure reports (`Dtn7.Model.NodeSched`).
With the mutex every schedule leaves exactly the failed peers out of the sent list.
-/
import Dtn7.Model.NodeSched

namespace Dtn7.NodeSched
open Dtn7.Node

theorem eraseFirst_eq_filter (e : Eid) : ∀ (l : List Eid), l.Nodup → eraseFirst e l = l.filter (fun x => !(x == e))
  | [], _ => rfl
  | x :: xs, h => by
    have hx : x ∉ xs := (List.nodup_cons.mp h).1
    have hxs : xs.Nodup := (List.nodup_cons.mp h).2
    by_cases hxe : x = e
    · subst hxe
      have : xs.filter (fun y => !(y == x)) = xs := by
        apply List.filter_eq_self.mpr
        intro a ha
        have : a ≠ x := fun h' => hx (h' ▸ ha)
        simp [this]
      simp [eraseFirst, this]
    · have ih := eraseFirst_eq_filter e xs hxs
      simp [eraseFirst, hxe, ih]

/-- The invariant of the locked protocol. `W` is the list of peers already written off. -/
structure Inv (sent0 failed : List Eid) (s : St) : Prop where
  eids : s.threads.map (·.eid) = failed
  written : ∃ W : List Eid, s.sent = sent0.filter (fun x => !W.contains x) ∧
      (∀ (j : Nat) (t : Thread), s.threads[j]? = some t → (t.pc = Pc.rel ∨ t.pc = Pc.done) → t.eid ∈ W) ∧
      (∀ e ∈ W, e ∈ failed)
  lockIff : ∀ (j : Nat) (t : Thread), s.threads[j]? = some t →
      ((t.pc = Pc.read ∨ t.pc = Pc.write ∨ t.pc = Pc.rel) ↔ s.lock = some j)
  locOk : ∀ (j : Nat) (t : Thread), s.threads[j]? = some t → t.pc = Pc.write → t.loc = s.sent

theorem map_eid_set (ts : List Thread) (i : Nat) (t t' : Thread) (h : ts[i]? = some t) (he : t'.eid = t.eid) :
    (ts.set i t').map (·.eid) = ts.map (·.eid) := by
  apply List.ext_getElem?
  intro j
  simp only [List.getElem?_map, List.getElem?_set]
  by_cases hij : i = j
  · subst hij
    rcases List.getElem?_eq_some_iff.mp h with ⟨hlt, hget⟩
    simp [hlt, he, hget]
  · simp [hij]

theorem get_set_self (ts : List Thread) (i : Nat) (t t' : Thread) (h : ts[i]? = some t) :
    (ts.set i t')[i]? = some t' := by
  have hlt : i < ts.length := by
    rcases List.getElem?_eq_some_iff.mp h with ⟨hl, _⟩
    exact hl
  simp [List.getElem?_set, hlt]

theorem get_set_other (ts : List Thread) (i j : Nat) (t' : Thread) (h : i ≠ j) :
    (ts.set i t')[j]? = ts[j]? := by
  simp [List.getElem?_set, h]

theorem inv_start (sent failed : List Eid) : Inv sent failed (start true sent failed) := by
  refine ⟨?_, ⟨[], ?_, ?_, ?_⟩, ?_, ?_⟩
  · simp [start, Function.comp_def]
  · simp [start]
    exact (List.filter_eq_self.mpr (fun _ _ => rfl)).symm
  · intro j t h hp
    simp only [start, List.getElem?_map] at h
    cases hf : failed[j]? with
    | none => simp [hf] at h
    | some e =>
      simp [hf] at h
      subst h
      simp at hp
  · intro e he; cases he
  · intro j t h
    simp only [start, List.getElem?_map] at h
    cases hf : failed[j]? with
    | none => simp [hf] at h
    | some e =>
      simp [hf] at h
      subst h
      simp [start]
  · intro j t h hp
    simp only [start, List.getElem?_map] at h
    cases hf : failed[j]? with
    | none => simp [hf] at h
    | some e =>
      simp [hf] at h
      subst h
      simp at hp

theorem inv_step (sent0 failed : List Eid) (h0 : sent0.Nodup) (s : St) (i : Nat) (inv : Inv sent0 failed s) :
    Inv sent0 failed (step true s i) := by
  unfold step
  cases hti : s.threads[i]? with
  | none => simpa using inv
  | some t =>
    simp only
    rcases inv with ⟨heids, ⟨W, hW1, hW2, hW3⟩, hlock, hloc⟩
    cases hpc : t.pc with
    | acq =>
      simp only
      cases hl : s.lock with
      | some k => simpa using (⟨heids, ⟨W, hW1, hW2, hW3⟩, hlock, hloc⟩ : Inv sent0 failed s)
      | none =>
        simp only [St.setThread]
        refine ⟨?_, ⟨W, hW1, ?_, hW3⟩, ?_, ?_⟩
        · show List.map _ (s.threads.set i _) = failed; rw [map_eid_set s.threads i t _ hti (by rfl)]; exact heids
        · intro j u hj hp
          by_cases hij : i = j
          · subst hij
            rw [get_set_self _ _ _ _ hti] at hj
            cases hj
            simp at hp
          · rw [get_set_other _ _ _ _ hij] at hj
            exact hW2 j u hj hp
        · intro j u hj
          by_cases hij : i = j
          · subst hij
            rw [get_set_self _ _ _ _ hti] at hj
            cases hj
            simp
          · rw [get_set_other _ _ _ _ hij] at hj
            have := hlock j u hj
            rw [hl] at this
            constructor
            · intro hp
              exact absurd (this.mp hp) (by simp)
            · intro hk
              simp at hk
              exact absurd hk hij
        · intro j u hj hp
          by_cases hij : i = j
          · subst hij
            rw [get_set_self _ _ _ _ hti] at hj
            cases hj
            simp at hp
          · rw [get_set_other _ _ _ _ hij] at hj
            exact hloc j u hj hp
    | read =>
      simp only [St.setThread]
      have hli : s.lock = some i := (hlock i t hti).mp (Or.inl hpc)
      refine ⟨?_, ⟨W, hW1, ?_, hW3⟩, ?_, ?_⟩
      · show List.map _ (s.threads.set i _) = failed; rw [map_eid_set s.threads i t _ hti (by rfl)]; exact heids
      · intro j u hj hp
        by_cases hij : i = j
        · subst hij
          rw [get_set_self _ _ _ _ hti] at hj
          cases hj
          simp at hp
        · rw [get_set_other _ _ _ _ hij] at hj
          exact hW2 j u hj hp
      · intro j u hj
        by_cases hij : i = j
        · subst hij
          rw [get_set_self _ _ _ _ hti] at hj
          cases hj
          simp [hli]
        · rw [get_set_other _ _ _ _ hij] at hj
          exact hlock j u hj
      · intro j u hj hp
        by_cases hij : i = j
        · subst hij
          rw [get_set_self _ _ _ _ hti] at hj
          cases hj
          rfl
        · rw [get_set_other _ _ _ _ hij] at hj
          exact hloc j u hj hp
    | write =>
      simp only [St.setThread, if_true]
      have hli : s.lock = some i := (hlock i t hti).mp (Or.inr (Or.inl hpc))
      have hlc : t.loc = s.sent := hloc i t hti hpc
      have hnd : s.sent.Nodup := by
        rw [hW1]
        exact h0.sublist List.filter_sublist
      have hte : t.eid ∈ failed := by
        rw [← heids]
        exact List.mem_map.mpr ⟨t, List.mem_of_getElem? hti, rfl⟩
      refine ⟨?_, ⟨t.eid :: W, ?_, ?_, ?_⟩, ?_, ?_⟩
      · show List.map _ (s.threads.set i _) = failed; rw [map_eid_set s.threads i t _ hti (by rfl)]; exact heids
      · show eraseFirst t.eid t.loc = _
        rw [hlc, eraseFirst_eq_filter _ _ hnd, hW1, List.filter_filter]
        apply List.filter_congr
        intro x _
        by_cases hx : x = t.eid
        · simp [hx]
        · have : ¬ (t.eid = x) := fun h => hx h.symm
          simp [hx, this, List.contains_cons]
      · intro j u hj hp
        by_cases hij : i = j
        · subst hij
          rw [get_set_self _ _ _ _ hti] at hj
          cases hj
          simp
        · rw [get_set_other _ _ _ _ hij] at hj
          exact List.mem_cons_of_mem _ (hW2 j u hj hp)
      · intro e he
        rcases List.mem_cons.mp he with h | h
        · exact h ▸ hte
        · exact hW3 e h
      · intro j u hj
        by_cases hij : i = j
        · subst hij
          rw [get_set_self _ _ _ _ hti] at hj
          cases hj
          simp [hli]
        · rw [get_set_other _ _ _ _ hij] at hj
          exact hlock j u hj
      · intro j u hj hp
        by_cases hij : i = j
        · subst hij
          rw [get_set_self _ _ _ _ hti] at hj
          cases hj
          simp at hp
        · rw [get_set_other _ _ _ _ hij] at hj
          -- another thread in `write` would hold the lock as well
          have := (hlock j u hj).mp (Or.inr (Or.inl hp))
          rw [hli] at this
          exact absurd (Option.some.inj this) hij
    | rel =>
      simp only [St.setThread]
      have hli : s.lock = some i := (hlock i t hti).mp (Or.inr (Or.inr hpc))
      refine ⟨?_, ⟨W, hW1, ?_, hW3⟩, ?_, ?_⟩
      · show List.map _ (s.threads.set i _) = failed; rw [map_eid_set s.threads i t _ hti (by rfl)]; exact heids
      · intro j u hj hp
        by_cases hij : i = j
        · subst hij
          rw [get_set_self _ _ _ _ hti] at hj
          cases hj
          exact hW2 i t hti (Or.inl hpc)
        · rw [get_set_other _ _ _ _ hij] at hj
          exact hW2 j u hj hp
      · intro j u hj
        by_cases hij : i = j
        · subst hij
          rw [get_set_self _ _ _ _ hti] at hj
          cases hj
          simp
        · rw [get_set_other _ _ _ _ hij] at hj
          have := hlock j u hj
          rw [hli] at this
          constructor
          · intro hp
            exact absurd (Option.some.inj (this.mp hp)) hij
          · intro hk
            simp at hk
      · intro j u hj hp
        by_cases hij : i = j
        · subst hij
          rw [get_set_self _ _ _ _ hti] at hj
          cases hj
          simp at hp
        · rw [get_set_other _ _ _ _ hij] at hj
          exact hloc j u hj hp
    | done =>
      simpa using (⟨heids, ⟨W, hW1, hW2, hW3⟩, hlock, hloc⟩ : Inv sent0 failed s)

theorem inv_run (sent0 failed : List Eid) (h0 : sent0.Nodup) (σ : List Nat) :
    ∀ s, Inv sent0 failed s → Inv sent0 failed (run true s σ) := by
  induction σ with
  | nil => intro s h; exact h
  | cons i σ ih =>
    intro s h
    exact ih _ (inv_step sent0 failed h0 s i h)

/-- With the mutex: whatever the schedule, once all failure reports are finished, exactly the failed
peers are out of the sent list. -/
theorem locked_all_recorded (sent failed : List Eid) (h0 : sent.Nodup) (σ : List Nat)
    (hd : allDone (run true (start true sent failed) σ) = true) :
    (∀ e ∈ failed, e ∉ (run true (start true sent failed) σ).sent) ∧
    (∀ x ∈ sent, x ∉ failed → x ∈ (run true (start true sent failed) σ).sent) := by
  have inv := inv_run sent failed h0 σ _ (inv_start sent failed)
  rcases inv with ⟨heids, ⟨W, hW1, hW2, hW3⟩, _, _⟩
  constructor
  · intro e he
    rw [← heids] at he
    rcases List.mem_map.mp he with ⟨t, ht, hte⟩
    rcases List.mem_iff_getElem?.mp ht with ⟨j, hj⟩
    have hdone : t.pc = .done := by
      have := List.all_eq_true.mp hd t ht
      simpa using this
    have hw : t.eid ∈ W := hW2 j t hj (Or.inr hdone)
    rw [hW1]
    intro hmem
    have := (List.mem_filter.mp hmem).2
    rw [← hte] at this
    simp [hw] at this
  · intro x hx hnf
    rw [hW1]
    apply List.mem_filter.mpr
    refine ⟨hx, ?_⟩
    have : x ∉ W := fun h => hnf (hW3 x h)
    simp [this]

end Dtn7.NodeSched
