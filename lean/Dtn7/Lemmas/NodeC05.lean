/-
C05: the retention invariant along every history (for every send oracle, every routing algorithm).
-/
import Dtn7.Lemmas.NodeEvents
import Dtn7.Model.NodeSpec

namespace Dtn7.Node

/-! ## Spec predicates vs. model predicates -/

/-- Bundles that agree in everything the processing decisions depend on (all but tag, previous node and
spray block). -/
def SameBody (a b : Bundle) : Prop :=
  a.src = b.src ∧ a.ts = b.ts ∧ a.seq = b.seq ∧ a.dst = b.dst ∧ a.lifetime = b.lifetime ∧ a.hop = b.hop ∧
  a.age = b.age ∧ a.delBlock = b.delBlock

theorem SameBody.refl (a : Bundle) : SameBody a a := ⟨rfl, rfl, rfl, rfl, rfl, rfl, rfl, rfl⟩

theorem SameBody.key {a b : Bundle} (h : SameBody a b) : a.key = b.key := by
  unfold Bundle.key
  rw [h.1, h.2.1, h.2.2.1]

theorem SameBody.trans {a b c : Bundle} (h1 : SameBody a b) (h2 : SameBody b c) : SameBody a c :=
  ⟨h1.1.trans h2.1, h1.2.1.trans h2.2.1, h1.2.2.1.trans h2.2.2.1, h1.2.2.2.1.trans h2.2.2.2.1,
   h1.2.2.2.2.1.trans h2.2.2.2.2.1, h1.2.2.2.2.2.1.trans h2.2.2.2.2.2.1,
   h1.2.2.2.2.2.2.1.trans h2.2.2.2.2.2.2.1, h1.2.2.2.2.2.2.2.trans h2.2.2.2.2.2.2.2⟩

theorem forwardable_of_ok (now at_ : Nat) (b : Bundle) (h : lifetimeOk now at_ b = true)
    (hh : hopRefused b = false) : forwardable now b := by
  unfold lifetimeOk at h
  simp only [Bool.and_eq_true] at h
  refine ⟨?_, ?_, ?_⟩
  · unfold hopExceeded; unfold hopRefused at hh; exact hh
  · unfold lifetimeExceeded
    by_cases hts : (b.ts == 0) = true
    · simp only [hts, if_true] at h ⊢
      cases ha : b.age with
      | none => simp [ha] at h
      | some a =>
        simp only [ha] at h ⊢
        have := h.2
        simp at this ⊢
        omega
    · simp only [hts, Bool.false_eq_true, if_false] at h ⊢
      have := h.1
      simp at this ⊢
      omega
  · unfold ageExpired
    cases ha : b.age with
    | none => rfl
    | some a =>
      simp only [ha] at h ⊢
      have := h.2
      simp at this ⊢
      omega

theorem forwardable_congr {a b : Bundle} (now : Nat) (h : SameBody a b) (hf : forwardable now b) :
    forwardable now a := by
  unfold forwardable hopExceeded lifetimeExceeded ageExpired at *
  rw [h.2.1, h.2.2.2.2.1, h.2.2.2.2.2.1, h.2.2.2.2.2.2.1]
  exact hf

theorem calcExpires_ok (c : Cfg) (hexp : c.expiryNow = true) (t at_ : Nat) (b : Bundle)
    (h : lifetimeOk t at_ b = true) : ¬ calcExpires c at_ b < t := by
  unfold lifetimeOk at h
  simp only [Bool.and_eq_true] at h
  unfold calcExpires
  by_cases hts : (b.ts == 0) = true
  · simp only [hexp, hts, Bool.and_self, if_true] at h ⊢
    cases ha : b.age with
    | none => simp [ha] at h
    | some a =>
      simp only [ha] at h ⊢
      have := h.2
      simp at this ⊢
      omega
  · simp only [hts, Bool.and_false, Bool.false_eq_true, if_false] at h ⊢
    have := h.1
    simp at this
    omega

theorem calcExpires_congr {a b : Bundle} (c : Cfg) (at_ : Nat) (h : SameBody a b) :
    calcExpires c at_ a = calcExpires c at_ b := by
  unfold calcExpires
  rw [h.2.1, h.2.2.2.2.1, h.2.2.2.2.2.2.1]

/-! ## The view of the model's store -/

theorem Store.get_of_mem {s : Store} (hn : s.keys.Nodup) {k : Key} {it : Item} (h : (k, it) ∈ s) :
    s.get k = some it := by
  induction s with
  | nil => cases h
  | cons kv s ih =>
    obtain ⟨k', it'⟩ := kv
    simp only [Store.keys, List.map_cons, List.nodup_cons] at hn
    rcases List.mem_cons.mp h with h | h
    · cases h
      simp [Store.get]
    · have hk : k' ≠ k := by
        intro e
        subst e
        exact hn.1 (List.mem_map.mpr ⟨(k', it), h, rfl⟩)
      simp only [Store.get, hk, if_false]
      exact ih hn.2 h

theorem Store.mem_of_get {s : Store} {k : Key} {it : Item} (h : s.get k = some it) : (k, it) ∈ s := by
  induction s with
  | nil => simp [Store.get] at h
  | cons kv s ih =>
    obtain ⟨k', it'⟩ := kv
    by_cases hk : k' = k
    · subst hk
      simp [Store.get] at h
      subst h
      exact List.mem_cons_self
    · simp only [Store.get, hk, if_false] at h
      exact List.mem_cons_of_mem _ (ih h)

theorem viewOf_get (n : Node) (k : Key) :
    (viewOf n).get k = (n.store.get k).map (fun it => itemView (k, it)) := by
  unfold viewOf View.get
  simp only
  induction n.store with
  | nil => simp [Store.get]
  | cons kv s ih =>
    obtain ⟨k', it'⟩ := kv
    by_cases hk : k' = k
    · subst hk
      simp [Store.get, itemView]
    · have : (k' == k) = false := by simp [hk]
      simp only [List.map_cons, List.find?_cons, itemView, this, Store.get, hk, if_false]
      exact ih


theorem mem_viewOf {n : Node} {i : ItemView} (w : WF n) (h : i ∈ (viewOf n).items) :
    ∃ k it, n.store.get k = some it ∧ i = itemView (k, it) := by
  rcases List.mem_map.mp h with ⟨⟨k, it⟩, hkv, rfl⟩
  exact ⟨k, it, Store.get_of_mem w.nodup hkv, rfl⟩

/-! ## Domain of the histories -/

def submitted : List Event → List Bundle
  | [] => []
  | .submit b :: es => b :: submitted es
  | _ :: es => submitted es

def received : List Event → List Bundle
  | [] => []
  | .receive b _ :: es => b :: received es
  | _ :: es => received es

theorem submitted_append (a b : List Event) : submitted (a ++ b) = submitted a ++ submitted b := by
  induction a with
  | nil => rfl
  | cons e a ih => cases e <;> simp [submitted, ih]

theorem received_append (a b : List Event) : received (a ++ b) = received a ++ received b := by
  induction a with
  | nil => rfl
  | cons e a ih => cases e <;> simp [received, ih]

/-- The histories the retention theorem speaks about:
* applications hand over bundles with the builder's sequence number 0 and pairwise different
  (source, creation time) — the class excluded here is D17 (two bundles of one source and millisecond);
* no bundle delivered by a peer carries the (source, creation time) of a submitted one. -/
structure Domain (h : List Event) : Prop where
  subSeq : ∀ b ∈ submitted h, b.seq = 0
  subDistinct : (submitted h).Pairwise (fun a b => (a.src, a.ts) ≠ (b.src, b.ts))
  disjoint : ∀ a ∈ submitted h, ∀ b ∈ received h, (a.src, a.ts) ≠ (b.src, b.ts)

theorem pairwise_ne_of_mem {α} {R : α → α → Prop} {l : List α} (h : l.Pairwise R) {a b : α}
    (ha : a ∈ l) (hb : b ∈ l) (hab : a ≠ b) : R a b ∨ R b a := by
  induction l with
  | nil => cases ha
  | cons x l ih =>
    rcases List.pairwise_cons.mp h with ⟨hx, hl⟩
    rcases List.mem_cons.mp ha with ha' | ha' <;> rcases List.mem_cons.mp hb with hb' | hb'
    · exact absurd (ha'.trans hb'.symm) hab
    · rw [ha']; exact Or.inl (hx b hb')
    · rw [hb']; exact Or.inr (hx a ha')
    · exact ih hl ha' hb'

/-! ## The invariant -/

/-- The part of the invariant the C13 theorems need along the histories of `Domain`: well-formed store,
provenance of the store keys and of the IdKeeper entries, and the Spec's view of peers, clock and store.
(The retention clause itself is proved without any domain hypothesis in `Dtn7.Lemmas.NodeFull`.) -/
structure RInv (c : Cfg) (past : List Event) (s : SpecSt) (n : Node) : Prop where
  wf : WF n
  cfg : n.cfg = c
  now : s.now = n.now
  prev : s.prev = viewOf n
  keysFrom : ∀ k it, n.store.get k = some it → ∃ e, (e ∈ submitted past ∨ e ∈ received past) ∧ e.key = k
  idkFrom : ∀ st, (lookupNat n.idk st).isSome = true → ∃ e ∈ submitted past, (e.src, e.ts) = st
  peers : s.peers = n.peers
  pnodup : (n.peers.map (·.addr)).Nodup

/-- What the clauses other than `Retained` need from the invariant. -/
structure VInv (c : Cfg) (s : SpecSt) (n : Node) : Prop where
  wf : WF n
  cfg : n.cfg = c
  now : s.now = n.now
  prev : s.prev = viewOf n
  peers : s.peers = n.peers
  pnodup : (n.peers.map (·.addr)).Nodup

theorem RInv.v {c : Cfg} {past : List Event} {s : SpecSt} {n : Node} (h : RInv c past s n) : VInv c s n :=
  ⟨h.wf, h.cfg, h.now, h.prev, h.peers, h.pnodup⟩

/-! ## One event -/

/-- What has to be shown about the core of a step to carry the invariant over the event. -/
structure CoreOk (c : Cfg) (past : List Event) (s : SpecSt) (e : Event) (m : Node) (outs : List Output) : Prop where
  wf : WF m
  cfg : m.cfg = c
  now : m.now = nowAfter s.now e
  keysFrom : ∀ k it, m.store.get k = some it →
    ∃ b, (b ∈ submitted (past ++ [e]) ∨ b ∈ received (past ++ [e])) ∧ b.key = k
  idkFrom : ∀ st, (lookupNat m.idk st).isSome = true → ∃ b ∈ submitted (past ++ [e]), (b.src, b.ts) = st
  peers : m.peers = peersAfter s.peers e
  pnodup : (m.peers.map (·.addr)).Nodup

theorem mem_submitted_snoc {past : List Event} {e : Event} {b : Bundle} (h : b ∈ submitted past) :
    b ∈ submitted (past ++ [e]) := by
  rw [submitted_append]; exact List.mem_append_left _ h

theorem mem_received_snoc {past : List Event} {e : Event} {b : Bundle} (h : b ∈ received past) :
    b ∈ received (past ++ [e]) := by
  rw [received_append]; exact List.mem_append_left _ h

theorem domain_prefix {a b : List Event} (h : Domain (a ++ b)) : Domain a := by
  refine ⟨?_, ?_, ?_⟩
  · intro x hx; exact h.subSeq x (by rw [submitted_append]; exact List.mem_append_left _ hx)
  · have := h.subDistinct
    rw [submitted_append] at this
    exact (List.pairwise_append.mp this).1
  · intro x hx y hy
    exact h.disjoint x (by rw [submitted_append]; exact List.mem_append_left _ hx)
      y (by rw [received_append]; exact List.mem_append_left _ hy)

/-- From the facts about the core of the step to the invariant after the event. -/
theorem rinv_of_core (c : Cfg) (env : Env) (past : List Event) (e : Event) (s : SpecSt) (n : Node)
    (hcore : CoreOk c past s e (stepCore env n e).1 (stepCore env n e).2) :
    RInv c (past ++ [e]) (specNext c s (obsOf (e, (step env n e).2, (step env n e).1))) (step env n e).1 := by
  refine ⟨?_, hcore.cfg, ?_, rfl, ?_, hcore.idkFrom, ?_, hcore.pnodup⟩
  · exact ⟨hcore.wf.keyed, hcore.wf.nodup⟩
  · show nowAfter s.now e = (stepCore env n e).1.now
    exact hcore.now.symm
  · exact hcore.keysFrom
  · show peersAfter s.peers e = (stepCore env n e).1.peers
    exact hcore.peers.symm


/-! ### events that do not touch the store -/

/-- An event whose core leaves the store as it is and cannot grow the IdKeeper. -/
theorem core_storeSame (c : Cfg) (past : List Event) (s : SpecSt) (n m : Node) (e : Event) (outs : List Output)
    (inv : RInv c past s n) (hs : m.store = n.store) (hc : m.cfg = n.cfg) (hn : m.now = nowAfter s.now e)
    (hi : ∀ st, (lookupNat m.idk st).isSome = true → (lookupNat n.idk st).isSome = true)
    (hp : m.peers = peersAfter s.peers e)
    (hpn : (m.peers.map (·.addr)).Nodup) : CoreOk c past s e m outs := by
  refine ⟨⟨?_, ?_⟩, hc.trans inv.cfg, hn, ?_, ?_, hp, hpn⟩
  · rw [hs]; exact inv.wf.keyed
  · rw [hs]; exact inv.wf.nodup
  · intro k it hg
    rw [hs] at hg
    rcases inv.keysFrom k it hg with ⟨b, hb, hk⟩
    exact ⟨b, hb.imp mem_submitted_snoc mem_received_snoc, hk⟩
  · intro st hst
    rcases inv.idkFrom st (hi st hst) with ⟨b, hb, hk⟩
    exact ⟨b, mem_submitted_snoc hb, hk⟩

theorem core_peerDown (c : Cfg) (env : Env) (past : List Event) (s : SpecSt) (n : Node) (a : Nat)
    (inv : RInv c past s n) :
    CoreOk c past s (.peerDown a) (stepCore env n (.peerDown a)).1 (stepCore env n (.peerDown a)).2 :=
  core_storeSame c past s n _ _ _ inv rfl rfl inv.now.symm (fun _ h => h)
    (by simp [stepCore, peersAfter, inv.peers])
    (by
      simp only [stepCore]
      exact inv.pnodup.sublist (List.Sublist.map _ List.filter_sublist))

theorem core_restart (c : Cfg) (env : Env) (past : List Event) (s : SpecSt) (n : Node)
    (inv : RInv c past s n) :
    CoreOk c past s .restart (stepCore env n .restart).1 (stepCore env n .restart).2 :=
  core_storeSame c past s n _ _ _ inv rfl rfl inv.now.symm
    (fun st h => by simp [stepCore, lookupNat] at h) (by simp [stepCore, peersAfter])
    (by simp [stepCore])

/-! ### cleanTick -/

theorem wf_foldl_erase (ks : List Key) : ∀ (n : Node), WF n → WF { n with store := ks.foldl Store.erase n.store } := by
  induction ks with
  | nil => intro n w; exact w
  | cons k ks ih =>
    intro n w
    have := ih { n with store := n.store.erase k } (wf_erase w k)
    simpa using this

theorem core_cleanTick (c : Cfg) (env : Env) (past : List Event) (s : SpecSt) (n : Node) (t : Nat)
    (inv : RInv c past s n) :
    CoreOk c past s (.cleanTick t) (stepCore env n (.cleanTick t)).1 (stepCore env n (.cleanTick t)).2 := by
  have hget : ∀ k, (stepCore env n (.cleanTick t)).1.store.get k =
      if k ∈ expiredKeys n.store t then none else n.store.get k := by
    intro k
    simp only [stepCore, deleteExpired]
    exact Store.get_foldl_erase _ _ _
  refine ⟨?_, inv.cfg, rfl, ?_, ?_, by simp [stepCore, deleteExpired, peersAfter, inv.peers],
    by simp only [stepCore, deleteExpired]; exact inv.pnodup⟩
  · have := wf_foldl_erase (expiredKeys n.store t) { n with now := t } ⟨inv.wf.keyed, inv.wf.nodup⟩
    exact this
  · intro k it hg
    rw [hget] at hg
    split at hg
    · cases hg
    · rcases inv.keysFrom k it hg with ⟨b, hb, hk⟩
      exact ⟨b, hb.imp mem_submitted_snoc mem_received_snoc, hk⟩
  · intro st hst
    rcases inv.idkFrom st hst with ⟨b, hb, hk⟩
    exact ⟨b, mem_submitted_snoc hb, hk⟩


/-! ### peerUp / retryTick: checkPendingBundles -/

theorem mem_pendingKeys {s : Store} {k : Key} (h : k ∈ pendingKeys s) : ∃ it, s.get k = some it := by
  unfold pendingKeys at h
  exact Store.get_of_mem_keys (List.mem_filter.mp h).1

theorem core_checkPending (c : Cfg) (env : Env) (past : List Event) (s : SpecSt)
    (n n1 : Node) (e : Event) (inv : RInv c past s n)
    (hs : n1.store = n.store) (hcfg : n1.cfg = n.cfg) (hnow : n1.now = n.now) (hidk : n1.idk = n.idk)
    (hev : nowAfter s.now e = s.now)
    (hp : n1.peers = peersAfter s.peers e) (hpn : (n1.peers.map (·.addr)).Nodup) :
    CoreOk c past s e (checkPending env n1).1 (checkPending env n1).2 := by
  have w1 : WF n1 := ⟨by rw [hs]; exact inv.wf.keyed, by rw [hs]; exact inv.wf.nodup⟩
  unfold checkPending
  rcases dispatchKeys_kstep env (pendingKeys n1.store) n1 w1 with ⟨w', e', o', i', _⟩
  refine ⟨w', (e'.cfg.trans hcfg).trans inv.cfg, ?_, ?_, ?_, e'.peers.trans hp, by rw [e'.peers]; exact hpn⟩
  · rw [hev, e'.now, hnow, inv.now]
  · intro k it hg
    have : ∃ it0, n.store.get k = some it0 := by
      by_cases hk : k ∈ pendingKeys n1.store
      · rw [hs] at hk; exact mem_pendingKeys hk
      · rw [o' k hk, hs] at hg; exact ⟨it, hg⟩
    rcases this with ⟨it0, h0⟩
    rcases inv.keysFrom k it0 h0 with ⟨b, hb, hkk⟩
    exact ⟨b, hb.imp mem_submitted_snoc mem_received_snoc, hkk⟩
  · intro st hst
    rw [i', hidk] at hst
    rcases inv.idkFrom st hst with ⟨b, hb, hk⟩
    exact ⟨b, mem_submitted_snoc hb, hk⟩

theorem core_retryTick (c : Cfg) (env : Env) (past : List Event) (s : SpecSt) (n : Node)
    (inv : RInv c past s n) :
    CoreOk c past s .retryTick (stepCore env n .retryTick).1 (stepCore env n .retryTick).2 :=
  core_checkPending c env past s n n .retryTick inv rfl rfl rfl rfl rfl
    (by simp [peersAfter, inv.peers]) inv.pnodup

theorem core_peerUp (c : Cfg) (env : Env) (past : List Event) (s : SpecSt) (n : Node)
    (p : Peer) (inv : RInv c past s n) :
    CoreOk c past s (.peerUp p) (stepCore env n (.peerUp p)).1 (stepCore env n (.peerUp p)).2 := by
  simp only [stepCore]
  split
  · rename_i h
    exact core_checkPending c env past s n n (.peerUp p) inv rfl rfl rfl rfl rfl
      (by simp [peersAfter, inv.peers, h]) inv.pnodup
  · rename_i h
    refine core_checkPending c env past s n _ (.peerUp p) inv rfl rfl rfl rfl rfl
      (by simp [peersAfter, inv.peers, h]) ?_
    simp only [List.map_append, List.map_cons, List.map_nil]
    refine List.nodup_append.mpr ⟨inv.pnodup, by simp, ?_⟩
    intro a ha b hb
    simp at hb
    subst hb
    intro hab
    subst hab
    rcases List.mem_map.mp ha with ⟨q, hq, hqa⟩
    apply h
    apply List.any_eq_true.mpr
    exact ⟨q, hq, by simp [hqa]⟩


/-! ### submit -/

theorem hasEndpoint_false_of {c : Cfg} {e : Eid} (h : (e.node != c.self) = true) : hasEndpoint c e = false := by
  unfold hasEndpoint
  simp only [bne_iff_ne, ne_eq] at h
  simp [h]

theorem key_ne_of_st {a b : Bundle} (h : (a.src, a.ts) ≠ (b.src, b.ts)) : a.key ≠ b.key := by
  intro e
  apply h
  have h1 : a.key.src = b.key.src := by rw [e]
  have h2 : a.key.ts = b.key.ts := by rw [e]
  exact Prod.ext h1 h2

/-- In the domain, a submitted bundle has a new ID and a new (source, time) pair for the IdKeeper. -/
theorem submit_fresh (c : Cfg) (past fut : List Event) (b : Bundle) (hdom : Domain (past ++ .submit b :: fut))
    (s : SpecSt) (n : Node) (inv : RInv c past s n) :
    n.store.get b.key = none ∧ lookupNat n.idk (b.src, b.ts) = none ∧ b.seq = 0 := by
  have hsub : submitted (past ++ .submit b :: fut) = submitted past ++ b :: submitted fut := by
    rw [submitted_append]; rfl
  have hrec : received (past ++ .submit b :: fut) = received past ++ received fut := by
    rw [received_append]; rfl
  have hbmem : b ∈ submitted (past ++ .submit b :: fut) := by
    rw [hsub]; exact List.mem_append_right _ List.mem_cons_self
  have hsubne : ∀ a ∈ submitted past, (a.src, a.ts) ≠ (b.src, b.ts) := by
    intro a ha
    have := hdom.subDistinct
    rw [hsub] at this
    exact (List.pairwise_append.mp this).2.2 a ha b List.mem_cons_self
  have hrecne : ∀ a ∈ received past, (a.src, a.ts) ≠ (b.src, b.ts) := by
    intro a ha
    have := hdom.disjoint b hbmem a (by rw [hrec]; exact List.mem_append_left _ ha)
    exact fun h => this h.symm
  refine ⟨?_, ?_, hdom.subSeq b hbmem⟩
  · cases hg : n.store.get b.key with
    | none => rfl
    | some it =>
      rcases inv.keysFrom _ it hg with ⟨a, ha, hak⟩
      rcases ha with ha | ha
      · exact absurd hak (key_ne_of_st (hsubne a ha))
      · exact absurd hak (key_ne_of_st (hrecne a ha))
  · cases hl : lookupNat n.idk (b.src, b.ts) with
    | none => rfl
    | some v =>
      rcases inv.idkFrom (b.src, b.ts) (by rw [hl]; rfl) with ⟨a, ha, hst⟩
      exact absurd hst (hsubne a ha)

theorem core_submit (c : Cfg) (env : Env)
    (past fut : List Event) (b : Bundle) (hdom : Domain (past ++ .submit b :: fut)) (s : SpecSt) (n : Node)
    (inv : RInv c past s n) :
    CoreOk c past s (.submit b) (stepCore env n (.submit b)).1 (stepCore env n (.submit b)).2 := by
  -- what the domain says about `b` and the bundles seen so far
  have hsub : submitted (past ++ .submit b :: fut) = submitted past ++ b :: submitted fut := by
    rw [submitted_append]; rfl
  have hrec : received (past ++ .submit b :: fut) = received past ++ received fut := by
    rw [received_append]; rfl
  have hbmem : b ∈ submitted (past ++ .submit b :: fut) := by
    rw [hsub]; exact List.mem_append_right _ List.mem_cons_self
  have hseq : b.seq = 0 := hdom.subSeq b hbmem
  have hsubne : ∀ a ∈ submitted past, (a.src, a.ts) ≠ (b.src, b.ts) := by
    intro a ha
    have := hdom.subDistinct
    rw [hsub] at this
    exact (List.pairwise_append.mp this).2.2 a ha b List.mem_cons_self
  have hrecne : ∀ a ∈ received past, (a.src, a.ts) ≠ (b.src, b.ts) := by
    intro a ha
    have := hdom.disjoint b hbmem a (by rw [hrec]; exact List.mem_append_left _ ha)
    exact fun h => this h.symm
  have hfresh : n.store.get b.key = none := by
    cases hg : n.store.get b.key with
    | none => rfl
    | some it =>
      rcases inv.keysFrom _ it hg with ⟨a, ha, hak⟩
      rcases ha with ha | ha
      · exact absurd hak (key_ne_of_st (hsubne a ha))
      · exact absurd hak (key_ne_of_st (hrecne a ha))
  have hidk : lookupNat n.idk (b.src, b.ts) = none ∧ b.seq = 0 := by
    refine ⟨?_, hseq⟩
    cases hl : lookupNat n.idk (b.src, b.ts) with
    | none => rfl
    | some v =>
      rcases inv.idkFrom (b.src, b.ts) (by rw [hl]; rfl) with ⟨a, ha, hst⟩
      exact absurd hst (hsubne a ha)
  have hstep := sendBundle_kstep env b n inv.wf hidk hfresh
  have hpast : submitted (past ++ [.submit b]) = submitted past ++ [b] := by rw [submitted_append]; rfl
  have hbnew : b ∈ submitted (past ++ [.submit b]) := by rw [hpast]; exact List.mem_append_right _ List.mem_cons_self
  simp only [stepCore]
  refine ⟨hstep.wf inv.wf, hstep.env.cfg.trans inv.cfg, ?_, ?_, ?_,
    by rw [hstep.env.peers]; simp [peersAfter, inv.peers], by rw [hstep.env.peers]; exact inv.pnodup⟩
  · rw [hstep.env.now, ← inv.now]; rfl
  · intro k it hg
    by_cases hk : k = b.key
    · exact ⟨b, Or.inl hbnew, hk.symm⟩
    · rw [hstep.other k hk] at hg
      rcases inv.keysFrom k it hg with ⟨a, ha, hak⟩
      exact ⟨a, ha.imp mem_submitted_snoc mem_received_snoc, hak⟩
  · intro st hst
    rcases hstep.idk st hst with h | h
    · rcases inv.idkFrom st h with ⟨a, ha, hk⟩
      exact ⟨a, mem_submitted_snoc ha, hk⟩
    · exact ⟨b, hbnew, h.symm⟩


/-! ### receive -/

theorem core_receive (c : Cfg) (env : Env)
    (past fut : List Event) (b : Bundle) (r : Option Eid) (hdom : Domain (past ++ .receive b r :: fut))
    (s : SpecSt) (n : Node) (inv : RInv c past s n) :
    CoreOk c past s (.receive b r) (stepCore env n (.receive b r)).1 (stepCore env n (.receive b r)).2 := by
  have hsub : submitted (past ++ .receive b r :: fut) = submitted past ++ submitted fut := by
    rw [submitted_append]; rfl
  have hrec : received (past ++ .receive b r :: fut) = received past ++ b :: received fut := by
    rw [received_append]; rfl
  have hbmem : b ∈ received (past ++ .receive b r :: fut) := by
    rw [hrec]; exact List.mem_append_right _ List.mem_cons_self
  have hsubne : ∀ a ∈ submitted past, (a.src, a.ts) ≠ (b.src, b.ts) := by
    intro a ha
    exact hdom.disjoint a (by rw [hsub]; exact List.mem_append_left _ ha) b hbmem
  have hstep := receive_kstep env b r n inv.wf
  have hpast : received (past ++ [.receive b r]) = received past ++ [b] := by rw [received_append]; rfl
  have hbnew : b ∈ received (past ++ [.receive b r]) := by rw [hpast]; exact List.mem_append_right _ List.mem_cons_self
  simp only [stepCore]
  refine ⟨hstep.wf inv.wf, hstep.only.env.cfg.trans inv.cfg, ?_, ?_, ?_,
    by rw [hstep.only.env.peers]; simp [peersAfter, inv.peers], by rw [hstep.only.env.peers]; exact inv.pnodup⟩
  · rw [hstep.only.env.now, ← inv.now]; rfl
  · intro k it hg
    by_cases hk : k = b.key
    · exact ⟨b, Or.inr hbnew, hk.symm⟩
    · rw [hstep.only.other k hk] at hg
      rcases inv.keysFrom k it hg with ⟨a, ha, hak⟩
      exact ⟨a, ha.imp mem_submitted_snoc mem_received_snoc, hak⟩
  · intro st hst
    rw [hstep.idk] at hst
    rcases inv.idkFrom st hst with ⟨a, ha, hk⟩
    exact ⟨a, mem_submitted_snoc ha, hk⟩


/-! ## Every history -/

theorem rinv_step (c : Cfg) (env : Env)
    (past fut : List Event) (e : Event) (hdom : Domain (past ++ e :: fut)) (s : SpecSt) (n : Node)
    (inv : RInv c past s n) :
    RInv c (past ++ [e]) (specNext c s (obsOf (e, (step env n e).2, (step env n e).1))) (step env n e).1 := by
  apply rinv_of_core c env past e s n
  cases e with
  | submit b => exact core_submit c env past fut b hdom s n inv
  | receive b r => exact core_receive c env past fut b r hdom s n inv
  | peerUp p => exact core_peerUp c env past s n p inv
  | peerDown a => exact core_peerDown c env past s n a inv
  | retryTick => exact core_retryTick c env past s n inv
  | cleanTick t => exact core_cleanTick c env past s n t inv
  | restart => exact core_restart c env past s n inv

theorem rinv_init (c : Cfg) (now : Nat) : RInv c [] (SpecSt.init now) (init c now) := by
  refine ⟨⟨?_, ?_⟩, rfl, rfl, rfl, ?_, ?_, rfl, ?_⟩
  · intro k it h; simp [init, Store.get] at h
  · simp [init, Store.keys]
  · intro k it h; simp [init, Store.get] at h
  · intro st h; simp [init, lookupNat] at h
  · simp [init]

end Dtn7.Node
