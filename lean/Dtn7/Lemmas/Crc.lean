/-
Linear algebra over GF(2) of the bit-serial CRC register (kernel-only: `ext` + Bool case splits,
`omega`, structural induction; no `bv_decide`, no `native_decide`).

Everything is proved for an arbitrary register width `w` and polynomial `P` whose top bit (the
constant term of the generator polynomial in reflected notation) is set.
-/
import Dtn7.Model.CrcSpec

namespace Dtn7.Crc.Lemmas
open Dtn7.Crc Dtn7.Cbor

variable {w : Nat}

/-! ### The step is GF(2)-affine in (state, input bit) -/

theorem step_xor (P s s' : BitVec w) (b b' : Bool) :
    step P (s ^^^ s') (b ^^ b') = step P s b ^^^ step P s' b' := by
  unfold step
  ext i hi
  cases h1 : s.getLsbD 0 <;> cases h2 : s'.getLsbD 0 <;> cases b <;> cases b' <;>
    simp [h1, h2, BitVec.getElem_xor, BitVec.getLsbD_xor] <;>
    (cases s.getLsbD (1 + i) <;> cases s'.getLsbD (1 + i) <;> cases P[i] <;> rfl)

theorem step_zero (P : BitVec w) : step P 0#w false = 0#w := by
  unfold step
  ext i hi
  simp

/-- `T = step · false`, the autonomous register. -/
theorem step_eq (P s : BitVec w) (b : Bool) :
    step P s b = step P s false ^^^ (if b then P else 0#w) := by
  have := step_xor P s 0#w false b
  simp only [BitVec.xor_zero, Bool.false_bne] at this
  rw [this]
  congr 1
  cases b
  · simp [step_zero]
  · unfold step; ext i hi; simp

theorem run_nil (P s : BitVec w) : run P s [] = s := rfl
theorem run_cons (P s : BitVec w) (b : Bool) (t : Bits) : run P s (b :: t) = run P (step P s b) t := rfl
theorem run_append (P s : BitVec w) (a b : Bits) : run P s (a ++ b) = run P (run P s a) b := by
  simp [run, List.foldl_append]

theorem run_xor (P s s' : BitVec w) (d d' : Bits) (h : d.length = d'.length) :
    run P (s ^^^ s') (xorBits d d') = run P s d ^^^ run P s' d' := by
  induction d generalizing s s' d' with
  | nil => cases d' with
    | nil => rfl
    | cons _ _ => simp at h
  | cons a t ih => cases d' with
    | nil => simp at h
    | cons a' t' =>
      simp only [xorBits, run_cons, step_xor]
      exact ih _ _ _ (by simpa using h)

/-! ### Zero input: the autonomous register is injective -/

theorem step0_injective (P : BitVec w) (hP : P.msb = true) (s s' : BitVec w)
    (h : step P s false = step P s' false) : s = s' := by
  have hw : 0 < w := by
    rcases Nat.eq_zero_or_pos w with h0 | h0
    · subst h0; simp [BitVec.msb] at hP
    · exact h0
  have hPt : P.getLsbD (w - 1) = true := by
    simpa [BitVec.msb_eq_getLsbD_last] using hP
  unfold step at h
  simp only [Bool.bne_false] at h
  -- the top bit of the result is the feedback bit, i.e. the old bit 0
  have h0 : s.getLsbD 0 = s'.getLsbD 0 := by
    have := congrArg (fun v => v.getLsbD (w - 1)) h
    simp only [BitVec.getLsbD_xor, BitVec.getLsbD_ushiftRight] at this
    have hz : ∀ v : BitVec w, v.getLsbD (1 + (w - 1)) = false := fun v =>
      BitVec.getLsbD_of_ge v _ (by omega)
    rw [hz, hz] at this
    cases h1 : s.getLsbD 0 <;> cases h2 : s'.getLsbD 0 <;> simp [h1, h2, hPt] at this ⊢
  ext i hi
  rcases Nat.eq_zero_or_pos i with rfl | hpos
  · simpa [BitVec.getLsbD_eq_getElem hi] using h0
  · have := congrArg (fun v => v.getLsbD (i - 1)) h
    simp only [BitVec.getLsbD_xor, BitVec.getLsbD_ushiftRight, h0] at this
    have e : 1 + (i - 1) = i := by omega
    rw [e] at this
    have hb : s.getLsbD i = s'.getLsbD i := by
      revert this
      cases s.getLsbD i <;> cases s'.getLsbD i <;> cases (if s'.getLsbD 0 = true then P else 0#w).getLsbD (i - 1) <;> simp
    simpa [BitVec.getLsbD_eq_getElem hi] using hb

/-- `n` zero-input clocks. -/
def Tn (P : BitVec w) (n : Nat) (s : BitVec w) : BitVec w := run P s (List.replicate n false)

theorem Tn_zero (P s : BitVec w) : Tn P 0 s = s := rfl
theorem Tn_succ (P s : BitVec w) (n : Nat) : Tn P (n + 1) s = Tn P n (step P s false) := rfl

theorem xorBits_replicate_false (n : Nat) :
    xorBits (List.replicate n false) (List.replicate n false) = List.replicate n false := by
  induction n with
  | zero => rfl
  | succ n ih => simp [List.replicate_succ, xorBits, ih]

theorem Tn_xor (P : BitVec w) (n : Nat) (s s' : BitVec w) :
    Tn P n (s ^^^ s') = Tn P n s ^^^ Tn P n s' := by
  unfold Tn
  have := run_xor P s s' (List.replicate n false) (List.replicate n false) rfl
  rwa [xorBits_replicate_false] at this

theorem Tn_zero_state (P : BitVec w) (n : Nat) : Tn P n 0#w = 0#w := by
  induction n with
  | zero => rfl
  | succ n ih => rw [Tn_succ, step_zero, ih]

theorem Tn_injective (P : BitVec w) (hP : P.msb = true) (n : Nat) (s s' : BitVec w)
    (h : Tn P n s = Tn P n s') : s = s' := by
  induction n generalizing s s' with
  | zero => exact h
  | succ n ih => exact step0_injective P hP _ _ (ih _ _ h)

theorem Tn_eq_zero (P : BitVec w) (hP : P.msb = true) (n : Nat) (s : BitVec w)
    (h : Tn P n s = 0#w) : s = 0#w :=
  Tn_injective P hP n s 0#w (by rw [h, Tn_zero_state])

/-! ### Feeding at most `w` bits from any state: `run s e = T^|e| (s ⊕ pat e)` -/

/-- The bit string as a register value, first bit at position 0. -/
def pat : Bits → BitVec w
  | [] => 0#w
  | b :: t => (pat t <<< 1) ^^^ (if b then 1#w else 0#w)

theorem pat_high (e : Bits) (i : Nat) (hi : e.length ≤ i) : (pat e : BitVec w).getLsbD i = false := by
  induction e generalizing i with
  | nil => simp [pat]
  | cons b t ih =>
    simp only [List.length_cons] at hi
    simp only [pat, BitVec.getLsbD_xor, BitVec.getLsbD_shiftLeft]
    have h1 : (pat t : BitVec w).getLsbD (i - 1) = false := ih (i - 1) (by omega)
    have h2 : (if b then 1#w else 0#w).getLsbD i = false := by
      cases b <;> simp [BitVec.getLsbD_one]; omega
    simp [h1, h2]

/-- Shifting left and clocking once with zero input is the identity if nothing is shifted out. -/
theorem step_shl (P v : BitVec w) (hv : v.getLsbD (w - 1) = false) :
    step P (v <<< 1) false = v := by
  unfold step
  ext i hi
  have h0 : (v <<< 1).getLsbD 0 = false := by simp
  simp only [h0, Bool.bne_false, Bool.false_eq_true, ↓reduceIte, BitVec.xor_zero,
    BitVec.getElem_ushiftRight, BitVec.getLsbD_shiftLeft]
  by_cases hl : 1 + i < w
  · simp [hl, BitVec.getLsbD_eq_getElem hi]
  · have : i = w - 1 := by omega
    subst this
    simp [hl, ← BitVec.getLsbD_eq_getElem hi, hv]

theorem step_one (P : BitVec w) (hw : 0 < w) : step P 1#w false = P := by
  unfold step
  ext i hi
  have : (1#w).getLsbD 0 = true := by simp [hw]
  simp [this, BitVec.getLsbD_one]

theorem run_eq_Tn (P : BitVec w) (e : Bits) (s : BitVec w) (hlen : e.length ≤ w) :
    run P s e = Tn P e.length (s ^^^ pat e) := by
  induction e generalizing s with
  | nil => simp [run_nil, Tn_zero, pat]
  | cons b t ih =>
    have hw : 0 < w := by simp at hlen; omega
    rw [run_cons, ih _ (by simp at hlen; omega), List.length_cons, Tn_succ]
    congr 1
    -- step s b ⊕ pat t = T (s ⊕ (pat t <<< 1) ⊕ b)
    have l1 := step_xor P s ((pat t <<< 1) ^^^ (if b then 1#w else 0#w)) false false
    have l2 := step_xor P (pat t <<< 1) (if b then 1#w else 0#w) false false
    simp only [bne_self_eq_false] at l1 l2
    simp only [pat]
    rw [l1, l2, step_shl P (pat t) (pat_high t (w - 1) (by simp at hlen; omega)), step_eq P s b]
    cases b
    · simp [step_zero]
    · simp only [↓reduceIte, step_one P hw, BitVec.xor_assoc]
      congr 1
      exact BitVec.xor_comm _ _

theorem pat_eq_zero (e : Bits) (hlen : e.length ≤ w) (h : (pat e : BitVec w) = 0#w) :
    e = List.replicate e.length false := by
  induction e with
  | nil => rfl
  | cons b t ih =>
    have hw : 0 < w := by simp at hlen; omega
    simp only [pat] at h
    have hb : b = false := by
      have := congrArg (fun v => v.getLsbD 0) h
      cases b <;> simp [hw] at this ⊢
    subst hb
    simp only [Bool.false_eq_true, ↓reduceIte, BitVec.xor_zero] at h
    have ht : (pat t : BitVec w) = 0#w := by
      ext i hi
      by_cases hl : i + 1 < w
      · have := congrArg (fun v => v.getLsbD (i + 1)) h
        simp only [BitVec.getLsbD_shiftLeft, hl] at this
        simpa [BitVec.getLsbD_eq_getElem hi] using this
      · have := pat_high (w := w) t i (by simp at hlen; omega)
        simpa [BitVec.getLsbD_eq_getElem hi] using this
    simp [List.replicate_succ, ← ih (by simp at hlen; omega) ht]

/-- **Window lemma**: at most `w` bits fed into the zero register leave it zero only if they are all
zero. -/
theorem run0_window (P : BitVec w) (hP : P.msb = true) (e : Bits) (hlen : e.length ≤ w)
    (h : run P 0#w e = 0#w) : e = List.replicate e.length false := by
  rw [run_eq_Tn P e _ hlen] at h
  have := Tn_eq_zero P hP _ _ h
  simp only [BitVec.zero_xor] at this
  exact pat_eq_zero e hlen this

/-! ### Error patterns: leading zeros, window, trailing zeros -/

theorem run0_zeros (P : BitVec w) (n : Nat) : run P 0#w (List.replicate n false) = 0#w :=
  Tn_zero_state P n

/-- A non-zero window of at most `w` bits, preceded and followed by any number of zero bits, drives
the zero register to a non-zero state. -/
theorem run0_burst_ne_zero (P : BitVec w) (hP : P.msb = true) (a k : Nat) (c : Bits)
    (hlen : c.length ≤ w) (hc : c ≠ List.replicate c.length false) :
    run P 0#w (List.replicate a false ++ c ++ List.replicate k false) ≠ 0#w := by
  intro h
  rw [run_append, run_append, run0_zeros] at h
  exact hc (run0_window P hP c hlen (Tn_eq_zero P hP k _ h))

theorem stripL_decomp (e : Bits) : ∃ a, e = List.replicate a false ++ stripL e := by
  induction e with
  | nil => exact ⟨0, rfl⟩
  | cons b t ih =>
    cases b
    · obtain ⟨a, ha⟩ := ih
      exact ⟨a + 1, by simp only [stripL, List.replicate_succ, List.cons_append, ← ha]⟩
    · exact ⟨0, rfl⟩

theorem core_decomp (e : Bits) :
    ∃ a k, e = List.replicate a false ++ core e ++ List.replicate k false := by
  obtain ⟨a, ha⟩ := stripL_decomp e
  obtain ⟨k, hk⟩ := stripL_decomp (stripL e).reverse
  refine ⟨a, k, ?_⟩
  have : stripL e = core e ++ List.replicate k false := by
    have := congrArg List.reverse hk
    simpa [core] using this
  rw [List.append_assoc, ← this, ← ha]

theorem replicate_of_all_false (l : Bits) (h : l = List.replicate l.length false) (n : Nat)
    (a k : Nat) (e : Bits) (he : e = List.replicate a false ++ l ++ List.replicate k false)
    (hn : n = e.length) : e = List.replicate n false := by
  subst hn
  rw [he, h]
  simp [List.length_replicate, List.replicate_append_replicate]

theorem xorBits_length (d d' : Bits) (h : d.length = d'.length) : (xorBits d d').length = d.length := by
  induction d generalizing d' with
  | nil => cases d' <;> simp [xorBits]
  | cons a t ih => cases d' with
    | nil => simp at h
    | cons a' t' => simp [xorBits, ih t' (by simpa using h)]

theorem eq_of_xorBits_false (d d' : Bits) (h : d.length = d'.length)
    (hx : xorBits d d' = List.replicate (xorBits d d').length false) : d = d' := by
  induction d generalizing d' with
  | nil => cases d' with
    | nil => rfl
    | cons _ _ => simp at h
  | cons a t ih => cases d' with
    | nil => simp at h
    | cons a' t' =>
      simp only [xorBits, List.length_cons, List.replicate_succ, List.cons.injEq] at hx
      have := ih t' (by simpa using h) hx.2
      cases a <;> cases a' <;> simp_all

/-- **Burst detection for the raw register** (any start state, any length): two different bit strings
of equal length whose difference lies within `w` consecutive positions end in different states. -/
theorem run_burst_ne (P : BitVec w) (hP : P.msb = true) (s : BitVec w) (d d' : Bits)
    (hlen : d.length = d'.length) (hb : span (xorBits d d') ≤ w) (hne : d ≠ d') :
    run P s d ≠ run P s d' := by
  intro h
  have hx := run_xor P s s d d' hlen
  rw [h, BitVec.xor_self, BitVec.xor_self] at hx
  obtain ⟨a, k, he⟩ := core_decomp (xorBits d d')
  by_cases hc : core (xorBits d d') = List.replicate (core (xorBits d d')).length false
  · apply hne
    apply eq_of_xorBits_false d d' hlen
    exact replicate_of_all_false _ hc _ a k _ he rfl
  · rw [he] at hx
    exact run0_burst_ne_zero P hP a k _ hb hc hx

end Dtn7.Crc.Lemmas
