/-
Linear algebra over GF(2) of the bit-serial CRC register (kernel-only: `ext` + Bool case splits,
`omega`, structural induction; no `bv_decide`, no `native_decide`).

Everything is proved for an arbitrary register width `w` and polynomial `P` whose top bit (the
constant term of the generator polynomial in reflected notation) is set.
-/
import Dtn7.Model.CrcSpec
import Dtn7.Model.Crc
import Dtn7.Lemmas.Cbor

namespace Dtn7.Crc.Lemmas
open Dtn7.Crc Dtn7.Cbor

variable {w : Nat}

/-! ### The step is GF(2)-affine in (state, input bit) -/

theorem step_xor (P s s' : BitVec w) (b b' : Bool) :
    step P (s ^^^ s') (b ^^ b') = step P s b ^^^ step P s' b' := by
  unfold step
  ext i hi
  cases h1 : s.getLsbD 0 <;> cases h2 : s'.getLsbD 0 <;> cases b <;> cases b' <;>
    simp [h1, h2, BitVec.getElem_xor, BitVec.getLsbD_xor] <;>
    (cases s.getLsbD (1 + i) <;> cases s'.getLsbD (1 + i) <;> cases P[i] <;> rfl)

theorem step_zero (P : BitVec w) : step P 0#w false = 0#w := by
  unfold step
  ext i hi
  simp

/-- `T = step · false`, the autonomous register. -/
theorem step_eq (P s : BitVec w) (b : Bool) :
    step P s b = step P s false ^^^ (if b then P else 0#w) := by
  have := step_xor P s 0#w false b
  simp only [BitVec.xor_zero, Bool.false_bne] at this
  rw [this]
  congr 1
  cases b
  · simp [step_zero]
  · unfold step; ext i hi; simp

theorem run_nil (P s : BitVec w) : run P s [] = s := rfl
theorem run_cons (P s : BitVec w) (b : Bool) (t : Bits) : run P s (b :: t) = run P (step P s b) t := rfl
theorem run_append (P s : BitVec w) (a b : Bits) : run P s (a ++ b) = run P (run P s a) b := by
  simp [run, List.foldl_append]

theorem run_xor (P s s' : BitVec w) (d d' : Bits) (h : d.length = d'.length) :
    run P (s ^^^ s') (xorBits d d') = run P s d ^^^ run P s' d' := by
  induction d generalizing s s' d' with
  | nil => cases d' with
    | nil => rfl
    | cons _ _ => simp at h
  | cons a t ih => cases d' with
    | nil => simp at h
    | cons a' t' =>
      simp only [xorBits, run_cons, step_xor]
      exact ih _ _ _ (by simpa using h)

/-! ### Zero input: the autonomous register is injective -/

theorem step0_injective (P : BitVec w) (hP : P.msb = true) (s s' : BitVec w)
    (h : step P s false = step P s' false) : s = s' := by
  have hw : 0 < w := by
    rcases Nat.eq_zero_or_pos w with h0 | h0
    · subst h0; simp [BitVec.msb] at hP
    · exact h0
  have hPt : P.getLsbD (w - 1) = true := by
    simpa [BitVec.msb_eq_getLsbD_last] using hP
  unfold step at h
  simp only [Bool.bne_false] at h
  -- the top bit of the result is the feedback bit, i.e. the old bit 0
  have h0 : s.getLsbD 0 = s'.getLsbD 0 := by
    have := congrArg (fun v => v.getLsbD (w - 1)) h
    simp only [BitVec.getLsbD_xor, BitVec.getLsbD_ushiftRight] at this
    have hz : ∀ v : BitVec w, v.getLsbD (1 + (w - 1)) = false := fun v =>
      BitVec.getLsbD_of_ge v _ (by omega)
    rw [hz, hz] at this
    cases h1 : s.getLsbD 0 <;> cases h2 : s'.getLsbD 0 <;> simp [h1, h2, hPt] at this ⊢
  ext i hi
  rcases Nat.eq_zero_or_pos i with rfl | hpos
  · simpa [BitVec.getLsbD_eq_getElem hi] using h0
  · have := congrArg (fun v => v.getLsbD (i - 1)) h
    simp only [BitVec.getLsbD_xor, BitVec.getLsbD_ushiftRight, h0] at this
    have e : 1 + (i - 1) = i := by omega
    rw [e] at this
    have hb : s.getLsbD i = s'.getLsbD i := by
      revert this
      cases s.getLsbD i <;> cases s'.getLsbD i <;> cases (if s'.getLsbD 0 = true then P else 0#w).getLsbD (i - 1) <;> simp
    simpa [BitVec.getLsbD_eq_getElem hi] using hb

/-- `n` zero-input clocks. -/
def Tn (P : BitVec w) (n : Nat) (s : BitVec w) : BitVec w := run P s (List.replicate n false)

theorem Tn_zero (P s : BitVec w) : Tn P 0 s = s := rfl
theorem Tn_succ (P s : BitVec w) (n : Nat) : Tn P (n + 1) s = Tn P n (step P s false) := rfl

theorem xorBits_replicate_false (n : Nat) :
    xorBits (List.replicate n false) (List.replicate n false) = List.replicate n false := by
  induction n with
  | zero => rfl
  | succ n ih => simp [List.replicate_succ, xorBits, ih]

theorem Tn_xor (P : BitVec w) (n : Nat) (s s' : BitVec w) :
    Tn P n (s ^^^ s') = Tn P n s ^^^ Tn P n s' := by
  unfold Tn
  have := run_xor P s s' (List.replicate n false) (List.replicate n false) rfl
  rwa [xorBits_replicate_false] at this

theorem Tn_zero_state (P : BitVec w) (n : Nat) : Tn P n 0#w = 0#w := by
  induction n with
  | zero => rfl
  | succ n ih => rw [Tn_succ, step_zero, ih]

theorem Tn_injective (P : BitVec w) (hP : P.msb = true) (n : Nat) (s s' : BitVec w)
    (h : Tn P n s = Tn P n s') : s = s' := by
  induction n generalizing s s' with
  | zero => exact h
  | succ n ih => exact step0_injective P hP _ _ (ih _ _ h)

theorem Tn_eq_zero (P : BitVec w) (hP : P.msb = true) (n : Nat) (s : BitVec w)
    (h : Tn P n s = 0#w) : s = 0#w :=
  Tn_injective P hP n s 0#w (by rw [h, Tn_zero_state])

/-! ### Feeding at most `w` bits from any state: `run s e = T^|e| (s ⊕ pat e)` -/

/-- The bit string as a register value, first bit at position 0. -/
def pat : Bits → BitVec w
  | [] => 0#w
  | b :: t => (pat t <<< 1) ^^^ (if b then 1#w else 0#w)

theorem pat_high (e : Bits) (i : Nat) (hi : e.length ≤ i) : (pat e : BitVec w).getLsbD i = false := by
  induction e generalizing i with
  | nil => simp [pat]
  | cons b t ih =>
    simp only [List.length_cons] at hi
    simp only [pat, BitVec.getLsbD_xor, BitVec.getLsbD_shiftLeft]
    have h1 : (pat t : BitVec w).getLsbD (i - 1) = false := ih (i - 1) (by omega)
    have h2 : (if b then 1#w else 0#w).getLsbD i = false := by
      cases b <;> simp [BitVec.getLsbD_one]; omega
    simp [h1, h2]

/-- Shifting left and clocking once with zero input is the identity if nothing is shifted out. -/
theorem step_shl (P v : BitVec w) (hv : v.getLsbD (w - 1) = false) :
    step P (v <<< 1) false = v := by
  unfold step
  ext i hi
  have h0 : (v <<< 1).getLsbD 0 = false := by simp
  simp only [h0, Bool.bne_false, Bool.false_eq_true, ↓reduceIte, BitVec.xor_zero,
    BitVec.getElem_ushiftRight, BitVec.getLsbD_shiftLeft]
  by_cases hl : 1 + i < w
  · simp [hl, BitVec.getLsbD_eq_getElem hi]
  · have : i = w - 1 := by omega
    subst this
    simp [hl, ← BitVec.getLsbD_eq_getElem hi, hv]

theorem step_one (P : BitVec w) (hw : 0 < w) : step P 1#w false = P := by
  unfold step
  ext i hi
  have : (1#w).getLsbD 0 = true := by simp [hw]
  simp [this, BitVec.getLsbD_one]

theorem run_eq_Tn (P : BitVec w) (e : Bits) (s : BitVec w) (hlen : e.length ≤ w) :
    run P s e = Tn P e.length (s ^^^ pat e) := by
  induction e generalizing s with
  | nil => simp [run_nil, Tn_zero, pat]
  | cons b t ih =>
    have hw : 0 < w := by simp at hlen; omega
    rw [run_cons, ih _ (by simp at hlen; omega), List.length_cons, Tn_succ]
    congr 1
    -- step s b ⊕ pat t = T (s ⊕ (pat t <<< 1) ⊕ b)
    have l1 := step_xor P s ((pat t <<< 1) ^^^ (if b then 1#w else 0#w)) false false
    have l2 := step_xor P (pat t <<< 1) (if b then 1#w else 0#w) false false
    simp only [bne_self_eq_false] at l1 l2
    simp only [pat]
    rw [l1, l2, step_shl P (pat t) (pat_high t (w - 1) (by simp at hlen; omega)), step_eq P s b]
    cases b
    · simp [step_zero]
    · simp only [↓reduceIte, step_one P hw, BitVec.xor_assoc]
      congr 1
      exact BitVec.xor_comm _ _

theorem pat_eq_zero (e : Bits) (hlen : e.length ≤ w) (h : (pat e : BitVec w) = 0#w) :
    e = List.replicate e.length false := by
  induction e with
  | nil => rfl
  | cons b t ih =>
    have hw : 0 < w := by simp at hlen; omega
    simp only [pat] at h
    have hb : b = false := by
      have := congrArg (fun v => v.getLsbD 0) h
      cases b <;> simp [hw] at this ⊢
    subst hb
    simp only [Bool.false_eq_true, ↓reduceIte, BitVec.xor_zero] at h
    have ht : (pat t : BitVec w) = 0#w := by
      ext i hi
      by_cases hl : i + 1 < w
      · have := congrArg (fun v => v.getLsbD (i + 1)) h
        simp only [BitVec.getLsbD_shiftLeft, hl] at this
        simpa [BitVec.getLsbD_eq_getElem hi] using this
      · have := pat_high (w := w) t i (by simp at hlen; omega)
        simpa [BitVec.getLsbD_eq_getElem hi] using this
    simp [List.replicate_succ, ← ih (by simp at hlen; omega) ht]

/-- **Window lemma**: at most `w` bits fed into the zero register leave it zero only if they are all
zero. -/
theorem run0_window (P : BitVec w) (hP : P.msb = true) (e : Bits) (hlen : e.length ≤ w)
    (h : run P 0#w e = 0#w) : e = List.replicate e.length false := by
  rw [run_eq_Tn P e _ hlen] at h
  have := Tn_eq_zero P hP _ _ h
  simp only [BitVec.zero_xor] at this
  exact pat_eq_zero e hlen this

/-! ### Error patterns: leading zeros, window, trailing zeros -/

theorem run0_zeros (P : BitVec w) (n : Nat) : run P 0#w (List.replicate n false) = 0#w :=
  Tn_zero_state P n

/-- A non-zero window of at most `w` bits, preceded and followed by any number of zero bits, drives
the zero register to a non-zero state. -/
theorem run0_burst_ne_zero (P : BitVec w) (hP : P.msb = true) (a k : Nat) (c : Bits)
    (hlen : c.length ≤ w) (hc : c ≠ List.replicate c.length false) :
    run P 0#w (List.replicate a false ++ c ++ List.replicate k false) ≠ 0#w := by
  intro h
  rw [run_append, run_append, run0_zeros] at h
  exact hc (run0_window P hP c hlen (Tn_eq_zero P hP k _ h))

theorem stripL_decomp (e : Bits) : ∃ a, e = List.replicate a false ++ stripL e := by
  induction e with
  | nil => exact ⟨0, rfl⟩
  | cons b t ih =>
    cases b
    · obtain ⟨a, ha⟩ := ih
      exact ⟨a + 1, by simp only [stripL, List.replicate_succ, List.cons_append, ← ha]⟩
    · exact ⟨0, rfl⟩

theorem core_decomp (e : Bits) :
    ∃ a k, e = List.replicate a false ++ core e ++ List.replicate k false := by
  obtain ⟨a, ha⟩ := stripL_decomp e
  obtain ⟨k, hk⟩ := stripL_decomp (stripL e).reverse
  refine ⟨a, k, ?_⟩
  have : stripL e = core e ++ List.replicate k false := by
    have := congrArg List.reverse hk
    simpa [core] using this
  rw [List.append_assoc, ← this, ← ha]

theorem replicate_of_all_false (l : Bits) (h : l = List.replicate l.length false) (n : Nat)
    (a k : Nat) (e : Bits) (he : e = List.replicate a false ++ l ++ List.replicate k false)
    (hn : n = e.length) : e = List.replicate n false := by
  subst hn
  rw [he, h]
  simp [List.length_replicate, List.replicate_append_replicate]

theorem xorBits_length (d d' : Bits) (h : d.length = d'.length) : (xorBits d d').length = d.length := by
  induction d generalizing d' with
  | nil => cases d' <;> simp [xorBits]
  | cons a t ih => cases d' with
    | nil => simp at h
    | cons a' t' => simp [xorBits, ih t' (by simpa using h)]

theorem eq_of_xorBits_false (d d' : Bits) (h : d.length = d'.length)
    (hx : xorBits d d' = List.replicate (xorBits d d').length false) : d = d' := by
  induction d generalizing d' with
  | nil => cases d' with
    | nil => rfl
    | cons _ _ => simp at h
  | cons a t ih => cases d' with
    | nil => simp at h
    | cons a' t' =>
      simp only [xorBits, List.length_cons, List.replicate_succ, List.cons.injEq] at hx
      have := ih t' (by simpa using h) hx.2
      cases a <;> cases a' <;> simp_all

/-- **Burst detection for the raw register** (any start state, any length): two different bit strings
of equal length whose difference lies within `w` consecutive positions end in different states. -/
theorem run_burst_ne (P : BitVec w) (hP : P.msb = true) (s : BitVec w) (d d' : Bits)
    (hlen : d.length = d'.length) (hb : span (xorBits d d') ≤ w) (hne : d ≠ d') :
    run P s d ≠ run P s d' := by
  intro h
  have hx := run_xor P s s d d' hlen
  rw [h, BitVec.xor_self, BitVec.xor_self] at hx
  obtain ⟨a, k, he⟩ := core_decomp (xorBits d d')
  by_cases hc : core (xorBits d d') = List.replicate (core (xorBits d d')).length false
  · apply hne
    apply eq_of_xorBits_false d d' hlen
    exact replicate_of_all_false _ hc _ a k _ he rfl
  · rw [he] at hx
    exact run0_burst_ne_zero P hP a k _ hb hc hx

/-! ### Suffixes, prefixes, windows -/

theorem xorBits_self (a : Bits) : xorBits a a = List.replicate a.length false := by
  induction a with
  | nil => rfl
  | cons x t ih => simp [xorBits, List.replicate_succ, ih]

theorem xorBits_append (a a' b b' : Bits) (h : a.length = a'.length) :
    xorBits (a ++ b) (a' ++ b') = xorBits a a' ++ xorBits b b' := by
  induction a generalizing a' with
  | nil => cases a' with
    | nil => rfl
    | cons _ _ => simp at h
  | cons x t ih => cases a' with
    | nil => simp at h
    | cons x' t' => simp [xorBits, ih t' (by simpa using h)]

/-- Feeding the same bits is injective in the start state. -/
theorem run_state_injective (P : BitVec w) (hP : P.msb = true) (s s' : BitVec w) (tl : Bits)
    (h : run P s tl = run P s' tl) : s = s' := by
  have hx := run_xor P s s' tl tl rfl
  rw [h, BitVec.xor_self, xorBits_self] at hx
  have := Tn_eq_zero P hP tl.length (s ^^^ s') hx
  have h2 : (s ^^^ s') ^^^ s' = 0#w ^^^ s' := by rw [this]
  rwa [BitVec.xor_assoc, BitVec.xor_self, BitVec.xor_zero, BitVec.zero_xor] at h2

/-- Burst detection with a common prefix and a common suffix (the suffix is where the zeroed CRC field
and everything after the burst goes). -/
theorem run_burst_ne_ctx (P : BitVec w) (hP : P.msb = true) (s : BitVec w) (pre d d' tl : Bits)
    (hlen : d.length = d'.length) (hb : span (xorBits d d') ≤ w) (hne : d ≠ d') :
    run P s (pre ++ d ++ tl) ≠ run P s (pre ++ d' ++ tl) := by
  intro h
  rw [run_append, run_append, run_append, run_append] at h
  exact run_burst_ne P hP (run P s pre) d d' hlen hb hne (run_state_injective P hP _ _ tl h)

/-- Any change confined to a window of at most `w` bits is detected. -/
theorem run_window_ne (P : BitVec w) (hP : P.msb = true) (s : BitVec w) (pre c c' post : Bits)
    (hlen : c.length = c'.length) (hw : c.length ≤ w) (hne : c ≠ c') :
    run P s (pre ++ c ++ post) ≠ run P s (pre ++ c' ++ post) := by
  intro h
  rw [run_append, run_append, run_append, run_append] at h
  have h1 := run_state_injective P hP _ _ post h
  have hx := run_xor P (run P s pre) (run P s pre) c c' hlen
  rw [h1, BitVec.xor_self, BitVec.xor_self] at hx
  have hl : (xorBits c c').length ≤ w := by rw [xorBits_length c c' hlen]; exact hw
  exact hne (eq_of_xorBits_false c c' hlen (run0_window P hP _ hl hx))

/-! ### Bytes -/

theorem bitsOf_append (a b : Bytes) : bitsOf (a ++ b) = bitsOf a ++ bitsOf b := by
  induction a with
  | nil => rfl
  | cons x t ih => simp [bitsOf, ih]

theorem bitsOf_length (d : Bytes) : (bitsOf d).length = 8 * d.length := by
  induction d with
  | nil => rfl
  | cons x t ih => simp [bitsOf, byteBits, ih]; omega

theorem byteBits_injective (a b : UInt8) (h : byteBits a = byteBits b) : a = b := by
  have ha : a.toNat < 2 ^ 8 := a.toNat_lt
  have hb : b.toNat < 2 ^ 8 := b.toNat_lt
  simp only [byteBits, List.cons.injEq, and_true] at h
  obtain ⟨h0, h1, h2, h3, h4, h5, h6, h7⟩ := h
  apply UInt8.toNat_inj.mp
  apply Nat.eq_of_testBit_eq
  intro i
  by_cases hi : i < 8
  · have : i = 0 ∨ i = 1 ∨ i = 2 ∨ i = 3 ∨ i = 4 ∨ i = 5 ∨ i = 6 ∨ i = 7 := by omega
    rcases this with rfl | rfl | rfl | rfl | rfl | rfl | rfl | rfl <;> assumption
  · have h8 : 2 ^ 8 ≤ 2 ^ i := Nat.pow_le_pow_right (by decide) (by omega)
    rw [Nat.testBit_lt_two_pow (by omega), Nat.testBit_lt_two_pow (by omega)]

theorem bitsOf_injective (a b : Bytes) (hlen : a.length = b.length) (h : bitsOf a = bitsOf b) : a = b := by
  induction a generalizing b with
  | nil => cases b with
    | nil => rfl
    | cons _ _ => simp at hlen
  | cons x t ih => cases b with
    | nil => simp at hlen
    | cons y u =>
      simp only [bitsOf] at h
      have h1 := List.append_inj h (by simp [byteBits])
      rw [byteBits_injective x y h1.1, ih u (by simpa using hlen) h1.2]

/-! ### The two concrete CRCs -/

theorem P16_msb : P16.msb = true := by decide
theorem P32_msb : P32.msb = true := by decide

theorem crcX25_ne (d d' : Bytes)
    (h : run P16 0xFFFF#16 (bitsOf d) ≠ run P16 0xFFFF#16 (bitsOf d')) : crcX25 d ≠ crcX25 d' := by
  unfold crcX25
  intro e
  exact h (BitVec.not_inj.mp e)

theorem crc32c_ne (d d' : Bytes)
    (h : run P32 0xFFFFFFFF#32 (bitsOf d) ≠ run P32 0xFFFFFFFF#32 (bitsOf d')) : crc32c d ≠ crc32c d' := by
  unfold crc32c
  intro e
  exact h (BitVec.not_inj.mp e)

theorem beBytes_injective (k n n' : Nat) (hn : n < 256 ^ k) (hn' : n' < 256 ^ k)
    (h : beBytes k n = beBytes k n') : n = n' := by
  have := congrArg beVal h
  rwa [Cbor.Lemmas.beVal_beBytes k n hn, Cbor.Lemmas.beVal_beBytes k n' hn'] at this

theorem crcLen_cases (t : Nat) (ht : t = 1 ∨ t = 2) :
    (t = 1 ∧ crcLen t = 2 ∧ crcWidth t = 16) ∨ (t = 2 ∧ crcLen t = 4 ∧ crcWidth t = 32) := by
  rcases ht with rfl | rfl
  · left; decide
  · right; decide

/-- The CRC field distinguishes two inputs as soon as the register of its width does. -/
theorem crcField_ne (t : Nat) (ht : t = 1 ∨ t = 2) (d d' : Bytes)
    (h16 : t = 1 → run P16 0xFFFF#16 (bitsOf d) ≠ run P16 0xFFFF#16 (bitsOf d'))
    (h32 : t = 2 → run P32 0xFFFFFFFF#32 (bitsOf d) ≠ run P32 0xFFFFFFFF#32 (bitsOf d')) :
    crcField t d ≠ crcField t d' := by
  rcases ht with rfl | rfl
  · simp only [crcField, ↓reduceIte, ne_eq, Option.some.injEq]
    intro e
    have := beBytes_injective 2 _ _ (crcX25 d).isLt (crcX25 d').isLt e
    exact crcX25_ne d d' (h16 rfl) (BitVec.eq_of_toNat_eq this)
  · simp only [crcField, show ¬ (2 = 1) by decide, ↓reduceIte, ne_eq, Option.some.injEq]
    intro e
    have := beBytes_injective 4 _ _ (crc32c d).isLt (crc32c d').isLt e
    exact crc32c_ne d d' (h32 rfl) (BitVec.eq_of_toNat_eq this)

theorem crcField_length (t : Nat) (d v : Bytes) (h : crcField t d = some v) :
    v.length = crcLen t ∧ (t = 1 ∨ t = 2) := by
  unfold crcField at h
  split at h
  · next h1 => subst h1; cases h; exact ⟨by simp [Cbor.Lemmas.beBytes_length, crcLen], Or.inl rfl⟩
  · split at h
    · next h2 => subst h2; cases h; exact ⟨by simp [Cbor.Lemmas.beBytes_length, crcLen], Or.inr rfl⟩
    · cases h

theorem crcField_isSome (t : Nat) (ht : t = 1 ∨ t = 2) (d : Bytes) : ∃ v, crcField t d = some v := by
  rcases ht with rfl | rfl
  · exact ⟨beBytes 2 (crcX25 d).toNat, by simp [crcField]⟩
  · exact ⟨beBytes 4 (crc32c d).toNat, by simp [crcField]⟩

/-- **Burst theorem on the Spec function**, with arbitrary common context `pre … tl`. -/
theorem crcField_burst_ne (t : Nat) (ht : t = 1 ∨ t = 2) (pre d d' tl : Bytes)
    (hlen : d.length = d'.length)
    (hb : span (xorBits (bitsOf d) (bitsOf d')) ≤ crcWidth t) (hne : d ≠ d') :
    crcField t (pre ++ d ++ tl) ≠ crcField t (pre ++ d' ++ tl) := by
  have hl : (bitsOf d).length = (bitsOf d').length := by simp [bitsOf_length, hlen]
  have hn : bitsOf d ≠ bitsOf d' := fun e => hne (bitsOf_injective d d' hlen e)
  apply crcField_ne t ht
  · intro h1
    subst h1
    simp only [bitsOf_append]
    exact run_burst_ne_ctx P16 P16_msb _ _ _ _ _ hl hb hn
  · intro h2
    subst h2
    simp only [bitsOf_append]
    exact run_burst_ne_ctx P32 P32_msb _ _ _ _ _ hl hb hn

/-- **Byte window**: any change confined to `crcLen t` consecutive bytes is detected. -/
theorem crcField_window_ne (t : Nat) (ht : t = 1 ∨ t = 2) (pre m m' post : Bytes)
    (hlen : m.length = m'.length) (hw : m.length ≤ crcLen t) (hne : m ≠ m') :
    crcField t (pre ++ m ++ post) ≠ crcField t (pre ++ m' ++ post) := by
  have hl : (bitsOf m).length = (bitsOf m').length := by simp [bitsOf_length, hlen]
  have hn : bitsOf m ≠ bitsOf m' := fun e => hne (bitsOf_injective m m' hlen e)
  apply crcField_ne t ht
  · intro h1
    subst h1
    simp only [bitsOf_append]
    refine run_window_ne P16 P16_msb _ _ _ _ _ hl ?_ hn
    rw [bitsOf_length]; simp [crcLen] at hw; omega
  · intro h2
    subst h2
    simp only [bitsOf_append]
    refine run_window_ne P32 P32_msb _ _ _ _ _ hl ?_ hn
    rw [bitsOf_length]; simp [crcLen] at hw; omega

/-! ### The model of dtn7's check against the Spec -/

theorem zeros_length (n : Nat) : (zeros n).length = n := by simp [zeros]

theorem encBytes_short (f : Bytes) (h : f.length < 24) :
    encBytes f = UInt8.ofNat (2 * 32 + f.length) :: f := by
  simp [encBytes, encHead, h, majBytes]

/-- The block bytes with zeroed field, when the CRC item has the shortest head, are exactly what
`calculateCRCBuff` hashes. -/
theorem zeroField_block (t : Nat) (ht : t = 1 ∨ t = 2) (buf field : Bytes) (hf : field.length = crcLen t) :
    zeroField t (buf ++ encBytes field) = buf ++ encBytes (zeros (crcLen t)) := by
  have hl : crcLen t < 24 := by rcases crcLen_cases t ht with ⟨_, h, _⟩ | ⟨_, h, _⟩ <;> omega
  rw [encBytes_short field (by omega), encBytes_short (zeros (crcLen t)) (by rw [zeros_length]; exact hl)]
  unfold zeroField
  have e : (buf ++ UInt8.ofNat (2 * 32 + field.length) :: field).length - crcLen t = (buf ++ [UInt8.ofNat (2 * 32 + field.length)]).length := by
    simp [hf]; omega
  rw [e]
  have e2 : buf ++ UInt8.ofNat (2 * 32 + field.length) :: field = (buf ++ [UInt8.ofNat (2 * 32 + field.length)]) ++ field := by simp
  rw [e2, List.take_left' rfl, zeros_length, hf]
  simp

theorem drop_block (t : Nat) (buf field : Bytes) (hf : field.length = crcLen t) (h24 : field.length < 24) :
    (buf ++ encBytes field).drop ((buf ++ encBytes field).length - crcLen t) = field := by
  rw [encBytes_short field h24]
  have e : (buf ++ UInt8.ofNat (2 * 32 + field.length) :: field).length - crcLen t = (buf ++ [UInt8.ofNat (2 * 32 + field.length)]).length := by
    simp [hf]; omega
  rw [e]
  have e2 : buf ++ UInt8.ofNat (2 * 32 + field.length) :: field = (buf ++ [UInt8.ofNat (2 * 32 + field.length)]) ++ field := by simp
  rw [e2, List.drop_left' rfl]

theorem crcCalc_eq (t : Nat) (ht : t = 1 ∨ t = 2) (buf : Bytes) :
    crcCalc t buf = crcField t (buf ++ encBytes (zeros (crcLen t))) := by
  unfold crcCalc
  have : t ≠ 0 := by omega
  simp [this]

theorem checkField_encBytes (buf : Bytes) (t : Nat) (field rest c : Bytes) (hf : field.length ≤ maxInt32)
    (hc : crcCalc t buf = some c) :
    checkField buf t (encBytes field ++ rest) = if c = field then .ok (field, rest) else .error .crc := by
  unfold checkField checkFieldWith
  rw [hc, Cbor.Lemmas.decBytes_encBytes field rest hf]

/-- `accept_iff_crc` (see `Dtn7.Props.C03`). -/
theorem accept_iff_crc (t : Nat) (ht : t = 1 ∨ t = 2) (buf field rest : Bytes)
    (hf : field.length = crcLen t) :
    checkField buf t (encBytes field ++ rest) = .ok (field, rest) ↔ BlockCrcOk t (buf ++ encBytes field) := by
  have hl : crcLen t ≤ 4 := by rcases crcLen_cases t ht with ⟨_, h, _⟩ | ⟨_, h, _⟩ <;> omega
  obtain ⟨c, hc⟩ := crcField_isSome t ht (buf ++ encBytes (zeros (crcLen t)))
  have hcalc : crcCalc t buf = some c := by rw [crcCalc_eq t ht, hc]
  rw [checkField_encBytes buf t field rest c (by unfold maxInt32; omega) hcalc]
  unfold BlockCrcOk
  rw [zeroField_block t ht buf field hf, drop_block t buf field hf (by omega), hc]
  constructor
  · intro h
    split at h
    · next e => subst e; exact ⟨by simp [encBytes]; omega, rfl⟩
    · cases h
  · intro h
    have : c = field := by simpa using h.2
    simp [this]

/-- Whatever the model accepts has the value `calculateCRCBuff` computed, hence the right length. -/
theorem accept_imp (t : Nat) (buf rest v rest' : Bytes) (h : checkField buf t rest = .ok (v, rest')) :
    crcCalc t buf = some v ∧ decBytes rest = .ok (v, rest') := by
  unfold checkField checkFieldWith at h
  split at h
  · cases h
  · next c hc =>
    split at h
    · cases h
    · next v' r' hd =>
      split at h
      · next e => cases h; exact ⟨by rw [hc, e], hd⟩
      · cases h

theorem serialize_crc (t : Nat) (ht : t = 1 ∨ t = 2) (buf rest : Bytes) :
    ∃ f, serializeField t buf = some (encBytes f) ∧ f.length = crcLen t ∧
      BlockCrcOk t (buf ++ encBytes f) ∧ checkField buf t (encBytes f ++ rest) = .ok (f, rest) := by
  obtain ⟨c, hc⟩ := crcField_isSome t ht (buf ++ encBytes (zeros (crcLen t)))
  have hcalc : crcCalc t buf = some c := by rw [crcCalc_eq t ht, hc]
  have hlen := (crcField_length t _ c hc).1
  have hchk : checkField buf t (encBytes c ++ rest) = .ok (c, rest) := by
    have hl : crcLen t ≤ 4 := by rcases crcLen_cases t ht with ⟨_, h, _⟩ | ⟨_, h, _⟩ <;> omega
    rw [checkField_encBytes buf t c rest c (by unfold maxInt32; omega) hcalc]; simp
  exact ⟨c, by simp [serializeField, hcalc], hlen, (accept_iff_crc t ht buf c rest hlen).mp hchk, hchk⟩

/-- A burst of at most the CRC width anywhere in the bytes before the CRC item, everything else
(length, CRC item in whatever encoding, what follows) unchanged: if the first is accepted, the second is
rejected with "invalid CRC value". -/
theorem block_burst_rejected (t : Nat) (ht : t = 1 ∨ t = 2) (pre d d' post rest v rest' : Bytes)
    (hlen : d.length = d'.length)
    (hb : span (xorBits (bitsOf d) (bitsOf d')) ≤ crcWidth t) (hne : d ≠ d')
    (hacc : checkField (pre ++ d ++ post) t rest = .ok (v, rest')) :
    checkField (pre ++ d' ++ post) t rest = .error .crc := by
  obtain ⟨hcalc, hdec⟩ := accept_imp t _ rest v rest' hacc
  obtain ⟨c', hc'⟩ := crcField_isSome t ht ((pre ++ d' ++ post) ++ encBytes (zeros (crcLen t)))
  have hcalc' : crcCalc t (pre ++ d' ++ post) = some c' := by rw [crcCalc_eq t ht, hc']
  rw [crcCalc_eq t ht] at hcalc
  have hne' := crcField_burst_ne t ht pre d d' (post ++ encBytes (zeros (crcLen t))) hlen hb hne
  simp only [← List.append_assoc] at hne'
  rw [hcalc, hc'] at hne'
  have hcv : c' ≠ v := fun e => hne' (by rw [e])
  unfold checkField checkFieldWith
  rw [hcalc', hdec]
  simp [hcv]

/-- A changed CRC value with unchanged protected bytes is rejected. -/
theorem field_change_rejected (t : Nat) (buf field field' rest rest' : Bytes)
    (hf' : field'.length ≤ maxInt32) (hne : field ≠ field')
    (hacc : checkField buf t (encBytes field ++ rest) = .ok (field, rest)) :
    checkField buf t (encBytes field' ++ rest') = .error .crc := by
  have ⟨hc, _⟩ := accept_imp t buf _ field rest hacc
  rw [checkField_encBytes buf t field' rest' field hf' hc]
  simp [hne]

/-- Flipping bit `k` of a byte changes the byte. -/
theorem flip_ne (x : UInt8) (k : Nat) (hk : k < 8) : x ^^^ UInt8.ofNat (2 ^ k) ≠ x := by
  intro h
  have h1 := congrArg UInt8.toNat h
  have hm : (UInt8.ofNat (2 ^ k)).toNat = 2 ^ k := by
    apply Cbor.Lemmas.toNat_ofNat_lt
    have : 2 ^ k < 2 ^ 8 := Nat.pow_lt_pow_right (by decide) hk
    omega
  rw [UInt8.toNat_xor, hm] at h1
  have h2 := congrArg (fun n => n.testBit k) h1
  simp only [Nat.testBit_xor, Nat.testBit_two_pow_self] at h2
  cases hx : x.toNat.testBit k <;> simp [hx] at h2

/-- The parser rejects anything that does not start with the indefinite-array byte. -/
theorem frame_start_rejected (b : UInt8) (rest : Bytes) (h : b.toNat ≠ 0x9F) :
    parseBundle (b :: rest) = .other := by
  simp [parseBundle, parseBundleWith, h]

/-! ### Parser level: a block that is delimited identically before and after the burst -/

theorem parseCanonical_ok (bs x : Bytes) (h : parseCanonical bs = .ok x) :
    (∃ t r0, canonicalPre bs = .ok (5, t, r0, x)) ∨
    (∃ t r0 r v, canonicalPre bs = .ok (6, t, r0, r) ∧ checkField (canonicalBuf 6 r0 r) t r = .ok (v, x)) := by
  unfold parseCanonical parseCanonicalWith at h
  split at h
  · cases h
  · next n t r0 r hp =>
    split at h
    · next h6 =>
      subst h6
      split at h
      · cases h
      · next v r' hc => cases h; exact Or.inr ⟨t, r0, r, v, hp, hc⟩
    · next h6 =>
      cases h
      have : n = 5 := by
        unfold canonicalPre at hp
        simp only [bind, Except.bind] at hp
        split at hp
        · cases hp
        · next n' r0' hd =>
          split at hp
          · cases hp
          · next hn =>
            repeat (first | cases hp | split at hp)
            all_goals omega
      subst this
      exact Or.inl ⟨t, r0, hp⟩

/-- **Canonical block**: both encodings are delimited the same way by the parser (6-element array, same CRC
type, same unread input `r` — hence same CRC item and same following blocks) and the bytes tee'd into the
CRC buffer differ by a burst of at most the CRC width: if the first is accepted the second is rejected
with "invalid CRC value". -/
theorem canonical_burst_rejected (t : Nat) (ht : t = 1 ∨ t = 2) (bs bs' r0 r0' r x : Bytes)
    (h1 : canonicalPre bs = .ok (6, t, r0, r)) (h2 : canonicalPre bs' = .ok (6, t, r0', r))
    (hlen : (consumed r0 r).length = (consumed r0' r).length)
    (hb : span (xorBits (bitsOf (consumed r0 r)) (bitsOf (consumed r0' r))) ≤ crcWidth t)
    (hne : consumed r0 r ≠ consumed r0' r)
    (hacc : parseCanonical bs = .ok x) : parseCanonical bs' = .error .crc := by
  rcases parseCanonical_ok bs x hacc with ⟨t5, r5, h5⟩ | ⟨t6, r6, r6', v, h6, hc⟩
  · rw [h1] at h5; cases h5
  · rw [h1] at h6
    cases h6
    have := block_burst_rejected t ht (encArray 6) (consumed r0 r) (consumed r0' r) [] r v x hlen hb hne
      (by simpa [canonicalBuf] using hc)
    unfold parseCanonical parseCanonicalWith
    rw [h2]
    simp only [↓reduceIte]
    have e : checkFieldWith crcCalc (canonicalBuf 6 r0' r) t r = .error .crc := by
      simpa [canonicalBuf, checkField] using this
    rw [e]

/-- **Primary block**, same statement (here the array head is part of the tee'd bytes). -/
theorem primary_burst_rejected (t : Nat) (ht : t = 1 ∨ t = 2) (bs bs' r x : Bytes) (n n' : Nat)
    (hn : n = 9 ∨ n = 11) (hn' : n' = 9 ∨ n' = 11)
    (h1 : primaryPre bs = .ok (n, t, r)) (h2 : primaryPre bs' = .ok (n', t, r))
    (hlen : (consumed bs r).length = (consumed bs' r).length)
    (hb : span (xorBits (bitsOf (consumed bs r)) (bitsOf (consumed bs' r))) ≤ crcWidth t)
    (hne : consumed bs r ≠ consumed bs' r)
    (hacc : parsePrimary bs = .ok x) : parsePrimary bs' = .error .crc := by
  unfold parsePrimary parsePrimaryWith at hacc ⊢
  rw [h1] at hacc
  rw [h2]
  simp only [hn, hn', ↓reduceIte] at hacc ⊢
  split at hacc
  · cases hacc
  · cases hacc
  · next v r' hc =>
    cases hacc
    have := block_burst_rejected t ht [] (consumed bs r) (consumed bs' r) [] r v x hlen hb hne
      (by simpa [checkField] using hc)
    have e : checkFieldWith crcCalc (consumed bs' r) t r = .error .crc := by
      simpa [checkField] using this
    rw [e]

/-- Every single-bit change of the closing break byte makes the block loop fail (not end). -/
theorem frame_end_rejected (x : UInt8)
    (hx : x = 0xFE ∨ x = 0xFD ∨ x = 0xFB ∨ x = 0xF7 ∨ x = 0xEF ∨ x = 0xDF ∨ x = 0xBF ∨ x = 0x7F)
    (rest : Bytes) : parseCanonical (x :: rest) = .error .other := by
  rcases hx with rfl | rfl | rfl | rfl | rfl | rfl | rfl | rfl <;>
    simp [parseCanonical, parseCanonicalWith, canonicalPre, decArray, decExpect, decHead, unwrapped,
      bind, Except.bind, majArray]
  by_cases h : rest.length < 8 <;> simp [h]

/-! ### "Exactly the received bytes of that block": what the parser consumed -/

theorem decHead_suffix (bs rest : Bytes) (m n : Nat) (h : decHead bs = .ok (m, n, rest)) : rest <:+ bs := by
  cases bs with
  | nil => simp [decHead] at h
  | cons b t =>
    simp only [decHead] at h
    split at h
    · cases h
    · split at h
      · cases h
      · split at h
        · cases h; exact List.suffix_cons _ _
        · split at h
          · split at h
            · cases h
            · cases h; exact (List.drop_suffix _ _).trans (List.suffix_cons _ _)
          · cases h

theorem decExpect_suffix (maj : Nat) (bs rest : Bytes) (n : Nat) (h : decExpect maj bs = .ok (n, rest)) :
    rest <:+ bs := by
  unfold decExpect at h
  split at h
  · cases h
  · next m n' r hd =>
    split at h
    · cases h; exact decHead_suffix bs _ _ _ hd
    · cases h

theorem decBytes_suffix (bs v rest : Bytes) (h : decBytes bs = .ok (v, rest)) : rest <:+ bs := by
  unfold decBytes at h
  split at h
  · cases h
  · next n r hd =>
    unfold readRaw at h
    split at h
    · cases h
    · split at h
      · cases h
      · cases h; exact (List.drop_suffix _ r).trans (decExpect_suffix _ bs r n hd)

theorem uintU_suffix (bs rest : Bytes) (n : Nat) (h : uintU bs = .ok (n, rest)) : rest <:+ bs := by
  unfold uintU at h
  split at h
  · cases h
  · next r hd => cases h; exact decExpect_suffix _ bs _ _ hd

theorem consumed_append (h b : Bytes) : consumed (h ++ b) b = h := by
  simp [consumed]

theorem consumed_of_suffix (a b : Bytes) (h : b <:+ a) : consumed a b ++ b = a := by
  obtain ⟨p, rfl⟩ := h
  rw [consumed_append]

theorem canonicalPre_ok (bs r0 r : Bytes) (n t : Nat) (h : canonicalPre bs = .ok (n, t, r0, r)) :
    decArray bs = .ok (n, r0) ∧ r <:+ r0 ∧ (n = 5 ∨ n = 6) ∧ t ≤ 2 ∧ (n = 6 ↔ t ≠ 0) := by
  unfold canonicalPre at h
  simp only [bind, Except.bind] at h
  split at h
  · cases h
  · next _ p hd =>
    split at h
    · cases h
    · next hn =>
      split at h
      · cases h
      · next v1 h1 =>
        split at h
        · cases h
        · next v2 h2 =>
          split at h
          · cases h
          · next v3 h3 =>
            split at h
            · cases h
            · next v4 h4 =>
              split at h
              · cases h
              · next ht2 =>
                split at h
                · cases h
                · next hlen =>
                  split at h
                  · cases h
                  · next d r' h5 =>
                    cases h
                    have s1 := uintU_suffix _ _ _ (show uintU p.snd = .ok (v1.fst, v1.snd) from h1)
                    have s2 := uintU_suffix _ _ _ (show uintU v1.snd = .ok (v2.fst, v2.snd) from h2)
                    have s3 := uintU_suffix _ _ _ (show uintU v2.snd = .ok (v3.fst, v3.snd) from h3)
                    have s4 := uintU_suffix _ _ _ (show uintU v3.snd = .ok (v4.fst, v4.snd) from h4)
                    have s5 := decBytes_suffix _ _ _ h5
                    refine ⟨hd, s5.trans (s4.trans (s3.trans (s2.trans s1))), by omega, by omega, ?_⟩
                    simp only [ne_eq, Decidable.not_not] at hlen
                    by_cases h6 : p.fst = 6 <;> by_cases h0 : v4.fst = 0 <;> simp_all

/-- Parser-level `accept_iff_crc` for a canonical block whose array head and CRC item head are in
shortest form: accepted iff the last `crcLen t` bytes of exactly the bytes the parser consumed for
this block are the CRC of those bytes with the field zeroed. -/
theorem canonical_accept_iff_crc (t : Nat) (ht : t = 1 ∨ t = 2) (bs r0 r v x : Bytes)
    (hpre : canonicalPre bs = .ok (6, t, r0, r))
    (hhead : consumed bs r0 = encArray 6)
    (hitem : r = encBytes v ++ x) (hv : v.length = crcLen t) :
    parseCanonical bs = .ok x ↔ BlockCrcOk t (consumed bs x) := by
  subst hitem
  obtain ⟨hd, hs, _⟩ := canonicalPre_ok bs r0 _ 6 t hpre
  have hs0 : r0 <:+ bs := decExpect_suffix _ bs r0 6 hd
  have e0 := consumed_of_suffix bs r0 hs0
  have e1 := consumed_of_suffix r0 _ hs
  rw [hhead] at e0
  generalize hcdef : consumed r0 (encBytes v ++ x) = cc at *
  have hbs : bs = (encArray 6 ++ cc ++ encBytes v) ++ x := by
    rw [← e0, ← e1]; simp [List.append_assoc]
  have hcons : consumed bs x = encArray 6 ++ cc ++ encBytes v := by
    rw [hbs, consumed_append]
  rw [hcons, ← accept_iff_crc t ht (encArray 6 ++ cc) v x hv]
  have hl : crcLen t ≤ 4 := by rcases crcLen_cases t ht with ⟨_, h, _⟩ | ⟨_, h, _⟩ <;> omega
  obtain ⟨c, hc⟩ := crcField_isSome t ht ((encArray 6 ++ cc) ++ encBytes (zeros (crcLen t)))
  have hcalc : crcCalc t (encArray 6 ++ cc) = some c := by rw [crcCalc_eq t ht, hc]
  have hchk := checkField_encBytes (encArray 6 ++ cc) t v x c (by unfold maxInt32; omega) hcalc
  unfold parseCanonical parseCanonicalWith
  rw [hpre]
  simp only [↓reduceIte, canonicalBuf, hcdef]
  have hchk' : checkFieldWith crcCalc (encArray 6 ++ cc) t (encBytes v ++ x) =
      if c = v then .ok (v, x) else .error .crc := hchk
  rw [hchk', hchk]
  by_cases hcv : c = v <;> simp [hcv]

theorem skip_suffix (fuel : Nat) :
    (∀ bs r, skipItem fuel bs = some r → r <:+ bs) ∧
    (∀ n bs r, skipItems fuel n bs = some r → r <:+ bs) := by
  induction fuel with
  | zero => exact ⟨fun bs r h => by simp [skipItem] at h, fun n bs r h => by simp [skipItems] at h⟩
  | succ fuel ih =>
    constructor
    · intro bs r h
      simp only [skipItem] at h
      split at h
      · cases h
      · next maj n rest hd =>
        have hs := decHead_suffix bs rest maj n hd
        split at h
        · split at h
          · cases h
          · cases h; exact (List.drop_suffix _ _).trans hs
        · split at h
          · split at h
            · cases h
            · exact (ih.2 _ _ _ h).trans hs
          · split at h
            · split at h
              · cases h
              · exact (ih.2 _ _ _ h).trans hs
            · split at h
              · exact (ih.1 _ _ h).trans hs
              · cases h; exact hs
    · intro n bs r h
      cases n with
      | zero => simp only [skipItems] at h; cases h; exact List.suffix_refl _
      | succ n =>
        simp only [skipItems] at h
        split at h
        · cases h
        · next rest hr => exact (ih.2 _ _ _ h).trans (ih.1 _ _ hr)

theorem skipE_suffix (bs r : Bytes) (h : skipE bs = .ok r) : r <:+ bs := by
  unfold skipE at h
  split at h
  · cases h
  · next r' hr => cases h; exact (skip_suffix _).1 _ _ hr

theorem uintE_suffix (bs rest : Bytes) (n : Nat) (h : uintE bs = .ok (n, rest)) : rest <:+ bs := by
  unfold uintE at h
  split at h
  · cases h
  · next r hd => cases h; exact decExpect_suffix _ bs _ _ hd

theorem primaryPre_ok (bs r : Bytes) (n t : Nat) (h : primaryPre bs = .ok (n, t, r)) :
    r <:+ bs ∧ t ≤ 2 ∧ ((n = 9 ∨ n = 11) ↔ t ≠ 0) := by
  unfold primaryPre at h
  simp only [bind, Except.bind] at h
  split at h
  · cases h
  · next _ p hd =>
    have s0 : p.snd <:+ bs := decExpect_suffix _ bs p.snd p.fst hd
    split at h
    · cases h
    · split at h
      · cases h
      · next v1 h1 =>
        have s1 := uintE_suffix _ _ _ (show uintE p.snd = .ok (v1.fst, v1.snd) from h1)
        split at h
        · cases h
        · split at h
          · cases h
          · next v2 h2 =>
            have s2 := uintE_suffix _ _ _ (show uintE v1.snd = .ok (v2.fst, v2.snd) from h2)
            split at h
            · cases h
            · split at h
              · cases h
              · next v3 h3 =>
                have s3 := uintE_suffix _ _ _ (show uintE v2.snd = .ok (v3.fst, v3.snd) from h3)
                split at h
                · cases h
                · next ht2 =>
                  split at h
                  · cases h
                  · next hlen =>
                    split at h
                    · cases h
                    · next k1 g1 =>
                      have t1 := skipE_suffix _ _ g1
                      split at h
                      · cases h
                      · next k2 g2 =>
                        have t2 := skipE_suffix _ _ g2
                        split at h
                        · cases h
                        · next k3 g3 =>
                          have t3 := skipE_suffix _ _ g3
                          split at h
                          · cases h
                          · next k4 g4 =>
                            have t4 := skipE_suffix _ _ g4
                            split at h
                            · cases h
                            · next v5 h5 =>
                              have s5 := uintE_suffix _ _ _ (show uintE k4 = .ok (v5.fst, v5.snd) from h5)
                              have base : v5.snd <:+ bs :=
                                s5.trans (t4.trans (t3.trans (t2.trans (t1.trans (s3.trans (s2.trans (s1.trans s0)))))))
                              have hty : v3.fst ≤ 2 ∧ ((p.fst = 9 ∨ p.fst = 11) ↔ v3.fst ≠ 0) := by
                                refine ⟨by omega, ?_⟩
                                simp only [ne_eq, Decidable.not_not] at hlen
                                by_cases h6 : (p.fst = 9 ∨ p.fst = 11) <;> by_cases h0 : v3.fst = 0 <;> simp_all
                              split at h
                              · cases h
                              · next v6 h6 =>
                                cases h
                                refine ⟨?_, hty⟩
                                split at h6
                                · split at h6
                                  · cases h6
                                  · next w1 q1 =>
                                    split at h6
                                    · cases h6
                                    · next w2 q2 =>
                                      cases h6
                                      have u1 := uintE_suffix _ _ _ (show uintE v5.snd = .ok (w1.fst, w1.snd) from q1)
                                      have u2 := uintE_suffix _ _ _ (show uintE w1.snd = .ok (w2.fst, w2.snd) from q2)
                                      exact u2.trans (u1.trans base)
                                · cases h6; exact base

/-- Parser-level `accept_iff_crc` for the primary block (everything from the array head on is tee'd as
received, so only the CRC item head has to be in shortest form). -/
theorem primary_accept_iff_crc (t : Nat) (ht : t = 1 ∨ t = 2) (bs r v x : Bytes) (n : Nat)
    (hn : n = 9 ∨ n = 11) (hpre : primaryPre bs = .ok (n, t, r))
    (hitem : r = encBytes v ++ x) (hv : v.length = crcLen t) :
    parsePrimary bs = .ok x ↔ BlockCrcOk t (consumed bs x) := by
  subst hitem
  have hs := (primaryPre_ok bs _ n t hpre).1
  have e1 := consumed_of_suffix bs _ hs
  generalize hcdef : consumed bs (encBytes v ++ x) = cc at *
  have hbs : bs = (cc ++ encBytes v) ++ x := by rw [← e1]; simp [List.append_assoc]
  have hcons : consumed bs x = cc ++ encBytes v := by rw [hbs, consumed_append]
  rw [hcons, ← accept_iff_crc t ht cc v x hv]
  have hl : crcLen t ≤ 4 := by rcases crcLen_cases t ht with ⟨_, h, _⟩ | ⟨_, h, _⟩ <;> omega
  obtain ⟨c, hc⟩ := crcField_isSome t ht (cc ++ encBytes (zeros (crcLen t)))
  have hcalc : crcCalc t cc = some c := by rw [crcCalc_eq t ht, hc]
  have hchk := checkField_encBytes cc t v x c (by unfold maxInt32; omega) hcalc
  unfold parsePrimary parsePrimaryWith
  rw [hpre]
  simp only [hn, ↓reduceIte, hcdef]
  have hchk' : checkFieldWith crcCalc cc t (encBytes v ++ x) =
      if c = v then .ok (v, x) else .error .crc := hchk
  rw [hchk', hchk]
  by_cases hcv : c = v <;> simp [hcv]

/-! ### After the repair of D5: a declared CRC is always carried -/

theorem t_cases (t : Nat) (h2 : t ≤ 2) (h0 : t ≠ 0) : t = 1 ∨ t = 2 := by omega

/-- Canonical block, no assumption on the array length or on the type being a known one. -/
theorem canonical_accept_iff_crc_decl (bs r0 r v x : Bytes) (n t : Nat)
    (hpre : canonicalPre bs = .ok (n, t, r0, r)) (hdecl : t ≠ 0)
    (hhead : consumed bs r0 = encArray n)
    (hitem : r = encBytes v ++ x) (hv : v.length = crcLen t) :
    parseCanonical bs = .ok x ↔ BlockCrcOk t (consumed bs x) := by
  obtain ⟨_, _, _, h2, h6⟩ := canonicalPre_ok bs r0 r n t hpre
  have hn : n = 6 := h6.mpr hdecl
  subst hn
  exact canonical_accept_iff_crc t (t_cases t h2 hdecl) bs r0 r v x hpre hhead hitem hv

theorem primary_accept_iff_crc_decl (bs r v x : Bytes) (n t : Nat)
    (hpre : primaryPre bs = .ok (n, t, r)) (hdecl : t ≠ 0)
    (hitem : r = encBytes v ++ x) (hv : v.length = crcLen t) :
    parsePrimary bs = .ok x ↔ BlockCrcOk t (consumed bs x) := by
  obtain ⟨_, h2, h9⟩ := primaryPre_ok bs r n t hpre
  exact primary_accept_iff_crc t (t_cases t h2 hdecl) bs r v x n (h9.mpr hdecl) hpre hitem hv

/-- An accepted canonical block that declares a CRC went through the comparison. -/
theorem canonical_declared_checked (bs x r0 r : Bytes) (n t : Nat)
    (hpre : canonicalPre bs = .ok (n, t, r0, r)) (hdecl : t ≠ 0) (hacc : parseCanonical bs = .ok x) :
    n = 6 ∧ (t = 1 ∨ t = 2) ∧ ∃ v, checkField (canonicalBuf 6 r0 r) t r = .ok (v, x) := by
  obtain ⟨_, _, _, h2, h6⟩ := canonicalPre_ok bs r0 r n t hpre
  have hn : n = 6 := h6.mpr hdecl
  subst hn
  refine ⟨rfl, t_cases t h2 hdecl, ?_⟩
  rcases parseCanonical_ok bs x hacc with ⟨t5, r5, h5⟩ | ⟨t6, r6, r6', v, h6', hc⟩
  · rw [hpre] at h5; cases h5
  · rw [hpre] at h6'; cases h6'; exact ⟨v, hc⟩

end Dtn7.Crc.Lemmas
