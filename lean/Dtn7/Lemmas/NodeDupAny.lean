/-
C13 `never_twice` without a domain of histories: for EVERY history of the code as it is.
The provenance of a stored bundle is kept up to the sequence number (`Orig`): a submission is filed under
the number the node chose. What is left is a hypothesis about the tags the Spec uses to tell bundles apart
(`Tags`: one tag, one (source, creation time)).
-/
import Dtn7.Lemmas.NodeDup
import Dtn7.Lemmas.NodeBookAny

namespace Dtn7.Node

/-! ## `SendBundle` in every state -/

theorem sendBundle_ok_booked_any (env : Env) (b : Bundle) (n : Node)
    (hseq : n.cfg.seqFirst = true) (hskip : n.cfg.skipStored = true)
    (hrep : replicates n.cfg (assignSeq b n).1 = true) :
    ∀ p, Output.sent p (assignSeq b n).1 true ∈ (sendBundle env b n).2 → p.eid.sameNode (assignSeq b n).1.dst = false →
      Booked (sendBundle env b n).1 (assignSeq b n).1.key p.eid := by
  rcases assignSeq_free b n hskip with ⟨⟨q, hq⟩, ⟨x, hx⟩, hfree⟩
  have hpair : assignSeq b n = ({ b with seq := q }, n.setIdk x) := Prod.ext hq hx
  rw [hq] at hfree hrep
  rw [hq]
  intro p hmem hns
  unfold sendBundle at hmem ⊢
  simp only [hseq, if_true, hpair] at hmem ⊢
  generalize ({ b with seq := q } : Bundle) = b' at *
  have hfresh : (n.setIdk x).store.get b'.key = none := hfree
  have hnd : newDesc (n.setIdk x) b'.key = { key := b'.key, receiver := none, cons := Cons.empty, bndl := none } := by
    unfold newDesc
    simp only [hfresh]
  unfold newDescFromBundle at hmem ⊢
  simp only [hnd] at hmem ⊢
  have hs1 : sync { key := b'.key, receiver := none, cons := Cons.empty, bndl := some b' } (n.setIdk x) =
      push b' (n.setIdk x) := sync_push _ _ b' hfresh rfl
  rw [hs1] at hmem ⊢
  have hg1 : (push b' (n.setIdk x)).store.get b'.key = some (newItem n.cfg n.now b') :=
    push_get_absent b' (n.setIdk x) hfresh
  have hnn := notifyNew_rt b'.key b' (push b' (n.setIdk x))
  rcases hnn.item _ hg1 with ⟨it2, g2, _⟩
  have hpenv : SameEnv (n.setIdk x) (push b' (n.setIdk x)) := (push_only b' (n.setIdk x)).env
  have hcfg : (notifyNew b'.key b' (push b' (n.setIdk x))).cfg = n.cfg := hnn.only.env.cfg.trans hpenv.cfg
  exact transmit_ok_booked env { key := b'.key, receiver := none, cons := Cons.empty, bndl := some b' } b'
    (notifyNew b'.key b' (push b' (n.setIdk x))) it2 g2 (by rw [hcfg]; exact Or.inl hseq)
    (by rw [hcfg]; exact hrep) p hmem hns

theorem sendBundle_cons_any (env : Env) (b : Bundle) (n : Node) (w : WF n) (hfix : n.cfg.holdFix = true)
    (hseq : n.cfg.seqFirst = true) (hskip : n.cfg.skipStored = true)
    (hc : ConsInv n) : ConsInv (sendBundle env b n).1 := by
  have hstep := (sendBundle_only_any env b n w hseq hskip).2.1
  rcases assignSeq_free b n hskip with ⟨⟨q, hq⟩, ⟨x, hx⟩, hfree⟩
  have hpair : assignSeq b n = ({ b with seq := q }, n.setIdk x) := Prod.ext hq hx
  rw [hq] at hfree hstep
  intro k it' hg'
  by_cases hk : k = ({ b with seq := q } : Bundle).key
  · subst hk
    revert hg'
    unfold sendBundle
    simp only [hseq, if_true, hpair]
    generalize ({ b with seq := q } : Bundle) = b' at *
    have hfresh : (n.setIdk x).store.get b'.key = none := hfree
    have hnd : newDesc (n.setIdk x) b'.key = { key := b'.key, receiver := none, cons := Cons.empty, bndl := none } := by
      unfold newDesc
      simp only [hfresh]
    unfold newDescFromBundle
    simp only [hnd]
    have hs1 : sync { key := b'.key, receiver := none, cons := Cons.empty, bndl := some b' } (n.setIdk x) =
        push b' (n.setIdk x) := sync_push _ _ b' hfresh rfl
    rw [hs1]
    have hg1 : (push b' (n.setIdk x)).store.get b'.key = some (newItem n.cfg n.now b') :=
      push_get_absent b' (n.setIdk x) hfresh
    have hnn := notifyNew_rt b'.key b' (push b' (n.setIdk x))
    rcases hnn.item _ hg1 with ⟨it2, g2, _⟩
    have hpenv : SameEnv (n.setIdk x) (push b' (n.setIdk x)) := (push_only b' (n.setIdk x)).env
    have hcfg : (notifyNew b'.key b' (push b' (n.setIdk x))).cfg = n.cfg := hnn.only.env.cfg.trans hpenv.cfg
    intro hg'
    exact transmit_cons env { key := b'.key, receiver := none, cons := Cons.empty, bndl := some b' } b'
      (notifyNew b'.key b' (push b' (n.setIdk x))) it2 (by rw [hcfg]; exact hfix) g2
      (by rw [hcfg]; exact Or.inl hseq) it' hg'
  · rw [hstep.other k hk] at hg'
    exact hc k it' hg'

/-- A submission whose (renumbered) bundle has an empty class keeps the invariant — in every state. -/
theorem submit_gen_any (env : Env) (EB : Bundle → Eid → Prop) (hEB : EClass EB) (c : Cfg) (b : Bundle) (n : Node)
    (w : WF n) (hc : n.cfg = c) (hp : GenInv EB c n)
    (hseq : n.cfg.seqFirst = true) (hskip : n.cfg.skipStored = true)
    (hE : ∀ e, ¬ EB (assignSeq b n).1 e) :
    GenInv EB c (sendBundle env b n).1 ∧
    ∀ o ∈ (sendBundle env b n).2, OutOk EB c o ∧ OkB c (sendBundle env b n).1 o := by
  have hstep := (sendBundle_only_any env b n w hseq hskip).2.1
  have hb := sendBundle_bstep_any env b n hseq hskip
  have hfresh := (assignSeq_free b n hskip).2.2
  constructor
  · intro k it' hg' hrep e he
    by_cases hk : k = (assignSeq b n).1.key
    · subst hk
      rcases hb.1.bundle it' hg' with ⟨it0, g0, l0⟩ | l0
      · rw [hfresh] at g0; cases g0
      · rw [hEB.like _ _ l0] at he
        exact absurd he (hE e)
    · rw [hstep.other k hk] at hg'
      exact booked_frame hstep hk e (hp k it' hg' hrep e he)
  · intro o ho
    rcases hb.2 o ho with ⟨q, ok', hq⟩
    subst hq
    constructor
    · intro p b' ok hob hns hrep hEb
      cases hob
      exact hE _ hEb
    · intro p b' hob hns hrep
      cases hob
      exact sendBundle_ok_booked_any env b n hseq hskip (by rw [hc]; exact hrep) q ho hns

/-! ## Provenance up to the sequence number -/

/-- `b` is the bundle `e` of the history as the node holds it: same tag, source and creation time (the
sequence number is the node's choice for a submission). -/
def Orig (e b : Bundle) : Prop := b.tag = e.tag ∧ b.src = e.src ∧ b.ts = e.ts

theorem Orig.refl (b : Bundle) : Orig b b := ⟨rfl, rfl, rfl⟩

theorem Orig.like {e a b : Bundle} (h : Orig e a) (l : Like a b) : Orig e b := by
  have hk := l.2.1
  exact ⟨l.1.trans h.1, (congrArg Key.src hk).trans h.2.1, (congrArg Key.ts hk).trans h.2.2⟩

def ProvO (past : List Event) (n : Node) : Prop :=
  ∀ k it, n.store.get k = some it → ∃ e, evBundle past e ∧ Orig e it.bundle

theorem provO_touch {past : List Event} {ev : Event} {n n' : Node} {b0 b : Bundle} (hp : ProvO past n)
    (hb : evBundle (past ++ [ev]) b0) (ho : Orig b0 b) (hstep : BStep b b.key n n')
    (hother : ∀ k, k ≠ b.key → n'.store.get k = n.store.get k) : ProvO (past ++ [ev]) n' := by
  intro k it' hg'
  by_cases hk : k = b.key
  · subst hk
    rcases hstep.bundle it' hg' with ⟨it0, g0, l0⟩ | l0
    · rcases hp _ it0 g0 with ⟨e, he, hl⟩
      exact ⟨e, evBundle_snoc he, hl.like l0⟩
    · exact ⟨b0, hb, ho.like l0⟩
  · rw [hother k hk] at hg'
    rcases hp k it' hg' with ⟨e, he, hl⟩
    exact ⟨e, evBundle_snoc he, hl⟩

theorem provO_sub {past : List Event} {ev : Event} {n n' : Node} (hp : ProvO past n)
    (hsub : ∀ k it', n'.store.get k = some it' → ∃ it, n.store.get k = some it ∧ Like it.bundle it'.bundle) :
    ProvO (past ++ [ev]) n' := by
  intro k it' hg'
  rcases hsub k it' hg' with ⟨it, hg, hl⟩
  rcases hp k it hg with ⟨e, he, hl0⟩
  exact ⟨e, evBundle_snoc he, hl0.like hl⟩

/-- The tags tell bundles apart: two bundles of the history with one tag have one source and creation time. -/
def Tags (h : List Event) : Prop :=
  ∀ a b, evBundle h a → evBundle h b → a.tag = b.tag → a.src = b.src ∧ a.ts = b.ts

structure DInvO (c : Cfg) (past : List Event) (s : SpecSt) (n : Node) : Prop where
  prov : ProvO past n
  cons : ConsInv n
  dup : GenInv (EBd s.okSent) c n
  live : ∀ te ∈ s.okSent, ∃ k it, n.store.get k = some it ∧ it.bundle.tag = te.1 ∧ k.seq = te.2.1

structure DCoreO (c : Cfg) (past : List Event) (s : SpecSt) (ev : Event) (m : Node) (outs : List Output) : Prop where
  wf : WF m
  prov : ProvO (past ++ [ev]) m
  cons : ConsInv m
  gen : GenInv (EBd s.okSent) c m
  outs : ∀ o ∈ outs, OutOk (EBd s.okSent) c o ∧ OkB c m o ∧
    ∀ p b ok, o = Output.sent p b ok → ∃ e, evBundle (past ++ [ev]) e ∧ Orig e b

theorem key_ext {k k' : Key} (h1 : k.src = k'.src) (h2 : k.ts = k'.ts) (h3 : k.seq = k'.seq) : k = k' := by
  cases k; cases k'; simp_all

theorem evBundle_mono {past fut : List Event} {ev : Event} {x : Bundle} (hx : evBundle (past ++ [ev]) x) :
    evBundle (past ++ ev :: fut) x := by
  have : past ++ ev :: fut = (past ++ [ev]) ++ fut := by simp
  rw [this]
  rcases hx with hx | hx
  · left; rw [submitted_append]; exact List.mem_append_left _ hx
  · right; rw [received_append]; exact List.mem_append_left _ hx

theorem dupO_of_core (c : Cfg) (env : Env) (past fut : List Event) (ev : Event) (s : SpecSt) (n : Node)
    (htags : Tags (past ++ ev :: fut))
    (hcore : DCoreO c past s ev (stepCore env n ev).1 (stepCore env n ev).2) :
    dupFail c s (obsOf (ev, (step env n ev).2, (step env n ev).1)) = none ∧
    DInvO c (past ++ [ev]) (specNext c s (obsOf (ev, (step env n ev).2, (step env n ev).1))) (step env n ev).1 := by
  have hstore : (step env n ev).1.store = (stepCore env n ev).1.store := rfl
  have hsent : ∀ p b ok, Output.sent p b ok ∈ (step env n ev).2 → Output.sent p b ok ∈ (stepCore env n ev).2 := by
    intro p b ok h
    rcases List.mem_append.mp h with h | h
    · exact h
    · unfold deletedKeys at h
      rcases List.mem_map.mp h with ⟨kv, _, hk⟩
      cases hk
  have hbooked : ∀ k e, Booked (stepCore env n ev).1 k e → Booked (step env n ev).1 k e := fun _ _ h => h
  constructor
  · unfold dupFail
    apply List.findSome?_eq_none_iff.mpr
    intro pbk hpbk
    rcases mem_chosen hpbk with ⟨hm, hns, hrep⟩
    simp only [obsOf] at hm
    have := (hcore.outs _ (hsent _ _ _ hm)).1 pbk.1 pbk.2.1 pbk.2.2 rfl hns hrep
    have hnot : (pbk.2.1.tag, pbk.2.1.seq, pbk.1.eid) ∉ s.okSent := fun h => this ⟨h, hns⟩
    simp [hnot]
  · refine ⟨?_, ?_, ?_, ?_⟩
    · intro k it hg; rw [hstore] at hg; exact hcore.prov k it hg
    · intro k it hg; rw [hstore] at hg; exact hcore.cons k it hg
    · intro k it hg hrep e he
      rw [hstore] at hg
      apply hbooked
      have hmem : (it.bundle.tag, it.bundle.seq, e) ∈ okSentAfter c s (obsOf (ev, (step env n ev).2, (step env n ev).1)) := he.1
      unfold okSentAfter at hmem
      rcases List.mem_append.mp (List.mem_filter.mp hmem).1 with h | h
      · exact hcore.gen k it hg hrep e ⟨h, he.2⟩
      · rcases List.mem_filterMap.mp h with ⟨pbk, hpbk, hf⟩
        split at hf
        · rename_i hok
          have heq2 : (pbk.2.1.tag, pbk.2.1.seq, pbk.1.eid) = (it.bundle.tag, it.bundle.seq, e) := Option.some.inj hf
          rcases mem_chosen hpbk with ⟨hm, hns, hrepb⟩
          simp only [obsOf] at hm
          rw [hok] at hm
          have hco := hcore.outs _ (hsent _ _ _ hm)
          have hb := hco.2.1 pbk.1 pbk.2.1 rfl hns hrepb
          -- the item that carries this tag and number is the item of that bundle's ID
          rcases hco.2.2 pbk.1 pbk.2.1 true rfl with ⟨e2, he2, hl2⟩
          rcases hcore.prov k it hg with ⟨e1, he1, hl1⟩
          have htag : e1.tag = e2.tag := by
            rw [← hl1.1, ← hl2.1]
            exact (Prod.mk.inj heq2).1.symm
          have hst := htags e1 e2 (evBundle_mono he1) (evBundle_mono he2) htag
          have hkk : it.bundle.key = k := hcore.wf.keyed k it hg
          have hk : k = pbk.2.1.key := by
            rw [← hkk]
            apply key_ext
            · show it.bundle.src = pbk.2.1.src
              rw [hl1.2.1, hl2.2.1]; exact hst.1
            · show it.bundle.ts = pbk.2.1.ts
              rw [hl1.2.2, hl2.2.2]; exact hst.2
            · show it.bundle.seq = pbk.2.1.seq
              exact (Prod.mk.inj (Prod.mk.inj heq2).2).1.symm
          rw [hk, ← (Prod.mk.inj (Prod.mk.inj heq2).2).2]
          exact hb
        · cases hf
    · intro te hte
      have hmem : te ∈ okSentAfter c s (obsOf (ev, (step env n ev).2, (step env n ev).1)) := hte
      unfold okSentAfter at hmem
      have := (List.mem_filter.mp hmem).2
      rcases List.any_eq_true.mp this with ⟨i, hi, hti⟩
      simp only [obsOf, viewOf] at hi
      rcases List.mem_map.mp hi with ⟨⟨k, it⟩, hkv, rfl⟩
      have hti' := hti
      simp only [itemView, Bool.and_eq_true, beq_iff_eq] at hti'
      refine ⟨k, it, ?_, hti'.1, hti'.2⟩
      rw [hstore]
      exact Store.get_of_mem hcore.wf.nodup hkv

/-! ### the events -/

theorem dcoreO_checkPending (c : Cfg) (hfix : c.holdFix = true) (env : Env) (past : List Event) (s : SpecSt)
    (n n1 : Node) (ev : Event) (w : WF n) (hcn : n.cfg = c) (di : DInvO c past s n)
    (hs : n1.store = n.store) (hcfg : n1.cfg = n.cfg) (hsp : n1.spray = n.spray) :
    DCoreO c past s ev (checkPending env n1).1 (checkPending env n1).2 := by
  have w1 : WF n1 := ⟨by rw [hs]; exact w.keyed, by rw [hs]; exact w.nodup⟩
  have hc1 : n1.cfg = c := hcfg.trans hcn
  have hg1 : GenInv (EBd s.okSent) c n1 := genInv_storeSame _ c n n1 di.dup hs hcfg (Or.inl hsp)
  unfold checkPending
  rcases dispatchKeys_kstep env (pendingKeys n1.store) n1 w1 with ⟨w', _, _, _, _⟩
  rcases dispatchKeys_gen env _ (EBd_class _) c (pendingKeys n1.store) n1 (pendingKeys_nodup w1) w1 hc1 hg1 with ⟨hg2, ho2⟩
  refine ⟨w', ?_, ?_, hg2, ?_⟩
  · apply provO_sub di.prov
    intro k it' hg'
    have := dispatchKeys_like env k (pendingKeys n1.store) n1 w1 it' hg'
    rw [hs] at this
    exact this
  · apply dispatchKeys_cons env _ n1 w1 (by rw [hc1]; exact hfix)
    intro k it hg; rw [hs] at hg; exact di.cons k it hg
  · intro o ho
    rcases ho2 o ho with ⟨h1, h2, h3⟩
    refine ⟨h1, h2, ?_⟩
    intro p b ok hob
    rcases h3 p b ok hob with ⟨k, it, _, hg, hb⟩
    rw [hs] at hg
    rcases di.prov k it hg with ⟨e, he, hl⟩
    exact ⟨e, evBundle_snoc he, by rw [hb]; exact hl⟩

theorem dcoreO_storeSame (c : Cfg) (past : List Event) (s : SpecSt) (n m : Node) (ev : Event)
    (w : WF n) (di : DInvO c past s n) (hs : m.store = n.store) (hc : m.cfg = n.cfg)
    (hsp : m.spray = n.spray ∨ m.spray = []) : DCoreO c past s ev m [] := by
  refine ⟨⟨by rw [hs]; exact w.keyed, by rw [hs]; exact w.nodup⟩, ?_, ?_, ?_, fun o ho => by cases ho⟩
  · exact provO_sub di.prov (fun k it' hg' => ⟨it', by rw [hs] at hg'; exact hg', Like.refl _⟩)
  · intro k it hg; rw [hs] at hg; exact di.cons k it hg
  · exact genInv_storeSame _ c n m di.dup hs hc hsp

theorem dcoreO_cleanTick (c : Cfg) (env : Env) (past : List Event) (s : SpecSt) (n : Node) (t : Nat)
    (w : WF n) (di : DInvO c past s n) :
    DCoreO c past s (.cleanTick t) (stepCore env n (.cleanTick t)).1 (stepCore env n (.cleanTick t)).2 := by
  have hget : ∀ k, (stepCore env n (.cleanTick t)).1.store.get k =
      if k ∈ expiredKeys n.store t then none else n.store.get k := by
    intro k
    simp only [stepCore, deleteExpired]
    exact Store.get_foldl_erase _ _ _
  have hsub : ∀ k it', (stepCore env n (.cleanTick t)).1.store.get k = some it' → n.store.get k = some it' := by
    intro k it' hg
    rw [hget] at hg
    split at hg
    · cases hg
    · exact hg
  refine ⟨wf_foldl_erase (expiredKeys n.store t) { n with now := t } ⟨w.keyed, w.nodup⟩, ?_, ?_, ?_,
    fun o ho => by cases ho⟩
  · exact provO_sub di.prov (fun k it' hg' => ⟨it', hsub k it' hg', Like.refl _⟩)
  · intro k it hg; exact di.cons k it (hsub k it hg)
  · intro k it hg hrep e he hh
    have hg0 := hsub k it hg
    have hb := di.dup k it hg0 hrep e he
    unfold Booked hasBook sentL at hb
    unfold hasBook at hh
    unfold sentL
    have hcfg : (stepCore env n (.cleanTick t)).1.cfg = n.cfg := rfl
    have hsp : (stepCore env n (.cleanTick t)).1.spray = n.spray := rfl
    rw [hcfg, hsp, hg] at *
    rw [hg0] at hb
    exact hb hh

/-- No remembered transmission names a free ID: a remembered one is still stored, under an ID with that tag's
source and creation time and with that number. -/
theorem no_memory_of_free (c : Cfg) (past : List Event) (s : SpecSt) (n : Node) (w : WF n) (di : DInvO c past s n)
    (all : List Event) (htags : Tags all) (hpast : ∀ x, evBundle past x → evBundle all x)
    (b0 b : Bundle) (hb0 : evBundle all b0) (ho : Orig b0 b) (hfree : n.store.get b.key = none) :
    ∀ e, ¬ EBd s.okSent b e := by
  intro e he
  rcases di.live _ he.1 with ⟨k, it, hg, htag, hseq⟩
  rcases di.prov k it hg with ⟨e1, he1, hl1⟩
  have hst := htags e1 b0 (hpast _ he1) hb0 (by rw [← hl1.1, htag, ← ho.1])
  have hkk : it.bundle.key = k := w.keyed k it hg
  have hk : k = b.key := by
    apply key_ext
    · show k.src = b.src
      rw [← hkk]; show it.bundle.src = b.src
      rw [hl1.2.1, ho.2.1]; exact hst.1
    · show k.ts = b.ts
      rw [← hkk]; show it.bundle.ts = b.ts
      rw [hl1.2.2, ho.2.2]; exact hst.2
    · exact hseq
  rw [hk, hfree] at hg
  cases hg

theorem dcoreO_submit (c : Cfg) (hc : Cur c) (env : Env) (past fut : List Event) (b : Bundle)
    (htags : Tags (past ++ .submit b :: fut)) (s : SpecSt) (n : Node)
    (w : WF n) (hcn : n.cfg = c) (di : DInvO c past s n) :
    DCoreO c past s (.submit b) (stepCore env n (.submit b)).1 (stepCore env n (.submit b)).2 := by
  have hseq : n.cfg.seqFirst = true := by rw [hcn]; exact hc.seq
  have hskip : n.cfg.skipStored = true := by rw [hcn]; exact hc.skip
  have hfix : n.cfg.holdFix = true := by rw [hcn]; exact hc.hold
  rcases assignSeq_free b n hskip with ⟨⟨q, hq⟩, _, hfree⟩
  have hstep := sendBundle_only_any env b n w hseq hskip
  have hbs := sendBundle_bstep_any env b n hseq hskip
  have hbnew : evBundle (past ++ [.submit b]) b := by
    left; rw [submitted_append]; exact List.mem_append_right _ List.mem_cons_self
  have hball : evBundle (past ++ .submit b :: fut) b := evBundle_mono hbnew
  have hpast : ∀ x, evBundle past x → evBundle (past ++ .submit b :: fut) x :=
    fun x hx => evBundle_mono (evBundle_snoc hx)
  have horig : Orig b (assignSeq b n).1 := by rw [hq]; exact ⟨rfl, rfl, rfl⟩
  have hE := no_memory_of_free c past s n w di _ htags hpast b _ hball horig hfree
  rcases submit_gen_any env _ (EBd_class _) c b n w hcn di.dup hseq hskip hE with ⟨hg2, ho2⟩
  simp only [stepCore]
  refine ⟨hstep.1, provO_touch di.prov hbnew horig hbs.1 hstep.2.1.other,
    sendBundle_cons_any env b n w hfix hseq hskip di.cons, hg2, ?_⟩
  intro o ho
  rcases ho2 o ho with ⟨h1, h2⟩
  refine ⟨h1, h2, ?_⟩
  intro p b' ok hob
  rcases hbs.2 o ho with ⟨q', ok', hq'⟩
  rw [hob] at hq'
  cases hq'
  exact ⟨b, hbnew, horig⟩

theorem dcoreO_receive (c : Cfg) (hfix : c.holdFix = true) (env : Env) (past fut : List Event) (b : Bundle)
    (r : Option Eid) (htags : Tags (past ++ .receive b r :: fut)) (s : SpecSt) (n : Node)
    (w : WF n) (hcn : n.cfg = c) (di : DInvO c past s n) :
    DCoreO c past s (.receive b r) (stepCore env n (.receive b r)).1 (stepCore env n (.receive b r)).2 := by
  have hstep := receive_kstep env b r n w
  have hbnew : evBundle (past ++ [.receive b r]) b := by
    right; rw [received_append]; exact List.mem_append_right _ List.mem_cons_self
  have hball : evBundle (past ++ .receive b r :: fut) b := evBundle_mono hbnew
  have hpast : ∀ x, evBundle past x → evBundle (past ++ .receive b r :: fut) x :=
    fun x hx => evBundle_mono (evBundle_snoc hx)
  have hseed : (newDesc n b.key).cons.isEmpty = true →
      ∀ m itm, m.store.get b.key = some itm → m.cfg = c → ∀ e, EBd s.okSent b e →
        Booked (notifyNew b.key b m) b.key e := by
    intro hemp m itm _ _ e he
    exfalso
    have hnone : n.store.get b.key = none := by
      cases hg : n.store.get b.key with
      | none => rfl
      | some it =>
        have := di.cons _ it hg
        rw [newDesc_cons n b.key it hg, this] at hemp
        cases hemp
    exact no_memory_of_free c past s n w di _ htags hpast b b hball (Orig.refl b) hnone e he
  rcases receive_gen env _ (EBd_class _) c b r n w hcn di.dup hseed with ⟨hg2, ho2⟩
  simp only [stepCore]
  refine ⟨hstep.wf w, provO_touch di.prov hbnew (Orig.refl b) (receive_bstep env b r n) hstep.only.other,
    receive_cons env b r n w (by rw [hcn]; exact hfix) di.cons, hg2, ?_⟩
  intro o ho
  rcases ho2 o ho with ⟨h1, h2⟩
  refine ⟨h1, h2, ?_⟩
  intro p b' ok hob
  have : b' = b := by
    subst hob
    unfold receive at ho
    simp only at ho
    split at ho
    · cases ho
    · split at ho
      · cases ho
      · rcases dispatching_names' env _ b _ rfl _ ho with ⟨q, ok', hq⟩
        cases hq; rfl
  rw [this]
  exact ⟨b, hbnew, Orig.refl b⟩

theorem dupO_step (c : Cfg) (hc : Cur c) (env : Env) (past fut : List Event) (ev : Event)
    (htags : Tags (past ++ ev :: fut)) (s : SpecSt) (n : Node) (w : WF n) (hcn : n.cfg = c)
    (di : DInvO c past s n) :
    dupFail c s (obsOf (ev, (step env n ev).2, (step env n ev).1)) = none ∧
    DInvO c (past ++ [ev]) (specNext c s (obsOf (ev, (step env n ev).2, (step env n ev).1))) (step env n ev).1 := by
  apply dupO_of_core c env past fut ev s n htags
  cases ev with
  | submit b => exact dcoreO_submit c hc env past fut b htags s n w hcn di
  | receive b r => exact dcoreO_receive c hc.hold env past fut b r htags s n w hcn di
  | peerUp p =>
    simp only [stepCore]
    split
    · exact dcoreO_checkPending c hc.hold env past s n n (.peerUp p) w hcn di rfl rfl rfl
    · exact dcoreO_checkPending c hc.hold env past s n _ (.peerUp p) w hcn di rfl rfl rfl
  | peerDown a => exact dcoreO_storeSame c past s n _ (.peerDown a) w di rfl rfl (Or.inl rfl)
  | retryTick => exact dcoreO_checkPending c hc.hold env past s n n .retryTick w hcn di rfl rfl rfl
  | cleanTick t => exact dcoreO_cleanTick c env past s n t w di
  | restart => exact dcoreO_storeSame c past s n _ .restart w di rfl rfl (Or.inr rfl)

theorem dupO_run (c : Cfg) (hc : Cur c) (env : Env) :
    ∀ (fut past : List Event) (s : SpecSt) (n : Node) (i : Nat), Tags (past ++ fut) → RInvF c s n →
    DInvO c past s n → firstFail dupFail c s i ((trace env n fut).map obsOf) = none
  | [], _, _, _, _, _, _, _ => rfl
  | ev :: fut, past, s, n, i, htags, inv, di => by
    simp only [trace, List.map_cons, firstFail]
    have h2 := (rinvF_step c hc env ev s n inv).2
    rcases dupO_step c hc env past fut ev htags s n inv.v.wf inv.v.cfg di with ⟨h3, h4⟩
    rw [h3]
    simp only
    exact dupO_run c hc env fut (past ++ [ev]) _ _ (i + 1) (by simpa using htags) h2 h4

theorem dinvO_init (c : Cfg) (now : Nat) : DInvO c [] (SpecSt.init now) (init c now) := by
  refine ⟨?_, ?_, ?_, ?_⟩
  · intro k it h; simp [init, Store.get] at h
  · intro k it h; simp [init, Store.get] at h
  · intro k it h; simp [init, Store.get] at h
  · intro te h; simp [SpecSt.init] at h

end Dtn7.Node
