/-
C16: the manager calls `Start` only on registered adapters (`Spec.startedOnlyRegistered`), for every trace.
Independent of the other clauses: the invariant is "every element of the registry is registered
according to the log".
-/
import Dtn7.Model.ClaManager
import Dtn7.Lemmas.ClaManager

namespace Dtn7.ClaManager
open Spec

/-- every element of the registry is registered according to the log, and the log's starts are fine -/
structure R (env : Env) (reg : List Elem) (h : Hist) : Prop where
  reg : ∀ x ∈ reg, registeredIn env.cfg x.conv h = true
  ok : startedOnlyRegistered env.cfg h = true

theorem registeredIn_start (cfg : Nat → Cfg) (a c : Nat) (r : Ans) (h : Hist) :
    registeredIn cfg a (.start c r :: h) = registeredIn cfg a h := rfl

theorem registeredIn_stop (cfg : Nat → Cfg) (a c : Nat) (h : Hist) :
    registeredIn cfg a (.stop c :: h) = registeredIn cfg a h := rfl

/-- `activate`: the log grows by at most one `Start` of the element's adapter; the adapter stays the same. -/
theorem activate_shape (env : Env) (e : Elem) (h : Hist) :
    (activate env e h).elem.conv = e.conv ∧
    ((activate env e h).hist = h ∨ ∃ r, (activate env e h).hist = .start e.conv r :: h) := by
  unfold activate
  split
  · exact ⟨rfl, Or.inl rfl⟩
  · split
    · exact ⟨rfl, Or.inl rfl⟩
    · split
      · exact ⟨rfl, Or.inr ⟨_, rfl⟩⟩
      · exact ⟨rfl, Or.inr ⟨_, rfl⟩⟩
      · exact ⟨rfl, Or.inr ⟨_, rfl⟩⟩

theorem activate_ok (env : Env) (e : Elem) (h : Hist) (hr : registeredIn env.cfg e.conv h = true)
    (hok : startedOnlyRegistered env.cfg h = true) :
    startedOnlyRegistered env.cfg (activate env e h).hist = true := by
  rcases (activate_shape env e h).2 with h1 | ⟨r, h1⟩
  · rw [h1]; exact hok
  · rw [h1]; simp [startedOnlyRegistered, hr, hok]

theorem activate_reg (env : Env) (e : Elem) (h : Hist) (a : Nat) :
    registeredIn env.cfg a (activate env e h).hist = registeredIn env.cfg a h := by
  rcases (activate_shape env e h).2 with h1 | ⟨r, h1⟩
  · rw [h1]
  · rw [h1]; rfl

theorem deactivate_shape (env : Env) (e : Elem) (h : Hist) (e' : Elem) (h' : Hist)
    (hd : deactivate env e h = some (e', h')) : h' = h ∨ h' = .stop e.conv :: h := by
  unfold deactivate at hd
  split at hd
  · split at hd
    · cases hd; exact Or.inr rfl
    · cases hd
  · cases hd; exact Or.inl rfl

theorem deactivate_ok (env : Env) (e : Elem) (h : Hist) (e' : Elem) (h' : Hist)
    (hd : deactivate env e h = some (e', h')) :
    (∀ a, registeredIn env.cfg a h' = registeredIn env.cfg a h) ∧
    startedOnlyRegistered env.cfg h' = startedOnlyRegistered env.cfg h := by
  rcases deactivate_shape env e h e' h' hd with h1 | h1 <;> subst h1
  · exact ⟨fun _ => rfl, rfl⟩
  · exact ⟨fun _ => rfl, rfl⟩

theorem tickList_reg (env : Env) : ∀ (es : List Elem) (h : Hist) (a : Nat),
    registeredIn env.cfg a (tickList env es h).2 = registeredIn env.cfg a h
  | [], h, a => by simp [tickList]
  | e :: es, h, a => by
    by_cases ht : e.ttl < 0
    · simp only [tickList, ht, if_true]
      exact tickList_reg env es h a
    · simp only [tickList, ht, if_false]
      by_cases hc : (!(activate env e h).succ && !(activate env e h).retry) = true
      · simp only [hc, if_true]
        rw [tickList_reg env es _ a, activate_reg]
      · simp only [hc, Bool.false_eq_true, if_false]
        rw [tickList_reg env es _ a, activate_reg]

theorem tickList_R (env : Env) : ∀ (es : List Elem) (h : Hist), R env es h →
    R env (tickList env es h).1 (tickList env es h).2
  | [], h, r => by simpa [tickList] using r
  | e :: es, h, r => by
    have he := r.reg e List.mem_cons_self
    have hes : ∀ x ∈ es, registeredIn env.cfg x.conv h = true := fun x hx => r.reg x (List.mem_cons_of_mem _ hx)
    by_cases ht : e.ttl < 0
    · simp only [tickList, ht, if_true]
      have ih := tickList_R env es h ⟨hes, r.ok⟩
      refine ⟨?_, ih.ok⟩
      intro x hx
      rcases List.mem_cons.mp hx with hx | hx
      · subst hx
        rw [tickList_reg]
        exact he
      · exact ih.reg x hx
    · simp only [tickList, ht, if_false]
      have ih := tickList_R env es (activate env e h).hist
        ⟨fun x hx => by rw [activate_reg]; exact hes x hx, activate_ok env e h he r.ok⟩
      by_cases hc : (!(activate env e h).succ && !(activate env e h).retry) = true
      · simp only [hc, if_true]
        exact ih
      · simp only [hc, Bool.false_eq_true, if_false]
        refine ⟨?_, ih.ok⟩
        intro x hx
        rcases List.mem_cons.mp hx with hx | hx
        · subst hx
          rw [tickList_reg, activate_reg, (activate_shape env e h).1]
          exact he
        · exact ih.reg x hx

/-! ### the operations (on the state that already carries the operation's marker) -/

theorem mem_replace {env : Env} {e' : Elem} {reg : List Elem} {x : Elem} (hx : x ∈ replace env e' reg) :
    x = e' ∨ x ∈ reg := by
  unfold replace at hx
  rcases List.mem_map.mp hx with ⟨y, hy, hyx⟩
  split at hyx
  · exact Or.inl hyx.symm
  · exact Or.inr (hyx ▸ hy)

theorem register_R (env : Env) (s : State) (a : Nat) (r : R env s.reg s.hist)
    (ha : registeredIn env.cfg a s.hist = true) : R env (register env s a).reg (register env s a).hist := by
  unfold register
  split
  · exact r
  · split
    · next e hl =>
      have hmem : e ∈ s.reg := by
        obtain ⟨_, l1, l2, hreg⟩ := lookup_some hl
        rw [hreg]; simp
      split
      · exact r
      · split
        · exact r
        · refine ⟨?_, activate_ok env e s.hist (r.reg e hmem) r.ok⟩
          intro x hx
          simp only at hx ⊢
          rw [activate_reg]
          rcases mem_replace hx with hx | hx
          · subst hx
            rw [(activate_shape env e s.hist).1]
            exact r.reg e hmem
          · exact r.reg x hx
    · split
      · exact r
      · have hok := activate_ok env ⟨a, env.budget, .absent⟩ s.hist ha r.ok
        simp only
        split
        · refine ⟨?_, hok⟩
          intro x hx
          simp only at hx ⊢
          rw [activate_reg]
          exact r.reg x hx
        · refine ⟨?_, hok⟩
          intro x hx
          simp only at hx ⊢
          rw [activate_reg]
          rcases List.mem_append.mp hx with hx | hx
          · exact r.reg x hx
          · simp only [List.mem_singleton] at hx
            subst hx
            rw [(activate_shape env ⟨a, env.budget, .absent⟩ s.hist).1]
            exact ha

theorem mem_remove {env : Env} {addr : Nat} {reg : List Elem} {x : Elem} (hx : x ∈ remove env addr reg) :
    x ∈ reg ∧ addrOf env x ≠ addr := by
  unfold remove at hx
  have := List.mem_filter.mp hx
  exact ⟨this.1, by simpa using this.2⟩

/-- `unregister a`: what remains is registered, provided everything but `a` was. -/
theorem unregister_R (env : Env) (s : State) (a : Nat)
    (hreg : ∀ x ∈ s.reg, x.conv ≠ a → registeredIn env.cfg x.conv s.hist = true)
    (hok : startedOnlyRegistered env.cfg s.hist = true)
    (hnd : s.reg.Pairwise (fun e e' => addrOf env e ≠ addrOf env e'))
    (hnp : (unregister env s a).panicked = false) :
    R env (unregister env s a).reg (unregister env s a).hist := by
  cases hl : lookup env (env.cfg a).addr s.reg with
  | none =>
    have hu : unregister env s a = s := by unfold unregister; simp [hl]
    rw [hu]
    refine ⟨?_, hok⟩
    intro x hx
    apply hreg x hx
    intro hc
    exact lookup_none hl x hx (by simp [addrOf, hc])
  | some e =>
    obtain ⟨hea, l1, l2, hl12⟩ := lookup_some hl
    by_cases hc : e.conv = a
    · cases hd : deactivate env e s.hist with
      | none =>
        have hu : (unregister env s a).panicked = true := by unfold unregister; simp [hl, hc, hd]
        rw [hu] at hnp; cases hnp
      | some p =>
        obtain ⟨e', h'⟩ := p
        have hu : unregister env s a = { s with reg := remove env (env.cfg a).addr s.reg, hist := h' } := by
          unfold unregister; simp [hl, hc, hd]
        rw [hu]
        obtain ⟨d1, d2⟩ := deactivate_ok env e s.hist e' h' hd
        refine ⟨?_, by simp only; rw [d2]; exact hok⟩
        intro x hx
        obtain ⟨hxm, hxa⟩ := mem_remove hx
        simp only
        rw [d1]
        apply hreg x hxm
        intro hxc
        exact hxa (by simp [addrOf, hxc])
    · have hu : unregister env s a = s := by unfold unregister; simp [hl, hc]
      rw [hu]
      refine ⟨?_, hok⟩
      intro x hx
      apply hreg x hx
      intro hxc
      -- two elements with one address: impossible
      have hxa : addrOf env x = addrOf env e := by rw [hea]; simp [addrOf, hxc]
      have hne : x ≠ e := fun h => hc (h ▸ hxc)
      rw [hl12] at hnd hx
      rw [List.pairwise_append] at hnd
      obtain ⟨_, p2, p12⟩ := hnd
      rw [List.pairwise_cons] at p2
      rcases List.mem_append.mp hx with h1 | h1
      · exact p12 x h1 e List.mem_cons_self hxa
      · rcases List.mem_cons.mp h1 with h2 | h2
        · exact hne h2
        · exact p2.1 x h2 hxa.symm

theorem unregister_hist (env : Env) (s : State) (a : Nat) (c : Nat) :
    registeredIn env.cfg c (unregister env s a).hist = registeredIn env.cfg c s.hist := by
  unfold unregister
  split
  · rfl
  · split
    · rfl
    · next e _ _ =>
      cases hd : deactivate env e s.hist with
      | none => rfl
      | some p =>
        obtain ⟨e', h'⟩ := p
        exact (deactivate_ok env e s.hist e' h' hd).1 c

theorem closeAll_ok (env : Env) : ∀ (es : List Elem) (h h' : Hist), closeAll env es h = some h' →
    startedOnlyRegistered env.cfg h' = startedOnlyRegistered env.cfg h
  | [], h, h', hc => by simp [closeAll] at hc; rw [hc]
  | e :: es, h, h', hc => by
    unfold closeAll at hc
    cases hd : deactivate env e h with
    | none => simp [hd] at hc
    | some p =>
      obtain ⟨e', h1⟩ := p
      simp only [hd] at hc
      rw [closeAll_ok env es h1 h' hc, (deactivate_ok env e h e' h1 hd).2]

theorem restart_R (env : Env) (s : State) (a : Nat) (r : R env s.reg s.hist)
    (ha : registeredIn env.cfg a s.hist = true)
    (hnd : s.reg.Pairwise (fun e e' => addrOf env e ≠ addrOf env e'))
    (hnp : (restart env s a).panicked = false) :
    R env (restart env s a).reg (restart env s a).hist := by
  unfold restart at hnp ⊢
  simp only at hnp ⊢
  by_cases hp : (unregister env s a).panicked = true
  · simp only [hp, if_true] at hnp
    cases hnp
  · simp only [hp, Bool.false_eq_true, if_false]
    have hp' : (unregister env s a).panicked = false := by
      cases h : (unregister env s a).panicked <;> simp_all
    have r1 := unregister_R env s a (fun x hx _ => r.reg x hx) r.ok hnd hp'
    exact register_R env _ a r1 (by rw [unregister_hist]; exact ha)

/-- One operation keeps the invariant. -/
theorem step_R {env : Env} {s : State} (inv : Inv env s) (r : R env s.reg s.hist) (o : Op)
    (hnp : (step env s o).panicked = false) : R env (step env s o).reg (step env s o).hist := by
  have hp0 : ¬ (s.panicked = true) := by simp [inv.np]
  unfold step at hnp ⊢
  rw [if_neg hp0] at hnp ⊢
  simp only at hnp ⊢
  have hok : startedOnlyRegistered env.cfg (.op o :: s.hist) = true := r.ok
  have hnd := inv.g.nodup
  cases o with
  | register a =>
    simp only at hnp ⊢
    refine register_R env { s with hist := .op (.register a) :: s.hist } a ⟨?_, hok⟩ ?_
    · intro x hx
      simp only [registeredIn, clears, Bool.not_false, Bool.true_and]
      rw [r.reg x hx]; simp
    · simp [registeredIn, registers]
  | unregister a =>
    simp only at hnp ⊢
    refine unregister_R env { s with hist := .op (.unregister a) :: s.hist } a ?_ hok hnd hnp
    intro x hx hne
    have : (a == x.conv) = false := by simp; exact fun h => hne h.symm
    simp only [registeredIn, clears, this, Bool.not_false, Bool.true_and]
    rw [r.reg x hx]; simp
  | restart a =>
    simp only at hnp ⊢
    refine restart_R env { s with hist := .op (.restart a) :: s.hist } a ⟨?_, hok⟩ ?_ hnd hnp
    · intro x hx
      simp only [registeredIn, clears, registers]
      by_cases hc : a = x.conv
      · subst hc; simp
      · have : (a == x.conv) = false := by simp [hc]
        rw [this, r.reg x hx]; simp
    · simp [registeredIn, registers]
  | tick =>
    simp only at hnp ⊢
    have rm : R env s.reg (.op .tick :: s.hist) := by
      refine ⟨?_, hok⟩
      intro x hx
      simp only [registeredIn, clears, registers, Bool.not_false, Bool.true_and, Bool.false_or]
      exact r.reg x hx
    unfold tick
    split
    · exact rm
    · exact tickList_R env s.reg _ rm
  | peerDisappeared a =>
    simp only at hnp ⊢
    have hall : ∀ x ∈ s.reg, registeredIn env.cfg x.conv (.op (.peerDisappeared a) :: s.hist) = true := by
      intro x hx
      simp only [registeredIn, clears, registers]
      by_cases hc : a = x.conv
      · subst hc; simp
      · have : (a == x.conv) = false := by simp [hc]
        rw [this, r.reg x hx]; simp
    by_cases hcl : s.closed = true
    · simp only [hcl, if_true]
      exact ⟨hall, hok⟩
    · rw [if_neg hcl] at hnp ⊢
      exact restart_R env { s with hist := .op (.peerDisappeared a) :: s.hist } a ⟨hall, hok⟩
        (by simp [registeredIn, registers]) hnd hnp
  | close =>
    simp only at hnp ⊢
    unfold close at hnp ⊢
    by_cases hc : s.closed = true
    · simp [hc] at hnp
    · simp only [hc, Bool.false_eq_true, if_false] at hnp ⊢
      cases hca : closeAll env s.reg (.op .close :: s.hist) with
      | none => simp [hca] at hnp
      | some h' =>
        simp only
        refine ⟨by intro x hx; simp at hx, ?_⟩
        show startedOnlyRegistered env.cfg h' = true
        rw [closeAll_ok env s.reg _ h' hca]
        exact hok

/-- **Every `Start` the manager ever issues goes to a registered adapter** — for every trace. -/
theorem runObs_reg {env : Env} (hf : env.fixed = true) :
    ∀ (ops : List Op) (s : State), Inv env s → R env s.reg s.hist →
      ∀ o ∈ runObs env s ops, o.outcome = .ok → startedOnlyRegistered env.cfg o.hist = true := by
  intro ops
  induction ops with
  | nil => intro s _ _ o ho; cases ho
  | cons op ops ih =>
    intro s inv r o ho hout
    obtain ⟨_, h2⟩ := step_obs hf inv op
    simp only [runObs, List.mem_cons] at ho
    cases hp : (step env s op).panicked
    · have r' := step_R inv r op hp
      rcases ho with rfl | ho
      · simp only [obsOf, hp, Bool.false_eq_true, if_false]
        exact r'.ok
      · simp only [hp, Bool.false_eq_true, if_false] at ho
        exact ih _ (h2 hp) r' o ho hout
    · rcases ho with rfl | ho
      · simp [obsOf, hp] at hout
      · simp [hp] at ho

end Dtn7.ClaManager
