import Dtn7.Model.ReportsCbor
import Dtn7.Lemmas.Cbor
import Dtn7.Lemmas.Reports

namespace Dtn7.Reports.Lemmas
open Dtn7.Reports Dtn7.Cbor Dtn7.Cbor.Lemmas

theorem ok_bind {α β : Type} (a : α) (f : α → Except Err β) : (Except.ok a >>= f) = f a := rfl

theorem decBool_encBool (b : Bool) (rest : Bytes) : decBool (encBool b ++ rest) = .ok (b, rest) := by
  cases b <;> simp [decBool, encBool]

theorem takeWhile_append_stop {p : UInt8 → Bool} (n : Bytes) (y : UInt8) (d : Bytes)
    (hn : n.all p = true) (hy : p y = false) :
    (n ++ y :: d).takeWhile p = n ∧ (n ++ y :: d).dropWhile p = y :: d := by
  induction n with
  | nil => simp [hy]
  | cons a t ih =>
    simp only [List.all_cons, Bool.and_eq_true] at hn
    have := ih hn.2
    simp [hn.1, this.1, this.2]

theorem nodeChar_ne_slash (n : Bytes) (hn : n.all nodeChar = true) :
    n.all (· != slash) = true := by
  simp only [List.all_eq_true] at *
  intro x hx
  have h := hn x hx
  cases hxs : x == slash
  · simp [bne, hxs]
  · have : x = slash := by simpa using hxs
    subst this
    simp [nodeChar, slash] at h

theorem parseSsp_dtnSsp (n d : Bytes) (h1 : n ≠ []) (h2 : n.all nodeChar = true)
    (h3 : d.contains 10 = false) : parseSsp (dtnSsp n d) = .ok (.dtn n d) := by
  have hs : (fun (x : UInt8) => x != slash) slash = false := by simp
  obtain ⟨ht, hd⟩ := takeWhile_append_stop n slash d (nodeChar_ne_slash n h2) hs
  simp only [dtnSsp, List.cons_append, List.nil_append, List.append_assoc, parseSsp, and_self,
    if_true]
  rw [ht, hd]
  have h3' : ¬ (10 : UInt8) ∈ d := by simpa using h3
  simp [h1, h2, h3']

theorem decEid_encEid (e : Eid) (rest : Bytes) (hw : e.wf) :
    decEid (encEid e ++ rest) = .ok (e, rest) := by
  cases e with
  | none =>
    simp only [encEid, List.append_assoc, decEid]
    rw [decArray_encArray 2 _ (by decide), ok_bind]
    simp only [ne_eq, not_true_eq_false, if_false]
    rw [decUInt_encUInt 1 _ (by decide)]
    simp only [ok_bind, if_true]
    have : decHead (encUInt 0 ++ rest) = .ok (majUInt, 0, rest) :=
      decHead_encHead majUInt 0 rest (by decide) (by decide)
    rw [this]
    simp [ok_bind]
  | dtn n d =>
    obtain ⟨h1, h2, h3, h4⟩ := hw
    simp only [encEid, List.append_assoc, decEid]
    rw [decArray_encArray 2 _ (by decide), ok_bind]
    simp only [ne_eq, not_true_eq_false, if_false]
    rw [decUInt_encUInt 1 _ (by decide)]
    simp only [ok_bind, if_true]
    have hl : (dtnSsp n d).length < 2 ^ 64 := by unfold maxInt32 at h4; omega
    have : decHead (encText (dtnSsp n d) ++ rest) =
        .ok (majText, (dtnSsp n d).length, dtnSsp n d ++ rest) := by
      unfold encText
      rw [List.append_assoc]
      exact decHead_encHead majText _ _ (by decide) hl
    rw [this]
    simp only [ok_bind]
    have hne : majText ≠ majUInt := by decide
    simp only [hne, if_false, if_true]
    rw [readRaw_append _ _ h4, ok_bind, parseSsp_dtnSsp n d h1 h2 h3]
    rfl
  | ipn n s =>
    obtain ⟨h1, h2⟩ := hw
    simp only [encEid, List.append_assoc, decEid]
    rw [decArray_encArray 2 _ (by decide), ok_bind]
    simp only [ne_eq, not_true_eq_false, if_false]
    rw [decUInt_encUInt 2 _ (by decide)]
    simp only [ok_bind]
    have h21 : (2 : Nat) ≠ 1 := by decide
    simp only [h21, if_false, if_true]
    rw [decArray_encArray 2 _ (by decide), ok_bind]
    simp only [not_true_eq_false, if_false]
    rw [decUInt_encUInt n _ h1, ok_bind, decUInt_encUInt s _ h2, ok_bind]

theorem decItem_encItem (it : Item) (rest : Bytes) (hw : it.wf) :
    decItem (encItem it ++ rest) = .ok (it, rest) := by
  obtain ⟨a, t⟩ := it
  obtain ⟨h1, h2⟩ := hw
  have one : ∀ b : Bool, decItem (encArray 1 ++ (encBool b ++ rest)) = .ok (⟨b, none⟩, rest) := by
    intro b
    simp only [decItem]
    rw [decArray_encArray 1 _ (by decide), ok_bind]
    simp only [ne_eq, not_true_eq_false, false_and, if_false]
    rw [decBool_encBool, ok_bind]
    simp
  cases t with
  | none => cases a <;> simp only [encItem, List.append_assoc] <;> exact one _
  | some tv =>
    have ha : a = true := h1 rfl
    subst ha
    have ht := h2 tv rfl
    simp only [encItem, List.append_assoc, decItem]
    rw [decArray_encArray 2 _ (by decide), ok_bind]
    simp only [ne_eq, not_true_eq_false, and_false, if_false]
    rw [decBool_encBool, ok_bind]
    simp only [if_true]
    rw [decUInt_encUInt tv _ ht, ok_bind]

theorem decItems_encItems (items : List Item) (rest : Bytes) (hw : ∀ it ∈ items, it.wf) :
    decItems items.length (encItems items ++ rest) = .ok (items, rest) := by
  induction items with
  | nil => simp [decItems, encItems]
  | cons it t ih =>
    simp only [List.length_cons, decItems, encItems, List.append_assoc]
    rw [decItem_encItem it _ (hw it (by simp)), ok_bind, ih (fun x hx => hw x (by simp [hx])), ok_bind]

theorem decStatusReport_enc (r : Record) (rest : Bytes) (hw : r.wf) :
    decStatusReport (encStatusReport r ++ rest) = .ok (r, rest) := by
  obtain ⟨items, reason, ⟨src, t, sq, frag⟩⟩ := r
  obtain ⟨hi, hl, hr, hs, ht, hq, hf⟩ := hw
  simp only at hi hl hr hs ht hq hf
  cases frag with
  | none =>
    simp only [encStatusReport, encBundleId, BundleId.len, Option.isSome_none, Bool.false_eq_true,
      if_false, List.append_assoc, List.append_nil, decStatusReport]
    rw [decArray_encArray (2 + 2) _ (by decide), ok_bind]
    simp only [show ((2 : Nat) + 2 ≠ 4 ∧ (2 : Nat) + 2 ≠ 6) = False by simp, if_false]
    rw [decArray_encArray _ _ hl, ok_bind, decItems_encItems items _ hi, ok_bind,
      decUInt_encUInt reason _ hr, ok_bind, decEid_encEid src _ hs, ok_bind,
      decArray_encArray 2 _ (by decide), ok_bind]
    simp only [ne_eq, not_true_eq_false, if_false]
    rw [decUInt_encUInt t _ ht, ok_bind, decUInt_encUInt sq _ hq, ok_bind]
    simp only [show ((2 : Nat) + 2 = 6) = False by simp, if_false]
  | some p =>
    obtain ⟨o, tot⟩ := p
    obtain ⟨ho, htot⟩ := hf o tot rfl
    simp only [encStatusReport, encBundleId, BundleId.len, Option.isSome_some, if_true,
      List.append_assoc, decStatusReport]
    rw [decArray_encArray (2 + 4) _ (by decide), ok_bind]
    simp only [show ((2 : Nat) + 4 ≠ 4 ∧ (2 : Nat) + 4 ≠ 6) = False by simp, if_false]
    rw [decArray_encArray _ _ hl, ok_bind, decItems_encItems items _ hi, ok_bind,
      decUInt_encUInt reason _ hr, ok_bind, decEid_encEid src _ hs, ok_bind,
      decArray_encArray 2 _ (by decide), ok_bind]
    simp only [ne_eq, not_true_eq_false, if_false]
    rw [decUInt_encUInt t _ ht, ok_bind, decUInt_encUInt sq _ hq, ok_bind]
    simp only [if_true]
    rw [decUInt_encUInt o _ ho, ok_bind, decUInt_encUInt tot _ htot, ok_bind]

/-- The receiver of a report reads back exactly the record the node wrote, consuming exactly the
bytes written. -/
theorem decAdminRecord_enc (r : Record) (rest : Bytes) (hw : r.wf) :
    decAdminRecord (encAdminRecord r ++ rest) = .ok (r, rest) := by
  simp only [encAdminRecord, List.append_assoc, decAdminRecord]
  rw [decArray_encArray 2 _ (by decide), ok_bind]
  simp only [ne_eq, not_true_eq_false, if_false]
  rw [decUInt_encUInt 1 _ (by decide), ok_bind]
  simp only [not_true_eq_false, if_false]
  exact decStatusReport_enc r rest hw

theorem newItem_wf (t : Option Nat) (p i : Nat) (ht : ∀ x, t = some x → u64 x) :
    (newItem t p i).wf := by
  unfold newItem Item.wf
  split <;> simp
  exact ht

/-- The record of every report the model emits is one the codec round-trips. -/
theorem record_wf_of_ssr {n : Node} {s : Subject} {p reason now : Nat} {r : Report}
    (h : sendStatusReport n s p reason now = some r) (hreason : reason ≤ 11)
    (hsrc : s.source.wf) (hnow : u64 now) (ht : u64 s.time) (hq : u64 s.seq)
    (hfo : u64 s.fragOffset) (hft : u64 s.totalLen) : r.record.wf := by
  obtain ⟨_, _, _, _, _, _, hi, hr, hid, _⟩ := ssr_some h
  have htm : ∀ x, (if s.reqTime = true then some now else none) = some x → u64 x := by
    intro x hx
    split at hx
    · cases hx; exact hnow
    · cases hx
  refine ⟨?_, ?_, ?_, ?_, ?_, ?_, ?_⟩
  · intro it hit
    simp only [Report.record, hi, newItems, List.mem_cons, List.mem_nil_iff, or_false] at hit
    rcases hit with rfl | rfl | rfl | rfl <;> exact newItem_wf _ _ _ htm
  · simp [Report.record, hi, newItems, u64]
  · simp only [Report.record, hr, u64]; omega
  · simpa [Report.record, hid, Subject.id] using hsrc
  · simpa [Report.record, hid, Subject.id] using ht
  · simpa [Report.record, hid, Subject.id] using hq
  · intro o t hf
    simp only [Report.record, hid, Subject.id] at hf
    split at hf
    · cases hf; exact ⟨hfo, hft⟩
    · cases hf

end Dtn7.Reports.Lemmas
