/-
The loop of `Core.SendBundle` / `IdKeeper.updateUnless` (/repo 43cf7bc) in the node model: `idkSkip`
reaches a sequence number whose bundle ID is not in the store, for EVERY store and EVERY IdKeeper
state, within `store.length + 1` rounds (a counting argument: every round passes an ID that is in the
store, and the IDs passed are pairwise different).
-/
import Dtn7.Model.Node
import Dtn7.Lemmas.Node
import Dtn7.Lemmas.NodeEvents
import Dtn7.Lemmas.NodeFwd
import Dtn7.Lemmas.NodeBook

namespace Dtn7.Node

/-- Number of store entries of (source, time) whose sequence number is at least `q`. -/
def seqsFrom (s : Store) (src : Eid) (ts q : Nat) : Nat :=
  s.countP (fun kv => kv.1.src == src && kv.1.ts == ts && decide (q ≤ kv.1.seq))

theorem seqsFrom_def (s : Store) (src : Eid) (ts q : Nat) :
    seqsFrom s src ts q = s.countP (fun kv => kv.1.src == src && kv.1.ts == ts && decide (q ≤ kv.1.seq)) := rfl

theorem seqsFrom_le_length (s : Store) (src : Eid) (ts q : Nat) : seqsFrom s src ts q ≤ s.length :=
  List.countP_le_length

theorem Store.mem_of_get_isSome : ∀ {s : Store} {k : Key}, (s.get k).isSome = true → ∃ it, (k, it) ∈ s
  | [], _, h => by simp [Store.get] at h
  | (k', it') :: s, k, h => by
    unfold Store.get at h
    by_cases hk : k' = k
    · subst hk; exact ⟨it', List.mem_cons_self⟩
    · simp only [hk, if_false] at h
      rcases Store.mem_of_get_isSome h with ⟨it, hm⟩
      exact ⟨it, List.mem_cons_of_mem _ hm⟩

private def pFrom (src : Eid) (ts q : Nat) (kv : Key × Item) : Bool :=
  kv.1.src == src && kv.1.ts == ts && decide (q ≤ kv.1.seq)

private theorem pFrom_succ {src : Eid} {ts q : Nat} {kv : Key × Item} (h : pFrom src ts (q + 1) kv = true) :
    pFrom src ts q kv = true := by
  unfold pFrom at h ⊢
  simp only [Bool.and_eq_true, decide_eq_true_eq] at h ⊢
  exact ⟨h.1, by omega⟩

private theorem countP_succ_le (s : Store) (src : Eid) (ts q : Nat) :
    s.countP (pFrom src ts (q + 1)) ≤ s.countP (pFrom src ts q) :=
  List.countP_mono_left (fun _ _ h => pFrom_succ h)

private theorem countP_succ_lt_of_mem : ∀ (s : Store) (k : Key) (it : Item), (k, it) ∈ s →
    s.countP (pFrom k.src k.ts (k.seq + 1)) < s.countP (pFrom k.src k.ts k.seq)
  | [], _, _, h => by cases h
  | x :: s, k, it, h => by
    simp only [List.countP_cons]
    rcases List.mem_cons.mp h with hx | hx
    · -- the head is the entry of `k`: counted for `k.seq`, not for `k.seq + 1`
      subst hx
      have h1 : pFrom k.src k.ts (k.seq + 1) (k, it) = false := by simp [pFrom]
      have h2 : pFrom k.src k.ts k.seq (k, it) = true := by simp [pFrom]
      have := countP_succ_le s k.src k.ts k.seq
      simp only [h1, h2, Bool.false_eq_true, if_false, if_true]
      omega
    · have ih := countP_succ_lt_of_mem s k it hx
      by_cases hc : pFrom k.src k.ts (k.seq + 1) x = true
      · simp only [hc, pFrom_succ hc, if_true]; omega
      · by_cases hd : pFrom k.src k.ts k.seq x = true
        · have hc' : pFrom k.src k.ts (k.seq + 1) x = false := by simpa using hc
          simp only [hc', hd, Bool.false_eq_true, if_false, if_true]; omega
        · have hc' : pFrom k.src k.ts (k.seq + 1) x = false := by simpa using hc
          have hd' : pFrom k.src k.ts k.seq x = false := by simpa using hd
          simp only [hc', hd', Bool.false_eq_true, if_false]; omega

/-- Passing an ID that is in the store strictly lowers the count. -/
theorem seqsFrom_succ_lt (s : Store) (k : Key) (h : (s.get k).isSome = true) :
    seqsFrom s k.src k.ts (k.seq + 1) < seqsFrom s k.src k.ts k.seq := by
  rcases Store.mem_of_get_isSome h with ⟨it, hm⟩
  exact countP_succ_lt_of_mem s k it hm

/-- `idkUpdate` for a (source, time) pair the IdKeeper knows: the next number. -/
theorem idkUpdate_known (b : Bundle) (n : Node) (v : Nat) (h : lookupNat n.idk (b.src, b.ts) = some v) :
    idkUpdate b n = ({ b with seq := v + 1 }, n.setIdk (setNat n.idk (b.src, b.ts) (v + 1))) := by
  unfold idkUpdate
  simp only [h]

/-- What `idkSkip` returns. -/
structure SkipRes (b : Bundle) (n : Node) (r : Bundle × Node) : Prop where
  /-- only the sequence number of the bundle changes, and it does not decrease -/
  bundle : ∃ q, r.1 = { b with seq := q } ∧ b.seq ≤ q
  /-- only the IdKeeper changes, and it knows the number handed out -/
  node : ∃ x, r.2 = n.setIdk x ∧ lookupNat x (b.src, b.ts) = some r.1.seq
  /-- the ID is free -/
  free : n.store.get r.1.key = none

/-- **The loop reaches a free ID.** -/
theorem idkSkip_spec : ∀ (fuel : Nat) (b : Bundle) (n : Node),
    lookupNat n.idk (b.src, b.ts) = some b.seq → seqsFrom n.store b.src b.ts b.seq < fuel →
    SkipRes b n (idkSkip fuel b n)
  | 0, _, _, _, hf => absurd hf (Nat.not_lt_zero _)
  | fuel + 1, b, n, hl, hf => by
    unfold idkSkip
    by_cases hk : (n.store.get b.key).isSome = true
    · simp only [hk, if_true]
      rw [idkUpdate_known b n b.seq hl]
      have hlt := seqsFrom_succ_lt n.store b.key hk
      have ih := idkSkip_spec fuel { b with seq := b.seq + 1 } (n.setIdk (setNat n.idk (b.src, b.ts) (b.seq + 1)))
        (by simp only [setIdk_idk, lookupNat_setNat, if_true]) (by
          simp only [setIdk_store]
          have : seqsFrom n.store b.src b.ts (b.seq + 1) < seqsFrom n.store b.src b.ts b.seq := hlt
          omega)
      rcases ih with ⟨⟨q, hq, hle⟩, ⟨x, hx, hlx⟩, hfree⟩
      refine ⟨⟨q, ?_, ?_⟩, ⟨x, ?_, ?_⟩, ?_⟩
      · rw [hq]
      · simp only at hle; omega
      · rw [hx]; rfl
      · exact hlx
      · simpa using hfree
    · rw [if_neg hk]
      refine ⟨⟨b.seq, by cases b; rfl, Nat.le_refl _⟩, ⟨n.idk, rfl, hl⟩, ?_⟩
      cases hg : n.store.get b.key with
      | none => rfl
      | some it => simp [hg] at hk

/-- **`SendBundle` files a bundle under an ID that is not in the store** — for every store, every
IdKeeper state (in particular the empty one after a restart) and every bundle, when the code skips the
stored numbers (`skipStored`, /repo 43cf7bc). Only the sequence number of the bundle changes. -/
theorem assignSeq_free (b : Bundle) (n : Node) (hskip : n.cfg.skipStored = true) :
    (∃ q, (assignSeq b n).1 = { b with seq := q }) ∧
    (∃ x, (assignSeq b n).2 = n.setIdk x) ∧
    n.store.get (assignSeq b n).1.key = none := by
  unfold assignSeq
  simp only [hskip, if_true]
  -- the first `update`
  have h1 : ∃ v, idkUpdate b n = ({ b with seq := v }, n.setIdk (setNat n.idk (b.src, b.ts) v)) := by
    unfold idkUpdate
    cases lookupNat n.idk (b.src, b.ts) with
    | none => exact ⟨0, rfl⟩
    | some v => exact ⟨v + 1, rfl⟩
  rcases h1 with ⟨v, hv⟩
  rw [hv]
  have hs := idkSkip_spec (n.store.length + 1) { b with seq := v } (n.setIdk (setNat n.idk (b.src, b.ts) v))
    (by simp only [setIdk_idk, lookupNat_setNat, if_true]) (by
      simp only [setIdk_store]
      have := seqsFrom_le_length n.store b.src b.ts v
      omega)
  rcases hs with ⟨⟨q, hq, _⟩, ⟨x, hx, _⟩, hfree⟩
  refine ⟨⟨q, by rw [hq]⟩, ⟨x, by rw [hx]; rfl⟩, by simpa using hfree⟩

/-- **A submission is never lost, whatever the node's state** (the repaired code: sequence number first,
stored numbers skipped, refused dispatching holds the bundle): the submitted bundle — with the number the
node assigned — was either handed successfully to a convergence layer, or it is in the store under its own
ID, marked for retry, with the expiry of its lifetime. No hypothesis on the store or the IdKeeper: it
covers the state after a restart, clock-less sources and any earlier submissions of the same content. -/
theorem sendBundle_kept_any (env : Env) (b : Bundle) (n : Node) (hfix : n.cfg.holdFix = true)
    (hseq : n.cfg.seqFirst = true) (hskip : n.cfg.skipStored = true)
    (hsrc : hasEndpoint n.cfg b.src = true) (hf : forwardable n.now b) (hdst : hasEndpoint n.cfg b.dst = false) :
    OkSent (sendBundle env b n).2 (assignSeq b n).1 ∨
      Holds (sendBundle env b n).1 (assignSeq b n).1 (calcExpires n.cfg n.now (assignSeq b n).1) := by
  rcases assignSeq_free b n hskip with ⟨⟨q, hq⟩, ⟨x, hx⟩, hfresh⟩
  have hpair : assignSeq b n = ({ b with seq := q }, n.setIdk x) := Prod.ext hq hx
  unfold sendBundle
  simp only [hseq, if_true, hpair]
  rw [hq] at hfresh
  generalize hb' : ({ b with seq := q } : Bundle) = b' at hfresh ⊢
  have hsrc' : hasEndpoint n.cfg b'.src = true := by rw [← hb']; exact hsrc
  have hdst' : hasEndpoint n.cfg b'.dst = false := by rw [← hb']; exact hdst
  have hf' : forwardable n.now b' := by
    rw [← hb']
    exact hf
  -- from here on: the proof of `sendBundle_kept` for the bundle `b'` and the node `n.setIdk x`
  have hnd : newDesc (n.setIdk x) b'.key = { key := b'.key, receiver := none, cons := Cons.empty, bndl := none } := by
    unfold newDesc
    simp only [setIdk_store, hfresh]
  unfold newDescFromBundle
  simp only [hnd]
  have hs1 : sync { key := b'.key, receiver := none, cons := Cons.empty, bndl := some b' } (n.setIdk x) =
      push b' (n.setIdk x) := sync_push _ _ b' hfresh rfl
  rw [hs1]
  have hg1 : (push b' (n.setIdk x)).store.get b'.key = some (newItem n.cfg n.now b') :=
    push_get_absent b' (n.setIdk x) hfresh
  have hnn := notifyNew_rt b'.key b' (push b' (n.setIdk x))
  rcases hnn.item _ hg1 with ⟨it2, g2, b2, e2, _, _, _⟩
  have hpenv : SameEnv (n.setIdk x) (push b' (n.setIdk x)) := (push_only b' (n.setIdk x)).env
  have hcfg : (notifyNew b'.key b' (push b' (n.setIdk x))).cfg = n.cfg := hnn.only.env.cfg.trans hpenv.cfg
  have hnow : (notifyNew b'.key b' (push b' (n.setIdk x))).now = n.now := hnn.only.env.now.trans hpenv.now
  have := transmit_kept env { key := b'.key, receiver := none, cons := Cons.empty, bndl := some b' } b'
    (notifyNew b'.key b' (push b' (n.setIdk x))) it2 (by rw [hcfg]; exact hfix) g2
    (by rw [hcfg]; exact Or.inl hseq)
    rfl rfl (by rw [hcfg]; exact hsrc') (by rw [hnow]; exact hf') (by rw [hcfg]; exact hdst')
  rcases this with h | h
  · exact Or.inl h
  · exact Or.inr (Holds.of_kept h b2 e2)

/-- A submission (repaired code) only touches the item of the ID it assigned, keeps the store well-formed,
and all its outputs are transmissions of the bundle with the assigned number — in every state. -/
theorem sendBundle_only_any (env : Env) (b : Bundle) (n : Node) (w : WF n)
    (hseq : n.cfg.seqFirst = true) (hskip : n.cfg.skipStored = true) :
    WF (sendBundle env b n).1 ∧ OnlyKey (assignSeq b n).1.key n (sendBundle env b n).1 ∧
    ∀ o ∈ (sendBundle env b n).2, ∃ p ok, o = Output.sent p (assignSeq b n).1 ok := by
  rcases assignSeq_free b n hskip with ⟨⟨q, hq⟩, ⟨x, hx⟩, _⟩
  have hpair : assignSeq b n = ({ b with seq := q }, n.setIdk x) := Prod.ext hq hx
  unfold sendBundle
  simp only [hseq, if_true, hpair]
  generalize ({ b with seq := q } : Bundle) = b'
  unfold newDescFromBundle
  simp only
  have hDk := newDesc_key (n.setIdk x) b'.key
  generalize newDesc (n.setIdk x) b'.key = D at hDk ⊢
  obtain ⟨Dk, Dr, Dc, Db⟩ := D
  simp only at hDk
  subst hDk
  simp only
  have hbk : ∀ b0, ({ key := b'.key, receiver := Dr, cons := Dc, bndl := some b' } : Desc).bndl = some b0 →
      b0.key = b'.key := by
    intro b0 h; cases h; rfl
  have w0 : WF (n.setIdk x) := wf_idk w x
  have o0 : OnlyKey b'.key n (n.setIdk x) := ⟨⟨rfl, rfl, rfl, rfl⟩, fun _ _ => rfl, fun _ _ => rfl⟩
  have k1 := sync_kstep { key := b'.key, receiver := Dr, cons := Dc, bndl := some b' } (n.setIdk x) hbk
  have k2 := (notifyNew_rt b'.key b' (sync { key := b'.key, receiver := Dr, cons := Dc, bndl := some b' } (n.setIdk x))).kstep
  have k12 := k1.trans k2
  have hcfg12 : (notifyNew b'.key b' (sync { key := b'.key, receiver := Dr, cons := Dc, bndl := some b' } (n.setIdk x))).cfg = n.cfg :=
    k12.only.env.cfg
  have k3 := transmit_kstep env { key := b'.key, receiver := Dr, cons := Dc, bndl := some b' } b'
    (notifyNew b'.key b' (sync { key := b'.key, receiver := Dr, cons := Dc, bndl := some b' } (n.setIdk x)))
    (k12.wf w0) rfl (by rw [hcfg12]; exact Or.inl hseq)
  have k3b := transmit_bstep env { key := b'.key, receiver := Dr, cons := Dc, bndl := some b' } b'
    (notifyNew b'.key b' (sync { key := b'.key, receiver := Dr, cons := Dc, bndl := some b' } (n.setIdk x)))
    rfl (by rw [hcfg12]; exact Or.inl hseq)
  exact ⟨k3.wf (k12.wf w0), (o0.trans k12.only).trans k3.only, k3b.2⟩

/-! ## The persistent record while the transmissions of one `forward` are in progress -/

/-- The state at the moment the transmissions of one `forward` start: after the first `Sync`
(`ForwardPending` set, `DispatchPending` cleared) and the choice of the senders. -/
def forwardMid (env : Env) (d : Desc) (b : Bundle) (n : Node) : Node :=
  (selectSenders env { d with cons := { d.cons with fp := true, dp := false } } b
    (sync { d with cons := { d.cons with fp := true, dp := false } } n)).2.2.2

/-- The descriptor the per-peer goroutines work with. -/
def forwardMidDesc (env : Env) (d : Desc) (b : Bundle) (n : Node) : Desc :=
  (selectSenders env { d with cons := { d.cons with fp := true, dp := false } } b
    (sync { d with cons := { d.cons with fp := true, dp := false } } n)).2.2.1

/-- **Marked for retry while a transmission is in progress**: when `forward` starts to transmit a stored
bundle (not held for reassembly), the stored record is marked pending — and it stays so whichever of the
per-peer goroutines (`Send`; on failure `ReportFailure`) have run so far, in whatever order: `ps` is an
arbitrary list of peers. A process that dies inside a `Send` finds the bundle pending at its next start. -/
theorem pending_while_sending (env : Env) (d : Desc) (b : Bundle) (n : Node) (it : Item)
    (hg : n.store.get d.key = some it) (hrp : d.cons.rp = false) (ps : List Peer) :
    ∃ it', (sendAll env (forwardMidDesc env d b n) b ps (forwardMid env d b n)).1.store.get d.key = some it' ∧
      it'.pending = true ∧ it'.bundle = it.bundle ∧ it'.expires = it.expires := by
  unfold forwardMid forwardMidDesc
  generalize hD : ({ d with cons := { d.cons with fp := true, dp := false } } : Desc) = D
  have hDk : D.key = d.key := by rw [← hD]
  have hne : D.cons.isEmpty = false := by rw [← hD]; simp [Cons.isEmpty]
  have hpr : D.cons.pendingRule = true := by rw [← hD]; simp [Cons.pendingRule, hrp]
  have h1 := sync_update D n it (by rw [hDk]; exact hg) hne
  have h2 := selectSenders_rt env D b (sync D n)
  rcases h2.item _ h1 with ⟨it2, g2, b2, e2, _, _, p2, _⟩
  have hdesc : (selectSenders env D b (sync D n)).2.2.1.key = D.key := (selectSenders_desc env D b (sync D n)).1
  have h3 := sendAll_rt env (selectSenders env D b (sync D n)).2.2.1 b ps (selectSenders env D b (sync D n)).2.2.2
  rw [hdesc] at h3
  rcases h3.item _ g2 with ⟨it3, g3, b3, e3, _, _, p3, _⟩
  refine ⟨it3, by rw [← hDk]; exact g3, p3 (p2 hpr), ?_, ?_⟩
  · rw [b3, b2]
  · rw [e3, e2]

end Dtn7.Node
