/-
Lemmas about the reassembly model (`Dtn7.Model.Reassemble`): the sort is a permutation that sorts, the
sweep invariant "running end = maximal end so far ⇒ the prefix covers [0, end)", and the merge invariant
"rebuilt payload = the original's prefix up to the running end".
-/
import Dtn7.Model.Reassemble

namespace Dtn7.Frag.Lemmas
open Dtn7.Frag

/-! ### the sort -/

theorem perm_insertOff (f : RFrag) (l : List RFrag) : (insertOff f l).Perm (f :: l) := by
  induction l with
  | nil => exact List.Perm.refl _
  | cons g gs ih =>
    unfold insertOff
    split
    · exact List.Perm.refl _
    · exact (List.Perm.cons g ih).trans (List.Perm.swap f g gs)

theorem perm_sortOff (l : List RFrag) : (sortOff l).Perm l := by
  induction l with
  | nil => exact List.Perm.refl _
  | cons f fs ih => exact (perm_insertOff f (sortOff fs)).trans (List.Perm.cons f ih)

theorem sorted_insertOff (f : RFrag) (l : List RFrag) (h : SortedOff l) : SortedOff (insertOff f l) := by
  induction l with
  | nil => simp [insertOff, SortedOff]
  | cons g gs ih =>
    unfold insertOff
    obtain ⟨hg, hs⟩ := h
    split
    · rename_i hlt
      refine ⟨?_, hg, hs⟩
      intro k hk
      rcases List.mem_cons.mp hk with rfl | hk
      · omega
      · have := hg k hk; omega
    · rename_i hge
      refine ⟨?_, ih hs⟩
      intro k hk
      rcases List.mem_cons.mp ((perm_insertOff f gs).mem_iff.mp hk) with rfl | hk
      · omega
      · exact hg k hk

theorem sorted_sortOff (l : List RFrag) : SortedOff (sortOff l) := by
  induction l with
  | nil => trivial
  | cons f fs ih => exact sorted_insertOff f _ ih

theorem sortOff_ne_nil (l : List RFrag) (h : l ≠ []) : sortOff l ≠ [] := by
  intro e
  have := (perm_sortOff l).length_eq
  rw [e] at this
  cases l with
  | nil => exact h rfl
  | cons a b => simp at this

/-! ### `Covers` does not depend on the order -/

theorem covers_perm {s fs : List RFrag} (hp : s.Perm fs) (t : Nat) : Covers s t ↔ Covers fs t := by
  unfold Covers
  constructor
  · rintro ⟨a, b⟩
    refine ⟨fun f hf => a f (hp.mem_iff.mpr hf), fun k hk => ?_⟩
    obtain ⟨f, hf, r⟩ := b k hk
    exact ⟨f, hp.mem_iff.mp hf, r⟩
  · rintro ⟨a, b⟩
    refine ⟨fun f hf => a f (hp.mem_iff.mp hf), fun k hk => ?_⟩
    obtain ⟨f, hf, r⟩ := b k hk
    exact ⟨f, hp.mem_iff.mpr hf, r⟩

/-! ### the sweep (code after the D3 repair: the running end only grows) -/

/-- Soundness: if the sweep ends at `t` then `t` is the maximum of `last` and all ends, every fragment
carries the flag, and every index between `last` and `t` lies in some fragment. -/
theorem sweep_sound : ∀ (s : List RFrag) (last t : Nat), sweep true last s = .ok t →
    last ≤ t ∧ (∀ f ∈ s, f.isFrag = true ∧ f.stop ≤ t) ∧
      ∀ k, last ≤ k → k < t → ∃ f ∈ s, f.off ≤ k ∧ k < f.stop := by
  intro s
  induction s with
  | nil =>
    intro last t h
    simp [sweep] at h; subst h
    exact ⟨Nat.le_refl _, by simp, fun k h1 h2 => by omega⟩
  | cons f fs ih =>
    intro last t h
    unfold sweep at h
    split at h
    · simp at h
    · rename_i hfr
      split at h
      · simp at h
      · rename_i hoff
        simp only [if_true] at h
        obtain ⟨h1, h2, h3⟩ := ih _ _ h
        refine ⟨by omega, ?_, ?_⟩
        · intro g hg
          rcases List.mem_cons.mp hg with rfl | hg
          · exact ⟨by simpa using hfr, by omega⟩
          · exact h2 g hg
        · intro k hk1 hk2
          by_cases hk : k < f.stop
          · exact ⟨f, by simp, by omega, hk⟩
          · obtain ⟨g, hg, r⟩ := h3 k (by omega) hk2
            exact ⟨g, by simp [hg], r⟩

/-- Completeness: on a slice sorted by offset, if all ends are ≤ `t` and every index from `last` up to
`t` lies in some fragment, the sweep reports no gap and ends exactly at `t`. -/
theorem sweep_complete : ∀ (s : List RFrag) (last t : Nat), SortedOff s →
    (∀ f ∈ s, f.isFrag = true) → (∀ f ∈ s, f.stop ≤ t) → last ≤ t →
    (∀ k, last ≤ k → k < t → ∃ f ∈ s, f.off ≤ k ∧ k < f.stop) → sweep true last s = .ok t := by
  intro s
  induction s with
  | nil =>
    intro last t _ _ _ hle hcov
    by_cases h : last < t
    · obtain ⟨f, hf, _⟩ := hcov last (Nat.le_refl _) h
      simp at hf
    · have : last = t := by omega
      simp [sweep, this]
  | cons f fs ih =>
    intro last t hs hfr hend hle hcov
    obtain ⟨hmin, hs'⟩ := hs
    have hoff : f.off ≤ last := by
      by_cases h : last < t
      · obtain ⟨g, hg, hg1, _⟩ := hcov last (Nat.le_refl _) h
        rcases List.mem_cons.mp hg with rfl | hg
        · exact hg1
        · have := hmin g hg; omega
      · have := hend f (by simp)
        unfold RFrag.stop at this
        omega
    unfold sweep
    have hfr' := hfr f (by simp)
    simp only [hfr', Bool.not_true, Bool.false_eq_true, if_false, if_true]
    have : ¬ f.off > last := by omega
    simp only [this, if_false]
    apply ih _ _ hs' (fun g hg => hfr g (by simp [hg])) (fun g hg => hend g (by simp [hg]))
    · have := hend f (by simp); omega
    · intro k hk1 hk2
      obtain ⟨g, hg, hg1, hg2⟩ := hcov k (by omega) hk2
      rcases List.mem_cons.mp hg with rfl | hg
      · omega
      · exact ⟨g, hg, hg1, hg2⟩

/-- `prepareReassembly` on a sorted, non-empty slice of fragments with one total succeeds exactly when
the fragments cover `[0, total)`. -/
theorem checkSorted_iff (s : List RFrag) (total : Nat) (hne : s ≠ []) (hs : SortedOff s)
    (hf : ∀ f ∈ s, f.isFrag = true ∧ f.total = total) :
    checkSorted true s = .ok () ↔ Covers s total := by
  cases s with
  | nil => exact absurd rfl hne
  | cons f fs =>
    have htot : f.total = total := (hf f (by simp)).2
    simp only [checkSorted]
    constructor
    · intro h
      split at h
      · simp at h
      · rename_i last hsw
        split at h
        · simp at h
        · rename_i hne'
          have hl : f.total = last := by simpa using hne'
          obtain ⟨_, h2, h3⟩ := sweep_sound _ _ _ hsw
          refine ⟨fun g hg => ?_, fun k hk => ?_⟩
          · have := (h2 g hg).2; omega
          · exact h3 k (Nat.zero_le _) (by omega)
    · rintro ⟨h1, h2⟩
      have := sweep_complete (f :: fs) 0 total hs (fun g hg => (hf g hg).1) h1 (Nat.zero_le _)
        (fun k _ hk => h2 k hk)
      simp [this, htot]

/-! ### the merge -/

/-- No slice expression of the merge can go out of range once the sweep has succeeded (any fragments,
not only genuine ones): the absent panic. -/
theorem merge_total : ∀ (s : List RFrag) (last t : Nat) (acc : List UInt8),
    sweep true last s = .ok t → merge true last acc s ≠ none := by
  intro s
  induction s with
  | nil => intro last t acc _; simp [merge]
  | cons f fs ih =>
    intro last t acc h
    unfold sweep at h
    split at h
    · simp at h
    · split at h
      · simp at h
      · rename_i hoff
        simp only [if_true] at h
        unfold merge
        by_cases hskip : f.stop ≤ last
        · have e : max last f.stop = last := by omega
          rw [e] at h
          simp only [hskip, Bool.true_and, decide_true, if_true]
          exact ih _ _ _ h
        · have e : max last f.stop = f.stop := by omega
          rw [e] at h
          have h1 : ¬ last < f.off := by omega
          have h2 : last - f.off ≤ f.data.length := by unfold RFrag.stop at hskip; omega
          simp only [hskip, Bool.true_and, decide_false, Bool.false_eq_true, if_false, h1, sliceFrom, h2,
            if_true]
          exact ih _ _ _ h

theorem take_add_slice (p : List UInt8) (off len last : Nat) (h1 : off ≤ last) (h2 : last < off + len)
    (_h3 : off + len ≤ p.length) :
    p.take last ++ (((p.drop off).take len).drop (last - off)) = p.take (off + len) := by
  have e : off + len = last + (off + len - last) := by omega
  rw [e, List.take_add, List.drop_take, List.drop_drop]
  congr 2
  · omega
  · congr 1; omega

/-- If every fragment is a slice of `p` and `acc` is `p` up to the running end, the merge returns `p`
up to the end the sweep reports. -/
theorem merge_exact (p : List UInt8) : ∀ (s : List RFrag) (last t : Nat) (acc : List UInt8),
    (∀ f ∈ s, FragOf p f) → acc = p.take last → sweep true last s = .ok t →
    merge true last acc s = some (p.take t) := by
  intro s
  induction s with
  | nil =>
    intro last t acc _ hacc h
    simp [sweep] at h; subst h
    simp [merge, hacc]
  | cons f fs ih =>
    intro last t acc hfr hacc h
    unfold sweep at h
    split at h
    · simp at h
    · split at h
      · simp at h
      · rename_i hoff
        simp only [if_true] at h
        unfold merge
        by_cases hskip : f.stop ≤ last
        · have e : max last f.stop = last := by omega
          rw [e] at h
          simp only [hskip, Bool.true_and, decide_true, if_true]
          exact ih _ _ _ (fun g hg => hfr g (by simp [hg])) hacc h
        · have e : max last f.stop = f.stop := by omega
          rw [e] at h
          have h1 : ¬ last < f.off := by omega
          have h2 : last - f.off ≤ f.data.length := by unfold RFrag.stop at hskip; omega
          simp only [hskip, Bool.true_and, decide_false, Bool.false_eq_true, if_false, h1, sliceFrom, h2,
            if_true]
          apply ih _ _ _ (fun g hg => hfr g (by simp [hg])) _ h
          obtain ⟨_, _, hstop, hdata⟩ := hfr f (by simp)
          rw [hacc, hdata]
          unfold RFrag.stop at *
          exact take_add_slice p f.off f.data.length last (by omega) (by omega) hstop

/-- The first element of a sorted slice that passes the sweep from 0 starts at offset 0. -/
theorem head_off_zero (f : RFrag) (fs : List RFrag) (t : Nat) (h : sweep true 0 (f :: fs) = .ok t) :
    f.off = 0 := by
  unfold sweep at h
  split at h
  · simp at h
  · split at h
    · simp at h
    · omega

/-- `ReassembleFragments` on a sorted covering slice of genuine fragments returns the original payload
and the blocks that every offset-0 fragment carries. -/
theorem reassembleSorted_exact (p : List UInt8) (B : List Nat) (s : List RFrag) (hne : s ≠ [])
    (hs : SortedOff s) (hf : ∀ f ∈ s, FragOf p f) (hc : Covers s p.length)
    (hb : ∀ f ∈ s, f.off = 0 → f.blocks = B) : reassembleSorted true s = .ok p B := by
  have hft : ∀ f ∈ s, f.isFrag = true ∧ f.total = p.length := fun f h => ⟨(hf f h).1, (hf f h).2.1⟩
  have hchk := (checkSorted_iff s p.length hne hs hft).mpr hc
  have hsw : sweep true 0 s = .ok p.length :=
    sweep_complete s 0 p.length hs (fun f h => (hft f h).1) hc.1 (Nat.zero_le _) (fun k _ hk => hc.2 k hk)
  have hm := merge_exact p s 0 p.length [] hf (by simp) hsw
  cases s with
  | nil => exact absurd rfl hne
  | cons f fs =>
    have h0 := head_off_zero f fs _ hsw
    simp only [reassembleSorted, hchk, hm, List.take_length]
    rw [hb f (by simp) h0]

/-- The same for any genuine fragments (not necessarily covering): never a panic, never wrong data. -/
theorem reassembleSorted_sound (p : List UInt8) (s : List RFrag) (hf : ∀ f ∈ s, FragOf p f)
    (q : List UInt8) (B : List Nat) (h : reassembleSorted true s = .ok q B) : q = p := by
  unfold reassembleSorted at h
  split at h
  · simp at h
  · rename_i hchk
    cases s with
    | nil => simp [checkSorted] at hchk
    | cons f fs =>
      simp only [checkSorted] at hchk
      split at hchk
      · simp at hchk
      · rename_i last hsw
        split at hchk
        · simp at hchk
        · rename_i hl
          have htot : f.total = last := by simpa using hl
          have hm := merge_exact p (f :: fs) 0 last [] hf (by simp) hsw
          rw [hm] at h
          simp only [RRes.ok.injEq] at h
          have : last = p.length := by rw [← htot]; exact (hf f (by simp)).2.1
          rw [← h.1, this, List.take_length]

theorem reassembleSorted_no_panic (s : List RFrag) : reassembleSorted true s ≠ .panic := by
  unfold reassembleSorted
  split
  · simp
  · rename_i hchk
    cases s with
    | nil => simp [checkSorted] at hchk
    | cons f fs =>
      simp only [checkSorted] at hchk
      split at hchk
      · simp at hchk
      · rename_i last hsw
        have := merge_total (f :: fs) 0 last [] hsw
        split
        · rename_i hm; exact absurd hm this
        · simp

/-! ### the store keeps, per (offset, total), the longest fragment: the union of the intervals is kept -/

/-- Every interval of `a` lies within some interval of `b`. -/
def Dom (a b : List RFrag) : Prop := ∀ f ∈ a, ∃ g ∈ b, g.off ≤ f.off ∧ f.stop ≤ g.stop

theorem Dom.refl (a : List RFrag) : Dom a a := fun f hf => ⟨f, hf, Nat.le_refl _, Nat.le_refl _⟩

theorem Dom.trans {a b c : List RFrag} (h1 : Dom a b) (h2 : Dom b c) : Dom a c := by
  intro f hf
  obtain ⟨g, hg, g1, g2⟩ := h1 f hf
  obtain ⟨k, hk, k1, k2⟩ := h2 g hg
  exact ⟨k, hk, by omega, by omega⟩

theorem Dom.of_subset {a b : List RFrag} (h : ∀ f ∈ a, f ∈ b) : Dom a b :=
  fun f hf => ⟨f, h f hf, Nat.le_refl _, Nat.le_refl _⟩

theorem Dom.append_right {a b : List RFrag} (c : List RFrag) (h : Dom a b) : Dom (a ++ c) (b ++ c) := by
  intro f hf
  rcases List.mem_append.mp hf with hf | hf
  · obtain ⟨g, hg, r⟩ := h f hf
    exact ⟨g, List.mem_append.mpr (Or.inl hg), r⟩
  · exact ⟨f, List.mem_append.mpr (Or.inr hf), Nat.le_refl _, Nat.le_refl _⟩

theorem covers_of_dom {a b : List RFrag} (t : Nat) (hab : Dom a b) (hba : Dom b a) (h : Covers b t) :
    Covers a t := by
  refine ⟨fun f hf => ?_, fun k hk => ?_⟩
  · obtain ⟨g, hg, _, g2⟩ := hab f hf
    have := h.1 g hg; omega
  · obtain ⟨g, hg, g1, g2⟩ := h.2 k hk
    obtain ⟨f, hf, f1, f2⟩ := hba g hg
    exact ⟨f, hf, by omega, by omega⟩

theorem storePush_sub (kl : Bool) (parts : List RFrag) (f : RFrag) :
    ∀ g ∈ storePush kl parts f, g ∈ parts ++ [f] := by
  induction parts with
  | nil => intro g hg; simpa [storePush] using hg
  | cons a as ih =>
    intro g hg
    unfold storePush at hg
    split at hg
    · split at hg
      · rcases List.mem_cons.mp hg with rfl | hg
        · simp
        · simp [hg]
      · rcases List.mem_cons.mp hg with rfl | hg
        · simp
        · simp [hg]
    · rcases List.mem_cons.mp hg with rfl | hg
      · simp
      · have := ih g hg
        rcases List.mem_append.mp this with h | h
        · simp [h]
        · simp at h; simp [h]

theorem storePush_dom (parts : List RFrag) (f : RFrag) : Dom (parts ++ [f]) (storePush true parts f) := by
  induction parts with
  | nil => intro g hg; exact ⟨g, by simpa [storePush] using hg, Nat.le_refl _, Nat.le_refl _⟩
  | cons a as ih =>
    intro g hg
    unfold storePush
    split
    · rename_i hkey
      simp only [Bool.and_eq_true, beq_iff_eq] at hkey
      split
      · rename_i hlen
        simp only [Bool.true_and, decide_eq_true_eq] at hlen
        -- `f` replaces `a`; `a` lies within `f`
        rcases List.mem_append.mp hg with hg | hg
        · rcases List.mem_cons.mp hg with rfl | hg
          · exact ⟨f, by simp, by omega, by unfold RFrag.stop; omega⟩
          · exact ⟨g, by simp [hg], Nat.le_refl _, Nat.le_refl _⟩
        · simp at hg; subst hg; exact ⟨g, by simp, Nat.le_refl _, Nat.le_refl _⟩
      · rename_i hlen
        simp only [Bool.true_and, decide_eq_true_eq] at hlen
        -- `a` stays; `f` lies within `a`
        rcases List.mem_append.mp hg with hg | hg
        · exact ⟨g, hg, Nat.le_refl _, Nat.le_refl _⟩
        · simp at hg; subst hg; exact ⟨a, by simp, by omega, by unfold RFrag.stop; omega⟩
    · rcases List.mem_append.mp hg with hg | hg
      · rcases List.mem_cons.mp hg with rfl | hg
        · exact ⟨g, by simp, Nat.le_refl _, Nat.le_refl _⟩
        · obtain ⟨k, hk, r⟩ := ih g (List.mem_append.mpr (Or.inl hg))
          exact ⟨k, by simp [hk], r⟩
      · obtain ⟨k, hk, r⟩ := ih g (List.mem_append.mpr (Or.inr hg))
        exact ⟨k, by simp [hk], r⟩

theorem storeParts_dom (fs : List RFrag) : ∀ acc : List RFrag,
    Dom (fs.foldl (storePush true) acc) (acc ++ fs) ∧ Dom (acc ++ fs) (fs.foldl (storePush true) acc) := by
  induction fs with
  | nil => intro acc; simp only [List.foldl_nil, List.append_nil]; exact ⟨Dom.refl _, Dom.refl _⟩
  | cons f fs ih =>
    intro acc
    obtain ⟨h1, h2⟩ := ih (storePush true acc f)
    simp only [List.foldl_cons]
    have e : acc ++ f :: fs = (acc ++ [f]) ++ fs := by simp
    rw [e]
    exact ⟨h1.trans (Dom.append_right fs (Dom.of_subset (storePush_sub true acc f))),
      (Dom.append_right fs (storePush_dom acc f)).trans h2⟩

theorem storeParts_ne_nil (kl : Bool) (fs : List RFrag) (h : fs ≠ []) : storeParts kl fs ≠ [] := by
  have hp : ∀ (parts : List RFrag) (f : RFrag), storePush kl parts f ≠ [] := by
    intro parts f
    cases parts with
    | nil => simp [storePush]
    | cons a as => unfold storePush; split <;> (try split) <;> simp
  have hf : ∀ (l acc : List RFrag), acc ≠ [] → l.foldl (storePush kl) acc ≠ [] := by
    intro l
    induction l with
    | nil => intro acc h; simpa using h
    | cons a as ih => intro acc _; exact ih _ (hp acc a)
  cases fs with
  | nil => exact absurd rfl h
  | cons a as => exact hf as _ (hp [] a)

end Dtn7.Frag.Lemmas
