import Dtn7.Model.Reports

namespace Dtn7.Reports.Lemmas
open Dtn7.Reports

/-! ### `sendStatusReport` -/

theorem ssr_admin (n : Node) (s : Subject) (p reason now : Nat) (h : s.admin = true) :
    sendStatusReport n s p reason now = none := by
  simp [sendStatusReport, h]

theorem ssr_self (n : Node) (s : Subject) (p reason now : Nat)
    (h : n.hasEndpoint s.reportTo = true) : sendStatusReport n s p reason now = none := by
  simp [sendStatusReport, h]

/-- Everything a produced report is made of. -/
theorem ssr_some {n : Node} {s : Subject} {p reason now : Nat} {r : Report}
    (h : sendStatusReport n s p reason now = some r) :
    s.admin = false ∧ n.hasEndpoint s.reportTo = false ∧
    r.flags = fAdmin ∧ r.destination = s.reportTo ∧ r.reportTo = r.source ∧
    r.lifetime = reportLifetimeMs ∧ r.items = newItems s.reqTime p now ∧ r.reason = reason ∧
    r.ref = s.id ∧ (r.source = n.id ∨ (r.source = s.receiver ∧ n.hasEndpoint s.receiver = true)) := by
  unfold sendStatusReport at h
  cases hadm : s.admin
  · cases hself : n.hasEndpoint s.reportTo
    · cases haa : (!n.hasEndpoint (aaEndpoint n s) && aaEndpoint n s != n.id)
      · simp only [hadm, hself, haa, Bool.false_eq_true, if_false] at h
        cases h
        refine ⟨rfl, rfl, rfl, rfl, rfl, rfl, rfl, rfl, rfl, ?_⟩
        show aaEndpoint n s = n.id ∨ (aaEndpoint n s = s.receiver ∧ _)
        by_cases hr : s.receiver = Eid.none
        · left; simp [aaEndpoint, hr]
        · have ha : aaEndpoint n s = s.receiver := by simp [aaEndpoint, hr]
          rw [ha] at haa ⊢
          by_cases hid : s.receiver = n.id
          · left; exact hid
          · right
            refine ⟨rfl, ?_⟩
            cases hh : n.hasEndpoint s.receiver
            · simp [hh, hid] at haa
            · rfl
      · simp [hadm, hself, haa] at h
    · simp [hadm, hself] at h
  · simp [hadm] at h

theorem assertedAt_newItems (t : Option Nat) (p : Nat) (hp : p < 4) :
    assertedAt 0 [newItem t p 0, newItem t p 1, newItem t p 2, newItem t p 3] = [p] := by
  have : p = 0 ∨ p = 1 ∨ p = 2 ∨ p = 3 := by omega
  rcases this with rfl | rfl | rfl | rfl <;> simp [assertedAt, newItem]

theorem assertedPositions_new (rt : Bool) (p now : Nat) (hp : p < 4) (r : Report)
    (h : r.items = newItems rt p now) : assertedPositions r = [p] := by
  simp only [assertedPositions, h, newItems]
  exact assertedAt_newItems _ p hp

theorem timesOk_newItems (rt : Bool) (p now : Nat) : timesOk rt (newItems rt p now) = true := by
  cases rt <;> simp [timesOk, newItems, newItem] <;>
    (repeat' constructor) <;> split <;> simp

/-- A report produced by `sendStatusReport` for a status that happened and was requested is
justified. -/
theorem justified_of_ssr {n : Node} {s : Subject} {p reason now : Nat} {r : Report}
    (evs : List Event) (h : sendStatusReport n s p reason now = some r) (hp : p < 4)
    (hh : happened evs p = true) (hq : requested s evs p = true) : ReportJustified s evs r := by
  obtain ⟨hadm, _, hf, hd, _, _, hi, _, hid, _⟩ := ssr_some h
  exact
    { subjectNotAdmin := hadm
      isAdmin := by rw [hf]; decide
      noRequestFlags := by rw [hf]; decide
      toReportTo := hd
      exactId := hid
      times := by rw [hi]; exact timesOk_newItems _ _ _
      truthful := ⟨p, assertedPositions_new _ p now hp r hi, hh, hq⟩ }

theorem mem_toList {c : Bool} {o : Option Report} {r : Report} (h : r ∈ toList c o) :
    c = true ∧ o = some r := by
  unfold toList at h
  cases c
  · simp at h
  · cases o with
    | none => simp at h
    | some x => simp at h; exact ⟨rfl, by rw [h]⟩

theorem any_isDeleted_cons (reason : Nat) (l : List Event) :
    (Event.deleted reason :: l).any isDeleted = true := by simp [isDeleted]

/-- The decision table: every report of every outcome is justified by the events that outcome
consists of — for the repaired `localDelivery`, and for the current one except when no agent took
the bundle. -/
theorem report_justified_general (cfg : Cfg) (n : Node) (s : Subject) (now : Nat) (o : Outcome)
    (hc : cfg.reportOnlyOnSuccess = true ∨ o ≠ .noAgent)
    (r : Report) (hr : r ∈ processOutcome cfg n s now o) : ReportJustified s (eventsOf o) r := by
  cases o with
  | received =>
    obtain ⟨hq, h⟩ := mem_toList hr
    exact justified_of_ssr _ h (by decide) (by simp [happened, eventsOf, posReceived])
      (by simp [requested, posReceived, hq])
  | unknownBlock f =>
    simp only [processOutcome, List.mem_append] at hr
    rcases hr with hr | hr
    · obtain ⟨hq, h⟩ := mem_toList hr
      exact justified_of_ssr _ h (by decide) (by simp [happened, eventsOf, posReceived])
        (by simp [requested, posReceived, eventsOf, blockWantsReport, hq])
    · cases hdel : has f bfDelete
      · simp [hdel] at hr
      · simp only [hdel, if_true, bundleDeletion] at hr
        obtain ⟨hq, h⟩ := mem_toList hr
        exact justified_of_ssr _ h (by decide)
          (by simp [happened, posDeleted, eventsOf, hdel, isDeleted])
          (by simp [requested, posDeleted, hq])
  | deliveredAgent =>
    obtain ⟨hq, h⟩ := mem_toList hr
    exact justified_of_ssr _ h (by decide) (by simp [happened, posDelivered, eventsOf])
      (by simp [requested, posDelivered, hq])
  | noAgent =>
    rcases hc with hc | hc
    · simp [processOutcome, hc] at hr
    · exact absurd rfl hc
  | forwarded =>
    obtain ⟨hq, h⟩ := mem_toList hr
    exact justified_of_ssr _ h (by decide) (by simp [happened, posForwarded, eventsOf])
      (by simp [requested, posForwarded, hq])
  | allFailed => simp [processOutcome] at hr
  | lifetimeExpired =>
    obtain ⟨hq, h⟩ := mem_toList hr
    exact justified_of_ssr _ h (by decide) (by simp [happened, posDeleted, eventsOf, isDeleted])
      (by simp [requested, posDeleted, hq])
  | hopExceeded =>
    obtain ⟨hq, h⟩ := mem_toList hr
    exact justified_of_ssr _ h (by decide) (by simp [happened, posDeleted, eventsOf, isDeleted])
      (by simp [requested, posDeleted, hq])
  | foreignSource =>
    obtain ⟨hq, h⟩ := mem_toList hr
    exact justified_of_ssr _ h (by decide) (by simp [happened, posDeleted, eventsOf, isDeleted])
      (by simp [requested, posDeleted, hq])
  | notDispatched => simp [processOutcome] at hr

/-! ### Monotonicity of the Spec in the event log (to lift outcomes to flows) -/

theorem happened_mono {e₁ e₂ : List Event} (h : ∀ e ∈ e₁, e ∈ e₂) (p : Nat)
    (hp : happened e₁ p = true) : happened e₂ p = true := by
  unfold happened at *
  split at hp <;> simp_all
  obtain ⟨x, hx, hd⟩ := hp
  exact ⟨x, h x hx, hd⟩

theorem requested_mono (s : Subject) {e₁ e₂ : List Event} (h : ∀ e ∈ e₁, e ∈ e₂) (p : Nat)
    (hp : requested s e₁ p = true) : requested s e₂ p = true := by
  unfold requested at *
  split at hp <;> simp_all
  rcases hp with hp | ⟨x, hx, hd⟩
  · exact Or.inl hp
  · exact Or.inr ⟨x, h x hx, hd⟩

theorem justified_mono {s : Subject} {e₁ e₂ : List Event} {r : Report}
    (h : ∀ e ∈ e₁, e ∈ e₂) (hj : ReportJustified s e₁ r) : ReportJustified s e₂ r := by
  obtain ⟨p, hp, hh, hq⟩ := hj.truthful
  exact { hj with truthful := ⟨p, hp, happened_mono h p hh, requested_mono s h p hq⟩ }

/-- Flow level: every report of a flow is justified by the events of that flow. -/
theorem flow_justified (cfg : Cfg) (n : Node) (s : Subject) (now : Nat) (fl : Flow)
    (hc : cfg.reportOnlyOnSuccess = true ∨ Outcome.noAgent ∉ flowOutcomes s fl)
    (r : Report) (hr : r ∈ flowReports cfg n s now fl) : ReportJustified s (flowEvents s fl) r := by
  simp only [flowReports, List.mem_flatMap] at hr
  obtain ⟨o, ho, hr⟩ := hr
  have hc' : cfg.reportOnlyOnSuccess = true ∨ o ≠ .noAgent := by
    rcases hc with hc | hc
    · exact Or.inl hc
    · exact Or.inr (fun h => hc (h ▸ ho))
  refine justified_mono ?_ (report_justified_general cfg n s now o hc' r hr)
  intro e he
  simp only [flowEvents, List.mem_flatMap]
  exact ⟨o, ho, he⟩

/-! ### The two guards -/

theorem no_report_about_admin (cfg : Cfg) (n : Node) (s : Subject) (now : Nat) (o : Outcome)
    (h : s.admin = true) : processOutcome cfg n s now o = [] := by
  cases o <;>
    simp [processOutcome, bundleDeletion, toList, ssr_admin n s _ _ now h]

theorem no_report_to_self (cfg : Cfg) (n : Node) (s : Subject) (now : Nat) (o : Outcome)
    (h : n.hasEndpoint s.reportTo = true) : processOutcome cfg n s now o = [] := by
  cases o <;>
    simp [processOutcome, bundleDeletion, toList, ssr_self n s _ _ now h]

theorem flow_no_report_about_admin (cfg : Cfg) (n : Node) (s : Subject) (now : Nat) (fl : Flow)
    (h : s.admin = true) : flowReports cfg n s now fl = [] := by
  simp only [flowReports, List.flatMap_eq_nil_iff]
  intro o _
  exact no_report_about_admin cfg n s now o h

theorem flow_no_report_to_self (cfg : Cfg) (n : Node) (s : Subject) (now : Nat) (fl : Flow)
    (h : n.hasEndpoint s.reportTo = true) : flowReports cfg n s now fl = [] := by
  simp only [flowReports, List.flatMap_eq_nil_iff]
  intro o _
  exact no_report_to_self cfg n s now o h

/-! ### Shape of every report -/

theorem mem_processOutcome_ssr {cfg : Cfg} {n : Node} {s : Subject} {now : Nat} {o : Outcome}
    {r : Report} (hr : r ∈ processOutcome cfg n s now o) :
    ∃ p reason, p < 4 ∧ reason ≤ 11 ∧ sendStatusReport n s p reason now = some r := by
  cases o with
  | received => exact ⟨_, _, by decide, by decide, (mem_toList hr).2⟩
  | unknownBlock f =>
    simp only [processOutcome, List.mem_append] at hr
    rcases hr with hr | hr
    · exact ⟨_, _, by decide, by decide, (mem_toList hr).2⟩
    · cases hdel : has f bfDelete
      · simp [hdel] at hr
      · simp only [hdel, if_true, bundleDeletion] at hr
        exact ⟨_, _, by decide, by decide, (mem_toList hr).2⟩
  | deliveredAgent => exact ⟨_, _, by decide, by decide, (mem_toList hr).2⟩
  | noAgent =>
    cases hc : cfg.reportOnlyOnSuccess
    · simp only [processOutcome, hc] at hr
      exact ⟨_, _, by decide, by decide, (mem_toList hr).2⟩
    · simp [processOutcome, hc] at hr
  | forwarded => exact ⟨_, _, by decide, by decide, (mem_toList hr).2⟩
  | allFailed => simp [processOutcome] at hr
  | lifetimeExpired => exact ⟨_, _, by decide, by decide, (mem_toList hr).2⟩
  | hopExceeded => exact ⟨_, _, by decide, by decide, (mem_toList hr).2⟩
  | foreignSource => exact ⟨_, _, by decide, by decide, (mem_toList hr).2⟩
  | notDispatched => simp [processOutcome] at hr

theorem mem_flowReports_ssr {cfg : Cfg} {n : Node} {s : Subject} {now : Nat} {fl : Flow}
    {r : Report} (hr : r ∈ flowReports cfg n s now fl) :
    ∃ p reason, p < 4 ∧ reason ≤ 11 ∧ sendStatusReport n s p reason now = some r := by
  simp only [flowReports, List.mem_flatMap] at hr
  obtain ⟨o, _, hr⟩ := hr
  exact mem_processOutcome_ssr hr

/-- Every report of every history is an administrative record with exactly the administrative
flag. -/
theorem mem_runHistory_flags {cfg : Cfg} {h : List Step} {r : Report}
    (hr : r ∈ runHistory cfg h) : r.flags = fAdmin := by
  simp only [runHistory, List.mem_flatMap, Step.reports] at hr
  obtain ⟨e, _, hr⟩ := hr
  obtain ⟨p, reason, _, _, hs⟩ := mem_flowReports_ssr hr
  exact (ssr_some hs).2.2.1

/-! ### No cascade -/

theorem processOutcome_length_le (cfg : Cfg) (n : Node) (s : Subject) (now : Nat) (o : Outcome) :
    (processOutcome cfg n s now o).length ≤ 2 := by
  have ht : ∀ c x, (toList c x).length ≤ 1 := by
    intro c x; unfold toList; cases c <;> cases x <;> simp
  cases o <;> simp only [processOutcome, bundleDeletion, List.length_append, List.length_nil]
  case unknownBlock f =>
    have := ht (has f bfReport) (sendStatusReport n s posReceived rBlockUnsupported now)
    have := ht (has s.flags fReqDeletion) (sendStatusReport n s posDeleted rBlockUnsupported now)
    split <;> simp <;> omega
  case noAgent =>
    have := ht (has s.flags fReqDelivery) (sendStatusReport n s posDelivered rNoInformation now)
    split <;> simp <;> omega
  all_goals first
    | omega
    | (have := ht (has s.flags fReqReception) (sendStatusReport n s posReceived rNoInformation now)
       have := ht (has s.flags fReqDelivery) (sendStatusReport n s posDelivered rNoInformation now)
       have := ht (has s.flags fReqForward) (sendStatusReport n s posForwarded rNoInformation now)
       have := ht (has s.flags fReqDeletion) (sendStatusReport n s posDeleted rLifetimeExpired now)
       have := ht (has s.flags fReqDeletion) (sendStatusReport n s posDeleted rHopLimitExceeded now)
       have := ht (has s.flags fReqDeletion) (sendStatusReport n s posDeleted rNoInformation now)
       omega)

theorem flatMap_length_le {α β} (f : α → List β) (k : Nat) (l : List α)
    (h : ∀ a ∈ l, (f a).length ≤ k) : (l.flatMap f).length ≤ k * l.length := by
  induction l with
  | nil => simp
  | cons a t ih =>
    simp only [List.flatMap_cons, List.length_append, List.length_cons]
    have h1 := h a (by simp)
    have h2 := ih (fun b hb => h b (by simp [hb]))
    rw [Nat.mul_succ]; omega

theorem step_reports_le (cfg : Cfg) (e : Step) :
    (e.reports cfg).length ≤
      2 * (if e.subject.admin then 0 else (flowOutcomes e.subject e.flow).length) := by
  cases hadm : e.subject.admin
  · simp only [Step.reports, flowReports, Bool.false_eq_true, if_false]
    exact flatMap_length_le _ 2 _ (fun o _ => processOutcome_length_le cfg _ _ _ o)
  · simp [Step.reports, flow_no_report_about_admin cfg e.node e.subject e.now e.flow hadm]

/-- Induction over the history. -/
theorem no_cascade (cfg : Cfg) (h : List Step) :
    (runHistory cfg h).length ≤ 2 * nonAdminEvents h := by
  induction h with
  | nil => simp [runHistory, nonAdminEvents]
  | cons e t ih =>
    have he := step_reports_le cfg e
    simp only [runHistory, nonAdminEvents, List.flatMap_cons, List.length_append, List.map_cons,
      List.sum_cons] at *
    omega

theorem processOutcome_le_events (cfg : Cfg) (n : Node) (s : Subject) (now : Nat) (o : Outcome)
    (hc : cfg.reportOnlyOnSuccess = true ∨ o ≠ .noAgent) :
    (processOutcome cfg n s now o).length ≤ (eventsOf o).length := by
  have ht : ∀ c x, (toList c x).length ≤ 1 := by
    intro c x; unfold toList; cases c <;> cases x <;> simp
  cases o with
  | unknownBlock f =>
    have h1 := ht (has f bfReport) (sendStatusReport n s posReceived rBlockUnsupported now)
    have h2 := ht (has s.flags fReqDeletion) (sendStatusReport n s posDeleted rBlockUnsupported now)
    simp only [processOutcome, bundleDeletion, eventsOf, List.length_append]
    split <;> simp <;> omega
  | noAgent =>
    rcases hc with hc | hc
    · simp [processOutcome, hc]
    · exact absurd rfl hc
  | received => exact ht _ _
  | deliveredAgent => exact ht _ _
  | forwarded => exact ht _ _
  | lifetimeExpired => exact ht _ _
  | hopExceeded => exact ht _ _
  | foreignSource => exact ht _ _
  | allFailed => simp [processOutcome]
  | notDispatched => simp [processOutcome]

theorem flatMap_length_le_flatMap {α β γ} (f : α → List β) (g : α → List γ) (l : List α)
    (h : ∀ a ∈ l, (f a).length ≤ (g a).length) : (l.flatMap f).length ≤ (l.flatMap g).length := by
  induction l with
  | nil => simp
  | cons a t ih =>
    simp only [List.flatMap_cons, List.length_append]
    have h1 := h a (by simp)
    have h2 := ih (fun b hb => h b (by simp [hb]))
    omega

/-- One report per event at most: the number of reports of a history is bounded by the number of
events that happened to non-administrative subjects (repaired `localDelivery`; for the current one
as long as no flow ends in "no agent took it"). -/
theorem no_cascade_events (cfg : Cfg) (h : List Step)
    (hc : cfg.reportOnlyOnSuccess = true ∨ ∀ e ∈ h, Outcome.noAgent ∉ flowOutcomes e.subject e.flow) :
    (runHistory cfg h).length ≤ nonAdminEventCount h := by
  induction h with
  | nil => simp [runHistory, nonAdminEventCount]
  | cons e t ih =>
    have hc' : cfg.reportOnlyOnSuccess = true ∨
        ∀ e ∈ t, Outcome.noAgent ∉ flowOutcomes e.subject e.flow := by
      rcases hc with hc | hc
      · exact Or.inl hc
      · exact Or.inr (fun x hx => hc x (by simp [hx]))
    have ih' := ih hc'
    have he : (e.reports cfg).length ≤
        (if e.subject.admin then 0 else (flowEvents e.subject e.flow).length) := by
      cases hadm : e.subject.admin
      · simp only [Step.reports, flowReports, flowEvents, Bool.false_eq_true, if_false]
        apply flatMap_length_le_flatMap
        intro o ho
        apply processOutcome_le_events
        rcases hc with hc | hc
        · exact Or.inl hc
        · exact Or.inr (fun heq => hc e (by simp) (heq ▸ ho))
      · simp [Step.reports, flow_no_report_about_admin cfg e.node e.subject e.now e.flow hadm]
    simp only [runHistory, nonAdminEventCount, List.flatMap_cons, List.length_append, List.map_cons,
      List.sum_cons] at *
    omega

/-- A report that re-enters any node, along any flow, produces nothing. -/
theorem report_reentry_silent (cfg : Cfg) (h : List Step) (r : Report) (hr : r ∈ runHistory cfg h)
    (n : Node) (time seq : Nat) (blocks : List Nat) (receiver : Eid) (now : Nat) (fl : Flow) :
    flowReports cfg n (r.asSubject time seq blocks receiver) now fl = [] := by
  apply flow_no_report_about_admin
  simp [Subject.admin, Report.asSubject, mem_runHistory_flags hr]
  decide

/-! ### Executable Spec ↔ readable Spec -/

theorem fail_none_iff (s : Subject) (evs : List Event) (r : Report) :
    reportJustifiedFail s evs r = none ↔ ReportJustified s evs r := by
  constructor
  · intro h
    unfold reportJustifiedFail at h
    split at h; · cases h
    rename_i h1
    split at h; · cases h
    rename_i h2
    split at h; · cases h
    rename_i h3
    split at h; · cases h
    rename_i h4
    split at h; · split at h <;> cases h
    rename_i h5
    split at h; · split at h <;> cases h
    rename_i h6
    split at h
    · cases h
    · rename_i p hp
      split at h; · cases h
      rename_i h7
      split at h; · cases h
      rename_i h8
      exact
        { subjectNotAdmin := by simpa using h1
          isAdmin := by simpa using h2
          noRequestFlags := by simpa using h3
          toReportTo := by simpa using h4
          exactId := by simpa using h5
          times := by simpa using h6
          truthful := ⟨p, hp, by simpa using h7, by simpa using h8⟩ }
    · cases h
  · intro hj
    obtain ⟨p, hp, hh, hq⟩ := hj.truthful
    unfold reportJustifiedFail
    simp [hj.subjectNotAdmin, hj.isAdmin, hj.noRequestFlags, hj.toReportTo, hj.exactId, hj.times,
      hp, hh, hq]

/-! ### Completeness of the model (the converse direction) -/

theorem ssr_allowed (n : Node) (s : Subject) (p reason now : Nat)
    (h : reportingAllowed n s = true) :
    ∃ r, sendStatusReport n s p reason now = some r ∧ r.items = newItems s.reqTime p now := by
  simp only [reportingAllowed, Bool.and_eq_true, Bool.not_eq_true'] at h
  obtain ⟨⟨h1, h2⟩, h3⟩ := h
  simp [sendStatusReport, h1, h2, h3]

theorem mem_flowEvents {s : Subject} {fl : Flow} {e : Event} :
    e ∈ flowEvents s fl ↔ ∃ o ∈ flowOutcomes s fl, e ∈ eventsOf o := by
  simp [flowEvents, List.mem_flatMap]

theorem mem_flowReports {cfg : Cfg} {n : Node} {s : Subject} {now : Nat} {fl : Flow} {r : Report} :
    r ∈ flowReports cfg n s now fl ↔ ∃ o ∈ flowOutcomes s fl, r ∈ processOutcome cfg n s now o := by
  simp [flowReports, List.mem_flatMap]

/-- In a well-formed flow the reception-side outcomes only occur after `received`. -/
theorem received_mem_of_receive_side {s : Subject} {fl : Flow} (hw : fl.wellFormed = true)
    {o : Outcome} (ho : o ∈ flowOutcomes s fl)
    (hk : o = .received ∨ ∃ f, o = .unknownBlock f) : Outcome.received ∈ flowOutcomes s fl := by
  cases fl with
  | receiveKnown => simp [flowOutcomes] at ho
  | receive d => simp [flowOutcomes]
  | submitForeign =>
    simp only [flowOutcomes, List.mem_singleton] at ho
    rcases hk with rfl | ⟨f, rfl⟩ <;> cases ho
  | submit d =>
    simp only [flowOutcomes, List.mem_singleton] at ho
    subst ho
    rcases hk with rfl | ⟨f, rfl⟩ <;> simp [Flow.wellFormed, Outcome.isDispatch] at hw
  | retry d =>
    simp only [flowOutcomes, List.mem_singleton] at ho
    subst ho
    rcases hk with rfl | ⟨f, rfl⟩ <;> simp [Flow.wellFormed, Outcome.isDispatch] at hw

/-- When the guards let `sendStatusReport` through, every status that happened and was requested
is asserted by some report of the flow: "never report" is not a model of the code. -/
theorem flow_complete (cfg : Cfg) (n : Node) (s : Subject) (now : Nat) (fl : Flow) (p : Nat)
    (hw : fl.wellFormed = true) (ha : reportingAllowed n s = true)
    (hh : happened (flowEvents s fl) p = true) (hq : requested s (flowEvents s fl) p = true) :
    ∃ r ∈ flowReports cfg n s now fl, assertedPositions r = [p] := by
  have key : ∀ o q reason (c : Bool), o ∈ flowOutcomes s fl → q < 4 → c = true →
      (∀ r, r ∈ toList c (sendStatusReport n s q reason now) → r ∈ processOutcome cfg n s now o) →
      ∃ r ∈ flowReports cfg n s now fl, assertedPositions r = [q] := by
    intro o q reason c ho hq4 hc hsub
    obtain ⟨r, hr, hi⟩ := ssr_allowed n s q reason now ha
    exact ⟨r, mem_flowReports.mpr ⟨o, ho, hsub r (by simp [toList, hc, hr])⟩,
      assertedPositions_new _ q now hq4 r hi⟩
  unfold happened at hh
  split at hh
  · -- received
    simp only [List.contains_eq_mem, decide_eq_true_eq] at hh
    obtain ⟨o, ho, he⟩ := mem_flowEvents.mp hh
    have hk : o = .received ∨ ∃ f, o = .unknownBlock f := by
      cases o <;> simp [eventsOf] at he ⊢
    have hrec := received_mem_of_receive_side hw ho hk
    simp only [requested, Bool.or_eq_true, List.any_eq_true] at hq
    rcases hq with hq | ⟨e, hem, hwant⟩
    · exact key .received 0 rNoInformation _ hrec (by decide) hq (by intro r hr; exact hr)
    · obtain ⟨o', ho', he'⟩ := mem_flowEvents.mp hem
      cases e with
      | unsupportedBlock f =>
        have : o' = .unknownBlock f := by
          cases o' <;> simp [eventsOf] at he' ⊢
          · exact he'.symm
        subst this
        simp only [blockWantsReport] at hwant
        exact key (.unknownBlock f) 0 rBlockUnsupported _ ho' (by decide) hwant
          (by intro r hr; simp only [processOutcome, List.mem_append]; exact Or.inl hr)
      | _ => simp [blockWantsReport] at hwant
  · -- forwarded
    simp only [List.contains_eq_mem, decide_eq_true_eq] at hh
    obtain ⟨o, ho, he⟩ := mem_flowEvents.mp hh
    have : o = .forwarded := by cases o <;> simp [eventsOf] at he ⊢
    subst this
    exact key .forwarded 1 rNoInformation _ ho (by decide) hq (by intro r hr; exact hr)
  · -- delivered
    simp only [List.contains_eq_mem, decide_eq_true_eq] at hh
    obtain ⟨o, ho, he⟩ := mem_flowEvents.mp hh
    have : o = .deliveredAgent := by cases o <;> simp [eventsOf] at he ⊢
    subst this
    exact key .deliveredAgent 2 rNoInformation _ ho (by decide) hq (by intro r hr; exact hr)
  · -- deleted
    simp only [List.any_eq_true] at hh
    obtain ⟨e, hem, hdel⟩ := hh
    obtain ⟨o, ho, he⟩ := mem_flowEvents.mp hem
    simp only [requested] at hq
    cases o with
    | unknownBlock f =>
      cases hd : has f bfDelete
      · simp [eventsOf, hd] at he
        rcases he with rfl | rfl <;> simp [isDeleted] at hdel
      · exact key (.unknownBlock f) 3 rBlockUnsupported _ ho (by decide) hq
          (by intro r hr; simp only [processOutcome, List.mem_append, hd, if_true, bundleDeletion]
              exact Or.inr hr)
    | lifetimeExpired =>
      exact key .lifetimeExpired 3 rLifetimeExpired _ ho (by decide) hq (by intro r hr; exact hr)
    | hopExceeded =>
      exact key .hopExceeded 3 rHopLimitExceeded _ ho (by decide) hq (by intro r hr; exact hr)
    | foreignSource =>
      exact key .foreignSource 3 rNoInformation _ ho (by decide) hq (by intro r hr; exact hr)
    | received => simp [eventsOf] at he; subst he; simp [isDeleted] at hdel
    | deliveredAgent => simp [eventsOf] at he; subst he; simp [isDeleted] at hdel
    | forwarded => simp [eventsOf] at he; subst he; simp [isDeleted] at hdel
    | noAgent => simp [eventsOf] at he
    | allFailed => simp [eventsOf] at he
    | notDispatched => simp [eventsOf] at he
  · cases hh

end Dtn7.Reports.Lemmas
