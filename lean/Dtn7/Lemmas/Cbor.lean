import Dtn7.Model.Cbor

namespace Dtn7.Cbor.Lemmas
open Dtn7.Cbor

theorem toNat_ofNat_lt (x : Nat) (h : x < 256) : (UInt8.ofNat x).toNat = x := by
  simp [UInt8.toNat_ofNat, Nat.mod_eq_of_lt h]

theorem beBytes_length (k n : Nat) : (beBytes k n).length = k := by
  induction k with
  | zero => rfl
  | succ k ih => simp [beBytes, ih]

theorem foldl_beBytes (k n acc : Nat) :
    (beBytes k n).foldl (fun a b => a * 256 + b.toNat) acc = acc * 256 ^ k + n % 256 ^ k := by
  induction k generalizing acc with
  | zero => simp [beBytes, Nat.mod_one]
  | succ k ih =>
    simp only [beBytes, List.foldl_cons]
    rw [ih]
    have hb : (UInt8.ofNat (n / 256 ^ k % 256)).toNat = n / 256 ^ k % 256 :=
      toNat_ofNat_lt _ (Nat.mod_lt _ (by decide))
    rw [hb]
    have hm : n % 256 ^ (k + 1) = n % 256 ^ k + 256 ^ k * (n / 256 ^ k % 256) := by
      rw [Nat.pow_succ, Nat.mod_mul]
    rw [hm, Nat.pow_succ, Nat.add_mul, Nat.mul_assoc, Nat.mul_comm 256 (256 ^ k),
      Nat.mul_comm (n / 256 ^ k % 256) (256 ^ k)]
    omega

theorem beVal_beBytes (k n : Nat) (h : n < 256 ^ k) : beVal (beBytes k n) = n := by
  unfold beVal
  rw [foldl_beBytes]
  simp [Nat.mod_eq_of_lt h]

theorem encHead_length (maj n : Nat) : (encHead maj n).length = headLen n := by
  unfold encHead headLen
  split
  · rfl
  · split
    · simp [beBytes_length]
    · split
      · simp [beBytes_length]
      · split <;> simp [beBytes_length]

theorem headLen_mono {n m : Nat} (h : n ≤ m) : headLen n ≤ headLen m := by
  unfold headLen
  repeat' split
  all_goals omega

/-- **Head round trip**: reading what `WriteMajors` wrote yields the same major type and argument
and leaves exactly the bytes that followed. -/
theorem decHead_encHead (maj n : Nat) (rest : Bytes) (hm : maj < 8) (hn : n < 2 ^ 64) :
    decHead (encHead maj n ++ rest) = .ok (maj, n, rest) := by
  unfold encHead
  by_cases h0 : n < 24
  · simp only [h0, ↓reduceIte, List.singleton_append, decHead]
    have hb : (UInt8.ofNat (maj * 32 + n)).toNat = maj * 32 + n := toNat_ofNat_lt _ (by omega)
    rw [hb]
    have h1 : maj * 32 + n ≠ 0x9F := by omega
    have h2 : maj * 32 + n ≠ 0xFF := by omega
    have h3 : (maj * 32 + n) / 32 = maj := by omega
    have h4 : (maj * 32 + n) % 32 = n := by omega
    simp [h1, h2, h3, h4]
    omega
  · simp only [h0, ↓reduceIte]
    have key : ∀ (a k : Nat), 24 ≤ a → a ≤ 27 → k = 2 ^ (a - 24) → n < 256 ^ k →
        decHead ((UInt8.ofNat (maj * 32 + a) :: beBytes k n) ++ rest) = .ok (maj, n, rest) := by
      intro a k ha1 ha2 hk hlt
      simp only [List.cons_append, decHead]
      have hb : (UInt8.ofNat (maj * 32 + a)).toNat = maj * 32 + a := toNat_ofNat_lt _ (by omega)
      rw [hb]
      have h1 : maj * 32 + a ≠ 0x9F := by omega
      have h2 : maj * 32 + a ≠ 0xFF := by omega
      have h3 : (maj * 32 + a) / 32 = maj := by omega
      have h4 : (maj * 32 + a) % 32 = a := by omega
      have h5 : ¬ a ≤ 23 := by omega
      simp only [h1, h2, h3, h4, h5, ha2, ↓reduceIte, ← hk]
      have hlen : ¬ (beBytes k n ++ rest).length < k := by
        simp [beBytes_length]
      simp only [hlen, ↓reduceIte]
      have ht : (beBytes k n ++ rest).take k = beBytes k n := by
        rw [List.take_append_of_le_length (by simp [beBytes_length])]
        exact List.take_of_length_le (by simp [beBytes_length])
      have hd : (beBytes k n ++ rest).drop k = rest := by
        rw [List.drop_append_of_le_length (by simp [beBytes_length])]
        simp [List.drop_of_length_le, beBytes_length]
      rw [ht, hd, beVal_beBytes k n hlt]
    by_cases h1 : n < 2 ^ 8
    · simp only [h1, ↓reduceIte]; exact key 24 1 (by omega) (by omega) rfl (by omega)
    · by_cases h2 : n < 2 ^ 16
      · simp only [h1, h2, ↓reduceIte]; exact key 25 2 (by omega) (by omega) rfl (by omega)
      · by_cases h3 : n < 2 ^ 32
        · simp only [h1, h2, h3, ↓reduceIte]; exact key 26 4 (by omega) (by omega) rfl (by omega)
        · simp only [h1, h2, h3, ↓reduceIte]; exact key 27 8 (by omega) (by omega) rfl (by omega)

theorem decExpect_encHead (maj n : Nat) (rest : Bytes) (hm : maj < 8) (hn : n < 2 ^ 64) :
    decExpect maj (encHead maj n ++ rest) = .ok (n, rest) := by
  simp [decExpect, decHead_encHead maj n rest hm hn]

theorem readRaw_append (d rest : Bytes) (h : d.length ≤ maxInt32) :
    readRaw d.length (d ++ rest) = .ok (d, rest) := by
  unfold readRaw
  have : ¬ d.length > maxInt32 := by omega
  simp [this]

/-- Byte-string round trip with exact consumption. -/
theorem decBytes_encBytes (d rest : Bytes) (h : d.length ≤ maxInt32) :
    decBytes (encBytes d ++ rest) = .ok (d, rest) := by
  unfold decBytes encBytes
  have hn : d.length < 2 ^ 64 := by unfold maxInt32 at h; omega
  rw [List.append_assoc, decExpect_encHead majBytes d.length (d ++ rest) (by decide) hn]
  exact readRaw_append d rest h

theorem decText_encText (d rest : Bytes) (h : d.length ≤ maxInt32) :
    decText (encText d ++ rest) = .ok (d, rest) := by
  unfold decText encText
  have hn : d.length < 2 ^ 64 := by unfold maxInt32 at h; omega
  rw [List.append_assoc, decExpect_encHead majText d.length (d ++ rest) (by decide) hn]
  exact readRaw_append d rest h

theorem decUInt_encUInt (n : Nat) (rest : Bytes) (hn : n < 2 ^ 64) :
    decUInt (encUInt n ++ rest) = .ok (n, rest) :=
  decExpect_encHead majUInt n rest (by decide) hn

theorem decArray_encArray (n : Nat) (rest : Bytes) (hn : n < 2 ^ 64) :
    decArray (encArray n ++ rest) = .ok (n, rest) :=
  decExpect_encHead majArray n rest (by decide) hn

/-- A head never starts with the break byte or the indefinite-array byte. -/
theorem encHead_head_ne (maj n : Nat) (hm : maj < 8) :
    ∃ b t, encHead maj n = b :: t ∧ b.toNat ≠ 0xFF ∧ b.toNat ≠ 0x9F := by
  unfold encHead
  have hb : ∀ a, a ≤ 27 → (UInt8.ofNat (maj * 32 + a)).toNat = maj * 32 + a :=
    fun a ha => toNat_ofNat_lt _ (by omega)
  split
  · exact ⟨_, _, rfl, by rw [hb _ (by omega)]; omega, by rw [hb _ (by omega)]; omega⟩
  · split
    · exact ⟨_, _, rfl, by rw [hb _ (by omega)]; omega, by rw [hb _ (by omega)]; omega⟩
    · split
      · exact ⟨_, _, rfl, by rw [hb _ (by omega)]; omega, by rw [hb _ (by omega)]; omega⟩
      · split
        · exact ⟨_, _, rfl, by rw [hb _ (by omega)]; omega, by rw [hb _ (by omega)]; omega⟩
        · exact ⟨_, _, rfl, by rw [hb _ (by omega)]; omega, by rw [hb _ (by omega)]; omega⟩

/-- `ReadRawBytes` never pre-allocates more than 1 MiB on the word of a length field. -/
theorem readRawPrealloc_le (l : Nat) : readRawPrealloc l ≤ 1024 * 1024 := by
  unfold readRawPrealloc; split
  · omega
  · split <;> omega

end Dtn7.Cbor.Lemmas
