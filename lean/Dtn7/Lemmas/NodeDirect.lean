/-
C05: direct delivery when the destination node is connected, epidemic flooding to a new peer.
-/
import Dtn7.Lemmas.NodeC05

namespace Dtn7.Node

/-! ## Who is tried -/

theorem find_addr_of_mem {peers : List Peer} (hn : (peers.map (·.addr)).Nodup) {p : Peer} (hp : p ∈ peers) :
    peers.find? (fun q => q.addr == p.addr) = some p := by
  induction peers with
  | nil => cases hp
  | cons q ps ih =>
    simp only [List.map_cons, List.nodup_cons] at hn
    rcases List.mem_cons.mp hp with h | h
    · subst h; simp
    · have hne : q.addr ≠ p.addr := by
        intro e
        exact hn.1 (List.mem_map.mpr ⟨p, h, e.symm⟩)
      have : (q.addr == p.addr) = false := by simp [hne]
      simp only [List.find?_cons, this]
      exact ih hn.2 h

theorem mem_arrange_of_mem {pref : List Nat} {peers : List Peer} (hn : (peers.map (·.addr)).Nodup) {p : Peer}
    (hp : p ∈ peers) : p ∈ arrange pref peers := by
  unfold arrange
  by_cases h : p.addr ∈ pref.eraseDups
  · apply List.mem_append_left
    exact List.mem_filterMap.mpr ⟨p.addr, h, find_addr_of_mem hn hp⟩
  · apply List.mem_append_right
    apply List.mem_filter.mpr
    refine ⟨hp, ?_⟩
    simp [h]

theorem mem_senders_of_mem {env : Env} {n : Node} {k : Key} (hn : (n.peers.map (·.addr)).Nodup) {p : Peer}
    (hp : p ∈ n.peers) : p ∈ senders env n k := mem_arrange_of_mem hn hp

theorem filterCLAs_nonempty : ∀ (sent : List Eid) (ps : List Peer) (p : Peer), p ∈ ps → sent.contains p.eid = false →
    (filterCLAs sent ps).1.isEmpty = false
  | sent, [], p, hp, _ => by cases hp
  | sent, q :: ps, p, hp, hs => by
    simp only [filterCLAs]
    by_cases hq : sent.contains q.eid = true
    · simp only [hq, if_true]
      rcases List.mem_cons.mp hp with h | h
      · subst h; rw [hq] at hs; cases hs
      · exact filterCLAs_nonempty sent ps p h hs
    · have hq' : ¬ q.eid ∈ sent := by simpa using hq
      simp [hq']

theorem filterCLAs_mem : ∀ (sent : List Eid) (ps : List Peer) (p : Peer), p ∈ ps → sent.contains p.eid = false →
    (∀ q ∈ ps, q.eid = p.eid → q = p) → p ∈ (filterCLAs sent ps).1
  | sent, [], p, hp, _, _ => by cases hp
  | sent, q :: ps, p, hp, hs, hu => by
    simp only [filterCLAs]
    by_cases hq : sent.contains q.eid = true
    · simp only [hq, if_true]
      rcases List.mem_cons.mp hp with h | h
      · subst h; rw [hq] at hs; cases hs
      · exact filterCLAs_mem sent ps p h hs (fun x hx => hu x (List.mem_cons_of_mem _ hx))
    · simp only [hq, Bool.false_eq_true, if_false]
      by_cases hqp : q = p
      · subst hqp; exact List.mem_cons_self
      · have h : p ∈ ps := by
          rcases List.mem_cons.mp hp with h | h
          · exact absurd h.symm hqp
          · exact h
        have hne : q.eid ≠ p.eid := fun e => hqp (hu q List.mem_cons_self e)
        apply List.mem_cons_of_mem
        apply filterCLAs_mem _ ps p h
        · have hs' : ¬ p.eid ∈ sent := by simpa using hs
          simp only [List.contains_eq_mem, List.mem_append, List.mem_cons, List.not_mem_nil, or_false,
            decide_eq_false_iff_not, not_or]
          exact ⟨hs', fun e => hne e.symm⟩
        · exact fun x hx => hu x (List.mem_cons_of_mem _ hx)


/-! ## forward: direct delivery and epidemic flooding -/

theorem forward_direct (env : Env) (d : Desc) (b : Bundle) (n : Node)
    (hf : forwardable n.now b) (hn : (n.peers.map (·.addr)).Nodup) (p : Peer) (hp : p ∈ n.peers)
    (hs : p.eid.sameNode b.dst = true) : ∃ ok, Output.sent p b ok ∈ (forward env d b n).2 := by
  unfold forward
  simp only
  have henv := sync_env { d with cons := { d.cons with fp := true, dp := false } } n
  rw [henv.now]
  simp only [hf.1, hf.2.1, hf.2.2, Bool.false_eq_true, if_false]
  have hp1 : p ∈ (sync { d with cons := { d.cons with fp := true, dp := false } } n).peers := by
    rw [henv.peers]; exact hp
  have hn1 : ((sync { d with cons := { d.cons with fp := true, dp := false } } n).peers.map (·.addr)).Nodup := by
    rw [henv.peers]; exact hn
  have hmem : p ∈ (senders env (sync { d with cons := { d.cons with fp := true, dp := false } } n) d.key).filter
      (fun q => q.eid.sameNode b.dst) :=
    List.mem_filter.mpr ⟨mem_senders_of_mem hn1 hp1, hs⟩
  have hsel : selectSenders env { d with cons := { d.cons with fp := true, dp := false } } b
      (sync { d with cons := { d.cons with fp := true, dp := false } } n) =
      ((senders env (sync { d with cons := { d.cons with fp := true, dp := false } } n) d.key).filter
        (fun q => q.eid.sameNode b.dst), true, { d with cons := { d.cons with fp := true, dp := false } },
        sync { d with cons := { d.cons with fp := true, dp := false } } n) := by
    unfold selectSenders
    simp only
    have : ((senders env (sync { d with cons := { d.cons with fp := true, dp := false } } n) d.key).filter
        (fun q => q.eid.sameNode b.dst)).isEmpty = false := by
      cases hl : (senders env (sync { d with cons := { d.cons with fp := true, dp := false } } n) d.key).filter
          (fun q => q.eid.sameNode b.dst) with
      | nil => rw [hl] at hmem; cases hmem
      | cons _ _ => rfl
    simp only [this, Bool.false_eq_true, if_false]
  rw [hsel]
  have := forwardSend_all env b
    ((senders env (sync { d with cons := { d.cons with fp := true, dp := false } } n) d.key).filter
        (fun q => q.eid.sameNode b.dst), true, { d with cons := { d.cons with fp := true, dp := false } },
        sync { d with cons := { d.cons with fp := true, dp := false } } n) p hmem
  exact this

theorem forward_flood (env : Env) (d : Desc) (b : Bundle) (n : Node) (it : Item)
    (halgo : n.cfg.algo = .epidemic) (hmule : n.cfg.mule = false)
    (hg : n.store.get d.key = some it)
    (hf : forwardable n.now b) (hn : (n.peers.map (·.addr)).Nodup) (p : Peer) (hp : p ∈ n.peers)
    (hnd : ∀ q ∈ n.peers, q.eid.sameNode b.dst = false)
    (hs : it.rt.sentE.contains p.eid = false) (hu : ∀ q ∈ n.peers, q.eid = p.eid → q = p) :
    ∃ ok, Output.sent p b ok ∈ (forward env d b n).2 := by
  unfold forward
  simp only
  have henv := sync_env { d with cons := { d.cons with fp := true, dp := false } } n
  have hne : ({ d.cons with fp := true, dp := false } : Cons).isEmpty = false := by simp [Cons.isEmpty]
  have h1 := sync_update { d with cons := { d.cons with fp := true, dp := false } } n it hg hne
  rw [henv.now]
  simp only [hf.1, hf.2.1, hf.2.2, Bool.false_eq_true, if_false]
  have hn1 : ((sync { d with cons := { d.cons with fp := true, dp := false } } n).peers.map (·.addr)).Nodup := by
    rw [henv.peers]; exact hn
  have hall : ∀ q ∈ senders env (sync { d with cons := { d.cons with fp := true, dp := false } } n) d.key,
      q ∈ n.peers := by
    intro q hq
    have := mem_senders hq
    rw [henv.peers] at this
    exact this
  have hempty : ((senders env (sync { d with cons := { d.cons with fp := true, dp := false } } n) d.key).filter
      (fun q => q.eid.sameNode b.dst)).isEmpty = true := by
    rw [List.isEmpty_iff]
    apply List.filter_eq_nil_iff.mpr
    intro q hq
    rw [hnd q (hall q hq)]
    simp
  have hpm : p ∈ senders env (sync { d with cons := { d.cons with fp := true, dp := false } } n) d.key :=
    mem_senders_of_mem hn1 (by rw [henv.peers]; exact hp)
  have hsel1 : p ∈ (selectSenders env { d with cons := { d.cons with fp := true, dp := false } } b
      (sync { d with cons := { d.cons with fp := true, dp := false } } n)).1 := by
    unfold selectSenders
    simp only [hempty, if_true]
    unfold sendersFor
    simp only [henv.cfg, hmule, Bool.false_eq_true, if_false]
    unfold innerSenders
    simp only [henv.cfg, halgo, h1]
    exact filterCLAs_mem _ _ p hpm hs (fun q hq => hu q (hall q hq))
  exact forwardSend_all env b _ p hsel1

end Dtn7.Node

namespace Dtn7.Node

/-! ## dispatching a waiting bundle again -/

theorem dispatchingAllowed_true (env : Env) (d : Desc) (n : Node) (h : (dispatchingAllowed env d n).1 = true) :
    (dispatchingAllowed env d n).2 = n := by
  unfold dispatchingAllowed at h ⊢
  repeat' (first | rfl | (simp at h; done) | split at h | split | dsimp only at h ⊢)

theorem allowed_of (env : Env) (d : Desc) (m : Node) (it : Item) (hg : m.store.get d.key = some it)
    (hn : (m.peers.map (·.addr)).Nodup)
    (h : m.cfg.algo ≠ .epidemic ∨ (m.cfg.gateDirect = true ∧ epiDirect m it = true) ∨
      ∃ q ∈ m.peers, it.rt.sentE.contains q.eid = false) :
    (dispatchingAllowed env d m).1 = true := by
  unfold dispatchingAllowed
  cases ha : m.cfg.algo with
  | epidemic =>
    simp only [hg]
    by_cases hloc : epiLocal m.cfg it = true
    · simp only [hloc, if_true]
    · rcases h with h | ⟨hg1, hg2⟩ | ⟨q, hq, hs⟩
      · exact absurd ha h
      · simp only [hloc, hg1, hg2, Bool.and_self, Bool.false_eq_true, if_false, if_true]
      · have := filterCLAs_nonempty it.rt.sentE (senders env m d.key) q (mem_senders_of_mem hn hq) hs
        by_cases hgd : (m.cfg.gateDirect && epiDirect m it) = true
        · simp only [hloc, hgd, Bool.false_eq_true, if_false, if_true]
        · simp only [hloc, hgd, this, Bool.false_eq_true, if_false]
  | spray => rfl
  | binarySpray => rfl
  | prophet => rfl
  | dtlsr => rfl

/-- Every stored item carries `routing/epidemic/destination`, and it names the destination of the stored
bundle (an invariant of epidemic routing for the code as it is: `Dtn7.Node.epiOk_step`). -/
def EpiOk (n : Node) : Prop := ∀ k it, n.store.get k = some it → it.rt.epiDst = some it.bundle.dst

theorem epiDirect_of (m : Node) (it : Item) (p : Peer) (hp : p ∈ m.peers)
    (hs : p.eid.sameNode it.bundle.dst = true) (he : it.rt.epiDst = some it.bundle.dst) :
    epiDirect m it = true := by
  unfold epiDirect
  rw [he]
  exact List.any_eq_true.mpr ⟨p, hp, hs⟩

/-- A retry of a stored bundle that the algorithm lets through and that can be loaded is `forward`. -/
theorem dispatching_retry (env : Env) (m : Node) (k : Key) (it : Item) (hg : m.store.get k = some it)
    (hall : (dispatchingAllowed env (newDesc m k) m).1 = true) (hl : loadable m.now it.bundle = true)
    (hdst : hasEndpoint m.cfg it.bundle.dst = false) :
    dispatching env (newDesc m k) m =
      forward env { newDesc m k with bndl := some it.bundle } it.bundle m := by
  unfold dispatching
  simp only [hall, Bool.not_true, Bool.false_eq_true, if_false, dispatchingAllowed_true env _ m hall]
  have hb : (newDesc m k).bundle m = some it.bundle := by
    unfold Desc.bundle
    simp only [newDesc_bndl, newDesc_key, hg, hl, if_true]
  simp only [hb, hdst, Bool.false_eq_true, if_false]

/-- Something that the retry of key `k` outputs is output by `checkPendingBundles`, whatever the other
bundles do before. -/
theorem dispatchKeys_sent (env : Env) (k : Key) (P : Output → Prop) (it : Item) : ∀ (ks : List Key) (n : Node),
    WF n → k ∈ ks → n.store.get k = some it →
    (∀ m, SameEnv n m → m.store.get k = some it → ∃ o ∈ (dispatching env (newDesc m k) m).2, P o) →
    ∃ o ∈ (dispatchKeys env ks n).2, P o
  | [], _, _, hk, _, _ => by cases hk
  | k₁ :: ks, n, w, hk, hg, H => by
    simp only [dispatchKeys]
    by_cases h1 : k₁ = k
    · subst h1
      rcases H n (SameEnv.refl n) hg with ⟨o, ho, hp⟩
      exact ⟨o, List.mem_append_left _ ho, hp⟩
    · have hd := dispatching_only env (newDesc n k₁) n w (by intro b h; rw [newDesc_bndl] at h; cases h)
      rw [newDesc_key] at hd
      have hk' : k ∈ ks := by
        rcases List.mem_cons.mp hk with h | h
        · exact absurd h.symm h1
        · exact h
      have hg' : (dispatching env (newDesc n k₁) n).1.store.get k = some it := by
        rw [hd.only.other k (fun e => h1 e.symm)]; exact hg
      rcases dispatchKeys_sent env k P it ks _ (hd.wf w) hk' hg'
        (fun m hm hgm => H m (hd.only.env.trans hm) hgm) with ⟨o, ho, hp⟩
      exact ⟨o, List.mem_append_right _ ho, hp⟩

theorem mem_pendingKeys_of {s : Store} {k : Key} {it : Item} (hg : s.get k = some it) (hp : it.pending = true) :
    k ∈ pendingKeys s := by
  unfold pendingKeys
  exact List.mem_filter.mpr ⟨Store.mem_keys_of_get hg, by simp [hg, hp]⟩

theorem loadable_of_ok (now : Nat) (b : Bundle) (h : lifetimeOk now now b = true) (hh : hopRefused b = false) :
    loadable now b = true := by
  have hf := forwardable_of_ok now now b h hh
  unfold loadable
  rw [hf.2.1]
  simp only [Bool.not_false, Bool.true_and]
  unfold hopRefused at hh
  cases hhop : b.hop with
  | none => rfl
  | some lc =>
    obtain ⟨l, cnt⟩ := lc
    simp only [hhop, decide_eq_false_iff_not, Nat.not_lt] at hh ⊢
    simp only [Bool.not_eq_true', decide_eq_false_iff_not, Nat.not_lt]
    omega


/-! ## The two clauses on one `checkPendingBundles` -/

theorem sentIn_of_mem {outs : List Output} {p : Peer} {b : Bundle} {ok : Bool}
    (h : Output.sent p b ok ∈ outs) : sentIn outs p.addr b.tag = true := by
  unfold sentIn
  exact List.any_eq_true.mpr ⟨_, h, by simp⟩

/-- A waiting bundle whose destination node is connected is handed to that peer by
`checkPendingBundles`, unless the epidemic gate is closed (every connected sender in the sent list). -/
theorem checkPending_direct (env : Env) (n1 : Node) (w : WF n1) (hn : (n1.peers.map (·.addr)).Nodup)
    (k : Key) (it : Item) (hg : n1.store.get k = some it) (c : Cfg) (hc : n1.cfg = c)
    (hw : isWaiting c n1.now (itemView (k, it)) = true)
    (p : Peer) (hp : p ∈ n1.peers) (hs : p.eid.sameNode it.bundle.dst = true)
    (hgate : n1.cfg.algo ≠ .epidemic ∨ (n1.cfg.gateDirect = true ∧ it.rt.epiDst = some it.bundle.dst) ∨
      ∃ q ∈ n1.peers, it.rt.sentE.contains q.eid = false) :
    sentIn (checkPending env n1).2 p.addr it.bundle.tag = true := by
  unfold isWaiting at hw
  simp only [itemView, Bool.and_eq_true, Bool.not_eq_true'] at hw
  obtain ⟨⟨⟨hpend, hdst⟩, hhop⟩, hlife⟩ := hw
  have hdst' : hasEndpoint n1.cfg it.bundle.dst = false := by rw [hc]; exact hasEndpoint_false_of hdst
  have hl := loadable_of_ok n1.now it.bundle hlife hhop
  have hf := forwardable_of_ok n1.now n1.now it.bundle hlife hhop
  unfold checkPending
  have := dispatchKeys_sent env k (fun o => ∃ ok, o = Output.sent p it.bundle ok) it (pendingKeys n1.store) n1 w
    (mem_pendingKeys_of hg hpend) hg
    (by
      intro m hm hgm
      have hall := allowed_of env (newDesc m k) m it (by rw [newDesc_key]; exact hgm) (by rw [hm.peers]; exact hn)
        (by
          rw [hm.cfg, hm.peers]
          rcases hgate with h | ⟨h1, h2⟩ | h
          · exact Or.inl h
          · exact Or.inr (Or.inl ⟨h1, epiDirect_of m it p (by rw [hm.peers]; exact hp) hs h2⟩)
          · exact Or.inr (Or.inr h))
      rw [dispatching_retry env m k it hgm hall (by rw [hm.now]; exact hl) (by rw [hm.cfg]; exact hdst')]
      rcases forward_direct env { newDesc m k with bndl := some it.bundle } it.bundle m
        (by rw [hm.now]; exact hf) (by rw [hm.peers]; exact hn) p (by rw [hm.peers]; exact hp) hs with ⟨ok, hok⟩
      exact ⟨_, hok, ok, rfl⟩)
  rcases this with ⟨o, ho, ok, rfl⟩
  exact sentIn_of_mem ho

/-- Epidemic flooding: a waiting bundle is handed to every connected peer that is not in its sent list
(when its destination is not connected and the peer has a single CLA). -/
theorem checkPending_flood (env : Env) (n1 : Node) (w : WF n1) (hn : (n1.peers.map (·.addr)).Nodup)
    (k : Key) (it : Item) (hg : n1.store.get k = some it) (c : Cfg) (hc : n1.cfg = c)
    (halgo : c.algo = .epidemic) (hmule : c.mule = false)
    (hw : isWaiting c n1.now (itemView (k, it)) = true)
    (p : Peer) (hp : p ∈ n1.peers) (hnd : ∀ q ∈ n1.peers, q.eid.sameNode it.bundle.dst = false)
    (hs : it.rt.sentE.contains p.eid = false) (hu : ∀ q ∈ n1.peers, q.eid = p.eid → q = p) :
    sentIn (checkPending env n1).2 p.addr it.bundle.tag = true := by
  unfold isWaiting at hw
  simp only [itemView, Bool.and_eq_true, Bool.not_eq_true'] at hw
  obtain ⟨⟨⟨hpend, hdst⟩, hhop⟩, hlife⟩ := hw
  have hdst' : hasEndpoint n1.cfg it.bundle.dst = false := by rw [hc]; exact hasEndpoint_false_of hdst
  have hl := loadable_of_ok n1.now it.bundle hlife hhop
  have hf := forwardable_of_ok n1.now n1.now it.bundle hlife hhop
  unfold checkPending
  have := dispatchKeys_sent env k (fun o => ∃ ok, o = Output.sent p it.bundle ok) it (pendingKeys n1.store) n1 w
    (mem_pendingKeys_of hg hpend) hg
    (by
      intro m hm hgm
      have hall := allowed_of env (newDesc m k) m it (by rw [newDesc_key]; exact hgm) (by rw [hm.peers]; exact hn)
        (Or.inr (Or.inr ⟨p, by rw [hm.peers]; exact hp, hs⟩))
      rw [dispatching_retry env m k it hgm hall (by rw [hm.now]; exact hl) (by rw [hm.cfg]; exact hdst')]
      rcases forward_flood env { newDesc m k with bndl := some it.bundle } it.bundle m it
        (by rw [hm.cfg, hc]; exact halgo) (by rw [hm.cfg, hc]; exact hmule)
        (by show m.store.get (newDesc m k).key = some it; rw [newDesc_key]; exact hgm)
        (by rw [hm.now]; exact hf) (by rw [hm.peers]; exact hn) p (by rw [hm.peers]; exact hp)
        (by rw [hm.peers]; exact hnd) hs (by rw [hm.peers]; exact hu) with ⟨ok, hok⟩
      exact ⟨_, hok, ok, rfl⟩)
  rcases this with ⟨o, ho, ok, rfl⟩
  exact sentIn_of_mem ho


/-! ## The clauses along every history -/

theorem sentIn_append_left {a b : List Output} {x y : Nat} (h : sentIn a x y = true) : sentIn (a ++ b) x y = true := by
  unfold sentIn at *
  rw [List.any_append, h, Bool.true_or]

/-- The expression `directFail` evaluates for `peerUp` / `retryTick`, on the model's own observations:
the only possible failure is the closed gate of epidemic routing, and only for the code without
`gateDirect`. -/
theorem direct_core (c : Cfg) (env : Env) (n n1 : Node) (w : WF n) (hc : n.cfg = c)
    (hs : n1.store = n.store) (hcfg : n1.cfg = n.cfg) (hnow : n1.now = n.now)
    (hn : (n1.peers.map (·.addr)).Nodup) (he : c.algo = .epidemic → EpiOk n) (outs : List Output)
    (hout : ∀ x y, sentIn (checkPending env n1).2 x y = true → sentIn outs x y = true) (cls : String)
    (hfail : ((viewOf n).items.findSome? fun i =>
      if isWaiting c n.now i then
        n1.peers.findSome? fun p =>
          if p.eid.sameNode i.bundle.dst && !sentIn outs p.addr i.bundle.tag then
            if c.algo == .epidemic && n1.peers.all (fun q => i.sentE.contains q.eid)
            then some "direct-not-sent-all-peers-in-sent-list"
            else some "direct-not-sent"
          else none
      else none) = some cls) :
    cls = "direct-not-sent-all-peers-in-sent-list" ∧ c.gateDirect = false := by
  rcases List.exists_of_findSome?_eq_some hfail with ⟨i, hi, hfi⟩
  rcases mem_viewOf w hi with ⟨k, it, hg, rfl⟩
  by_cases hw : isWaiting c n.now (itemView (k, it)) = true
  · simp only [hw, if_true] at hfi
    rcases List.exists_of_findSome?_eq_some hfi with ⟨p, hp, hfp⟩
    by_cases hcond : (p.eid.sameNode (itemView (k, it)).bundle.dst &&
        !sentIn outs p.addr (itemView (k, it)).bundle.tag) = true
    · simp only [hcond, if_true] at hfp
      have w1 : WF n1 := ⟨by rw [hs]; exact w.keyed, by rw [hs]; exact w.nodup⟩
      -- whenever the gate is open the bundle was handed to `p`
      have hopen : (n1.cfg.algo ≠ .epidemic ∨ (n1.cfg.gateDirect = true ∧ it.rt.epiDst = some it.bundle.dst) ∨
          ∃ q ∈ n1.peers, it.rt.sentE.contains q.eid = false) → False := by
        intro hgate'
        simp only [Bool.and_eq_true, Bool.not_eq_true'] at hcond
        have := checkPending_direct env n1 w1 hn k it (by rw [hs]; exact hg) c (hcfg.trans hc)
          (by rw [hnow]; exact hw) p hp (by simpa [itemView] using hcond.1) hgate'
        have := hout _ _ this
        simp only [itemView] at hcond
        rw [this] at hcond
        exact absurd hcond.2 (by simp)
      by_cases hgate : (c.algo == .epidemic && n1.peers.all (fun q => (itemView (k, it)).sentE.contains q.eid)) = true
      · simp only [hgate, if_true] at hfp
        cases hfp
        refine ⟨rfl, ?_⟩
        cases hgd : c.gateDirect
        · rfl
        · have ha : c.algo = .epidemic := by
            simp only [Bool.and_eq_true, beq_iff_eq] at hgate
            exact hgate.1
          exact (hopen (Or.inr (Or.inl ⟨by rw [hcfg, hc]; exact hgd, he ha k it hg⟩))).elim
      · exfalso
        apply hopen
        by_cases ha : c.algo = .epidemic
        · right; right
          simp only [ha, beq_self_eq_true, Bool.true_and, Bool.not_eq_true] at hgate
          have : ¬ (n1.peers.all (fun q => (itemView (k, it)).sentE.contains q.eid) = true) := by
            rw [hgate]; simp
          apply Classical.byContradiction
          intro hno
          apply this
          apply List.all_eq_true.mpr
          intro q hq
          cases hcon : (itemView (k, it)).sentE.contains q.eid
          · exact absurd ⟨q, hq, by simpa [itemView] using hcon⟩ hno
          · rfl
        · left
          rw [hcfg, hc]
          exact ha
    · simp only [hcond, Bool.false_eq_true, if_false] at hfp
      cases hfp
  · simp only [hw, Bool.false_eq_true, if_false] at hfi
    cases hfi

/-- `SentToDestination` on the model's own step: the only possible failure is the closed epidemic gate,
and with `gateDirect` there is none. -/
theorem direct_step (c : Cfg) (env : Env) (e : Event) (s : SpecSt) (n : Node)
    (inv : VInv c s n) (he : c.algo = .epidemic → EpiOk n) (cls : String)
    (hfail : directFail c s (obsOf (e, (step env n e).2, (step env n e).1)) = some cls) :
    cls = "direct-not-sent-all-peers-in-sent-list" ∧ c.gateDirect = false := by
  unfold directFail at hfail
  simp only [obsOf] at hfail
  cases e with
  | peerUp p =>
    simp only [peersAfter, nowAfter, inv.peers, inv.prev, inv.now] at hfail
    by_cases hany : n.peers.any (fun q => q.addr == p.addr) = true
    · simp only [hany, if_true] at hfail
      refine direct_core c env n n inv.wf inv.cfg rfl rfl rfl inv.pnodup he _ ?_ cls hfail
      intro x y h
      have : (step env n (.peerUp p)).2 = (checkPending env n).2 ++
          deletedKeys n.store (checkPending env n).1.store := by
        simp only [step, stepCore, hany, if_true]
      rw [this]
      exact sentIn_append_left h
    · simp only [hany, Bool.false_eq_true, if_false] at hfail
      have hpn : (({ n with peers := n.peers ++ [p] } : Node).peers.map (·.addr)).Nodup := by
        simp only [List.map_append, List.map_cons, List.map_nil]
        refine List.nodup_append.mpr ⟨inv.pnodup, by simp, ?_⟩
        intro a ha b hb
        simp at hb
        subst hb
        intro hab
        subst hab
        rcases List.mem_map.mp ha with ⟨q, hq, hqa⟩
        apply hany
        apply List.any_eq_true.mpr
        exact ⟨q, hq, by simp [hqa]⟩
      refine direct_core c env n { n with peers := n.peers ++ [p] } inv.wf inv.cfg rfl rfl rfl hpn he _ ?_ cls hfail
      intro x y h
      have : (step env n (.peerUp p)).2 = (checkPending env { n with peers := n.peers ++ [p] }).2 ++
          deletedKeys n.store (checkPending env { n with peers := n.peers ++ [p] }).1.store := by
        simp only [step, stepCore, hany, Bool.false_eq_true, if_false]
      rw [this]
      exact sentIn_append_left h
  | retryTick =>
    simp only [peersAfter, nowAfter, inv.peers, inv.prev, inv.now] at hfail
    refine direct_core c env n n inv.wf inv.cfg rfl rfl rfl inv.pnodup he _ ?_ cls hfail
    intro x y h
    have : (step env n .retryTick).2 = (checkPending env n).2 ++
        deletedKeys n.store (checkPending env n).1.store := by
      simp only [step, stepCore]
    rw [this]
    exact sentIn_append_left h
  | submit b => simp at hfail
  | receive b r => simp at hfail
  | peerDown a => simp at hfail
  | cleanTick t => simp at hfail
  | restart => simp at hfail


theorem peer_ext {p q : Peer} (ha : q.addr = p.addr) (he : q.eid = p.eid) : q = p := by
  cases p; cases q; simp_all

theorem flood_core (c : Cfg) (env : Env) (n n1 : Node) (w : WF n) (hc : n.cfg = c)
    (halgo : c.algo = .epidemic) (hmule : c.mule = false)
    (hs : n1.store = n.store) (hcfg : n1.cfg = n.cfg) (hnow : n1.now = n.now)
    (hn : (n1.peers.map (·.addr)).Nodup) (p : Peer) (outs : List Output)
    (hout : ∀ x y, sentIn (checkPending env n1).2 x y = true → sentIn outs x y = true) :
    ((viewOf n).items.findSome? fun i =>
      if isWaiting c n.now i
         && n1.peers.any (fun q => q.addr == p.addr && q.eid == p.eid)
         && !i.sentE.contains p.eid
         && !n1.peers.any (fun q => q.eid.sameNode i.bundle.dst)
         && !n1.peers.any (fun q => q.eid == p.eid && q.addr != p.addr)
         && !sentIn outs p.addr i.bundle.tag
      then some "flood-missing" else none) = none := by
  apply List.findSome?_eq_none_iff.mpr
  intro i hi
  rcases mem_viewOf w hi with ⟨k, it, hg, rfl⟩
  split
  · rename_i hcond
    exfalso
    simp only [Bool.and_eq_true, Bool.not_eq_true'] at hcond
    obtain ⟨⟨⟨⟨⟨hw, hpin⟩, hsent⟩, hnd⟩, huniq⟩, hnot⟩ := hcond
    rcases List.any_eq_true.mp hpin with ⟨q, hq, hqp⟩
    simp only [Bool.and_eq_true, beq_iff_eq] at hqp
    have hqe : q = p := peer_ext hqp.1 hqp.2
    subst hqe
    have w1 : WF n1 := ⟨by rw [hs]; exact w.keyed, by rw [hs]; exact w.nodup⟩
    have hnd' : ∀ x ∈ n1.peers, x.eid.sameNode it.bundle.dst = false := by
      intro x hx
      cases hsn : x.eid.sameNode it.bundle.dst
      · rfl
      · have : n1.peers.any (fun q => q.eid.sameNode (itemView (k, it)).bundle.dst) = true :=
          List.any_eq_true.mpr ⟨x, hx, by simpa [itemView] using hsn⟩
        rw [this] at hnd; cases hnd
    have hu : ∀ x ∈ n1.peers, x.eid = q.eid → x = q := by
      intro x hx hxe
      have hxa : x.addr = q.addr := by
        apply Classical.byContradiction
        intro hne
        have : n1.peers.any (fun y => y.eid == q.eid && y.addr != q.addr) = true :=
          List.any_eq_true.mpr ⟨x, hx, by simp [hxe, hne]⟩
        rw [this] at huniq; cases huniq
      exact peer_ext hxa hxe
    have := checkPending_flood env n1 w1 hn k it (by rw [hs]; exact hg) c (hcfg.trans hc) halgo hmule
      (by rw [hnow]; exact hw) q hq hnd' (by simpa [itemView] using hsent) hu
    have := hout _ _ this
    simp only [itemView] at hnot
    rw [this] at hnot
    cases hnot
  · rfl

/-- `EpidemicFlood` on the model's own step. -/
theorem flood_step (c : Cfg) (env : Env) (e : Event) (s : SpecSt) (n : Node)
    (inv : VInv c s n) :
    floodFail c s (obsOf (e, (step env n e).2, (step env n e).1)) = none := by
  unfold floodFail
  simp only [obsOf]
  by_cases hcond : (c.algo == .epidemic && !c.mule) = true
  · simp only [hcond, if_true]
    simp only [Bool.and_eq_true, beq_iff_eq, Bool.not_eq_true'] at hcond
    cases e with
    | peerUp p =>
      simp only [peersAfter, nowAfter, inv.peers, inv.prev, inv.now]
      by_cases hany : n.peers.any (fun q => q.addr == p.addr) = true
      · simp only [hany, if_true]
        refine flood_core c env n n inv.wf inv.cfg hcond.1 hcond.2 rfl rfl rfl inv.pnodup p _ ?_
        intro x y h
        have : (step env n (.peerUp p)).2 = (checkPending env n).2 ++
            deletedKeys n.store (checkPending env n).1.store := by
          simp only [step, stepCore, hany, if_true]
        rw [this]
        exact sentIn_append_left h
      · simp only [hany, Bool.false_eq_true, if_false]
        have hpn : (({ n with peers := n.peers ++ [p] } : Node).peers.map (·.addr)).Nodup := by
          simp only [List.map_append, List.map_cons, List.map_nil]
          refine List.nodup_append.mpr ⟨inv.pnodup, by simp, ?_⟩
          intro a ha b hb
          simp at hb
          subst hb
          intro hab
          subst hab
          rcases List.mem_map.mp ha with ⟨q, hq, hqa⟩
          apply hany
          apply List.any_eq_true.mpr
          exact ⟨q, hq, by simp [hqa]⟩
        refine flood_core c env n { n with peers := n.peers ++ [p] } inv.wf inv.cfg hcond.1 hcond.2 rfl rfl rfl
          hpn p _ ?_
        intro x y h
        have : (step env n (.peerUp p)).2 = (checkPending env { n with peers := n.peers ++ [p] }).2 ++
            deletedKeys n.store (checkPending env { n with peers := n.peers ++ [p] }).1.store := by
          simp only [step, stepCore, hany, Bool.false_eq_true, if_false]
        rw [this]
        exact sentIn_append_left h
    | retryTick => rfl
    | submit b => rfl
    | receive b r => rfl
    | peerDown a => rfl
    | cleanTick t => rfl
    | restart => rfl
  · simp only [hcond, Bool.false_eq_true, if_false]

/-- `survives_restart` (store part) on the model's own step. -/
theorem restart_step (c : Cfg) (env : Env) (e : Event) (s : SpecSt) (n : Node)
    (inv : VInv c s n) :
    restartFail s (obsOf (e, (step env n e).2, (step env n e).1)) = none := by
  unfold restartFail
  simp only [obsOf]
  cases e with
  | restart =>
    have : viewOf (step env n .restart).1 = { items := (viewOf n).items, spray := [] } := by
      simp [step, stepCore, viewOf]
    simp only [this, inv.prev, beq_self_eq_true, Bool.true_and]
    have : (viewOf n).items.all (fun i => (viewOf n).items.contains i) = true := by
      apply List.all_eq_true.mpr
      intro i hi
      simpa using hi
    simp [this]
  | _ => rfl

end Dtn7.Node
