/-
The update formulas on the binary64 ROUNDING model satisfy the `Laws`: every operation is
`rne ∘ exact`, and the proof uses only the facts about `rne` from `Lemmas/F64.lean`.
-/
import Dtn7.Lemmas.Prophet
import Dtn7.Lemmas.F64

namespace Dtn7.Lemmas.Prophet
open Dtn7.Prophet Dtn7.F64 Dtn7.Lemmas.F64

/-- "is a binary64 value in [0, 1]" (values are integers in units of 2^-1074). -/
def ProbF (v : Int) : Prop := ∃ n : Nat, v = (n : Int) ∧ n ≤ oneN ∧ IsF64 n

theorem probF_iff (v : Int) : ProbF v ↔ 0 ≤ v ∧ v ≤ F64.one ∧ IsF64 v.toNat := by
  rw [one_eq]
  constructor
  · rintro ⟨n, rfl, h1, h2⟩
    exact ⟨by omega, by omega, by simpa using h2⟩
  · rintro ⟨h0, h1, h2⟩
    exact ⟨v.toNat, by omega, by omega, h2⟩

theorem probF_zero : ProbF 0 := ⟨0, rfl, Nat.zero_le _, isF64_zero⟩
theorem probF_one : ProbF F64.one := ⟨oneN, one_eq, Nat.le_refl _, isF64_pow 1074⟩

theorem fsub_one (p : Nat) (hp : p ≤ oneN) :
    F64.fsub F64.one (p : Int) = ((rneNat 0 (oneN - p) : Nat) : Int) := by
  unfold F64.fsub
  rw [one_eq, ← Int.ofNat_sub hp, rne_ofNat]

theorem fmul_nat (a b : Nat) : F64.fmul (a : Int) (b : Int) = ((rneNat 1074 (a * b) : Nat) : Int) := by
  unfold F64.fmul
  rw [← Int.natCast_mul, rne_ofNat]

theorem fadd_nat (a b : Nat) : F64.fadd (a : Int) (b : Int) = ((rneNat 0 (a + b) : Nat) : Int) := by
  unfold F64.fadd
  rw [← Int.natCast_add, rne_ofNat]

theorem f64Laws : Laws f64Ops (· ≤ ·) ProbF where
  le_refl := fun a => Int.le_refl a
  le_trans := fun _ _ _ h1 h2 => Int.le_trans h1 h2
  dom_zero := probF_zero
  enc := by
    rintro c p ⟨cn, rfl, hc1, _⟩ ⟨pn, rfl, hp1, hpF⟩
    simp only [encounterVal, f64Ops]
    rw [fsub_one pn hp1, fmul_nat, fadd_nat]
    have ht := mul_le_left (rneNat 0 (oneN - pn)) cn (rneNat_isF64 _ _) hc1
    exact ⟨⟨_, rfl, add_one_sub_le_one pn _ hp1 ht, rneNat_isF64 _ _⟩,
      Int.ofNat_le.2 (add_ge_left pn _ hpF)⟩
  age := by
    rintro g p ⟨gn, rfl, hg1, _⟩ ⟨pn, rfl, hp1, hpF⟩
    simp only [ageVal, f64Ops]
    rw [fmul_nat]
    have ht := mul_le_left pn gn hpF hg1
    exact ⟨⟨_, rfl, Nat.le_trans ht hp1, rneNat_isF64 _ _⟩, Int.ofNat_le.2 ht⟩
  trans := by
    rintro b p a c ⟨bn, rfl, hb1, _⟩ ⟨pn, rfl, hp1, hpF⟩ ⟨an, rfl, ha1, _⟩ ⟨cn, rfl, hc1, _⟩
    simp only [transVal, f64Ops]
    rw [fsub_one pn hp1, fmul_nat, fmul_nat, fmul_nat, fadd_nat]
    have h1 := mul_le_left (rneNat 0 (oneN - pn)) an (rneNat_isF64 _ _) ha1
    have h2 := mul_le_left _ cn (rneNat_isF64 1074 (rneNat 0 (oneN - pn) * an)) hc1
    have h3 := mul_le_left _ bn
      (rneNat_isF64 1074 (rneNat 1074 (rneNat 0 (oneN - pn) * an) * cn)) hb1
    have ht := Nat.le_trans h3 (Nat.le_trans h2 h1)
    exact ⟨⟨_, rfl, add_one_sub_le_one pn _ hp1 ht, rneNat_isF64 _ _⟩,
      Int.ofNat_le.2 (add_ge_left pn _ hpF)⟩

end Dtn7.Lemmas.Prophet
