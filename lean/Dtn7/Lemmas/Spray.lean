import Dtn7.Model.Spray

/-!
Helper lemmas for C18 (spray-and-wait copy budget). Core only.
-/
namespace Dtn7.Spray.Lemmas
open Dtn7.Spray

/-! ### Lists -/

theorem sublist_erase_of_not_mem {l s : List Peer} {p : Peer} (h : l.Sublist s) (hp : p ∉ l) :
    l.Sublist (s.erase p) := by
  induction h with
  | slnil => simp
  | @cons l s a h ih =>
    by_cases hap : a = p
    · subst hap; simpa using h
    · rw [List.erase_cons_tail (by simpa using hap)]
      exact (ih hp).cons a
  | @cons_cons l s a h ih =>
    have hap : a ≠ p := fun e => hp (by simp [e])
    rw [List.erase_cons_tail (by simpa using hap)]
    exact (ih (fun hm => hp (List.mem_cons_of_mem _ hm))).cons_cons a

theorem length_erase_add_one {s : List Peer} {p : Peer} (h : p ∈ s) :
    (s.erase p).length + 1 = s.length := by
  have := List.length_erase_of_mem h
  have hpos : 0 < s.length := List.length_pos_of_mem h
  omega

/-! ### giveBack -/

/-- The defaults: the code after the three repairs. -/
abbrev fixed : Params := {}

theorem giveBack_spray_mem {m : Meta} {p : Peer} {g : Nat} (h : p ∈ m.sent) :
    giveBack fixed .spray m p g = ⟨m.sent.erase p, m.remaining + g⟩ := by
  simp [giveBack, h]

theorem giveBack_binary_mem {m : Meta} {p : Peer} {g : Nat} (h : p ∈ m.sent) :
    giveBack fixed .binary m p g = ⟨m.sent.erase p, m.remaining + g⟩ := by
  simp [giveBack, h]

theorem giveBack_not_mem {a : Algo} {m : Meta} {p : Peer} {g : Nat} (h : p ∉ m.sent) :
    giveBack fixed a m p g = m := by
  simp [giveBack, h]

theorem giveBack_fixed (a : Algo) (m : Meta) (p : Peer) (g : Nat) :
    giveBack fixed a m p g = if p ∈ m.sent then ⟨m.sent.erase p, m.remaining + g⟩ else m := by
  cases a <;> simp [giveBack]

/-- Spray-and-wait: a failure report moves one unit from `sent` to `remaining`. -/
theorem giveBack_conserves (a : Algo) (m : Meta) (p : Peer) :
    (giveBack fixed a m p 1).remaining + (giveBack fixed a m p 1).sent.length
      = m.remaining + m.sent.length := by
  rw [giveBack_fixed]
  split
  · next h => have := length_erase_add_one h; simp only; omega
  · rfl

theorem giveBack_remaining_ge (a : Algo) (m : Meta) (p : Peer) (g : Nat) :
    m.remaining ≤ (giveBack fixed a m p g).remaining := by
  rw [giveBack_fixed]; split <;> simp

theorem giveBack_sublist (a : Algo) (m : Meta) (p : Peer) (g : Nat) {l : List Peer}
    (h : l.Sublist m.sent) (hp : p ∉ l) : l.Sublist (giveBack fixed a m p g).sent := by
  rw [giveBack_fixed]; split
  · exact sublist_erase_of_not_mem h hp
  · exact h

theorem giveBack_sent_subset (a : Algo) (m : Meta) (p : Peer) (g : Nat) :
    ∀ x ∈ (giveBack fixed a m p g).sent, x ∈ m.sent := by
  rw [giveBack_fixed]; split
  · intro x hx; exact List.mem_of_mem_erase hx
  · intro x hx; exact hx

/-! ### giveBackAll (sequential reference) -/

theorem giveBackAll_none (P : Params) (a : Algo) (fs : List (Peer × Nat)) :
    giveBackAll P a none fs = none := by
  induction fs with
  | nil => rfl
  | cons f fs ih => simpa [giveBackAll, List.foldl_cons] using ih

theorem giveBackAll_cons (P : Params) (a : Algo) (md : Option Meta) (f : Peer × Nat)
    (fs : List (Peer × Nat)) :
    giveBackAll P a md (f :: fs) = giveBackAll P a (md.map (fun m => giveBack P a m f.1 f.2)) fs := rfl

theorem giveBackAll_append (P : Params) (a : Algo) (md : Option Meta) (fs gs : List (Peer × Nat)) :
    giveBackAll P a md (fs ++ gs) = giveBackAll P a (giveBackAll P a md fs) gs := by
  simp [giveBackAll, List.foldl_append]

theorem giveBackAll_some (P : Params) (a : Algo) (m : Meta) (fs : List (Peer × Nat)) :
    ∃ m', giveBackAll P a (some m) fs = some m' := by
  induction fs generalizing m with
  | nil => exact ⟨m, rfl⟩
  | cons f fs ih => rw [giveBackAll_cons]; exact ih _

theorem applyAll_none (P : Params) (a : Algo) (acts : List Action) :
    applyAll P a none acts = none := by
  induction acts with
  | nil => rfl
  | cons f fs ih => simpa [applyAll, List.foldl_cons] using ih

theorem applyAll_cons (P : Params) (a : Algo) (md : Option Meta) (act : Action) (acts : List Action) :
    applyAll P a md (act :: acts) = applyAll P a (md.map (fun m => act.apply P a m)) acts := rfl

theorem applyAll_append (P : Params) (a : Algo) (md : Option Meta) (fs gs : List Action) :
    applyAll P a md (fs ++ gs) = applyAll P a (applyAll P a md fs) gs := by
  simp [applyAll, List.foldl_append]

theorem applyAll_some (P : Params) (a : Algo) (m : Meta) (acts : List Action) :
    ∃ m', applyAll P a (some m) acts = some m' := by
  induction acts generalizing m with
  | nil => exact ⟨m, rfl⟩
  | cons f fs ih => rw [applyAll_cons]; exact ih _

/-- An invariant of `giveBack` steps is an invariant of any sequence of reports. -/
theorem giveBackAll_induct (a : Algo) (Q : Meta → Prop) (fs : List (Peer × Nat))
    (R : Peer × Nat → Prop) (hR : ∀ f ∈ fs, R f)
    (hstep : ∀ m f, Q m → R f → Q (giveBack fixed a m f.1 f.2))
    (m : Meta) (hm : Q m) : ∃ m', giveBackAll fixed a (some m) fs = some m' ∧ Q m' := by
  induction fs generalizing m with
  | nil => exact ⟨m, rfl, hm⟩
  | cons f fs ih =>
    rw [giveBackAll_cons]
    exact ih (fun g hg => hR g (List.mem_cons_of_mem _ hg)) _
      (hstep m f hm (hR f (List.mem_cons_self ..)))

/-- Sequential reports for distinct peers that are all in `sent`: every one gives its copies back. -/
theorem giveBackAll_exact (a : Algo) (fs : List (Peer × Nat)) (m : Meta)
    (hnd : (fs.map (·.1)).Nodup) (hin : ∀ f ∈ fs, f.1 ∈ m.sent) :
    ∃ m', giveBackAll fixed a (some m) fs = some m' ∧
      m'.remaining = m.remaining + (fs.map (·.2)).sum ∧
      m'.sent.length + fs.length = m.sent.length ∧
      (∀ x, x ∈ m.sent → x ∉ fs.map (·.1) → x ∈ m'.sent) ∧
      (∀ x ∈ fs.map (·.1), x ∈ m.sent → m.sent.Nodup → x ∉ m'.sent) ∧
      m'.sent.Sublist m.sent := by
  induction fs generalizing m with
  | nil => exact ⟨m, rfl, by simp, by simp, by simp, by simp, List.Sublist.refl _⟩
  | cons f fs ih =>
    rw [giveBackAll_cons]
    have hf : f.1 ∈ m.sent := hin f (List.mem_cons_self ..)
    simp only [List.map_cons, List.nodup_cons] at hnd
    have hstep : giveBack fixed a m f.1 f.2 = ⟨m.sent.erase f.1, m.remaining + f.2⟩ := by
      rw [giveBack_fixed]; simp [hf]
    simp only [Option.map_some, hstep]
    have hin' : ∀ g ∈ fs, g.1 ∈ (⟨m.sent.erase f.1, m.remaining + f.2⟩ : Meta).sent := by
      intro g hg
      have hne : g.1 ≠ f.1 := fun e => hnd.1 (e ▸ List.mem_map_of_mem hg)
      exact (List.mem_erase_of_ne hne).mpr (hin g (List.mem_cons_of_mem _ hg))
    obtain ⟨m', h1, h2, h3, h4, h4', h5⟩ := ih _ hnd.2 hin'
    refine ⟨m', h1, ?_, ?_, ?_, ?_, ?_⟩
    · simp only [List.map_cons, List.sum_cons]; simp only at h2; omega
    · have := length_erase_add_one hf; simp only [List.length_cons]; simp only at h3; omega
    · intro x hx hn
      have hxf : x ≠ f.1 := fun e => hn (by simp [e])
      have hxfs : x ∉ fs.map (·.1) := fun hm => hn (by simp only [List.map_cons]; exact List.mem_cons_of_mem _ hm)
      exact h4 x ((List.mem_erase_of_ne hxf).mpr hx) hxfs
    · intro x hx hxs hnds hxm
      simp only [List.map_cons, List.mem_cons] at hx
      rcases hx with hx | hx
      · subst hx
        have : f.1 ∈ m.sent.erase f.1 := h5.subset hxm
        exact (List.Nodup.mem_erase_iff hnds).mp this |>.1 rfl
      · have hxf : x ≠ f.1 := fun e => hnd.1 (e ▸ hx)
        exact h4' x hx ((List.mem_erase_of_ne hxf).mpr hxs) (hnds.erase _) hxm
    · exact h5.trans (List.erase_sublist ..)

/-! ### SprayAndWait.SenderForBundle -/

theorem sprayPick_spec (cs : List Peer) (m : Meta) :
    (sprayPick cs m).2.sent = m.sent ++ (sprayPick cs m).1 ∧
    (sprayPick cs m).2.remaining + (sprayPick cs m).1.length = m.remaining ∧
    (1 ≤ m.remaining → 1 ≤ (sprayPick cs m).2.remaining) ∧
    (sprayPick cs m).1.Nodup ∧
    (∀ p ∈ (sprayPick cs m).1, p ∉ m.sent ∧ p ∈ cs) := by
  induction cs generalizing m with
  | nil => simp [sprayPick]
  | cons c cs ih =>
    unfold sprayPick
    split
    · simp
    · next h2 =>
      split
      · next hc =>
        obtain ⟨h1, h2', h3, h4, h5⟩ := ih m
        exact ⟨h1, h2', h3, h4, fun p hp => ⟨(h5 p hp).1, List.mem_cons_of_mem _ (h5 p hp).2⟩⟩
      · next hc =>
        obtain ⟨h1, h2', h3, h4, h5⟩ := ih ⟨m.sent ++ [c], m.remaining - 1⟩
        simp only at h1 h2' h3 h5 ⊢
        refine ⟨by rw [h1]; simp, by simp only [List.length_cons]; omega, fun _ => h3 (by omega), ?_, ?_⟩
        · refine List.nodup_cons.mpr ⟨fun hm => ?_, h4⟩
          exact (h5 c hm).1 (by simp)
        · intro p hp
          simp only [List.mem_cons] at hp
          rcases hp with hp | hp
          · subst hp; exact ⟨hc, List.mem_cons_self ..⟩
          · have := h5 p hp
            exact ⟨fun hm => this.1 (List.mem_append_left _ hm), List.mem_cons_of_mem _ this.2⟩

/-! ### The interleaving semantics of concurrent `ReportFailure` calls -/

theorem map_set_same {α β} (f : α → β) (ts : List α) (i : Nat) (t' : α)
    (h : ∀ t, ts[i]? = some t → f t' = f t) : (ts.set i t').map f = ts.map f := by
  induction ts generalizing i with
  | nil => rfl
  | cons x xs ih =>
    cases i with
    | zero => simp [h x (by simp)]
    | succ i => simp only [List.set_cons_succ, List.map_cons]; rw [ih i (fun t ht => h t (by simpa using ht))]

theorem filter_map_set_same {α β} (p : α → Bool) (f : α → β) (ts : List α) (i : Nat) (t' : α)
    (h : ∀ t, ts[i]? = some t → f t' = f t ∧ p t' = p t) :
    ((ts.set i t').filter p).map f = (ts.filter p).map f := by
  induction ts generalizing i with
  | nil => rfl
  | cons x xs ih =>
    cases i with
    | zero =>
      obtain ⟨h1, h2⟩ := h x (by simp)
      simp only [List.set_cons_zero, List.filter_cons, h2]
      split <;> simp [h1]
    | succ i =>
      simp only [List.set_cons_succ, List.filter_cons]
      have := ih i (fun t ht => h t (by simpa using ht))
      split <;> simp [this]

theorem filter_map_set_new {α β} (p : α → Bool) (f : α → β) (ts : List α) (i : Nat) (t t' : α)
    (hi : ts[i]? = some t) (hp : p t = false) (hp' : p t' = true) :
    (((ts.set i t').filter p).map f).Perm (f t' :: (ts.filter p).map f) := by
  induction ts generalizing i with
  | nil => simp at hi
  | cons x xs ih =>
    cases i with
    | zero =>
      simp only [List.getElem?_cons_zero, Option.some.injEq] at hi
      subst hi
      simp [hp, hp']
    | succ i =>
      simp only [List.getElem?_cons_succ] at hi
      simp only [List.set_cons_succ, List.filter_cons]
      split
      · simp only [List.map_cons]
        exact ((ih i hi).cons (f x)).trans (List.Perm.swap ..)
      · exact ih i hi

theorem chained_append {P : Params} {a : Algo} {md0 : Option Meta} {l : List (Action × Meta)}
    {act : Action} {m : Meta} :
    Chained P a md0 (l ++ [(act, m)]) ↔
      Chained P a md0 l ∧ applyAll P a md0 (l.map (·.1)) = some m := by
  induction l generalizing md0 with
  | nil => simp [Chained, applyAll]
  | cons x xs ih =>
    obtain ⟨b, n⟩ := x
    simp only [List.cons_append, Chained, List.map_cons, applyAll_cons]
    constructor
    · rintro ⟨h1, h2⟩
      have := ih.mp h2
      exact ⟨⟨h1, this.1⟩, by rw [h1]; exact this.2⟩
    · rintro ⟨⟨h1, h2⟩, h3⟩
      refine ⟨h1, ih.mpr ⟨h2, ?_⟩⟩
      rw [h1] at h3; exact h3

/-- `ReportFailure` of the repaired code: the whole read-modify-write under the write lock. -/
abbrev AP : List Op := [.lock, .read, .write, .unlock]

theorem rfProgram_fixed : rfProgram fixed.atomicRF = AP := rfl

def key (t : Thread) : Action := t.act

/-- Invariant of every reachable state of the atomic program. -/
structure SInv (a : Algo) (md0 : Option Meta) (fs : List Action) (st : SState) : Prop where
  keys : st.2.map key = fs
  readers : st.1.readers = 0
  holder : ∀ (i : Nat) (t : Thread), st.2[i]? = some t → ((1 ≤ t.pc ∧ t.pc ≤ 3) ↔ st.1.writer = some i)
  loc : ∀ (i : Nat) (t : Thread), st.2[i]? = some t → t.pc = 2 → t.loc = st.1.md
  lin : st.1.md = applyAll fixed a md0 (st.1.order.map (·.1))
  chain : Chained fixed a md0 st.1.order
  sub : ∀ k ∈ st.1.order.map (·.1), k ∈ fs
  perm : md0.isSome → (st.1.order.map (·.1)).Perm ((st.2.filter (fun t => decide (3 ≤ t.pc))).map key)

theorem sinv_init (a : Algo) (md0 : Option Meta) (fs : List Action) :
    SInv a md0 fs ({ md := md0 }, initThreads fs) := by
  refine ⟨?_, rfl, ?_, ?_, rfl, trivial, by simp, ?_⟩
  · simp [initThreads, key, Function.comp_def]
  · intro i t ht
    simp only [initThreads, List.getElem?_map, Option.map_eq_some_iff] at ht
    obtain ⟨f, _, rfl⟩ := ht
    simp
  · intro i t ht h2
    simp only [initThreads, List.getElem?_map, Option.map_eq_some_iff] at ht
    obtain ⟨f, _, rfl⟩ := ht
    simp at h2
  · intro _
    have : (initThreads fs).filter (fun t => decide (3 ≤ t.pc)) = [] := by
      apply List.filter_eq_nil_iff.mpr
      intro t ht
      simp only [initThreads, List.mem_map] at ht
      obtain ⟨f, _, rfl⟩ := ht
      simp
    simp [this]

theorem getElem?_set_eq' {α} (ts : List α) (i j : Nat) (t' t : α) (hi : ts[i]? = some t) :
    (ts.set i t')[j]? = if i = j then some t' else ts[j]? := by
  have hlt : i < ts.length := by
    rcases Nat.lt_or_ge i ts.length with h | h
    · exact h
    · rw [List.getElem?_eq_none h] at hi; cases hi
  rw [List.getElem?_set]
  split
  · simp
  · rfl

theorem stepThread_inv (a : Algo) (md0 : Option Meta) (fs : List Action) (st : SState)
    (h : SInv a md0 fs st) (i : Nat) : SInv a md0 fs (stepThread fixed a AP st i) := by
  unfold stepThread
  split
  · exact h
  · next t hti =>
    have hset : ∀ t' j, (st.2.set i t')[j]? = if i = j then some t' else st.2[j]? :=
      fun t' j => getElem?_set_eq' st.2 i j t' t hti
    have hkey : ∀ t' : Thread, key t' = key t → (st.2.set i t').map key = fs := by
      intro t' hk
      rw [map_set_same key st.2 i t' (fun u hu => by rw [hti] at hu; cases hu; exact hk)]
      exact h.keys
    -- the program counter selects the micro-step
    by_cases hpc4 : 4 ≤ t.pc
    · have : AP[t.pc]? = none := by
        apply List.getElem?_eq_none; simpa using hpc4
      simp only [this]; exact h
    have hpcs : t.pc = 0 ∨ t.pc = 1 ∨ t.pc = 2 ∨ t.pc = 3 := by omega
    rcases hpcs with h0 | h1 | h2 | h3
    · -- lock
      have hop : AP[t.pc]? = some .lock := by rw [h0]; rfl
      simp only [hop]
      by_cases hen : (st.1.writer.isNone && st.1.readers == 0) = true
      · have hexec : exec fixed a i .lock st.1 t = some ({ st.1 with writer := some i }, t) := by
          simp [exec, hen]
        simp only [hexec]
        simp only [Bool.and_eq_true, Option.isNone_iff_eq_none, beq_iff_eq] at hen
        refine ⟨hkey _ rfl, h.readers, ?_, ?_, h.lin, h.chain, h.sub, ?_⟩
        · intro j u hu
          rw [hset] at hu
          split at hu
          · next hij => cases hu; subst hij; simp [h0]
          · next hij =>
            have := h.holder j u hu
            simp only [hen.1] at this
            simp only
            constructor
            · intro hh; exact absurd (this.mp hh) (by simp)
            · intro hh; simp only [Option.some.injEq] at hh; exact absurd hh hij
        · intro j u hu hp2
          rw [hset] at hu
          split at hu
          · cases hu; simp [h0] at hp2
          · exact h.loc j u hu hp2
        · intro hs
          rw [filter_map_set_same _ key st.2 i _ (fun u hu => by
            rw [hti] at hu; cases hu; simp [key, h0])]
          exact h.perm hs
      · have hexec : exec fixed a i .lock st.1 t = none := by simp [exec, hen]
        simp only [hexec]; exact h
    · -- read
      have hop : AP[t.pc]? = some .read := by rw [h1]; rfl
      simp only [hop, exec]
      have hw : st.1.writer = some i := (h.holder i t hti).mp (by omega)
      refine ⟨hkey _ rfl, h.readers, ?_, ?_, h.lin, h.chain, h.sub, ?_⟩
      · intro j u hu
        rw [hset] at hu
        split at hu
        · next hij => cases hu; subst hij; simp [hw, h1]
        · exact h.holder j u hu
      · intro j u hu hp2
        rw [hset] at hu
        split at hu
        · cases hu; rfl
        · exact h.loc j u hu hp2
      · intro hs
        rw [filter_map_set_same _ key st.2 i _ (fun u hu => by
          rw [hti] at hu; cases hu; simp [key, h1])]
        exact h.perm hs
    · -- write
      have hop : AP[t.pc]? = some .write := by rw [h2]; rfl
      simp only [hop, exec]
      have hw : st.1.writer = some i := (h.holder i t hti).mp (by omega)
      have hloc : t.loc = st.1.md := h.loc i t hti h2
      have hothers : ∀ j u, i ≠ j → st.2[j]? = some u → u.pc ≠ 2 := by
        intro j u hij hu hp
        have := (h.holder j u hu).mp (by omega)
        rw [hw] at this; simp only [Option.some.injEq] at this; exact hij this
      cases hmd : t.loc with
      | none =>
        simp only
        refine ⟨hkey _ rfl, h.readers, ?_, ?_, h.lin, h.chain, h.sub, ?_⟩
        · intro j u hu
          rw [hset] at hu
          split at hu
          · next hij => cases hu; subst hij; simp [hw, h2]
          · exact h.holder j u hu
        · intro j u hu hp2
          rw [hset] at hu
          split at hu
          · cases hu; simp [h2] at hp2
          · exact h.loc j u hu hp2
        · intro hs
          -- impossible: the metadata exists initially, so it exists now
          obtain ⟨m0, hm0⟩ := Option.isSome_iff_exists.mp hs
          obtain ⟨m', hm'⟩ := applyAll_some fixed a m0 (st.1.order.map (·.1))
          have := h.lin
          rw [hm0, hm', ← hloc, hmd] at this
          cases this
      | some m =>
        simp only
        refine ⟨hkey _ rfl, h.readers, ?_, ?_, ?_, ?_, ?_, ?_⟩
        · intro j u hu
          rw [hset] at hu
          split at hu
          · next hij => cases hu; subst hij; simp [hw, h2]
          · exact h.holder j u hu
        · intro j u hu hp2
          rw [hset] at hu
          split at hu
          · cases hu; simp [h2] at hp2
          · next hij => exact absurd hp2 (hothers j u hij hu)
        · simp only [List.map_append, List.map_cons, List.map_nil]
          rw [applyAll_append, ← h.lin, ← hloc, hmd]
          rfl
        · simp only
          refine chained_append.mpr ⟨h.chain, ?_⟩
          rw [← h.lin, ← hloc, hmd]
        · intro k hk
          simp only [List.map_append, List.map_cons, List.map_nil, List.mem_append, List.mem_singleton] at hk
          rcases hk with hk | hk
          · exact h.sub k hk
          · subst hk
            have : key t ∈ st.2.map key := List.mem_map_of_mem (List.mem_of_getElem? hti)
            rw [h.keys] at this; exact this
        · intro hs
          have hp := filter_map_set_new (fun t => decide (3 ≤ t.pc)) key st.2 i t
            { t with pc := t.pc + 1 } hti (by simp [h2]) (by simp [h2])
          simp only [List.map_append, List.map_cons, List.map_nil]
          refine (List.perm_append_comm.trans ?_).trans hp.symm
          simp only [List.singleton_append]
          exact (h.perm hs).cons _
    · -- unlock
      have hop : AP[t.pc]? = some .unlock := by rw [h3]; rfl
      simp only [hop, exec]
      have hw : st.1.writer = some i := (h.holder i t hti).mp (by omega)
      refine ⟨hkey _ rfl, h.readers, ?_, ?_, h.lin, h.chain, h.sub, ?_⟩
      · intro j u hu
        rw [hset] at hu
        split at hu
        · next hij => cases hu; subst hij; simp [h3]
        · next hij =>
          have := h.holder j u hu
          rw [hw] at this
          simp only
          constructor
          · intro hh; have := this.mp hh; simp only [Option.some.injEq] at this; exact absurd this hij
          · intro hh; cases hh
      · intro j u hu hp2
        rw [hset] at hu
        split at hu
        · cases hu; simp [h3] at hp2
        · exact h.loc j u hu hp2
      · intro hs
        rw [filter_map_set_same _ key st.2 i _ (fun u hu => by
          rw [hti] at hu; cases hu; simp [key, h3])]
        exact h.perm hs

theorem runSched_inv (a : Algo) (md0 : Option Meta) (fs : List Action) (σ : List Nat)
    (st : SState) (h : SInv a md0 fs st) : SInv a md0 fs (runSched fixed a AP st σ) := by
  induction σ generalizing st with
  | nil => exact h
  | cons i σ ih => exact ih _ (stepThread_inv a md0 fs st h i)

theorem concurrentUpdates_inv (a : Algo) (md0 : Option Meta) (fs : List Action) (σ : List Nat) :
    SInv a md0 fs (concurrentUpdates fixed a md0 fs σ) :=
  runSched_inv a md0 fs σ _ (sinv_init a md0 fs)

/-- Whatever the schedule of concurrent `SenderForBundle` / `ReportFailure` calls: the metadata
afterwards is the result of applying some of the updates one after the other (linearizability), and
if all goroutines returned, all of them. -/
theorem updates_linearizable (a : Algo) (md0 : Option Meta) (acts : List Action) (σ : List Nat) :
    ∃ order : List (Action × Meta),
      (concurrentUpdates fixed a md0 acts σ).1.md = applyAll fixed a md0 (order.map (·.1)) ∧
      Chained fixed a md0 order ∧
      (∀ k ∈ order.map (·.1), k ∈ acts) ∧
      (allDone AP (concurrentUpdates fixed a md0 acts σ).2 = true → md0.isSome →
        (order.map (·.1)).Perm acts) := by
  have h := concurrentUpdates_inv a md0 acts σ
  refine ⟨_, h.lin, h.chain, h.sub, fun hd hs => ?_⟩
  have hall : (concurrentUpdates fixed a md0 acts σ).2.filter (fun t => decide (3 ≤ t.pc))
      = (concurrentUpdates fixed a md0 acts σ).2 := by
    apply List.filter_eq_self.mpr
    intro t ht
    have := List.all_eq_true.mp hd t ht
    simp only [AP, List.length_cons, List.length_nil, beq_iff_eq] at this
    simp [this]
  have := h.perm hs
  rw [hall, h.keys] at this
  exact this

theorem applyAll_ofReports (P : Params) (a : Algo) (md : Option Meta) (ps : List (Peer × Nat)) :
    applyAll P a md (ps.map Action.ofReport) = giveBackAll P a md ps := by
  simp only [applyAll, giveBackAll, List.foldl_map]
  rfl

theorem report?_ofReport (f : Peer × Nat) : (Action.ofReport f).report? = some f := rfl

theorem ofReport_injective {f g : Peer × Nat} (h : Action.ofReport f = Action.ofReport g) : f = g := by
  have := congrArg Action.report? h
  simpa [report?_ofReport] using this

theorem filterMap_report?_map (ps : List (Peer × Nat)) :
    (ps.map Action.ofReport).filterMap Action.report? = ps := by
  induction ps with
  | nil => rfl
  | cons f fs ih => simp [report?_ofReport, ih]

theorem eq_map_of_all_reports (order : List Action) (fs : List (Peer × Nat))
    (h : ∀ k ∈ order, k ∈ fs.map Action.ofReport) :
    order = (order.filterMap Action.report?).map Action.ofReport := by
  induction order with
  | nil => rfl
  | cons k ks ih =>
    obtain ⟨f, _, rfl⟩ := List.mem_map.mp (h k (List.mem_cons_self ..))
    simp only [List.filterMap_cons, report?_ofReport, List.map_cons]
    congr 1
    exact ih (fun k hk => h k (List.mem_cons_of_mem _ hk))

/-- Whatever the schedule: the metadata after the failure reports is the result of applying some of
the reports one after the other (linearizability), and if all goroutines returned, all of them. -/
theorem reportFailures_linearizable (a : Algo) (md0 : Option Meta) (fs : List (Peer × Nat))
    (σ : List Nat) :
    ∃ order : List (Peer × Nat),
      (reportFailures fixed a md0 fs σ).1.md = giveBackAll fixed a md0 order ∧
      (∀ k ∈ order, k ∈ fs) ∧
      (allDone AP (reportFailures fixed a md0 fs σ).2 = true → md0.isSome → order.Perm fs) := by
  obtain ⟨order', h1, _, h2, h3⟩ := updates_linearizable a md0 (fs.map Action.ofReport) σ
  generalize order'.map (·.1) = order at h1 h2 h3
  have heq := eq_map_of_all_reports order fs h2
  refine ⟨order.filterMap Action.report?, ?_, ?_, ?_⟩
  · show (concurrentUpdates fixed a md0 (fs.map Action.ofReport) σ).1.md = _
    rw [h1, ← applyAll_ofReports, ← heq]
  · intro k hk
    have : Action.ofReport k ∈ order := by rw [heq]; exact List.mem_map_of_mem hk
    obtain ⟨g, hg, hgk⟩ := List.mem_map.mp (h2 _ this)
    rw [← ofReport_injective hgk]; exact hg
  · intro hd hs
    have := (h3 hd hs).filterMap Action.report?
    rw [filterMap_report?_map] at this
    exact this

/-! ### Overlapping forward() runs: conservation under any interleaving of picks and give-backs -/

/-- The updates spray-and-wait performs: `SenderForBundle` with any sender list, `ReportFailure`
(one copy) for any peer. -/
def SprayAction : Action → Prop
  | .giveBack _ g => g = 1
  | .pick _ => True

theorem apply_spray_conserves (m : Meta) (act : Action) (h : SprayAction act) :
    (act.apply fixed .spray m).remaining + (act.apply fixed .spray m).sent.length
      = m.remaining + m.sent.length ∧
    (1 ≤ m.remaining → 1 ≤ (act.apply fixed .spray m).remaining) := by
  cases act with
  | giveBack p g =>
    simp only [SprayAction] at h
    subst h
    exact ⟨giveBack_conserves .spray m p, fun h1 => Nat.le_trans h1 (giveBack_remaining_ge .spray m p 1)⟩
  | pick cs =>
    simp only [Action.apply, pickMeta]
    split
    · exact ⟨rfl, id⟩
    · obtain ⟨p1, p2, p3, _, _⟩ := sprayPick_spec cs m
      refine ⟨?_, p3⟩
      rw [p1, List.length_append]; omega

theorem applyAll_spray_conserves (acts : List Action) (h : ∀ k ∈ acts, SprayAction k) (m : Meta) :
    ∃ m', applyAll fixed .spray (some m) acts = some m' ∧
      m'.remaining + m'.sent.length = m.remaining + m.sent.length ∧
      (1 ≤ m.remaining → 1 ≤ m'.remaining) := by
  induction acts generalizing m with
  | nil => exact ⟨m, rfl, rfl, id⟩
  | cons k ks ih =>
    rw [applyAll_cons]
    obtain ⟨c1, c2⟩ := apply_spray_conserves m k (h k (List.mem_cons_self ..))
    obtain ⟨m', e1, e2, e3⟩ := ih (fun x hx => h x (List.mem_cons_of_mem _ hx)) (k.apply fixed .spray m)
    exact ⟨m', e1, by rw [e2, c1], fun h1 => e3 (c2 h1)⟩

/-- Any number of concurrent `SenderForBundle` and `ReportFailure` calls for one bundle, any
schedule, finished or not: copies kept + peers recorded in `sent` stays what it was, and the last
copy is never given away. -/
theorem spray_concurrent_conserves (acts : List Action) (h : ∀ k ∈ acts, SprayAction k) (m : Meta)
    (σ : List Nat) :
    ∃ m', (concurrentUpdates fixed .spray (some m) acts σ).1.md = some m' ∧
      m'.remaining + m'.sent.length = m.remaining + m.sent.length ∧
      (1 ≤ m.remaining → 1 ≤ m'.remaining) := by
  obtain ⟨order, h1, _, h2, _⟩ := updates_linearizable .spray (some m) acts σ
  obtain ⟨m', e1, e2, e3⟩ := applyAll_spray_conserves (order.map (·.1)) (fun k hk => h k (h2 k hk)) m
  exact ⟨m', by rw [h1, e1], e2, e3⟩

/-! ### The node: forwarding steps -/

def relayedPeers (dest : Peer) (log : List Send) : List Peer := (relayed dest log).map (·.peer)

theorem relayed_append (d : Peer) (l₁ l₂ : List Send) :
    relayed d (l₁ ++ l₂) = relayed d l₁ ++ relayed d l₂ := by
  simp [relayed]

theorem relayedPeers_append (d : Peer) (l₁ l₂ : List Send) :
    relayedPeers d (l₁ ++ l₂) = relayedPeers d l₁ ++ relayedPeers d l₂ := by
  simp [relayedPeers, relayed_append]

theorem relayedPeers_length (d : Peer) (l : List Send) :
    (relayedPeers d l).length = (relayed d l).length := by simp [relayedPeers]

theorem dest_not_mem_relayedPeers (d : Peer) (l : List Send) : d ∉ relayedPeers d l := by
  simp only [relayedPeers, relayed, List.mem_map, List.mem_filter, not_exists, not_and]
  intro x hx hxd
  simp only [Bool.and_eq_true, bne_iff_ne] at hx
  exact hx.2.2 hxd

theorem forward_not_stored (P : Params) (s : Node) (e : Env) (h : s.stored = false) :
    forward P s e = s := by
  simp [forward, h]

theorem forward_stored (P : Params) (s : Node) (e : Env) (h : s.stored = true) :
    forward P s e =
      { s with md := (forwardReports P s e).1.md, log := s.log ++ mkSends s e (choose s e).1,
               stored := !((mkSends s e (choose s e).1).any (·.ok) && s.conn.contains s.dest) } := by
  simp [forward, h]

theorem forward_md (s : Node) (e : Env) (h : s.stored = true) :
    ∃ order : List (Peer × Nat),
      (forward fixed s e).md = giveBackAll fixed s.algo (choose s e).2 order ∧
      (∀ k ∈ order, k ∈ mkReports s.algo (mkSends s e (choose s e).1)) ∧
      (forwardComplete fixed s e = true → (choose s e).2.isSome →
        order.Perm (mkReports s.algo (mkSends s e (choose s e).1))) := by
  rw [forward_stored fixed s e h]
  exact reportFailures_linearizable s.algo (choose s e).2 _ e.sched

theorem mem_mkReports_spray {sends : List Send} {k : Peer × Nat} (h : k ∈ mkReports .spray sends) :
    k.2 = 1 ∧ ∃ x ∈ sends, x.ok = false ∧ x.peer = k.1 := by
  simp only [mkReports, List.mem_filterMap, List.mem_filter, Option.some.injEq] at h
  obtain ⟨x, ⟨hx, hok⟩, rfl⟩ := h
  exact ⟨rfl, x, hx, by simpa using hok, rfl⟩

theorem mkSends_ok_iff (s : Node) (e : Env) (cs : List Choice) {x : Send} (h : x ∈ mkSends s e cs) :
    x.ok = !(e.fails.contains x.peer) := by
  simp only [mkSends, List.mem_map] at h
  obtain ⟨c, _, rfl⟩ := h
  rfl

theorem mkSends_peers (s : Node) (e : Env) (cs : List Choice) :
    (mkSends s e cs).map (·.peer) = cs.map (·.peer) := by
  simp [mkSends, Function.comp_def]

/-- Invariant of an originated bundle under spray-and-wait (any schedules, complete or not). -/
structure SprayInv (s : Node) : Prop where
  budget : (relayed s.dest s.log).length ≤ s.l - 1
  md : ∀ m, s.md = some m →
    m.remaining + m.sent.length = s.l ∧ (relayedPeers s.dest s.log).Sublist m.sent ∧
    (1 ≤ s.l → 1 ≤ m.remaining)

/-- The three metadata clauses give the budget. -/
theorem budget_of_md {l : Nat} {d : Peer} {log : List Send} {m : Meta}
    (h1 : m.remaining + m.sent.length = l) (h2 : (relayedPeers d log).Sublist m.sent)
    (h3 : 1 ≤ l → 1 ≤ m.remaining) : (relayed d log).length ≤ l - 1 := by
  have := h2.length_le
  rw [relayedPeers_length] at this
  omega

theorem filter_map_sublist {α β} (q : α → Bool) (f : α → β) (l : List α) :
    ((l.filter q).map f).Sublist (l.map f) :=
  (List.filter_sublist (l := l) (p := q)).map f

theorem forward_sprayInv (s : Node) (e : Env) (ha : s.algo = .spray) (h : SprayInv s) :
    SprayInv (forward fixed s e) := by
  cases hst : s.stored with
  | false => rw [forward_not_stored _ _ _ hst]; exact h
  | true =>
  obtain ⟨order, hmd, hsub, _⟩ := forward_md s e hst
  have hlog : (forward fixed s e).log = s.log ++ mkSends s e (choose s e).1 := by
    rw [forward_stored fixed s e hst]
  have hl : (forward fixed s e).l = s.l := by rw [forward_stored fixed s e hst]
  have hd : (forward fixed s e).dest = s.dest := by rw [forward_stored fixed s e hst]
  -- reduce to: the metadata clauses hold for the new log and every metadata value reachable by reports
  suffices hkey :
      (relayed s.dest (s.log ++ mkSends s e (choose s e).1)).length ≤ s.l - 1 ∧
      ∀ m, giveBackAll fixed s.algo (choose s e).2 order = some m →
        m.remaining + m.sent.length = s.l ∧
        (relayedPeers s.dest (s.log ++ mkSends s e (choose s e).1)).Sublist m.sent ∧
        (1 ≤ s.l → 1 ≤ m.remaining) by
    refine ⟨by rw [hlog, hl, hd]; exact hkey.1, fun m hm => ?_⟩
    rw [hlog, hl, hd]; rw [hmd] at hm; exact hkey.2 m hm
  -- the reports concern failed sends of this step with one copy each
  have hrep : ∀ k ∈ order, k.2 = 1 ∧ ∃ x ∈ mkSends s e (choose s e).1, x.ok = false ∧ x.peer = k.1 := by
    intro k hk; have := hsub k hk; rw [ha] at this; exact mem_mkReports_spray this
  -- a peer whose send failed in this step is not among the successfully relayed ones of this step
  have hfailed_new : ∀ k ∈ order, k.1 ∉ relayedPeers s.dest (mkSends s e (choose s e).1) := by
    intro k hk hmem
    obtain ⟨_, x, hx, hxok, hxp⟩ := hrep k hk
    simp only [relayedPeers, relayed, List.mem_map, List.mem_filter] at hmem
    obtain ⟨y, ⟨hy, hyok⟩, hyp⟩ := hmem
    have h1 := mkSends_ok_iff s e _ hx
    have h2 := mkSends_ok_iff s e _ hy
    rw [hxp] at h1; rw [hyp] at h2
    simp only [Bool.and_eq_true] at hyok
    rw [h1] at hxok; rw [h2] at hyok; rw [hxok] at hyok; simp at hyok
  -- generic closing argument: clauses for md1 + reports that do not touch relayed peers
  have hclose : ∀ m1 : Meta,
      m1.remaining + m1.sent.length = s.l →
      (relayedPeers s.dest (s.log ++ mkSends s e (choose s e).1)).Sublist m1.sent →
      (1 ≤ s.l → 1 ≤ m1.remaining) →
      (∀ k ∈ order, k.1 ∉ relayedPeers s.dest (s.log ++ mkSends s e (choose s e).1)) →
      ∀ m, giveBackAll fixed s.algo (some m1) order = some m →
        m.remaining + m.sent.length = s.l ∧
        (relayedPeers s.dest (s.log ++ mkSends s e (choose s e).1)).Sublist m.sent ∧
        (1 ≤ s.l → 1 ≤ m.remaining) := by
    intro m1 c1 c2 c3 hnot m hm
    obtain ⟨m', hm', hq⟩ := giveBackAll_induct s.algo
      (fun m => m.remaining + m.sent.length = s.l ∧
        (relayedPeers s.dest (s.log ++ mkSends s e (choose s e).1)).Sublist m.sent ∧
        (1 ≤ s.l → 1 ≤ m.remaining)) order
      (fun k => k.2 = 1 ∧ k.1 ∉ relayedPeers s.dest (s.log ++ mkSends s e (choose s e).1))
      (fun k hk => ⟨(hrep k hk).1, hnot k hk⟩)
      (fun m f ⟨q1, q2, q3⟩ ⟨r1, r2⟩ => by
        refine ⟨?_, giveBack_sublist _ _ _ _ q2 r2, fun hl => ?_⟩
        · rw [r1, giveBack_conserves]; exact q1
        · exact Nat.le_trans (q3 hl) (giveBack_remaining_ge _ _ _ _))
      m1 ⟨c1, c2, c3⟩
    rw [hm'] at hm; cases hm; exact hq
  by_cases hdir : s.conn.contains s.dest = true
  · -- direct delivery: the algorithm is not consulted, nothing is relayed
    have hch : choose s e = ([⟨s.dest, none⟩], s.md) := by unfold choose; rw [if_pos hdir]
    have hrel : relayed s.dest (mkSends s e (choose s e).1) = [] := by
      rw [hch]; simp [mkSends, relayed]
    have hrelp : relayedPeers s.dest (s.log ++ mkSends s e (choose s e).1) = relayedPeers s.dest s.log := by
      simp [relayedPeers, relayed_append, hrel]
    refine ⟨by rw [relayed_append, hrel]; simpa using h.budget, fun m hm => ?_⟩
    rw [hch] at hm
    cases hmd0 : s.md with
    | none => rw [hmd0] at hm; simp only at hm; rw [giveBackAll_none] at hm; cases hm
    | some m0 =>
      rw [hmd0] at hm
      obtain ⟨c1, c2, c3⟩ := h.md m0 hmd0
      refine hclose m0 c1 (by rw [hrelp]; exact c2) c3 (fun k hk => ?_) m hm
      rw [hrelp]
      obtain ⟨_, x, hx, _, hxp⟩ := hrep k hk
      rw [hch] at hx
      simp only [mkSends, List.map_cons, List.map_nil, List.mem_singleton] at hx
      rw [← hxp, hx]
      exact dest_not_mem_relayedPeers _ _
  · -- SenderForBundle
    have hch : choose s e = senderForBundle .spray (e.order.filter (fun p => s.conn.contains p)) s.md := by
      unfold choose; rw [if_neg hdir, ha]
    cases hmd0 : s.md with
    | none =>
      have hch' : choose s e = ([], none) := by rw [hch, hmd0]; rfl
      refine ⟨by rw [hch']; simpa [mkSends] using h.budget, fun m hm => ?_⟩
      rw [hch'] at hm; simp only at hm; rw [giveBackAll_none] at hm; cases hm
    | some m0 =>
      obtain ⟨c1, c2, c3⟩ := h.md m0 hmd0
      by_cases hlt : m0.remaining < 2
      · have hch' : choose s e = ([], some m0) := by rw [hch, hmd0]; simp [senderForBundle, hlt]
        have hrelp : relayedPeers s.dest (s.log ++ mkSends s e (choose s e).1) = relayedPeers s.dest s.log := by
          rw [hch']; simp [mkSends]
        refine ⟨by rw [hch']; simpa [mkSends] using h.budget, fun m hm => ?_⟩
        rw [hch'] at hm
        refine hclose m0 c1 (by rw [hrelp]; exact c2) c3 (fun k hk => ?_) m hm
        obtain ⟨_, x, hx, _, _⟩ := hrep k hk
        rw [hch'] at hx; simp [mkSends] at hx
      · have hch' : choose s e =
            ((sprayPick (e.order.filter (fun p => s.conn.contains p)) m0).1.map (fun p => ⟨p, none⟩),
             some (sprayPick (e.order.filter (fun p => s.conn.contains p)) m0).2) := by
          rw [hch, hmd0]; simp [senderForBundle, hlt]
        obtain ⟨p1, p2, p3, _, p5⟩ := sprayPick_spec (e.order.filter (fun p => s.conn.contains p)) m0
        generalize sprayPick (e.order.filter (fun p => s.conn.contains p)) m0 = r at hch' p1 p2 p3 p5
        have hpeers : (mkSends s e (choose s e).1).map (·.peer) = r.1 := by
          rw [mkSends_peers, hch']; simp [Function.comp_def]
        -- clauses for the metadata written by SenderForBundle
        have d1 : r.2.remaining + r.2.sent.length = s.l := by
          rw [p1, List.length_append]; omega
        have d2 : (relayedPeers s.dest (s.log ++ mkSends s e (choose s e).1)).Sublist r.2.sent := by
          rw [relayedPeers_append, p1]
          refine List.Sublist.append c2 ?_
          rw [← hpeers]
          exact filter_map_sublist _ _ _
        have d3 : 1 ≤ s.l → 1 ≤ r.2.remaining := fun hl => p3 (c3 hl)
        have hall : ∀ m, giveBackAll fixed s.algo (choose s e).2 order = some m →
            m.remaining + m.sent.length = s.l ∧
            (relayedPeers s.dest (s.log ++ mkSends s e (choose s e).1)).Sublist m.sent ∧
            (1 ≤ s.l → 1 ≤ m.remaining) := by
          intro m hm
          rw [hch'] at hm
          refine hclose r.2 d1 d2 d3 (fun k hk => ?_) m hm
          rw [relayedPeers_append]
          intro hmem
          rcases List.mem_append.mp hmem with hold | hnew
          · -- a peer picked now was not in `sent`, hence not relayed before
            obtain ⟨_, x, hx, _, hxp⟩ := hrep k hk
            have : x.peer ∈ r.1 := by rw [← hpeers]; exact List.mem_map_of_mem hx
            rw [hxp] at this
            exact (p5 k.1 this).1 (c2.subset hold)
          · exact hfailed_new k hk hnew
        obtain ⟨mfin, hmfin⟩ := giveBackAll_some fixed s.algo r.2 order
        have hfin := hall mfin (by rw [hch']; exact hmfin)
        exact ⟨budget_of_md hfin.1 hfin.2.1 hfin.2.2, hall⟩

/-! ### Steps and histories -/

/-- The configuration of the node does not change. -/
theorem forward_config (P : Params) (s : Node) (e : Env) :
    (forward P s e).algo = s.algo ∧ (forward P s e).l = s.l ∧ (forward P s e).dest = s.dest ∧
    (forward P s e).bblock = s.bblock ∧ (forward P s e).conn = s.conn := by
  cases hst : s.stored with
  | false => rw [forward_not_stored _ _ _ hst]; simp
  | true => rw [forward_stored _ _ _ hst]; simp

theorem prepare_config (s : Node) (ev : Event) :
    (prepare s ev).1.algo = s.algo ∧ (prepare s ev).1.l = s.l ∧ (prepare s ev).1.dest = s.dest := by
  cases ev <;> simp [prepare]

theorem step_config (P : Params) (s : Node) (ev : Event) :
    (step P s ev).algo = s.algo ∧ (step P s ev).l = s.l ∧ (step P s ev).dest = s.dest := by
  have hp := prepare_config s ev
  unfold step
  split
  · next s' e heq =>
    have hf := forward_config P s' e
    rw [heq] at hp
    exact ⟨hf.1.trans hp.1, hf.2.1.trans hp.2.1, hf.2.2.1.trans hp.2.2⟩
  · next s' heq => rw [heq] at hp; exact hp

theorem run_config (P : Params) (s : Node) (evs : List Event) :
    (run P s evs).algo = s.algo ∧ (run P s evs).l = s.l ∧ (run P s evs).dest = s.dest := by
  induction evs generalizing s with
  | nil => exact ⟨rfl, rfl, rfl⟩
  | cons ev evs ih =>
    have h1 := step_config P s ev
    have h2 := ih (step P s ev)
    simp only [run, List.foldl_cons] at h2 ⊢
    exact ⟨h2.1.trans h1.1, h2.2.1.trans h1.2.1, h2.2.2.trans h1.2.2⟩

theorem run_append (P : Params) (s : Node) (e₁ e₂ : List Event) :
    run P s (e₁ ++ e₂) = run P (run P s e₁) e₂ := by simp [run, List.foldl_append]

theorem run_cons (P : Params) (s : Node) (ev : Event) (evs : List Event) :
    run P s (ev :: evs) = run P (step P s ev) evs := rfl

/-- Before the bundle enters the node nothing is stored, nothing is sent. -/
def Fresh (s : Node) : Prop := s.stored = false ∧ s.log = []

theorem step_fresh (P : Params) (s : Node) (ev : Event) (hne : ev.isEntry = false) (h : Fresh s) :
    Fresh (step P s ev) := by
  cases ev with
  | submit e => simp [Event.isEntry] at hne
  | receive b p e => simp [Event.isEntry] at hne
  | peerUp p e =>
    simp only [step, prepare]
    rw [forward_not_stored _ _ _ (by exact h.1)]; exact h
  | peerDown p => exact h
  | tick e => simp only [step, prepare]; rw [forward_not_stored _ _ _ h.1]; exact h
  | restart => exact h
  | loopback b p => exact h

theorem run_fresh (P : Params) (s : Node) (evs : List Event) (hne : ∀ ev ∈ evs, ev.isEntry = false)
    (h : Fresh s) : Fresh (run P s evs) := by
  induction evs generalizing s with
  | nil => exact h
  | cons ev evs ih =>
    rw [run_cons]
    exact ih _ (fun x hx => hne x (List.mem_cons_of_mem _ hx)) (step_fresh P s ev (hne ev (List.mem_cons_self ..)) h)

/-- A property of the node that survives the bookkeeping part of every non-entry event and every
forwarding step survives every history without entry events. -/
theorem run_preserves (Q : Node → Prop)
    (hprep : ∀ s ev, ev.isEntry = false → Q s → Q (prepare s ev).1)
    (hfwd : ∀ s e, Q s → Q (forward fixed s e))
    (s : Node) (evs : List Event) (hne : ∀ ev ∈ evs, ev.isEntry = false) (h : Q s) :
    Q (run fixed s evs) := by
  induction evs generalizing s with
  | nil => exact h
  | cons ev evs ih =>
    rw [run_cons]
    refine ih _ (fun x hx => hne x (List.mem_cons_of_mem _ hx)) ?_
    have := hprep s ev (hne ev (List.mem_cons_self ..)) h
    unfold step
    split
    · next s' e heq => rw [heq] at this; exact hfwd s' e this
    · next s' heq => rw [heq] at this; exact this

theorem prepare_sprayInv (s : Node) (ev : Event) (hne : ev.isEntry = false)
    (h : s.algo = .spray ∧ SprayInv s) : (prepare s ev).1.algo = .spray ∧ SprayInv (prepare s ev).1 := by
  obtain ⟨ha, h⟩ := h
  cases ev with
  | submit e => simp [Event.isEntry] at hne
  | receive b p e => simp [Event.isEntry] at hne
  | peerUp p e => exact ⟨ha, ⟨h.budget, h.md⟩⟩
  | peerDown p => exact ⟨ha, ⟨h.budget, h.md⟩⟩
  | tick e => exact ⟨ha, h⟩
  | restart => exact ⟨ha, ⟨h.budget, fun m hm => by simp [prepare] at hm⟩⟩
  | loopback b p => exact ⟨ha, h⟩

theorem submit_sprayInv (s : Node) (e : Env) (ha : s.algo = .spray) (hf : Fresh s) :
    SprayInv (step fixed s (.submit e)) := by
  simp only [step, prepare]
  refine forward_sprayInv _ e ha ⟨?_, ?_⟩
  · simp [hf.2, relayed]
  · intro m hm
    simp only [notify, ha, Option.some.injEq] at hm
    subst hm
    simp [hf.2, relayedPeers, relayed]

/-- Spray-and-wait, bundle originated here: the invariant holds after every history
`pre ++ submit :: rest` in which the bundle enters the node once. -/
theorem spray_run_inv (s : Node) (ha : s.algo = .spray) (hf : Fresh s) (pre rest : List Event)
    (e : Env) (hpre : ∀ ev ∈ pre, ev.isEntry = false) (hrest : ∀ ev ∈ rest, ev.isEntry = false) :
    SprayInv (run fixed s (pre ++ .submit e :: rest)) := by
  rw [run_append, run_cons]
  have hc := run_config fixed s pre
  have h1 : SprayInv (step fixed (run fixed s pre) (.submit e)) :=
    submit_sprayInv _ e (hc.1.trans ha) (run_fresh fixed s pre hpre hf)
  have ha1 : (step fixed (run fixed s pre) (.submit e)).algo = .spray :=
    (step_config fixed _ _).1.trans (hc.1.trans ha)
  exact (run_preserves (fun s => s.algo = .spray ∧ SprayInv s) prepare_sprayInv
    (fun s e h => ⟨(forward_config fixed s e).1.trans h.1, forward_sprayInv s e h.1 h.2⟩)
    _ rest hrest ⟨ha1, h1⟩).2

/-! ### Complete schedules: exact accounting -/

theorem length_filter_partition {α} (q : α → Bool) (l : List α) :
    (l.filter q).length + (l.filter (fun x => !q x)).length = l.length := by
  induction l with
  | nil => rfl
  | cons x xs ih => cases hq : q x <;> simp [hq] <;> omega

theorem sum_snd_eq_length (l : List (Peer × Nat)) (h : ∀ k ∈ l, k.2 = 1) :
    (l.map (·.2)).sum = l.length := by
  induction l with
  | nil => rfl
  | cons x xs ih =>
    simp only [List.map_cons, List.sum_cons, List.length_cons]
    rw [ih (fun k hk => h k (List.mem_cons_of_mem _ hk)), h x (List.mem_cons_self ..)]; omega

theorem forwardSends_stored (s : Node) (e : Env) (h : s.stored = true) :
    forwardSends s e = mkSends s e (choose s e).1 := by simp [forwardSends, h]

theorem mkReports_spray_fst (sends : List Send) :
    (mkReports .spray sends).map (·.1) = (sends.filter (fun x => !x.ok)).map (·.peer) := by
  simp only [mkReports]
  induction sends.filter (fun x => !x.ok) with
  | nil => rfl
  | cons x xs ih => simp

theorem mkReports_spray_length (sends : List Send) :
    (mkReports .spray sends).length = (sends.filter (fun x => !x.ok)).length := by
  have := congrArg List.length (mkReports_spray_fst sends)
  simpa using this

/-- If nobody that is reported is in `sent`, the reports change nothing. -/
theorem giveBackAll_noop (a : Algo) (m : Meta) (order : List (Peer × Nat))
    (h : ∀ k ∈ order, k.1 ∉ m.sent) : giveBackAll fixed a (some m) order = some m := by
  obtain ⟨m', hm', hq⟩ := giveBackAll_induct a (fun x => x = m) order (fun k => k.1 ∉ m.sent) h
    (fun x f hx hf => by subst hx; exact giveBack_not_mem hf) m rfl
  rw [hm', hq]

theorem not_direct_of_mem_cands {s : Node} {e : Env} {p : Peer}
    (hdir : ¬ s.conn.contains s.dest = true)
    (hp : p ∈ e.order.filter (fun p => s.conn.contains p)) : p ≠ s.dest := by
  intro h
  simp only [List.mem_filter] at hp
  rw [h] at hp
  exact hdir hp.2

/-- Spray-and-wait, one forwarding step whose failure reports all finish: the count drops by the
number of successful transmissions to non-destination peers, `sent` grows by the same number. -/
theorem forward_spray_exact (s : Node) (e : Env) (ha : s.algo = .spray) (hst : s.stored = true)
    (m : Meta) (hm : s.md = some m) (hd : s.dest ∉ m.sent)
    (hc : forwardComplete fixed s e = true) :
    ∃ m', (forward fixed s e).md = some m' ∧ s.dest ∉ m'.sent ∧
      m'.remaining + (relayed s.dest (forwardSends s e)).length = m.remaining ∧
      m'.sent.length = m.sent.length + (relayed s.dest (forwardSends s e)).length := by
  obtain ⟨order, hmd, hsub, hperm⟩ := forward_md s e hst
  rw [forwardSends_stored s e hst]
  have hrep : ∀ k ∈ order, k.2 = 1 ∧ ∃ x ∈ mkSends s e (choose s e).1, x.ok = false ∧ x.peer = k.1 := by
    intro k hk; have := hsub k hk; rw [ha] at this; exact mem_mkReports_spray this
  by_cases hdir : s.conn.contains s.dest = true
  · have hch : choose s e = ([⟨s.dest, none⟩], s.md) := by unfold choose; rw [if_pos hdir]
    have hrel : relayed s.dest (mkSends s e (choose s e).1) = [] := by
      rw [hch]; simp [mkSends, relayed]
    refine ⟨m, ?_, hd, by simp [hrel], by simp [hrel]⟩
    rw [hmd, hch, hm]
    refine giveBackAll_noop _ m order (fun k hk => ?_)
    obtain ⟨_, x, hx, _, hxp⟩ := hrep k hk
    rw [hch] at hx
    simp only [mkSends, List.map_cons, List.map_nil, List.mem_singleton] at hx
    rw [← hxp, hx]; exact hd
  · have hch : choose s e = senderForBundle .spray (e.order.filter (fun p => s.conn.contains p)) s.md := by
      unfold choose; rw [if_neg hdir, ha]
    by_cases hlt : m.remaining < 2
    · have hch' : choose s e = ([], some m) := by rw [hch, hm]; simp [senderForBundle, hlt]
      refine ⟨m, ?_, hd, by rw [hch']; simp [mkSends, relayed], by rw [hch']; simp [mkSends, relayed]⟩
      rw [hmd, hch']
      refine giveBackAll_noop _ m order (fun k hk => ?_)
      obtain ⟨_, x, hx, _, _⟩ := hrep k hk
      rw [hch'] at hx; simp [mkSends] at hx
    · have hch' : choose s e =
          ((sprayPick (e.order.filter (fun p => s.conn.contains p)) m).1.map (fun p => ⟨p, none⟩),
           some (sprayPick (e.order.filter (fun p => s.conn.contains p)) m).2) := by
        rw [hch, hm]; simp [senderForBundle, hlt]
      obtain ⟨p1, p2, _, p4, p5⟩ := sprayPick_spec (e.order.filter (fun p => s.conn.contains p)) m
      generalize sprayPick (e.order.filter (fun p => s.conn.contains p)) m = r at hch' p1 p2 p4 p5
      have hpeers : (mkSends s e (choose s e).1).map (·.peer) = r.1 := by
        rw [mkSends_peers, hch']; simp [Function.comp_def]
      have hlen : (mkSends s e (choose s e).1).length = r.1.length := by
        rw [← hpeers]; simp
      -- no pick is the destination
      have hnd : ∀ x ∈ mkSends s e (choose s e).1, x.peer ≠ s.dest := by
        intro x hx
        have : x.peer ∈ r.1 := by rw [← hpeers]; exact List.mem_map_of_mem hx
        exact not_direct_of_mem_cands hdir (p5 _ this).2
      have hrel : relayed s.dest (mkSends s e (choose s e).1)
          = (mkSends s e (choose s e).1).filter (·.ok) := by
        unfold relayed
        apply List.filter_congr
        intro x hx
        have := hnd x hx
        simp [this]
      -- the reports: all of them, each for a distinct peer recorded in `sent`
      have hperm' := hperm hc (by rw [hch']; rfl)
      rw [ha] at hperm'
      have hfst : (order.map (·.1)).Perm ((mkSends s e (choose s e).1).filter (fun x => !x.ok) |>.map (·.peer)) := by
        rw [← mkReports_spray_fst]; exact hperm'.map _
      have hsubl : (((mkSends s e (choose s e).1).filter (fun x => !x.ok)).map (·.peer)).Sublist r.1 := by
        rw [← hpeers]; exact filter_map_sublist _ _ _
      have hnodup : (order.map (·.1)).Nodup := hfst.nodup_iff.mpr (hsubl.nodup p4)
      have hin : ∀ f ∈ order, f.1 ∈ r.2.sent := by
        intro f hf
        have : f.1 ∈ order.map (·.1) := List.mem_map_of_mem hf
        rw [p1]
        exact List.mem_append_right _ (hsubl.subset (hfst.subset this))
      obtain ⟨m', e1, e2, e3, _, _, e6⟩ := giveBackAll_exact .spray order r.2 hnodup hin
      have hsum := sum_snd_eq_length order (fun k hk => (hrep k hk).1)
      have holen : order.length = ((mkSends s e (choose s e).1).filter (fun x => !x.ok)).length := by
        rw [hperm'.length_eq, mkReports_spray_length]
      have hpart := length_filter_partition (fun x : Send => x.ok) (mkSends s e (choose s e).1)
      refine ⟨m', by rw [hmd, hch', ha]; exact e1, ?_, ?_, ?_⟩
      · intro hmem
        have := e6.subset hmem
        rw [p1] at this
        rcases List.mem_append.mp this with h1 | h2
        · exact hd h1
        · exact not_direct_of_mem_cands hdir (p5 _ h2).2 rfl
      · rw [hrel, e2, hsum]; omega
      · rw [hrel]
        have : r.2.sent.length = m.sent.length + r.1.length := by rw [p1]; simp
        omega

theorem forward_log (P : Params) (s : Node) (e : Env) :
    (forward P s e).log = s.log ++ forwardSends s e := by
  cases hst : s.stored with
  | false => rw [forward_not_stored _ _ _ hst]; simp [forwardSends, hst]
  | true => rw [forward_stored _ _ _ hst, forwardSends_stored _ _ hst]

/-- With complete schedules the `sent` list of an originated bundle is exactly as long as the list of
successful relays (and never contains the destination). -/
def QInv (s : Node) : Prop :=
  ∀ m, s.md = some m → s.dest ∉ m.sent ∧ m.sent.length = (relayed s.dest s.log).length

theorem forward_qinv (s : Node) (e : Env) (ha : s.algo = .spray)
    (hc : forwardComplete fixed s e = true) (h : QInv s) : QInv (forward fixed s e) := by
  cases hst : s.stored with
  | false => rw [forward_not_stored _ _ _ hst]; exact h
  | true =>
    intro m' hm'
    have hcfg := forward_config fixed s e
    rw [hcfg.2.2.1, forward_log, relayed_append]
    cases hm : s.md with
    | none =>
      obtain ⟨order, hmd, _, _⟩ := forward_md s e hst
      have hch : (choose s e).2 = none := by
        unfold choose; split
        · exact hm
        · rw [hm]; rfl
      rw [hmd, hch, giveBackAll_none] at hm'; cases hm'
    | some m =>
      obtain ⟨hd, hlen⟩ := h m hm
      obtain ⟨m'', e1, e2, _, e4⟩ := forward_spray_exact s e ha hst m hm hd hc
      rw [e1] at hm'; cases hm'
      exact ⟨e2, by rw [e4, hlen]; simp⟩

theorem run_preserves_complete (Q : Node → Prop)
    (hprep : ∀ s ev, ev.isEntry = false → Q s → Q (prepare s ev).1)
    (hfwd : ∀ s e, forwardComplete fixed s e = true → Q s → Q (forward fixed s e))
    (s : Node) (evs : List Event) (hne : ∀ ev ∈ evs, ev.isEntry = false)
    (hc : runComplete fixed s evs = true) (h : Q s) : Q (run fixed s evs) := by
  induction evs generalizing s with
  | nil => exact h
  | cons ev evs ih =>
    rw [run_cons]
    simp only [runComplete, Bool.and_eq_true] at hc
    refine ih _ (fun x hx => hne x (List.mem_cons_of_mem _ hx)) hc.2 ?_
    have := hprep s ev (hne ev (List.mem_cons_self ..)) h
    have hsc := hc.1
    unfold stepComplete at hsc
    unfold step
    split
    · next s' e heq => rw [heq] at this hsc; exact hfwd s' e hsc this
    · next s' heq => rw [heq] at this; exact this

theorem runComplete_append (P : Params) (s : Node) (e₁ e₂ : List Event) :
    runComplete P s (e₁ ++ e₂) = (runComplete P s e₁ && runComplete P (run P s e₁) e₂) := by
  induction e₁ generalizing s with
  | nil => simp [runComplete, run]
  | cons ev evs ih => simp [runComplete, run_cons, ih, Bool.and_assoc]

theorem prepare_qinv (s : Node) (ev : Event) (hne : ev.isEntry = false)
    (h : s.algo = .spray ∧ QInv s) : (prepare s ev).1.algo = .spray ∧ QInv (prepare s ev).1 := by
  obtain ⟨ha, h⟩ := h
  cases ev with
  | submit e => simp [Event.isEntry] at hne
  | receive b p e => simp [Event.isEntry] at hne
  | peerUp p e => exact ⟨ha, h⟩
  | peerDown p => exact ⟨ha, h⟩
  | tick e => exact ⟨ha, h⟩
  | restart => exact ⟨ha, fun m hm => by simp [prepare] at hm⟩
  | loopback b p => exact ⟨ha, h⟩

theorem spray_run_qinv (s : Node) (ha : s.algo = .spray) (hf : Fresh s) (pre rest : List Event)
    (e : Env) (hpre : ∀ ev ∈ pre, ev.isEntry = false) (hrest : ∀ ev ∈ rest, ev.isEntry = false)
    (hc : runComplete fixed s (pre ++ .submit e :: rest) = true) :
    QInv (run fixed s (pre ++ .submit e :: rest)) := by
  rw [runComplete_append] at hc
  simp only [Bool.and_eq_true, runComplete] at hc
  obtain ⟨_, hc1, hc2⟩ := hc
  rw [run_append, run_cons]
  have hcfg := run_config fixed s pre
  have hfr := run_fresh fixed s pre hpre hf
  have ha0 : (run fixed s pre).algo = .spray := hcfg.1.trans ha
  have ha1 : (step fixed (run fixed s pre) (.submit e)).algo = .spray :=
    (step_config fixed _ _).1.trans ha0
  have h1 : QInv (step fixed (run fixed s pre) (.submit e)) := by
    simp only [stepComplete, prepare] at hc1
    simp only [step, prepare]
    refine forward_qinv _ e ha0 hc1 ?_
    intro m hm
    simp only [notify, ha0, Option.some.injEq] at hm
    subst hm
    simp [hfr.2, relayed]
  exact (run_preserves_complete (fun s => s.algo = .spray ∧ QInv s) prepare_qinv
    (fun s e hc h => ⟨(forward_config fixed s e).1.trans h.1, forward_qinv s e h.1 hc h.2⟩)
    _ rest hrest hc2 ⟨ha1, h1⟩).2

/-! ### A node without spare copies waits for the destination (both algorithms, every schedule) -/

theorem mem_mkReports_peer {a : Algo} {sends : List Send} {k : Peer × Nat} (h : k ∈ mkReports a sends) :
    ∃ x ∈ sends, x.ok = false ∧ x.peer = k.1 := by
  simp only [mkReports, List.mem_filterMap, List.mem_filter] at h
  obtain ⟨x, ⟨hx, hok⟩, hk⟩ := h
  refine ⟨x, hx, by simpa using hok, ?_⟩
  cases a with
  | spray => simp only [Option.some.injEq] at hk; rw [← hk]
  | binary =>
    simp only [Option.map_eq_some_iff] at hk
    obtain ⟨_, _, rfl⟩ := hk; rfl

theorem forward_waits (s : Node) (e : Env)
    (h : ∀ m, s.md = some m → m.remaining < 2 ∧ s.dest ∉ m.sent) :
    (forward fixed s e).md = s.md ∧ ∀ x ∈ forwardSends s e, x.peer = s.dest := by
  cases hst : s.stored with
  | false => rw [forward_not_stored _ _ _ hst]; simp [forwardSends, hst]
  | true =>
    obtain ⟨order, hmd, hsub, _⟩ := forward_md s e hst
    rw [forwardSends_stored _ _ hst]
    have hch : choose s e = ([⟨s.dest, none⟩], s.md) ∨ choose s e = ([], s.md) := by
      unfold choose
      split
      · exact Or.inl rfl
      · right
        cases hm : s.md with
        | none => rfl
        | some m => simp [senderForBundle, (h m hm).1]
    have hsends : ∀ x ∈ mkSends s e (choose s e).1, x.peer = s.dest := by
      intro x hx
      rcases hch with hch | hch <;> rw [hch] at hx <;> simp [mkSends] at hx
      rw [hx]
    refine ⟨?_, hsends⟩
    have h2 : (choose s e).2 = s.md := by rcases hch with hch | hch <;> rw [hch]
    rw [hmd, h2]
    cases hm : s.md with
    | none => exact giveBackAll_none _ _ _
    | some m =>
      refine giveBackAll_noop _ m order (fun k hk => ?_)
      obtain ⟨x, hx, _, hxp⟩ := mem_mkReports_peer (hsub k hk)
      rw [← hxp, hsends x hx]
      exact (h m hm).2

/-- Every history without a new entry: a node holding fewer than two copies (or none at all after a
restart) only ever transmits to the destination, and its count does not change. -/
theorem waits_run (s : Node) (evs : List Event) (hne : ∀ ev ∈ evs, ev.isEntry = false)
    (h : ∀ m, s.md = some m → m.remaining < 2 ∧ s.dest ∉ m.sent) :
    (∀ x ∈ (run fixed s evs).log, x ∈ s.log ∨ x.peer = s.dest) ∧
    (∀ m, (run fixed s evs).md = some m → m.remaining < 2) := by
  have := run_preserves
    (fun t => t.dest = s.dest ∧ (∀ m, t.md = some m → m.remaining < 2 ∧ s.dest ∉ m.sent) ∧
      ∀ x ∈ t.log, x ∈ s.log ∨ x.peer = s.dest)
    (fun t ev hev ⟨q1, q2, q3⟩ => by
      cases ev with
      | submit e => simp [Event.isEntry] at hev
      | receive b p e => simp [Event.isEntry] at hev
      | peerUp p e => exact ⟨q1, q2, q3⟩
      | peerDown p => exact ⟨q1, q2, q3⟩
      | tick e => exact ⟨q1, q2, q3⟩
      | restart => exact ⟨q1, fun m hm => by simp [prepare] at hm, q3⟩
      | loopback b p => exact ⟨q1, q2, q3⟩)
    (fun t e ⟨q1, q2, q3⟩ => by
      have hw := forward_waits t e (fun m hm => by rw [q1]; exact q2 m hm)
      refine ⟨(forward_config fixed t e).2.2.1.trans q1, fun m hm => q2 m (by rw [← hw.1]; exact hm), ?_⟩
      intro x hx
      rw [forward_log] at hx
      rcases List.mem_append.mp hx with hx | hx
      · exact q3 x hx
      · exact Or.inr (by rw [hw.2 x hx, q1]))
    s evs hne ⟨rfl, h, fun x hx => Or.inl hx⟩
  exact ⟨this.2.2, fun m hm => (this.2.1 m hm).1⟩

/-! ### Binary spray -/

theorem perm_singleton_eq {α} {l : List α} {a : α} (h : l.Perm [a]) : l = [a] :=
  List.perm_singleton.mp h

/-- Binary spray, one forwarding step whose failure report (if any) finishes. -/
theorem forward_binary_exact (s : Node) (e : Env) (ha : s.algo = .binary) (hst : s.stored = true)
    (m : Meta) (hm : s.md = some m) (hd : s.dest ∉ m.sent)
    (hc : forwardComplete fixed s e = true) :
    ∃ m', (forward fixed s e).md = some m' ∧ s.dest ∉ m'.sent ∧
      (∀ x ∈ forwardSends s e, x.peer ≠ s.dest →
        2 ≤ m.remaining ∧ BinarySplit m.remaining x m'.remaining ∧ (x.ok = false → m' = m) ∧
        forwardSends s e = [x]) ∧
      ((∀ x ∈ forwardSends s e, x.peer = s.dest) → m' = m) := by
  obtain ⟨order, hmd, hsub, hperm⟩ := forward_md s e hst
  rw [forwardSends_stored s e hst]
  -- the cases in which nothing is relayed
  have hnone : ∀ cs, choose s e = (cs, some m) → (∀ c ∈ cs, c.peer = s.dest) →
      ∃ m', (forward fixed s e).md = some m' ∧ s.dest ∉ m'.sent ∧
      (∀ x ∈ mkSends s e (choose s e).1, x.peer ≠ s.dest →
        2 ≤ m.remaining ∧ BinarySplit m.remaining x m'.remaining ∧ (x.ok = false → m' = m) ∧
        mkSends s e (choose s e).1 = [x]) ∧
      ((∀ x ∈ mkSends s e (choose s e).1, x.peer = s.dest) → m' = m) := by
    intro cs hch hcs
    have hall : ∀ x ∈ mkSends s e (choose s e).1, x.peer = s.dest := by
      intro x hx
      have : x.peer ∈ (mkSends s e (choose s e).1).map (·.peer) := List.mem_map_of_mem hx
      rw [mkSends_peers, hch] at this
      obtain ⟨c, hc', hcp⟩ := List.mem_map.mp this
      rw [← hcp]; exact hcs c hc'
    refine ⟨m, ?_, hd, fun x hx hne => absurd (hall x hx) hne, fun _ => rfl⟩
    rw [hmd, hch]
    refine giveBackAll_noop _ m order (fun k hk => ?_)
    obtain ⟨x, hx, _, hxp⟩ := mem_mkReports_peer (hsub k hk)
    rw [← hxp, hall x hx]; exact hd
  by_cases hdir : s.conn.contains s.dest = true
  · exact hnone [⟨s.dest, none⟩] (by unfold choose; rw [if_pos hdir, hm]) (by simp)
  · have hch : choose s e = senderForBundle .binary (e.order.filter (fun p => s.conn.contains p)) s.md := by
      unfold choose; rw [if_neg hdir, ha]
    by_cases hlt : m.remaining < 2
    · exact hnone [] (by rw [hch, hm]; simp [senderForBundle, hlt]) (by simp)
    · cases hbp : binaryPick (e.order.filter (fun p => s.conn.contains p)) m with
      | none => exact hnone [] (by rw [hch, hm]; simp only [senderForBundle, hlt, ↓reduceIte, hbp]) (by simp)
      | some r =>
        obtain ⟨p, send, m1⟩ := r
        -- what binaryPick returns
        have hspec : p ∈ e.order.filter (fun p => s.conn.contains p) ∧ p ∉ m.sent ∧
            send = m.remaining / 2 ∧ m1 = ⟨m.sent ++ [p], m.remaining - m.remaining / 2⟩ := by
          unfold binaryPick at hbp
          split at hbp
          · cases hbp
          · next q hq =>
            simp only [Option.some.injEq, Prod.mk.injEq] at hbp
            obtain ⟨rfl, rfl, rfl⟩ := hbp
            have := List.find?_some hq
            exact ⟨List.mem_of_find?_eq_some hq, by simpa using this, rfl, rfl⟩
        obtain ⟨hp1, hp2, rfl, rfl⟩ := hspec
        have hpd : p ≠ s.dest := not_direct_of_mem_cands hdir hp1
        have hch' : choose s e = ([⟨p, some (m.remaining / 2)⟩],
            some ⟨m.sent ++ [p], m.remaining - m.remaining / 2⟩) := by
          rw [hch, hm]; simp only [senderForBundle, hlt, ↓reduceIte, hbp]
        have hsends : mkSends s e (choose s e).1 =
            [⟨p, !(e.fails.contains p), some (m.remaining / 2)⟩] := by rw [hch']; rfl
        have herase : (m.sent ++ [p]).erase p = m.sent := by
          rw [List.erase_append_right _ hp2]; simp
        cases hok : e.fails.contains p with
        | false =>
          -- success: nothing is reported
          have hrep : mkReports s.algo (mkSends s e (choose s e).1) = [] := by
            rw [hsends, hok]; simp [mkReports]
          have hord : order = [] := by
            cases order with
            | nil => rfl
            | cons k ks => have := hsub k (List.mem_cons_self ..); rw [hrep] at this; cases this
          refine ⟨⟨m.sent ++ [p], m.remaining - m.remaining / 2⟩, ?_, ?_, ?_, ?_⟩
          · rw [hmd, hch', hord]; rfl
          · intro hmem; rcases List.mem_append.mp hmem with h | h
            · exact hd h
            · simp only [List.mem_singleton] at h; exact hpd h.symm
          · intro x hx _
            rw [hsends, hok] at hx ⊢
            simp only [List.mem_singleton] at hx; subst hx
            refine ⟨by omega, ⟨rfl, ?_⟩, fun h => by simp at h, rfl⟩
            simp only [Bool.not_false, if_true]; omega
          · intro hall
            have := hall _ (by rw [hsends]; exact List.mem_cons_self ..)
            exact absurd this hpd
        | true =>
          -- failure: the one report gives the announced copies back
          have hrep : mkReports s.algo (mkSends s e (choose s e).1) = [(p, m.remaining / 2)] := by
            rw [hsends, hok, ha]; simp [mkReports]
          have hord : order = [(p, m.remaining / 2)] := by
            have := hperm hc (by rw [hch']; rfl)
            rw [hrep] at this; exact perm_singleton_eq this
          have hfin : (forward fixed s e).md = some m := by
            rw [hmd, hch', hord, ha]
            simp only [giveBackAll, List.foldl_cons, List.foldl_nil, Option.map_some]
            rw [giveBack_binary_mem (by simp)]
            simp only [herase]
            congr 2
            omega
          refine ⟨m, hfin, hd, ?_, fun _ => rfl⟩
          intro x hx _
          rw [hsends, hok] at hx ⊢
          simp only [List.mem_singleton] at hx; subst hx
          exact ⟨by omega, ⟨rfl, by simp⟩, fun _ => rfl, rfl⟩

end Dtn7.Spray.Lemmas
